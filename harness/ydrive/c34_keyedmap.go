//go:build verif

package main

// c34_keyedmap.go — stream "keyedmap" (property C34): the generated New / GetOrCreate / Get /
// Append / Delete / Rename helpers (and GetOrCreateXMap) of every keyed list of the corpus are
// driven through sequences of calls, by reflection.
//   - every sequence becomes a Coq case (Corr/KeyedMapCorr.v) replayed by the model of
//     Gen/KeyedMap.v;
//   - a keyed map written in plain Go (keyed by the YANG key value) runs in lockstep (the
//     oracle, independent of the Coq model), and after every call each entry's key leaves are
//     compared with the key it is stored under.
// Uses the list discovery / key domain / entry abstraction helpers of c15_ordmap.go.

import (
	"fmt"
	"math/rand"
	"reflect"
	"sort"
	"strings"
)

func init() { streams["keyedmap"] = c34KeyedmapStream }

type c34RefEnt struct {
	id  int
	key string // YANG value of the entry's key leaves
}

// keyedState reads the Go map: Coq dump term (sorted by key index) and, per YANG key value,
// the entry id. It checks that every entry's key leaves equal the key it is stored under.
func c34State(r *c15Run, step int, judge bool) (term string, byKey map[string]int, dupYang bool, isNil bool) {
	f := r.parent.Elem().FieldByName(r.site.list)
	byKey = map[string]int{}
	if f.IsNil() {
		return "DNil", byKey, false, true
	}
	type item struct {
		k int
		t string
	}
	var items []item
	it := f.MapRange()
	for it.Next() {
		ki, y := r.goKeyIdx(it.Key())
		ent := it.Value()
		if ent.IsNil() {
			if judge {
				r.finding("state/nil-entry", "the map holds a nil entry", step, y, nil)
			}
			items = append(items, item{ki, fmt.Sprintf("B %d (EN 9998)", ki)})
			continue
		}
		items = append(items, item{ki, r.binding(ki, ent)})
		if _, dup := byKey[y]; dup {
			dupYang = true
		}
		byKey[y] = r.idOf(ent)
		if judge {
			r.sum.OracleRuns++
			ei, ok, ey := r.entryKey(ent)
			if !ok || ei != ki || ey != y {
				r.finding("entry-key-mismatch", "an entry's key leaves differ from the key it is stored under", step, ey, y)
			}
			if ki == 99 {
				r.finding("state/key-outside-domain", "the map holds a key that no call introduced", step, y, nil)
			}
		}
	}
	sort.Slice(items, func(i, j int) bool { return items[i].k < items[j].k })
	var ts []string
	for _, i := range items {
		ts = append(ts, i.t)
	}
	return "(D " + coqList(ts) + ")", byKey, dupYang, false
}

func c34OutEntry(r *c15Run, p reflect.Value) string {
	if p.IsNil() {
		return "ROk"
	}
	return "(REnt " + r.entPair(p) + ")"
}

// c34Run executes the sequence on the parent and returns the Coq steps term.
func c34Run(r *c15Run, ops []c15Op, emit bool) string {
	ref := map[string]c34RefEnt{} // YANG key value -> entry
	var steps []string
	prevDump := "DNil"
	aliasTouched := false
	for si, op := range ops {
		key := func(i int) *c15Key { return &r.dom.keys[i] }
		var opT, outT string
		judge := !r.stop
		if judge {
			r.sum.OracleRuns++
		}
		if key(op.K).alias >= 0 || (op.Op == "Rename" && key(op.K2).alias >= 0) {
			aliasTouched = true
		}
		diverge := func(what string, obs, exp interface{}) {
			if !r.stop {
				sig := "refmodel/" + op.Op
				// the sequence used a second Go key (another wrapper struct) with the YANG value
				// of another key of the domain
				if aliasTouched {
					sig = "wrapper-union-key-identity/" + op.Op
				}
				r.finding(sig, what, si, obs, exp)
				r.stop = true
			}
		}
		parent := r.parent
		switch op.Op {
		case "New":
			t := r.next
			opT = fmt.Sprintf("XNew %d %d", op.K, t)
			out, pan, msg := c15Call(parent.MethodByName("New"+r.site.list), key(op.K).comps)
			if pan {
				r.finding("panic/New", msg, si, nil, nil)
				outT = "RPanic"
				break
			}
			_, present := ref[key(op.K).yang]
			gotErr := !out[1].IsNil()
			if gotErr {
				outT = "RErr"
			} else {
				if !out[0].IsNil() && r.idOf(out[0]) < 0 {
					r.register(out[0], r.fresh())
				}
				outT = c34OutEntry(r, out[0])
			}
			if judge && gotErr != present {
				diverge("New: error mismatch (error expected iff the key is present)", gotErr, present)
			}
			if !gotErr && !out[0].IsNil() {
				ki, ok, y := r.entryKey(out[0])
				if judge && !r.stop && (!ok || ki != op.K || y != key(op.K).yang) {
					diverge("New: the new entry does not carry the requested key", y, key(op.K).yang)
				}
				if !present {
					ref[key(op.K).yang] = c34RefEnt{id: r.idOf(out[0]), key: key(op.K).yang}
				}
			}
		case "GetOrCreate":
			t := r.next
			opT = fmt.Sprintf("XGoc %d %d", op.K, t)
			out, pan, msg := c15Call(parent.MethodByName("GetOrCreate"+r.site.list), key(op.K).comps)
			if pan {
				r.finding("panic/GetOrCreate", msg, si, nil, nil)
				outT = "RPanic"
				r.stop = true
				break
			}
			known := !out[0].IsNil() && r.idOf(out[0]) >= 0
			if !out[0].IsNil() && !known {
				r.register(out[0], r.fresh())
			}
			outT = c34OutEntry(r, out[0])
			e, present := ref[key(op.K).yang]
			if judge {
				switch {
				case out[0].IsNil():
					diverge("GetOrCreate returned nil", nil, nil)
				case present && r.idOf(out[0]) != e.id:
					diverge("GetOrCreate did not return the existing entry", r.idOf(out[0]), e.id)
				case !present && known:
					diverge("GetOrCreate returned an old entry for an absent key", r.idOf(out[0]), nil)
				}
			}
			if !present && !out[0].IsNil() {
				ref[key(op.K).yang] = c34RefEnt{id: r.idOf(out[0]), key: key(op.K).yang}
			}
			if judge && !r.stop {
				// idempotence: a second call returns the same entry
				out2, pan2, _ := c15Call(parent.MethodByName("Get"+r.site.list), key(op.K).comps)
				if pan2 || out2[0].IsNil() || out2[0].Pointer() != out[0].Pointer() {
					diverge("Get after GetOrCreate does not return the entry GetOrCreate returned", nil, nil)
				}
			}
		case "Get":
			opT = fmt.Sprintf("XGet %d", op.K)
			out, pan, msg := c15Call(parent.MethodByName("Get"+r.site.list), key(op.K).comps)
			if pan {
				r.finding("panic/Get", msg, si, nil, nil)
				outT = "RPanic"
				break
			}
			outT = c34OutEntry(r, out[0])
			e, present := ref[key(op.K).yang]
			if judge {
				switch {
				case !present && !out[0].IsNil():
					diverge("Get found an entry for an absent key", r.idOf(out[0]), nil)
				case present && (out[0].IsNil() || r.idOf(out[0]) != e.id):
					diverge("Get: wrong entry", c34OutEntry(r, out[0]), e.id)
				}
			}
		case "Append":
			var ent reflect.Value
			want := "ok"
			id := 0
			if op.NilEnt {
				ent = reflect.Zero(reflect.PtrTo(r.site.entryT))
				opT = "XAppNil"
				want = "panic"
			} else {
				ent = r.mkEntry(op.K, op.NilF)
				id = r.fresh()
				r.register(ent, id)
				opT = "XApp " + r.entPair(ent)
				_, present := ref[key(op.K).yang]
				switch {
				case op.NilF > 0:
					want = "err:nil key"
				case key(op.K).unset:
					want = "err:unset key"
				case present:
					want = "err:duplicate"
				}
			}
			out, pan, _ := c15Call(parent.MethodByName("Append"+r.site.list), []reflect.Value{ent})
			got := "ok"
			switch {
			case pan:
				got, outT = "panic", "RPanic"
			case !out[0].IsNil():
				got, outT = "err", "RErr"
			default:
				outT = "ROk"
			}
			if judge && got != strings.SplitN(want, ":", 2)[0] {
				if want == "err:unset key" && got == "ok" {
					r.finding("append-accepts-unset-key/"+strings.Join(r.dom.kinds, "+"), "Append accepted an entry whose key leaf is unset (enum value 0 / nil union)", si, got, want)
					r.stop = true
				} else {
					diverge("Append: outcome mismatch", got, want)
				}
			}
			if got == "ok" && want == "ok" {
				ref[key(op.K).yang] = c34RefEnt{id: id, key: key(op.K).yang}
			}
		case "Delete":
			opT = fmt.Sprintf("XDel %d", op.K)
			_, pan, msg := c15Call(parent.MethodByName("Delete"+r.site.list), key(op.K).comps)
			outT = "ROk"
			if pan {
				r.finding("panic/Delete", msg, si, nil, nil)
				outT = "RPanic"
			}
			delete(ref, key(op.K).yang)
		case "Rename":
			opT = fmt.Sprintf("XRen %d %d", op.K, op.K2)
			args := []reflect.Value{c15MapKey(r.site.keyT, key(op.K).comps), c15MapKey(r.site.keyT, key(op.K2).comps)}
			out, pan, msg := c15Call(parent.MethodByName("Rename"+r.site.list), args)
			if pan {
				r.finding("panic/Rename", msg, si, nil, nil)
				outT = "RPanic"
				r.stop = true
				break
			}
			gotErr := !out[0].IsNil()
			outT = map[bool]string{true: "RErr", false: "ROk"}[gotErr]
			e, oldPresent := ref[key(op.K).yang]
			_, newPresent := ref[key(op.K2).yang]
			wantErr := newPresent || !oldPresent
			if judge && gotErr != wantErr {
				diverge("Rename: error mismatch (error expected iff the new key is present or the old key absent)", gotErr, wantErr)
			}
			if !gotErr && !wantErr {
				delete(ref, key(op.K).yang)
				ref[key(op.K2).yang] = c34RefEnt{id: e.id, key: key(op.K2).yang}
			}
		case "GetOrCreateMap":
			opT = "XMap"
			out, pan, msg := c15Call(parent.MethodByName("GetOrCreate"+r.site.list+"Map"), nil)
			outT = "ROk"
			if pan {
				r.finding("panic/GetOrCreateMap", msg, si, nil, nil)
				outT = "RPanic"
				break
			}
			nf := r.parent.Elem().FieldByName(r.site.list)
			if judge && (out[0].IsNil() || out[0].Pointer() != nf.Pointer()) {
				diverge("GetOrCreateMap did not return the parent's field", nil, nil)
			}
		default:
			panic("unknown op " + op.Op)
		}
		dump, byKey, dupYang, _ := c34State(r, si, !r.stop)
		if !r.stop {
			want := map[string]int{}
			for k, e := range ref {
				want[k] = e.id
			}
			if dupYang || !reflect.DeepEqual(byKey, want) {
				sig := "state/" + op.Op
				if dupYang || aliasTouched {
					sig = "wrapper-union-key-identity/" + op.Op
				}
				r.finding(sig, "the map differs from the reference keyed map after the call", si, byKey, want)
				r.stop = true
			}
		}
		if emit {
			if dump == prevDump {
				dump = "DSame"
			} else {
				prevDump = dump
			}
			steps = append(steps, fmt.Sprintf("KS (%s) %s %s", opT, outT, dump))
		}
	}
	return coqList(steps)
}

func c34GenOps(rng *rand.Rand, d *c15Dom, maxLen int) []c15Op {
	n := 1 + rng.Intn(maxLen)
	nk := len(d.keys)
	var ptrs []int
	for i, p := range d.ptr {
		if p {
			ptrs = append(ptrs, i+1)
		}
	}
	var ops []c15Op
	for i := 0; i < n; i++ {
		switch x := rng.Intn(100); {
		case x < 16:
			ops = append(ops, c15Op{Op: "New", K: rng.Intn(nk)})
		case x < 30:
			ops = append(ops, c15Op{Op: "GetOrCreate", K: rng.Intn(nk)})
		case x < 42:
			ops = append(ops, c15Op{Op: "Get", K: rng.Intn(nk)})
		case x < 62:
			o := c15Op{Op: "Append", K: rng.Intn(nk)}
			switch y := rng.Intn(20); {
			case y == 0:
				o.NilEnt = true
			case y <= 2 && len(ptrs) > 0:
				o.NilF = pick(rng, ptrs)
			}
			ops = append(ops, o)
		case x < 76:
			ops = append(ops, c15Op{Op: "Delete", K: rng.Intn(nk)})
		case x < 97:
			ops = append(ops, c15Op{Op: "Rename", K: rng.Intn(nk), K2: rng.Intn(nk)})
		default:
			ops = append(ops, c15Op{Op: "GetOrCreateMap"})
		}
	}
	return ops
}

func c34Nontrivial(ops []c15Op) bool {
	// a rejected creation (key created before), a rename and a delete of created keys
	made := map[int]bool{}
	dup, ren, del := false, false, false
	for _, o := range ops {
		switch o.Op {
		case "New", "GetOrCreate", "Append":
			if o.NilEnt || o.NilF > 0 {
				continue
			}
			if made[o.K] && o.Op != "GetOrCreate" {
				dup = true
			}
			made[o.K] = true
		case "Rename":
			if made[o.K] && o.K != o.K2 {
				ren = true
				made[o.K2] = true
			}
		case "Delete":
			if made[o.K] {
				del = true
			}
		}
	}
	return dup && ren && del
}

func c34KeyedmapStream(rng *rand.Rand, n int, tier string, out string) (*Summary, error) {
	sum := &Summary{Rule: "one case = one sequence of 1..30 calls of New / GetOrCreate / Get / Append (incl. nil entry, nil key field, duplicate) / Delete / Rename (incl. old = new, absent old, present new) / GetOrCreateXMap on one keyed list of one generated package (every keyed list found by walking the root type: all key types, single and multi key, nested lists), over a domain of 3-6 keys drawn per case (lists with an enum/union key: index 0 is the key with that leaf unset; wrapper-union lists: the last index is a second Go key with the YANG value of another one); the map field starts nil; after every call the full map content is recorded. A case is non-trivial if it holds a rejected creation, an effective Rename and an effective Delete; distinct by (list, sequence). thorough: on vmain_u /top/l-str and /top/l-multi ALL sequences of length <= 4 of the 25 calls over 3 keys (New/GetOrCreate/Get/Append/Delete of each key, Append with a nil key field, Rename of every ordered pair incl. old = new) and ALL sequences of length 5 of the 19 calls that can change the map are judged by the oracle (in parallel); those of length <= 2 and 1200 sampled longer ones per list also go through the model."}
	cf := &caseFile{header: "From Ygot Require Import Base.Base Gen.KeyedMap Corr.KeyedMapCorr.", typ: "km_case", fn: "mismatches"}
	sites := c15AllSites(false)
	if len(sites) == 0 {
		return nil, fmt.Errorf("no keyed list in the registered packages")
	}
	// the key tuple of a multi-key list is ordered as the YANG key statement says: that is the
	// order of the helpers' key arguments and of the fields of the generated key struct
	for _, s := range sites {
		if len(s.keyFields) > 1 {
			sum.OracleRuns++
			if strings.Join(s.keyFields, " ") != strings.Join(s.yangKeys, " ") {
				sum.finding(Finding{Signature: "refmodel/key-order", What: "the generated key struct (and the key arguments of New/Get/GetOrCreate/Delete) of " + s.pkg.Name + s.path +
					" do not follow the order of the YANG key statement: a caller passing the key tuple in schema order creates an entry under another key",
					Input: &c15Input{Pkg: s.pkg.Name, List: s.path, DomSeed: 1, DomSize: 3}, Observed: s.keyFields, Expected: s.yangKeys})
			}
		}
	}
	seen := map[string]bool{}
	id := 0
	runCase := func(s *c15Site, domSeed int64, domSize int, ops []c15Op, emit bool, kind string) error {
		d, err := c15DomFor(s, domSeed, domSize)
		if err != nil {
			return err
		}
		ops = append([]c15Op{}, ops...)
		for i := range ops {
			ops[i].K %= len(d.keys)
			ops[i].K2 %= len(d.keys)
			if ops[i].NilF > 0 && !d.ptr[(ops[i].NilF-1)%len(d.ptr)] {
				ops[i].NilF = 0
			}
		}
		r := &c15Run{site: s, dom: d, sum: sum, input: &c15Input{Pkg: s.pkg.Name, List: s.path, DomSeed: domSeed, DomSize: domSize, Ops: ops}}
		r.reset(reflect.New(s.parentT))
		term := c34Run(r, ops, emit)
		if emit {
			cf.add(fmt.Sprintf("KCase %d %s", id, term))
			id++
			sum.count("kind", kind)
			sum.count("list", s.pkg.Name+s.path)
			sum.count("keykinds", strings.Join(d.kinds, "+"))
			sum.count("length", fmt.Sprintf("%02d", len(ops)/5*5))
			for _, o := range ops {
				sum.count("op", o.Op)
			}
			key := s.pkg.Name + s.path + "#" + c15OpsKey(ops)
			if !seen[key] {
				seen[key] = true
				if c34Nontrivial(ops) {
					sum.Nontrivial++
				}
			}
			sum.sample(map[string]interface{}{"list": s.pkg.Name + s.path, "domain": d.yangs(), "ops": ops})
		}
		return nil
	}

	if replayFile != "" {
		in, err := c15ReadReplay(replayFile)
		if err != nil {
			return nil, err
		}
		s := c15FindSite(sites, in.Pkg, in.List)
		if s == nil {
			return nil, fmt.Errorf("replay: no keyed list %s %s", in.Pkg, in.List)
		}
		if err := runCase(s, in.DomSeed, in.DomSize, in.Ops, true, "replay"); err != nil {
			return nil, err
		}
		sum.Cases = id
		files, err := cf.write(out, "keyedmap", 400)
		sum.Extra = map[string]interface{}{"case_files": files}
		return sum, err
	}

	// hand-picked sequences on every list
	for _, s := range sites {
		corner := [][]c15Op{
			{{Op: "Get", K: 1}, {Op: "Rename", K: 1, K2: 2}, {Op: "Delete", K: 1}, {Op: "New", K: 1}, {Op: "New", K: 1}, {Op: "Append", K: 2}, {Op: "Append", K: 2}, {Op: "Append", K: 1, NilF: 1}, {Op: "GetOrCreate", K: 2}, {Op: "GetOrCreate", K: 0}, {Op: "Rename", K: 1, K2: 1}, {Op: "Rename", K: 1, K2: 2}, {Op: "Delete", K: 2}, {Op: "Rename", K: 1, K2: 2}, {Op: "Get", K: 1}, {Op: "Get", K: 2}},
			{{Op: "Append", NilEnt: true}, {Op: "GetOrCreateMap"}, {Op: "Append", NilEnt: true}},
			{{Op: "Append", K: 0}, {Op: "New", K: 0}, {Op: "GetOrCreate", K: 0}, {Op: "Rename", K: 0, K2: 1}, {Op: "Rename", K: 1, K2: 0}, {Op: "Delete", K: 0}},
		}
		for _, ops := range corner {
			if err := runCase(s, rng.Int63(), 4, ops, true, "corner"); err != nil {
				return nil, err
			}
		}
		// the last key of the domain (wrapper-union lists: a second Go key with the YANG value of key 1)
		domSeed := rng.Int63()
		d, err := c15DomFor(s, domSeed, 4)
		if err != nil {
			return nil, err
		}
		last := len(d.keys) - 1
		if err := runCase(s, domSeed, 4, []c15Op{{Op: "New", K: 1}, {Op: "New", K: last}, {Op: "Get", K: 1}, {Op: "GetOrCreate", K: last}, {Op: "Delete", K: 1}, {Op: "Get", K: last}, {Op: "Rename", K: last, K2: 1}}, true, "corner"); err != nil {
			return nil, err
		}
	}
	for i := 0; id < n; i++ {
		s := sites[i%len(sites)]
		domSeed := rng.Int63()
		d, err := c15DomFor(s, domSeed, 4)
		if err != nil {
			return nil, err
		}
		if err := runCase(s, domSeed, 4, c34GenOps(rng, d, 30), true, "random"); err != nil {
			return nil, err
		}
	}
	if tier == "thorough" {
		exh := 0
		for _, path := range []string{"/top/l-str", "/top/l-multi"} {
			s := c15FindSite(sites, "vmain_u", path)
			if s == nil {
				s = sites[0]
			}
			domSeed := rng.Int63()
			d, err := c15DomFor(s, domSeed, 3)
			if err != nil {
				return nil, err
			}
			var mut, all []c15Op
			for k := 0; k < 3 && k < len(d.keys); k++ {
				mut = append(mut, c15Op{Op: "New", K: k}, c15Op{Op: "GetOrCreate", K: k}, c15Op{Op: "Append", K: k}, c15Op{Op: "Delete", K: k})
				for k2 := 0; k2 < 3 && k2 < len(d.keys); k2++ {
					if k != k2 {
						mut = append(mut, c15Op{Op: "Rename", K: k, K2: k2})
					}
				}
			}
			mut = append(mut, c15Op{Op: "Append", K: 0, NilF: 1})
			all = append(all, mut...)
			for k := 0; k < 3 && k < len(d.keys); k++ {
				all = append(all, c15Op{Op: "Get", K: k}, c15Op{Op: "Rename", K: k, K2: k})
			}
			// (a) through the model: every sequence of length <= 2 and a sample of the longer ones
			for _, a := range all {
				if err := runCase(s, domSeed, 3, []c15Op{a}, true, "exhaustive<=2"); err != nil {
					return nil, err
				}
				for _, b := range all {
					if err := runCase(s, domSeed, 3, []c15Op{a, b}, true, "exhaustive<=2"); err != nil {
						return nil, err
					}
				}
			}
			for i := 0; i < 1200; i++ {
				var ops []c15Op
				for n := 3 + rng.Intn(3); n > 0; n-- {
					ops = append(ops, pick(rng, all))
				}
				if err := runCase(s, domSeed, 3, ops, true, "exhaustive-sample"); err != nil {
					return nil, err
				}
			}
			// (b) through the oracle, in parallel: ALL sequences of length <= 4 of the 25 calls, and
			// all sequences of length 5 of the 19 calls that can change the map
			one := func(ls *Summary, ops []c15Op) int {
				r := &c15Run{site: s, dom: d, sum: ls, input: &c15Input{Pkg: s.pkg.Name, List: s.path, DomSeed: domSeed, DomSize: 3, Ops: ops}}
				r.reset(reflect.New(s.parentT))
				c34Run(r, ops, false)
				return 1
			}
			exh += c15Exhaust(sum, all, 1, 4, one)
			exh += c15Exhaust(sum, mut, 5, 5, one)
		}
		sum.Extra = map[string]interface{}{"exhaustive_sequences": exh}
	}
	sum.Cases = id
	files, err := cf.write(out, "keyedmap", 400)
	if sum.Extra == nil {
		sum.Extra = map[string]interface{}{}
	}
	sum.Extra["case_files"] = files
	var names []string
	for _, s := range sites {
		names = append(names, s.pkg.Name+s.path)
	}
	sum.Extra["lists"] = names
	return sum, err
}
