//go:build verif

package main

// c23_gdiffnotifs.go — stream "gdiffnotifs" (property C23): a SetRequest built from a random tree
// (see c22_gdiff.go) and notifications that carry exactly the leaves the request writes, then
// the same notifications after ONE edit: a leaf removed, a leaf value changed, a leaf added
// below a deleted or replaced sub-tree (or at the deleted path itself, or outside every deleted
// sub-tree, where gnmidiff by design reports nothing).  gnmidiff.DiffSetRequestToNotifications is
// run without a schema (Coq case, re-computed by Diffs/GnmiDiff.v) and with the generated schema
// (oracle only).

import (
	"encoding/json"
	"fmt"
	"math/rand"
	"sort"
	"strings"

	gpb "github.com/openconfig/gnmi/proto/gnmi"
	"github.com/openconfig/ygot/gnmidiff"
	"google.golang.org/protobuf/encoding/protojson"
	"google.golang.org/protobuf/proto"
)

func init() { streams["gdiffnotifs"] = c23Stream }

type c23Out struct {
	diff   gnmidiff.SetToNotifsDiff
	err    error
	panicv interface{}
}

func (o c23Out) status() string {
	switch {
	case o.panicv != nil:
		return "panic"
	case o.err != nil:
		return "error"
	}
	return "ok"
}

func c23Diff(r *gpb.SetRequest, ns []*gpb.Notification, s *c22Schema) (o c23Out) {
	defer func() {
		if rec := recover(); rec != nil {
			o = c23Out{panicv: rec}
		}
	}()
	d, err := gnmidiff.DiffSetRequestToNotifications(r, ns, s.fresh())
	return c23Out{diff: d, err: err}
}

func c23OutTerm(t *c22Tables, o c23Out) string {
	switch o.status() {
	case "panic":
		return coqPanic
	case "error":
		return coqErr
	}
	d := o.diff
	return coqOk("{| sd_missing := " + t.kvs(d.MissingUpdates) + "; sd_extra := " + t.kvs(d.ExtraUpdates) + "; sd_common := " + t.kvs(d.CommonUpdates) +
		"; sd_mism := " + t.mism(d.MismatchedUpdates) + " |}")
}

func c23NotifsTerm(t *c22Tables, ns []*gpb.Notification) (string, bool) {
	var items []string
	for _, n := range ns {
		d, ok1 := c22Paths(n.GetDelete())
		u, ok2 := t.upds(n.GetUpdate())
		if !ok1 || !ok2 {
			return "", false
		}
		items = append(items, "{| n_prefix := "+coqElems(n.GetPrefix().GetElem())+"; n_del := "+d+"; n_upd := "+u+" |}")
	}
	return coqList(items), true
}

// c23Notifs spreads leaf updates over 1..3 notifications, each with its own prefix split.
func c23Notifs(rng *rand.Rand, leaves []c22U) []*gpb.Notification {
	ls := append([]c22U{}, leaves...)
	rng.Shuffle(len(ls), func(i, j int) { ls[i], ls[j] = ls[j], ls[i] })
	k := 1 + rng.Intn(3)
	groups := make([][]c22U, k)
	for _, l := range ls {
		g := rng.Intn(k)
		groups[g] = append(groups[g], l)
	}
	var out []*gpb.Notification
	for _, g := range groups {
		var ps []*gpb.Path
		for _, l := range g {
			ps = append(ps, l.path)
		}
		split := 0
		if c := c22Common(ps); c > 0 {
			split = rng.Intn(c + 1)
			if split == c && len(g) == 1 && rng.Intn(2) == 0 {
				split = c - 1 // an update with an empty relative path is legal but rare
			}
		}
		n := &gpb.Notification{}
		if split > 0 {
			n.Prefix = &gpb.Path{Elem: append([]*gpb.PathElem{}, ps[0].Elem[:split]...)}
		}
		for _, l := range g {
			n.Update = append(n.Update, &gpb.Update{Path: c22Sub(l.path, split), Val: l.val})
		}
		out = append(out, n)
	}
	return out
}

// c23Tweak returns a value that flattens to a different JSON value.
func c23Tweak(tv *gpb.TypedValue) *gpb.TypedValue {
	switch v := tv.GetValue().(type) {
	case *gpb.TypedValue_StringVal:
		return c22Str(v.StringVal + "x")
	case *gpb.TypedValue_IntVal:
		if v.IntVal > -(1<<52) && v.IntVal < 1<<52 {
			return &gpb.TypedValue{Value: &gpb.TypedValue_IntVal{IntVal: v.IntVal + 1}}
		}
		return &gpb.TypedValue{Value: &gpb.TypedValue_IntVal{IntVal: v.IntVal / 2}}
	case *gpb.TypedValue_UintVal:
		if v.UintVal < 1<<52 {
			return c22Uint(v.UintVal + 1)
		}
		return c22Uint(v.UintVal / 2)
	case *gpb.TypedValue_BoolVal:
		return &gpb.TypedValue{Value: &gpb.TypedValue_BoolVal{BoolVal: !v.BoolVal}}
	case *gpb.TypedValue_DoubleVal:
		return &gpb.TypedValue{Value: &gpb.TypedValue_DoubleVal{DoubleVal: v.DoubleVal + 1}}
	case *gpb.TypedValue_BytesVal:
		return &gpb.TypedValue{Value: &gpb.TypedValue_BytesVal{BytesVal: append(append([]byte{}, v.BytesVal...), 1)}}
	case *gpb.TypedValue_LeaflistVal:
		a := &gpb.ScalarArray{Element: append([]*gpb.TypedValue{}, v.LeaflistVal.GetElement()...)}
		if len(a.Element) > 0 {
			a.Element = append(a.Element, c23Tweak(a.Element[0]))
		} else {
			a.Element = append(a.Element, c22Str("x"))
		}
		return &gpb.TypedValue{Value: &gpb.TypedValue_LeaflistVal{LeaflistVal: a}}
	}
	return c22Str("tweaked")
}

type c23Input struct {
	Pkg    string            `json:"pkg,omitempty"`
	Kind   string            `json:"kind"`
	Mode   string            `json:"mode"`
	NonKey bool              `json:"non_key_scalar_in_list_entry,omitempty"`
	Leaf   string            `json:"edited_leaf,omitempty"`
	Req    json.RawMessage   `json:"setrequest"`
	Notifs []json.RawMessage `json:"notifications"`
}

type c23Runner struct {
	sum  *Summary
	cf   *caseFile
	tb   *c22Tables
	id   int
	seen map[string]bool
}

func c23Keys(m map[string]interface{}) []string {
	ks := make([]string, 0, len(m))
	for k := range m {
		ks = append(ks, k)
	}
	sort.Strings(ks)
	return ks
}

func c23Summary(d gnmidiff.SetToNotifsDiff) map[string]interface{} {
	mm := map[string]interface{}{}
	for k, v := range d.MismatchedUpdates {
		mm[k] = []interface{}{v.A, v.B}
	}
	return map[string]interface{}{"missing": d.MissingUpdates, "extra": d.ExtraUpdates, "mismatched": mm, "common": len(d.CommonUpdates)}
}

// c23LeafCause names what is special about the edited leaf when the edit is not reported.
func c23LeafCause(path string, nonKey bool) string {
	if c := c22PathCause([]string{path}, nonKey); c != "paths" {
		return c
	}
	return "other"
}

// c23IsKeyLeaf: the leaf is a key of the list entry that contains it.
func c23IsKeyLeaf(p *gpb.Path) bool {
	n := len(p.Elem)
	if n < 2 {
		return false
	}
	_, ok := p.Elem[n-2].Key[p.Elem[n-1].Name]
	return ok
}

// one runs one (request, notifications, expectation) in both modes; it returns, per mode,
// whether the call succeeded with the expected classification.
//
//	kind "exact":  nothing missing / extra / mismatched
//	kind "single-edit/remove|change|add/...": exactly `leaf` in the named class
//	kind "single-edit/add/outside": nothing reported (outside every deleted sub-tree: by design)
func (c *c23Runner) one(kind string, r *gpb.SetRequest, ns []*gpb.Notification, leaf string, s *c22Schema, nonKey bool, skip map[string]bool) map[string]bool {
	ok := map[string]bool{}
	for _, mode := range []string{"noschema", "schema"} {
		var sch *c22Schema
		if mode == "schema" {
			if s == nil {
				continue
			}
			sch = s
		}
		o := c23Diff(r, ns, sch)
		c.sum.count("outcome_"+mode, kind+":"+o.status())
		in := c23Input{Kind: kind, Mode: mode, NonKey: nonKey, Leaf: leaf, Req: c22JSON(r)}
		if s != nil {
			in.Pkg = s.pkg.Name
		}
		for _, n := range ns {
			in.Notifs = append(in.Notifs, c22JSON(n))
		}
		if mode == "noschema" {
			tr, ok1 := c.tb.req(r)
			tn, ok2 := c23NotifsTerm(c.tb, ns)
			if ok1 && ok2 {
				c.cf.add(fmt.Sprintf("GNotifs %d %s %s %s", c.id, tr, tn, c23OutTerm(c.tb, o)))
				c.id++
				if key := tr + "|" + tn; !c.seen[key] {
					c.seen[key] = true
					n := 0
					for _, x := range ns {
						n += len(x.Update)
					}
					if n >= 2 && len(r.Update)+len(r.Replace)+len(r.Delete) >= 1 {
						c.sum.Nontrivial++
					}
				}
			} else {
				c.sum.count("unmodelled", kind)
			}
			c.sum.sample(map[string]interface{}{"kind": kind, "setrequest": in.Req, "notifications": in.Notifs, "status": o.status()})
		}
		if skip[mode] {
			c.sum.count("oracle_skipped_"+mode, kind)
			continue
		}
		c.sum.OracleRuns++
		if o.panicv != nil {
			c.sum.finding(Finding{Signature: c22PanicSig(o.panicv), What: "DiffSetRequestToNotifications panics: " + fmt.Sprint(o.panicv), Input: in})
			continue
		}
		if o.err != nil {
			continue
		}
		d := o.diff
		want := map[string][]string{"missing": nil, "extra": nil, "mismatched": nil}
		switch {
		case strings.HasPrefix(kind, "single-edit/remove"):
			want["missing"] = []string{leaf}
		case strings.HasPrefix(kind, "single-edit/change"):
			want["mismatched"] = []string{leaf}
		case strings.HasPrefix(kind, "single-edit/add/outside"):
		case strings.HasPrefix(kind, "single-edit/add"):
			want["extra"] = []string{leaf}
		}
		var mk []string
		for k := range d.MismatchedUpdates {
			mk = append(mk, k)
		}
		sort.Strings(mk)
		got := map[string][]string{"missing": c23Keys(d.MissingUpdates), "extra": c23Keys(d.ExtraUpdates), "mismatched": mk}
		good := true
		for k := range want {
			if len(want[k]) != len(got[k]) || (len(want[k]) == 1 && want[k][0] != got[k][0]) {
				good = false
			}
		}
		ok[mode] = good
		if good {
			continue
		}
		cause := ""
		if kind == "exact" {
			var ps []string
			emptyOnly := true
			for _, m := range []map[string]interface{}{d.MissingUpdates, d.ExtraUpdates} {
				for k, v := range m {
					ps = append(ps, k)
					if l, isl := v.([]interface{}); !isl || len(l) != 0 {
						emptyOnly = false
					}
				}
			}
			mm := map[string][2]interface{}{}
			for k, v := range d.MismatchedUpdates {
				mm[k] = [2]interface{}{v.A, v.B}
			}
			cause = c22Cause(ps, emptyOnly, mm, false, nonKey)
		} else {
			cause = c23LeafCause(leaf, nonKey)
		}
		// <cause>/<kind> for the causes that have been analysed; the bare kind otherwise
		sig := kind
		if kind == "single-edit/add/at-deleted-path" {
			cause = "" // the kind is the explanation: only paths strictly below a delete are looked at
		}
		switch cause {
		case "unescaped-key", "backslash-in-key", "non-key-scalar-as-key", "numeric-key-exponent", "int64-as-string", "identityref-module-prefix", "empty-list-as-leaf":
			sig = cause + "/" + kind
		}
		c.sum.finding(Finding{Signature: sig, What: "DiffSetRequestToNotifications does not classify the leaves as the property requires (" + kind + ")", Input: in, Observed: c23Summary(d), Expected: want})
	}
	return ok
}

func c23Stream(rng *rand.Rand, n int, tier string, out string) (*Summary, error) {
	sum := &Summary{Rule: "a SetRequest from a random tree of the generated package (leaf updates, JSON sub-trees, deletes, replaces, prefix split) with notifications carrying exactly the leaves it writes (1-3 notifications, own prefix splits), then one edit of the notifications: remove / change one leaf, add one leaf under a deleted or replaced sub-tree, at a deleted path, or outside; plus malformed notifications (deletes, nil values, empty names). Non-trivial: at least two notification leaves and a non-empty request; distinct by input."}
	tb := c22NewTables()
	cf := &caseFile{typ: "gcase", fn: "gd_mismatches fo"}
	pkgs := c22Pkgs()
	if len(pkgs) == 0 {
		return nil, fmt.Errorf("no generated package registered")
	}
	run := &c23Runner{sum: sum, cf: cf, tb: tb, seen: map[string]bool{}}
	finish := func() (*Summary, error) {
		sum.Cases = run.id
		cf.header = c22Header(tb)
		files, err := cf.write(out, "gdiffnotifs", 150)
		sum.Extra = map[string]interface{}{"case_files": files}
		return sum, err
	}

	if replayFile != "" {
		var in c23Input
		if err := c22ReadReplay(&in); err != nil {
			return nil, err
		}
		r := &gpb.SetRequest{}
		if err := protojson.Unmarshal(in.Req, r); err != nil {
			return nil, err
		}
		var ns []*gpb.Notification
		for _, raw := range in.Notifs {
			nn := &gpb.Notification{}
			if err := protojson.Unmarshal(raw, nn); err != nil {
				return nil, err
			}
			ns = append(ns, nn)
		}
		run.one(in.Kind, r, ns, in.Leaf, c22PkgNamed(pkgs, in.Pkg), in.NonKey, nil)
		return finish()
	}

	// confirmed failures first
	{
		r := &gpb.SetRequest{Update: []*gpb.Update{c22Upd(`/top/l-str[k=x\=y]/c/z`, c22Str("1"))}}
		ns := []*gpb.Notification{{Update: []*gpb.Update{c22Upd(`/top/l-str[k=x\=y]/c/z`, c22Str("2"))}}}
		run.one("single-edit/change", r, ns, `/top/l-str[k=x\=y]/c/z`, pkgs[0], false, nil)
		r = &gpb.SetRequest{Delete: []*gpb.Path{c22MustPath("/top/nest/b")}}
		ns = []*gpb.Notification{{Update: []*gpb.Update{c22Upd("/top/nest/b", &gpb.TypedValue{Value: &gpb.TypedValue_IntVal{IntVal: 3}})}}}
		run.one("single-edit/add/at-deleted-path", r, ns, "/top/nest/b", pkgs[0], false, nil)
		// the root itself deleted / replaced (the empty path, with and without a prefix): every
		// notification leaf the request does not write is extra
		{
			extra := []*gpb.Notification{{Update: []*gpb.Update{c22Upd("/top/nest/b", &gpb.TypedValue{Value: &gpb.TypedValue_IntVal{IntVal: 3}})}}}
			run.one("single-edit/add/under-deleted", &gpb.SetRequest{Delete: []*gpb.Path{{}}}, extra, "/top/nest/b", pkgs[0], false, nil)
			run.one("single-edit/add/under-deleted", &gpb.SetRequest{Prefix: &gpb.Path{}, Delete: []*gpb.Path{{}}}, extra, "/top/nest/b", pkgs[0], false, nil)
			rr := &gpb.SetRequest{Replace: []*gpb.Update{{Path: &gpb.Path{}, Val: c22JS(`{"v-main:top":{"scalars":{"str":"a"}}}`)}}}
			both := []*gpb.Notification{{Update: []*gpb.Update{c22Upd("/top/scalars/str", c22Str("a")), c22Upd("/top/nest/b", &gpb.TypedValue{Value: &gpb.TypedValue_IntVal{IntVal: 3}})}}}
			run.one("single-edit/add/under-replaced", rr, both, "/top/nest/b", pkgs[0], false, nil)
		}
		// key values that a path cleaner would rewrite ("//", "/./", "/../"): the request carries them
		// in JSON, the notifications in path elements
		for _, kv := range []string{"http://a.example/x", "files/./conf/../a.cfg", "a//b"} {
			jb, _ := json.Marshal(map[string]interface{}{"l-str": []interface{}{map[string]interface{}{"k": kv, "c": map[string]interface{}{"z": "1"}}}})
			rq := &gpb.SetRequest{Replace: []*gpb.Update{c22Upd("/top", c22JS(string(jb)))}}
			kp := &gpb.Path{Elem: []*gpb.PathElem{{Name: "top"}, {Name: "l-str", Key: map[string]string{"k": kv}}}}
			leafAt := func(names ...string) *gpb.Path {
				q := proto.Clone(kp).(*gpb.Path)
				for _, n := range names {
					q.Elem = append(q.Elem, &gpb.PathElem{Name: n})
				}
				return q
			}
			nn := []*gpb.Notification{{Update: []*gpb.Update{{Path: leafAt("k"), Val: c22Str(kv)}, {Path: leafAt("c", "z"), Val: c22Str("1")}}}}
			run.one("exact", rq, nn, "", pkgs[0], false, nil)
			nn2 := []*gpb.Notification{{Prefix: &gpb.Path{Elem: kp.Elem[:1]}, Update: []*gpb.Update{{Path: &gpb.Path{Elem: leafAt("k").Elem[1:]}, Val: c22Str(kv)}}}}
			ps := c22PS(leafAt("c", "z"))
			run.one("single-edit/remove", rq, nn2, ps, pkgs[0], false, nil)
		}
		// an empty leaf-list: [] in the request's JSON, a leaflist_val without elements in the
		// notifications (ygot itself no longer emits one, other gNMI targets do)
		emptyLL := &gpb.TypedValue{Value: &gpb.TypedValue_LeaflistVal{LeaflistVal: &gpb.ScalarArray{}}}
		r = &gpb.SetRequest{Update: []*gpb.Update{c22Upd("/top/lls", c22JS(`{"ll-str":[],"ll-u8":[3]}`))}}
		ns = []*gpb.Notification{{Update: []*gpb.Update{c22Upd("/top/lls/ll-str", emptyLL), c22Upd("/top/lls/ll-u8", &gpb.TypedValue{Value: &gpb.TypedValue_LeaflistVal{LeaflistVal: &gpb.ScalarArray{Element: []*gpb.TypedValue{c22Uint(3)}}}})}}}
		run.one("exact", r, ns, "", nil, false, nil)
		r = &gpb.SetRequest{Update: []*gpb.Update{c22Upd("/top/lls/ll-str", emptyLL)}}
		ns = []*gpb.Notification{{Update: []*gpb.Update{c22Upd("/top/lls/ll-str", emptyLL)}}}
		run.one("exact", r, ns, "", nil, false, nil)
	}

	for run.id < n {
		ps := pkgs[rng.Intn(len(pkgs))]
		g := &c22Gen{rng: rng, s: ps, tg: newTreeGen(rng, ps.pkg)}
		g.tg.maxList = 2
		b := g.base()
		if b == nil || len(b.covered) == 0 {
			continue
		}
		if rng.Intn(2) == 0 { // leaf-only request: JSON sub-trees expanded
			nb := &c22R{dels: b.r.dels}
			for _, u := range b.r.reps {
				if u.json {
					nb.dels = append(nb.dels, u.path)
				} else {
					nb.reps = append(nb.reps, u)
				}
			}
			for _, l := range b.covered {
				in := false
				for _, u := range nb.reps {
					if u.path == l.path {
						in = true
					}
				}
				if !in {
					nb.upds = append(nb.upds, l)
				}
			}
			b.r = nb
		}
		nonKey := c22HasNonKeyScalar(b.covered)
		common := c22Common(b.r.paths())
		split := 0
		if common > 0 {
			split = rng.Intn(common + 1)
		}
		r := b.r.build(split)
		sum.count("pkg", ps.pkg.Name)
		sum.count("tree", fmt.Sprintf("oc-pruned=%v non-key-scalar=%v json=%v", b.pruned, nonKey, func() bool {
			for _, u := range append(append([]c22U{}, b.r.upds...), b.r.reps...) {
				if u.json {
					return true
				}
			}
			return false
		}()))
		ns := c23Notifs(rng, b.covered)
		exact := run.one("exact", r, ns, "", ps, nonKey, nil)
		skip := map[string]bool{"noschema": !exact["noschema"], "schema": !exact["schema"]}

		// remove one leaf
		{
			i := rng.Intn(len(b.covered))
			rest := append(append([]c22U{}, b.covered[:i]...), b.covered[i+1:]...)
			run.one("single-edit/remove", r, c23Notifs(rng, rest), c22PS(b.covered[i].path), ps, nonKey, skip)
		}
		// change one leaf
		{
			var idx []int
			for i, l := range b.covered {
				if !c23IsKeyLeaf(l.path) { // a key leaf that disagrees with the key in its own path is not a valid notification
					idx = append(idx, i)
				}
			}
			if len(idx) > 0 {
				i := pick(rng, idx)
				ch := append([]c22U{}, b.covered...)
				ch[i] = c22U{path: ch[i].path, val: c23Tweak(ch[i].val)}
				run.one("single-edit/change", r, c23Notifs(rng, ch), c22PS(ch[i].path), ps, nonKey, skip)
			}
		}
		// add one leaf
		{
			have := map[string]bool{}
			for _, l := range b.covered {
				have[c22PS(l.path)] = true
			}
			_, l2, _ := g.tree()
			var cands []c22U
			for _, l := range l2 {
				if !have[c22PS(l.path)] {
					cands = append(cands, l)
				}
			}
			if len(cands) > 0 {
				l := pick(rng, cands)
				var scopes []*gpb.Path
				scopes = append(scopes, b.r.dels...)
				for _, u := range b.r.reps {
					if u.json {
						scopes = append(scopes, u.path)
					}
				}
				kind := "single-edit/add/outside"
				for _, d := range scopes {
					if c22IsPrefix(d, l.path) && len(d.Elem) < len(l.path.Elem) {
						kind = "single-edit/add/under-deleted"
					}
				}
				r2 := r
				if kind == "single-edit/add/outside" && rng.Intn(3) != 0 {
					// put the new leaf in scope: delete one of its ancestors (or, rarely, the leaf itself)
					nb := b.r.clone()
					k := 1 + rng.Intn(len(l.path.Elem)-1+1)
					if k == len(l.path.Elem) && rng.Intn(3) != 0 && k > 1 {
						k--
					}
					d := &gpb.Path{Elem: l.path.Elem[:k]}
					clash := false
					for _, q := range scopes {
						if c22Related(d, q) {
							clash = true
						}
					}
					for _, u := range b.r.reps {
						if c22Related(d, u.path) {
							clash = true
						}
					}
					if !clash {
						nb.dels = append(nb.dels, d)
						r2 = nb.build(split)
						kind = "single-edit/add/under-deleted"
						if k == len(l.path.Elem) {
							kind = "single-edit/add/at-deleted-path"
						}
					}
				}
				sk := skip
				if r2 != r {
					// the request changed: its own exactness has to be re-established
					e2 := run.one("exact", r2, ns, "", ps, nonKey, nil)
					sk = map[string]bool{"noschema": !e2["noschema"], "schema": !e2["schema"]}
				}
				run.one(kind, r2, c23Notifs(rng, append(append([]c22U{}, b.covered...), l)), c22PS(l.path), ps, nonKey || c22HasNonKeyScalar([]c22U{l}), sk)
			}
		}
		// malformed notifications
		if rng.Intn(8) == 0 {
			bad := c23Notifs(rng, b.covered)
			nn := proto.Clone(bad[0]).(*gpb.Notification)
			switch rng.Intn(3) {
			case 0:
				nn.Delete = append(nn.Delete, &gpb.Path{Elem: []*gpb.PathElem{{Name: "top"}}})
			case 1:
				if len(nn.Update) > 0 {
					nn.Update[0].Val = nil
				}
			case 2:
				nn.Prefix = &gpb.Path{Elem: []*gpb.PathElem{{Name: ""}}}
			}
			bad[0] = nn
			run.one("malformed", r, bad, "", ps, nonKey, map[string]bool{"noschema": true, "schema": true})
		}
	}
	return finish()
}
