//go:build verif

package main

// Stream "protomap" (property C24): protomap.PathsFromProto / protomap.ProtoFromPaths on random
// messages of the repository's annotated test protos.  The trusted translator is c24Desc /
// c24Msg / c24PV below: it turns a protobuf descriptor, a populated message and the Go values
// of a path map into terms of the Coq model Diffs/ProtoMap.v.

import (
	"encoding/json"
	"fmt"
	"math"
	"math/rand"
	"os"
	"sort"
	"strings"

	gpb "github.com/openconfig/gnmi/proto/gnmi"
	"github.com/openconfig/ygot/protomap"
	"github.com/openconfig/ygot/ygot"
	"google.golang.org/protobuf/encoding/prototext"
	"google.golang.org/protobuf/proto"
	"google.golang.org/protobuf/reflect/protoreflect"
	"google.golang.org/protobuf/types/descriptorpb"

	yextpb "github.com/openconfig/ygot/proto/yext"
	wpb "github.com/openconfig/ygot/proto/ywrapper"
	aftpb "github.com/openconfig/ygot/protomap/integration_tests/testdata/gribi_aft"
	epb "github.com/openconfig/ygot/protomap/testdata/exschemapath"
)

func init() { streams["protomap"] = c24Stream }

// ---------- message types under test ----------

type c24Type struct {
	name   string // Coq identifier suffix
	mt     protoreflect.MessageType
	prefix string // ProtobufMessagePrefix used for this type ("" = root message)
}

var c24Types = []c24Type{
	{"Root", (&epb.Root{}).ProtoReflect().Type(), ""},
	{"ExampleMessage", (&epb.ExampleMessage{}).ProtoReflect().Type(), ""},
	{"Device", (&aftpb.Device{}).ProtoReflect().Type(), ""},
	{"Afts", (&aftpb.Afts{}).ProtoReflect().Type(), "/afts"},
	{"Interface", (&epb.Interface{}).ProtoReflect().Type(), "/interfaces/interface"},
	{"Nested", (&epb.ExampleNestedMessage{}).ProtoReflect().Type(), "/nested"},
}

func c24TypeByName(n string) *c24Type {
	for i := range c24Types {
		if c24Types[i].name == n {
			return &c24Types[i]
		}
	}
	return nil
}

func c24MustPath(s string) *gpb.Path {
	if s == "" {
		return &gpb.Path{}
	}
	p, err := ygot.StringToStructuredPath(s)
	if err != nil {
		panic(err)
	}
	return p
}

// ---------- descriptor -> Coq (trusted translator, part 1) ----------

func c24Annots(fd protoreflect.FieldDescriptor) ([]*gpb.Path, bool) {
	po := fd.Options().(*descriptorpb.FieldOptions)
	ex := proto.GetExtension(po, yextpb.E_Schemapath).(string)
	if ex == "" {
		return nil, true
	}
	var out []*gpb.Path
	for _, s := range strings.Split(ex, "|") {
		p, err := ygot.StringToStructuredPath(s)
		if err != nil {
			return nil, false
		}
		out = append(out, p)
	}
	return out, true
}

// Strings are interned: the case files define every distinct string once (c24s_<n>) and the
// terms refer to the definitions, which keeps the files small enough for coqc to read quickly.
var c24StrIds = map[string]int{}
var c24StrDefs []string

func c24Str(s string) string {
	if s == "" {
		return "[]"
	}
	id, ok := c24StrIds[s]
	if !ok {
		id = len(c24StrDefs)
		c24StrIds[s] = id
		c24StrDefs = append(c24StrDefs, fmt.Sprintf("Definition c24s_%d : str := %s.", id, coqStr(s)))
	}
	return fmt.Sprintf("c24s_%d", id)
}

func c24Path(p *gpb.Path) string {
	var els []string
	for _, e := range p.GetElem() {
		var kvs []string
		for _, k := range sortedKeys(e.GetKey()) {
			kvs = append(kvs, "("+c24Str(k)+","+c24Str(e.Key[k])+")")
		}
		els = append(els, "E "+c24Str(e.GetName())+" "+coqList(kvs))
	}
	return coqList(els)
}

func c24StrList(ss []string) string {
	items := make([]string, len(ss))
	for i, s := range ss {
		items[i] = c24Str(s)
	}
	return coqList(items)
}

func c24CoqAnnots(ps []*gpb.Path) string {
	var items []string
	for _, p := range ps {
		items = append(items, c24Path(p))
	}
	return coqList(items)
}

func c24WKind(md protoreflect.MessageDescriptor) string {
	switch md.FullName() {
	case "ywrapper.StringValue":
		return "WString"
	case "ywrapper.UintValue":
		return "WUint"
	case "ywrapper.BytesValue":
		return "WBytes"
	case "ywrapper.BoolValue":
		return "WBool"
	case "ywrapper.IntValue":
		return "WInt"
	case "ywrapper.Decimal64Value":
		return "WDecimal"
	}
	return ""
}

func c24EnumTbl(ed protoreflect.EnumDescriptor) string {
	var items []string
	for i := 0; i < ed.Values().Len(); i++ {
		v := ed.Values().Get(i)
		yn := proto.GetExtension(v.Options().(*descriptorpb.EnumValueOptions), yextpb.E_YangName).(string)
		items = append(items, fmt.Sprintf("(%d,%s)", v.Number(), c24Str(yn)))
	}
	return coqList(items)
}

// c24SKind returns the model's scalar kind of a non-message field ("" = outside the model).
func c24SKind(fd protoreflect.FieldDescriptor) string {
	switch fd.Kind() {
	case protoreflect.StringKind:
		return "SString"
	case protoreflect.Uint64Kind:
		return "SUint64"
	case protoreflect.Uint32Kind:
		return "SUint32"
	case protoreflect.BoolKind:
		return "SBool"
	case protoreflect.FloatKind:
		return "SFloat"
	case protoreflect.EnumKind:
		return "(SEnum " + c24EnumTbl(fd.Enum()) + ")"
	}
	return ""
}

func c24LeafFlags(fd protoreflect.FieldDescriptor) (bool, bool) {
	po := fd.Options().(*descriptorpb.FieldOptions)
	return proto.GetExtension(po, yextpb.E_Leaflist).(bool), proto.GetExtension(po, yextpb.E_Leaflistunion).(bool)
}

// c24KeyShape splits the fields of an XKey message into its key fields and its single member.
func c24KeyShape(md protoreflect.MessageDescriptor) (keys []protoreflect.FieldDescriptor, member protoreflect.FieldDescriptor, ok bool) {
	for i := 0; i < md.Fields().Len(); i++ {
		fd := md.Fields().Get(i)
		if fd.IsList() || fd.IsMap() {
			return nil, nil, false
		}
		if fd.Kind() == protoreflect.MessageKind {
			if member != nil || i != md.Fields().Len()-1 {
				return nil, nil, false // the model visits the key fields before the member
			}
			member = fd
			continue
		}
		if c24SKind(fd) == "" {
			return nil, nil, false
		}
		keys = append(keys, fd)
	}
	return keys, member, member != nil
}

// c24Desc prints the field descriptors of md; ok=false if some field is outside the model.
func c24Desc(md protoreflect.MessageDescriptor) (string, bool) {
	var items []string
	for i := 0; i < md.Fields().Len(); i++ {
		fd := md.Fields().Get(i)
		if fd.IsMap() {
			return "", false
		}
		anns, ok := c24Annots(fd)
		if !ok {
			return "", false
		}
		kind := ""
		ll, llu := c24LeafFlags(fd)
		switch {
		case fd.IsList() && ll:
			if fd.Kind() != protoreflect.MessageKind || c24WKind(fd.Message()) == "" {
				return "", false
			}
			kind = "KLeafList " + c24WKind(fd.Message())
		case fd.IsList() && llu:
			if fd.Kind() != protoreflect.MessageKind {
				return "", false
			}
			var ms []string
			um := fd.Message()
			for j := 0; j < um.Fields().Len(); j++ {
				uf := um.Fields().Get(j)
				sk := c24SKind(uf)
				if sk == "" || uf.ContainingOneof() != nil || uf.IsList() {
					return "", false
				}
				ms = append(ms, sk)
			}
			kind = "KUnion " + coqList(ms)
		case fd.IsList():
			if fd.Kind() != protoreflect.MessageKind {
				return "", false
			}
			keys, member, ok := c24KeyShape(fd.Message())
			if !ok {
				return "", false
			}
			var ks []string
			for _, kf := range keys {
				ka, ok := c24Annots(kf)
				if !ok {
					return "", false
				}
				ks = append(ks, fmt.Sprintf("{| kd_ann := %s; kd_kind := %s; kd_oneof := %s |}", c24CoqAnnots(ka), c24SKind(kf), coqBool(kf.ContainingOneof() != nil)))
			}
			sub, ok := c24Desc(member.Message())
			if !ok {
				return "", false
			}
			kind = "KList " + coqList(ks) + " " + sub
		case fd.Kind() == protoreflect.MessageKind:
			if w := c24WKind(fd.Message()); w != "" {
				kind = "KWrap " + w
			} else {
				sub, ok := c24Desc(fd.Message())
				if !ok {
					return "", false
				}
				kind = "KMsg " + sub
			}
		default:
			sk := c24SKind(fd)
			if sk == "" {
				return "", false
			}
			kind = "KScalar " + sk
		}
		items = append(items, fmt.Sprintf("FD %s %s %s (%s)", c24Str(string(fd.Name())), c24CoqAnnots(anns), coqBool(fd.ContainingOneof() != nil), kind))
	}
	return "[" + strings.Join(items, ";\n  ") + "]", true
}

// ---------- message -> Coq (trusted translator, part 2) ----------

func c24Bytes(b []byte) string {
	items := make([]string, len(b))
	for i, x := range b {
		items[i] = fmt.Sprintf("%d", x)
	}
	return coqList(items)
}

func c24Z(z int64) string {
	if z < 0 {
		return fmt.Sprintf("(%d)%%Z", z)
	}
	return fmt.Sprintf("%d%%Z", z)
}

func c24WVal(m protoreflect.Message) string {
	switch t := m.Interface().(type) {
	case *wpb.StringValue:
		return "WVString " + c24Str(t.GetValue())
	case *wpb.UintValue:
		return fmt.Sprintf("WVUint %d", t.GetValue())
	case *wpb.BytesValue:
		return "WVBytes " + c24Bytes(t.GetValue())
	case *wpb.BoolValue:
		return "WVBool " + coqBool(t.GetValue())
	case *wpb.IntValue:
		return "WVInt " + c24Z(t.GetValue())
	case *wpb.Decimal64Value:
		return "WVDecimal"
	}
	panic("c24WVal: not a wrapper")
}

func c24SVal(fd protoreflect.FieldDescriptor, v protoreflect.Value) string {
	switch fd.Kind() {
	case protoreflect.StringKind:
		return "SVString " + c24Str(v.String())
	case protoreflect.Uint64Kind:
		return fmt.Sprintf("SVUint64 %d", v.Uint())
	case protoreflect.Uint32Kind:
		return fmt.Sprintf("SVUint32 %d", v.Uint())
	case protoreflect.BoolKind:
		return "SVBool " + coqBool(v.Bool())
	case protoreflect.FloatKind:
		return "SVFloat"
	case protoreflect.EnumKind:
		return fmt.Sprintf("SVEnum %d", v.Enum())
	}
	panic("c24SVal: kind outside the model")
}

func c24Msg(m protoreflect.Message) string {
	md := m.Descriptor()
	var items []string
	for i := 0; i < md.Fields().Len(); i++ {
		fd := md.Fields().Get(i)
		if !m.Has(fd) {
			items = append(items, "VUnset")
			continue
		}
		v := m.Get(fd)
		ll, llu := c24LeafFlags(fd)
		switch {
		case fd.IsList() && ll:
			var vs []string
			for j := 0; j < v.List().Len(); j++ {
				vs = append(vs, c24WVal(v.List().Get(j).Message()))
			}
			items = append(items, "VLeafList "+coqList(vs))
		case fd.IsList() && llu:
			var es []string
			for j := 0; j < v.List().Len(); j++ {
				em := v.List().Get(j).Message()
				var ms []string
				for k := 0; k < em.Descriptor().Fields().Len(); k++ {
					uf := em.Descriptor().Fields().Get(k)
					if em.Has(uf) {
						ms = append(ms, fmt.Sprintf("(%d%%nat, %s)", k, c24SVal(uf, em.Get(uf))))
					}
				}
				es = append(es, coqList(ms))
			}
			items = append(items, "VUnion "+coqList(es))
		case fd.IsList():
			keys, member, _ := c24KeyShape(fd.Message())
			var es []string
			for j := 0; j < v.List().Len(); j++ {
				em := v.List().Get(j).Message()
				var ks []string
				for _, kf := range keys {
					if kf.ContainingOneof() != nil && !em.Has(kf) {
						ks = append(ks, "None")
					} else {
						ks = append(ks, "Some ("+c24SVal(kf, em.Get(kf))+")")
					}
				}
				mem := "None"
				if em.Has(member) {
					mem = "Some " + c24Msg(em.Get(member).Message())
				}
				es = append(es, "("+coqList(ks)+", "+mem+")")
			}
			items = append(items, "VList "+coqList(es))
		case fd.Kind() == protoreflect.MessageKind:
			if c24WKind(fd.Message()) != "" {
				items = append(items, "VWrap ("+c24WVal(v.Message())+")")
			} else {
				items = append(items, "VMsg "+c24Msg(v.Message()))
			}
		default:
			items = append(items, "VScalar ("+c24SVal(fd, v)+")")
		}
	}
	return coqList(items)
}

// ---------- Go dynamic values -> Coq (trusted translator, part 3) ----------

func c24PV(v interface{}) string {
	switch t := v.(type) {
	case nil:
		return "PVNil"
	case string:
		return "PVString " + c24Str(t)
	case uint64:
		return fmt.Sprintf("PVUint64 %d", t)
	case uint:
		return fmt.Sprintf("PVUint %d", t)
	case uint32:
		return fmt.Sprintf("PVUint32 %d", t)
	case []byte:
		return "PVBytes " + c24Bytes(t)
	case bool:
		return "PVBool " + coqBool(t)
	case int64:
		return "PVInt64 " + c24Z(t)
	case protoreflect.EnumNumber:
		return fmt.Sprintf("PVEnumNum %d", t)
	case float32:
		return "PVFloat"
	case []interface{}:
		var items []string
		for _, e := range t {
			items = append(items, "("+c24PV(e)+")")
		}
		return "PVSlice " + coqList(items)
	case []string:
		return "PVStrings " + c24StrList(t)
	case []uint64:
		var items []string
		for _, e := range t {
			items = append(items, fmt.Sprintf("%d", e))
		}
		return "PVUint64s " + coqList(items)
	case []bool:
		var items []string
		for _, e := range t {
			items = append(items, coqBool(e))
		}
		return "PVBools " + coqList(items)
	case []int64:
		var items []string
		for _, e := range t {
			items = append(items, c24Z(e))
		}
		return "PVInt64s " + coqList(items)
	case [][]byte:
		var items []string
		for _, e := range t {
			items = append(items, c24Bytes(e))
		}
		return "PVBytess " + coqList(items)
	}
	panic(fmt.Sprintf("c24PV: Go type %T outside the model", v))
}

type c24Binding struct {
	p *gpb.Path
	v interface{}
}

// c24Sorted returns the bindings of a path map in a canonical order.
func c24Sorted(paths map[*gpb.Path]interface{}) []c24Binding {
	var out []c24Binding
	for p, v := range paths {
		out = append(out, c24Binding{p, v})
	}
	sort.SliceStable(out, func(i, j int) bool {
		a, b := c24PathKey(out[i].p), c24PathKey(out[j].p)
		if a != b {
			return a < b
		}
		return fmt.Sprintf("%T %v", out[i].v, out[i].v) < fmt.Sprintf("%T %v", out[j].v, out[j].v)
	})
	return out
}

// c24PathKey is the canonical text of a path (keys sorted by name) used for sorting.
func c24PathKey(p *gpb.Path) string {
	var b strings.Builder
	for _, e := range p.GetElem() {
		b.WriteString("/" + e.GetName())
		for _, k := range sortedKeys(e.GetKey()) {
			fmt.Fprintf(&b, "[%q=%q]", k, e.Key[k])
		}
	}
	return b.String()
}

// c24Conflicting: two bindings with equal paths and different values (the result of
// ProtoFromPaths then depends on the map iteration order).
func c24Conflicting(bs []c24Binding) bool {
	for i := 1; i < len(bs); i++ {
		if c24PathKey(bs[i-1].p) == c24PathKey(bs[i].p) && fmt.Sprintf("%T %v", bs[i-1].v, bs[i-1].v) != fmt.Sprintf("%T %v", bs[i].v, bs[i].v) {
			return true
		}
	}
	return false
}

// c24HasUncompressedList: a populated keyed list whose schema path is not exactly two elements
// below its message's prefix; createListField then derives the entry's path from whichever
// binding the map iteration yields first, so the outcome is not a function of the input.
func c24HasUncompressedList(t *c24Type, m proto.Message) bool {
	n := proto.Clone(m)
	return c24Walk(n.ProtoReflect(), false, len(c24MustPath(t.prefix).Elem), c24Causes[len(c24Causes)-1].f)
}

func c24CoqVals(bs []c24Binding) string {
	var items []string
	for _, b := range bs {
		items = append(items, "("+c24Path(b.p)+", "+c24PV(b.v)+")")
	}
	return coqList(items)
}

// ---------- running the real code ----------

type c24PathsOut struct {
	ok, panicked bool
	err          string
	paths        map[*gpb.Path]interface{}
}

func c24Paths(m proto.Message) (o c24PathsOut) {
	defer func() {
		if r := recover(); r != nil {
			o = c24PathsOut{panicked: true, err: fmt.Sprint(r)}
		}
	}()
	p, err := protomap.PathsFromProto(m)
	if err != nil {
		return c24PathsOut{err: err.Error()}
	}
	return c24PathsOut{ok: true, paths: p}
}

type c24FromOut struct {
	ok, panicked bool
	err          string
	msg          proto.Message
}

func c24From(mt protoreflect.MessageType, vals map[*gpb.Path]interface{}, opts ...protomap.UnmapOpt) (o c24FromOut) {
	defer func() {
		if r := recover(); r != nil {
			o = c24FromOut{panicked: true, err: fmt.Sprint(r)}
		}
	}()
	n := mt.New().Interface()
	if err := protomap.ProtoFromPaths(n, vals, opts...); err != nil {
		return c24FromOut{err: err.Error()}
	}
	return c24FromOut{ok: true, msg: n}
}

func c24CoqFrom(o c24FromOut) string {
	switch {
	case o.panicked:
		return coqPanic
	case !o.ok:
		return coqErr
	}
	return coqOk(c24Msg(o.msg.ProtoReflect()))
}

// c24Probe determines which repairs of proto.go are present in the tree under test, so that
// the cases are compared with the corresponding variant of the model.
func c24Probe() (fxUint, fxLeaflist, fxTrim bool) {
	emt := (&epb.ExampleMessage{}).ProtoReflect().Type()
	fxUint = c24From(emt, map[*gpb.Path]interface{}{c24MustPath("/uint"): uint64(1)}).ok
	fxLeaflist = c24From(emt, map[*gpb.Path]interface{}{c24MustPath("/leaflist-string"): []interface{}{"a"}}).ok
	o := c24From((&aftpb.Device{}).ProtoReflect().Type(), map[*gpb.Path]interface{}{
		c24MustPath("/afts/next-hops/next-hop[index=1]/index"):                         uint64(1),
		c24MustPath("/afts/next-hops/next-hop[index=1]/interface-ref/state/interface"): "e",
	})
	if o.ok {
		nh := o.msg.(*aftpb.Device).GetAfts().GetNextHop()
		fxTrim = len(nh) == 1 && nh[0].GetNextHop().GetInterfaceRef() != nil
	}
	return
}

// ---------- generator ----------

type c24Profile struct {
	supported bool // only the shapes the property statement lists
	density   int  // a field is populated with probability density/10
}

var c24Strings = []string{"", "a", "eth0", "1.0.0.0/24", "a b", "x/y", "k=v]", "é世", "VAL_ONE", "00:11:22:33:44:55", "0", "-1"}

func c24RandString(rng *rand.Rand) string {
	if rng.Intn(3) == 0 {
		return randValue(rng, 5, nastyRunes)
	}
	return pick(rng, c24Strings)
}

func c24RandUint(rng *rand.Rand) uint64 {
	switch rng.Intn(6) {
	case 0:
		return 0
	case 1:
		return math.MaxUint64
	case 2:
		return 1 << 32
	case 3:
		return rng.Uint64()
	}
	return uint64(rng.Intn(10))
}

func c24RandBytes(rng *rand.Rand) []byte {
	b := make([]byte, rng.Intn(4))
	for i := range b {
		b[i] = byte(rng.Intn(256))
	}
	return b
}

func c24RandWrapper(rng *rand.Rand, md protoreflect.MessageDescriptor) proto.Message {
	switch c24WKind(md) {
	case "WString":
		return &wpb.StringValue{Value: c24RandString(rng)}
	case "WUint":
		return &wpb.UintValue{Value: c24RandUint(rng)}
	case "WBytes":
		return &wpb.BytesValue{Value: c24RandBytes(rng)}
	case "WBool":
		return &wpb.BoolValue{Value: rng.Intn(2) == 0}
	case "WInt":
		return &wpb.IntValue{Value: int64(rng.Intn(200)) - 100}
	case "WDecimal":
		return &wpb.Decimal64Value{Digits: int64(rng.Intn(100)), Precision: 2}
	}
	panic("not a wrapper")
}

func c24SupportedWrapper(md protoreflect.MessageDescriptor) bool {
	switch c24WKind(md) {
	case "WString", "WUint", "WBytes":
		return true
	}
	return false
}

// c24RandEnum draws an enum number; named=true restricts to values carrying a yang_name.
func c24RandEnum(rng *rand.Rand, ed protoreflect.EnumDescriptor, named bool) protoreflect.EnumNumber {
	var cands []protoreflect.EnumNumber
	for i := 0; i < ed.Values().Len(); i++ {
		v := ed.Values().Get(i)
		yn := proto.GetExtension(v.Options().(*descriptorpb.EnumValueOptions), yextpb.E_YangName).(string)
		if !named || (yn != "" && v.Number() != 0) {
			cands = append(cands, v.Number())
		}
	}
	if len(cands) == 0 {
		return 0
	}
	return pick(rng, cands)
}

func c24RandScalar(rng *rand.Rand, fd protoreflect.FieldDescriptor, nonzero bool) protoreflect.Value {
	for {
		var v protoreflect.Value
		zero := false
		switch fd.Kind() {
		case protoreflect.StringKind:
			s := c24RandString(rng)
			v, zero = protoreflect.ValueOfString(s), s == ""
		case protoreflect.Uint64Kind:
			u := c24RandUint(rng)
			v, zero = protoreflect.ValueOfUint64(u), u == 0
		case protoreflect.Uint32Kind:
			u := uint32(rng.Intn(5))
			v, zero = protoreflect.ValueOfUint32(u), u == 0
		case protoreflect.BoolKind:
			b := nonzero || rng.Intn(2) == 0
			v, zero = protoreflect.ValueOfBool(b), !b
		case protoreflect.FloatKind:
			v = protoreflect.ValueOfFloat32(1.5)
		case protoreflect.EnumKind:
			n := c24RandEnum(rng, fd.Enum(), nonzero)
			v, zero = protoreflect.ValueOfEnum(n), n == 0
		default:
			panic("scalar kind outside the model")
		}
		if !nonzero || !zero {
			return v
		}
	}
}

// c24HasData: does the message hold anything PathsFromProto can express?
func c24HasData(m protoreflect.Message) bool {
	has := false
	m.Range(func(fd protoreflect.FieldDescriptor, v protoreflect.Value) bool {
		if fd.IsList() || fd.Kind() != protoreflect.MessageKind || c24WKind(fd.Message()) != "" {
			has = true
			return false
		}
		if c24HasData(v.Message()) {
			has = true
			return false
		}
		return true
	})
	return has
}

func c24KeySig(em protoreflect.Message, keys []protoreflect.FieldDescriptor) string {
	var parts []string
	for _, kf := range keys {
		parts = append(parts, fmt.Sprintf("%v|%v", em.Has(kf) || kf.ContainingOneof() == nil, em.Get(kf).Interface()))
	}
	return strings.Join(parts, "\x00")
}

// c24Gen populates m at random.
func c24Gen(rng *rand.Rand, m protoreflect.Message, prof c24Profile, depth int, plen int) {
	md := m.Descriptor()
	for i := 0; i < md.Fields().Len(); i++ {
		fd := md.Fields().Get(i)
		if rng.Intn(10) >= prof.density {
			continue
		}
		ll, llu := c24LeafFlags(fd)
		switch {
		case fd.IsList() && ll:
			if prof.supported && c24WKind(fd.Message()) == "WDecimal" {
				continue
			}
			l := m.Mutable(fd).List()
			for j, n := 0, 1+rng.Intn(3); j < n; j++ {
				l.Append(protoreflect.ValueOfMessage(c24RandWrapper(rng, fd.Message()).ProtoReflect()))
			}
		case fd.IsList() && llu:
			l := m.Mutable(fd).List()
			um := fd.Message()
			for j, n := 0, 1+rng.Intn(3); j < n; j++ {
				e := l.NewElement()
				uf := um.Fields().Get(rng.Intn(um.Fields().Len()))
				if prof.supported {
					for uf.Kind() == protoreflect.FloatKind {
						uf = um.Fields().Get(rng.Intn(um.Fields().Len()))
					}
					e.Message().Set(uf, c24RandScalar(rng, uf, true))
				} else {
					switch rng.Intn(8) {
					case 0: // empty element
					case 1: // two members
						e.Message().Set(uf, c24RandScalar(rng, uf, false))
						uf2 := um.Fields().Get(rng.Intn(um.Fields().Len()))
						e.Message().Set(uf2, c24RandScalar(rng, uf2, false))
					default:
						e.Message().Set(uf, c24RandScalar(rng, uf, false))
					}
				}
				l.Append(e)
			}
		case fd.IsList():
			keys, member, ok := c24KeyShape(fd.Message())
			if !ok {
				continue
			}
			if c24AnnLen(fd) != plen+2 && rng.Intn(4) != 0 {
				continue // uncompressed lists give order-dependent results: paths-only cases, kept rare
			}
			if prof.supported {
				bad := false
				for _, kf := range keys {
					if kf.ContainingOneof() != nil || (kf.Kind() != protoreflect.StringKind && kf.Kind() != protoreflect.Uint64Kind) {
						bad = true
					}
				}
				if bad {
					continue
				}
			}
			l := m.Mutable(fd).List()
			seen := map[string]bool{}
			for j, n := 0, 1+rng.Intn(3); j < n && depth > 0; j++ {
				e := l.NewElement()
				em := e.Message()
				oneofDone := map[string]bool{}
				for _, kf := range keys {
					if oo := kf.ContainingOneof(); oo != nil {
						if oneofDone[string(oo.Name())] || rng.Intn(3) == 0 {
							continue
						}
						oneofDone[string(oo.Name())] = true
					}
					em.Set(kf, c24RandScalar(rng, kf, false))
				}
				sig := c24KeySig(em, keys)
				if seen[sig] && (prof.supported || rng.Intn(3) != 0) {
					continue
				}
				seen[sig] = true
				if prof.supported || rng.Intn(12) != 0 {
					c24Gen(rng, em.Mutable(member).Message(), prof, depth-1, c24AnnLen(fd))
				}
				l.Append(e)
			}
		case fd.Kind() == protoreflect.MessageKind:
			if c24WKind(fd.Message()) != "" {
				if prof.supported && !c24SupportedWrapper(fd.Message()) {
					continue
				}
				m.Set(fd, protoreflect.ValueOfMessage(c24RandWrapper(rng, fd.Message()).ProtoReflect()))
				continue
			}
			if depth == 0 {
				continue
			}
			child := m.NewField(fd).Message()
			c24Gen(rng, child, prof, depth-1, c24AnnLen(fd))
			if prof.supported && !c24HasData(child) {
				continue
			}
			m.Set(fd, protoreflect.ValueOfMessage(child))
		default:
			if prof.supported && (fd.ContainingOneof() != nil || fd.Kind() != protoreflect.EnumKind) {
				continue
			}
			if oo := fd.ContainingOneof(); oo != nil && m.WhichOneof(oo) != nil {
				continue
			}
			v := c24RandScalar(rng, fd, prof.supported || fd.ContainingOneof() == nil)
			m.Set(fd, v)
		}
	}
}

// ---------- the oracle: the property statement evaluated on the implementation ----------

// c24SortLists returns a copy of m whose keyed lists are sorted by their key fields.
func c24SortLists(m protoreflect.Message) {
	m.Range(func(fd protoreflect.FieldDescriptor, v protoreflect.Value) bool {
		if fd.Kind() != protoreflect.MessageKind || c24WKind(fd.Message()) != "" {
			return true
		}
		ll, llu := c24LeafFlags(fd)
		if ll || llu {
			return true
		}
		if !fd.IsList() {
			c24SortLists(v.Message())
			return true
		}
		keys, _, ok := c24KeyShape(fd.Message())
		if !ok {
			return true
		}
		l := v.List()
		es := make([]protoreflect.Message, l.Len())
		for i := range es {
			es[i] = l.Get(i).Message()
			c24SortLists(es[i])
		}
		sort.SliceStable(es, func(i, j int) bool { return c24KeySig(es[i], keys) < c24KeySig(es[j], keys) })
		l.Truncate(0)
		for _, e := range es {
			l.Append(protoreflect.ValueOfMessage(e))
		}
		return true
	})
}

// c24Walk visits every populated field of m and of its descendants; f returns true when it
// removed the field. plen is the length of the schema prefix of the message being visited.
func c24Walk(m protoreflect.Message, underList bool, plen int, f func(m protoreflect.Message, fd protoreflect.FieldDescriptor, underList bool, plen int) bool) bool {
	changed := false
	md := m.Descriptor()
	for i := 0; i < md.Fields().Len(); i++ {
		fd := md.Fields().Get(i)
		if !m.Has(fd) {
			continue
		}
		if f(m, fd, underList, plen) {
			changed = true
			continue
		}
		if fd.Kind() != protoreflect.MessageKind || c24WKind(fd.Message()) != "" {
			continue
		}
		ll, llu := c24LeafFlags(fd)
		if ll || llu {
			continue
		}
		if fd.IsList() {
			_, member, ok := c24KeyShape(fd.Message())
			if !ok {
				continue
			}
			l := m.Get(fd).List()
			for j := 0; j < l.Len(); j++ {
				if l.Get(j).Message().Has(member) {
					if c24Walk(l.Get(j).Message().Mutable(member).Message(), true, c24AnnLen(fd), f) {
						changed = true
					}
				}
			}
			continue
		}
		if c24Walk(m.Mutable(fd).Message(), underList, c24AnnLen(fd), f) {
			changed = true
		}
	}
	return changed
}

func c24AnnLen(fd protoreflect.FieldDescriptor) int {
	a, _ := c24Annots(fd)
	if len(a) == 0 {
		return 0
	}
	return len(a[0].Elem)
}

var c24Causes = []struct {
	sig string
	f   func(m protoreflect.Message, fd protoreflect.FieldDescriptor, underList bool, plen int) bool
}{
	{"roundtrip/uint-wrapper", func(m protoreflect.Message, fd protoreflect.FieldDescriptor, _ bool, plen int) bool {
		if !fd.IsList() && fd.Kind() == protoreflect.MessageKind && c24WKind(fd.Message()) == "WUint" {
			m.Clear(fd)
			return true
		}
		return false
	}},
	{"roundtrip/leaflist-slice-type", func(m protoreflect.Message, fd protoreflect.FieldDescriptor, _ bool, plen int) bool {
		if ll, _ := c24LeafFlags(fd); fd.IsList() && ll {
			m.Clear(fd)
			return true
		}
		return false
	}},
	{"roundtrip/container-under-list", func(m protoreflect.Message, fd protoreflect.FieldDescriptor, underList bool, plen int) bool {
		if underList && !fd.IsList() && fd.Kind() == protoreflect.MessageKind && c24WKind(fd.Message()) == "" {
			m.Clear(fd)
			return true
		}
		return false
	}},
	{"roundtrip/union-enum-as-string", func(m protoreflect.Message, fd protoreflect.FieldDescriptor, _ bool, plen int) bool {
		if _, llu := c24LeafFlags(fd); !(fd.IsList() && llu) {
			return false
		}
		// an enum member set although an earlier (or any) string member exists
		um := fd.Message()
		hasStr := false
		for j := 0; j < um.Fields().Len(); j++ {
			if um.Fields().Get(j).Kind() == protoreflect.StringKind {
				hasStr = true
			}
		}
		if !hasStr {
			return false
		}
		l := m.Get(fd).List()
		for j := 0; j < l.Len(); j++ {
			bad := false
			l.Get(j).Message().Range(func(uf protoreflect.FieldDescriptor, _ protoreflect.Value) bool {
				if uf.Kind() == protoreflect.EnumKind {
					bad = true
				}
				return true
			})
			if bad {
				m.Clear(fd)
				return true
			}
		}
		return false
	}},
	{"roundtrip/uncompressed-list", func(m protoreflect.Message, fd protoreflect.FieldDescriptor, _ bool, plen int) bool {
		ll, llu := c24LeafFlags(fd)
		if !fd.IsList() || ll || llu || fd.Kind() != protoreflect.MessageKind {
			return false
		}
		// the list's schema path must be exactly two elements below the message's own prefix
		if c24AnnLen(fd) == plen+2 {
			return false
		}
		m.Clear(fd)
		return true
	}},
}

type c24JCase struct {
	Type      string `json:"type"`
	Prototext string `json:"prototext"`
}

func c24J(t *c24Type, m proto.Message) c24JCase {
	return c24JCase{Type: t.name, Prototext: prototext.MarshalOptions{}.Format(m)}
}

// c24AllAnnots collects the annotations reachable from md: leaf/container/list fields and key
// fields; lists collects the list annotations with their key names.
func c24AllAnnots(md protoreflect.MessageDescriptor, all map[string]bool, lists map[string][]string, seen map[protoreflect.FullName]bool) {
	if seen[md.FullName()] {
		return
	}
	seen[md.FullName()] = true
	for i := 0; i < md.Fields().Len(); i++ {
		fd := md.Fields().Get(i)
		anns, _ := c24Annots(fd)
		for _, a := range anns {
			s, _ := ygot.PathToString(a)
			all[s] = true
		}
		if fd.Kind() != protoreflect.MessageKind || c24WKind(fd.Message()) != "" {
			continue
		}
		ll, llu := c24LeafFlags(fd)
		if ll || llu {
			continue
		}
		if fd.IsList() {
			keys, member, ok := c24KeyShape(fd.Message())
			if !ok || len(anns) != 1 {
				continue
			}
			ls, _ := ygot.PathToString(anns[0])
			for _, kf := range keys {
				ka, _ := c24Annots(kf)
				for _, a := range ka {
					s, _ := ygot.PathToString(a)
					all[s] = true
					if n := len(a.Elem); n > 0 {
						name := a.Elem[n-1].Name
						dup := false
						for _, x := range lists[ls] {
							dup = dup || x == name
						}
						if !dup {
							lists[ls] = append(lists[ls], name)
						}
					}
				}
			}
			if _, ok := lists[ls]; !ok {
				lists[ls] = nil
			}
			c24AllAnnots(member.Message(), all, lists, seen)
			continue
		}
		c24AllAnnots(fd.Message(), all, lists, seen)
	}
}

func c24StripKeys(p *gpb.Path, n int) string {
	q := &gpb.Path{}
	for _, e := range p.Elem[:n] {
		q.Elem = append(q.Elem, &gpb.PathElem{Name: e.Name})
	}
	s, err := ygot.PathToString(q)
	if err != nil {
		return "?" + err.Error()
	}
	return s
}

// c24PathOracle: every emitted path, keys stripped, is an annotation of the message type, and
// exactly the list elements carry keys, named after the list's key leaves.
func c24PathOracle(t *c24Type, m proto.Message, paths map[*gpb.Path]interface{}, sum *Summary) {
	all, lists := map[string]bool{}, map[string][]string{}
	c24AllAnnots(t.mt.Descriptor(), all, lists, map[protoreflect.FullName]bool{})
	for p := range paths {
		if !all[c24StripKeys(p, len(p.Elem))] {
			sum.finding(Finding{Signature: "path-not-annotated", What: "PathsFromProto emits a path whose schema path is no schemapath annotation", Input: c24J(t, m), Observed: c24StripKeys(p, len(p.Elem))})
		}
		for i, e := range p.Elem {
			names, isList := lists[c24StripKeys(p, i+1)]
			good := len(e.Key) == 0
			if isList {
				good = len(e.Key) == len(names)
				for _, n := range names {
					if _, ok := e.Key[n]; !ok {
						good = false
					}
				}
			}
			if !good {
				ps, _ := ygot.PathToString(p)
				sum.finding(Finding{Signature: "path-keys", What: "an emitted path does not carry exactly the list keys at its list elements", Input: c24J(t, m), Observed: ps})
			}
		}
	}
}

// c24RoundTrip runs the property statement on m: "" if ProtoFromPaths(blank, PathsFromProto(m))
// succeeds and is proto.Equal to m, "order" if it only differs in the order of keyed-list
// entries, otherwise a description of what was observed.
func c24RoundTrip(t *c24Type, m proto.Message) (verdict, got string, po c24PathsOut) {
	po = c24Paths(m)
	if !po.ok {
		return "paths-error", po.err, po
	}
	fo := c24From(t.mt, po.paths)
	if fo.ok && proto.Equal(m, fo.msg) {
		return "", "", po
	}
	if !fo.ok {
		return "differs", "error: " + fo.err, po
	}
	got = prototext.MarshalOptions{}.Format(fo.msg)
	a, b := proto.Clone(m), proto.Clone(fo.msg)
	c24SortLists(a.ProtoReflect())
	c24SortLists(b.ProtoReflect())
	if proto.Equal(a, b) {
		return "order", got, po
	}
	return "differs", got, po
}

// c24Oracle: ProtoFromPaths(blank, PathsFromProto(m)) succeeds and is proto.Equal to m, for a
// message m of the supported shape (generated with prof.supported).  A failure is attributed
// by isolation: for every known cause present in m, all the other known causes are removed
// from a copy; the cause is reported (with the reduced message as the failing input) iff the
// reduced message still fails.  If the message fails with every known cause removed, or fails
// although no reduced message does, the finding is 'roundtrip/other'.
func c24Oracle(t *c24Type, m proto.Message, sum *Summary, depth int) {
	sum.OracleRuns++
	unc := len(c24Causes) - 1 // the uncompressed-list cause: its outcome depends on the map iteration order
	present := func(n proto.Message, i int) bool {
		return c24Walk(proto.Clone(n).ProtoReflect(), false, 0, c24Causes[i].f)
	}
	if present(m, unc) {
		for k := 0; k < 8; k++ {
			if v, g, _ := c24RoundTrip(t, m); v == "differs" || v == "paths-error" {
				sum.finding(Finding{Signature: c24Causes[unc].sig, What: "ProtoFromPaths(blank, PathsFromProto(m)) is not m (the outcome varies with the map iteration order)", Input: c24J(t, m), Observed: g})
				break
			}
		}
		n := proto.Clone(m)
		c24Walk(n.ProtoReflect(), false, 0, c24Causes[unc].f)
		c24Prune(n.ProtoReflect())
		m = n
	}
	verdict, got, po := c24RoundTrip(t, m)
	if po.ok {
		c24PathOracle(t, m, po.paths, sum)
	}
	switch verdict {
	case "":
		return
	case "paths-error":
		sum.finding(Finding{Signature: "roundtrip/paths-error", What: "PathsFromProto fails on a message of the supported shape: " + got, Input: c24J(t, m)})
		return
	case "order":
		sum.finding(Finding{Signature: "roundtrip/list-order", What: "the round trip returns the entries of a keyed list in a different (map iteration) order", Input: c24J(t, m), Observed: got})
		return
	}
	fails := func(n proto.Message) (bool, string) {
		sum.OracleRuns++
		v, g, _ := c24RoundTrip(t, n)
		return v == "differs" || v == "paths-error", g
	}
	attributed := false
	for i := 0; i < unc; i++ {
		if !present(m, i) {
			continue
		}
		n := proto.Clone(m)
		for j := 0; j < unc; j++ {
			if j != i {
				c24Walk(n.ProtoReflect(), false, 0, c24Causes[j].f)
			}
		}
		c24Prune(n.ProtoReflect())
		if !present(n, i) {
			continue
		}
		if bad, g := fails(n); bad {
			attributed = true
			sum.finding(Finding{Signature: c24Causes[i].sig, What: "ProtoFromPaths(blank, PathsFromProto(m)) is not m", Input: c24J(t, n), Observed: g})
		}
	}
	if attributed {
		return
	}
	// overlapping causes (e.g. a uint wrapper inside a container below a list entry): remove the
	// known causes one after the other until the round trip works
	n := proto.Clone(m)
	var removed []string
	for i := 0; i < unc; i++ {
		if !present(n, i) {
			continue
		}
		c24Walk(n.ProtoReflect(), false, 0, c24Causes[i].f)
		c24Prune(n.ProtoReflect())
		removed = append(removed, c24Causes[i].sig)
		if bad, _ := fails(n); !bad {
			for _, sig := range removed {
				sum.finding(Finding{Signature: sig, What: "ProtoFromPaths(blank, PathsFromProto(m)) is not m (several known causes overlap in m)", Input: c24J(t, m), Observed: got})
			}
			return
		}
	}
	_, g := fails(n)
	sum.finding(Finding{Signature: "roundtrip/other", What: "ProtoFromPaths(blank, PathsFromProto(m)) is not m although no known cause is left in m", Input: c24J(t, n), Observed: g})
}

// c24Prune clears child messages left without data (they cannot be expressed as paths).
func c24Prune(m protoreflect.Message) {
	c24Walk(m, false, 0, func(pm protoreflect.Message, fd protoreflect.FieldDescriptor, _ bool, _ int) bool {
		if !fd.IsList() && fd.Kind() == protoreflect.MessageKind && c24WKind(fd.Message()) == "" {
			c24Prune(pm.Mutable(fd).Message())
			if !c24HasData(pm.Get(fd).Message()) {
				pm.Clear(fd)
				return true
			}
		}
		return false
	})
}

// ---------- the stream ----------

func c24Stream(rng *rand.Rand, n int, tier string, out string) (*Summary, error) {
	sum := &Summary{Rule: "random messages of exschemapath.{Root,ExampleMessage,Interface,ExampleNestedMessage} and gribi_aft.{Device,Afts}, populated by walking the descriptor (profile 'supported': string/uint/bytes wrappers, named enum values, leaf-lists, unions with one non-zero member, non-empty containers, keyed lists with distinct string/uint64 keys; profile 'any': also bool/int/decimal wrappers, oneof members, empty containers and union elements, nil members, duplicate keys, uint32/oneof keys); round cases run PathsFromProto then ProtoFromPaths, from cases run ProtoFromPaths on mutated path maps. A case is non-trivial if its path map has >= 3 bindings or the call fails; distinct by type, message and path map."}
	var descs strings.Builder
	for _, t := range c24Types {
		d, ok := c24Desc(t.mt.Descriptor())
		if !ok {
			return nil, fmt.Errorf("descriptor of %s is outside the model", t.name)
		}
		fmt.Fprintf(&descs, "Definition c24d_%s : list fdesc :=\n %s.\n", t.name, d)
	}
	fxU, fxL, fxT := c24Probe()
	fmt.Fprintf(&descs, "Definition c24fx : fixes := {| fx_uint := %s; fx_leaflist := %s; fx_trim := %s |}.\n", coqBool(fxU), coqBool(fxL), coqBool(fxT))
	cf := &caseFile{typ: "c24case", fn: "c24_mismatches"}
	finish := func() ([]string, error) {
		// the interned strings are complete only now
		cf.header = "From Ygot Require Import Base.Base Path.PathString Diffs.ProtoMap Corr.ProtoMapCorr.\nOpen Scope N_scope.\n" +
			strings.Join(c24StrDefs, "\n") + "\n" + descs.String()
		return cf.write(out, "protomap", 60)
	}
	sum.Extra = map[string]interface{}{"fixes_detected": map[string]bool{"uint": fxU, "leaflist": fxL, "trim": fxT}}
	seen := map[string]bool{}
	id := 0

	nontrivial := func(key string, nt bool) {
		if !seen[key] {
			seen[key] = true
			if nt {
				sum.Nontrivial++
			}
		}
	}

	addRound := func(t *c24Type, m proto.Message, kind string) c24PathsOut {
		po := c24Paths(m)
		pathsTerm, rtTerm := coqErr, coqErr
		pathsOnly := c24HasUncompressedList(t, m) || (po.ok && c24Conflicting(c24Sorted(po.paths)))
		var opts []protomap.UnmapOpt
		if t.prefix != "" {
			opts = append(opts, protomap.ProtobufMessagePrefix(c24MustPath(t.prefix)))
		}
		outcome := "paths-err"
		if po.panicked {
			pathsTerm, rtTerm, outcome = coqPanic, coqErr, "paths-panic"
		} else if po.ok {
			bs := c24Sorted(po.paths)
			pathsTerm = coqOk(c24CoqVals(bs))
			fo := c24From(t.mt, po.paths, opts...)
			rtTerm = c24CoqFrom(fo)
			switch {
			case fo.panicked:
				outcome = "from-panic"
			case !fo.ok:
				outcome = "from-err"
			case proto.Equal(m, fo.msg):
				outcome = "equal"
			default:
				outcome = "differs"
			}
		}
		mt := c24Msg(m.ProtoReflect())
		if pathsOnly {
			// the second half is not a function of the path map (see c24HasUncompressedList, c24Conflicting)
			cf.add(fmt.Sprintf("CPaths %d c24d_%s %s %s", id, t.name, mt, pathsTerm))
			outcome = "paths-only/" + outcome
		} else {
			cf.add(fmt.Sprintf("CRound %d c24fx c24d_%s %s %s %s %s", id, t.name, mt, c24Path(c24MustPath(t.prefix)), pathsTerm, rtTerm))
		}
		id++
		sum.count("round_type", t.name)
		sum.count("round_kind", kind)
		sum.count("round_outcome", outcome)
		nontrivial("R"+t.name+mt, len(po.paths) >= 3 || !po.ok)
		sum.sample(map[string]interface{}{"type": t.name, "message": prototext.MarshalOptions{}.Format(m), "paths": len(po.paths), "outcome": outcome})
		return po
	}

	addFrom := func(t *c24Type, vals map[*gpb.Path]interface{}, vp, pp *gpb.Path, ig bool, kind string) {
		var opts []protomap.UnmapOpt
		if len(vp.GetElem()) > 0 {
			opts = append(opts, protomap.ValuePathPrefix(vp))
		}
		if len(pp.GetElem()) > 0 {
			opts = append(opts, protomap.ProtobufMessagePrefix(pp))
		}
		if ig {
			opts = append(opts, protomap.IgnoreExtraPaths())
		}
		fo := c24From(t.mt, vals, opts...)
		first := c24CoqFrom(fo)
		// an error and a panic can race through the map iteration order: keep stable outcomes only
		for k := 0; k < 3; k++ {
			if again := c24From(t.mt, vals, opts...); (again.ok != fo.ok) || (again.panicked != fo.panicked) {
				sum.count("from_outcome", "unstable-dropped")
				return
			}
		}
		bs := c24Sorted(vals)
		cf.add(fmt.Sprintf("CFrom %d c24fx c24d_%s %s %s %s %s %s", id, t.name, c24CoqVals(bs), c24Path(vp), c24Path(pp), coqBool(ig), first))
		id++
		sum.count("from_kind", kind)
		oc := "ok"
		if fo.panicked {
			oc = "panic"
		} else if !fo.ok {
			oc = "err"
		}
		sum.count("from_outcome", oc)
		nontrivial("F"+t.name+c24CoqVals(bs)+c24Path(vp)+c24Path(pp)+coqBool(ig), len(vals) >= 3 || !fo.ok)
	}

	mutate := func(t *c24Type, paths map[*gpb.Path]interface{}) {
		bs := c24Sorted(paths)
		if len(bs) == 0 || c24Conflicting(bs) {
			return
		}
		vals := map[*gpb.Path]interface{}{}
		for _, b := range bs {
			vals[proto.Clone(b.p).(*gpb.Path)] = b.v
		}
		keysOf := func() []*gpb.Path {
			var ks []*gpb.Path
			for _, b := range c24Sorted(vals) {
				ks = append(ks, b.p)
			}
			return ks
		}
		ks := keysOf()
		victim := pick(rng, ks)
		kind := ""
		mut := rng.Intn(9)
		if t.prefix != "" && rng.Intn(3) == 0 {
			mut = 7
		}
		switch mut {
		case 0:
			kind = "drop-binding"
			delete(vals, victim)
		case 1:
			kind = "retype-value"
			switch v := vals[victim].(type) {
			case uint64:
				if rng.Intn(2) == 0 {
					vals[victim] = uint(v)
				} else {
					vals[victim] = uint32(v)
				}
			case string:
				vals[victim] = uint64(len(v))
			case []byte:
				vals[victim] = string(v)
			case []interface{}:
				if len(v) > 0 {
					switch v[0].(type) {
					case string:
						var s []string
						for _, e := range v {
							if x, ok := e.(string); ok {
								s = append(s, x)
							}
						}
						vals[victim] = s
					case uint64:
						var s []uint64
						for _, e := range v {
							if x, ok := e.(uint64); ok {
								s = append(s, x)
							}
						}
						vals[victim] = s
					case []byte:
						var s [][]byte
						for _, e := range v {
							if x, ok := e.([]byte); ok {
								s = append(s, x)
							}
						}
						vals[victim] = s
					case bool:
						var s []bool
						for _, e := range v {
							if x, ok := e.(bool); ok {
								s = append(s, x)
							}
						}
						vals[victim] = s
					case int64:
						var s []int64
						for _, e := range v {
							if x, ok := e.(int64); ok {
								s = append(s, x)
							}
						}
						vals[victim] = s
					default:
						vals[victim] = nil
					}
				}
			default:
				vals[victim] = nil
			}
		case 2:
			kind = "extra-leaf"
			q := proto.Clone(victim).(*gpb.Path)
			q.Elem[len(q.Elem)-1] = &gpb.PathElem{Name: "zz-extra"}
			vals[q] = "x"
		case 3:
			kind = "rekey"
			q := proto.Clone(victim).(*gpb.Path)
			done := false
			for _, e := range q.Elem {
				for k := range e.Key {
					if !done {
						e.Key[k] = pick(rng, []string{"7", "new", "", "-3", "18446744073709551616", "007"})
						done = true
					}
				}
			}
			if !done {
				return
			}
			delete(vals, victim)
			vals[q] = c24ValueOf(bs, victim)
		case 4:
			kind = "unkey"
			q := proto.Clone(victim).(*gpb.Path)
			done := false
			for _, e := range q.Elem {
				if len(e.Key) > 0 && !done {
					e.Key = nil
					done = true
				}
			}
			if !done {
				return
			}
			delete(vals, victim)
			vals[q] = c24ValueOf(bs, victim)
		case 5:
			kind = "extra-key"
			q := proto.Clone(victim).(*gpb.Path)
			done := false
			for _, e := range q.Elem {
				if len(e.Key) > 0 && !done {
					e.Key["zz"] = "1"
					done = true
				}
			}
			if !done {
				return
			}
			delete(vals, victim)
			vals[q] = c24ValueOf(bs, victim)
		case 6:
			kind = "ignore-extras"
			q := proto.Clone(victim).(*gpb.Path)
			q.Elem[len(q.Elem)-1] = &gpb.PathElem{Name: "zz-extra"}
			vals[q] = "x"
			addFrom(t, vals, &gpb.Path{}, c24MustPath(t.prefix), true, kind)
			return
		case 7:
			kind = "relative"
			// the same map relative to the message prefix, announced with ValuePathPrefix
			pp := c24MustPath(t.prefix)
			if len(pp.Elem) == 0 {
				return
			}
			rel := map[*gpb.Path]interface{}{}
			for p, v := range vals {
				if len(p.Elem) < len(pp.Elem) {
					return
				}
				rel[&gpb.Path{Elem: p.Elem[len(pp.Elem):]}] = v
			}
			addFrom(t, rel, pp, pp, rng.Intn(2) == 0, kind)
			return
		case 8:
			kind = "truncate"
			if len(victim.Elem) < 2 {
				return
			}
			q := &gpb.Path{Elem: victim.Elem[:len(victim.Elem)-1]}
			delete(vals, victim)
			vals[q] = c24ValueOf(bs, victim)
		}
		addFrom(t, vals, &gpb.Path{}, c24MustPath(t.prefix), rng.Intn(4) == 0, kind)
	}

	if replayFile != "" {
		b, err := os.ReadFile(replayFile)
		if err != nil {
			return nil, err
		}
		var wrap struct {
			Case c24JCase `json:"case"`
		}
		if err := json.Unmarshal(b, &wrap); err != nil {
			return nil, err
		}
		t := c24TypeByName(wrap.Case.Type)
		if t == nil {
			return nil, fmt.Errorf("unknown message type %q", wrap.Case.Type)
		}
		m := t.mt.New().Interface()
		if err := prototext.Unmarshal([]byte(wrap.Case.Prototext), m); err != nil {
			return nil, err
		}
		addRound(t, m, "replay")
		if t.prefix == "" {
			c24Oracle(t, m, sum, 0)
		}
		sum.Cases = id
		files, err := finish()
		sum.Extra["case_files"] = files
		return sum, err
	}

	// hand-picked corner cases first (one construct each)
	for _, c := range c24Corners() {
		t := c24TypeByName(c.typ)
		po := addRound(t, c.m, "corner")
		if c.supported && t.prefix == "" {
			c24Oracle(t, c.m, sum, 0)
		}
		if po.ok && !c24HasUncompressedList(t, c.m) {
			mutate(t, po.paths)
		}
	}
	for _, c := range c24FromCorners() {
		addFrom(c24TypeByName(c.typ), c.vals, c24MustPath(c.vp), c24MustPath(c.pp), c.ig, "corner")
	}

	for id < n {
		t := &c24Types[rng.Intn(len(c24Types))]
		prof := c24Profile{supported: rng.Intn(10) < 6, density: 2 + rng.Intn(6)}
		m := t.mt.New()
		c24Gen(rng, m, prof, 3, len(c24MustPath(t.prefix).Elem))
		kind := "any"
		if prof.supported {
			kind = "supported"
		}
		po := addRound(t, m.Interface(), kind)
		if prof.supported && t.prefix == "" {
			c24Oracle(t, m.Interface(), sum, 0)
		}
		if po.ok && rng.Intn(2) == 0 && !c24HasUncompressedList(t, m.Interface()) {
			mutate(t, po.paths)
		}
	}
	// further messages of the supported shape go through the oracle only (no Coq term)
	extra := 3 * n
	for i := 0; i < extra; i++ {
		t := &c24Types[rng.Intn(3)] // the root messages
		m := t.mt.New()
		c24Gen(rng, m, c24Profile{supported: true, density: 2 + rng.Intn(6)}, 3, 0)
		c24Oracle(t, m.Interface(), sum, 0)
	}
	sum.Extra["oracle_only_messages"] = extra
	if tier == "thorough" {
		// exhaustive small scope on exschemapath.Root: every message with interfaces drawn from
		// {a, b} in both orders, each with an optional description and subinterfaces drawn from
		// {0, 1} with an optional description, and an optional hostname
		t := c24TypeByName("Root")
		sv := func(s string) *wpb.StringValue { return &wpb.StringValue{Value: s} }
		var subOpts [][]*epb.Interface_SubinterfaceKey
		one := func(idx uint64) []*epb.Interface_SubinterfaceKey {
			return []*epb.Interface_SubinterfaceKey{nil, {Index: idx, Subinterface: &epb.Subinterface{}}, {Index: idx, Subinterface: &epb.Subinterface{Description: sv("s")}}}
		}
		for _, s0 := range one(0) {
			for _, s1 := range one(1) {
				var l []*epb.Interface_SubinterfaceKey
				if s0 != nil {
					l = append(l, s0)
				}
				if s1 != nil {
					l = append(l, s1)
				}
				subOpts = append(subOpts, l)
			}
		}
		ifOpts := func(name string) []*epb.Root_InterfaceKey {
			out := []*epb.Root_InterfaceKey{nil}
			for _, desc := range []*wpb.StringValue{nil, sv("d")} {
				for _, subs := range subOpts {
					out = append(out, &epb.Root_InterfaceKey{Name: name, Interface: &epb.Interface{Description: desc, Subinterface: subs}})
				}
			}
			return out
		}
		exh := 0
		for _, host := range []*epb.System{nil, {Hostname: sv("h")}} {
			for _, ia := range ifOpts("a") {
				for _, ib := range ifOpts("b") {
					for order := 0; order < 2; order++ {
						var l []*epb.Root_InterfaceKey
						if ia != nil {
							l = append(l, ia)
						}
						if ib != nil {
							l = append(l, ib)
						}
						if order == 1 {
							if len(l) < 2 {
								continue
							}
							l[0], l[1] = l[1], l[0]
						}
						m := proto.Clone(&epb.Root{System: host, Interface: l})
						c24Oracle(t, m, sum, 0)
						exh++
						if exh%9 == 0 && id < 2*n {
							addRound(t, m, "exhaustive")
						}
					}
				}
			}
		}
		sum.Extra["exhaustive_messages"] = exh
	}
	sum.Cases = id
	files, err := finish()
	sum.Extra["case_files"] = files
	return sum, err
}

func c24ValueOf(bs []c24Binding, p *gpb.Path) interface{} {
	for _, b := range bs {
		if proto.Equal(b.p, p) {
			return b.v
		}
	}
	return nil
}

type c24Corner struct {
	typ       string
	m         proto.Message
	supported bool
}

func c24Corners() []c24Corner {
	sv := func(s string) *wpb.StringValue { return &wpb.StringValue{Value: s} }
	return []c24Corner{
		{"ExampleMessage", &epb.ExampleMessage{}, true},
		{"ExampleMessage", &epb.ExampleMessage{Ui: &wpb.UintValue{Value: 3}}, true},
		{"ExampleMessage", &epb.ExampleMessage{Str: sv("x"), Compress: sv("")}, true},
		{"ExampleMessage", &epb.ExampleMessage{By: &wpb.BytesValue{Value: []byte{0, 255}}}, true},
		{"ExampleMessage", &epb.ExampleMessage{Bo: &wpb.BoolValue{Value: true}}, false},
		{"ExampleMessage", &epb.ExampleMessage{In: &wpb.IntValue{Value: -1}}, false},
		{"ExampleMessage", &epb.ExampleMessage{De: &wpb.Decimal64Value{Digits: 1}}, false},
		{"ExampleMessage", &epb.ExampleMessage{En: epb.ExampleEnum_ENUM_VALFORTYTWO}, true},
		{"ExampleMessage", &epb.ExampleMessage{En: epb.ExampleEnum(7)}, false},
		{"ExampleMessage", &epb.ExampleMessage{OneofField: &epb.ExampleMessage_OneofOne{OneofOne: "o"}}, false},
		{"ExampleMessage", &epb.ExampleMessage{OneofField: &epb.ExampleMessage_OneofTwo{OneofTwo: 0}}, false},
		{"ExampleMessage", &epb.ExampleMessage{LeaflistString: []*wpb.StringValue{sv("a"), sv("")}}, true},
		{"ExampleMessage", &epb.ExampleMessage{LeaflistUint: []*wpb.UintValue{{Value: 1}}, LeaflistBytes: []*wpb.BytesValue{{Value: []byte{1}}}}, true},
		{"ExampleMessage", &epb.ExampleMessage{LeaflistBool: []*wpb.BoolValue{{Value: true}}, LeaflistInt: []*wpb.IntValue{{Value: 5}}}, false},
		{"ExampleMessage", &epb.ExampleMessage{LeaflistDecimal64: []*wpb.Decimal64Value{{Digits: 5}}}, false},
		{"ExampleMessage", &epb.ExampleMessage{LeaflistUnionB: []*epb.ExampleUnionUnambiguous{{Uint: 1}, {Enum: epb.ExampleEnum_ENUM_VALTWO}}}, true},
		{"ExampleMessage", &epb.ExampleMessage{LeaflistUnionB: []*epb.ExampleUnionUnambiguous{{Uint: 0}}}, false},
		{"ExampleMessage", &epb.ExampleMessage{LeaflistUnionB: []*epb.ExampleUnionUnambiguous{{Uint: 1, Enum: epb.ExampleEnum_ENUM_VALTWO}}}, false},
		{"ExampleMessage", &epb.ExampleMessage{LeaflistUnionB: []*epb.ExampleUnionUnambiguous{{Enum: epb.ExampleEnum(9)}}}, false},
		{"ExampleMessage", &epb.ExampleMessage{LeaflistUnion: []*epb.ExampleUnion{{Enum: epb.ExampleEnum_ENUM_VALTWO}}}, true},
		{"ExampleMessage", &epb.ExampleMessage{LeaflistUnion: []*epb.ExampleUnion{{Str: "hello"}, {Uint: 5}}}, true},
		{"ExampleMessage", &epb.ExampleMessage{LeaflistUnionC: []*epb.ExampleUnionTwo{{B: true}}}, true},
		{"ExampleMessage", &epb.ExampleMessage{LeaflistUnionC: []*epb.ExampleUnionTwo{{F: 1.5}}}, false},
		{"ExampleMessage", &epb.ExampleMessage{Nested: &epb.ExampleNestedMessage{One: sv("1"), Child: &epb.ExampleNestedGrandchild{Two: sv("2")}}}, true},
		{"ExampleMessage", &epb.ExampleMessage{Nested: &epb.ExampleNestedMessage{}}, false},
		{"ExampleMessage", &epb.ExampleMessage{Union: &epb.BasicUnion{Str: "u"}}, false},
		{"ExampleMessage", &epb.ExampleMessage{Ex: &epb.ExampleMessageChild{Str: sv("c")}}, true},
		{"ExampleMessage", &epb.ExampleMessage{Em: []*epb.ExampleMessageKey{{SingleKey: "k", Member: &epb.ExampleMessageListMember{Str: sv("s"), ChildList: []*epb.NestedListKey{{KeyOne: "z", Field: &epb.NestedListMember{Str: sv("q")}}}}}}}, true},
		{"ExampleMessage", &epb.ExampleMessage{Multi: []*epb.ExampleMessageMultiKey{{Index: 1, Name: "n", Member: &epb.MultiKeyListMember{Child: sv("c")}}}}, false},
		{"Root", &epb.Root{System: &epb.System{Hostname: sv("h")}, Interface: []*epb.Root_InterfaceKey{{Name: "eth0", Interface: &epb.Interface{Description: sv("d"), Subinterface: []*epb.Interface_SubinterfaceKey{{Index: 1, Subinterface: &epb.Subinterface{Description: sv("sd")}}, {Index: 0, Subinterface: &epb.Subinterface{}}}}}, {Name: "eth1", Interface: &epb.Interface{}}}}, true},
		{"Root", &epb.Root{Interface: []*epb.Root_InterfaceKey{{Name: "", Interface: &epb.Interface{}}}}, true},
		{"Root", &epb.Root{Interface: []*epb.Root_InterfaceKey{{Name: "a"}}}, false},
		{"Root", &epb.Root{Interface: []*epb.Root_InterfaceKey{{Name: "a", Interface: &epb.Interface{Description: sv("1")}}, {Name: "a", Interface: &epb.Interface{Description: sv("2")}}}}, false},
		{"Root", &epb.Root{System: &epb.System{}}, false},
		{"Device", &aftpb.Device{Afts: &aftpb.Afts{NextHop: []*aftpb.Afts_NextHopKey{{Index: 1, NextHop: &aftpb.Afts_NextHop{IpAddress: sv("1.1.1.1"), InterfaceRef: &aftpb.Afts_NextHop_InterfaceRef{Interface: sv("eth0")}}}}}}, true},
		{"Device", &aftpb.Device{Afts: &aftpb.Afts{NextHopGroup: []*aftpb.Afts_NextHopGroupKey{{Id: 1, NextHopGroup: &aftpb.Afts_NextHopGroup{NextHop: []*aftpb.Afts_NextHopGroup_NextHopKey{{Index: 2, NextHop: &aftpb.Afts_NextHopGroup_NextHop{}}}}}}}}, true},
		{"Device", &aftpb.Device{Afts: &aftpb.Afts{Ipv4Entry: []*aftpb.Afts_Ipv4EntryKey{{Prefix: "1.0.0.0/24", Ipv4Entry: &aftpb.Afts_Ipv4Entry{NextHopGroupNetworkInstance: sv("x"), EntryMetadata: &wpb.BytesValue{Value: []byte{1, 2}}, DecapsulateHeader: 1}}}}}, true},
		{"Device", &aftpb.Device{Afts: &aftpb.Afts{}}, false},
		{"Device", &aftpb.Device{Afts: &aftpb.Afts{LabelEntry: []*aftpb.Afts_LabelEntryKey{{Label: &aftpb.Afts_LabelEntryKey_LabelUint64{LabelUint64: 5}, LabelEntry: &aftpb.Afts_LabelEntry{}}, {LabelEntry: &aftpb.Afts_LabelEntry{}}}}}, false},
		{"Device", &aftpb.Device{Afts: &aftpb.Afts{PolicyForwardingEntry: []*aftpb.Afts_PolicyForwardingEntryKey{{Index: 5, PolicyForwardingEntry: &aftpb.Afts_PolicyForwardingEntry{IpProtocol: &aftpb.Afts_PolicyForwardingEntry_IpProtocolUint64{IpProtocolUint64: 6}}}}}}, false},
		{"Afts", &aftpb.Afts{MacEntry: []*aftpb.Afts_MacEntryKey{{MacAddress: "00:11", MacEntry: &aftpb.Afts_MacEntry{NextHopGroupNetworkInstance: sv("x")}}}}, false},
		{"Interface", &epb.Interface{Description: sv("d"), Subinterface: []*epb.Interface_SubinterfaceKey{{Index: 3, Subinterface: &epb.Subinterface{Description: sv("s")}}}}, false},
		{"Nested", &epb.ExampleNestedMessage{One: sv("1"), Child: &epb.ExampleNestedGrandchild{One: sv("c")}}, false},
	}
}

type c24FromCorner struct {
	typ    string
	vals   map[*gpb.Path]interface{}
	vp, pp string
	ig     bool
}

func c24FromCorners() []c24FromCorner {
	mp := c24MustPath
	return []c24FromCorner{
		{"ExampleMessage", map[*gpb.Path]interface{}{}, "", "", false},
		{"ExampleMessage", map[*gpb.Path]interface{}{mp("/uint"): uint(4)}, "", "", false},
		{"ExampleMessage", map[*gpb.Path]interface{}{mp("/uint"): uint64(4)}, "", "", false},
		{"ExampleMessage", map[*gpb.Path]interface{}{mp("/uint"): uint32(4)}, "", "", false},
		{"ExampleMessage", map[*gpb.Path]interface{}{mp("/uint"): int64(4)}, "", "", false},
		{"ExampleMessage", map[*gpb.Path]interface{}{mp("/leaflist-string"): []string{"a", "b"}}, "", "", false},
		{"ExampleMessage", map[*gpb.Path]interface{}{mp("/leaflist-string"): []string{}}, "", "", false},
		{"ExampleMessage", map[*gpb.Path]interface{}{mp("/leaflist-uint"): []uint64{1, 2}, mp("/leaflist-bool"): []bool{true}, mp("/leaflist-int"): []int64{-1}, mp("/leaflist-bytes"): [][]byte{{1}}}, "", "", false},
		{"ExampleMessage", map[*gpb.Path]interface{}{mp("/leaflist-decimal64"): []interface{}{"x"}}, "", "", false},
		{"ExampleMessage", map[*gpb.Path]interface{}{mp("/leaflist-uint"): []interface{}{uint64(1), "x"}}, "", "", false},
		{"ExampleMessage", map[*gpb.Path]interface{}{mp("/leaflist-union"): []interface{}{"x", uint64(0), "VAL_ONE", ""}}, "", "", false},
		{"ExampleMessage", map[*gpb.Path]interface{}{mp("/leaflist-union-b"): []interface{}{"nope"}}, "", "", false},
		{"ExampleMessage", map[*gpb.Path]interface{}{mp("/leaflist-union-b"): []interface{}{true}}, "", "", false},
		{"ExampleMessage", map[*gpb.Path]interface{}{mp("/leaflist-union-c"): []interface{}{false, true}}, "", "", false},
		{"ExampleMessage", map[*gpb.Path]interface{}{mp("/leaflist-union"): "scalar"}, "", "", false},
		{"ExampleMessage", map[*gpb.Path]interface{}{mp("/leaflist-union"): []string{"typed"}}, "", "", false},
		{"ExampleMessage", map[*gpb.Path]interface{}{mp("/leaflist-union"): []interface{}{int64(1)}}, "", "", false},
		{"ExampleMessage", map[*gpb.Path]interface{}{mp("/enum"): "VAL_TWO"}, "", "", false},
		{"ExampleMessage", map[*gpb.Path]interface{}{mp("/enum"): "NOPE"}, "", "", false},
		{"ExampleMessage", map[*gpb.Path]interface{}{mp("/enum"): uint64(1)}, "", "", false},
		{"ExampleMessage", map[*gpb.Path]interface{}{mp("/bool"): true}, "", "", true},
		{"ExampleMessage", map[*gpb.Path]interface{}{mp("/unknown"): "x"}, "", "", false},
		{"ExampleMessage", map[*gpb.Path]interface{}{mp("/unknown"): "x"}, "", "", true},
		{"ExampleMessage", map[*gpb.Path]interface{}{mp("/union"): "x"}, "", "", false},
		{"ExampleMessage", map[*gpb.Path]interface{}{mp("/nested"): "x"}, "", "", false},
		{"ExampleMessage", map[*gpb.Path]interface{}{mp("/list-name"): "x"}, "", "", false},
		{"ExampleMessage", map[*gpb.Path]interface{}{mp("/list-name[single-key=a]"): "x"}, "", "", true},
		{"ExampleMessage", map[*gpb.Path]interface{}{mp("/list-name/single-key"): "x"}, "", "", true},
		{"ExampleMessage", map[*gpb.Path]interface{}{mp("/message/str"): "x", mp("/state/compress"): "y", mp("/config/zz"): "z"}, "", "", true},
		{"ExampleMessage", map[*gpb.Path]interface{}{mp("/string"): "x"}, "", "/other", false},
		{"Root", map[*gpb.Path]interface{}{mp("/interfaces/interface[name=a]/config/description"): "d"}, "", "", false},
		{"Root", map[*gpb.Path]interface{}{mp("/interfaces/interface[name=a]/subinterfaces/subinterface[index=x]/index"): uint64(1)}, "", "", false},
		{"Root", map[*gpb.Path]interface{}{mp("/interfaces/interface[name=a][zz=b]/name"): "a"}, "", "", false},
		{"Root", map[*gpb.Path]interface{}{mp("/interfaces/interface[zz=b]/name"): "a"}, "", "", false},
		{"Root", map[*gpb.Path]interface{}{mp("/interfaces[k=v]/interface[name=a]/name"): "a"}, "", "", false},
		{"Root", map[*gpb.Path]interface{}{mp("/interface[name=a]/name"): "a"}, "/interfaces", "", false},
		{"Interface", map[*gpb.Path]interface{}{mp("/config/description"): "d", mp("/subinterfaces/subinterface[index=2]/index"): uint64(2)}, "/interfaces/interface[name=x]", "/interfaces/interface[name=x]", false},
		{"Interface", map[*gpb.Path]interface{}{mp("/config/description"): "d"}, "/interfaces/interface[name=x]", "/interfaces/interface", false},
		{"Device", map[*gpb.Path]interface{}{mp("/afts/next-hops/next-hop[index=1]/index"): uint64(1), mp("/afts/next-hops/next-hop[index=1]/interface-ref/state/interface"): "e", mp("/afts/next-hops/next-hop[index=1]/state/pop-top-label"): true}, "", "", false},
	}
}
