//go:build verif

package main

// vd_prunecf.go — stream "prunecf" (property C32): random trees of every generated package
// (compressed and uncompressed) -> ygot.PruneConfigFalse(schema, root) -> the resulting tree is
// compared with the Coq model (Tree/ConfigFalse.v: prune_config_false, driven by a side table
// of per-path-alternative config / compressed-leaf facts printed here from the embedded schema).
// Oracle, independent of the model: the leaf map after the call must be the leaf map before it
// restricted to the leaves all of whose ancestors-or-self are kept, where "kept" is derived
// here from the raw yang.Entry (explicit `config` statements inherited downwards; a compressed
// state leaf is kept when the sibling config container has a leaf of the same name).

import (
	"fmt"
	"math/rand"
	"reflect"
	"sort"
	"strings"

	"github.com/openconfig/goyang/pkg/yang"
	"github.com/openconfig/ygot/internal/verifharness/reg"
	"github.com/openconfig/ygot/util"
	"github.com/openconfig/ygot/ygot"
)

func init() { streams["prunecf"] = vdPruneStream }

// vdSideTerm prints the cside table of struct type st whose schema entry is e: what ygot itself
// sees for every alternative of a field's path tag.
func vdSideTerm(st reflect.Type, e *yang.Entry) string {
	var items []string
	for i := 0; i < st.NumField(); i++ {
		sf := st.Field(i)
		if _, ok := sf.Tag.Lookup("path"); !ok {
			continue
		}
		ps, err := util.SchemaPaths(sf)
		if err != nil {
			continue
		}
		var alts []string
		var first *yang.Entry
		for _, p := range ps {
			ce := util.FirstChild(e, p)
			if ce == nil {
				continue
			}
			if first == nil {
				first = ce
			}
			alts = append(alts, fmt.Sprintf("(%s,%s)", coqBool(util.IsConfig(ce)), coqBool(ce.Annotation[ygot.GoCompressedLeafAnnotation] != nil)))
		}
		if first == nil {
			continue // never visited by the walk
		}
		child := "(CSide [])"
		ft := sf.Type
		switch {
		case isOrderedMapType(ft):
			child = vdSideTerm(entryTypeOfOrderedMap(ft), first)
		case ft.Kind() == reflect.Map && ft.Elem().Kind() == reflect.Ptr:
			child = vdSideTerm(ft.Elem().Elem(), first)
		case ft.Kind() == reflect.Slice && ft.Elem().Kind() == reflect.Ptr && ft.Elem().Elem().Kind() == reflect.Struct:
			child = vdSideTerm(ft.Elem().Elem(), first)
		case ft.Kind() == reflect.Ptr && ft.Elem().Kind() == reflect.Struct:
			child = vdSideTerm(ft.Elem(), first)
		}
		items = append(items, "("+coqStr(sf.Name)+", ("+coqList(alts)+", "+child+"))")
	}
	return "(CSide " + coqList(items) + ")"
}

// vdCfgIndependent: the config property of a schema node, computed top-down from the root of the
// package's schema through the Dir maps (choice and case nodes included: RFC 7950 7.9.1 allows a
// config statement on a choice): the nearest explicit `config` statement on the way down decides;
// none: true.  The Parent pointers, which ygot itself follows (util.IsConfig), are not used, so a
// schema whose Parent chain was rebuilt wrongly does not mislead the oracle.
var vdCfgMemo = map[*yang.Entry]bool{}
var vdCfgRoots = map[*yang.Entry]bool{}

func vdCfgIndex(root *yang.Entry) {
	if root == nil || vdCfgRoots[root] {
		return
	}
	vdCfgRoots[root] = true
	var walk func(e *yang.Entry, inherited bool)
	walk = func(e *yang.Entry, inherited bool) {
		cfg := inherited
		switch e.Config {
		case yang.TSTrue:
			cfg = true
		case yang.TSFalse:
			cfg = false
		}
		vdCfgMemo[e] = cfg
		for _, c := range e.Dir {
			walk(c, cfg)
		}
	}
	walk(root, true)
}

func vdCfgIndependent(e *yang.Entry) bool {
	if c, ok := vdCfgMemo[e]; ok {
		return c
	}
	for x := e; x != nil; x = x.Parent {
		switch x.Config {
		case yang.TSTrue:
			return true
		case yang.TSFalse:
			return false
		}
	}
	return true
}

// vdEntryAt resolves one path-tag alternative below e (looking through choice / case nodes).
func vdEntryAt(e *yang.Entry, alt string) *yang.Entry {
	var walk func(x *yang.Entry, parts []string) *yang.Entry
	walk = func(x *yang.Entry, parts []string) *yang.Entry {
		if len(parts) == 0 {
			return x
		}
		name := parts[0]
		if i := strings.Index(name, ":"); i >= 0 {
			name = name[i+1:]
		}
		if c, ok := x.Dir[name]; ok {
			if r := walk(c, parts[1:]); r != nil {
				return r
			}
		}
		for _, c := range x.Dir {
			if c.IsChoice() || c.IsCase() {
				if r := walk(c, parts); r != nil {
					return r
				}
			}
		}
		return nil
	}
	return walk(e, strings.Split(strings.TrimPrefix(alt, "/"), "/"))
}

// vdKeptIndependent: a field survives PruneConfigFalse iff each alternative of its path tag is
// configuration, or (compressed code) is a state leaf with a config counterpart.
func vdKeptIndependent(compressed bool, e *yang.Entry, tag string) (bool, *yang.Entry) {
	keep := true
	var first *yang.Entry
	for _, alt := range strings.Split(tag, "|") {
		ce := vdEntryAt(e, alt)
		if ce == nil {
			continue
		}
		if first == nil {
			first = ce
		}
		if vdCfgIndependent(ce) {
			continue
		}
		counterpart := false
		if compressed && ce.IsLeaf() || compressed && ce.IsLeafList() {
			if st := ce.Parent; st != nil && st.Name == "state" && st.Parent != nil {
				if cfg, ok := st.Parent.Dir["config"]; ok && cfg.Dir[ce.Name] != nil {
					counterpart = true
				}
			}
		}
		if !counterpart {
			keep = false
		}
	}
	return keep, first
}

// vdExpectedPruned: leaf map (format of leafmap.go) of what has to remain.
func vdExpectedPruned(compressed bool, v reflect.Value, e *yang.Entry, prefix string, out map[string]string) {
	if v.Kind() == reflect.Interface {
		v = v.Elem()
	}
	if v.Kind() != reflect.Ptr || v.IsNil() {
		return
	}
	s := v.Elem()
	for i := 0; i < s.NumField(); i++ {
		sf := s.Type().Field(i)
		tag, ok := sf.Tag.Lookup("path")
		if !ok {
			continue
		}
		keep, ce := vdKeptIndependent(compressed, e, tag)
		if !keep || ce == nil {
			continue
		}
		p := prefix + "/" + strings.Split(tag, "|")[0]
		fv := s.Field(i)
		ft := sf.Type
		switch {
		case isOrderedMapType(ft):
			if fv.IsNil() {
				continue
			}
			var order []string
			for _, en := range orderedEntries(fv.Interface().(ygot.GoOrderedMap)) {
				kp := keyPredicate(keyNamesOf(entryTypeOfOrderedMap(ft), nil, true, len(en.keys)), en.keys)
				order = append(order, kp)
				vdExpectedPruned(compressed, en.entry, ce, p+kp, out)
			}
			out[p+"#order"] = strings.Join(order, ",")
		case ft.Kind() == reflect.Map:
			it := fv.MapRange()
			for it.Next() {
				ks := keyValues(it.Key())
				kp := keyPredicate(keyNamesOf(ft.Elem().Elem(), ft.Key(), false, len(ks)), ks)
				out[p+kp+"#entry"] = "1"
				vdExpectedPruned(compressed, it.Value(), ce, p+kp, out)
			}
		case ft.Kind() == reflect.Ptr && ft.Elem().Kind() == reflect.Struct:
			if fv.IsNil() {
				continue
			}
			if sf.Tag.Get("yangPresence") == "true" {
				out[p+"#presence"] = "1"
			}
			vdExpectedPruned(compressed, fv, ce, p, out)
		case ft.Kind() == reflect.Slice && ft.Elem().Kind() == reflect.Ptr && ft.Elem().Elem().Kind() == reflect.Struct:
			for j := 0; j < fv.Len(); j++ {
				vdExpectedPruned(compressed, fv.Index(j), ce, p+"["+string(rune('0'+j))+"]", out)
			}
		default:
			if t, ok := fieldTerm(fv); ok {
				out[p] = t
			}
		}
	}
}

func vdSafePrune(schema *yang.Entry, root ygot.GoStruct) (err error, panicked bool) {
	defer func() {
		if r := recover(); r != nil {
			err, panicked = fmt.Errorf("panic: %v", r), true
		}
	}()
	return ygot.PruneConfigFalse(schema, root), false
}

type vdPruneReplay struct {
	Pkg      string  `json:"pkg"`
	TreeSeed int64   `json:"tree_seed"`
	PField   float64 `json:"p_field"`
}

func vdPruneStream(rng *rand.Rand, n int, tier string, out string) (*Summary, error) {
	sum := &Summary{Rule: "random schema-conforming trees of every generated package (uncompressed and the three compressed variants of v-oc, v-main with " +
		"its state container, read-only leaves/containers and unkeyed state list) through ygot.PruneConfigFalse(schema, root); the tree after the call is compared " +
		"with the model; oracle: leaf map after = leaf map before restricted to the leaves under kept fields only, 'kept' derived from the raw yang entries; " +
		"non-trivial = something was pruned and something remained; distinct by tree dump"}
	var files []string
	id := 0
	var rp vdPruneReplay
	isReplay, err := vdReplayCase(&rp)
	if err != nil {
		return nil, err
	}
	names := reg.Names()
	per := n / len(names)
	if per < 1 {
		per = 1
	}
	seen := map[string]bool{}
	for _, name := range names {
		if isReplay && rp.Pkg != name {
			continue
		}
		p := reg.Get(name)
		root0 := p.NewRoot()
		rt := reflect.TypeOf(root0).Elem()
		schema := p.SchemaTree[rt.Name()]
		vdCfgIndex(schema)
		vf := &vdFile{pkg: p, cf: &caseFile{typ: "pcase"}, fn: "pmismatches cs", req: "Tree.ConfigFalse Corr.ValidCorr", bare: true}
		vf.defs = []string{"Definition cs : cside := " + vdSideTerm(rt, schema) + "."}
		var jobs []vdPruneReplay
		if isReplay {
			jobs = []vdPruneReplay{rp}
		} else {
			for i := 0; i < per; i++ {
				pfs := []float64{0.3, 0.5, 0.8}
				if tier == "thorough" {
					pfs = []float64{0, 0.1, 0.3, 0.5, 0.8, 0.95}
				}
				jobs = append(jobs, vdPruneReplay{Pkg: name, TreeSeed: rng.Int63(), PField: pfs[i%len(pfs)]})
			}
		}
		for _, jb := range jobs {
			g := newTreeGen(rand.New(rand.NewSource(jb.TreeSeed)), p)
			g.pField = jb.PField
			g.nastyStr = false
			root := g.genTree()
			if jb.TreeSeed%2 == 0 {
				if n := vdTwinKeys(p, root); n > 0 {
					sum.count("twin_keys", "tree with two list entries whose Go keys print the same")
				}
			}
			before := treeTerm(root)
			lmBefore := leafMapOf(root)
			want := map[string]string{}
			vdExpectedPruned(p.Flags["compress"], reflect.ValueOf(root), schema, "", want)
			perr, pan := vdSafePrune(schema, root)
			res := coqErr
			if pan {
				res = coqPanic
				sum.finding(Finding{Signature: "prunecf/panic", What: "PruneConfigFalse panics: " + perr.Error(), Input: jb})
			} else if perr == nil {
				res = coqOk(treeTerm(root))
			} else {
				sum.finding(Finding{Signature: "prunecf/error", What: "PruneConfigFalse fails on a schema-conforming tree: " + perr.Error(), Input: jb})
			}
			vf.cf.add(fmt.Sprintf("PPrune %d %s %s", id, before, res))
			id++
			if perr != nil {
				continue
			}
			sum.OracleRuns++
			lmAfter := leafMapOf(root)
			for _, k := range leafMapDiff(want, lmAfter, 6) {
				switch {
				case want[k] == "" && lmAfter[k] != "":
					sum.finding(Finding{Signature: "prunecf/config-false-remains", What: "config false data remains after PruneConfigFalse: " + k + " = " + lmAfter[k], Input: jb})
				case want[k] != "" && lmAfter[k] == "":
					sum.finding(Finding{Signature: "prunecf/config-true-removed", What: "config true (or documented compressed) data was removed: " + k + " = " + want[k], Input: jb})
				default:
					sum.finding(Finding{Signature: "prunecf/value-changed", What: "value changed: " + k + ": " + want[k] + " -> " + lmAfter[k], Input: jb})
				}
			}
			pruned := len(lmBefore) - len(lmAfter)
			sum.count("pruned_"+name, fmt.Sprintf("%02d", pruned/5*5))
			if !seen[before] {
				seen[before] = true
				if pruned > 0 && len(lmAfter) > 0 {
					sum.Nontrivial++
				}
			}
			sum.sample(map[string]interface{}{"pkg": name, "leaves_before": len(lmBefore), "leaves_after": len(lmAfter)})

			// ---- the same call on a struct inside the tree (a container or a list entry, possibly
			// config false only by inheritance from a node above it), with the schema entry a user
			// would pass: SchemaTree[<struct name>]
			g2 := newTreeGen(rand.New(rand.NewSource(jb.TreeSeed)), p)
			g2.pField = jb.PField
			g2.nastyStr = false
			root2 := g2.genTree()
			var subs []reflect.Value
			vdCollectStructs(reflect.ValueOf(root2), &subs, 0)
			if len(subs) == 0 {
				continue
			}
			pick := rand.New(rand.NewSource(jb.TreeSeed ^ 0x5bd1e995))
			sub := subs[pick.Intn(len(subs))]
			sst := sub.Type().Elem()
			se := p.SchemaTree[sst.Name()]
			sg, isGS := sub.Interface().(ygot.GoStruct)
			if se == nil || !isGS {
				continue
			}
			sbefore := treeTerm(sg)
			swant := map[string]string{}
			vdExpectedPruned(p.Flags["compress"], sub, se, "", swant)
			serr, span := vdSafePrune(se, sg)
			sres := coqErr
			sin := map[string]interface{}{"pkg": name, "tree_seed": jb.TreeSeed, "p_field": jb.PField, "struct": sst.Name(), "inherited_config_false": !vdCfgIndependent(se)}
			switch {
			case span:
				sres = coqPanic
				sum.finding(Finding{Signature: "prunecf/panic", What: "PruneConfigFalse panics on a struct inside the tree: " + serr.Error(), Input: sin})
			case serr == nil:
				sres = coqOk(treeTerm(sg))
			default:
				sum.finding(Finding{Signature: "prunecf/error", What: "PruneConfigFalse fails on a struct inside a schema-conforming tree: " + serr.Error(), Input: sin})
			}
			vf.cf.add(fmt.Sprintf("PPruneAt %d %s %s %s", id, vdSideTerm(sst, se), sbefore, sres))
			id++
			sum.count("substruct", fmt.Sprintf("inherited-config-false=%v", !vdCfgIndependent(se)))
			if serr != nil {
				continue
			}
			sum.OracleRuns++
			sAfter := leafMapOf(sg)
			for _, k := range leafMapDiff(swant, sAfter, 6) {
				switch {
				case swant[k] == "" && sAfter[k] != "":
					sum.finding(Finding{Signature: "prunecf/config-false-remains", What: "config false data remains after PruneConfigFalse on " + sst.Name() + ": " + k + " = " + sAfter[k], Input: sin})
				case swant[k] != "" && sAfter[k] == "":
					sum.finding(Finding{Signature: "prunecf/config-true-removed", What: "config true (or documented compressed) data was removed by PruneConfigFalse on " + sst.Name() + ": " + k + " = " + swant[k], Input: sin})
				default:
					sum.finding(Finding{Signature: "prunecf/value-changed", What: "value changed: " + k + ": " + swant[k] + " -> " + sAfter[k], Input: sin})
				}
			}
		}
		fs, err := vf.write(out, "prunecf", 150)
		if err != nil {
			return nil, err
		}
		files = append(files, fs...)
	}
	sum.Cases = id
	sum.Extra = map[string]interface{}{"case_files": files}
	return sum, nil
}

// vdCollectStructs lists the struct pointers below v (containers and list entries; not v itself).
func vdCollectStructs(v reflect.Value, out *[]reflect.Value, depth int) {
	if v.Kind() != reflect.Ptr || v.IsNil() || depth > 8 {
		return
	}
	s := v.Elem()
	if s.Kind() != reflect.Struct {
		return
	}
	for i := 0; i < s.NumField(); i++ {
		sf := s.Type().Field(i)
		if _, ok := sf.Tag.Lookup("path"); !ok {
			continue
		}
		fv := s.Field(i)
		ft := sf.Type
		switch {
		case isOrderedMapType(ft):
			if !fv.IsNil() {
				for _, en := range orderedEntries(fv.Interface().(ygot.GoOrderedMap)) {
					*out = append(*out, en.entry)
					vdCollectStructs(en.entry, out, depth+1)
				}
			}
		case ft.Kind() == reflect.Map && ft.Elem().Kind() == reflect.Ptr:
			var ks []reflect.Value
			it := fv.MapRange()
			for it.Next() {
				ks = append(ks, it.Key())
			}
			sort.Slice(ks, func(a, b int) bool { return lessKeys(keyValues(ks[a]), keyValues(ks[b])) })
			for _, k := range ks {
				*out = append(*out, fv.MapIndex(k))
				vdCollectStructs(fv.MapIndex(k), out, depth+1)
			}
		case ft.Kind() == reflect.Ptr && ft.Elem().Kind() == reflect.Struct:
			if !fv.IsNil() {
				*out = append(*out, fv)
				vdCollectStructs(fv, out, depth+1)
			}
		}
	}
}

// vdTwinKeys: in every keyed list whose Go key is a struct with at least two string fields and that
// holds an entry, two copies of that entry are added under the keys {"r 7", "s 1", ...} and
// {"r", "7 s 1", ...}: different keys whose printed forms (fmt: {r 7 s 1 ...}) are the same. A
// traversal that identifies map keys by their printed form visits one of them twice and the other
// never. Deterministic in the tree.
func vdTwinKeys(p *reg.Pkg, root ygot.GoStruct) (n int) {
	for _, s := range mgSlots(p, root) {
		if s.kind != "map" {
			continue
		}
		fv := s.field()
		kt := fv.Type().Key()
		if kt.Kind() != reflect.Struct || fv.Len() == 0 {
			continue
		}
		var strs []int
		for i := 0; i < kt.NumField(); i++ {
			if kt.Field(i).Type.Kind() == reflect.String {
				strs = append(strs, i)
			}
		}
		if len(strs) < 2 {
			continue
		}
		var es []keyedEntry
		it := fv.MapRange()
		for it.Next() {
			es = append(es, keyedEntry{keys: keyValues(it.Key()), entry: it.Value()})
		}
		sort.Slice(es, func(a, b int) bool { return lessKeys(es[a].keys, es[b].keys) })
		var src reflect.Value
		it = fv.MapRange()
		for it.Next() {
			if it.Value() == es[0].entry {
				src = it.Key()
			}
		}
		if !src.IsValid() {
			continue
		}
		for _, pair := range [][2]string{{"r 7", "s 1"}, {"r", "7 s 1"}} {
			k := reflect.New(kt).Elem()
			k.Set(src)
			k.Field(strs[0]).SetString(pair[0])
			k.Field(strs[1]).SetString(pair[1])
			ent := mgCloneValue(es[0].entry)
			ok := true
			for j, i := range strs[:2] {
				f := ent.Elem().FieldByName(kt.Field(i).Name)
				if !f.IsValid() || f.Kind() != reflect.Ptr || f.Type().Elem().Kind() != reflect.String {
					ok = false
					break
				}
				v := pair[j]
				f.Set(reflect.ValueOf(&v))
			}
			if ok {
				fv.SetMapIndex(k, ent)
				n++
			}
		}
	}
	return n
}
