//go:build verif

package main

// Every-leaf delete sweep of the nodeops stream (C12): on a well-populated tree of each generated
// package, every leaf and leaf-list that TogNMINotifications reports (but the key leaves of list
// entries) is deleted through its own emitted path, each on a fresh copy of the tree, and the
// notifications of the result must be those of the tree minus exactly that path; a second
// deletion changes nothing. Every 6th deletion also goes through the model (GDel case).

import (
	"fmt"
	"math/rand"
	"reflect"
	"sort"
	"strings"

	gpb "github.com/openconfig/gnmi/proto/gnmi"
	"github.com/openconfig/ygot/internal/verifharness/reg"
	"github.com/openconfig/ygot/ygot"
	"github.com/openconfig/ygot/ytypes"
	"google.golang.org/protobuf/proto"
)

// gnLeafUpdates: path text -> (path, value text) of every update of the tree's notifications.
func gnLeafUpdates(root ygot.GoStruct) (map[string]*gpb.Path, map[string]string, error) {
	ns, err := ygot.TogNMINotifications(root, 0, ygot.GNMINotificationsConfig{UsePathElem: true})
	if err != nil {
		return nil, nil, err
	}
	paths, vals := map[string]*gpb.Path{}, map[string]string{}
	for _, n := range ns {
		for _, u := range n.Update {
			// ordered lists are reported in notifications of their own, relative to a prefix
			full := &gpb.Path{Elem: append(append([]*gpb.PathElem{}, n.GetPrefix().GetElem()...), u.Path.GetElem()...)}
			k := gnPathString(full)
			paths[k] = full
			vals[k] = u.Val.String()
		}
	}
	return paths, vals, nil
}

// gnIsKeyLeafPath: the last element names a key of the nearest keyed element above it, at most
// two elements up (compressed structs hold the key leaf below config / state).
func gnIsKeyLeafPath(p *gpb.Path) bool {
	es := p.GetElem()
	if len(es) < 2 {
		return false
	}
	last := es[len(es)-1].GetName()
	for i := len(es) - 2; i >= 0 && i >= len(es)-3; i-- {
		if len(es[i].GetKey()) > 0 {
			_, ok := es[i].GetKey()[last]
			return ok
		}
	}
	return false
}

func gnDeleteSweep(p *reg.Pkg, rng *rand.Rand, trees, maxLeaves int, tf *treeFile, id *int, sum *Summary, replay gnReplay) {
	for t := 0; t < trees; t++ {
		g := newTreeGen(rng, p)
		g.maxList = 2
		g.nastyStr = rng.Intn(2) == 0
		var root ygot.ValidatedGoStruct
		var paths map[string]*gpb.Path
		var vals map[string]string
		var err error
		nAmb := 0
		for try := 0; try < 12; try++ {
			g.pField = 0.55 + 0.3*rng.Float64()
			cand := g.genTree()
			// unkeyed lists have no path: not part of this sweep
			for _, s := range mgSlots(p, cand) {
				if s.kind == "unkeyed" {
					s.field().Set(reflect.Zero(s.sf.Type))
				}
			}
			amb := gnAmbiguousOrderedUnionKeys(p, cand)
			ps, vs, e := gnLeafUpdates(cand)
			if e != nil {
				if root == nil {
					err = e
				}
				continue
			}
			if root == nil || len(ps) > len(paths) || (amb > 0 && nAmb == 0) {
				root, paths, vals, err = cand, ps, vs, nil
				nAmb = amb
			}
			if len(paths) >= 60 && (nAmb > 0 || try >= 6) {
				break
			}
		}
		if root == nil {
			sum.count("delete_sweep", "tree skipped: TogNMINotifications fails: "+err.Error())
			continue
		}
		schema := gnRootEntry(p, root)
		var keys []string
		for k := range paths {
			if !gnIsKeyLeafPath(paths[k]) {
				keys = append(keys, k)
			}
		}
		sort.Strings(keys)
		sum.count("delete_sweep_tree_leaves", fmt.Sprintf("%s: %d leaves, %d not keys, %d ordered lists with an ambiguous union key", p.Name, len(paths), len(keys), nAmb))
		rng.Shuffle(len(keys), func(i, j int) { keys[i], keys[j] = keys[j], keys[i] })
		if len(keys) > maxLeaves {
			keys = keys[:maxLeaves]
		}
		pre := treeTerm(root)
		for i, k := range keys {
			if strings.Contains(vals[k], "leaflist_val") {
				// C10: SetNode of the empty JSON array on a leaf-list that holds values
				c2 := mgClone(root)
				in2 := map[string]interface{}{"pkg": p.Name, "path": k, "op": "set", "site": "sweep", "value": "json_ietf_val []", "tree_before": pre, "replay": replay}
				tv := &gpb.TypedValue{Value: &gpb.TypedValue_JsonIetfVal{JsonIetfVal: []byte("[]")}}
				var serr error
				func() {
					defer func() {
						if r := recover(); r != nil {
							serr = fmt.Errorf("panic: %v", r)
						}
					}()
					serr = ytypes.SetNode(schema, c2, proto.Clone(paths[k]).(*gpb.Path), tv, &ytypes.InitMissingElements{})
				}()
				sum.OracleRuns++
				sum.count("delete_sweep", "leaf-list set to the empty JSON array")
				if serr == nil {
					if _, post2, e2 := gnLeafUpdates(c2); e2 == nil {
						var bad []string
						for q, v := range vals {
							if q == k && post2[q] != "" {
								bad = append(bad, q+" still holds "+post2[q])
							} else if q != k && post2[q] != v {
								bad = append(bad, q+" changed")
							}
						}
						sort.Strings(bad)
						if len(bad) > 0 {
							if len(bad) > 6 {
								bad = append(bad[:6], "...")
							}
							sum.finding(Finding{Signature: "setnode/value-not-stored", What: "after SetNode of the empty JSON array on " + k + ": " + strings.Join(bad, " ; "), Input: in2})
						}
					}
				}
			}
			c := mgClone(root)
			path := proto.Clone(paths[k]).(*gpb.Path)
			in := map[string]interface{}{"pkg": p.Name, "path": k, "op": "delete", "site": "sweep", "tree_before": pre, "replay": replay}
			err, pan := gnSafeDel(schema, c, path)
			sum.OracleRuns++
			sum.count("delete_sweep", "leaf deleted through its emitted path")
			if i%6 == 0 {
				tf.cf.add(fmt.Sprintf("GDel %d %s %s %s %s (Some %s)", *id, coqBool(false), pre, gnPathTerm(path), gnResUnit(err, pan), treeTerm(c)))
				*id++
			}
			switch {
			case pan:
				sum.finding(Finding{Signature: "deletenode/panic", What: "DeleteNode panics: " + err.Error(), Input: in})
				continue
			case err != nil:
				sum.finding(Finding{Signature: "deletenode/valid-path-rejected", What: "DeleteNode fails on the path TogNMINotifications emits for a leaf: " + err.Error(), Input: in})
				continue
			}
			_, post, perr := gnLeafUpdates(c)
			if perr != nil {
				sum.finding(Finding{Signature: "deletenode/frame", What: "after DeleteNode the tree no longer renders: " + perr.Error(), Input: in})
				continue
			}
			var left, lost []string
			if _, still := post[k]; still {
				left = append(left, k)
			}
			for q, v := range vals {
				if q != k && post[q] != v {
					lost = append(lost, q)
				}
			}
			for q := range post {
				if _, was := vals[q]; !was {
					lost = append(lost, q+" (new)")
				}
			}
			sort.Strings(lost)
			if len(left) > 0 {
				sum.finding(Finding{Signature: "deletenode/subtree-remains", What: "after DeleteNode the leaf is still there: " + k, Input: in})
			}
			if len(lost) > 0 {
				if len(lost) > 8 {
					lost = append(lost[:8], "...")
				}
				sum.finding(Finding{Signature: "deletenode/frame", What: "DeleteNode of " + k + " changed other leaves: " + strings.Join(lost, " ; "), Input: in})
			}
			mid := treeTerm(c)
			if err2, pan2 := gnSafeDel(schema, c, path); err2 != nil || pan2 || treeTerm(c) != mid {
				sum.finding(Finding{Signature: "deletenode/not-idempotent", What: "a second DeleteNode of the same path fails or changes the tree", Input: in})
			}
		}
	}
}

// gnAtomicEmptyCases (setreq stream, C13): an atomic notification that carries no update and no
// delete says "the subtree at the prefix is empty now". On a well-populated tree, for several
// prefixes of existing leaf paths, UnmarshalNotifications of such a notification must remove
// every leaf below the prefix and nothing else; each case also goes through the model.
func gnAtomicEmptyCases(p *reg.Pkg, rng *rand.Rand, maxCases int, tf *treeFile, id *int, sum *Summary, replay gnReplay) {
	g := newTreeGen(rng, p)
	g.maxList = 2
	g.nastyStr = false
	var root ygot.ValidatedGoStruct
	var paths map[string]*gpb.Path
	var vals map[string]string
	for try := 0; try < 8; try++ {
		g.pField = 0.5 + 0.3*rng.Float64()
		cand := g.genTree()
		for _, s := range mgSlots(p, cand) {
			if s.kind == "unkeyed" {
				s.field().Set(reflect.Zero(s.sf.Type))
			}
		}
		ps, vs, e := gnLeafUpdates(cand)
		if e == nil && (root == nil || len(ps) > len(paths)) {
			root, paths, vals = cand, ps, vs
		}
		if len(paths) >= 40 {
			break
		}
	}
	if root == nil {
		return
	}
	// distinct proper prefixes (at least one element) of the leaf paths
	seen := map[string]bool{}
	var prefixes []*gpb.Path
	var keys []string
	for k := range paths {
		keys = append(keys, k)
	}
	sort.Strings(keys)
	for _, k := range keys {
		es := paths[k].GetElem()
		for n := 1; n < len(es); n++ {
			pre := &gpb.Path{Elem: es[:n]}
			if ps := gnPathString(pre); !seen[ps] {
				seen[ps] = true
				prefixes = append(prefixes, pre)
			}
		}
	}
	rng.Shuffle(len(prefixes), func(i, j int) { prefixes[i], prefixes[j] = prefixes[j], prefixes[i] })
	if len(prefixes) > maxCases {
		prefixes = prefixes[:maxCases]
	}
	pre := treeTerm(root)
	for _, pf := range prefixes {
		c := mgClone(root).(ygot.ValidatedGoStruct)
		nt := &gpb.Notification{Prefix: proto.Clone(pf).(*gpb.Path), Atomic: true}
		nst, ok := gnNotifsTerm([]*gpb.Notification{nt})
		if !ok {
			continue
		}
		pfs := gnPathString(pf)
		in := map[string]interface{}{"pkg": p.Name, "request": fmt.Sprintf("%v", nt), "tree_before": pre, "form": "atomic notification without updates", "replay": replay}
		err, pan := gnSafeUnmarshalNotifs(gnSchema(p, c), []*gpb.Notification{nt})
		tf.cf.add(fmt.Sprintf("GUnmarshalNotifs %d %s %s %s %s (Some %s)", *id, gnSrOptsTerm(false, false, false), pre, nst, gnSrOut(err, pan), treeTerm(c)))
		*id++
		sum.count("form", "atomic notification without updates")
		sum.OracleRuns++
		if !pan && err != nil && p.Flags["compress"] {
			// a prefix that ends at a container the compressed structs elide (config / state, the
			// container around a list) names no node of the GoStruct tree: an error, as the model says
			sum.count("form", "atomic notification at a path the compressed structs do not hold: rejected")
			continue
		}
		if pan || err != nil {
			sum.finding(Finding{Signature: "setrequest/valid-request-rejected", What: "an atomic notification without updates is rejected: " + fmt.Sprint(err), Input: in})
			continue
		}
		_, post, perr := gnLeafUpdates(c)
		if perr != nil {
			continue
		}
		var bad []string
		for q, v := range vals {
			under := q == pfs || strings.HasPrefix(q, pfs+"/")
			if w, still := post[q]; under && still {
				bad = append(bad, q+" remains")
			} else if !under && w != v {
				bad = append(bad, q+" changed")
			}
		}
		sort.Strings(bad)
		if len(bad) > 0 {
			if len(bad) > 6 {
				bad = append(bad[:6], "...")
			}
			sum.finding(Finding{Signature: "setrequest/atomic-empty-not-applied", What: "after an atomic notification without updates at " + pfs + ": " + strings.Join(bad, " ; "), Input: in})
		}
	}
}

// gnAmbiguousOrderedUnionKeys: every non-empty ordered list keyed by a union that has a string
// member and a numeric member gets one more entry, a copy of its first one under the STRING key
// "10" (what RFC7951 JSON "k":"10" unmarshals to). Its path key reads 10; the entry must be found
// by the text of its key, as every other entry is.
func gnAmbiguousOrderedUnionKeys(p *reg.Pkg, root ygot.GoStruct) (n int) {
	g := &treeGen{}
	for _, s := range mgSlots(p, root) {
		if s.kind != "omap" || s.inUnk {
			continue
		}
		fv := s.field()
		entryT := entryTypeOfOrderedMap(s.sf.Type)
		kfs := g.keyFieldNames(entryT, s.entry)
		if len(kfs) != 1 {
			continue
		}
		kf, _ := entryT.FieldByName(kfs[0])
		if kf.Type.Kind() != reflect.Interface {
			continue
		}
		es := orderedEntries(fv.Interface().(ygot.GoOrderedMap))
		if len(es) == 0 {
			continue
		}
		ent := mgCloneValue(es[0].entry)
		to := ent.MethodByName("To_" + kf.Type.Name())
		if !to.IsValid() {
			continue
		}
		str := to.Call([]reflect.Value{reflect.ValueOf("10")})
		num := to.Call([]reflect.Value{reflect.ValueOf(uint32(10))})
		if !str[1].IsNil() || !num[1].IsNil() || str[0].Elem().Kind() != reflect.String {
			continue
		}
		ent.Elem().FieldByName(kfs[0]).Set(str[0])
		fv.MethodByName("Append").Call([]reflect.Value{ent}) // a duplicate is rejected: fine
		n++
	}
	return n
}
