//go:build verif

package main

// Every-leaf delete sweep of the nodeops stream (C12): on a well-populated tree of each generated
// package, every leaf and leaf-list that TogNMINotifications reports (but the key leaves of list
// entries) is deleted through its own emitted path, each on a fresh copy of the tree, and the
// notifications of the result must be those of the tree minus exactly that path; a second
// deletion changes nothing. Every 6th deletion also goes through the model (GDel case).

import (
	"fmt"
	"math/rand"
	"reflect"
	"sort"
	"strings"

	gpb "github.com/openconfig/gnmi/proto/gnmi"
	"github.com/openconfig/ygot/internal/verifharness/reg"
	"github.com/openconfig/ygot/ygot"
	"google.golang.org/protobuf/proto"
)

// gnLeafUpdates: path text -> (path, value text) of every update of the tree's notifications.
func gnLeafUpdates(root ygot.GoStruct) (map[string]*gpb.Path, map[string]string, error) {
	ns, err := ygot.TogNMINotifications(root, 0, ygot.GNMINotificationsConfig{UsePathElem: true})
	if err != nil {
		return nil, nil, err
	}
	paths, vals := map[string]*gpb.Path{}, map[string]string{}
	for _, n := range ns {
		for _, u := range n.Update {
			// ordered lists are reported in notifications of their own, relative to a prefix
			full := &gpb.Path{Elem: append(append([]*gpb.PathElem{}, n.GetPrefix().GetElem()...), u.Path.GetElem()...)}
			k := gnPathString(full)
			paths[k] = full
			vals[k] = u.Val.String()
		}
	}
	return paths, vals, nil
}

// gnIsKeyLeafPath: the last element names a key of the nearest keyed element above it, at most
// two elements up (compressed structs hold the key leaf below config / state).
func gnIsKeyLeafPath(p *gpb.Path) bool {
	es := p.GetElem()
	if len(es) < 2 {
		return false
	}
	last := es[len(es)-1].GetName()
	for i := len(es) - 2; i >= 0 && i >= len(es)-3; i-- {
		if len(es[i].GetKey()) > 0 {
			_, ok := es[i].GetKey()[last]
			return ok
		}
	}
	return false
}

func gnDeleteSweep(p *reg.Pkg, rng *rand.Rand, trees, maxLeaves int, tf *treeFile, id *int, sum *Summary, replay gnReplay) {
	for t := 0; t < trees; t++ {
		g := newTreeGen(rng, p)
		g.maxList = 2
		g.nastyStr = rng.Intn(2) == 0
		var root ygot.ValidatedGoStruct
		var paths map[string]*gpb.Path
		var vals map[string]string
		var err error
		for try := 0; try < 12; try++ {
			g.pField = 0.55 + 0.3*rng.Float64()
			cand := g.genTree()
			// unkeyed lists have no path: not part of this sweep
			for _, s := range mgSlots(p, cand) {
				if s.kind == "unkeyed" {
					s.field().Set(reflect.Zero(s.sf.Type))
				}
			}
			ps, vs, e := gnLeafUpdates(cand)
			if e != nil {
				if root == nil {
					err = e
				}
				continue
			}
			if root == nil || len(ps) > len(paths) {
				root, paths, vals, err = cand, ps, vs, nil
			}
			if len(paths) >= 60 {
				break
			}
		}
		if root == nil {
			sum.count("delete_sweep", "tree skipped: TogNMINotifications fails: "+err.Error())
			continue
		}
		schema := gnRootEntry(p, root)
		var keys []string
		for k := range paths {
			if !gnIsKeyLeafPath(paths[k]) {
				keys = append(keys, k)
			}
		}
		sort.Strings(keys)
		sum.count("delete_sweep_tree_leaves", fmt.Sprintf("%s: %d leaves, %d not keys", p.Name, len(paths), len(keys)))
		rng.Shuffle(len(keys), func(i, j int) { keys[i], keys[j] = keys[j], keys[i] })
		if len(keys) > maxLeaves {
			keys = keys[:maxLeaves]
		}
		pre := treeTerm(root)
		for i, k := range keys {
			c := mgClone(root)
			path := proto.Clone(paths[k]).(*gpb.Path)
			in := map[string]interface{}{"pkg": p.Name, "path": k, "op": "delete", "site": "sweep", "tree_before": pre, "replay": replay}
			err, pan := gnSafeDel(schema, c, path)
			sum.OracleRuns++
			sum.count("delete_sweep", "leaf deleted through its emitted path")
			if i%6 == 0 {
				tf.cf.add(fmt.Sprintf("GDel %d %s %s %s %s (Some %s)", *id, coqBool(false), pre, gnPathTerm(path), gnResUnit(err, pan), treeTerm(c)))
				*id++
			}
			switch {
			case pan:
				sum.finding(Finding{Signature: "deletenode/panic", What: "DeleteNode panics: " + err.Error(), Input: in})
				continue
			case err != nil:
				sum.finding(Finding{Signature: "deletenode/valid-path-rejected", What: "DeleteNode fails on the path TogNMINotifications emits for a leaf: " + err.Error(), Input: in})
				continue
			}
			_, post, perr := gnLeafUpdates(c)
			if perr != nil {
				sum.finding(Finding{Signature: "deletenode/frame", What: "after DeleteNode the tree no longer renders: " + perr.Error(), Input: in})
				continue
			}
			var left, lost []string
			if _, still := post[k]; still {
				left = append(left, k)
			}
			for q, v := range vals {
				if q != k && post[q] != v {
					lost = append(lost, q)
				}
			}
			for q := range post {
				if _, was := vals[q]; !was {
					lost = append(lost, q+" (new)")
				}
			}
			sort.Strings(lost)
			if len(left) > 0 {
				sum.finding(Finding{Signature: "deletenode/subtree-remains", What: "after DeleteNode the leaf is still there: " + k, Input: in})
			}
			if len(lost) > 0 {
				if len(lost) > 8 {
					lost = append(lost[:8], "...")
				}
				sum.finding(Finding{Signature: "deletenode/frame", What: "DeleteNode of " + k + " changed other leaves: " + strings.Join(lost, " ; "), Input: in})
			}
			mid := treeTerm(c)
			if err2, pan2 := gnSafeDel(schema, c, path); err2 != nil || pan2 || treeTerm(c) != mid {
				sum.finding(Finding{Signature: "deletenode/not-idempotent", What: "a second DeleteNode of the same path fails or changes the tree", Input: in})
			}
		}
	}
}
