//go:build verif

package main

// c29_builder.go — stream "pathbuilder" (C29): the builder-style list API of the generated path
// structs (-generate_path_structs -list_builder_key_threshold=N).  For a list with at least N keys
// the generator emits XxxAny() (every key "*") and With<Key>(v) methods that call
// ygot.ModifyKey(n.NodePath, "key", v): the keys are written IN PLACE, after the node and the nodes
// below it were built, and possibly after they were resolved.
//
// The packages generated with the flag are registered in c29bRoots (generated zz_c29_roots.go, see
// lib/gencorpus.py).  For each of them the path API is enumerated by reflection as in c29_paths.go;
// a chain through at least one builder node is then exercised by PROGRAMS run on one set of live
// path structs: resolve the builder node and the node at the end of the chain, set one key,
// resolve again, set the other keys, resolve, re-key the same node with other values, resolve ...
// (a systematic program per chain, random programs, and every short program in the thorough
// tier).  Every resolution is a case: the NodePaths of the whole chain read back at that moment
// (harness_accessors/ygot/c29_acc.go) and what the real ygot.ResolvePath returned.  Chains without
// a builder node are resolved once (the ordinary accessors of these packages).  A second family
// ("direct") drives ygot.ModifyKey / ResolvePath on hand-made NodePath chains (nil key maps, keys
// on containers, new key names, empty relative paths).
//
// Coq side (Gen/PathBuilder.v): the model state is evolved from the first dump by modify_at alone;
// at every resolution the dumped NodePaths must equal the model state and the observed path must
// equal `resolve` on it.
//
// Oracle on the implementation, independent of the model: the expected path of every resolution
// is computed from the GoStruct `path` tags, the schema's key statement and the values most
// recently passed to the accessors / With methods (rendered by c29KeyString); signatures
// "pathstruct/builder-...".

import (
	"encoding/json"
	"fmt"
	"math/rand"
	"os"
	"reflect"
	"sort"
	"strconv"
	"strings"

	gpb "github.com/openconfig/gnmi/proto/gnmi"
	"github.com/openconfig/goyang/pkg/yang"
	"github.com/openconfig/ygot/internal/verifharness/reg"
	"github.com/openconfig/ygot/util"
	"github.com/openconfig/ygot/ygot"
)

// c29bRoots: package name -> constructor of the root path struct, for the packages generated with
// -list_builder_key_threshold (filled by the generated zz_c29_roots.go).
var c29bRoots = map[string]func(id string) ygot.PathStruct{}

// c29bStep is one accessor call of a chain; replayable: the arguments are the pool values
// c29Arg(type, Variant+position).
type c29bStep struct {
	Method  string   `json:"method"`
	Variant int      `json:"variant"`
	Args    []string `json:"args,omitempty"`
}

// c29bOp is one operation of a program.  Node is 1-based: the node built by chain step Node.
type c29bOp struct {
	Op      string `json:"op"` // "with" (generated With method) | "modifykey" (direct family) | "resolve"
	Node    int    `json:"node"`
	Method  string `json:"method,omitempty"`
	Variant int    `json:"variant,omitempty"`
	Key     string `json:"key,omitempty"`
	Arg     string `json:"arg,omitempty"`
}

// c29bInput is the replayable input of a case (Finding.Input; replay file {"case": <c29bInput>}).
type c29bInput struct {
	Family  string     `json:"family"` // "api" | "direct"
	Package string     `json:"package,omitempty"`
	Chain   []c29bStep `json:"chain,omitempty"`
	Ops     []c29bOp   `json:"ops,omitempty"`
	Seed    int64      `json:"seed,omitempty"` // direct family: the case is generated from this seed alone
}

// c29bNode: one live node of a chain with what the oracle knows about it.
type c29bNode struct {
	v       reflect.Value
	tag     []string            // data-path elements of the GoStruct field tag
	keys    []string            // the schema's key names (nil: not a list)
	vals    []interface{}       // arguments of an ordinary keyed accessor
	with    map[string]string   // builder node: key name -> With method
	exp     map[string]string   // builder node: expected text per key ("*" until set)
	hist    map[string][]string // builder node: texts the key had before
	gs      reflect.Type        // GoStruct of the node
	entry   *yang.Entry
	rel     []string // direct family: relative path
	nilmap  bool     // direct family: keys map is nil
	directk bool     // direct family node (exp holds every key)
}

// c29bShare names every distinct string and NodePath term once (coqc's parse time dominates).
type c29bShare struct {
	ids  map[string]string
	defs []string
}

func c29bNewShare() *c29bShare { return &c29bShare{ids: map[string]string{}} }

func (s *c29bShare) def(pfx, typ, term string) string {
	if id, ok := s.ids[typ+"\x00"+term]; ok {
		return id
	}
	id := fmt.Sprintf("%s%d", pfx, len(s.ids))
	s.ids[typ+"\x00"+term] = id
	s.defs = append(s.defs, fmt.Sprintf("Definition %s : %s := %s.", id, typ, term))
	return id
}

func (s *c29bShare) str(x string) string {
	if x == "" {
		return "[]"
	}
	return s.def("s", "str", coqStr(x))
}

func (s *c29bShare) strs(xs []string) string {
	items := make([]string, len(xs))
	for i, x := range xs {
		items[i] = s.str(x)
	}
	return coqList(items)
}

type c29bCtx struct {
	*c29Ctx
	mk       func(id string) ygot.PathStruct
	rng      *rand.Rand
	tier     string
	sh       *c29bShare
	terms    []string
	files    []string
	out      string
	env      string
	progs    int
	distinct map[string]bool
	chains   [][]c29bStep // enumerated chain descriptors
	hasB     []bool       // chain i passes through a builder node
}

// ---------- building a chain from its descriptor ----------

// c29bBuilderKeys maps the With methods of a builder node to the schema's key names, through the
// GoStruct of the list entry: the key leaf k is the field with a path alternative equal to k,
// and its setter is With<FieldName>.  Independent of ygot.ModifyKey's argument.
func c29bBuilderKeys(t reflect.Type, gs reflect.Type, keys []string) (map[string]string, []string) {
	var withs []string
	for i := 0; i < t.NumMethod(); i++ {
		m := t.Method(i)
		if strings.HasPrefix(m.Name, "With") && len(m.Name) > 4 && m.Type.NumIn() == 2 && m.Type.NumOut() == 1 && m.Type.Out(0) == t {
			withs = append(withs, m.Name)
		}
	}
	if len(withs) == 0 || gs == nil {
		return nil, withs
	}
	res := map[string]string{}
	for _, k := range keys {
		for i := 0; i < gs.NumField(); i++ {
			f := gs.Field(i)
			tag, ok := f.Tag.Lookup("path")
			if !ok {
				continue
			}
			for _, alt := range strings.Split(tag, "|") {
				if strings.TrimPrefix(alt, "/") == k {
					for _, w := range withs {
						if w == "With"+f.Name {
							res[k] = w
						}
					}
				}
			}
		}
	}
	return res, withs
}

func c29bIsBuilderMethod(recv reflect.Type, m reflect.Method) bool {
	return strings.HasPrefix(m.Name, "With") && len(m.Name) > 4 && m.Type.NumIn() == 2 && m.Type.NumOut() == 1 && m.Type.Out(0) == recv
}

// step calls one accessor on a live node and returns the child with its oracle data.
func (c *c29bCtx) step(par *c29bNode, st *c29bStep) (*c29bNode, string) {
	t := par.v.Type()
	m, ok := t.MethodByName(st.Method)
	if !ok || m.Type.NumOut() != 1 || !c29IsPathStruct(m.Type.Out(0)) || m.Type.IsVariadic() {
		return nil, "no accessor " + st.Method + " on " + t.String()
	}
	sf, ok := c29MatchField(par.gs, st.Method)
	if !ok {
		return nil, "no-field"
	}
	ce, err := util.ChildSchema(par.entry, sf)
	if err != nil || ce == nil {
		return nil, "no-schema"
	}
	child := c29ChildStruct(sf.Type)
	nargs := m.Type.NumIn() - 1
	args := make([]reflect.Value, 0, nargs)
	st.Args = nil
	for a := 0; a < nargs; a++ {
		av, ok := c.c29Arg(m.Type.In(a+1), st.Variant+a, child)
		if !ok {
			return nil, "no-pool"
		}
		args = append(args, av)
		s, _ := c.c29KeyString(av)
		st.Args = append(st.Args, fmt.Sprintf("%s(%s)", av.Type().Name(), s))
	}
	var out []reflect.Value
	perr := ""
	func() {
		defer func() {
			if r := recover(); r != nil {
				perr = fmt.Sprint(r)
			}
		}()
		out = par.v.MethodByName(st.Method).Call(args)
	}()
	if perr != "" {
		return nil, "panic: " + perr
	}
	if len(out) != 1 || out[0].IsNil() {
		return nil, "nil"
	}
	n := &c29bNode{v: out[0], tag: c29FirstAlt(sf.Tag.Get("path")), gs: child, entry: ce}
	for _, a := range args {
		n.vals = append(n.vals, a.Interface())
	}
	if ce.IsList() {
		n.keys = strings.Fields(ce.Key)
		if n.keys == nil {
			n.keys = []string{}
		}
		with, withs := c29bBuilderKeys(out[0].Type(), child, n.keys)
		if len(withs) > 0 && nargs == 0 {
			// a builder node: every With method must belong to a key, every key must have one
			if len(with) != len(n.keys) || len(withs) != len(n.keys) {
				c.sum.finding(Finding{Signature: "pathstruct/builder-no-key-field", What: "the With methods of a builder node do not correspond one to one to the key leaves of the list entry",
					Input: map[string]interface{}{"package": c.name, "type": out[0].Type().String()}, Observed: withs, Expected: n.keys})
			}
			n.with = with
			n.exp = map[string]string{}
			n.hist = map[string][]string{}
			for _, k := range n.keys {
				n.exp[k] = "*"
			}
		}
	}
	return n, ""
}

func (c *c29bCtx) rootNode() *c29bNode {
	gs := reflect.TypeOf(c.pkg.NewRoot()).Elem()
	return &c29bNode{v: reflect.ValueOf(c.mk("dev")), gs: gs, entry: c.pkg.SchemaTree[gs.Name()]}
}

// build makes a fresh set of live path structs for a chain descriptor: nodes[0] is the root.
func (c *c29bCtx) build(steps []c29bStep) ([]*c29bNode, string) {
	nodes := []*c29bNode{c.rootNode()}
	for i := range steps {
		n, why := c.step(nodes[len(nodes)-1], &steps[i])
		if n == nil {
			return nil, why
		}
		nodes = append(nodes, n)
	}
	return nodes, ""
}

// ---------- enumeration of the chain descriptors ----------

func (c *c29bCtx) enum(par *c29bNode, steps []c29bStep, hasB bool, depth int) {
	if len(steps) > 0 {
		c.chains = append(c.chains, append([]c29bStep{}, steps...))
		c.hasB = append(c.hasB, hasB)
	}
	if par.gs == nil || par.entry == nil || depth > 12 || len(c.chains) >= 6000 {
		return
	}
	t := par.v.Type()
	for i := 0; i < t.NumMethod(); i++ {
		m := t.Method(i)
		if m.Type.NumOut() != 1 || !c29IsPathStruct(m.Type.Out(0)) || m.Type.IsVariadic() {
			continue
		}
		if c29bIsBuilderMethod(t, m) && par.with != nil {
			continue // a key setter, not an accessor
		}
		if _, ok := c29MatchField(par.gs, m.Name); !ok {
			c.sum.finding(Finding{Signature: "pathstruct/no-field", What: "accessor without a GoStruct field of that name", Input: map[string]interface{}{"package": c.name, "type": t.String(), "method": m.Name}})
			continue
		}
		variants := 1
		if m.Type.NumIn() > 1 {
			variants = c.vars
		}
		for j := 0; j < variants; j++ {
			st := c29bStep{Method: m.Name, Variant: j}
			n, why := c.step(par, &st)
			if n == nil {
				switch {
				case why == "no-pool":
					c.sum.count("skipped", "no-pool-for-"+m.Type.String())
				case strings.HasPrefix(why, "panic"):
					c.sum.finding(Finding{Signature: "pathstruct/accessor-panic", What: why, Input: map[string]interface{}{"package": c.name, "method": m.Name}})
				}
				break
			}
			c.sum.count("accessor", map[bool]string{true: "builder-any", false: map[bool]string{true: "keyed-or-partial", false: "plain-or-any"}[m.Type.NumIn() > 1]}[n.with != nil])
			c.enum(n, append(steps, st), hasB || n.with != nil, depth+1)
		}
	}
}

// ---------- dumps and terms ----------

// nodeTerm reads the NodePath of a live node back and prints it; also whether its key map is nil.
func (c *c29bCtx) nodeTerm(ps ygot.PathStruct) (string, bool, ygot.PathStruct, bool) {
	rel, keys, parent, ok := ygot.C29NodeParts(ps)
	if !ok {
		return "", false, nil, false
	}
	names := make([]string, 0, len(keys))
	for k := range keys {
		names = append(names, k)
	}
	sort.Strings(names)
	var ks []string
	for _, k := range names {
		ks = append(ks, "("+c.sh.str(k)+","+c.kvTerm(keys[k])+")")
	}
	return c.sh.def("n", "nodepath", "MkNP "+c.sh.strs(rel)+" "+coqList(ks)), keys == nil, parent, true
}

func (c *c29bCtx) dump(nodes []*c29bNode) (string, []bool, bool) {
	var ts []string
	var nils []bool
	for i := 1; i < len(nodes); i++ {
		t, isnil, parent, ok := c.nodeTerm(nodes[i].v.Interface().(ygot.PathStruct))
		if !ok {
			return "", nil, false
		}
		if pp, ok2 := nodes[i-1].v.Interface().(ygot.PathStruct); !ok2 || parent != pp {
			return "", nil, false
		}
		ts = append(ts, t)
		nils = append(nils, isnil)
	}
	return coqList(ts), nils, true
}

func (c *c29bCtx) pathTerm(p *gpb.Path) string {
	var es []string
	for _, e := range p.GetElem() {
		var kvs []string
		for _, k := range sortedKeys(e.GetKey()) {
			kvs = append(kvs, "("+c.sh.str(k)+","+coqStr(e.GetKey()[k])+")")
		}
		es = append(es, "{| ename := "+c.sh.str(e.GetName())+"; ekeys := "+coqList(kvs)+" |}")
	}
	return coqList(es)
}

func c29bResolve(ps ygot.PathStruct) (path *gpb.Path, errs []error, panicked bool) {
	defer func() {
		if r := recover(); r != nil {
			panicked = true
		}
	}()
	path, _, errs = ygot.ResolvePath(ps)
	return
}

// ---------- one program on one set of live nodes ----------

type c29bRun struct {
	c      *c29bCtx
	in     c29bInput
	nodes  []*c29bNode
	chain0 string   // the dump right after the chain was built
	nils   []bool   // per node: nil key map
	ops    []string // Coq op terms
	shape  []string
	bad    bool // a finding was already reported for this program
}

func (r *c29bRun) finding(sig, what string, obs, exp interface{}) {
	if r.bad {
		return
	}
	r.bad = true
	in := r.in
	in.Ops = append([]c29bOp{}, r.in.Ops...)
	r.c.sum.finding(Finding{Signature: sig, What: what, Input: in, Observed: obs, Expected: exp})
}

// expected computes, without the model, the path the first `upto` nodes must resolve to:
// element names from the tags, exact key maps for builder (and direct) nodes, the multiset of the
// accessor arguments for ordinary keyed accessors.
func (r *c29bRun) check(upto int, path *gpb.Path) {
	c := r.c
	var names, want []string
	for _, e := range path.GetElem() {
		names = append(names, e.GetName())
	}
	for i := 1; i <= upto; i++ {
		want = append(want, r.nodes[i].tag...)
	}
	if strings.Join(names, "/") != strings.Join(want, "/") {
		r.finding("pathstruct/builder-tags", "resolved element names differ from the data path of the GoStruct field tags", "/"+strings.Join(names, "/"), "/"+strings.Join(want, "/"))
		return
	}
	pos := 0
	for i := 1; i <= upto; i++ {
		n := r.nodes[i]
		first := pos
		pos += len(n.tag)
		if len(n.tag) == 0 {
			continue
		}
		for q := first; q < pos-1; q++ {
			if len(path.Elem[q].GetKey()) != 0 {
				r.finding("pathstruct/builder-keys", "keys on an element that is not the last element of its node", path.Elem[q].GetKey(), nil)
				return
			}
		}
		el := path.Elem[pos-1]
		switch {
		case n.exp != nil: // builder or direct node: the exact key map
			got := el.GetKey()
			if got == nil {
				got = map[string]string{}
			}
			if !reflect.DeepEqual(got, n.exp) {
				sig := "pathstruct/builder-keys"
				for k, v := range got {
					if e, ok := n.exp[k]; ok && e != v {
						for _, old := range n.hist[k] {
							if old == v {
								sig = "pathstruct/builder-stale-key" // the path carries a value the key had BEFORE the last write
							}
						}
					}
				}
				expCopy := map[string]string{}
				for k, v := range n.exp {
					expCopy[k] = v
				}
				r.finding(sig, fmt.Sprintf("node %d (%s): the resolved keys are not the values most recently set ('*' for keys never set)", i, strings.Join(n.tag, "/")), got, expCopy)
				return
			}
		case n.keys == nil:
			if len(el.GetKey()) != 0 {
				r.finding("pathstruct/builder-keys", "keys on an element that is not a list", el.GetKey(), nil)
				return
			}
		default: // ordinary (partially) keyed accessor, as in c29_paths.go
			var got []string
			for k := range el.GetKey() {
				got = append(got, k)
			}
			sort.Strings(got)
			wantk := append([]string{}, n.keys...)
			sort.Strings(wantk)
			if c.simplify && len(n.vals) == 0 && len(got) == 0 {
				continue
			}
			if strings.Join(got, " ") != strings.Join(wantk, " ") {
				r.finding("pathstruct/keys", "key names of a list element differ from the schema's key statement", got, wantk)
				return
			}
			var vals, exp []string
			for _, k := range got {
				if el.Key[k] != "*" {
					vals = append(vals, el.Key[k])
				}
			}
			for _, a := range n.vals {
				s, ok := c.c29KeyString(reflect.ValueOf(a))
				if !ok {
					s = "?"
				}
				if s != "*" {
					exp = append(exp, s)
				}
			}
			sort.Strings(vals)
			sort.Strings(exp)
			if strings.Join(vals, "\x00") != strings.Join(exp, "\x00") {
				r.finding("pathstruct/keys", "the keys passed to the accessor do not appear as the key values (others must be '*')", vals, exp)
				return
			}
		}
	}
}

// resolve: ResolvePath of node `upto`, the dump at that moment, the oracle.
func (r *c29bRun) resolve(upto int) {
	c := r.c
	r.in.Ops = append(r.in.Ops, c29bOp{Op: "resolve", Node: upto})
	ps := r.nodes[upto].v.Interface().(ygot.PathStruct)
	path, errs, panicked := c29bResolve(ps)
	d, _, ok := c.dump(r.nodes)
	if !ok {
		r.finding("pathstruct/builder-parent", "a node of the chain has no NodePath or its parent is not the node it was built from", nil, nil)
		return
	}
	obs := coqErr
	switch {
	case panicked:
		obs = coqPanic
	case len(errs) == 0 && path != nil:
		obs = coqOk(c.pathTerm(path))
	}
	var tag []string
	for i := 1; i <= upto; i++ {
		tag = append(tag, r.nodes[i].tag...)
	}
	r.ops = append(r.ops, fmt.Sprintf("PResolve %d %s %s %s", upto, d, obs, c.sh.strs(tag)))
	r.shape = append(r.shape, "R"+strconv.Itoa(len(r.nodes)-1-upto))
	c.sum.Cases++
	c.sum.OracleRuns++
	// ---- oracle
	expErr, expPanic := false, false
	for i := 1; i <= upto; i++ {
		n := r.nodes[i]
		if n.directk {
			if len(n.exp) > 0 && len(n.rel) == 0 {
				expPanic = true // pathElems[len-1] on an empty relative path
			}
		}
	}
	if !c.rootok {
		expErr = true
	}
	switch {
	case expPanic:
		if !panicked {
			r.finding("pathstruct/builder-direct", "keys on a node with an empty relative path: relPath was expected to panic (index out of range)", fmt.Sprint(errs), "panic")
		}
		c.sum.count("resolution", "panic-expected")
		return
	case panicked || (len(errs) > 0 && !expErr):
		if !c.rootok && strings.Contains(fmt.Sprint(errs), "got unexpected root") {
			c.sum.count("resolution", "root-shadowed")
			if !c.seen["root-shadowed"] {
				c.seen["root-shadowed"] = true
				c.sum.finding(Finding{Signature: "pathstruct/root-shadowed", What: "the root path struct does not implement fakeRootPathStruct: ResolvePath fails for every path of the package: " + fmt.Sprint(errs), Input: r.in})
			}
			return
		}
		r.finding("pathstruct/builder-resolve", fmt.Sprintf("ResolvePath fails on a chain of generated accessors and With calls (panic=%v): %v", panicked, errs), nil, nil)
		return
	case expErr:
		if len(errs) == 0 {
			r.finding("pathstruct/builder-direct", "a root that is not a fake-root path struct was expected to make ResolvePath fail", nil, nil)
		}
		c.sum.count("resolution", "error-expected")
		return
	}
	c.sum.count("resolution", "ok")
	r.check(upto, path)
}

// with calls a generated With method of builder node `node` with the pool value `variant`.
func (r *c29bRun) with(node int, key string, variant int) bool {
	c := r.c
	n := r.nodes[node]
	mname := n.with[key]
	m := n.v.MethodByName(mname)
	if !m.IsValid() {
		return false
	}
	av, ok := c.c29Arg(m.Type().In(0), variant, n.gs)
	if !ok {
		c.sum.count("skipped", "no-pool-for-"+m.Type().String())
		return false
	}
	text, okText := c.c29KeyString(av)
	if !okText {
		text = "?"
	}
	r.in.Ops = append(r.in.Ops, c29bOp{Op: "with", Node: node, Method: mname, Variant: variant, Key: key, Arg: fmt.Sprintf("%s(%s)", av.Type().Name(), text)})
	var out []reflect.Value
	panicked := false
	func() {
		defer func() {
			if rec := recover(); rec != nil {
				panicked = true
			}
		}()
		out = m.Call([]reflect.Value{av})
	}()
	r.ops = append(r.ops, fmt.Sprintf("PSet %d %s %s %s", node-1, c.sh.str(key), c.kvTerm(av.Interface()), coqBool(panicked)))
	r.shape = append(r.shape, "W"+strconv.Itoa(len(r.nodes)-1-node)+":"+key)
	c.sum.count("with-calls", "with")
	if panicked {
		r.finding("pathstruct/builder-with-panic", "a generated With method panics", nil, nil)
		return true
	}
	if len(out) != 1 || out[0].Pointer() != n.v.Pointer() {
		r.finding("pathstruct/builder-not-in-place", "a generated With method does not return its receiver", nil, nil)
	}
	n.hist[key] = append(n.hist[key], n.exp[key])
	n.exp[key] = text
	return true
}

func (r *c29bRun) finish() {
	c := r.c
	if len(r.ops) == 0 {
		return
	}
	c.progs++
	c.id++
	nils := make([]string, len(r.nils))
	for i, b := range r.nils {
		nils[i] = coqBool(b)
	}
	c.terms = append(c.terms, fmt.Sprintf("{| pb_id := %d; pb_rootok := %s; pb_nil := %s; pb_chain := %s; pb_ops := %s |}", c.id, coqBool(c.rootok), coqList(nils), r.chain0, coqList(c29bParenAll(r.ops))))
	var tagAll []string
	for _, n := range r.nodes[1:] {
		tagAll = append(tagAll, n.tag...)
	}
	key := c.name + "|" + strings.Join(tagAll, "/") + "|" + strings.Join(r.shape, " ")
	if !c.distinct[key] {
		c.distinct[key] = true
		c.sum.Nontrivial++
	}
	c.sum.count("program-length", strconv.Itoa(len(r.ops)))
	if len(r.ops) >= 5 {
		c.sum.sample(r.in)
	}
	if len(c.terms) >= 150 {
		c.flush()
	}
}

func c29bParenAll(xs []string) []string {
	out := make([]string, len(xs))
	for i, x := range xs {
		out[i] = "(" + x + ")"
	}
	return out
}

func (c *c29bCtx) flush() {
	if len(c.terms) == 0 {
		return
	}
	var kf []string
	var bits []uint64
	for b := range c.floats {
		bits = append(bits, b)
	}
	sort.Slice(bits, func(i, j int) bool { return bits[i] < bits[j] })
	for _, b := range bits {
		kf = append(kf, fmt.Sprintf("(%d,%s)", b, coqStr(strconv.FormatFloat(c.floats[b], 'g', -1, 64))))
	}
	name := fmt.Sprintf("cases_pathbuilder_%s_%d.v", c.name, len(c.files))
	body := "From Ygot Require Import Base.Base Path.PathString Tree.Tree Gen.PathStructs Gen.PathBuilder.\nOpen Scope N_scope.\n" +
		"Definition env : enum_env := " + c.env + ".\nDefinition kf : list (N * str) := " + coqList(kf) + ".\n" +
		strings.Join(c.sh.defs, "\n") + "\nDefinition cases : list pbcase := [\n" + strings.Join(c.terms, ";\n") + "\n].\n" +
		"Definition M := Eval vm_compute in pb_model_mismatches kf env cases.\nPrint M.\n" +
		"Definition T := Eval vm_compute in pb_tag_mismatches cases.\nPrint T.\n"
	if err := os.WriteFile(c.out+"/"+name, []byte(body), 0o644); err != nil {
		panic(err)
	}
	c.files = append(c.files, name)
	c.terms = nil
	c.sh = c29bNewShare()
}

// newRun builds a fresh set of live path structs for the chain and takes the first dump.
func (c *c29bCtx) newRun(steps []c29bStep) *c29bRun {
	st := append([]c29bStep{}, steps...)
	nodes, why := c.build(st)
	if nodes == nil {
		c.sum.count("skipped", "chain-not-built:"+strings.SplitN(why, ":", 2)[0])
		return nil
	}
	r := &c29bRun{c: c, nodes: nodes, in: c29bInput{Family: "api", Package: c.name, Chain: st}}
	d, nils, ok := c.dump(nodes)
	if !ok {
		r.finding("pathstruct/builder-parent", "a node of the chain has no NodePath or its parent is not the node it was built from", nil, nil)
		return nil
	}
	r.chain0, r.nils = d, nils
	return r
}

func (r *c29bRun) builders() []int {
	var bs []int
	for i, n := range r.nodes {
		if i > 0 && n.with != nil && len(n.with) > 0 {
			bs = append(bs, i)
		}
	}
	return bs
}

// systematic: resolve the end of the chain and each builder node while every key is "*"; set the
// keys of each builder node one after the other with a resolution after each; re-key the first
// key twice with other values; resolve the builder node, its parent and the end of the chain.
func (c *c29bCtx) systematic(steps []c29bStep, base int) {
	r := c.newRun(steps)
	if r == nil {
		return
	}
	L := len(r.nodes) - 1
	r.resolve(L)
	for _, b := range r.builders() {
		if b != L {
			r.resolve(b)
		}
	}
	for _, b := range r.builders() {
		n := r.nodes[b]
		for qi, k := range n.keys {
			if r.with(b, k, base+qi) {
				r.resolve(L)
			}
		}
		k0 := n.keys[0]
		if r.with(b, k0, base+1) {
			r.resolve(L)
		}
		r.with(b, k0, base+2)
		if r.with(b, k0, base+3) {
			r.resolve(b)
		}
		if b > 1 {
			r.resolve(b - 1)
		}
		r.resolve(L)
	}
	r.finish()
}

// random: a random program of With calls and resolutions; always ends with a resolution of the
// end of the chain.
func (c *c29bCtx) random(steps []c29bStep) {
	r := c.newRun(steps)
	if r == nil {
		return
	}
	L := len(r.nodes) - 1
	bs := r.builders()
	if len(bs) == 0 {
		r.resolve(L)
		r.finish()
		return
	}
	nops := 2 + c.rng.Intn(9)
	for i := 0; i < nops; i++ {
		if c.rng.Intn(100) < 60 {
			b := bs[c.rng.Intn(len(bs))]
			n := r.nodes[b]
			r.with(b, n.keys[c.rng.Intn(len(n.keys))], c.rng.Intn(6))
		} else {
			r.resolve(1 + c.rng.Intn(L))
		}
	}
	r.resolve(L)
	r.finish()
}

// exhaustive (thorough tier): every program of exactly `length` letters over the alphabet
// {resolve the end of the chain} + {With<k>(pool 0), With<k>(pool 1) for every key of the first builder
// node}, followed by a resolution.
func (c *c29bCtx) exhaustive(steps []c29bStep, length int) {
	probe := c.newRun(steps)
	if probe == nil || len(probe.builders()) == 0 {
		return
	}
	b := probe.builders()[0]
	keys := probe.nodes[b].keys
	alpha := 1 + 2*len(keys)
	total := 1
	for i := 0; i < length; i++ {
		total *= alpha
	}
	for code := 0; code < total; code++ {
		r := c.newRun(steps)
		if r == nil {
			return
		}
		L := len(r.nodes) - 1
		x := code
		for i := 0; i < length; i++ {
			a := x % alpha
			x /= alpha
			if a == 0 {
				r.resolve(L)
			} else {
				r.with(b, keys[(a-1)/2], (a-1)%2)
			}
		}
		r.resolve(L)
		r.finish()
	}
}

// replay of an "api" input: the chain and the operations exactly as recorded.
func (c *c29bCtx) replay(in c29bInput) {
	r := c.newRun(in.Chain)
	if r == nil {
		return
	}
	for _, op := range in.Ops {
		if op.Node < 1 || op.Node >= len(r.nodes) {
			continue
		}
		switch op.Op {
		case "resolve":
			r.resolve(op.Node)
		case "with":
			n := r.nodes[op.Node]
			for k, m := range n.with {
				if m == op.Method {
					r.with(op.Node, k, op.Variant)
				}
			}
		}
	}
	r.finish()
}

// ---------- the direct family: hand-made NodePath chains ----------

// c29bHand is a path struct made by hand (what the generator emits for every node).
type c29bHand struct {
	*ygot.NodePath
}

// c29bEnum is a GoEnum of the harness: 0 UNSET, 1 ONE, 2 TWO; other values are undefined.
type c29bEnum int64

func (c29bEnum) IsYANGGoEnum() {}
func (c29bEnum) ΛMap() map[string]map[int64]ygot.EnumDefinition {
	return c29bEnumTable
}
func (e c29bEnum) String() string { return ygot.EnumLogString(e, int64(e), "c29bEnum") }

var c29bEnumTable = map[string]map[int64]ygot.EnumDefinition{"c29bEnum": {1: {Name: "ONE"}, 2: {Name: "TWO", DefiningModule: "m"}}}

var c29bKeyNames = []string{"name", "type", "a", "b", "k1", "zz", "", "é"}

// c29bDirectValue: a random key value with its expected text ("" for UNSET; ok=false: KeyValueAsString must fail).
func c29bDirectValue(rng *rand.Rand) (interface{}, string, bool) {
	switch rng.Intn(12) {
	case 0:
		return "*", "*", true
	case 1:
		v := c29Strings[rng.Intn(len(c29Strings))]
		return v, v, true
	case 2:
		v := int8(rng.Intn(256) - 128)
		return v, strconv.Itoa(int(v)), true
	case 3:
		v := c29IntPool(reflect.Int64)[rng.Intn(4)]
		return v, strconv.FormatInt(v, 10), true
	case 4:
		v := c29UintPool(reflect.Uint64)[rng.Intn(4)]
		return v, strconv.FormatUint(v, 10), true
	case 5:
		v := uint16(rng.Intn(65536))
		return v, strconv.Itoa(int(v)), true
	case 6:
		v := rng.Intn(2) == 0
		return v, strconv.FormatBool(v), true
	case 7:
		v := c29Floats[rng.Intn(len(c29Floats))]
		return v, strconv.FormatFloat(v, 'g', -1, 64), true
	case 8:
		b := []byte{byte(rng.Intn(256)), 2, byte(rng.Intn(256))}[:1+rng.Intn(3)]
		return b, c29B64(b), true
	case 9:
		v := c29bEnum(1 + rng.Intn(2))
		return v, c29bEnumTable["c29bEnum"][int64(v)].Name, true
	case 10:
		return c29bEnum(0), "", true // UNSET renders as the empty string
	}
	return c29bEnum(9), "", false // undefined: KeyValueAsString fails
}

func (c *c29bCtx) direct(seed int64) {
	rng := rand.New(rand.NewSource(seed))
	r := &c29bRun{c: c, in: c29bInput{Family: "direct", Seed: seed}}
	c.rootok = rng.Intn(8) != 0
	var root ygot.PathStruct
	if c.rootok {
		root = ygot.NewDeviceRootBase("dev")
	} else {
		root = &c29bHand{ygot.NewNodePath(nil, nil, nil)}
	}
	r.nodes = []*c29bNode{{v: reflect.ValueOf(root)}}
	nps := []*ygot.NodePath{nil}
	bad := map[int]bool{} // nodes holding a value KeyValueAsString rejects
	badKeys := map[int]map[string]bool{}
	parent := root
	for i, nn := 1, 1+rng.Intn(4); i <= nn; i++ {
		var rel []string
		for q, nr := 0, rng.Intn(4); q < nr; q++ {
			rel = append(rel, []string{"interfaces", "interface", "config", "x", "acl-sets", "é", ""}[rng.Intn(7)])
		}
		if len(rel) == 0 && rng.Intn(3) != 0 {
			rel = []string{"c"}
		}
		var keys map[string]interface{}
		exp := map[string]string{}
		badKeys[i] = map[string]bool{}
		isnil := rng.Intn(5) == 0
		if !isnil {
			keys = map[string]interface{}{}
			for q, nk := 0, rng.Intn(4); q < nk; q++ {
				k := c29bKeyNames[rng.Intn(len(c29bKeyNames))]
				v, text, ok := c29bDirectValue(rng)
				keys[k] = v
				exp[k] = text
				badKeys[i][k] = !ok
			}
		}
		np := ygot.NewNodePath(rel, keys, parent)
		h := &c29bHand{np}
		r.nodes = append(r.nodes, &c29bNode{v: reflect.ValueOf(h), tag: rel, rel: rel, nilmap: isnil, directk: true, exp: exp, hist: map[string][]string{}})
		nps = append(nps, np)
		parent = h
	}
	d, nils, ok := c.dump(r.nodes)
	if !ok {
		return
	}
	r.chain0, r.nils = d, nils
	L := len(r.nodes) - 1
	isBad := func(upto int) bool {
		for i := 1; i <= upto; i++ {
			for _, b := range badKeys[i] {
				if b {
					return true
				}
			}
		}
		return false
	}
	_ = bad
	resolve := func(upto int) {
		// the oracle of r.resolve knows roots and empty relative paths; values that cannot be
		// rendered are handled here: ResolvePath must fail (unless a panic comes first)
		if isBad(upto) {
			r.in.Ops = append(r.in.Ops, c29bOp{Op: "resolve", Node: upto})
			ps := r.nodes[upto].v.Interface().(ygot.PathStruct)
			path, errs, panicked := c29bResolve(ps)
			dd, _, _ := c.dump(r.nodes)
			obs := coqErr
			switch {
			case panicked:
				obs = coqPanic
			case len(errs) == 0 && path != nil:
				obs = coqOk(c.pathTerm(path))
				r.finding("pathstruct/builder-direct", "a key value KeyValueAsString rejects was expected to make ResolvePath fail", nil, nil)
			}
			var tag []string
			for i := 1; i <= upto; i++ {
				tag = append(tag, r.nodes[i].tag...)
			}
			r.ops = append(r.ops, fmt.Sprintf("PResolve %d %s %s %s", upto, dd, obs, c.sh.strs(tag)))
			r.shape = append(r.shape, "E")
			c.sum.Cases++
			c.sum.OracleRuns++
			c.sum.count("resolution", "error-expected")
			return
		}
		r.resolve(upto)
	}
	resolve(L)
	for i, nops := 0, 2+rng.Intn(8); i < nops; i++ {
		if rng.Intn(100) < 60 {
			node := 1 + rng.Intn(L)
			n := r.nodes[node]
			k := c29bKeyNames[rng.Intn(len(c29bKeyNames))]
			v, text, okv := c29bDirectValue(rng)
			r.in.Ops = append(r.in.Ops, c29bOp{Op: "modifykey", Node: node, Key: k, Arg: fmt.Sprintf("%T(%s)", v, text)})
			panicked := false
			func() {
				defer func() {
					if rec := recover(); rec != nil {
						panicked = true
					}
				}()
				ygot.ModifyKey(nps[node], k, v)
			}()
			r.ops = append(r.ops, fmt.Sprintf("PSet %d %s %s %s", node-1, c.sh.str(k), c.kvTerm(v), coqBool(panicked)))
			r.shape = append(r.shape, "M")
			c.sum.count("with-calls", "modifykey-direct")
			if panicked != n.nilmap {
				r.finding("pathstruct/builder-direct", "ModifyKey panics exactly on a nil key map", panicked, n.nilmap)
			}
			if !panicked {
				if old, had := n.exp[k]; had {
					n.hist[k] = append(n.hist[k], old)
				}
				n.exp[k] = text
				badKeys[node][k] = !okv
			}
		} else {
			resolve(1 + rng.Intn(L))
		}
	}
	resolve(L)
	r.finish()
}

// ---------- the stream ----------

type c29bManifestPkg struct {
	Name        string   `json:"name"`
	Flags       []string `json:"flags"`
	PathBuilder int      `json:"path_builder"`
}

func c29bLoadManifest() ([]c29bManifestPkg, error) {
	f := os.Getenv("C26_MANIFEST")
	if f == "" {
		return nil, fmt.Errorf("C26_MANIFEST is not set")
	}
	b, err := os.ReadFile(f)
	if err != nil {
		return nil, err
	}
	var m struct {
		Packages []c29bManifestPkg `json:"packages"`
	}
	if err := json.Unmarshal(b, &m); err != nil {
		return nil, err
	}
	return m.Packages, nil
}

func c29bStream(rng *rand.Rand, n int, tier string, out string) (*Summary, error) {
	sum := &Summary{Rule: "one case per ResolvePath call inside a program (a chain of generated accessors through a builder node, then With<Key> calls and resolutions on the same live path structs; plus chains without builder node resolved once; plus hand-made NodePath chains with direct ModifyKey calls); non-trivial: distinct (package, data path, sequence of operations with key names)"}
	var replay *c29bInput
	if replayFile != "" {
		b, err := os.ReadFile(replayFile)
		if err != nil {
			return nil, err
		}
		var rp struct {
			Case c29bInput `json:"case"`
		}
		if err := json.Unmarshal(b, &rp); err != nil {
			return nil, err
		}
		replay = &rp.Case
	}
	pkgs, err := c29bLoadManifest()
	if err != nil {
		return nil, err
	}
	vars := 2
	if tier == "thorough" {
		vars = 4
	}
	if n <= 0 {
		n = 2000
	}
	var sel []c29bManifestPkg
	for _, p := range pkgs {
		if c29bRoots[p.Name] != nil && reg.Get(p.Name) != nil && p.PathBuilder > 0 {
			sel = append(sel, p)
		}
	}
	var files []string
	distinct := map[string]bool{}
	programs := 0
	for _, p := range sel {
		if replay != nil && (replay.Family != "api" || replay.Package != p.Name) {
			continue
		}
		rp := reg.Get(p.Name)
		_, env := schemaTerm(rp)
		c := &c29bCtx{c29Ctx: &c29Ctx{pkg: rp, name: p.Name, sum: sum, floats: map[uint64]float64{}, vars: vars, seen: map[string]bool{}},
			mk: c29bRoots[p.Name], rng: rng, tier: tier, sh: c29bNewShare(), out: out, env: env, distinct: distinct}
		_, c.rootok = c.mk("dev").(interface {
			Id() string
			CustomData() map[string]interface{}
		})
		for _, f := range p.Flags {
			if f == "-simplify_wildcard_paths" {
				c.simplify = true
			}
		}
		if replay != nil {
			c.replay(*replay)
			c.flush()
			files = append(files, c.files...)
			programs += c.progs
			continue
		}
		c.enum(c.rootNode(), nil, false, 0)
		budget := sum.Cases + n*9/10/len(sel)
		var withB, plain []int
		for i, b := range c.hasB {
			if b {
				withB = append(withB, i)
			} else {
				plain = append(plain, i)
			}
		}
		sum.count("chains", "through-a-builder-node:"+p.Name+"="+strconv.Itoa(len(withB)))
		// (1) one systematic program per chain through a builder node
		for _, i := range withB {
			if sum.Cases >= budget {
				break
			}
			c.systematic(c.chains[i], rng.Intn(4))
		}
		// (2) thorough: every short program over the keys of the first builder node, for the first chains
		if tier == "thorough" {
			for q, i := range withB {
				if q >= 12 || sum.Cases >= budget {
					break
				}
				c.exhaustive(c.chains[i], 3)
			}
		}
		// (3) chains without a builder node: the ordinary accessors of these packages, resolved once
		for q, i := range plain {
			if q >= n/10/len(sel)+20 {
				break
			}
			c.random(c.chains[i])
		}
		// (4) random programs
		for len(withB) > 0 && sum.Cases < budget {
			c.random(c.chains[withB[rng.Intn(len(withB))]])
		}
		c.flush()
		files = append(files, c.files...)
		programs += c.progs
		sum.count("package", p.Name)
	}
	// the direct family
	if replay == nil || replay.Family == "direct" {
		c := &c29bCtx{c29Ctx: &c29Ctx{pkg: &reg.Pkg{Enum: c29bEnumTable}, name: "direct", sum: sum, floats: map[uint64]float64{}, vars: vars, seen: map[string]bool{}},
			rng: rng, tier: tier, sh: c29bNewShare(), out: out, distinct: distinct,
			env: "[(" + coqStr("c29bEnum") + ", [{| ev_num := 1%Z; ev_name := " + coqStr("ONE") + "; ev_mod := [] |}; {| ev_num := 2%Z; ev_name := " + coqStr("TWO") + "; ev_mod := " + coqStr("m") + " |}])]"}
		if replay != nil {
			c.direct(replay.Seed)
		} else {
			for q, nd := 0, n/40+10; q < nd; q++ {
				c.direct(rng.Int63())
			}
		}
		c.flush()
		files = append(files, c.files...)
		programs += c.progs
	}
	if len(sel) == 0 {
		sum.count("package", "none-with-builder-api")
	}
	sum.Extra = map[string]interface{}{"case_files": files, "programs": programs, "builder_packages": len(sel)}
	return sum, nil
}

func init() { streams["pathbuilder"] = c29bStream }
