//go:build verif

package main

import (
	"bytes"
	"encoding/json"
	"fmt"
	"math/big"
	"sort"
	"strconv"
	"strings"
)

// decodeJSON parses bytes keeping numbers as text.
func decodeJSON(b []byte) (interface{}, error) {
	d := json.NewDecoder(bytes.NewReader(b))
	d.UseNumber()
	var v interface{}
	if err := d.Decode(&v); err != nil {
		return nil, err
	}
	return v, nil
}

// numTerm prints a JSON number text as JNum m e with integers as (z, 0) and fractions with a
// mantissa not divisible by 10.
func numTerm(s string) string {
	neg := strings.HasPrefix(s, "-")
	s = strings.TrimPrefix(s, "-")
	exp := 0
	if i := strings.IndexAny(s, "eE"); i >= 0 {
		fmt.Sscanf(s[i+1:], "%d", &exp)
		s = s[:i]
	}
	if i := strings.Index(s, "."); i >= 0 {
		exp -= len(s) - i - 1
		s = s[:i] + s[i+1:]
	}
	m := new(big.Int)
	m.SetString(s, 10)
	ten := big.NewInt(10)
	for exp > 0 {
		m.Mul(m, ten)
		exp--
	}
	for exp < 0 && m.Sign() != 0 && new(big.Int).Mod(m, ten).Sign() == 0 {
		m.Div(m, ten)
		exp++
	}
	if m.Sign() == 0 {
		exp = 0
	}
	if neg {
		m.Neg(m)
	}
	ms := m.String()
	if m.Sign() < 0 {
		ms = "(" + ms + ")"
	}
	es := fmt.Sprintf("%d", exp)
	if exp < 0 {
		es = "(" + es + ")"
	}
	return "(JNum " + ms + "%Z " + es + "%Z)"
}

// jsonTerm prints a decoded JSON value (from decodeJSON, or from ygot's map[string]any after
// a Marshal/decode round) as a Coq json term with sorted object members.
func jsonTerm(v interface{}) string {
	switch x := v.(type) {
	case nil:
		return "JNull"
	case bool:
		return "(JBool " + coqBool(x) + ")"
	case json.Number:
		return numTerm(string(x))
	case float64:
		return numTerm(fmt.Sprintf("%v", x))
	case string:
		// any string that strconv can parse as a float may reach a decimal64 decoder
		if _, err := strconv.ParseFloat(x, 64); err == nil {
			floatTextsSeen[x] = true
		}
		return "(JStr " + coqStr(x) + ")"
	case []interface{}:
		items := make([]string, len(x))
		for i, e := range x {
			items[i] = jsonTerm(e)
		}
		return "(JArr " + coqList(items) + ")"
	case map[string]interface{}:
		keys := make([]string, 0, len(x))
		for k := range x {
			keys = append(keys, k)
		}
		sort.Strings(keys)
		items := make([]string, len(keys))
		for i, k := range keys {
			items[i] = "(" + coqStr(k) + ", " + jsonTerm(x[k]) + ")"
		}
		return "(JObj " + coqList(items) + ")"
	}
	return "JNull"
}

func jsonBytesTerm(b []byte) (string, error) {
	v, err := decodeJSON(b)
	if err != nil {
		return "", err
	}
	return jsonTerm(v), nil
}
