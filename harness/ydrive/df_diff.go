//go:build verif

package main

// df_diff.go — stream `diff` (property C03): pairs of trees (a random tree and a mutated copy of
// it) and histories of tree versions; ygot.Diff and ygot.DiffWithAtomic with and without
// IgnoreAdditions / DiffPathOpt are run on them.  The Coq checker (Corr/DiffCorr.v) recomputes
// the notification contents with Tree/Diff.v.  The implementation-side oracle applies the
// notifications with the real ytypes.UnmarshalNotifications to a copy of a and compares the
// result with b (leafMapOf), checks that every update and delete is justified (against
// TogNMINotifications of a and b), that Diff(a,a) is empty and the IgnoreAdditions law.

import (
	"encoding/json"
	"fmt"
	"math"
	"math/rand"
	"os"
	"reflect"
	"sort"
	"strconv"
	"strings"

	gpb "github.com/openconfig/gnmi/proto/gnmi"
	"github.com/openconfig/goyang/pkg/yang"
	"github.com/openconfig/ygot/internal/verifharness/reg"
	"github.com/openconfig/ygot/util"
	"github.com/openconfig/ygot/ygot"
	"github.com/openconfig/ygot/ytypes"
)

func init() { streams["diff"] = dfStream }

// ---------------------------------------------------------------- helpers

var dfSchemaCache = map[string]*ytypes.Schema{}

func dfSchemaFor(p *reg.Pkg, root ygot.GoStruct) (*ytypes.Schema, error) {
	s, ok := dfSchemaCache[p.Name]
	if !ok {
		var err error
		if s, err = p.Schema(); err != nil {
			return nil, err
		}
		dfSchemaCache[p.Name] = s
	}
	return &ytypes.Schema{Root: root, SchemaTree: s.SchemaTree, Unmarshal: s.Unmarshal}, nil
}

func dfJSON(t ygot.GoStruct) (string, error) {
	m, err, pan := safeConstructJSON(t, &ygot.RFC7951JSONConfig{AppendModuleName: true})
	if pan || err != nil {
		return "", fmt.Errorf("%v", err)
	}
	b, err := json.Marshal(m)
	return string(b), err
}

// dfCopy copies a tree through RFC 7951 JSON (not DeepCopy); ok=false when the copy is not
// faithful (such trees are not used).
func dfCopy(p *reg.Pkg, t ygot.GoStruct) (ygot.ValidatedGoStruct, bool) {
	js, err := dfJSON(t)
	if err != nil {
		return nil, false
	}
	r := p.NewRoot()
	if err, pan := safeUnmarshal(p, []byte(js), r); err != nil || pan {
		return nil, false
	}
	return r, treeTerm(r) == treeTerm(t)
}

func dfRootEntry(p *reg.Pkg) *yang.Entry {
	return p.SchemaTree[reflect.TypeOf(p.NewRoot()).Elem().Name()]
}

// ---------------------------------------------------------------- mutation

type dfSite struct {
	sp    reflect.Value
	e     *yang.Entry
	skip  map[string]bool
	depth int
}

func dfKeySkip(g *treeGen, entryT reflect.Type, ce *yang.Entry) map[string]bool {
	sk := map[string]bool{}
	for _, k := range g.keyFieldNames(entryT, ce) {
		sk[k] = true
	}
	return sk
}

func dfSortedMapEntries(fv reflect.Value) []keyedEntry {
	var es []keyedEntry
	it := fv.MapRange()
	for it.Next() {
		es = append(es, keyedEntry{keys: keyValues(it.Key()), entry: it.Value()})
	}
	sort.Slice(es, func(i, j int) bool { return lessKeys(es[i].keys, es[j].keys) })
	return es
}

func dfCollect(g *treeGen, sp reflect.Value, e *yang.Entry, skip map[string]bool, depth int, out *[]dfSite) {
	*out = append(*out, dfSite{sp, e, skip, depth})
	s := sp.Elem()
	for i := 0; i < s.NumField(); i++ {
		sf := s.Type().Field(i)
		if _, ok := sf.Tag.Lookup("path"); !ok {
			continue
		}
		ce, err := util.ChildSchema(e, sf)
		if err != nil || ce == nil {
			continue
		}
		fv, ft := s.Field(i), sf.Type
		switch {
		case isOrderedMapType(ft):
			if fv.IsNil() {
				continue
			}
			sk := dfKeySkip(g, entryTypeOfOrderedMap(ft), ce)
			for _, en := range orderedEntries(fv.Interface().(ygot.GoOrderedMap)) {
				dfCollect(g, en.entry, ce, sk, depth+1, out)
			}
		case ft.Kind() == reflect.Map:
			sk := dfKeySkip(g, ft.Elem().Elem(), ce)
			for _, en := range dfSortedMapEntries(fv) {
				dfCollect(g, en.entry, ce, sk, depth+1, out)
			}
		case ft.Kind() == reflect.Ptr && ft.Elem().Kind() == reflect.Struct:
			if !fv.IsNil() {
				dfCollect(g, fv, ce, nil, depth+1, out)
			}
		case ft.Kind() == reflect.Slice && ft.Elem().Kind() == reflect.Ptr && ft.Elem().Elem().Kind() == reflect.Struct:
			for j := 0; j < fv.Len(); j++ {
				dfCollect(g, fv.Index(j), ce, nil, depth+1, out)
			}
		}
	}
}

func dfNewOrderedMap(ft reflect.Type, entries []reflect.Value) reflect.Value {
	om := reflect.New(ft.Elem())
	for _, e := range entries {
		om.MethodByName("Append").Call([]reflect.Value{e})
	}
	return om
}

// dfZeroUnion stores a zero-valued member in a union field, if the union has a member whose
// zero value the To_<Union> helper accepts.
func dfZeroUnion(g *treeGen, sp, fv reflect.Value, ft reflect.Type) bool {
	meth := sp.MethodByName("To_" + ft.Name())
	if !meth.IsValid() {
		return false
	}
	cands := []interface{}{"", int8(0), int16(0), int32(0), int64(0), uint8(0), uint16(0), uint32(0), uint64(0), false, float64(0)}
	g.rng.Shuffle(len(cands), func(i, j int) { cands[i], cands[j] = cands[j], cands[i] })
	for _, c := range cands {
		out := meth.Call([]reflect.Value{reflect.ValueOf(c)})
		if out[1].IsNil() {
			fv.Set(out[0])
			return true
		}
	}
	return false
}

// dfMutate applies one random edit to the tree and names it ("" = nothing changed).
func dfMutate(g *treeGen, root ygot.ValidatedGoStruct, rootE *yang.Entry, allowUnkeyed bool) string {
	rng := g.rng
	var sites []dfSite
	dfCollect(g, reflect.ValueOf(root), rootE, nil, 0, &sites)
	// candidate (site, field) pairs by kind, so that the rarer kinds of edit are drawn often enough
	type cand struct {
		st  dfSite
		idx int
	}
	byKind := map[string][]cand{}
	for _, st := range sites {
		s := st.sp.Elem()
		for i := 0; i < s.NumField(); i++ {
			sf := s.Type().Field(i)
			if _, ok := sf.Tag.Lookup("path"); !ok || st.skip[sf.Name] {
				continue
			}
			ce, err := util.ChildSchema(st.e, sf)
			if err != nil || ce == nil {
				continue
			}
			kind := "other"
			switch {
			case ce.IsList() && isOrderedMapType(sf.Type):
				kind = "ordered"
			case ce.IsList() && sf.Type.Kind() == reflect.Map && sf.Type.Key().Kind() == reflect.Interface:
				kind = "unionmap"
			case ce.IsList() && sf.Type.Kind() == reflect.Map:
				kind = "map"
			case ce.IsLeaf() && sf.Type.Kind() == reflect.Interface:
				kind = "union"
			}
			byKind[kind] = append(byKind[kind], cand{st, i})
			byKind["any"] = append(byKind["any"], cand{st, i})
		}
	}
	if len(byKind["any"]) == 0 {
		return ""
	}
	for try := 0; try < 30; try++ {
		kind := "any"
		switch r := rng.Intn(100); {
		case r < 15:
			kind = "ordered"
		case r < 27:
			kind = "map"
		case r < 33:
			kind = "unionmap"
		case r < 41:
			kind = "union"
		}
		if len(byKind[kind]) == 0 {
			kind = "any"
		}
		c := byKind[kind][rng.Intn(len(byKind[kind]))]
		if kind == "ordered" {
			// prefer a list that can be reordered
			for t := 0; t < 4; t++ {
				fv := c.st.sp.Elem().Field(c.idx)
				if !fv.IsNil() && len(orderedEntries(fv.Interface().(ygot.GoOrderedMap))) >= 2 {
					break
				}
				c = byKind[kind][rng.Intn(len(byKind[kind]))]
			}
		}
		st, i := c.st, c.idx
		s := st.sp.Elem()
		sf := s.Type().Field(i)
		fv, ft := s.Field(i), sf.Type
		ce, _ := util.ChildSchema(st.e, sf)
		before, _ := fieldTerm(fv)
		changed := func(name string) string {
			after, _ := fieldTerm(fv)
			if after == before {
				return ""
			}
			return name
		}
		switch {
		case ce.IsLeaf():
			_, set := fieldTerm(fv)
			switch {
			case set && rng.Intn(3) == 0:
				fv.Set(reflect.Zero(ft))
				return "leaf-unset"
			case ft.Kind() == reflect.Interface && rng.Intn(5) == 0:
				if dfZeroUnion(g, st.sp, fv, ft) {
					if r := changed("union-zero"); r != "" {
						return r
					}
				}
			default:
				g.setField(st.sp, fv, sf, ce, st.depth)
				if r := changed("leaf-set"); r != "" {
					return r
				}
			}
		case ce.IsLeafList():
			if !fv.IsNil() && rng.Intn(3) == 0 {
				fv.Set(reflect.Zero(ft))
				return "leaflist-unset"
			}
			g.setField(st.sp, fv, sf, ce, st.depth)
			if r := changed("leaflist-set"); r != "" {
				return r
			}
		case ce.IsList() && isOrderedMapType(ft):
			var ents []reflect.Value
			if !fv.IsNil() {
				for _, en := range orderedEntries(fv.Interface().(ygot.GoOrderedMap)) {
					ents = append(ents, en.entry)
				}
			}
			switch r := rng.Intn(10); {
			case r < 4 && len(ents) >= 2:
				rng.Shuffle(len(ents), func(a, b int) { ents[a], ents[b] = ents[b], ents[a] })
				fv.Set(dfNewOrderedMap(ft, ents))
				if r := changed("ordered-reorder"); r != "" {
					return r
				}
			case r < 7:
				tmp := reflect.New(ft).Elem()
				g.setList(st.sp, tmp, sf, ce, st.depth)
				if !tmp.IsNil() {
					for _, en := range orderedEntries(tmp.Interface().(ygot.GoOrderedMap)) {
						pos := rng.Intn(len(ents) + 1)
						ents = append(ents[:pos], append([]reflect.Value{en.entry}, ents[pos:]...)...)
					}
				}
				fv.Set(dfNewOrderedMap(ft, ents))
				if r := changed("ordered-insert"); r != "" {
					return r
				}
			case r < 9 && len(ents) >= 1:
				k := rng.Intn(len(ents))
				ents = append(ents[:k], ents[k+1:]...)
				if len(ents) == 0 {
					fv.Set(reflect.Zero(ft))
				} else {
					fv.Set(dfNewOrderedMap(ft, ents))
				}
				return "ordered-delete"
			case r == 9 && !fv.IsNil():
				fv.Set(reflect.Zero(ft))
				return "ordered-unset"
			}
		case ce.IsList() && ft.Kind() == reflect.Map:
			switch r := rng.Intn(10); {
			case (r == 8 || (kind == "unionmap" && r >= 4)) && ft.Key().Kind() == reflect.Interface:
				// a string member that reads like another member of the union
				entryT := ft.Elem().Elem()
				ent := reflect.New(entryT)
				kfs := g.keyFieldNames(entryT, ce)
				meth := ent.MethodByName("To_" + ft.Key().Name())
				if len(kfs) == 1 && meth.IsValid() {
					out := meth.Call([]reflect.Value{reflect.ValueOf(pick(rng, []string{"7", "-3", "42"}))})
					if out[1].IsNil() {
						ent.Elem().FieldByName(kfs[0]).Set(out[0])
						g.populate(ent, ce, st.depth+1, map[string]bool{kfs[0]: true})
						if fv.IsNil() {
							fv.Set(reflect.MakeMap(ft))
						}
						dup := false
						for _, o := range dfSortedMapEntries(fv) {
							if sortKey(o.keys[0]) == sortKey(out[0]) {
								dup = true
							}
						}
						if !dup {
							fv.SetMapIndex(out[0], ent)
							return "ambiguous-key"
						}
					}
				}
			case r < 5:
				old := fv.Interface()
				oldV := reflect.ValueOf(old)
				tmp := reflect.New(ft).Elem()
				g.setList(st.sp, tmp, sf, ce, st.depth)
				merged := reflect.MakeMap(ft)
				if !oldV.IsNil() {
					it := oldV.MapRange()
					for it.Next() {
						merged.SetMapIndex(it.Key(), it.Value())
					}
				}
				added := 0
				for _, en := range dfSortedMapEntries(tmp) {
					// wrapper-union keys are pointers: compare by printed key
					dup := false
					for _, o := range dfSortedMapEntries(merged) {
						if !lessKeys(o.keys, en.keys) && !lessKeys(en.keys, o.keys) {
							dup = true
						}
					}
					if dup || added >= 2 {
						continue
					}
					it := tmp.MapRange()
					for it.Next() {
						if it.Value().Pointer() == en.entry.Pointer() {
							merged.SetMapIndex(it.Key(), it.Value())
							added++
						}
					}
				}
				if added > 0 {
					fv.Set(merged)
					return "entry-insert"
				}
			case r < 8 && fv.Len() > 0:
				es := dfSortedMapEntries(fv)
				victim := es[rng.Intn(len(es))].entry.Pointer()
				it := fv.MapRange()
				for it.Next() {
					if it.Value().Pointer() == victim {
						fv.SetMapIndex(it.Key(), reflect.Value{})
						break
					}
				}
				if fv.Len() == 0 {
					fv.Set(reflect.Zero(ft))
				}
				return "entry-delete"
			case r == 9 && !fv.IsNil():
				fv.Set(reflect.Zero(ft))
				return "list-unset"
			}
		case ce.IsList():
			if allowUnkeyed && rng.Intn(3) == 0 {
				g.setField(st.sp, fv, sf, ce, st.depth)
				if r := changed("unkeyed-set"); r != "" {
					return r
				}
			}
		case ce.IsDir() && ft.Kind() == reflect.Ptr:
			if fv.IsNil() {
				g.setField(st.sp, fv, sf, ce, st.depth)
				if r := changed("container-create"); r != "" {
					return r
				}
			} else if rng.Intn(4) == 0 {
				fv.Set(reflect.Zero(ft))
				return "container-delete"
			}
		}
	}
	return ""
}

// ---------------------------------------------------------------- observed output

func dfTvalTerm(v *gpb.TypedValue) string {
	if v == nil {
		return "TVNil"
	}
	switch x := v.Value.(type) {
	case *gpb.TypedValue_StringVal:
		return "(TVString " + coqStr(x.StringVal) + ")"
	case *gpb.TypedValue_IntVal:
		return "(TVInt " + coqZ(x.IntVal) + ")"
	case *gpb.TypedValue_UintVal:
		return "(TVUint " + coqZu(x.UintVal) + ")"
	case *gpb.TypedValue_BoolVal:
		return "(TVBool " + coqBool(x.BoolVal) + ")"
	case *gpb.TypedValue_BytesVal:
		return "(TVBytes " + bytesTerm(x.BytesVal) + ")"
	case *gpb.TypedValue_DoubleVal:
		return fmt.Sprintf("(TVDouble %d)", noteFloat(x.DoubleVal))
	case *gpb.TypedValue_LeaflistVal:
		var items []string
		for _, e := range x.LeaflistVal.GetElement() {
			items = append(items, dfTvalTerm(e))
		}
		return "(TVLeafList " + coqList(items) + ")"
	}
	return "(TVAscii " + coqStr(fmt.Sprintf("?%v", v)) + ")"
}

type dfUpd struct{ path, val string }
type dfGroup struct {
	prefix string
	list   string // prefix + name of the first element of the first update: the ordered list
	ups    []dfUpd
}

// dfObserved is the canonical content of the returned notifications.
type dfObserved struct {
	deletes []string
	updates []dfUpd
	groups  []dfGroup
	bad     string // a path that PathToString rejects
}

func dfPathStr(p *gpb.Path, o *dfObserved) string {
	s, err := ygot.PathToString(p)
	if err != nil {
		o.bad = err.Error()
	}
	return s
}

func dfObserve(ns []*gpb.Notification) *dfObserved {
	o := &dfObserved{}
	for _, n := range ns {
		if n == nil {
			continue
		}
		if n.Atomic {
			g := dfGroup{prefix: dfPathStr(n.Prefix, o)}
			if n.Prefix == nil || len(n.Prefix.Elem) == 0 {
				g.prefix = "/"
			}
			for _, u := range n.Update {
				g.ups = append(g.ups, dfUpd{dfPathStr(u.Path, o), dfTvalTerm(u.Val)})
			}
			if len(n.Update) > 0 {
				g.list = dfListKey(g.prefix, n.Update[0].Path)
			}
			o.groups = append(o.groups, g)
			continue
		}
		for _, d := range n.Delete {
			if len(d.Elem) == 0 {
				o.deletes = append(o.deletes, "/")
			} else {
				o.deletes = append(o.deletes, dfPathStr(d, o))
			}
		}
		for _, u := range n.Update {
			o.updates = append(o.updates, dfUpd{dfPathStr(u.Path, o), dfTvalTerm(u.Val)})
		}
	}
	sort.Strings(o.deletes)
	sort.Slice(o.updates, func(i, j int) bool { return o.updates[i].path < o.updates[j].path })
	gk := func(g dfGroup) string {
		k := g.prefix + "\x00"
		if len(g.ups) > 0 {
			k += g.ups[0].path
		}
		return k
	}
	sort.SliceStable(o.groups, func(i, j int) bool { return gk(o.groups[i]) < gk(o.groups[j]) })
	return o
}

func dfUpdsTerm(us []dfUpd) string {
	items := make([]string, len(us))
	for i, u := range us {
		items[i] = "(" + coqStr(u.path) + ", " + u.val + ")"
	}
	return coqList(items)
}

func (o *dfObserved) term() string {
	var gs []string
	for _, g := range o.groups {
		gs = append(gs, "("+coqStr(g.prefix)+", "+dfUpdsTerm(g.ups)+")")
	}
	return fmt.Sprintf("{| en_deletes := %s; en_updates := %s; en_atomic := %s |}", coqStrList(o.deletes), dfUpdsTerm(o.updates), coqList(gs))
}

type dfMode struct{ atomic, ia, single, shadow bool }

func (m dfMode) String() string {
	s := "Diff"
	if m.atomic {
		s = "DiffWithAtomic"
	}
	if m.ia {
		s += "+IgnoreAdditions"
	}
	if m.single {
		s += "+MapToSinglePath"
	}
	if m.shadow {
		s += "+PreferShadowPath"
	}
	return s
}

func (m dfMode) opts() []ygot.DiffOpt {
	var o []ygot.DiffOpt
	if m.ia {
		o = append(o, &ygot.IgnoreAdditions{})
	}
	if m.single || m.shadow {
		o = append(o, &ygot.DiffPathOpt{MapToSinglePath: m.single, PreferShadowPath: m.shadow})
	}
	return o
}

func (m dfMode) plainPaths() bool { return !m.single && !m.shadow }

func dfCall(a, b ygot.GoStruct, m dfMode) (ns []*gpb.Notification, err error, panicked bool) {
	defer func() {
		if r := recover(); r != nil {
			ns, err, panicked = nil, fmt.Errorf("panic: %v", r), true
		}
	}()
	if m.atomic {
		ns, err = ygot.DiffWithAtomic(a, b, m.opts()...)
		return ns, err, false
	}
	n, err := ygot.Diff(a, b, m.opts()...)
	if err != nil {
		return nil, err, false
	}
	return []*gpb.Notification{n}, nil, false
}

func dfRunTerm(m dfMode, ns []*gpb.Notification, err error, pan bool) (string, *dfObserved) {
	out := coqErr
	var obs *dfObserved
	switch {
	case pan:
		out = coqPanic
	case err == nil:
		obs = dfObserve(ns)
		out = coqOk(obs.term())
	}
	return fmt.Sprintf("{| r_atomic := %s; r_opts := {| o_ignore_add := %s; o_single := %s; o_shadow := %s |}; r_out := %s |}",
		coqBool(m.atomic), coqBool(m.ia), coqBool(m.single), coqBool(m.shadow), out), obs
}

// ---------------------------------------------------------------- reference leaf sets

type dfRef struct {
	leaves map[string]string // path string -> value term, from TogNMINotifications
	seqs   map[string]string // ordered list path (names and keys of the enclosing nodes) -> its leaves in order
	err    error
}

func dfJoin(prefix, p *gpb.Path) string {
	j := &gpb.Path{}
	if prefix != nil {
		j.Elem = append(j.Elem, prefix.Elem...)
	}
	j.Elem = append(j.Elem, p.Elem...)
	if len(j.Elem) == 0 {
		return "/"
	}
	s, err := ygot.PathToString(j)
	if err != nil {
		return "?" + err.Error()
	}
	return s
}

func dfListKey(prefix string, first *gpb.Path) string {
	name := ""
	if first != nil && len(first.Elem) > 0 {
		name = first.Elem[0].Name
	}
	if prefix == "/" {
		return "/" + name
	}
	return prefix + "/" + name
}

func dfRefOf(t ygot.GoStruct) (r *dfRef) {
	r = &dfRef{leaves: map[string]string{}, seqs: map[string]string{}}
	defer func() {
		if x := recover(); x != nil {
			r.err = fmt.Errorf("panic: %v", x)
		}
	}()
	ns, err := ygot.TogNMINotifications(t, 0, ygot.GNMINotificationsConfig{UsePathElem: true})
	if err != nil {
		r.err = err
		return r
	}
	for _, n := range ns {
		var seq []string
		for _, u := range n.Update {
			k := dfJoin(n.Prefix, u.Path)
			r.leaves[k] = dfTvalTerm(u.Val)
			seq = append(seq, k+"="+dfTvalTerm(u.Val))
		}
		if n.Atomic && len(n.Update) > 0 {
			r.seqs[dfListKey(dfJoin(n.Prefix, &gpb.Path{}), n.Update[0].Path)] = strings.Join(seq, ";")
		}
	}
	return r
}

// dfZeroUnionKeys maps the leafMapOf key of every union (interface) leaf that holds a
// simple-union member equal to its Go zero value to the gNMI path string of that leaf.
func dfZeroUnionKeys(v reflect.Value, prefix string, elems []*gpb.PathElem, out map[string]string) {
	if v.Kind() == reflect.Interface {
		v = v.Elem()
	}
	if v.Kind() != reflect.Ptr || v.IsNil() {
		return
	}
	s := v.Elem()
	withKeys := func(es []*gpb.PathElem, entry reflect.Value) []*gpb.PathElem {
		out := append([]*gpb.PathElem{}, es...)
		last := &gpb.PathElem{Name: es[len(es)-1].Name}
		if kh, ok := entry.Interface().(ygot.KeyHelperGoStruct); ok {
			if km, err := kh.ΛListKeyMap(); err == nil {
				last.Key = map[string]string{}
				for n, kv := range km {
					ks, _ := ygot.KeyValueAsString(kv)
					last.Key[n] = ks
				}
			}
		}
		out[len(out)-1] = last
		return out
	}
	for i := 0; i < s.NumField(); i++ {
		sf := s.Type().Field(i)
		tag, ok := sf.Tag.Lookup("path")
		if !ok {
			continue
		}
		alt := strings.Split(tag, "|")[0]
		p := prefix + "/" + alt
		es := append([]*gpb.PathElem{}, elems...)
		for _, n := range strings.Split(alt, "/") {
			if n != "" {
				es = append(es, &gpb.PathElem{Name: n})
			}
		}
		fv, ft := s.Field(i), sf.Type
		switch {
		case isOrderedMapType(ft):
			if fv.IsNil() {
				continue
			}
			for _, e := range orderedEntries(fv.Interface().(ygot.GoOrderedMap)) {
				kp := keyPredicate(keyNamesOf(entryTypeOfOrderedMap(ft), nil, true, len(e.keys)), e.keys)
				dfZeroUnionKeys(e.entry, p+kp, withKeys(es, e.entry), out)
			}
		case ft.Kind() == reflect.Map:
			it := fv.MapRange()
			for it.Next() {
				ks := keyValues(it.Key())
				kp := keyPredicate(keyNamesOf(ft.Elem().Elem(), ft.Key(), false, len(ks)), ks)
				dfZeroUnionKeys(it.Value(), p+kp, withKeys(es, it.Value()), out)
			}
		case ft.Kind() == reflect.Ptr && ft.Elem().Kind() == reflect.Struct:
			dfZeroUnionKeys(fv, p, es, out)
		case ft.Kind() == reflect.Interface:
			if !fv.IsNil() && fv.Elem().Kind() != reflect.Ptr && fv.Elem().Kind() != reflect.Slice && fv.Elem().IsZero() {
				ps, err := ygot.PathToString(&gpb.Path{Elem: es})
				if err != nil {
					ps = "?"
				}
				out[p] = ps
			}
		}
	}
}

// dfNamesOnly drops key predicates: "/a/l[k=x]/b" -> "/a/l/b" (predicates of leafMapOf keys are
// Coq terms, those of path strings are texts; neither contains an unescaped ']' followed by '/').
func dfNamesOnly(s string) string {
	var b strings.Builder
	depth := 0
	for i := 0; i < len(s); i++ {
		c := s[i]
		switch {
		case c == '\\' && depth > 0 && i+1 < len(s):
			i++
		case c == '[' && depth == 0 && i > 0 && s[i-1] != '/':
			depth = 1
		case c == '[' && depth > 0:
			depth++
		case c == ']' && depth > 0:
			depth--
			// "][" continues the predicates
		case depth == 0:
			if c == '#' {
				return b.String()
			}
			b.WriteByte(c)
		}
	}
	return b.String()
}

// ---------------------------------------------------------------- the oracle

type dfPair struct {
	pkg     *reg.Pkg
	a, b    ygot.ValidatedGoStruct
	ops     []string
	input   map[string]interface{}
	refA    *dfRef
	refB    *dfRef
	zeroA   map[string]string // leafMapOf key -> path string of the zero-valued union leaves
	zeroB   map[string]string
	ambig   bool
	history bool // classification of the end result of a history: a and b are not the trees of one call
	unkeyed bool
}

func dfFilterLeafMap(m map[string]string, atomic bool) map[string]string {
	out := map[string]string{}
	for k, v := range m {
		if strings.HasSuffix(k, "#presence") {
			continue // not a leaf: Diff does not (and is not required to) carry presence
		}
		if strings.HasSuffix(k, "#order") && (!atomic || v == "") {
			continue // plain Diff is documented not to convey the order of ordered lists; an empty ordered map has no leaves
		}
		if strings.HasSuffix(k, "#entry") {
			continue // an entry is witnessed by its key leaves
		}
		out[k] = v
	}
	return out
}

// dfClassify names the cause of every path on which the result of applying a diff differs
// from the target.
func dfClassify(pr *dfPair, m dfMode, obs *dfObserved, bad []string, got, want map[string]string) map[string][]string {
	causes := map[string][]string{}
	leafA := map[string]string{}
	if pr.a != nil {
		leafA = leafMapOf(pr.a)
	}
	var wipes []string
	if obs != nil && m.atomic {
		for _, g := range obs.groups {
			wipes = append(wipes, dfNamesOnly(g.prefix))
		}
		for _, d := range obs.deletes {
			wipes = append(wipes, dfNamesOnly(d))
		}
	}
	for _, k := range bad {
		base := strings.TrimSuffix(strings.TrimSuffix(k, "#order"), "#entry")
		sig := "diff/apply-mismatch"
		// did the notifications mention this leaf (of b) at all?
		psB, zB := pr.zeroB[base]
		_, zA := pr.zeroA[base]
		mentioned := false
		if obs != nil && zB {
			for _, u := range obs.updates {
				if u.path == psB {
					mentioned = true
				}
			}
			for _, g := range obs.groups {
				for _, u := range g.ups {
					if strings.TrimSuffix(g.prefix, "/")+u.path == psB {
						mentioned = true
					}
				}
			}
		}
		underWipe := false
		nk := dfNamesOnly(k)
		for _, w := range wipes {
			if w == "/" || w == "" || nk == w || strings.HasPrefix(nk, w+"/") {
				underWipe = true
			}
		}
		switch {
		case sameNumberOtherKind(got[k], want[k]):
			// a union with two integer members: the uint_val / int_val of the update does not say which
			sig = "diff/union-integer-member-not-conveyed"
		case underWipe && got[k] == "" && want[k] != "":
			// the leaf is below the container an atomic notification deletes and is not re-sent in it
			sig = "diff/atomic-container-overreach"
		case pr.history && underWipe:
			sig = "diff/atomic-container-overreach"
		case (zB && !mentioned && !(zA && leafA[k] == want[k])) || (zA && !zB) || (pr.history && (zA || zB)):
			// b's value is invisible to findSetLeaves (no update, or a delete instead), or a's is (no delete)
			sig = "diff/zero-valued-union"
		case pr.ambig && strings.Contains(k, "/l-un"):
			sig = "diff/key-string-ambiguous"
		case strings.Contains(k, "[key0=(VEnum ") && got[k] != "" && want[k] == "":
			// the key leaf of an enum-keyed entry was deleted before its siblings (map order)
			sig = "diff/key-leaf-delete-order"
		case underWipe:
			sig = "diff/atomic-container-overreach"
		}
		causes[sig] = append(causes[sig], k)
	}
	return causes
}

func dfApplyErrSig(err error) string {
	s := err.Error()
	switch {
	case strings.Contains(s, "failed to convert <nil> to a string"):
		return "diff/key-leaf-delete-order"
	case strings.Contains(s, "into empty"):
		return "diff/apply-error/empty-leaf"
	case strings.Contains(s, "l-unkeyed") || strings.Contains(s, "keyless"):
		return "diff/apply-error/unkeyed-list"
	}
	return "diff/apply-error"
}

// dfApply applies notifications to cur with the real UnmarshalNotifications.
func dfApply(p *reg.Pkg, cur ygot.ValidatedGoStruct, ns []*gpb.Notification, m dfMode) (err error) {
	defer func() {
		if r := recover(); r != nil {
			err = fmt.Errorf("panic: %v", r)
		}
	}()
	sch, err := dfSchemaFor(p, cur)
	if err != nil {
		return err
	}
	var opts []ytypes.UnmarshalOpt
	if m.shadow {
		opts = append(opts, &ytypes.PreferShadowPath{})
	}
	var nn []*gpb.Notification
	for _, n := range ns {
		if n != nil {
			nn = append(nn, n)
		}
	}
	if os.Getenv("YDRIVE_DEBUG") != "" {
		for _, n := range nn {
			fmt.Fprintln(os.Stderr, "dfApply notification:", n)
		}
	}
	return ytypes.UnmarshalNotifications(sch, nn, opts...)
}

func dfInputWith(in map[string]interface{}, m dfMode) map[string]interface{} {
	out := map[string]interface{}{}
	for k, v := range in {
		out[k] = v
	}
	out["call"] = m.String()
	return out
}

func dfSetOf(us []dfUpd) map[string]string {
	m := map[string]string{}
	for _, u := range us {
		m[u.path] = u.val
	}
	return m
}

// dfOracle evaluates the property on one call.
func dfOracle(sum *Summary, pr *dfPair, m dfMode, ns []*gpb.Notification, obs *dfObserved) {
	in := dfInputWith(pr.input, m)
	// (1) applying the notifications to a copy of a gives b
	if !m.ia {
		sum.OracleRuns++
		cur, ok := dfCopy(pr.pkg, pr.a)
		if ok {
			if err := dfApply(pr.pkg, cur, ns, m); err != nil {
				sum.finding(Finding{Signature: dfApplyErrSig(err), What: "UnmarshalNotifications rejects the notifications of " + m.String() + ": " + err.Error(), Input: in})
			} else {
				got, want := dfFilterLeafMap(leafMapOf(cur), m.atomic), dfFilterLeafMap(leafMapOf(pr.b), m.atomic)
				if bad := leafMapDiff(got, want, 1000); len(bad) > 0 {
					for sig, ks := range dfClassify(pr, m, obs, bad, got, want) {
						if len(ks) > 6 {
							ks = ks[:6]
						}
						sum.finding(Finding{Signature: sig, What: "applying " + m.String() + "(a,b) to a copy of a does not give b; differing leaves: " + strings.Join(ks, " "), Input: in,
							Observed: map[string]string{"got": got[ks[0]], "want": want[ks[0]]}})
					}
				}
			}
		}
	}
	// (2) every update and delete is justified
	if m.plainPaths() && pr.refA.err == nil && pr.refB.err == nil {
		sum.OracleRuns++
		for _, u := range obs.updates {
			bv, inB := pr.refB.leaves[u.path]
			av, inA := pr.refA.leaves[u.path]
			if !inB || bv != u.val || (inA && av == u.val) {
				sum.finding(Finding{Signature: "diff/unjustified-update", What: fmt.Sprintf("%s: update %s=%s, a has %q, b has %q", m.String(), u.path, u.val, av, bv), Input: in})
			}
		}
		for _, d := range obs.deletes {
			_, inA := pr.refA.leaves[d]
			_, inB := pr.refB.leaves[d]
			if m.atomic && !inA {
				// the delete of an ordered list names its enclosing container
				just := false
				for k := range pr.refA.seqs {
					parent := k[:strings.LastIndex(k, "/")]
					if parent == "" {
						parent = "/"
					}
					if _, stillThere := pr.refB.seqs[k]; parent == d && !stillThere {
						just = true
					}
				}
				if just {
					continue
				}
			}
			if !inA || inB {
				sig := "diff/unjustified-delete"
				if inB {
					for _, ps := range pr.zeroB {
						if ps == d {
							sig = "diff/zero-valued-union"
						}
					}
				}
				sum.finding(Finding{Signature: sig, What: fmt.Sprintf("%s: delete %s, set in a: %v, set in b: %v", m.String(), d, inA, inB), Input: in})
			}
		}
		for _, g := range obs.groups {
			lk := g.list
			if pr.refA.seqs[lk] == pr.refB.seqs[lk] {
				sum.finding(Finding{Signature: "diff/atomic-update-without-leaf-change", What: m.String() + ": atomic notification for the ordered list " + lk + " whose leaves and order are the same in a and b (the ordered maps differ for reflect.DeepEqual only, e.g. by an empty container in an entry)", Input: in})
			}
		}
	}
}

// dfIgnoreAdditionsLaw: with IgnoreAdditions exactly the leaves new in b are missing.
func dfIgnoreAdditionsLaw(sum *Summary, pr *dfPair, atomic bool, full, ia *dfObserved) {
	if full == nil || ia == nil || pr.refA.err != nil {
		return
	}
	sum.OracleRuns++
	m := dfMode{atomic: atomic, ia: true}
	in := dfInputWith(pr.input, m)
	want := map[string]string{}
	for _, u := range full.updates {
		if _, inA := pr.refA.leaves[u.path]; inA {
			want[u.path] = u.val
		}
	}
	got := dfSetOf(ia.updates)
	okk := len(got) == len(want) && strings.Join(full.deletes, "\n") == strings.Join(ia.deletes, "\n")
	for k, v := range want {
		if got[k] != v {
			okk = false
		}
	}
	var wantG []string
	for _, g := range full.groups {
		if _, inA := pr.refA.seqs[g.list]; inA && len(g.ups) > 0 {
			wantG = append(wantG, g.prefix+dfUpdsTerm(g.ups))
		}
	}
	var gotG []string
	for _, g := range ia.groups {
		gotG = append(gotG, g.prefix+dfUpdsTerm(g.ups))
	}
	if strings.Join(wantG, "\n") != strings.Join(gotG, "\n") {
		okk = false
	}
	if !okk {
		// zero-valued union members make a leaf of a invisible: it then counts as an addition
		sig := "diff/ignore-additions"
		for _, ps := range pr.zeroA {
			for _, u := range full.updates {
				if ps == u.path {
					sig = "diff/zero-valued-union"
				}
			}
		}
		sum.finding(Finding{Signature: sig, What: "IgnoreAdditions does not omit exactly the updates whose leaf is new in b", Input: in})
	}
}

// dfMinimal: Diff(a,a) and Diff(a, copy of a) are empty.
func dfMinimal(sum *Summary, pr *dfPair) {
	for _, atomic := range []bool{false, true} {
		m := dfMode{atomic: atomic}
		for _, other := range []ygot.GoStruct{pr.a, nil} {
			o := other
			if o == nil {
				c, ok := dfCopy(pr.pkg, pr.a)
				if !ok {
					continue
				}
				o = c
			}
			sum.OracleRuns++
			ns, err, pan := dfCall(pr.a, o, m)
			if pan || err != nil {
				if !pr.unkeyed {
					sum.finding(Finding{Signature: "diff/error", What: fmt.Sprintf("%s(a,a) fails: %v", m.String(), err), Input: dfInputWith(pr.input, m)})
				}
				continue
			}
			if obs := dfObserve(ns); len(obs.deletes)+len(obs.updates)+len(obs.groups) > 0 {
				sum.finding(Finding{Signature: "diff/nonminimal", What: m.String() + "(a,a) is not empty", Input: dfInputWith(pr.input, m), Observed: obs.term()})
			}
		}
	}
}

// ---------------------------------------------------------------- the stream

func dfHasUnkeyed(t ygot.GoStruct) bool { return strings.Contains(treeTerm(t), "(TUnkeyed ") }

func dfNewPair(p *reg.Pkg, a, b ygot.ValidatedGoStruct, ops []string, input map[string]interface{}) *dfPair {
	pr := &dfPair{pkg: p, a: a, b: b, ops: ops, input: input, zeroA: map[string]string{}, zeroB: map[string]string{}}
	pr.refA, pr.refB = dfRefOf(a), dfRefOf(b)
	dfZeroUnionKeys(reflect.ValueOf(a), "", nil, pr.zeroA)
	dfZeroUnionKeys(reflect.ValueOf(b), "", nil, pr.zeroB)
	for _, o := range ops {
		if o == "ambiguous-key" {
			pr.ambig = true
		}
	}
	pr.unkeyed = dfHasUnkeyed(a) || dfHasUnkeyed(b)
	return pr
}

type dfState struct {
	sum   *Summary
	files map[string]*caseFile
	order []string
	id    int
	seen  map[string]bool
}

func (st *dfState) cf(name string) *caseFile {
	if c, ok := st.files[name]; ok {
		return c
	}
	c := &caseFile{typ: "dcase", fn: "dmismatches sch env kft"}
	st.files[name] = c
	st.order = append(st.order, name)
	return c
}

// dfDoPair runs the calls of one pair, writes its case and evaluates the oracle.
func (st *dfState) dfDoPair(pr *dfPair, modes []dfMode, minimal bool) map[dfMode][]*gpb.Notification {
	sum := st.sum
	ta, tb := treeTerm(pr.a), treeTerm(pr.b)
	var runs []string
	obsOf := map[dfMode]*dfObserved{}
	nsOf := map[dfMode][]*gpb.Notification{}
	for i, m := range modes {
		ns, err, pan := dfCall(pr.a, pr.b, m)
		rt, obs := dfRunTerm(m, ns, err, pan)
		// all calls are judged by the oracle; to keep the case files small only half of the four
		// basic calls of a pair is handed to the model (alternating), the rarer ones always
		if i >= 4 || len(modes) < 4 || (i+st.id)%2 == 0 || err != nil {
			runs = append(runs, rt)
			sum.count("compared_call", m.String())
		}
		sum.count("call", m.String())
		switch {
		case pan:
			sum.count("outcome", "panic")
			sum.finding(Finding{Signature: "diff/panic", What: m.String() + " panics: " + err.Error(), Input: dfInputWith(pr.input, m)})
		case err != nil:
			sum.count("outcome", "error")
			sig := "diff/error"
			if pr.unkeyed && strings.Contains(err.Error(), "in leaflist") {
				sig = "diff/error/unkeyed-list"
			}
			sum.finding(Finding{Signature: sig, What: m.String() + " fails on two trees of the same type: " + err.Error(), Input: dfInputWith(pr.input, m)})
		default:
			sum.count("outcome", "ok")
			obsOf[m], nsOf[m] = obs, ns
			if obs.bad != "" {
				sum.finding(Finding{Signature: "diff/unprintable-path", What: "a notification path is rejected by PathToString: " + obs.bad, Input: dfInputWith(pr.input, m)})
			}
			dfOracle(sum, pr, m, ns, obs)
		}
	}
	for _, atomic := range []bool{false, true} {
		dfIgnoreAdditionsLaw(sum, pr, atomic, obsOf[dfMode{atomic: atomic}], obsOf[dfMode{atomic: atomic, ia: true}])
	}
	if minimal {
		dfMinimal(sum, pr)
	}
	st.cf(pr.pkg.Name).add(fmt.Sprintf("DPair %d %s %s %s %s", st.id, coqBool(pr.pkg.Flags["wrapper_unions"]), ta, tb, coqList(runs)))
	st.id++
	for _, o := range pr.ops {
		sum.count("edit", o)
	}
	if o := obsOf[dfMode{}]; o != nil {
		sum.count("plain_diff_size", fmt.Sprintf("%02d+", (len(o.deletes)+len(o.updates))/5*5))
		key := ta + "|" + tb
		if !st.seen[key] {
			st.seen[key] = true
			if len(pr.refA.leaves) >= 6 && len(o.updates)+len(o.deletes) >= 2 {
				sum.Nontrivial++
			}
		}
	}
	if o := obsOf[dfMode{atomic: true}]; o != nil {
		sum.count("atomic_groups", strconv.Itoa(len(o.groups)))
	}
	return nsOf
}

func dfModesFor(rng *rand.Rand, p *reg.Pkg) []dfMode {
	modes := []dfMode{{}, {ia: true}, {atomic: true}, {atomic: true, ia: true}}
	if rng.Intn(4) == 0 {
		modes = append(modes, dfMode{single: true}, dfMode{atomic: true, single: true})
	}
	if p.Flags["shadow"] && rng.Intn(2) == 0 {
		modes = append(modes, dfMode{shadow: true}, dfMode{atomic: true, shadow: true, single: rng.Intn(2) == 0})
	}
	return modes
}

// dfGenPair builds (a, b) from a case seed: a random tree and a mutated JSON copy of it.
func dfGenPair(p *reg.Pkg, caseSeed int64) (a, b ygot.ValidatedGoStruct, ops []string, ok bool) {
	rng := rand.New(rand.NewSource(caseSeed))
	g := newTreeGen(rng, p)
	g.nastyStr = rng.Intn(3) == 0
	g.pField, g.maxList = 0.35, 2 // smaller trees than the render streams: two trees per case
	switch rng.Intn(8) {
	case 0:
		g.pField = 0.75
	case 1, 2:
		g.pField = 0.15
	}
	allowUnkeyed := rng.Intn(25) == 0
	for try := 0; try < 10; try++ {
		a = g.genTree()
		if !allowUnkeyed {
			dfDropUnkeyed(reflect.ValueOf(a))
		}
		c, cok := dfCopy(p, a)
		if !cok {
			continue
		}
		b = c
		g.root = b
		k := 1 + rng.Intn(5)
		if rng.Intn(8) == 0 {
			k = 0
		}
		rootE := dfRootEntry(p)
		for i := 0; i < k; i++ {
			if op := dfMutate(g, b, rootE, allowUnkeyed); op != "" {
				ops = append(ops, op)
			}
		}
		if !allowUnkeyed {
			dfDropUnkeyed(reflect.ValueOf(b))
		}
		return a, b, ops, true
	}
	return nil, nil, nil, false
}

// dfDropUnkeyed unsets every unkeyed list (they cannot be addressed by a gNMI path).
func dfDropUnkeyed(v reflect.Value) {
	if v.Kind() == reflect.Interface {
		v = v.Elem()
	}
	if v.Kind() != reflect.Ptr || v.IsNil() {
		return
	}
	s := v.Elem()
	for i := 0; i < s.NumField(); i++ {
		fv, ft := s.Field(i), s.Type().Field(i).Type
		switch {
		case isOrderedMapType(ft):
			if !fv.IsNil() {
				for _, e := range orderedEntries(fv.Interface().(ygot.GoOrderedMap)) {
					dfDropUnkeyed(e.entry)
				}
			}
		case ft.Kind() == reflect.Map:
			it := fv.MapRange()
			for it.Next() {
				dfDropUnkeyed(it.Value())
			}
		case ft.Kind() == reflect.Ptr && ft.Elem().Kind() == reflect.Struct:
			dfDropUnkeyed(fv)
		case ft.Kind() == reflect.Slice && ft.Elem().Kind() == reflect.Ptr && ft.Elem().Elem().Kind() == reflect.Struct:
			fv.Set(reflect.Zero(ft))
		}
	}
}

func dfPairInput(p *reg.Pkg, kind string, caseSeed int64, a, b ygot.GoStruct, ops []string) map[string]interface{} {
	ja, _ := dfJSON(a)
	jb, _ := dfJSON(b)
	return map[string]interface{}{"pkg": p.Name, "kind": kind, "case_seed": caseSeed, "a": ja, "b": jb, "edits": ops}
}

// dfCrafted: fixed witnesses (package vmain_u) given as RFC 7951 JSON.
var dfCrafted = [][2]string{
	{`{}`, `{"v-main:top":{"scalars":{"un":""}}}`},
	{`{"v-main:top":{"scalars":{"un":"x","un2":7}}}`, `{"v-main:top":{"scalars":{"un":"","un2":0}}}`},
	{`{"v-main:top":{"scalars":{"un2":false,"i8":1}}}`, `{"v-main:top":{"scalars":{"un2":true,"i8":1}}}`},
	{`{"v-main:top":{"nest":{"b":3},"l-ord":[{"k":"a","v":1},{"k":"b"}]}}`, `{"v-main:top":{"nest":{"b":3},"l-ord":[{"k":"b"},{"k":"a","v":1}]}}`},
	{`{"v-main:top":{"nest":{"b":3},"l-ord":[{"k":"a","v":1}]}}`, `{"v-main:top":{"nest":{"b":3}}}`},
	{`{"v-main:top":{"l-ord-parent":[{"k":"p","ord-inner":[{"j":"x","w":1},{"j":"y"}]}]}}`, `{"v-main:top":{"l-ord-parent":[{"k":"p","ord-inner":[{"j":"y"},{"j":"x","w":2}]}]}}`},
	{`{"v-main:top":{"l-str":[{"k":"a","v":1},{"k":"b"}]}}`, `{"v-main:top":{"l-str":[{"k":"b","v":2}]}}`},
	{`{}`, `{"v-main:top":{"scalars":{"e":[null],"bin":""}}}`},
	{`{"v-main:top":{"l-dec":[{"k":"0.00001","v":"x"}]}}`, `{"v-main:top":{"l-dec":[{"k":"0.00001","v":"y"},{"k":"1.5"}]}}`},
	{`{"v-main:top":{"l-unkeyed":[{"a":"x"}]}}`, `{"v-main:top":{"l-unkeyed":[{"a":"y"}]}}`},
	{`{"v-main:top":{"l-unkeyed":[{"a":"x"},{"a":"y"},{"a":"z","b":1}],"nest":{"b":1}}}`, `{"v-main:top":{"l-unkeyed":[{"a":"x"},{"a":"y"},{"a":"z","b":1}],"nest":{"b":2}}}`},
}

func dfFromJSON(p *reg.Pkg, js string) ygot.ValidatedGoStruct {
	r := p.NewRoot()
	if err, pan := safeUnmarshal(p, []byte(js), r); err != nil || pan {
		return nil
	}
	return r
}

type dfReplay struct {
	Case struct {
		Pkg      string `json:"pkg"`
		Kind     string `json:"kind"`
		CaseSeed int64  `json:"case_seed"`
		A        string `json:"a"`
		B        string `json:"b"`
		Index    int    `json:"index"`
	} `json:"case"`
}

func dfStream(rng *rand.Rand, n int, tier string, out string) (*Summary, error) {
	sum := &Summary{Rule: "pairs (a, b): a random schema-conforming tree of every generated package and a copy of it (through RFC 7951 JSON) with 0-5 random edits " +
		"(leaf set/unset, zero-valued union member, leaf-list, container create/delete, list entry insert/delete, union key that reads like another member, " +
		"ordered-list reorder/insert/delete), plus version histories of length 2-6 and fixed witnesses; Diff and DiffWithAtomic, each with and without " +
		"IgnoreAdditions and sometimes DiffPathOpt, are compared with the model; oracle: UnmarshalNotifications on a copy of a gives b, every update/delete " +
		"justified against TogNMINotifications, Diff(a,a) empty, IgnoreAdditions law, histories. Non-trivial: a has >= 6 leaves and the plain diff has at least two entries; distinct by (a,b)."}
	st := &dfState{sum: sum, files: map[string]*caseFile{}, seen: map[string]bool{}}
	names := reg.Names()

	finish := func() (*Summary, error) {
		var files []string
		// the table of KeyValueAsString(float64) for every float met in the run
		var kft []string
		bits := make([]uint64, 0, len(floatsSeen))
		for b := range floatsSeen {
			bits = append(bits, b)
		}
		sort.Slice(bits, func(i, j int) bool { return bits[i] < bits[j] })
		for _, b := range bits {
			kft = append(kft, fmt.Sprintf("(%d,%s)", b, coqStr(keyFloatText(math.Float64frombits(b)))))
		}
		for _, name := range st.order {
			p := reg.Get(name)
			sch, env := schemaTerm(p)
			c := st.files[name]
			c.header = "From Ygot Require Import Tree.Tree Tree.Codec Tree.Diff Corr.DiffCorr.\nOpen Scope N_scope.\n" +
				"Definition sch : schema := " + sch + ".\nDefinition env : enum_env := " + env + ".\n" +
				"Definition kft : list (N * str) := " + coqList(kft) + "."
			fs, err := c.write(out, "diff_"+name, 45)
			if err != nil {
				return nil, err
			}
			files = append(files, fs...)
		}
		sum.Cases = st.id
		sum.Extra = map[string]interface{}{"case_files": files}
		return sum, nil
	}

	if replayFile != "" {
		b, err := os.ReadFile(replayFile)
		if err != nil {
			return nil, err
		}
		var rp dfReplay
		if err := json.Unmarshal(b, &rp); err != nil {
			return nil, err
		}
		p := reg.Get(rp.Case.Pkg)
		if p == nil {
			return nil, fmt.Errorf("replay: unknown package %q", rp.Case.Pkg)
		}
		switch rp.Case.Kind {
		case "history":
			st.dfHistory(p, rp.Case.CaseSeed)
		case "pair":
			if a, bb, ops, ok := dfGenPair(p, rp.Case.CaseSeed); ok {
				pr := dfNewPair(p, a, bb, ops, dfPairInput(p, "pair", rp.Case.CaseSeed, a, bb, ops))
				st.dfDoPair(pr, []dfMode{{}, {ia: true}, {atomic: true}, {atomic: true, ia: true}, {single: true}, {atomic: true, single: true}, {shadow: true}, {atomic: true, shadow: true}}, true)
			}
		default:
			a, bb := dfFromJSON(p, rp.Case.A), dfFromJSON(p, rp.Case.B)
			if a == nil || bb == nil {
				return nil, fmt.Errorf("replay: trees do not parse")
			}
			in := map[string]interface{}{"pkg": p.Name, "kind": "json", "a": rp.Case.A, "b": rp.Case.B}
			st.dfDoPair(dfNewPair(p, a, bb, nil, in), []dfMode{{}, {ia: true}, {atomic: true}, {atomic: true, ia: true}}, true)
		}
		return finish()
	}

	// fixed witnesses
	if p := reg.Get("vmain_u"); p != nil {
		for _, c := range dfCrafted {
			a, b := dfFromJSON(p, c[0]), dfFromJSON(p, c[1])
			if a == nil || b == nil {
				continue
			}
			in := map[string]interface{}{"pkg": p.Name, "kind": "json", "a": c[0], "b": c[1]}
			st.dfDoPair(dfNewPair(p, a, b, []string{"crafted"}, in), []dfMode{{}, {ia: true}, {atomic: true}, {atomic: true, ia: true}}, true)
		}
	}
	budget := n - st.id
	nHist := budget / 12 // histories produce ~3.5 pairs each
	nPairs := budget - nHist*7/2
	if tier == "thorough" {
		nHist = budget / 8
	}
	for i := 0; i < nPairs; i++ {
		p := reg.Get(names[i%len(names)])
		seed := rng.Int63()
		a, b, ops, ok := dfGenPair(p, seed)
		if !ok {
			sum.count("skipped", "copy-not-faithful")
			continue
		}
		pr := dfNewPair(p, a, b, ops, dfPairInput(p, "pair", seed, a, b, ops))
		st.dfDoPair(pr, dfModesFor(rng, p), i%3 == 0)
		if len(sum.Samples) < 5 && len(ops) > 0 {
			sum.sample(pr.input)
		}
	}
	for i := 0; i < nHist; i++ {
		st.dfHistory(reg.Get(names[i%len(names)]), rng.Int63())
	}
	if tier == "thorough" {
		st.dfExhaustive()
	}
	return finish()
}

// dfHistory: versions v0..vk; the diffs of successive versions are applied in sequence to a copy
// of v0, which must end up equal to vk.
func (st *dfState) dfHistory(p *reg.Pkg, caseSeed int64) {
	sum := st.sum
	rng := rand.New(rand.NewSource(caseSeed))
	g := newTreeGen(rng, p)
	g.nastyStr = false
	g.pField, g.maxList = 0.3, 2
	v0 := g.genTree()
	dfDropUnkeyed(reflect.ValueOf(v0))
	cur, ok := dfCopy(p, v0)
	if !ok {
		sum.count("skipped", "copy-not-faithful")
		return
	}
	atomic := rng.Intn(2) == 0
	m := dfMode{atomic: atomic}
	k := 1 + rng.Intn(5)
	rootE := dfRootEntry(p)
	versions := []ygot.ValidatedGoStruct{v0}
	var allOps []string
	broken := ""
	zeroKeys := map[string]string{}
	histObs := &dfObserved{}
	for i := 0; i < k; i++ {
		prev := versions[len(versions)-1]
		next, ok := dfCopy(p, prev)
		if !ok {
			break
		}
		g.root = next
		var ops []string
		for j := 1 + rng.Intn(3); j > 0; j-- {
			if op := dfMutate(g, next, rootE, false); op != "" {
				ops = append(ops, op)
			}
		}
		dfDropUnkeyed(reflect.ValueOf(next))
		allOps = append(allOps, ops...)
		in := dfPairInput(p, "history", caseSeed, prev, next, ops)
		in["step"] = i
		pr := dfNewPair(p, prev, next, ops, in)
		for k, v := range pr.zeroA {
			zeroKeys[k] = v
		}
		for k, v := range pr.zeroB {
			zeroKeys[k] = v
		}
		nsOf := st.dfDoPair(pr, []dfMode{m}, false)
		versions = append(versions, next)
		ns, have := nsOf[m]
		if have {
			o := dfObserve(ns)
			histObs.groups = append(histObs.groups, o.groups...)
			histObs.deletes = append(histObs.deletes, o.deletes...)
		}
		if !have {
			broken = "diff failed at step " + strconv.Itoa(i)
			break
		}
		if err := dfApply(p, cur, ns, m); err != nil {
			broken = "apply failed at step " + strconv.Itoa(i) + ": " + err.Error()
			break
		}
	}
	sum.count("history_length", strconv.Itoa(len(versions)))
	sum.OracleRuns++
	last := versions[len(versions)-1]
	jl, _ := dfJSON(last)
	j0, _ := dfJSON(v0)
	in := map[string]interface{}{"pkg": p.Name, "kind": "history", "case_seed": caseSeed, "call": m.String(), "v0": j0, "last": jl, "edits": allOps}
	if broken != "" {
		sum.count("history_outcome", "broken")
		return // the failing step has been reported by the pair oracle
	}
	got, want := dfFilterLeafMap(leafMapOf(cur), atomic), dfFilterLeafMap(leafMapOf(last), atomic)
	if bad := leafMapDiff(got, want, 1000); len(bad) > 0 {
		sum.count("history_outcome", "differs")
		hp := &dfPair{pkg: p, zeroA: zeroKeys, zeroB: map[string]string{}}
		for _, o := range allOps {
			if o == "ambiguous-key" {
				hp.ambig = true
			}
		}
		hp.history = true
		for sig, ks := range dfClassify(hp, m, histObs, bad, got, want) {
			if sig == "diff/apply-mismatch" {
				sig = "diff/history-mismatch"
				if atomic {
					sig = "diff/atomic-container-overreach"
				}
			}
			if len(ks) > 6 {
				ks = ks[:6]
			}
			sum.finding(Finding{Signature: sig, What: "applying the successive diffs of a version history to a copy of the first version does not give the last version; differing leaves: " + strings.Join(ks, " "), Input: in})
		}
		return
	}
	sum.count("history_outcome", "ok")
}

// dfExhaustive (thorough tier): every ordered pair of the trees spanned by a few independent
// choices (union leaves unset / zero-valued / non-zero, an ordered list in two orders, a keyed
// list); the oracle judges every pair, every 9th pair is also handed to the model.
func (st *dfState) dfExhaustive() {
	p := reg.Get("vmain_u")
	if p == nil {
		return
	}
	un := []string{``, `"un":""`, `"un":"x"`}
	un2 := []string{``, `"un2":0`, `"un2":7`}
	ord := []string{``, `"l-ord":[{"k":"a","v":1},{"k":"b"}]`, `"l-ord":[{"k":"b"},{"k":"a","v":1}]`}
	lst := []string{``, `"l-enum":[{"k":"RED","v":"x"}]`}
	var docs []string
	for _, a := range un {
		for _, b := range un2 {
			for _, c := range ord {
				for _, d := range lst {
					var sc, top []string
					for _, x := range []string{a, b} {
						if x != "" {
							sc = append(sc, x)
						}
					}
					if len(sc) > 0 {
						top = append(top, `"scalars":{`+strings.Join(sc, ",")+`}`)
					}
					for _, x := range []string{c, d} {
						if x != "" {
							top = append(top, x)
						}
					}
					if len(top) == 0 {
						docs = append(docs, `{}`)
					} else {
						docs = append(docs, `{"v-main:top":{`+strings.Join(top, ",")+`}}`)
					}
				}
			}
		}
	}
	k := 0
	for _, ja := range docs {
		for _, jb := range docs {
			a, b := dfFromJSON(p, ja), dfFromJSON(p, jb)
			if a == nil || b == nil {
				continue
			}
			in := map[string]interface{}{"pkg": p.Name, "kind": "json", "a": ja, "b": jb}
			pr := dfNewPair(p, a, b, []string{"exhaustive"}, in)
			if k%9 == 0 {
				st.dfDoPair(pr, []dfMode{{}, {ia: true}, {atomic: true}, {atomic: true, ia: true}}, false)
			} else {
				// oracle only
				sub := &dfState{sum: st.sum, files: map[string]*caseFile{}, seen: st.seen}
				sub.dfDoPair(pr, []dfMode{{}, {ia: true}, {atomic: true}, {atomic: true, ia: true}}, false)
			}
			k++
		}
	}
	st.sum.count("exhaustive_pairs", strconv.Itoa(k))
}
