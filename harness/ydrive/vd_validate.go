//go:build verif

package main

// vd_validate.go — stream "validate" (property C07) and the helpers shared by the vd_* streams.
//
// For every generated package: random schema-conforming trees and, for each of them, one
// single-fault mutation per fault class of the C07 statement (plus one mutation that is NOT a
// fault: duplicate values in a state leaf-list).  Every tree goes through the generated
// Validate(&ytypes.LeafrefOptions{IgnoreMissingData: true}); the classified error set is
// compared with the Coq model (Tree/Validate.v: validate) and the declarative validity
// (validb) is compared with "was a fault injected".  Oracle, independent of the model: the
// verdict of the real Validate must flip exactly on the injected faults.

import (
	"encoding/json"
	"fmt"
	"hash/fnv"
	"math"
	"math/rand"
	"os"
	"reflect"
	"sort"
	"strings"

	"github.com/openconfig/goyang/pkg/yang"
	"github.com/openconfig/ygot/internal/verifharness/reg"
	"github.com/openconfig/ygot/util"
	"github.com/openconfig/ygot/ygot"
	"github.com/openconfig/ygot/ytypes"
)

func init() { streams["validate"] = vdValidateStream }

// ---------------------------------------------------------------- shared helpers

// vdFile is a case file whose header carries the schema, the enum environment, the float
// oracle and extra definitions (side tables) of one generated package.
type vdFile struct {
	pkg  *reg.Pkg
	cf   *caseFile
	sch  string
	env  string
	defs []string // extra "Definition ... ." lines
	req  string   // extra Require modules
	fn   string   // checker applied to sch env fo
	bare bool     // no sch / env / fo in the header (streams whose model does not need them)
}

func vdNewFile(p *reg.Pkg, typ, fn, req string) *vdFile {
	sch, env := schemaTerm(p)
	return &vdFile{pkg: p, cf: &caseFile{typ: typ}, sch: sch, env: env, fn: fn, req: req}
}

func (f *vdFile) write(out, stream string, shard int) ([]string, error) {
	if f.bare {
		f.cf.header = "From Ygot Require Import Tree.Tree Tree.TreeOps " + f.req + ".\nOpen Scope N_scope.\n" + strings.Join(f.defs, "\n")
		f.cf.fn = f.fn
		return f.cf.write(out, stream+"_"+f.pkg.Name, shard)
	}
	f.cf.header = "From Ygot Require Import Tree.Tree Tree.Codec Tree.TreeOps " + f.req + ".\nOpen Scope N_scope.\n" +
		"Definition sch : schema := " + f.sch + ".\nDefinition env : enum_env := " + f.env + ".\n" +
		"Definition fo : float_oracle := " + floatOracleTerm() + ".\n" + strings.Join(f.defs, "\n")
	f.cf.fn = f.fn
	return f.cf.write(out, stream+"_"+f.pkg.Name, shard)
}

func vdHash(s string) int64 {
	h := fnv.New64a()
	h.Write([]byte(s))
	return int64(h.Sum64() & 0x7fffffffffffffff)
}

// vdReplayCase decodes {"case": ...} of a replay file into v; ok=false when there is no replay.
func vdReplayCase(v interface{}) (bool, error) {
	if replayFile == "" {
		return false, nil
	}
	b, err := os.ReadFile(replayFile)
	if err != nil {
		return false, err
	}
	var wrap struct {
		Case json.RawMessage `json:"case"`
	}
	if err := json.Unmarshal(b, &wrap); err != nil {
		return false, err
	}
	return true, json.Unmarshal(wrap.Case, v)
}

// vdSafeValidate runs the generated Validate with panic recovery.
// vdUndefinedEnumValue: a value the enumerated type does not define. Mostly the first one past the
// type's own table (a table borrowed from a same-named type of another generated package, or one
// that is off by one, shows there), sometimes a far one.
func vdUndefinedEnumValue(p *reg.Pkg, typeName string, rng *rand.Rand) int64 {
	mx := int64(0)
	for v := range p.Enum[typeName] {
		if v > mx {
			mx = v
		}
	}
	if rng.Intn(3) == 0 {
		return 99
	}
	return mx + 1
}

func vdSafeValidate(t ygot.ValidatedGoStruct, opts ...ygot.ValidationOption) (err error, panicked bool) {
	defer func() {
		if r := recover(); r != nil {
			err, panicked = fmt.Errorf("panic: %v", r), true
		}
	}()
	return t.Validate(opts...), false
}

// vdFlatErrors returns the individual error texts of a (possibly nested) util.Errors.
func vdFlatErrors(err error) []string {
	if err == nil {
		return nil
	}
	if es, ok := err.(util.Errors); ok {
		var out []string
		for _, e := range es {
			out = append(out, vdFlatErrors(e)...)
		}
		return out
	}
	return []string{err.Error()}
}

// vdClassify maps one Validate error text to the model's error class ("" = structural prefix
// line that carries no information, "?" = unknown).
func vdClassify(s string) string {
	switch {
	case strings.Contains(s, "integer value") && strings.Contains(s, "is outside specified ranges"):
		return "EIntRange"
	case strings.Contains(s, "is outside range"):
		return "ELength"
	case strings.Contains(s, "no types in schema"):
		return "EUnionNoMatch"
	case strings.Contains(s, "bad leaf type"), strings.Contains(s, "bad leaf value type"), strings.Contains(s, "non ") && strings.Contains(s, " type "):
		return "EType"
	case strings.Contains(s, "!= map key"), strings.Contains(s, "has different value from map key"), strings.Contains(s, "missing key field"):
		return "EKey"
	case strings.Contains(s, "contains fewer than min required elements"):
		return "EMin"
	case strings.Contains(s, "contains more than max allowed elements"):
		return "EMax"
	case strings.Contains(s, "multiple cases"):
		return "EChoice"
	case strings.Contains(s, "is not a defined value of enumerated type"), strings.Contains(s, "cannot map enumerated type"):
		return "EEnum" // only with the proposed repair of validateLeaf
	case strings.Contains(s, "duplicate value") && strings.Contains(s, "in leaf-list"):
		return "EDup" // only with the proposed repair of validateLeafList
	case strings.HasSuffix(s, "/") && !strings.Contains(s[strings.LastIndex(s, ": ")+1:], " /") && !strings.Contains(strings.TrimSpace(s[strings.LastIndex(s, ": ")+1:]), " "):
		return "" // "<choice>/" prefix line of validateContainer (possibly behind path prefixes)
	}
	return "?"
}

var vdClassOrder = []string{"EIntRange", "ELength", "EUnionNoMatch", "EType", "EKey", "EMin", "EMax", "EChoice", "EField", "EShape", "EEnum", "EDup"}

// vdErrClasses: sorted, de-duplicated classes; unknown texts are returned separately.
func vdErrClasses(err error) (classes []string, unknown []string) {
	seen := map[string]bool{}
	for _, s := range vdFlatErrors(err) {
		c := vdClassify(s)
		switch c {
		case "":
		case "?":
			unknown = append(unknown, s)
		default:
			seen[c] = true
		}
	}
	for _, c := range vdClassOrder {
		if seen[c] {
			classes = append(classes, c)
		}
	}
	return
}

// vdSortedMapKeys returns the keys of a Go map in the canonical (tree term) order.
func vdSortedMapKeys(m reflect.Value) []reflect.Value {
	ks := m.MapKeys()
	sort.Slice(ks, func(i, j int) bool { return lessKeys(keyValues(ks[i]), keyValues(ks[j])) })
	return ks
}

// ---------------------------------------------------------------- which repairs are present

// vdProbeEnum is a minimal generated-style enumeration used to probe validateLeaf.
type vdProbeEnum int64

func (vdProbeEnum) IsYANGGoEnum() {}
func (vdProbeEnum) ΛMap() map[string]map[int64]ygot.EnumDefinition {
	return map[string]map[int64]ygot.EnumDefinition{"vdProbeEnum": {1: {Name: "A"}}}
}
func (e vdProbeEnum) String() string { return fmt.Sprintf("vdProbeEnum(%d)", int64(e)) }

// vdProbeEntry: list entry { k; choice c { case c1 { a } case c2 { b } } }
type vdProbeEntry struct {
	K *string `path:"k"`
	A *string `path:"a"`
	B *string `path:"b"`
}

func (*vdProbeEntry) IsYANGGoStruct() {}

// vdProbeNested: container { choice c { case c1 { a; choice d { case x { n } } } case c2 { b } } }
type vdProbeNested struct {
	A *string `path:"a"`
	N *string `path:"n"`
	B *string `path:"b"`
}

func (*vdProbeNested) IsYANGGoStruct() {}

type vdFix struct{ enum, llattr, lldup, choiceList, nested bool }

func (f vdFix) term() string {
	return fmt.Sprintf("{| fx_enum := %s; fx_llattr := %s; fx_lldup := %s; fx_choice_list := %s; fx_nested := %s |}",
		coqBool(f.enum), coqBool(f.llattr), coqBool(f.lldup), coqBool(f.choiceList), coqBool(f.nested))
}

var vdFixProbed *vdFix

// vdProbeFix runs five tiny inputs through ytypes.Validate to find out which of the proposed
// repairs the code under test contains (the model takes the answer as a parameter).
func vdProbeFix() vdFix {
	if vdFixProbed != nil {
		return *vdFixProbed
	}
	rejects := func(schema *yang.Entry, v interface{}) (r bool) {
		defer func() {
			if recover() != nil {
				r = false
			}
		}()
		return ytypes.Validate(schema, v) != nil
	}
	str := func(name string) *yang.Entry {
		return &yang.Entry{Name: name, Kind: yang.LeafEntry, Type: &yang.YangType{Kind: yang.Ystring}}
	}
	dir := func(name string, kind yang.EntryKind, kids ...*yang.Entry) *yang.Entry {
		e := &yang.Entry{Name: name, Kind: kind, Dir: map[string]*yang.Entry{}}
		for _, k := range kids {
			k.Parent = e
			e.Dir[k.Name] = k
		}
		return e
	}
	var f vdFix
	f.enum = rejects(&yang.Entry{Name: "e", Kind: yang.LeafEntry, Type: &yang.YangType{Kind: yang.Yenum}}, vdProbeEnum(99))
	ll := func(max uint64) *yang.Entry {
		e := str("ll")
		e.ListAttr = &yang.ListAttr{MinElements: 0, MaxElements: max}
		return e
	}
	f.llattr = rejects(ll(1), []string{"a", "b"})
	f.lldup = rejects(ll(10), []string{"a", "a"})
	one, two := "1", "2"
	list := dir("l", yang.DirectoryEntry, str("k"),
		dir("c", yang.ChoiceEntry, dir("c1", yang.CaseEntry, str("a")), dir("c2", yang.CaseEntry, str("b"))))
	list.ListAttr = yang.NewDefaultListAttr()
	list.Key = "k"
	f.choiceList = rejects(list, &vdProbeEntry{K: &one, A: &one, B: &two})
	cont := dir("n", yang.DirectoryEntry,
		dir("c", yang.ChoiceEntry,
			dir("c1", yang.CaseEntry, str("a"), dir("d", yang.ChoiceEntry, dir("x", yang.CaseEntry, str("n")))),
			dir("c2", yang.CaseEntry, str("b"))))
	f.nested = rejects(cont, &vdProbeNested{A: &one, B: &two})
	vdFixProbed = &f
	return f
}

// ---------------------------------------------------------------- fault sites

// vdSite is one place of a tree where a mutation of a given class can be applied.
type vdSite struct {
	class string // mutation class
	fault bool   // the mutation breaks RFC 7950 validity (false: the tree stays valid)
	desc  string
	apply func(g *treeGen) (undo func(), ok bool)
}

// fault classes of the C07 statement -> signature used when Validate does not notice
var vdMissSignature = map[string]string{
	"int-range":          "validate/int-range",
	"string-length":      "validate/string-length",
	"binary-length":      "validate/binary-length",
	"enum-undefined":     "validate/undefined-enum",
	"union-enum-int64":   "validate/union-enum-int64",
	"identity-undefined": "validate/undefined-identity",
	"union-no-member":    "validate/union-no-member",
	"key-mismatch":       "validate/key-mismatch",
	"leaflist-dup":       "validate/leaflist-duplicates",
	"leaflist-dup-union": "validate/leaflist-duplicates",
	"list-max":           "validate/list-max-elements",
	"list-min":           "validate/list-min-elements",
	"leaflist-max":       "validate/leaflist-max-elements",
	"leaflist-min":       "validate/leaflist-min-elements",
	"choice-two-cases":   "validate/choice-two-cases",
}

func vdNumLE(a, b yang.Number) bool { return a.Less(b) || a.Equal(b) }

func vdInRanges(rs yang.YangRange, v yang.Number) bool {
	if len(rs) == 0 {
		return true
	}
	for _, r := range rs {
		if vdNumLE(r.Min, v) && vdNumLE(v, r.Max) {
			return true
		}
	}
	return false
}

// vdOutOfRange finds a value of the integer kind outside the type's ranges.
func vdOutOfRange(t *yang.YangType) (yang.Number, bool) {
	base := yang.BaseTypedefs[t.Kind.String()].YangType.Range
	if len(base) == 0 || len(t.Range) == 0 {
		return yang.Number{}, false
	}
	kmin, kmax := base[0].Min, base[0].Max
	cands := []yang.Number{kmin, kmax}
	for _, r := range t.Range {
		if kmin.Less(r.Min) {
			if r.Min.Negative {
				cands = append(cands, yang.FromInt(-int64(r.Min.Value)-1))
			} else if r.Min.Value > 0 {
				cands = append(cands, yang.FromUint(r.Min.Value-1))
			} else {
				cands = append(cands, yang.FromInt(-1))
			}
		}
		if r.Max.Less(kmax) {
			if r.Max.Negative {
				cands = append(cands, yang.FromInt(-int64(r.Max.Value)+1))
			} else {
				cands = append(cands, yang.FromUint(r.Max.Value+1))
			}
		}
	}
	for _, c := range cands {
		if vdNumLE(kmin, c) && vdNumLE(c, kmax) && !vdInRanges(t.Range, c) {
			return c, true
		}
	}
	return yang.Number{}, false
}

// vdBadLength finds a length outside all of the given length ranges.
func vdBadLength(ls yang.YangRange) (int, bool) {
	if len(ls) == 0 {
		return 0, false
	}
	var mx uint64
	for _, r := range ls {
		if r.Max.Value > mx {
			mx = r.Max.Value
		}
	}
	for _, c := range []uint64{0, mx + 1} {
		if c < 64 && !vdInRanges(ls, yang.FromUint(c)) {
			return int(c), true
		}
	}
	return 0, false
}

func vdIsKeyLeaf(parent, ce *yang.Entry) bool {
	if !parent.IsList() {
		return false
	}
	for _, k := range listKeyNames(parent) {
		if k == ce.Name {
			return true
		}
	}
	return false
}

func vdSetField(fv reflect.Value, nv reflect.Value) func() {
	old := reflect.New(fv.Type()).Elem()
	old.Set(fv)
	fv.Set(nv)
	return func() { fv.Set(old) }
}

func vdEnumClass(t *yang.YangType) string {
	if t.Kind == yang.Yidentityref {
		return "identity-undefined"
	}
	return "enum-undefined"
}

// vdCollect walks the struct pointed to by sp (schema entry e) and appends the mutation sites.
func vdCollect(p *reg.Pkg, sp reflect.Value, e *yang.Entry, path string, depth int, sites *[]vdSite) {
	s := sp.Elem()
	type chField struct {
		idx  int
		ce   *yang.Entry
		set  bool
		ch   string
		cas  string
		leaf bool
	}
	var chFields []chField
	for i := 0; i < s.NumField(); i++ {
		sf := s.Type().Field(i)
		if _, ok := sf.Tag.Lookup("path"); !ok {
			continue
		}
		ce, err := util.ChildSchema(e, sf)
		if err != nil || ce == nil {
			continue
		}
		fv := s.Field(i)
		ft := sf.Type
		here := path + "/" + sf.Name
		_, isSet := fieldTerm(fv)
		if cs := caseNames(ce); len(cs) >= 2 {
			chFields = append(chFields, chField{idx: i, ce: ce, set: isSet, ch: cs[0], cas: cs[1], leaf: ce.IsLeaf()})
		}
		switch {
		case ce.IsLeaf():
			if !isSet || vdIsKeyLeaf(e, ce) {
				continue
			}
			_, t := resolveType(ce)
			if t == nil {
				continue
			}
			vdLeafSites(p, sp, fv, ft, t, here, sites)
		case ce.IsLeafList():
			if !isSet || fv.Len() == 0 {
				continue
			}
			cfg := !ce.ReadOnly()
			fvv := fv
			dupClass := map[bool]string{true: "leaflist-dup", false: "leaflist-dup-state"}[cfg]
			if cfg && ft.Elem().Kind() == reflect.Interface {
				// union members (pointers with wrapper unions): a class of its own, so that every tree
				// that has such a leaf-list is mutated there
				dupClass = "leaflist-dup-union"
			}
			*sites = append(*sites, vdSite{class: dupClass, fault: cfg, desc: here,
				apply: func(g *treeGen) (func(), bool) {
					nv := reflect.MakeSlice(fvv.Type(), 0, fvv.Len()+1)
					nv = reflect.AppendSlice(nv, fvv)
					// an equal value in a cell of its own (wrapper-union members are pointers,
					// binary members byte slices): duplicates are duplicates by value
					nv = reflect.Append(nv, vdCloneElem(fvv.Index(0)))
					return vdSetField(fvv, nv), true
				}})
			_, t := resolveType(ce)
			if ce.ListAttr != nil && ce.ListAttr.MaxElements != 0 && ce.ListAttr.MaxElements < 16 && t != nil && t.Kind == yang.Ystring && ft.Elem().Kind() == reflect.String {
				mx := int(ce.ListAttr.MaxElements)
				*sites = append(*sites, vdSite{class: "leaflist-max", fault: true, desc: here,
					apply: func(g *treeGen) (func(), bool) {
						nv := reflect.MakeSlice(fvv.Type(), 0, mx+1)
						nv = reflect.AppendSlice(nv, fvv)
						for j := 0; nv.Len() <= mx; j++ {
							nv = reflect.Append(nv, reflect.ValueOf(fmt.Sprintf("zz%d", j)).Convert(fvv.Type().Elem()))
						}
						return vdSetField(fvv, nv), true
					}})
			}
			if t != nil && (t.Kind == yang.Yenum || t.Kind == yang.Yidentityref) && ft.Elem().Kind() == reflect.Int64 {
				if _, defined := p.Enum[ft.Elem().Name()][99]; !defined {
					*sites = append(*sites, vdSite{class: vdEnumClass(t), fault: true, desc: here + "[+]",
						apply: func(g *treeGen) (func(), bool) {
							bad := reflect.New(fvv.Type().Elem()).Elem()
							bad.SetInt(vdUndefinedEnumValue(p, ft.Elem().Name(), g.rng))
							nv := reflect.MakeSlice(fvv.Type(), 0, fvv.Len()+1)
							nv = reflect.AppendSlice(nv, fvv)
							nv = reflect.Append(nv, bad)
							return vdSetField(fvv, nv), true
						}})
				}
			}
		case ce.IsList():
			vdListSites(p, sp, fv, sf, ce, here, depth, sites)
		case ce.IsDir():
			if ft.Kind() == reflect.Ptr && !fv.IsNil() {
				vdCollect(p, fv, ce, here, depth+1, sites)
			}
		}
	}
	// two cases of one choice: exactly one case of the choice is populated and an unset leaf of another case exists
	if e.IsContainer() || util.IsFakeRoot(e) {
		setCases := map[string]map[string]bool{}
		for _, a := range chFields {
			if a.set {
				if setCases[a.ch] == nil {
					setCases[a.ch] = map[string]bool{}
				}
				setCases[a.ch][a.cas] = true
			}
		}
		doneCh := map[string]bool{}
		for _, b := range chFields {
			if doneCh[b.ch] || len(setCases[b.ch]) != 1 || setCases[b.ch][b.cas] || b.set || !b.leaf {
				continue
			}
			doneCh[b.ch] = true
			bi, bce := b.idx, b.ce
			*sites = append(*sites, vdSite{class: "choice-two-cases", fault: true, desc: path + "/" + s.Type().Field(bi).Name,
				apply: func(g *treeGen) (func(), bool) {
					fvb := s.Field(bi)
					old := reflect.New(fvb.Type()).Elem()
					old.Set(fvb)
					g.setField(sp, fvb, s.Type().Field(bi), bce, depth)
					if _, ok := fieldTerm(fvb); !ok {
						fvb.Set(old)
						return nil, false
					}
					return func() { fvb.Set(old) }, true
				}})
		}
	}
}

// vdLeafSites: value-space faults of one set, non-key leaf.
func vdLeafSites(p *reg.Pkg, sp, fv reflect.Value, ft reflect.Type, t *yang.YangType, here string, sites *[]vdSite) {
	switch t.Kind {
	case yang.Yint8, yang.Yint16, yang.Yint32, yang.Yint64, yang.Yuint8, yang.Yuint16, yang.Yuint32, yang.Yuint64:
		bad, ok := vdOutOfRange(t)
		if !ok || ft.Kind() != reflect.Ptr {
			return
		}
		*sites = append(*sites, vdSite{class: "int-range", fault: true, desc: fmt.Sprintf("%s=%v", here, bad),
			apply: func(g *treeGen) (func(), bool) {
				np := reflect.New(ft.Elem())
				switch ft.Elem().Kind() {
				case reflect.Int8, reflect.Int16, reflect.Int32, reflect.Int64:
					np.Elem().SetInt(numToInt64(bad))
				default:
					np.Elem().SetUint(bad.Value)
				}
				return vdSetField(fv, np), true
			}})
	case yang.Ystring:
		n, ok := vdBadLength(t.Length)
		if !ok || len(t.Pattern)+len(t.POSIXPattern) > 0 || ft.Kind() != reflect.Ptr {
			return
		}
		*sites = append(*sites, vdSite{class: "string-length", fault: true, desc: fmt.Sprintf("%s len %d", here, n),
			apply: func(g *treeGen) (func(), bool) {
				np := reflect.New(ft.Elem())
				np.Elem().SetString(strings.Repeat("q", n))
				return vdSetField(fv, np), true
			}})
	case yang.Ybinary:
		n, ok := vdBadLength(t.Length)
		if !ok || ft.Kind() != reflect.Slice {
			return
		}
		*sites = append(*sites, vdSite{class: "binary-length", fault: true, desc: fmt.Sprintf("%s len %d", here, n),
			apply: func(g *treeGen) (func(), bool) {
				return vdSetField(fv, reflect.ValueOf(make([]byte, n)).Convert(ft)), true
			}})
	case yang.Yenum, yang.Yidentityref:
		if ft.Kind() != reflect.Int64 {
			return
		}
		if _, defined := p.Enum[ft.Name()][99]; defined {
			return
		}
		*sites = append(*sites, vdSite{class: vdEnumClass(t), fault: true, desc: here + "=undefined (max+1 or 99)",
			apply: func(g *treeGen) (func(), bool) {
				bad := reflect.New(ft).Elem()
				bad.SetInt(vdUndefinedEnumValue(p, ft.Name(), g.rng))
				return vdSetField(fv, bad), true
			}})
	case yang.Yunion:
		if ft.Kind() != reflect.Interface || fv.IsNil() {
			return
		}
		// (a) the chosen member is an enumeration / identity: undefined value
		dyn := fv.Elem()
		if dyn.Kind() == reflect.Int64 && dyn.Type().Implements(goEnumT) {
			if _, defined := p.Enum[dyn.Type().Name()][99]; !defined {
				cls := "enum-undefined"
				for _, m := range flattenUnion(t) {
					if m.Kind == yang.Yidentityref {
						cls = "identity-undefined"
					}
				}
				for _, m := range flattenUnion(t) {
					if m.Kind == yang.Yint64 {
						// a union member is matched against the union's types by Go kind: the int64 member
						// takes the enumerated value (known finding validate/union-enum-int64)
						cls = "union-enum-int64"
					}
				}
				*sites = append(*sites, vdSite{class: cls, fault: true, desc: here + "=union enum undefined (max+1 or 99)",
					apply: func(g *treeGen) (func(), bool) {
						bad := reflect.New(dyn.Type()).Elem()
						bad.SetInt(vdUndefinedEnumValue(p, dyn.Type().Name(), g.rng))
						return vdSetField(fv, bad), true
					}})
			}
		} else if dyn.Kind() == reflect.Ptr && dyn.Elem().Kind() == reflect.Struct && dyn.Elem().NumField() == 1 &&
			dyn.Elem().Field(0).Kind() == reflect.Int64 && dyn.Elem().Field(0).Type().Implements(goEnumT) {
			et := dyn.Elem().Field(0).Type()
			if _, defined := p.Enum[et.Name()][99]; !defined {
				cls := "enum-undefined"
				for _, m := range flattenUnion(t) {
					if m.Kind == yang.Yidentityref {
						cls = "identity-undefined"
					}
				}
				for _, m := range flattenUnion(t) {
					if m.Kind == yang.Yint64 {
						// a wrapper-union member is matched against the union's types by Go kind: the int64
						// member takes the enumerated value (known finding validate/union-enum-int64)
						cls = "union-enum-int64"
					}
				}
				*sites = append(*sites, vdSite{class: cls, fault: true, desc: here + "=wrapper union enum undefined (max+1 or 99)",
					apply: func(g *treeGen) (func(), bool) {
						nw := reflect.New(dyn.Elem().Type())
						nw.Elem().Field(0).SetInt(vdUndefinedEnumValue(p, et.Name(), g.rng))
						return vdSetField(fv, nw), true
					}})
			}
		}
		// (b) a string that fits no member: every string member is length-restricted (no patterns)
		var all yang.YangRange
		nstr := 0
		for _, m := range flattenUnion(t) {
			if m.Kind == yang.Ystring {
				nstr++
				if len(m.Length) == 0 || len(m.Pattern)+len(m.POSIXPattern) > 0 {
					return
				}
				all = append(all, m.Length...)
			}
		}
		if nstr == 0 {
			return
		}
		n, ok := vdBadLength(all)
		if ok && n == 0 {
			// prefer a non-empty string: one rune more than the longest permitted length
			var mx uint64
			for _, r := range all {
				if r.Max.Value > mx {
					mx = r.Max.Value
				}
			}
			n, ok = int(mx+1), mx < 60 && !vdInRanges(all, yang.FromUint(mx+1))
		}
		if !ok || n == 0 {
			return
		}
		meth := sp.MethodByName("To_" + ft.Name())
		if !meth.IsValid() {
			return
		}
		*sites = append(*sites, vdSite{class: "union-no-member", fault: true, desc: fmt.Sprintf("%s string len %d", here, n),
			apply: func(g *treeGen) (func(), bool) {
				out := meth.Call([]reflect.Value{reflect.ValueOf("x" + strings.Repeat("q", n-1))})
				if !out[1].IsNil() {
					return nil, false
				}
				return vdSetField(fv, out[0]), true
			}})
	}
}

// vdListSites: key and size faults of one list field, then the entries.
func vdListSites(p *reg.Pkg, sp, fv reflect.Value, sf reflect.StructField, ce *yang.Entry, here string, depth int, sites *[]vdSite) {
	ft := sf.Type
	mn, mx := minMax(ce)
	keyMismatch := func(ent reflect.Value, entryT reflect.Type, desc string) {
		*sites = append(*sites, vdSite{class: "key-mismatch", fault: true, desc: desc,
			apply: func(g *treeGen) (func(), bool) {
				kfs := g.keyFieldNames(entryT, ce)
				if len(kfs) == 0 {
					return nil, false
				}
				kf := kfs[g.rng.Intn(len(kfs))]
				f, _ := entryT.FieldByName(kf)
				kce, _ := util.ChildSchema(ce, f)
				if kce == nil {
					return nil, false
				}
				cur := ent.Elem().FieldByName(kf)
				curT, _ := scalarTerm(cur)
				for try := 0; try < 40; try++ {
					nv, ok := g.genLeafValue(ent, f.Type, kce)
					if !ok {
						continue
					}
					if nt, ok := scalarTerm(nv); ok && nt != curT {
						return vdSetField(cur, nv), true
					}
				}
				return nil, false
			}})
	}
	switch {
	case isOrderedMapType(ft):
		if fv.IsNil() {
			return
		}
		entryT := entryTypeOfOrderedMap(ft)
		for i, e := range orderedEntries(fv.Interface().(ygot.GoOrderedMap)) {
			d := fmt.Sprintf("%s[%d]", here, i)
			if i == 0 {
				keyMismatch(e.entry, entryT, d)
			}
			vdCollect(p, e.entry, ce, d, depth+1, sites)
		}
	case ft.Kind() == reflect.Map:
		if fv.IsNil() {
			return
		}
		entryT := ft.Elem().Elem()
		keys := vdSortedMapKeys(fv)
		if mn > 0 {
			*sites = append(*sites, vdSite{class: "list-min", fault: true, desc: here + " emptied",
				apply: func(g *treeGen) (func(), bool) { return vdSetField(fv, reflect.MakeMap(ft)), true }})
		}
		if mx != 0 && mx < 16 {
			*sites = append(*sites, vdSite{class: "list-max", fault: true, desc: fmt.Sprintf("%s grown to %d", here, mx+1),
				apply: func(g *treeGen) (func(), bool) {
					nm := reflect.MakeMap(ft)
					seen := map[string]bool{}
					for _, k := range keys {
						nm.SetMapIndex(k, fv.MapIndex(k))
						t, _ := scalarTerm(k)
						seen[t] = true
					}
					for try := 0; try < 200 && uint64(nm.Len()) <= mx; try++ {
						ent, kvs, _ := g.newEntry(entryT, ce, depth)
						if len(kvs) != 1 || !kvs[0].Type().AssignableTo(ft.Key()) {
							return nil, false
						}
						t, _ := scalarTerm(kvs[0])
						if seen[t] {
							continue
						}
						seen[t] = true
						nm.SetMapIndex(kvs[0], ent)
					}
					if uint64(nm.Len()) <= mx {
						return nil, false
					}
					return vdSetField(fv, nm), true
				}})
		}
		for i, k := range keys {
			d := fmt.Sprintf("%s[%d]", here, i)
			if i == 0 {
				keyMismatch(fv.MapIndex(k), entryT, d)
			}
			vdCollect(p, fv.MapIndex(k), ce, d, depth+1, sites)
		}
	case ft.Kind() == reflect.Slice:
		for i := 0; i < fv.Len(); i++ {
			vdCollect(p, fv.Index(i), ce, fmt.Sprintf("%s[%d]", here, i), depth+1, sites)
		}
	}
}

// ---------------------------------------------------------------- the stream

type vdValidateReplay struct {
	Pkg      string  `json:"pkg"`
	TreeSeed int64   `json:"tree_seed"`
	Class    string  `json:"class"` // "" = the unmutated tree
	PField   float64 `json:"p_field"`
}

var vdClassList = []string{"int-range", "string-length", "binary-length", "enum-undefined", "union-enum-int64", "identity-undefined", "union-no-member",
	"key-mismatch", "leaflist-dup", "leaflist-dup-union", "leaflist-dup-state", "list-max", "list-min", "leaflist-max", "choice-two-cases"}

func vdValidateStream(rng *rand.Rand, n int, tier string, out string) (*Summary, error) {
	sum := &Summary{Rule: "random schema-conforming trees of every generated package and, per tree, one single-fault mutation for every fault class " +
		"that has a site in it (out-of-range int, bad string/binary length, undefined enum / identity value, union value fitting no member, " +
		"map key != key leaf, duplicate leaf-list value (config: fault; state: not a fault), list / leaf-list max- and min-elements, two cases " +
		"of a choice); Validate(IgnoreMissingData) error classes compared with the model, validb with 'fault injected'; non-trivial = mutated " +
		"tree, distinct by (tree, class)"}
	var files []string
	id := 0
	opt := &ytypes.LeafrefOptions{IgnoreMissingData: true}

	type job struct {
		pkg    string
		seed   int64
		pField float64
		class  string // "" base, "*" all classes
	}
	var rp vdValidateReplay
	isReplay, err := vdReplayCase(&rp)
	if err != nil {
		return nil, err
	}
	fix := vdProbeFix()
	sum.Extra = map[string]interface{}{}
	names := reg.Names()
	perTree := 7 // expected number of cases per base tree
	per := n / (perTree * len(names))
	if per < 1 {
		per = 1
	}
	seenCase := map[string]bool{}
	// warm-up in the reverse of the order below: whatever the implementation remembers per type
	// name (not per type) is then first filled by the other of two same-named packages than the one
	// the main loop meets first; a well-populated valid tree of every package is validated once
	// (also in a replay: the case is then met in the same state)
	for i := len(names) - 1; i >= 0; i-- {
		g := newTreeGen(rand.New(rand.NewSource(int64(i)+1)), reg.Get(names[i]))
		g.pField = 0.9
		g.nastyStr = false
		vdSafeValidate(g.genTree(), opt)
	}
	for _, name := range names {
		if isReplay && rp.Pkg != name {
			continue
		}
		p := reg.Get(name)
		vf := vdNewFile(p, "vcase", "vmismatches fx sch env fo", "Tree.Validate Corr.ValidCorr")
		vf.defs = []string{"Definition fx : vfix := " + fix.term() + "."}
		var jobs []job
		if isReplay {
			jobs = []job{{name, rp.TreeSeed, rp.PField, rp.Class}}
		} else {
			for i := 0; i < per; i++ {
				pf := 0.45
				if i%3 == 1 {
					pf = 0.8
				}
				jobs = append(jobs, job{name, rng.Int63(), pf, "*"})
			}
		}
		for _, jb := range jobs {
			build := func() (ygot.ValidatedGoStruct, *treeGen) {
				g := newTreeGen(rand.New(rand.NewSource(jb.seed)), p)
				g.pField = jb.pField
				g.nastyStr = false
				return g.genTree(), g
			}
			root, g := build()
			var sites []vdSite
			rt := reflect.TypeOf(root).Elem()
			vdCollect(p, reflect.ValueOf(root), p.SchemaTree[rt.Name()], "", 0, &sites)

			emit := func(class string, fault bool, desc string) {
				tt := treeTerm(root)
				verr, pan := vdSafeValidate(root, opt)
				classes, unknown := vdErrClasses(verr)
				obs := "[" + strings.Join(classes, ";") + "]"
				in := vdValidateReplay{Pkg: name, TreeSeed: jb.seed, Class: class, PField: jb.pField}
				flt := "None"
				if class != "" {
					flt = "(Some " + coqStr(class) + ")"
				}
				if pan {
					sum.finding(Finding{Signature: "validate/panic", What: "Validate panics: " + verr.Error(), Input: in})
					obs = "[EShape]"
				}
				for _, u := range unknown {
					sum.finding(Finding{Signature: "validate/unclassified-error", What: "error text outside the modelled classes: " + u, Input: in})
				}
				vf.cf.add(fmt.Sprintf("VCheck %d %s %s %s %s", id, coqBool(fault), flt, tt, obs))
				id++
				sum.OracleRuns++
				key := class + "|" + tt
				if class != "" && !seenCase[key] {
					seenCase[key] = true
					sum.Nontrivial++
				}
				cl := class
				if cl == "" {
					cl = "(valid tree)"
				}
				sum.count("class", cl)
				sum.count("verdict", map[bool]string{true: "accepted", false: "rejected"}[verr == nil])
				// ---- oracle: the verdict flips exactly on faults
				switch {
				case !fault && verr != nil:
					sig := "validate/false-reject"
					if class != "" {
						sig += "/" + class
					}
					sum.finding(Finding{Signature: sig, What: "Validate rejects a schema-valid tree (" + desc + "): " + verr.Error(), Input: in, Observed: classes})
				case fault && verr == nil:
					sum.finding(Finding{Signature: vdMissSignature[class], What: "Validate accepts a tree with a single " + class + " fault at " + desc, Input: in, Expected: "an error"})
				}
				if class != "" {
					sum.sample(map[string]interface{}{"pkg": name, "class": class, "site": desc, "errors": classes})
				}
			}

			if jb.class == "" || jb.class == "*" {
				emit("", false, "unmutated")
			}
			for _, class := range vdClassList {
				if jb.class != "*" && jb.class != class {
					continue
				}
				var cands []int
				for i, s := range sites {
					if s.class == class {
						cands = append(cands, i)
					}
				}
				if len(cands) == 0 {
					sum.count("no_site", class)
					continue
				}
				reps := 1
				if len(cands) > 1 && (tier == "thorough" || class == "enum-undefined" || class == "identity-undefined") {
					reps = 3
				}
				for r := 0; r < reps; r++ {
					mr := rand.New(rand.NewSource(jb.seed ^ vdHash(class) + int64(r)))
					g.rng = mr
					st := sites[cands[mr.Intn(len(cands))]]
					undo, ok := st.apply(g)
					if !ok {
						sum.count("no_site", class+" (apply failed)")
						continue
					}
					emit(class, st.fault, st.desc)
					undo()
				}
			}
		}
		fs, err := vf.write(out, "validate", 100)
		if err != nil {
			return nil, err
		}
		files = append(files, fs...)
	}
	sum.Cases = id
	sum.Extra = map[string]interface{}{"case_files": files, "repairs_present": fix.term()}
	_ = math.MaxInt64
	return sum, nil
}

// vdCloneElem returns a value equal to the leaf-list member v that shares no pointer or byte
// array with it.
func vdCloneElem(v reflect.Value) reflect.Value {
	switch v.Kind() {
	case reflect.Interface:
		if v.IsNil() {
			return v
		}
		out := reflect.New(v.Type()).Elem()
		out.Set(vdCloneElem(v.Elem()))
		return out
	case reflect.Ptr:
		if v.IsNil() {
			return v
		}
		out := reflect.New(v.Type().Elem())
		out.Elem().Set(vdCloneElem(v.Elem()))
		return out
	case reflect.Struct:
		out := reflect.New(v.Type()).Elem()
		for i := 0; i < v.NumField(); i++ {
			if out.Field(i).CanSet() {
				out.Field(i).Set(vdCloneElem(v.Field(i)))
			}
		}
		return out
	case reflect.Slice:
		if v.IsNil() {
			return v
		}
		out := reflect.MakeSlice(v.Type(), v.Len(), v.Len())
		reflect.Copy(out, v)
		return out
	}
	return v
}
