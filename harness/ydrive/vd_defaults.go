//go:build verif

package main

// vd_defaults.go — stream "defaults" (property C33): random trees -> generated
// PopulateDefaults() -> the resulting tree is compared with the Coq model
// (Tree/Defaults.v: populate_defaults), as are the Validate verdicts before and after.
// Oracle, independent of the model (on the leaf map of leafmap.go and on yang.Entry.Default
// parsed here): every leaf that was set is unchanged; the leaves that appear are exactly the
// unset leaves with a default statement in the structs reachable through containers and
// existing list entries, each with the value of its default literal; no presence container
// appears; a tree that validated before still validates.

import (
	"encoding/base64"
	"fmt"
	"math/rand"
	"reflect"
	"sort"
	"strconv"
	"strings"

	"github.com/openconfig/goyang/pkg/yang"
	"github.com/openconfig/ygot/internal/verifharness/reg"
	"github.com/openconfig/ygot/util"
	"github.com/openconfig/ygot/ygot"
	"github.com/openconfig/ygot/ytypes"
)

func init() { streams["defaults"] = vdDefaultsStream }

// vdDefaultTerm parses a YANG default literal for the (resolved) type t of leaf e into the
// canonical scalar term of tree.go; ok=false when the literal fits no (member) type.
func vdDefaultTerm(p *reg.Pkg, root ygot.ValidatedGoStruct, e *yang.Entry, t *yang.YangType, lit string) (string, bool) {
	switch t.Kind {
	case yang.Yint8, yang.Yint16, yang.Yint32, yang.Yint64:
		bits := map[yang.TypeKind]int{yang.Yint8: 8, yang.Yint16: 16, yang.Yint32: 32, yang.Yint64: 64}[t.Kind]
		v, err := strconv.ParseInt(lit, 10, bits)
		if err != nil || !vdInRanges(t.Range, yang.FromInt(v)) {
			return "", false
		}
		return "(VInt " + kindNames[t.Kind] + " " + coqZ(v) + ")", true
	case yang.Yuint8, yang.Yuint16, yang.Yuint32, yang.Yuint64:
		bits := map[yang.TypeKind]int{yang.Yuint8: 8, yang.Yuint16: 16, yang.Yuint32: 32, yang.Yuint64: 64}[t.Kind]
		v, err := strconv.ParseUint(lit, 10, bits)
		if err != nil || !vdInRanges(t.Range, yang.FromUint(v)) {
			return "", false
		}
		return "(VInt " + kindNames[t.Kind] + " " + coqZu(v) + ")", true
	case yang.Ydecimal64:
		f, err := strconv.ParseFloat(lit, 64)
		if err != nil {
			return "", false
		}
		floatTextsSeen[lit] = true
		return fmt.Sprintf("(VDec %d)", noteFloat(f)), true
	case yang.Ystring:
		n := uint64(len([]rune(lit)))
		if !vdInRanges(t.Length, yang.FromUint(n)) {
			return "", false
		}
		return "(VStr " + coqStr(lit) + ")", true
	case yang.Ybool:
		if lit == "true" || lit == "false" {
			return "(VBool " + lit + ")", true
		}
		return "", false
	case yang.Ybinary:
		b, err := base64.StdEncoding.DecodeString(lit)
		if err != nil {
			return "", false
		}
		return "(VBin " + bytesTerm(b) + ")", true
	case yang.Yenum, yang.Yidentityref:
		name := lit
		if i := strings.Index(name, ":"); i >= 0 {
			name = strings.Split(name, ":")[1]
		}
		c := &schemaCtx{pkg: p, root: root}
		var names []string
		if t.Kind == yang.Yenum {
			names = t.Enum.Names()
		} else {
			names = identityNames(t.IdentityBase)
		}
		ty := c.enumTypeFor(e, names)
		for num, d := range p.Enum[ty] {
			if d.Name == name {
				return "(VEnum " + coqStr(ty) + " " + coqZ(num) + ")", true
			}
		}
		return "", false
	case yang.Yleafref:
		if target, err := util.FindLeafRefSchema(e, t.Path); err == nil && target != nil {
			return vdDefaultTerm(p, root, target, target.Type, lit)
		}
		return "", false
	case yang.Yunion:
		for _, m := range flattenUnion(t) {
			if s, ok := vdDefaultTerm(p, root, e, m, lit); ok {
				return s, true
			}
		}
	}
	return "", false
}

// vdExpectedDefaults walks the tree BEFORE the call together with the schema and returns the
// leaf-map entries PopulateDefaults has to add: unset leaves with a default in every struct
// reachable through containers (set or not) and existing list entries.
func vdExpectedDefaults(p *reg.Pkg, root ygot.ValidatedGoStruct, st reflect.Type, sv reflect.Value, e *yang.Entry, prefix string, out map[string]string) {
	for i := 0; i < st.NumField(); i++ {
		sf := st.Field(i)
		tag, ok := sf.Tag.Lookup("path")
		if !ok {
			continue
		}
		ce, err := util.ChildSchema(e, sf)
		if err != nil || ce == nil {
			continue
		}
		path := prefix + "/" + strings.Split(tag, "|")[0]
		var fv reflect.Value
		if sv.IsValid() {
			fv = sv.Field(i)
		}
		ft := sf.Type
		switch {
		case ce.IsLeaf():
			dflt := leafDefaults(ce)
			if len(dflt) != 1 {
				continue
			}
			set := false
			if fv.IsValid() {
				_, set = fieldTerm(fv)
			}
			if set {
				continue
			}
			if term, ok := vdDefaultTerm(p, root, ce, ce.Type, dflt[0]); ok {
				out[path] = "(TLeaf " + term + ")"
			}
		case ce.IsList():
			if !fv.IsValid() {
				continue
			}
			switch {
			case isOrderedMapType(ft):
				if fv.IsNil() {
					continue
				}
				for _, en := range orderedEntries(fv.Interface().(ygot.GoOrderedMap)) {
					kp := keyPredicate(keyNamesOf(entryTypeOfOrderedMap(ft), nil, true, len(en.keys)), en.keys)
					vdExpectedDefaults(p, root, entryTypeOfOrderedMap(ft), en.entry.Elem(), ce, path+kp, out)
				}
			case ft.Kind() == reflect.Map:
				it := fv.MapRange()
				for it.Next() {
					ks := keyValues(it.Key())
					kp := keyPredicate(keyNamesOf(ft.Elem().Elem(), ft.Key(), false, len(ks)), ks)
					vdExpectedDefaults(p, root, ft.Elem().Elem(), it.Value().Elem(), ce, path+kp, out)
				}
			case ft.Kind() == reflect.Slice:
				for j := 0; j < fv.Len(); j++ {
					vdExpectedDefaults(p, root, ft.Elem().Elem(), fv.Index(j).Elem(), ce, path+"["+string(rune('0'+j))+"]", out)
				}
			}
		case ce.IsDir():
			if ft.Kind() != reflect.Ptr {
				continue
			}
			var cv reflect.Value
			if fv.IsValid() && !fv.IsNil() {
				cv = fv.Elem()
			}
			vdExpectedDefaults(p, root, ft.Elem(), cv, ce, path, out)
		}
	}
}

func vdCallPopulateDefaults(root ygot.ValidatedGoStruct) (err error) {
	defer func() {
		if r := recover(); r != nil {
			err = fmt.Errorf("panic: %v", r)
		}
	}()
	m := reflect.ValueOf(root).MethodByName("PopulateDefaults")
	if !m.IsValid() {
		return fmt.Errorf("no PopulateDefaults method")
	}
	m.Call(nil)
	return nil
}

type vdDefaultsReplay struct {
	Pkg      string  `json:"pkg"`
	TreeSeed int64   `json:"tree_seed"`
	PField   float64 `json:"p_field"`
}

func vdDefaultsStream(rng *rand.Rand, n int, tier string, out string) (*Summary, error) {
	sum := &Summary{Rule: "random schema-conforming trees of every generated package (sparse and dense) through the generated PopulateDefaults(); " +
		"the tree after the call and the Validate verdicts before/after are compared with the model; oracle on the leaf map: set leaves unchanged, " +
		"added leaves = unset defaulted leaves of reachable structs with the parsed default literal, no presence container created, valid stays valid; " +
		"non-trivial = at least one default filled and one defaulted leaf already set or a list entry visited; distinct by tree dump"}
	var files []string
	id := 0
	opt := &ytypes.LeafrefOptions{IgnoreMissingData: true}
	var rp vdDefaultsReplay
	isReplay, err := vdReplayCase(&rp)
	if err != nil {
		return nil, err
	}
	names := reg.Names()
	per := n / len(names)
	if per < 1 {
		per = 1
	}
	seen := map[string]bool{}
	for _, name := range names {
		if isReplay && rp.Pkg != name {
			continue
		}
		p := reg.Get(name)
		vf := vdNewFile(p, "dcase", "dmismatches fx sch env fo", "Tree.Validate Tree.Defaults Corr.ValidCorr")
		vf.defs = []string{"Definition fx : vfix := " + vdProbeFix().term() + "."}
		vdCountDefaults(p) // also notes the decimal64 default literals for the float oracle
		var jobs []vdDefaultsReplay
		if isReplay {
			jobs = []vdDefaultsReplay{rp}
		} else {
			for i := 0; i < per; i++ {
				pfs := []float64{0.1, 0.3, 0.5, 0.8}
				if tier == "thorough" {
					pfs = []float64{0, 0.05, 0.1, 0.2, 0.3, 0.5, 0.65, 0.8, 0.95} // incl. the empty tree and nearly full trees
				}
				pf := pfs[i%len(pfs)]
				jobs = append(jobs, vdDefaultsReplay{Pkg: name, TreeSeed: rng.Int63(), PField: pf})
			}
		}
		for _, jb := range jobs {
			g := newTreeGen(rand.New(rand.NewSource(jb.TreeSeed)), p)
			g.pField = jb.PField
			g.nastyStr = false
			root := g.genTree()
			before := treeTerm(root)
			lmBefore := leafMapOf(root)
			expAdd := map[string]string{}
			rt := reflect.TypeOf(root).Elem()
			vdExpectedDefaults(p, root, rt, reflect.ValueOf(root).Elem(), p.SchemaTree[rt.Name()], "", expAdd)
			errBefore, _ := vdSafeValidate(root, opt)
			perr := vdCallPopulateDefaults(root)
			if perr != nil {
				sum.finding(Finding{Signature: "defaults/panic", What: "PopulateDefaults: " + perr.Error(), Input: jb})
				continue
			}
			after := treeTerm(root)
			lmAfter := leafMapOf(root)
			errAfter, _ := vdSafeValidate(root, opt)
			vf.cf.add(fmt.Sprintf("DPop %d %s %s %s %s", id, before, after, coqBool(errBefore == nil), coqBool(errAfter == nil)))
			id++
			sum.OracleRuns++
			// ---- oracle
			added := 0
			for _, k := range sortedLeafKeys(lmBefore) {
				v := lmBefore[k]
				if lmAfter[k] != v {
					sum.finding(Finding{Signature: "defaults/set-leaf-changed", What: "PopulateDefaults changed or removed " + k + ": " + v + " -> " + lmAfter[k], Input: jb})
				}
			}
			for _, k := range sortedLeafKeys(lmAfter) {
				v := lmAfter[k]
				if _, was := lmBefore[k]; was {
					continue
				}
				switch {
				case strings.HasSuffix(k, "#presence"):
					sum.finding(Finding{Signature: "defaults/presence-container-created", What: "PopulateDefaults instantiated the presence container " + strings.TrimSuffix(k, "#presence") + " (its existence is data)", Input: jb})
				case strings.HasSuffix(k, "#order"), strings.HasSuffix(k, "#entry"):
					sum.finding(Finding{Signature: "defaults/list-changed", What: "PopulateDefaults changed the entries of a list: " + k, Input: jb})
				default:
					added++
					if want, ok := expAdd[k]; !ok {
						sum.finding(Finding{Signature: "defaults/unexpected-leaf", What: "PopulateDefaults set " + k + " = " + v + ", which is not an unset leaf with a default", Input: jb})
					} else if want != v {
						sum.finding(Finding{Signature: "defaults/wrong-value", What: "PopulateDefaults set " + k + " = " + v + ", default literal is " + want, Input: jb})
					}
				}
			}
			for _, k := range sortedLeafKeys(expAdd) {
				if _, ok := lmAfter[k]; !ok {
					sum.finding(Finding{Signature: "defaults/default-not-filled", What: "unset leaf with a default was not filled: " + k, Input: jb})
				}
			}
			if errBefore == nil && errAfter != nil {
				classes, _ := vdErrClasses(errAfter)
				sig := "defaults/valid-tree-invalidated"
				if len(classes) == 1 && classes[0] == "EChoice" {
					sig += "/choice"
				}
				lines := vdFlatErrors(errAfter)
				sort.Strings(lines) // ygot's own order depends on map iteration
				for i, l := range lines {
					if j := strings.Index(l, "multiple cases ["); j >= 0 {
						lines[i] = l[:j] + "multiple cases" + l[strings.Index(l, "]")+1:]
					}
				}
				sum.finding(Finding{Signature: sig, What: "tree validates before PopulateDefaults and not after: " + strings.Join(lines, " | "), Input: jb, Observed: classes})
			}
			sum.count("filled", fmt.Sprintf("%02d", added/5*5))
			sum.count("valid_after", coqBool(errAfter == nil))
			if !seen[before] {
				seen[before] = true
				if added > 0 && (len(expAdd) < vdCountDefaults(p) || strings.Contains(before, "TList [(")) {
					sum.Nontrivial++
				}
			}
			sum.sample(map[string]interface{}{"pkg": name, "filled": added, "leaves_before": len(lmBefore)})
		}
		fs, err := vf.write(out, "defaults", 100)
		if err != nil {
			return nil, err
		}
		files = append(files, fs...)
	}
	sum.Cases = id
	sum.Extra = map[string]interface{}{"case_files": files}
	return sum, nil
}

var vdDefaultCount = map[string]int{}

// vdCountDefaults: number of defaults filled in the empty tree of the package.
func vdCountDefaults(p *reg.Pkg) int {
	if c, ok := vdDefaultCount[p.Name]; ok {
		return c
	}
	root := p.NewRoot()
	exp := map[string]string{}
	rt := reflect.TypeOf(root).Elem()
	vdExpectedDefaults(p, root, rt, reflect.ValueOf(root).Elem(), p.SchemaTree[rt.Name()], "", exp)
	vdDefaultCount[p.Name] = len(exp)
	return len(exp)
}
