//go:build verif

package main

// c15_ordmap.go — stream "ordmap" (property C15): the generated ordered maps of every
// `ordered-by user` list of the corpus are driven through sequences of Append / AppendNew /
// Delete / Get / Keys / Values / Len calls and the parent helpers, by reflection.
//   - every sequence becomes a Coq case (Corr/OrdMapCorr.v) replayed by the model of
//     Gen/OrderedMap.v;
//   - an insertion-ordered map written in plain Go runs in lockstep (the oracle, independent
//     of the Coq model), the slices returned by Keys()/Values() are mutated, and the final
//     state goes through DeepCopy, RFC7951 JSON and gNMI notifications to compare the order.
// The helpers with the c15 prefix that discover lists, build key domains and abstract entries
// are shared with c34_keyedmap.go.

import (
	"encoding/json"
	"fmt"
	"math/rand"
	"os"
	"reflect"
	"runtime"
	"sort"
	"strings"
	"sync"

	"github.com/openconfig/goyang/pkg/yang"
	"github.com/openconfig/ygot/internal/verifharness/reg"
	"github.com/openconfig/ygot/util"
	"github.com/openconfig/ygot/ygot"
	"github.com/openconfig/ygot/ytypes"
)

func init() { streams["ordmap"] = c15OrdmapStream }

// ---------------------------------------------------------------- list sites

type c15Hop struct {
	field string
	ce    *yang.Entry
}

// c15Site is one list field of one generated struct.
type c15Site struct {
	pkg       *reg.Pkg
	path      string   // schema path from the root, e.g. /top/l-ord-parent/ord-inner
	chain     []c15Hop // fields from the root struct down to the parent struct
	parentT   reflect.Type
	list      string // Go name of the list field
	ft        reflect.Type
	ce        *yang.Entry
	ordered   bool
	entryT    reflect.Type
	keyT      reflect.Type
	keyFields []string
	yangKeys  []string // the key fields in the order of the YANG key statement
}

func c15Sites(p *reg.Pkg) []*c15Site {
	root := p.NewRoot()
	rt := reflect.TypeOf(root).Elem()
	g := newTreeGen(rand.New(rand.NewSource(1)), p)
	g.root = root
	var out []*c15Site
	var walk func(t reflect.Type, e *yang.Entry, chain []c15Hop, path string, depth int)
	walk = func(t reflect.Type, e *yang.Entry, chain []c15Hop, path string, depth int) {
		if depth > 8 || e == nil {
			return
		}
		for i := 0; i < t.NumField(); i++ {
			f := t.Field(i)
			if _, ok := f.Tag.Lookup("path"); !ok {
				continue
			}
			ce, err := util.ChildSchema(e, f)
			if err != nil || ce == nil {
				continue
			}
			sub := path + "/" + ce.Name
			nchain := append(append([]c15Hop{}, chain...), c15Hop{field: f.Name, ce: ce})
			mk := func(ordered bool, entryT, keyT reflect.Type) {
				s := &c15Site{pkg: p, path: sub, chain: chain, parentT: t, list: f.Name, ft: f.Type, ce: ce,
					ordered: ordered, entryT: entryT, keyT: keyT}
				s.keyFields = g.keyFieldNames(entryT, ce)
				s.yangKeys = s.keyFields
				if keyT.Kind() == reflect.Struct && len(s.keyFields) > 1 {
					s.keyFields = nil
					for q := 0; q < keyT.NumField(); q++ {
						s.keyFields = append(s.keyFields, keyT.Field(q).Name)
					}
				}
				if len(s.keyFields) > 0 {
					out = append(out, s)
				}
			}
			switch {
			case isOrderedMapType(f.Type):
				et := entryTypeOfOrderedMap(f.Type)
				km, _ := f.Type.MethodByName("Keys")
				mk(true, et, km.Type.Out(0).Elem())
				walk(et, ce, nchain, sub, depth+1)
			case f.Type.Kind() == reflect.Map && ce.IsList():
				et := f.Type.Elem().Elem()
				mk(false, et, f.Type.Key())
				walk(et, ce, nchain, sub, depth+1)
			case f.Type.Kind() == reflect.Ptr && f.Type.Elem().Kind() == reflect.Struct && ce.IsDir():
				walk(f.Type.Elem(), ce, nchain, sub, depth+1)
			}
		}
	}
	walk(rt, p.SchemaTree[rt.Name()], nil, "", 0)
	return out
}

// c15MapKey builds the Go map key (scalar or key struct) from the key components.
func c15MapKey(keyT reflect.Type, comps []reflect.Value) reflect.Value {
	if keyT.Kind() == reflect.Struct && keyT.NumField() == len(comps) && len(comps) > 1 {
		k := reflect.New(keyT).Elem()
		for i, c := range comps {
			k.Field(i).Set(c)
		}
		return k
	}
	return comps[0]
}

// c15Materialize creates the chain of containers / list entries from root down to the parent
// struct of the site and returns the parent (a struct pointer).
func c15Materialize(root reflect.Value, chain []c15Hop, g *treeGen) (reflect.Value, error) {
	cur := root
	for _, h := range chain {
		f := cur.Elem().FieldByName(h.field)
		ft := f.Type()
		switch {
		case isOrderedMapType(ft):
			if f.IsNil() {
				f.Set(reflect.New(ft.Elem()))
			}
			ent, _, _ := g.newEntry(entryTypeOfOrderedMap(ft), h.ce, 9)
			if out := f.MethodByName("Append").Call([]reflect.Value{ent}); !out[0].IsNil() {
				return reflect.Value{}, fmt.Errorf("materialize %s: %v", h.field, out[0].Interface())
			}
			cur = ent
		case ft.Kind() == reflect.Map:
			m := reflect.MakeMap(ft)
			ent, keyVals, _ := g.newEntry(ft.Elem().Elem(), h.ce, 9)
			if len(keyVals) == 0 {
				return reflect.Value{}, fmt.Errorf("materialize %s: no key", h.field)
			}
			m.SetMapIndex(c15MapKey(ft.Key(), keyVals), ent)
			f.Set(m)
			cur = ent
		case ft.Kind() == reflect.Ptr:
			if f.IsNil() {
				f.Set(reflect.New(ft.Elem()))
			}
			cur = f
		default:
			return reflect.Value{}, fmt.Errorf("materialize %s: unexpected kind %v", h.field, ft.Kind())
		}
	}
	return cur, nil
}

// c15Navigate follows the chain in a tree that went through a round trip (every list on the
// way holds exactly the one entry c15Materialize made).
func c15Navigate(root reflect.Value, chain []c15Hop) (reflect.Value, bool) {
	cur := root
	for _, h := range chain {
		if cur.Kind() != reflect.Ptr || cur.IsNil() {
			return reflect.Value{}, false
		}
		f := cur.Elem().FieldByName(h.field)
		ft := f.Type()
		switch {
		case isOrderedMapType(ft):
			if f.IsNil() {
				return reflect.Value{}, false
			}
			vs := f.MethodByName("Values").Call(nil)[0]
			if vs.Len() != 1 {
				return reflect.Value{}, false
			}
			cur = vs.Index(0)
		case ft.Kind() == reflect.Map:
			if f.Len() != 1 {
				return reflect.Value{}, false
			}
			cur = f.MapIndex(f.MapKeys()[0])
		default:
			cur = f
		}
	}
	if cur.Kind() != reflect.Ptr || cur.IsNil() {
		return reflect.Value{}, false
	}
	return cur, true
}

// ---------------------------------------------------------------- key domains

func c15ValStr(v reflect.Value) string {
	if v.Kind() == reflect.Interface {
		if v.IsNil() {
			return "<unset>"
		}
		v = v.Elem()
	}
	if v.Kind() == reflect.Ptr {
		if v.IsNil() {
			return "<nil>"
		}
		return fmt.Sprintf("%s:%v", v.Type().Elem().Name(), v.Elem().Interface())
	}
	if v.Type().Implements(goEnumT) && v.Kind() == reflect.Int64 && v.Int() == 0 {
		return "<unset>"
	}
	return fmt.Sprintf("%s:%v", v.Type().Name(), v.Interface())
}

// c15Ident is the identity Go's == sees: the address for wrapper unions, the value otherwise.
func c15Ident(v reflect.Value) string {
	w := v
	if w.Kind() == reflect.Interface && !w.IsNil() {
		w = w.Elem()
	}
	if w.Kind() == reflect.Ptr && !w.IsNil() {
		return fmt.Sprintf("@%x", w.Pointer())
	}
	return c15ValStr(v)
}

type c15Key struct {
	comps []reflect.Value // one per key field, of the type the generated methods take
	ident string
	yang  string
	unset bool // a key leaf is unset (enum 0 / nil union)
	alias int  // index of an earlier key with the same YANG value (wrapper unions), or -1
}

type c15Dom struct {
	keys    []c15Key
	byIdent map[string]int
	ptr     []bool   // key field i is a pointer in the entry struct (Append checks it for nil)
	kinds   []string // "ptr" | "enum" | "union" per key field
}

func c15JoinKey(comps []reflect.Value) (ident, yang string) {
	var a, b []string
	for _, c := range comps {
		a = append(a, c15Ident(c))
		b = append(b, c15ValStr(c))
	}
	return strings.Join(a, "|"), strings.Join(b, "|")
}

func (d *c15Dom) add(comps []reflect.Value, unset bool, alias int) {
	id, y := c15JoinKey(comps)
	if _, dup := d.byIdent[id]; dup {
		return
	}
	d.byIdent[id] = len(d.keys)
	d.keys = append(d.keys, c15Key{comps: comps, ident: id, yang: y, unset: unset, alias: alias})
}

func (d *c15Dom) yangs() []string {
	var out []string
	for _, k := range d.keys {
		out = append(out, k.yang)
	}
	return out
}

// c15BuildDom draws a small key domain for the list: `want` keys for a single-key list; for a
// multi-key list the combinations of two values per key field (so that keys share components).
// Lists with an enum/union key get the key with that leaf unset as index 0; wrapper-union
// lists get, as last index, a second Go key with the same YANG value as key 1.
func c15BuildDom(s *c15Site, rng *rand.Rand, want int) (*c15Dom, error) {
	g := newTreeGen(rng, s.pkg)
	g.root = s.pkg.NewRoot()
	g.nastyStr = false
	g.pField = 0
	d := &c15Dom{byIdent: map[string]int{}}
	ent := reflect.New(s.entryT)
	per := want
	if len(s.keyFields) > 1 {
		per = 2
	}
	var vals [][]reflect.Value
	firstNonPtr := -1
	for i, kf := range s.keyFields {
		sf, ok := s.entryT.FieldByName(kf)
		if !ok {
			return nil, fmt.Errorf("%s: no key field %s", s.path, kf)
		}
		kce, err := util.ChildSchema(s.ce, sf)
		if err != nil || kce == nil {
			return nil, fmt.Errorf("%s: no schema for key %s", s.path, kf)
		}
		isPtr := sf.Type.Kind() == reflect.Ptr
		d.ptr = append(d.ptr, isPtr)
		switch {
		case isPtr:
			d.kinds = append(d.kinds, "ptr")
		case sf.Type.Kind() == reflect.Interface:
			d.kinds = append(d.kinds, "union")
		default:
			d.kinds = append(d.kinds, "enum")
		}
		if !isPtr && firstNonPtr < 0 {
			firstNonPtr = i
		}
		seen := map[string]bool{}
		var vs []reflect.Value
		for try := 0; try < 300 && len(vs) < per; try++ {
			v, ok := g.genLeafValue(ent, sf.Type, kce)
			if !ok {
				continue
			}
			if isPtr {
				v = v.Elem()
			}
			y := c15ValStr(v)
			if seen[y] || y == "<unset>" {
				continue
			}
			seen[y] = true
			vs = append(vs, v)
		}
		if len(vs) == 0 {
			return nil, fmt.Errorf("%s: no value for key %s", s.path, kf)
		}
		vals = append(vals, vs)
	}
	tuple := func(ix []int) []reflect.Value {
		var c []reflect.Value
		for i, j := range ix {
			c = append(c, vals[i][j%len(vals[i])])
		}
		return c
	}
	if firstNonPtr >= 0 {
		c := tuple(make([]int, len(vals)))
		sf, _ := s.entryT.FieldByName(s.keyFields[firstNonPtr])
		c[firstNonPtr] = reflect.Zero(sf.Type)
		d.add(c, true, -1)
	}
	switch len(vals) {
	case 1:
		for j := range vals[0] {
			d.add(tuple([]int{j}), false, -1)
		}
	case 2:
		for _, ix := range [][]int{{0, 0}, {0, 1}, {1, 0}, {1, 1}} {
			d.add(tuple(ix), false, -1)
		}
	default:
		ix := make([]int, len(vals))
		d.add(tuple(ix), false, -1)
		for i := len(vals) - 1; i >= 0; i-- {
			jx := make([]int, len(vals))
			jx[i] = 1
			d.add(tuple(jx), false, -1)
		}
	}
	if want < len(d.keys) && len(vals) > 1 {
		// exhaustive scopes ask for exactly `want` keys
		d.keys = d.keys[:want]
		d.byIdent = map[string]int{}
		for i, k := range d.keys {
			d.byIdent[k.ident] = i
		}
	}
	// wrapper unions: a distinct Go key (another wrapper struct) with the YANG value of key 1
	base := 0
	if firstNonPtr >= 0 {
		base = 1
	}
	if base < len(d.keys) {
		var c []reflect.Value
		aliased := false
		for _, v := range d.keys[base].comps {
			w := v
			if w.Kind() == reflect.Interface && !w.IsNil() && w.Elem().Kind() == reflect.Ptr {
				p := reflect.New(w.Elem().Type().Elem())
				p.Elem().Set(w.Elem().Elem())
				nv := reflect.New(v.Type()).Elem()
				nv.Set(p)
				c = append(c, nv)
				aliased = true
			} else {
				c = append(c, v)
			}
		}
		if aliased {
			d.add(c, false, base)
		}
	}
	return d, nil
}

// c15DomFor memoises the last domain built (exhaustive scopes reuse one domain for millions
// of sequences; domain values are never written to).
var c15DomLast struct {
	key string
	dom *c15Dom
}

func c15DomFor(s *c15Site, seed int64, want int) (*c15Dom, error) {
	key := fmt.Sprintf("%s%s#%d#%d", s.pkg.Name, s.path, seed, want)
	if c15DomLast.key == key {
		return c15DomLast.dom, nil
	}
	d, err := c15BuildDom(s, rand.New(rand.NewSource(seed)), want)
	if err != nil {
		return nil, err
	}
	c15DomLast.key, c15DomLast.dom = key, d
	return d, nil
}

// ---------------------------------------------------------------- running generated methods

func c15Call(m reflect.Value, args []reflect.Value) (out []reflect.Value, panicked bool, msg string) {
	defer func() {
		if r := recover(); r != nil {
			out, panicked, msg = nil, true, fmt.Sprint(r)
		}
	}()
	return m.Call(args), false, ""
}

// c15Op is one call of a sequence (JSON form = Finding.Input / replay file).
type c15Op struct {
	Op     string `json:"op"`
	K      int    `json:"k"`                // key index (entry key for Append)
	K2     int    `json:"k2,omitempty"`     // new key of Rename
	NilF   int    `json:"nilf,omitempty"`   // 1+index of the key field left nil in the appended entry (0: none)
	NilEnt bool   `json:"nilent,omitempty"` // Append(nil)
}

type c15Input struct {
	Pkg     string   `json:"pkg"`
	List    string   `json:"list"`
	DomSeed int64    `json:"domseed"`
	DomSize int      `json:"domsize"`
	Dom     []string `json:"domain,omitempty"`
	Ops     []c15Op  `json:"ops"`
}

// c15Run is the per-sequence state shared by both streams.
type c15Run struct {
	site   *c15Site
	dom    *c15Dom
	sum    *Summary
	parent reflect.Value
	ids    map[uintptr]int
	next   int
	input  *c15Input
	stop   bool // the reference diverged: later steps of this sequence are not judged
}

func (r *c15Run) reset(parent reflect.Value) {
	r.parent = parent
	r.ids = map[uintptr]int{}
	r.next = 1
	r.stop = false
}

func (r *c15Run) idOf(p reflect.Value) int {
	if id, ok := r.ids[p.Pointer()]; ok {
		return id
	}
	return -1
}

func (r *c15Run) register(p reflect.Value, id int) { r.ids[p.Pointer()] = id }

func (r *c15Run) fresh() int { r.next++; return r.next - 1 }

// mkEntry builds a fresh entry struct carrying key k; nilF (1-based) leaves that pointer key
// field nil.
func (r *c15Run) mkEntry(k, nilF int) reflect.Value {
	ent := reflect.New(r.site.entryT)
	for i, kf := range r.site.keyFields {
		if i+1 == nilF {
			continue
		}
		fv := ent.Elem().FieldByName(kf)
		c := r.dom.keys[k].comps[i]
		if fv.Kind() == reflect.Ptr {
			p := reflect.New(fv.Type().Elem())
			p.Elem().Set(c)
			fv.Set(p)
		} else {
			fv.Set(c)
		}
	}
	return ent
}

// entryKey abstracts the key fields of an entry: (index, true), or (_, false) when a pointer
// key field is nil. An entry whose key is outside the domain gets index 99.
func (r *c15Run) entryKey(ent reflect.Value) (int, bool, string) {
	var comps []reflect.Value
	for _, kf := range r.site.keyFields {
		fv := ent.Elem().FieldByName(kf)
		if fv.Kind() == reflect.Ptr {
			if fv.IsNil() {
				return 0, false, ""
			}
			fv = fv.Elem()
		}
		comps = append(comps, fv)
	}
	id, y := c15JoinKey(comps)
	if i, ok := r.dom.byIdent[id]; ok {
		return i, true, y
	}
	return 99, true, y
}

func (r *c15Run) goKeyIdx(k reflect.Value) (int, string) {
	id, y := c15JoinKey(keyValues(k))
	if i, ok := r.dom.byIdent[id]; ok {
		return i, y
	}
	return 99, y
}

// entTerm prints an entry pointer as a Coq om_e term (ENil = nil pointer).
func (r *c15Run) entTerm(p reflect.Value) string {
	if p.IsNil() {
		return "ENil"
	}
	return r.entPair(p)
}

func (r *c15Run) entPair(p reflect.Value) string {
	k, ok, _ := r.entryKey(p)
	id := r.idOf(p)
	if id < 0 {
		id = 9999
	}
	if !ok {
		return fmt.Sprintf("(EN %d)", id)
	}
	return fmt.Sprintf("(E %d %d)", k, id)
}

// binding prints one (key, entry) pair of a state dump: S k id when the entry carries key k.
func (r *c15Run) binding(ki int, ent reflect.Value) string {
	if !ent.IsNil() {
		if ek, ok, _ := r.entryKey(ent); ok && ek == ki && r.idOf(ent) >= 0 {
			return fmt.Sprintf("S %d %d", ki, r.idOf(ent))
		}
	}
	return fmt.Sprintf("B %d %s", ki, r.entTerm(ent))
}

func (r *c15Run) finding(sig, what string, step int, obs, exp interface{}) {
	in := *r.input
	if step >= 0 && step+1 < len(in.Ops) {
		in.Ops = in.Ops[:step+1]
	}
	in.Dom = r.dom.yangs()
	r.sum.finding(Finding{Signature: sig, What: fmt.Sprintf("%s %s step %d: %s", r.site.pkg.Name, r.site.path, step, what), Input: in, Observed: obs, Expected: exp})
}

// ---------------------------------------------------------------- the ordered-map runner

type c15RefEnt struct {
	key string // YANG key value
	id  int
}

// c15Ref is the reference insertion-ordered map (the oracle): alloc tells whether the parent's
// field is set.
type c15Ref struct {
	alloc bool
	ents  []c15RefEnt
}

func (f *c15Ref) find(k string) int {
	for i, e := range f.ents {
		if e.key == k {
			return i
		}
	}
	return -1
}

func (f *c15Ref) keys() []string {
	out := []string{}
	for _, e := range f.ents {
		out = append(out, e.key)
	}
	return out
}

func (f *c15Ref) idsOf() []int {
	out := []int{}
	for _, e := range f.ents {
		out = append(out, e.id)
	}
	return out
}

// ordState reads the ordered map through Keys()/Values(): Coq dump term, key order (YANG
// values) and entry ids. It also mutates the returned slices to check that they are copies.
func (r *c15Run) ordState(step int, judge bool) (term string, keys []string, ids []int, isNil bool) {
	f := r.parent.Elem().FieldByName(r.site.list)
	if f.IsNil() {
		return "DNil", []string{}, []int{}, true
	}
	ks := f.MethodByName("Keys").Call(nil)[0]
	vs := f.MethodByName("Values").Call(nil)[0]
	keys, ids = []string{}, []int{}
	var items []string
	for i := 0; i < ks.Len(); i++ {
		ki, y := r.goKeyIdx(ks.Index(i))
		keys = append(keys, y)
		if i < vs.Len() {
			items = append(items, r.binding(ki, vs.Index(i)))
			if vs.Index(i).IsNil() {
				ids = append(ids, -1)
			} else {
				ids = append(ids, r.idOf(vs.Index(i)))
			}
		} else {
			items = append(items, fmt.Sprintf("B %d ENil", ki))
			ids = append(ids, -1)
		}
	}
	if judge && vs.Len() != ks.Len() {
		r.finding("state/keys-values-length", "len(Keys()) != len(Values())", step, vs.Len(), ks.Len())
	}
	if judge && ks.Len() > 0 {
		// Keys()/Values() must be copies: scribble over them and read again
		r.sum.OracleRuns++
		n := ks.Len()
		zero := reflect.Zero(ks.Type().Elem())
		last := reflect.New(ks.Type().Elem()).Elem()
		last.Set(ks.Index(n - 1))
		for i := 0; i < n; i++ {
			ks.Index(i).Set(zero)
		}
		ks.Index(0).Set(last)
		ks2 := f.MethodByName("Keys").Call(nil)[0]
		var again []string
		for i := 0; i < ks2.Len(); i++ {
			_, y := r.goKeyIdx(ks2.Index(i))
			again = append(again, y)
		}
		if !reflect.DeepEqual(again, keys) {
			r.finding("alias/keys", "writing into the slice returned by Keys() changed the ordered map", step, again, keys)
		}
		for i := 0; i < vs.Len(); i++ {
			vs.Index(i).Set(reflect.Zero(vs.Type().Elem()))
		}
		vs2 := f.MethodByName("Values").Call(nil)[0]
		var againIDs []int
		for i := 0; i < vs2.Len(); i++ {
			if vs2.Index(i).IsNil() {
				againIDs = append(againIDs, -1)
			} else {
				againIDs = append(againIDs, r.idOf(vs2.Index(i)))
			}
		}
		if !reflect.DeepEqual(againIDs, ids) {
			r.finding("alias/values", "writing into the slice returned by Values() changed the ordered map", step, againIDs, ids)
		}
	}
	return "(D " + coqList(items) + ")", keys, ids, false
}

// runOrdered executes the sequence on the parent, returns the Coq steps term.
func (r *c15Run) runOrdered(ops []c15Op, emit bool) string {
	ref := &c15Ref{}
	var steps []string
	prevDump := "DNil"
	for si, op := range ops {
		f := r.parent.Elem().FieldByName(r.site.list) // *X_OrderedMap, possibly nil
		key := func(i int) *c15Key { return &r.dom.keys[i] }
		var opT, outT string
		diverge := func(what string, obs, exp interface{}) {
			if !r.stop {
				r.finding("refmodel/"+op.Op, what, si, obs, exp)
				r.stop = true
			}
		}
		judge := !r.stop
		if judge {
			r.sum.OracleRuns++
		}
		parentOp := strings.HasPrefix(op.Op, "P")
		base := strings.TrimPrefix(op.Op, "P")
		if op.Op == "PGetOrCreateMap" {
			base = "GetOrCreateMap"
		}
		switch base {
		case "Append":
			var ent reflect.Value
			var entT string
			wantErr := ""
			id := 0
			if op.NilEnt {
				ent = reflect.Zero(reflect.PtrTo(r.site.entryT))
				entT = "ENil"
				wantErr = "nil entry"
			} else {
				ent = r.mkEntry(op.K, op.NilF)
				id = r.fresh()
				r.register(ent, id)
				entT = r.entPair(ent)
				switch {
				case op.NilF > 0:
					wantErr = "nil key"
				case key(op.K).unset:
					wantErr = "unset key"
				case ref.find(key(op.K).yang) >= 0:
					wantErr = "duplicate key"
				}
			}
			var out []reflect.Value
			var pan bool
			var msg string
			if parentOp {
				opT = "YAppend " + entT
				out, pan, msg = c15Call(r.parent.MethodByName("Append"+r.site.list), []reflect.Value{ent})
				ref.alloc = true
			} else {
				opT = "XAppend " + entT
				out, pan, msg = c15Call(f.MethodByName("Append"), []reflect.Value{ent})
				if !ref.alloc {
					wantErr = "nil receiver"
				}
			}
			gotErr := pan || !out[0].IsNil()
			outT = map[bool]string{true: "RErr", false: "ROk"}[gotErr]
			if pan {
				r.finding("panic/"+op.Op, msg, si, nil, nil)
			}
			if judge && gotErr != (wantErr != "") {
				sig := "append"
				if wantErr == "unset key" {
					r.finding("append-accepts-unset-key/"+strings.Join(r.dom.kinds, "+"), "Append accepted an entry whose key leaf is unset", si, "ok", "error")
					r.stop = true
				} else {
					diverge(sig+": error mismatch", gotErr, wantErr)
				}
			}
			if !gotErr && wantErr == "" {
				ref.ents = append(ref.ents, c15RefEnt{key: key(op.K).yang, id: id})
			}
		case "AppendNew":
			t := r.next
			wantErr := ref.find(key(op.K).yang) >= 0
			var out []reflect.Value
			var pan bool
			var msg string
			if parentOp {
				opT = fmt.Sprintf("YAppendNew %d %d", op.K, t)
				out, pan, msg = c15Call(r.parent.MethodByName("AppendNew"+r.site.list), key(op.K).comps)
				ref.alloc = true
			} else {
				opT = fmt.Sprintf("XAppendNew %d %d", op.K, t)
				out, pan, msg = c15Call(f.MethodByName("AppendNew"), key(op.K).comps)
				if !ref.alloc {
					wantErr = true
				}
			}
			if pan {
				r.finding("panic/"+op.Op, msg, si, nil, nil)
				outT = "RErr"
				break
			}
			gotErr := !out[1].IsNil()
			if gotErr {
				outT = "RErr"
				if !out[0].IsNil() {
					r.finding("refmodel/"+op.Op, "AppendNew returned an entry together with an error", si, nil, nil)
				}
			} else {
				if out[0].IsNil() {
					outT = "REnt ENil"
				} else {
					if r.idOf(out[0]) < 0 {
						r.register(out[0], r.fresh())
					}
					outT = "REnt " + r.entTerm(out[0])
				}
			}
			if judge && gotErr != wantErr {
				diverge("appendnew: error mismatch", gotErr, wantErr)
			}
			if !gotErr && !wantErr && !out[0].IsNil() {
				ki, ok, y := r.entryKey(out[0])
				if judge && (!ok || ki != op.K || y != key(op.K).yang) {
					diverge("appendnew: the new entry does not carry the requested key", y, key(op.K).yang)
				}
				ref.ents = append(ref.ents, c15RefEnt{key: key(op.K).yang, id: r.idOf(out[0])})
			}
		case "Delete":
			var out []reflect.Value
			var pan bool
			var msg string
			if parentOp {
				opT = fmt.Sprintf("YDelete %d", op.K)
				out, pan, msg = c15Call(r.parent.MethodByName("Delete"+r.site.list), key(op.K).comps)
			} else {
				opT = fmt.Sprintf("XDelete %d", op.K)
				out, pan, msg = c15Call(f.MethodByName("Delete"), []reflect.Value{c15MapKey(r.site.keyT, key(op.K).comps)})
			}
			if pan {
				r.finding("panic/"+op.Op, msg, si, nil, nil)
				outT = "RBool false"
				break
			}
			got := out[0].Bool()
			outT = "RBool " + coqBool(got)
			i := ref.find(key(op.K).yang)
			if judge && got != (i >= 0) {
				diverge("delete: result mismatch", got, i >= 0)
			}
			if i >= 0 {
				ref.ents = append(ref.ents[:i:i], ref.ents[i+1:]...)
			}
		case "Get":
			var out []reflect.Value
			var pan bool
			var msg string
			if parentOp {
				opT = fmt.Sprintf("YGet %d", op.K)
				out, pan, msg = c15Call(r.parent.MethodByName("Get"+r.site.list), key(op.K).comps)
			} else {
				opT = fmt.Sprintf("XGet %d", op.K)
				out, pan, msg = c15Call(f.MethodByName("Get"), []reflect.Value{c15MapKey(r.site.keyT, key(op.K).comps)})
			}
			if pan {
				r.finding("panic/"+op.Op, msg, si, nil, nil)
				outT = "REnt ENil"
				break
			}
			outT = "REnt " + r.entTerm(out[0])
			i := ref.find(key(op.K).yang)
			if judge {
				switch {
				case i < 0 && !out[0].IsNil():
					diverge("get: found an entry for an absent key", r.idOf(out[0]), nil)
				case i >= 0 && (out[0].IsNil() || r.idOf(out[0]) != ref.ents[i].id):
					diverge("get: wrong entry", r.entTerm(out[0]), ref.ents[i].id)
				}
			}
		case "Keys":
			opT = "XKeys"
			out, pan, msg := c15Call(f.MethodByName("Keys"), nil)
			if pan {
				r.finding("panic/"+op.Op, msg, si, nil, nil)
				outT = "RKeysNil"
				break
			}
			var items []string
			got := []string{}
			for i := 0; i < out[0].Len(); i++ {
				ki, y := r.goKeyIdx(out[0].Index(i))
				items = append(items, fmt.Sprint(ki))
				got = append(got, y)
			}
			if out[0].IsNil() {
				outT = "RKeysNil"
			} else {
				outT = "RKeys " + coqList(items)
			}
			if judge && !reflect.DeepEqual(got, ref.keys()) {
				diverge("keys: wrong order or content", got, ref.keys())
			}
		case "Values":
			opT = "XValues"
			out, pan, msg := c15Call(f.MethodByName("Values"), nil)
			if pan {
				r.finding("panic/"+op.Op, msg, si, nil, nil)
				outT = "RValsNil"
				break
			}
			var items []string
			got := []int{}
			for i := 0; i < out[0].Len(); i++ {
				items = append(items, r.entTerm(out[0].Index(i)))
				if out[0].Index(i).IsNil() {
					got = append(got, -1)
				} else {
					got = append(got, r.idOf(out[0].Index(i)))
				}
			}
			if out[0].IsNil() {
				outT = "RValsNil"
			} else {
				outT = "RVals " + coqList(items)
			}
			if judge && !reflect.DeepEqual(got, ref.idsOf()) {
				diverge("values: wrong order or content", got, ref.idsOf())
			}
		case "Len":
			opT = "XLen"
			out, pan, msg := c15Call(f.MethodByName("Len"), nil)
			if pan {
				r.finding("panic/"+op.Op, msg, si, nil, nil)
				outT = "RLen 0"
				break
			}
			outT = fmt.Sprintf("RLen %d", out[0].Int())
			if judge && int(out[0].Int()) != len(ref.ents) {
				diverge("len mismatch", out[0].Int(), len(ref.ents))
			}
		case "GetOrCreateMap":
			opT = "YMap"
			out, pan, msg := c15Call(r.parent.MethodByName("GetOrCreate"+r.site.list+"Map"), nil)
			outT = "ROk"
			ref.alloc = true
			if pan {
				r.finding("panic/"+op.Op, msg, si, nil, nil)
				break
			}
			nf := r.parent.Elem().FieldByName(r.site.list)
			if judge && (out[0].IsNil() || out[0].Pointer() != nf.Pointer()) {
				diverge("GetOrCreateMap did not return the parent's field", nil, nil)
			}
		default:
			panic("unknown op " + op.Op)
		}
		dump, keys, ids, isNil := r.ordState(si, !r.stop)
		if !r.stop {
			if !reflect.DeepEqual(keys, ref.keys()) || !reflect.DeepEqual(ids, ref.idsOf()) || isNil == ref.alloc {
				r.finding("state/"+op.Op, "ordered map differs from the reference insertion-ordered map after the call", si,
					map[string]interface{}{"keys": keys, "ids": ids, "nil": isNil}, map[string]interface{}{"keys": ref.keys(), "ids": ref.idsOf(), "nil": !ref.alloc})
				r.stop = true
			}
		}
		if emit {
			if dump == prevDump {
				dump = "DSame"
			} else {
				prevDump = dump
			}
			steps = append(steps, fmt.Sprintf("OS (%s) (%s) %s", opT, outT, dump))
		}
	}
	return coqList(steps)
}

// ---------------------------------------------------------------- order through round trips

func (r *c15Run) orderAt(root reflect.Value) ([]string, bool) {
	p, ok := c15Navigate(root, r.site.chain)
	if !ok {
		return nil, false
	}
	f := p.Elem().FieldByName(r.site.list)
	out := []string{}
	if f.IsNil() {
		return out, true
	}
	ks := f.MethodByName("Keys").Call(nil)[0]
	for i := 0; i < ks.Len(); i++ {
		_, y := c15JoinKey(keyValues(ks.Index(i)))
		out = append(out, y)
	}
	return out, true
}

func c15ErrCause(err error) string {
	s := err.Error()
	switch {
	case strings.Contains(s, "nested `ordered-by user`"):
		return "nested-ordered-list-unsupported"
	case strings.Contains(s, "int64") || strings.Contains(s, "Int64"):
		return "int64-key"
	case strings.Contains(s, "leafref"):
		return "leafref"
	}
	return "other"
}

func (r *c15Run) roundTrips(root reflect.Value) {
	want, ok := r.orderAt(root)
	if !ok {
		return
	}
	for _, y := range want {
		// an entry stored under an unset key (known finding append-accepts-unset-key) cannot be
		// rendered at all; its downstream effects are not separate violations
		if strings.Contains(y, "<unset>") {
			return
		}
	}
	check := func(kind string, got []string, ok bool) {
		r.sum.OracleRuns++
		r.sum.count("roundtrip", kind)
		if !ok {
			if len(want) > 0 {
				r.finding("roundtrip/"+kind+"-lost", "the ordered list is gone after the round trip", -1, nil, want)
			}
			return
		}
		if !reflect.DeepEqual(got, want) {
			r.finding("roundtrip/"+kind+"-order", "key order changed by the round trip", -1, got, want)
		}
	}
	safely := func(kind string, fn func() (reflect.Value, error)) {
		defer func() {
			if p := recover(); p != nil {
				r.finding("roundtrip/"+kind+"-panic", fmt.Sprint(p), -1, nil, want)
			}
		}()
		nr, err := fn()
		if err != nil {
			r.finding("roundtrip/"+kind+"-error/"+c15ErrCause(err), err.Error(), -1, nil, want)
			return
		}
		got, ok := r.orderAt(nr)
		check(kind, got, ok)
	}
	gs := root.Interface().(ygot.GoStruct)
	safely("deepcopy", func() (reflect.Value, error) {
		cp, err := ygot.DeepCopy(gs)
		if err != nil {
			return reflect.Value{}, err
		}
		return reflect.ValueOf(cp), nil
	})
	safely("json", func() (reflect.Value, error) {
		js, err := ygot.Marshal7951(gs, &ygot.RFC7951JSONConfig{AppendModuleName: true})
		if err != nil {
			return reflect.Value{}, fmt.Errorf("marshal: %v", err)
		}
		nr := r.site.pkg.NewRoot()
		if err := r.site.pkg.Unmarshal(js, nr); err != nil {
			return reflect.Value{}, fmt.Errorf("unmarshal: %v", err)
		}
		return reflect.ValueOf(nr), nil
	})
	safely("gnmi", func() (reflect.Value, error) {
		ns, err := ygot.TogNMINotifications(gs, 1, ygot.GNMINotificationsConfig{UsePathElem: true})
		if err != nil {
			return reflect.Value{}, fmt.Errorf("render: %v", err)
		}
		sch := &ytypes.Schema{Root: r.site.pkg.NewRoot(), SchemaTree: r.site.pkg.SchemaTree, Unmarshal: r.site.pkg.Unmarshal}
		if err := ytypes.UnmarshalNotifications(sch, ns); err != nil {
			return reflect.Value{}, fmt.Errorf("unmarshal: %v", err)
		}
		return reflect.ValueOf(sch.Root), nil
	})
}

// ---------------------------------------------------------------- generation

func c15GenOrdOps(rng *rand.Rand, d *c15Dom, maxLen int) []c15Op {
	n := 1 + rng.Intn(maxLen)
	var ops []c15Op
	nk := len(d.keys)
	var ptrs []int
	for i, p := range d.ptr {
		if p {
			ptrs = append(ptrs, i+1)
		}
	}
	appendOp := func(name string) c15Op {
		o := c15Op{Op: name, K: rng.Intn(nk)}
		switch x := rng.Intn(20); {
		case x == 0:
			o.NilEnt = true
		case x <= 2 && len(ptrs) > 0:
			o.NilF = pick(rng, ptrs)
		}
		return o
	}
	for i := 0; i < n; i++ {
		if i == 0 && rng.Intn(10) < 6 {
			ops = append(ops, pick(rng, []c15Op{{Op: "PGetOrCreateMap"}, appendOp("PAppend"), {Op: "PAppendNew", K: rng.Intn(nk)}}))
			continue
		}
		switch x := rng.Intn(100); {
		case x < 22:
			ops = append(ops, appendOp("Append"))
		case x < 38:
			ops = append(ops, c15Op{Op: "AppendNew", K: rng.Intn(nk)})
		case x < 53:
			ops = append(ops, c15Op{Op: "Delete", K: rng.Intn(nk)})
		case x < 62:
			ops = append(ops, c15Op{Op: "Get", K: rng.Intn(nk)})
		case x < 67:
			ops = append(ops, c15Op{Op: "Keys"})
		case x < 72:
			ops = append(ops, c15Op{Op: "Values"})
		case x < 76:
			ops = append(ops, c15Op{Op: "Len"})
		case x < 78:
			ops = append(ops, c15Op{Op: "PGetOrCreateMap"})
		case x < 84:
			ops = append(ops, c15Op{Op: "PAppendNew", K: rng.Intn(nk)})
		case x < 91:
			ops = append(ops, appendOp("PAppend"))
		case x < 96:
			ops = append(ops, c15Op{Op: "PGet", K: rng.Intn(nk)})
		default:
			ops = append(ops, c15Op{Op: "PDelete", K: rng.Intn(nk)})
		}
	}
	return ops
}

func c15OpsKey(ops []c15Op) string {
	var b strings.Builder
	for _, o := range ops {
		fmt.Fprintf(&b, "%s%d.%d.%d.%v;", o.Op, o.K, o.K2, o.NilF, o.NilEnt)
	}
	return b.String()
}

// c15AllSites lists the sites of all registered packages (ordered or keyed).
func c15AllSites(ordered bool) []*c15Site {
	var out []*c15Site
	for _, name := range reg.Names() {
		for _, s := range c15Sites(reg.Get(name)) {
			if s.ordered == ordered {
				out = append(out, s)
			}
		}
	}
	sort.SliceStable(out, func(i, j int) bool {
		if out[i].pkg.Name != out[j].pkg.Name {
			return out[i].pkg.Name < out[j].pkg.Name
		}
		return out[i].path < out[j].path
	})
	return out
}

func c15FindSite(sites []*c15Site, pkg, path string) *c15Site {
	for _, s := range sites {
		if s.pkg.Name == pkg && s.path == path {
			return s
		}
	}
	return nil
}

func c15ReadReplay(file string) (*c15Input, error) {
	b, err := os.ReadFile(file)
	if err != nil {
		return nil, err
	}
	var wrap struct {
		Case json.RawMessage `json:"case"`
	}
	if err := json.Unmarshal(b, &wrap); err != nil {
		return nil, err
	}
	in := &c15Input{}
	if err := json.Unmarshal(wrap.Case, in); err != nil {
		return nil, err
	}
	return in, nil
}

func c15OrdmapStream(rng *rand.Rand, n int, tier string, out string) (*Summary, error) {
	sum := &Summary{Rule: "one case = one sequence of 1..30 calls (Append incl. nil entry / nil key field / duplicate and absent keys, AppendNew, Delete, Get, Keys, Values, Len on the ordered map, which starts as a nil pointer; GetOrCreateXMap, AppendNewX, AppendX, GetX, DeleteX on the parent) on one `ordered-by user` list of one generated package, over a domain of 4 keys drawn per case; after every call the full Keys()/Values() content is recorded. A case is non-trivial if it holds an accepted and a rejected append and a successful Delete; distinct by (list, sequence). thorough: on vmain_u /top/l-ord and /top/l-ord-multi ALL sequences of length <= 5 of the 10 state-changing calls (Append/AppendNew/Delete of 3 keys, Append with a nil key field), each once through the parent helpers and once through the methods of the ordered map, are judged by the oracle (in parallel); those of length <= 3 and 400 sampled longer ones per list also go through the model, the sampled ones through the round trips."}
	cf := &caseFile{header: "From Ygot Require Import Base.Base Gen.OrderedMap Corr.OrdMapCorr.", typ: "om_case", fn: "mismatches"}
	sites := c15AllSites(true)
	if len(sites) == 0 {
		return nil, fmt.Errorf("no ordered list in the registered packages")
	}
	seen := map[string]bool{}
	id := 0
	runCase := func(s *c15Site, domSeed int64, domSize int, ops []c15Op, emit, trips bool, kind string) error {
		d, err := c15DomFor(s, domSeed, domSize)
		if err != nil {
			return err
		}
		ops = append([]c15Op{}, ops...)
		for i := range ops {
			ops[i].K %= len(d.keys)
			ops[i].K2 %= len(d.keys)
			if ops[i].NilF > 0 && !d.ptr[(ops[i].NilF-1)%len(d.ptr)] {
				ops[i].NilF = 0
			}
		}
		g := newTreeGen(rand.New(rand.NewSource(domSeed+1)), s.pkg)
		g.root = s.pkg.NewRoot()
		g.pField = 0
		g.nastyStr = false
		root := reflect.ValueOf(s.pkg.NewRoot())
		parent, err := c15Materialize(root, s.chain, g)
		if err != nil {
			return err
		}
		r := &c15Run{site: s, dom: d, sum: sum, input: &c15Input{Pkg: s.pkg.Name, List: s.path, DomSeed: domSeed, DomSize: domSize, Ops: ops}}
		r.reset(parent)
		term := r.runOrdered(ops, emit)
		if trips {
			r.roundTrips(root)
		}
		if emit {
			cf.add(fmt.Sprintf("OCase %d %s", id, term))
			id++
		}
		sum.count("kind", kind)
		sum.count("list", s.pkg.Name+s.path)
		sum.count("length", fmt.Sprintf("%02d", len(ops)/5*5))
		for _, o := range ops {
			sum.count("op", o.Op)
		}
		key := s.pkg.Name + s.path + "#" + c15OpsKey(ops)
		if !seen[key] && emit {
			seen[key] = true
			if c15OrdNontrivial(ops) {
				sum.Nontrivial++
			}
		}
		if emit {
			sum.sample(map[string]interface{}{"list": s.pkg.Name + s.path, "domain": d.yangs(), "ops": ops})
		}
		return nil
	}

	if replayFile != "" {
		in, err := c15ReadReplay(replayFile)
		if err != nil {
			return nil, err
		}
		s := c15FindSite(sites, in.Pkg, in.List)
		if s == nil {
			return nil, fmt.Errorf("replay: no ordered list %s %s", in.Pkg, in.List)
		}
		if err := runCase(s, in.DomSeed, in.DomSize, in.Ops, true, true, "replay"); err != nil {
			return nil, err
		}
		sum.Cases = id
		files, err := cf.write(out, "ordmap", 400)
		sum.Extra = map[string]interface{}{"case_files": files}
		return sum, err
	}

	// hand-picked sequences first (every site)
	for _, s := range sites {
		corner := [][]c15Op{
			{{Op: "Keys"}, {Op: "Values"}, {Op: "Len"}, {Op: "Get", K: 0}, {Op: "Delete", K: 0}, {Op: "Append", K: 0}, {Op: "AppendNew", K: 0}, {Op: "PGet", K: 0}, {Op: "PDelete", K: 0}},
			{{Op: "PAppend", K: 0, NilF: 1}, {Op: "Keys"}, {Op: "Values"}, {Op: "Len"}},
			{{Op: "PAppend", NilEnt: true}, {Op: "Append", NilEnt: true}},
			{{Op: "PAppendNew", K: 2}, {Op: "PAppendNew", K: 0}, {Op: "PAppendNew", K: 1}, {Op: "Append", K: 0}, {Op: "AppendNew", K: 1}, {Op: "Delete", K: 0}, {Op: "Append", K: 0}, {Op: "Keys"}, {Op: "Values"}, {Op: "Delete", K: 1}, {Op: "Delete", K: 1}, {Op: "Delete", K: 2}, {Op: "Delete", K: 0}, {Op: "Values"}, {Op: "Keys"}, {Op: "Len"}},
			{{Op: "PGetOrCreateMap"}, {Op: "Append", K: 3}, {Op: "Append", K: 1}, {Op: "Append", K: 2}, {Op: "Append", K: 0}, {Op: "PDelete", K: 1}, {Op: "PAppend", K: 1}, {Op: "PGet", K: 1}, {Op: "Get", K: 3}},
		}
		for _, ops := range corner {
			if err := runCase(s, rng.Int63(), 4, ops, true, true, "corner"); err != nil {
				return nil, err
			}
		}
	}
	for i := 0; id < n; i++ {
		s := sites[i%len(sites)]
		domSeed := rng.Int63()
		d, err := c15DomFor(s, domSeed, 4)
		if err != nil {
			return nil, err
		}
		ops := c15GenOrdOps(rng, d, 30)
		if err := runCase(s, domSeed, 4, ops, true, true, "random"); err != nil {
			return nil, err
		}
	}
	if tier == "thorough" {
		exh := 0
		for _, path := range []string{"/top/l-ord", "/top/l-ord-multi"} {
			s := c15FindSite(sites, "vmain_u", path)
			if s == nil {
				s = sites[0]
			}
			domSeed := rng.Int63()
			d, err := c15DomFor(s, domSeed, 3)
			if err != nil {
				return nil, err
			}
			var alpha []c15Op
			for k := 0; k < 3 && k < len(d.keys); k++ {
				alpha = append(alpha, c15Op{Op: "PAppend", K: k}, c15Op{Op: "PAppendNew", K: k}, c15Op{Op: "PDelete", K: k})
			}
			alpha = append(alpha, c15Op{Op: "PAppend", K: 0, NilF: 1})
			// direct: the same calls through the methods of the ordered map, after GetOrCreateXMap
			direct := func(ops []c15Op) []c15Op {
				out := []c15Op{{Op: "PGetOrCreateMap"}}
				for _, o := range ops {
					o.Op = strings.TrimPrefix(o.Op, "P")
					out = append(out, o)
				}
				return out
			}
			// (a) through the model: every sequence of length <= 3 (alternating parent helpers /
			// direct methods) and a sample of the longer ones, these also through the round trips
			seq := 0
			var emitRec func(prefix []c15Op, depth int) error
			emitRec = func(prefix []c15Op, depth int) error {
				if len(prefix) > 0 {
					seq++
					ops := append([]c15Op{}, prefix...)
					if seq%2 == 1 {
						ops = direct(ops)
					}
					if err := runCase(s, domSeed, 3, ops, true, false, "exhaustive<=3"); err != nil {
						return err
					}
				}
				if depth == 0 {
					return nil
				}
				for _, o := range alpha {
					if err := emitRec(append(prefix[:len(prefix):len(prefix)], o), depth-1); err != nil {
						return err
					}
				}
				return nil
			}
			if err := emitRec(nil, 3); err != nil {
				return nil, err
			}
			for i := 0; i < 400; i++ {
				var ops []c15Op
				for n := 4 + rng.Intn(2); n > 0; n-- {
					ops = append(ops, pick(rng, alpha))
				}
				if i%2 == 1 {
					ops = direct(ops)
				}
				if err := runCase(s, domSeed, 3, ops, true, true, "exhaustive-sample"); err != nil {
					return nil, err
				}
			}
			// (b) through the oracle: ALL sequences of length <= 5, both ways, in parallel
			exh += c15Exhaust(sum, alpha, 1, 5, func(ls *Summary, ops []c15Op) int {
				for v := 0; v < 2; v++ {
					seqOps := ops
					if v == 1 {
						seqOps = direct(ops)
					}
					r := &c15Run{site: s, dom: d, sum: ls, input: &c15Input{Pkg: s.pkg.Name, List: s.path, DomSeed: domSeed, DomSize: 3, Ops: seqOps}}
					r.reset(reflect.New(s.parentT))
					r.runOrdered(seqOps, false)
				}
				return 2
			})
		}
		sum.Extra = map[string]interface{}{"exhaustive_sequences": exh}
	}
	sum.Cases = id
	files, err := cf.write(out, "ordmap", 400)
	if sum.Extra == nil {
		sum.Extra = map[string]interface{}{}
	}
	sum.Extra["case_files"] = files
	var names []string
	for _, s := range sites {
		names = append(names, s.pkg.Name+s.path)
	}
	sum.Extra["lists"] = names
	return sum, err
}

// c15Exhaust runs fn on every sequence over alpha with minLen <= length <= maxLen, one worker
// per first call; every worker has a private Summary, merged in a fixed order afterwards.
// fn returns the number of runs it made; the total is returned.
func c15Exhaust(sum *Summary, alpha []c15Op, minLen, maxLen int, fn func(ls *Summary, ops []c15Op) int) int {
	locals := make([]*Summary, len(alpha))
	counts := make([]int, len(alpha))
	var wg sync.WaitGroup
	sem := make(chan struct{}, runtime.GOMAXPROCS(0))
	for i := range alpha {
		locals[i] = &Summary{}
		wg.Add(1)
		go func(i int) {
			defer wg.Done()
			sem <- struct{}{}
			defer func() { <-sem }()
			var rec func(prefix []c15Op)
			rec = func(prefix []c15Op) {
				if len(prefix) >= minLen {
					counts[i] += fn(locals[i], append([]c15Op{}, prefix...))
				}
				if len(prefix) == maxLen {
					return
				}
				for _, o := range alpha {
					rec(append(prefix[:len(prefix):len(prefix)], o))
				}
			}
			rec([]c15Op{alpha[i]})
		}(i)
	}
	wg.Wait()
	total := 0
	for i, ls := range locals {
		total += counts[i]
		sum.OracleRuns += ls.OracleRuns
		kept := map[string]int{}
		for _, f := range ls.Findings {
			sum.finding(f)
			kept[f.Signature]++
		}
		for sig, n := range ls.Distribution["findings"] {
			for k := kept[sig]; k < n; k++ {
				sum.count("findings", sig)
			}
		}
	}
	return total
}

func c15OrdNontrivial(ops []c15Op) bool {
	// an append of a key that was appended before (rejected), and a delete of an appended key
	app := map[int]bool{}
	dup, del := false, false
	for _, o := range ops {
		switch strings.TrimPrefix(o.Op, "P") {
		case "Append", "AppendNew":
			if o.NilEnt || o.NilF > 0 {
				continue
			}
			if app[o.K] {
				dup = true
			}
			app[o.K] = true
		case "Delete":
			if app[o.K] {
				del = true
			}
		}
	}
	return dup && del
}
