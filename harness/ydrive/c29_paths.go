//go:build verif

package main

// c29_paths.go — stream "pathstructs" (C29): enumerates, by reflection, every accessor chain of the
// generated path-struct API of the packages generated with -generate_path_structs (registered in
// c29Roots by the generated zz_c29_roots.go), calls ygot.ResolvePath on every node of every chain
// and writes one Coq case per chain: the NodePaths read back from the path structs (accessor
// harness_accessors/ygot/c29_acc.go), the resolved path, and the data path that the GoStruct field
// tags give for the same field names.  Oracle: element names = tag path; key names = the schema's
// key statement; the keys passed appear as key values (rendered independently), the others as "*".

import (
	"fmt"
	"math"
	"math/rand"
	"os"
	"reflect"
	"sort"
	"strconv"
	"strings"

	gpb "github.com/openconfig/gnmi/proto/gnmi"
	"github.com/openconfig/goyang/pkg/yang"
	"github.com/openconfig/ygot/internal/verifharness/reg"
	"github.com/openconfig/ygot/util"
	"github.com/openconfig/ygot/ygot"
)

// c29Roots: package name -> constructor of the root path struct (filled by the generated zz_c29_roots.go).
var c29Roots = map[string]func(id string) ygot.PathStruct{}

var c29NodePathT = reflect.TypeOf((*ygot.NodePath)(nil))

type c29Step struct {
	Method string        `json:"method"`
	Args   []string      `json:"args"`
	vals   []interface{} // the argument values
	keys   []string      // key names of the list reached by this step (nil: not a list)
	nrel   int           // number of path elements this step contributes (from the tag)
}

type c29Ctx struct {
	pkg      *reg.Pkg
	name     string
	sum      *Summary
	cf       *caseFile
	floats   map[uint64]float64
	vars     int // argument variants per keyed accessor
	id       int
	seen     map[string]bool
	limit    int
	rootok   bool // the root path struct implements ygot's fakeRootPathStruct (Id, CustomData)
	simplify bool // -simplify_wildcard_paths: a list element whose keys are all wildcards carries no keys
}

var c29Strings = []string{"eth0", "a/b", "k 1", "x=y]", "é世", ""}
var c29Floats = []float64{1.5, 100.01, -2.25, 0}

func c29IntPool(k reflect.Kind) []int64 {
	switch k {
	case reflect.Int8:
		return []int64{-128, 7, 127, 0}
	case reflect.Int16:
		return []int64{-32768, 300, 32767, 0}
	case reflect.Int32:
		return []int64{math.MinInt32, 42, math.MaxInt32, 0}
	}
	return []int64{-9000000000, 42, math.MaxInt64, math.MinInt64}
}

func c29UintPool(k reflect.Kind) []uint64 {
	switch k {
	case reflect.Uint8:
		return []uint64{255, 9, 0, 100}
	case reflect.Uint16:
		return []uint64{65535, 1500, 0, 64}
	case reflect.Uint32:
		return []uint64{4000000001, 7, 0, math.MaxUint32}
	}
	return []uint64{math.MaxUint64, 5, 0, 1 << 53}
}

// c29Arg builds the j-th pool value of an accessor parameter type; entry: the list entry struct
// type (holder of the To_<Union> conversion for union keys).
func (c *c29Ctx) c29Arg(t reflect.Type, j int, entry reflect.Type) (reflect.Value, bool) {
	switch {
	case t.Implements(goEnumT) && t.Kind() == reflect.Int64:
		tbl := c.pkg.Enum[t.Name()]
		var nums []int64
		for k := range tbl {
			nums = append(nums, k)
		}
		if len(nums) == 0 {
			return reflect.Value{}, false
		}
		sort.Slice(nums, func(a, b int) bool { return nums[a] < nums[b] })
		v := reflect.New(t).Elem()
		v.SetInt(nums[j%len(nums)])
		return v, true
	case t.Kind() == reflect.Interface:
		if entry == nil {
			return reflect.Value{}, false
		}
		conv := reflect.New(entry).MethodByName("To_" + t.Name())
		if !conv.IsValid() {
			return reflect.Value{}, false
		}
		cands := []interface{}{c29Strings[j%len(c29Strings)] + "u", int64(-5 - j), uint64(7 + j), int8(j), uint8(200 + j), uint16(300 + j), uint32(70000 + j),
			int16(-300 - j), int32(-70000 - j), true, 1.5, []byte{1, 2, byte(j)}}
		for _, en := range c.enumValues() {
			cands = append(cands, en)
		}
		// rotate so that different j try different member kinds first
		for q := 0; q < len(cands); q++ {
			cand := cands[(q+j*3)%len(cands)]
			outs := func() (o []reflect.Value) {
				defer func() {
					if recover() != nil {
						o = nil
					}
				}()
				return conv.Call([]reflect.Value{reflect.ValueOf(cand)})
			}()
			if len(outs) == 2 && outs[1].IsNil() && !outs[0].IsNil() {
				return outs[0], true
			}
		}
		return reflect.Value{}, false
	case t.Kind() == reflect.Slice && t.Elem().Kind() == reflect.Uint8:
		v := reflect.New(t).Elem()
		v.SetBytes([]byte{1, 2, byte(j)})
		return v, true
	}
	v := reflect.New(t).Elem()
	switch t.Kind() {
	case reflect.String:
		v.SetString(c29Strings[j%len(c29Strings)])
	case reflect.Bool:
		v.SetBool(j%2 == 0)
	case reflect.Int8, reflect.Int16, reflect.Int32, reflect.Int64:
		p := c29IntPool(t.Kind())
		v.SetInt(p[j%len(p)])
	case reflect.Uint8, reflect.Uint16, reflect.Uint32, reflect.Uint64:
		p := c29UintPool(t.Kind())
		v.SetUint(p[j%len(p)])
	case reflect.Float64:
		v.SetFloat(c29Floats[j%len(c29Floats)])
	default:
		return reflect.Value{}, false
	}
	return v, true
}

// enumValues: one defined value of every enum type of the package (candidates for union members)
func (c *c29Ctx) enumValues() []interface{} {
	var out []interface{}
	root := c.pkg.NewRoot()
	seen := map[string]bool{}
	for _, ts := range root.ΛEnumTypeMap() {
		for _, t := range ts {
			if seen[t.Name()] {
				continue
			}
			seen[t.Name()] = true
			var nums []int64
			for k := range c.pkg.Enum[t.Name()] {
				nums = append(nums, k)
			}
			if len(nums) == 0 {
				continue
			}
			sort.Slice(nums, func(a, b int) bool { return nums[a] < nums[b] })
			v := reflect.New(t).Elem()
			v.SetInt(nums[0])
			out = append(out, v.Interface())
		}
	}
	return out
}

// c29KeyString is the independent rendering of a key argument (RFC 7951 / gNMI path key text).
func (c *c29Ctx) c29KeyString(v reflect.Value) (string, bool) {
	for v.Kind() == reflect.Interface || v.Kind() == reflect.Ptr {
		if v.IsNil() {
			return "", false
		}
		v = v.Elem()
	}
	if v.Kind() == reflect.Struct && v.NumField() == 1 { // wrapper union
		return c.c29KeyString(v.Field(0))
	}
	t := v.Type()
	switch {
	case t.Implements(goEnumT) && v.Kind() == reflect.Int64:
		d, ok := c.pkg.Enum[t.Name()][v.Int()]
		return d.Name, ok
	case v.Kind() == reflect.Slice && t.Elem().Kind() == reflect.Uint8:
		return c29B64(v.Bytes()), true
	}
	switch v.Kind() {
	case reflect.String:
		return v.String(), true
	case reflect.Bool:
		return strconv.FormatBool(v.Bool()), true
	case reflect.Int8, reflect.Int16, reflect.Int32, reflect.Int64:
		return strconv.FormatInt(v.Int(), 10), true
	case reflect.Uint8, reflect.Uint16, reflect.Uint32, reflect.Uint64:
		return strconv.FormatUint(v.Uint(), 10), true
	case reflect.Float64:
		return strconv.FormatFloat(v.Float(), 'g', -1, 64), true
	}
	return "", false
}

func c29B64(b []byte) string {
	const tbl = "ABCDEFGHIJKLMNOPQRSTUVWXYZabcdefghijklmnopqrstuvwxyz0123456789+/"
	var sb strings.Builder
	for i := 0; i < len(b); i += 3 {
		var n uint32
		k := 0
		for q := 0; q < 3; q++ {
			n <<= 8
			if i+q < len(b) {
				n |= uint32(b[i+q])
				k++
			}
		}
		for q := 0; q < 4; q++ {
			if q <= k {
				sb.WriteByte(tbl[(n>>(18-6*uint(q)))&63])
			} else {
				sb.WriteByte('=')
			}
		}
	}
	return sb.String()
}

func c29IsPathStruct(t reflect.Type) bool {
	if t.Kind() != reflect.Ptr || t.Elem().Kind() != reflect.Struct {
		return false
	}
	f, ok := t.Elem().FieldByName("NodePath")
	return ok && f.Type == c29NodePathT
}

// c29MatchField finds the GoStruct field an accessor belongs to: the longest field name F such
// that the method is F or F followed by "Any...".
func c29MatchField(gs reflect.Type, method string) (reflect.StructField, bool) {
	best := -1
	for i := 0; i < gs.NumField(); i++ {
		f := gs.Field(i)
		if _, ok := f.Tag.Lookup("path"); !ok {
			continue
		}
		if method == f.Name || strings.HasPrefix(method, f.Name+"Any") {
			if best < 0 || len(f.Name) > len(gs.Field(best).Name) {
				best = i
			}
		}
	}
	if best < 0 {
		return reflect.StructField{}, false
	}
	return gs.Field(best), true
}

func c29ChildStruct(t reflect.Type) reflect.Type {
	switch {
	case isOrderedMapType(t):
		return entryTypeOfOrderedMap(t)
	case t.Kind() == reflect.Ptr && t.Elem().Kind() == reflect.Struct:
		return t.Elem()
	case t.Kind() == reflect.Map && t.Elem().Kind() == reflect.Ptr:
		return t.Elem().Elem()
	case t.Kind() == reflect.Slice && t.Elem().Kind() == reflect.Ptr && t.Elem().Elem().Kind() == reflect.Struct:
		return t.Elem().Elem()
	}
	return nil
}

func c29FirstAlt(tag string) []string {
	a := strings.Split(tag, "|")[0]
	var out []string
	for _, e := range strings.Split(strings.TrimPrefix(a, "/"), "/") {
		if e != "" {
			out = append(out, e)
		}
	}
	return out
}

func (c *c29Ctx) kvTerm(v interface{}) string {
	rv := reflect.ValueOf(v)
	if rv.Kind() == reflect.Float64 {
		c.floats[math.Float64bits(rv.Float())] = rv.Float()
		return fmt.Sprintf("(VDec %d)", math.Float64bits(rv.Float()))
	}
	for rv.Kind() == reflect.Ptr && !rv.IsNil() && rv.Elem().Kind() == reflect.Struct && rv.Elem().NumField() == 1 {
		rv = rv.Elem().Field(0) // wrapper union
		if rv.Kind() == reflect.Float64 {
			c.floats[math.Float64bits(rv.Float())] = rv.Float()
			return fmt.Sprintf("(VDec %d)", math.Float64bits(rv.Float()))
		}
	}
	if s, ok := scalarTerm(rv); ok {
		return s
	}
	if rv.IsValid() && rv.Kind() == reflect.Int64 && rv.Type().Implements(goEnumT) {
		return "(VEnum " + coqStr(rv.Type().Name()) + " 0%Z)"
	}
	if rv.IsValid() && rv.Kind() == reflect.Bool {
		return "(VBool false)" // YANGEmpty(false)
	}
	return "(VStr " + coqStr(fmt.Sprintf("?%v", v)) + ")"
}

func c29PathTerm(p *gpb.Path) string {
	var es []string
	for _, e := range p.GetElem() {
		var kvs []string
		for _, k := range sortedKeys(e.GetKey()) {
			kvs = append(kvs, "("+coqStr(k)+","+coqStr(e.GetKey()[k])+")")
		}
		es = append(es, "{| ename := "+coqStr(e.GetName())+"; ekeys := "+coqList(kvs)+" |}")
	}
	return coqList(es)
}

// emit writes the case of the chain ending at node v and evaluates the oracle on it.
func (c *c29Ctx) emit(v reflect.Value, steps []c29Step, tagPath []string) {
	ps, ok := v.Interface().(ygot.PathStruct)
	if !ok {
		return
	}
	var path *gpb.Path
	var errs []error
	panicked := func() (p bool) {
		defer func() {
			if r := recover(); r != nil {
				p = true
			}
		}()
		path, _, errs = ygot.ResolvePath(ps)
		return false
	}()
	// NodePath chain, node -> root
	var nps []string
	for cur := ps; cur != nil; {
		rel, keys, parent, ok := ygot.C29NodeParts(cur)
		if !ok {
			c.sum.finding(Finding{Signature: "pathstruct/no-nodepath", What: "path struct without an embedded NodePath", Input: steps})
			return
		}
		if parent == nil || (reflect.ValueOf(parent).Kind() == reflect.Ptr && reflect.ValueOf(parent).IsNil()) {
			break // the root's own NodePath is not part of the path
		}
		var ks []string
		names := make([]string, 0, len(keys))
		for k := range keys {
			names = append(names, k)
		}
		sort.Strings(names)
		for _, k := range names {
			ks = append(ks, "("+coqStr(k)+","+c.kvTerm(keys[k])+")")
		}
		nps = append([]string{"(MkNP " + coqStrList(rel) + " " + coqList(ks) + ")"}, nps...)
		cur = parent
	}
	obs := coqErr
	switch {
	case panicked:
		obs = coqPanic
	case len(errs) == 0 && path != nil:
		obs = coqOk(c29PathTerm(path))
	}
	c.id++
	c.cf.add(fmt.Sprintf("{| ps_id := %d; ps_rootok := %s; ps_chain := %s; ps_observed := %s; ps_tagpath := %s |}", c.id, coqBool(c.rootok), coqList(nps), obs, coqStrList(tagPath)))
	c.sum.Cases++
	c.sum.OracleRuns++
	c.sum.count("chain-length", strconv.Itoa(len(steps)))
	in := map[string]interface{}{"package": c.name, "chain": steps}
	// ---- oracle
	if !panicked && len(errs) > 0 && !c.rootok && strings.Contains(fmt.Sprint(errs), "got unexpected root") {
		if !c.seen["root-shadowed"] {
			c.seen["root-shadowed"] = true
			c.sum.finding(Finding{Signature: "pathstruct/root-shadowed", What: "a top-level node named like a DeviceRootBase method (id, custom-data) gives the root path struct an accessor that shadows it: the root no longer implements fakeRootPathStruct and ResolvePath fails for every path of the package: " + fmt.Sprint(errs), Input: in})
		}
		return
	}
	if panicked || len(errs) > 0 {
		c.sum.finding(Finding{Signature: "pathstruct/resolve", What: fmt.Sprintf("ResolvePath fails on a generated accessor chain (panic=%v): %v", panicked, errs), Input: in})
		return
	}
	var names []string
	for _, e := range path.GetElem() {
		names = append(names, e.GetName())
	}
	if strings.Join(names, "/") != strings.Join(tagPath, "/") {
		c.sum.finding(Finding{Signature: "pathstruct/tags", What: "resolved element names differ from the data path of the GoStruct field tags",
			Input: in, Observed: "/" + strings.Join(names, "/"), Expected: "/" + strings.Join(tagPath, "/")})
		return
	}
	pos := 0
	wild := 0
	for _, st := range steps {
		pos += st.nrel
		if pos == 0 || pos > len(path.Elem) {
			break
		}
		el := path.Elem[pos-1]
		if st.keys == nil {
			continue
		}
		var got []string
		for k := range el.GetKey() {
			got = append(got, k)
		}
		sort.Strings(got)
		want := append([]string{}, st.keys...)
		sort.Strings(want)
		if c.simplify && len(st.vals) == 0 && len(got) == 0 {
			wild += len(want) // all keys are wildcards and are omitted by design of the flag
			continue
		}
		if strings.Join(got, " ") != strings.Join(want, " ") {
			c.sum.finding(Finding{Signature: "pathstruct/keys", What: "key names of a list element differ from the schema's key statement", Input: in,
				Observed: got, Expected: want})
			return
		}
		// every argument appears as a key value; all remaining keys are "*"
		var vals, exp []string
		for _, k := range got {
			if el.Key[k] != "*" {
				vals = append(vals, el.Key[k])
			} else {
				wild++
			}
		}
		for _, a := range st.vals {
			s, ok := c.c29KeyString(reflect.ValueOf(a))
			if !ok {
				s = "?"
			}
			exp = append(exp, s)
		}
		sort.Strings(vals)
		sort.Strings(exp)
		if strings.Join(vals, "\x00") != strings.Join(exp, "\x00") {
			c.sum.finding(Finding{Signature: "pathstruct/keys", What: "the keys passed to the accessor do not appear as the key values (others must be '*')", Input: in,
				Observed: vals, Expected: exp})
			return
		}
	}
	if wild > 0 {
		c.sum.count("wildcards", "with-wildcard")
	} else {
		c.sum.count("wildcards", "concrete")
	}
	key := strings.Join(tagPath, "/") + fmt.Sprint(wild > 0)
	if !c.seen[key] {
		c.seen[key] = true
		c.sum.Nontrivial++
	}
	if len(steps) >= 3 {
		c.sum.sample(map[string]interface{}{"package": c.name, "chain": steps, "resolved": func() string { s, _ := ygot.PathToString(path); return s }()})
	}
}

func (c *c29Ctx) walk(v reflect.Value, gs reflect.Type, e *yang.Entry, steps []c29Step, tagPath []string, depth int) {
	if len(steps) > 0 {
		c.emit(v, steps, tagPath)
	}
	if gs == nil || e == nil || depth > 12 || c.sum.Cases >= c.limit {
		return
	}
	t := v.Type()
	for i := 0; i < t.NumMethod(); i++ {
		m := t.Method(i)
		if m.Type.NumOut() != 1 || !c29IsPathStruct(m.Type.Out(0)) || m.Type.IsVariadic() {
			continue
		}
		sf, ok := c29MatchField(gs, m.Name)
		if !ok {
			c.sum.finding(Finding{Signature: "pathstruct/no-field", What: "accessor without a GoStruct field of that name", Input: map[string]interface{}{"package": c.name, "type": t.String(), "method": m.Name}})
			continue
		}
		ce, err := util.ChildSchema(e, sf)
		if err != nil || ce == nil {
			continue
		}
		child := c29ChildStruct(sf.Type)
		nargs := m.Type.NumIn() - 1
		variants := 1
		if nargs > 0 {
			variants = c.vars
		}
		for j := 0; j < variants; j++ {
			args := make([]reflect.Value, 0, nargs)
			okArgs := true
			for a := 0; a < nargs; a++ {
				av, ok := c.c29Arg(m.Type.In(a+1), j+a, child)
				if !ok {
					okArgs = false
					break
				}
				args = append(args, av)
			}
			if !okArgs {
				c.sum.count("skipped", "no-pool-for-"+m.Type.String())
				break
			}
			var out []reflect.Value
			func() {
				defer func() {
					if r := recover(); r != nil {
						c.sum.finding(Finding{Signature: "pathstruct/accessor-panic", What: fmt.Sprint(r), Input: map[string]interface{}{"package": c.name, "method": m.Name}})
					}
				}()
				out = v.Method(i).Call(args)
			}()
			if len(out) != 1 || out[0].IsNil() {
				continue
			}
			st := c29Step{Method: m.Name, nrel: len(c29FirstAlt(sf.Tag.Get("path")))}
			for _, a := range args {
				st.vals = append(st.vals, a.Interface())
				s, _ := c.c29KeyString(a)
				st.Args = append(st.Args, fmt.Sprintf("%s(%s)", a.Type().Name(), s))
			}
			if ce.IsList() {
				st.keys = strings.Fields(ce.Key)
				if st.keys == nil {
					st.keys = []string{}
				}
			}
			nsteps := append(append([]c29Step{}, steps...), st)
			ntag := append(append([]string{}, tagPath...), c29FirstAlt(sf.Tag.Get("path"))...)
			c.sum.count("accessor", map[bool]string{true: "keyed-or-partial", false: "plain-or-any"}[nargs > 0])
			c.walk(out[0], child, ce, nsteps, ntag, depth+1)
		}
	}
}

func c29Stream(rng *rand.Rand, n int, tier string, out string) (*Summary, error) {
	sum := &Summary{Rule: "one case per (accessor chain from the device root, argument variant); non-trivial: distinct (data path, has wildcard)"}
	pkgs, err := c26LoadManifest()
	if err != nil {
		return nil, err
	}
	vars := 2
	if tier == "thorough" {
		vars = 4
	}
	if n <= 0 {
		n = 4000
	}
	var files []string
	for _, p := range pkgs {
		mk := c29Roots[p.Name]
		rp := reg.Get(p.Name)
		if !p.PathStructs || mk == nil || rp == nil {
			continue
		}
		_, env := schemaTerm(rp)
		c := &c29Ctx{pkg: rp, name: p.Name, sum: sum, floats: map[uint64]float64{}, vars: vars, seen: map[string]bool{}, limit: sum.Cases + n}
		c.cf = &caseFile{typ: "pscase", fn: "mismatches kf env"}
		root := mk("dev")
		_, c.rootok = root.(interface {
			Id() string
			CustomData() map[string]interface{}
		})
		for _, f := range p.Flags {
			if f == "-simplify_wildcard_paths" {
				c.simplify = true
			}
		}
		gs := reflect.TypeOf(rp.NewRoot()).Elem()
		c.walk(reflect.ValueOf(root), gs, rp.SchemaTree[gs.Name()], nil, nil, 0)
		var kf []string
		var bits []uint64
		for b := range c.floats {
			bits = append(bits, b)
		}
		sort.Slice(bits, func(i, j int) bool { return bits[i] < bits[j] })
		for _, b := range bits {
			kf = append(kf, fmt.Sprintf("(%d,%s)", b, coqStr(strconv.FormatFloat(c.floats[b], 'g', -1, 64))))
		}
		c.cf.header = "From Ygot Require Import Base.Base Path.PathString Tree.Tree Gen.PathStructs.\nOpen Scope N_scope.\n" +
			"Definition env : enum_env := " + env + ".\nDefinition kf : list (N * str) := " + coqList(kf) + ".\n"
		for k, i := 0, 0; i < len(c.cf.terms); k, i = k+1, i+400 {
			j := i + 400
			if j > len(c.cf.terms) {
				j = len(c.cf.terms)
			}
			name := fmt.Sprintf("cases_pathstructs_%s_%d.v", p.Name, k)
			body := c.cf.header + "Definition cases : list pscase := [\n" + strings.Join(c.cf.terms[i:j], ";\n") + "\n].\n" +
				"Definition M := Eval vm_compute in model_mismatches kf env cases.\nPrint M.\n" +
				"Definition T := Eval vm_compute in tag_mismatches cases.\nPrint T.\n"
			if err := os.WriteFile(out+"/"+name, []byte(body), 0o644); err != nil {
				return nil, err
			}
			files = append(files, name)
		}
		sum.count("package", p.Name)
	}
	sum.Extra = map[string]interface{}{"case_files": files}
	return sum, nil
}

func init() { streams["pathstructs"] = c29Stream }
