#!/usr/bin/env python3
import json, glob, sys
import jsonschema
ok = True
m = json.load(open('/verif/MANIFEST.json'))
jsonschema.validate(m, json.load(open('/root/.vp/MANIFEST.schema.json')))
es = json.load(open('/root/.vp/EVIDENCE.schema.json'))
for f in sorted(glob.glob('/verif/evidence/*.json')):
    try:
        jsonschema.validate(json.load(open(f)), es)
    except Exception as e:
        ok = False; print("INVALID", f, str(e)[:300])
print("manifest valid; evidence files:", len(glob.glob('/verif/evidence/*.json')), "ok" if ok else "SOME INVALID")
sys.exit(0 if ok else 1)
