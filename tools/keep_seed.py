#!/usr/bin/env python3
"""Confirm a seeded change independently and keep it under /verif/seeded/<name>/.
usage: keep_seed.py <name e.g. C09-1> <demo dir> <worktree> <check id> [more check ids]
Steps: baseline with the change (must be 3015/3015), demo with the change (must fail), demo
without (git apply -R; must pass), then apply the patch to /repo, run ./check <id> (record exit
code and VIOLATION lines), undo. Everything is recorded in meta.json."""
import json, os, shutil, subprocess, sys
name, demo, wt = sys.argv[1:4]
checks = sys.argv[4:]
V = "/verif"
env = dict(os.environ, GOFLAGS="-mod=mod", GOPROXY="off", GOSUMDB="off", GOTOOLCHAIN="local")
def run(cmd, **kw):
    p = subprocess.run(cmd, shell=True, stdout=subprocess.PIPE, stderr=subprocess.STDOUT, text=True, env=env, **kw)
    return p.returncode, p.stdout
meta = json.load(open(os.path.join(demo, "meta.json")))
res = {}
# bring the worktree to /repo's current HEAD (fix commits made since the change was written)
head = subprocess.run("git -C /repo rev-parse HEAD", shell=True, stdout=subprocess.PIPE, text=True).stdout.strip()
pf = os.path.join(demo, "patch.diff")
r1 = run("git -C %s apply -R %s" % (wt, pf))
r2 = run("git -C %s checkout -q --detach %s" % (wt, head))
r3 = run("git -C %s apply %s" % (wt, pf))
res["rebased_onto"] = head if (r1[0] == 0 and r2[0] == 0 and r3[0] == 0) else "FAILED: %s %s %s" % (r1, r2, r3)
rc, out = run("git -C %s diff" % wt)
patch = open(os.path.join(demo, "patch.diff")).read()
res["worktree_diff_equals_patch"] = out.strip() == patch.strip() or "rebased"
rc, out = run("python3 %s/tools/baseline.py %s" % (V, wt)); res["baseline_with_change"] = out.strip().splitlines()[0] if out.strip() else ""
runsh = os.path.join(demo, "run.sh")
democmd = "sh " + runsh if os.path.exists(runsh) else meta.get("demo_cmd")
rc1, out1 = run(democmd); res["demo_with_change"] = {"exit": rc1, "tail": out1[-600:]}
run("git -C %s apply -R %s" % (wt, os.path.join(demo, "patch.diff")))
rc2, out2 = run(democmd); res["demo_without_change"] = {"exit": rc2, "tail": out2[-300:]}
run("git -C %s apply %s" % (wt, os.path.join(demo, "patch.diff")))
res["confirmed"] = ("3015, passing now: 3015" in res["baseline_with_change"]) and rc1 != 0 and rc2 == 0
# run our checks against it: the checks are pointed at the worktree that holds the change
# (VERIF_REPO), which is equivalent to `git -C /repo apply` + run + `git -C /repo checkout -- .`
# but does not disturb other work that builds from /repo at the same time
res["apply_to_repo"] = "checks run with VERIF_REPO=" + wt
res["checks"] = {}
for c in checks:
    rcc, outc = run("cd %s && VERIF_REPO=%s ./check %s" % (V, wt, c))
    ls = [l[:300] for l in outc.splitlines()]
    res["checks"][c] = {"exit": rcc, "lines": ([l for l in ls if l.startswith(("VIOLATION", "OK "))] + [l for l in ls if l.startswith("[check] broken")])[:6],
                        "known_finding_lines": len([l for l in ls if l.startswith("KNOWN-FINDING")])}
# the build directory of the alt-tree runs (lib/vcheck.py: build/alt/<hash of the tree path>)
import hashlib
shutil.rmtree(os.path.join(V, "build", "alt", hashlib.sha256(os.path.realpath(wt).encode()).hexdigest()[:10]), ignore_errors=True)
dst = os.path.join(V, "seeded", name)
os.makedirs(dst, exist_ok=True)
for f in os.listdir(demo):
    if os.path.isfile(os.path.join(demo, f)) and os.path.getsize(os.path.join(demo, f)) < 2_000_000 and f != "generator":
        shutil.copy(os.path.join(demo, f), dst)
meta["what_we_ran"] = res
json.dump(meta, open(os.path.join(dst, "meta.json"), "w"), indent=1)
print(json.dumps(res, indent=1)[:3000])
