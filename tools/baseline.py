#!/usr/bin/env python3
"""Run /repo's (or another tree's) test suite with the verif guard OFF and compare with BASELINE.json.
usage: baseline.py [tree]   -- exit 0 iff every stable_pass test passes."""
import json, os, subprocess, sys
tree = sys.argv[1] if len(sys.argv) > 1 else "/repo"
env = dict(os.environ, GOFLAGS="-mod=mod", GOPROXY="off", GOSUMDB="off", GOTOOLCHAIN="local")
base = json.load(open("/root/.vp/BASELINE.json"))["stable_pass"]
# exampleoc/uexampleoc are empty files in this snapshot, so `./...` fails to load; test the
# packages that the pinned baseline names.
pkgs = sorted({t.split("::")[0] for t in base})
p = subprocess.run(["go", "test", "-json", "-vet=off", "-count=1", "-timeout", "25m"] + pkgs,
                   cwd=tree, env=env, stdout=subprocess.PIPE, stderr=subprocess.DEVNULL, text=True)
status = {}
for line in p.stdout.splitlines():
    try:
        e = json.loads(line)
    except Exception:
        continue
    if e.get("Test") and e.get("Action") in ("pass", "fail", "skip"):
        status[e["Package"] + "::" + e["Test"]] = e["Action"]
bad = [t for t in base if status.get(t) != "pass"]
print("baseline tests: %d, passing now: %d, not passing: %d" % (len(base), len(base) - len(bad), len(bad)))
for t in bad[:40]:
    print("  NOT-PASS", t, status.get(t))
sys.exit(1 if bad else 0)
