#!/usr/bin/env python3
"""Re-run our checks against a seeded change that keep_seed.py has confirmed before (no baseline,
no demonstration): the worktree is brought to /repo's HEAD with the seeded patch on top, the checks
run with VERIF_REPO=<worktree>, and the verdicts are stored in seeded/<name>/meta.json under
what_we_ran.rechecked (the machinery has changed since the change was first kept).
usage: recheck_seed.py <name> <worktree> <check id> [more]
If <worktree> does not exist it is created as a scratch git worktree of /repo (outside /repo and
/verif) and removed again afterwards."""
import hashlib, json, os, shutil, subprocess, sys
name, wt = sys.argv[1:3]
checks = sys.argv[3:]
V = "/verif"
env = dict(os.environ, GOFLAGS="-mod=mod", GOPROXY="off", GOSUMDB="off", GOTOOLCHAIN="local")
def run(cmd):
    p = subprocess.run(cmd, shell=True, stdout=subprocess.PIPE, stderr=subprocess.STDOUT, text=True, env=env)
    return p.returncode, p.stdout
dst = os.path.join(V, "seeded", name)
mf = os.path.join(dst, "meta.json")
meta = json.load(open(mf))
pf = os.path.join(dst, "patch.diff")
head = run("git -C /repo rev-parse HEAD")[1].strip()
made = False
if not os.path.isdir(wt):
    run("git -C /repo worktree prune")
    made = run("git -C /repo worktree add -q --detach %s HEAD" % wt)[0] == 0
run("git -C %s checkout -q -- . " % wt)
r2 = run("git -C %s checkout -q --detach %s" % (wt, head))
r3 = run("git -C %s apply %s" % (wt, pf))
res = {"head": head, "verif_commit": run("git -C /verif rev-parse --short HEAD")[1].strip(), "patch_applies": r2[0] == 0 and r3[0] == 0, "checks": {}}
if not res["patch_applies"]:
    res["apply_output"] = (r2[1] + r3[1])[-600:]
else:
    for c in checks:
        rcc, outc = run("cd %s && VERIF_REPO=%s ./check %s" % (V, wt, c))
        ls = [l[:300] for l in outc.splitlines()]
        res["checks"][c] = {"exit": rcc, "lines": ([l for l in ls if l.startswith(("VIOLATION", "OK "))] + [l for l in ls if l.startswith("[check] broken")])[:6]}
    shutil.rmtree(os.path.join(V, "build", "alt", hashlib.sha256(os.path.realpath(wt).encode()).hexdigest()[:10]), ignore_errors=True)
if made:
    run("git -C /repo worktree remove --force %s" % wt)
meta.setdefault("what_we_ran", {})["rechecked"] = res
json.dump(meta, open(mf, "w"), indent=1)
print(name, "applies" if res["patch_applies"] else "PATCH DOES NOT APPLY", {c: (v["exit"], v["lines"][:1]) for c, v in res["checks"].items()})
