#!/usr/bin/env python3
"""Private build of the Go driver for a sub-task, without disturbing the shared tree.

usage: agent_build.py --out /tmp/agent-x/ydrive [--extra /tmp/agent-x/foo.go ...] [--accessor PKGDIR=/tmp/agent-x/acc.go ...]

Builds /repo's working tree + the committed harness (/verif/harness) + the generated schema
packages + your extra files (mapped into package main of the driver) into the binary --out.
--accessor maps a file into an existing /repo package directory (e.g. protogen=/tmp/x/acc.go) to
expose unexported functions; such files must start with '//go:build verif' and be in that package.
Nothing is written to /repo or to /verif/harness."""
import argparse, json, os, subprocess, sys
sys.path.insert(0, os.path.join(os.path.dirname(os.path.abspath(__file__)), "..", "lib"))
import vcheck, vgen
ap = argparse.ArgumentParser()
ap.add_argument("--out", required=True)
ap.add_argument("--extra", action="append", default=[])
ap.add_argument("--accessor", action="append", default=[])
ap.add_argument("--exclude", action="append", default=[], help="basename of a /verif/harness/ydrive file to leave out")
a = ap.parse_args()
with vcheck.Lock("go"):
    overlay, info = vgen.prepare_overlay()
o = json.load(open(overlay))
for f in a.exclude:
    o["Replace"].pop(os.path.join(vcheck.REPO, "internal", "verifharness", "ydrive", f), None)
for f in a.extra:
    o["Replace"][os.path.join(vcheck.REPO, "internal", "verifharness", "ydrive", os.path.basename(f))] = os.path.abspath(f)
for acc in a.accessor:
    pkg, f = acc.split("=", 1)
    o["Replace"][os.path.join(vcheck.REPO, pkg, "zz_verif_" + os.path.basename(f))] = os.path.abspath(f)
priv = os.path.abspath(a.out) + ".overlay.json"
json.dump(o, open(priv, "w"), indent=1)
ok, out = vcheck.go_build("./internal/verifharness/ydrive", os.path.abspath(a.out), priv)
print("build ok" if ok else out)
print("generator configs:", {k: v["ok"] for k, v in info.get("generator", {}).items()})
sys.exit(0 if ok else 1)
