#!/usr/bin/env python3
"""Regenerate /verif/MANIFEST.json from lib/props.py (claimed checks) and properties.jsonl."""
import json, os, sys
V = os.path.dirname(os.path.dirname(os.path.abspath(__file__)))
sys.path.insert(0, os.path.join(V, "lib"))
from props import PROPS, NOT_APPLICABLE
ids = [json.loads(l)["id"] for l in open(os.path.join(V, "properties.jsonl"))]
checks = []
for pid in ids:
    if pid not in PROPS:
        continue
    s = PROPS[pid]
    checks.append({
        "property_id": pid,
        "quick_cmd": "./check %s --tier quick" % pid,
        "thorough_cmd": "./check %s --tier thorough" % pid,
        "evidence_file": "/verif/evidence/%s.json" % pid,
        "replay_cmd_template": "./check %s --replay {path}" % pid,
        "engine": "coq-model+correspondence",
        "level_claimed": {"category": s["level"], "text": s["claim"], "design_ref": "DESIGN.md section 6/" + pid},
        "level_note": s["note"],
        "technique": s["technique"],
    })
na = [{"property_id": p, "reason": NOT_APPLICABLE.get(p, "no check built for it yet; nothing is claimed")}
      for p in ids if p not in PROPS]
m = {
    "version": 1,
    "setup_cmd": "./setup.sh",
    "hooks": {"guard": "verif",
              "enable": "go build -tags verif -overlay /verif/build/overlay.json: harness and accessor files (all '//go:build verif') are mapped into /repo's module by the overlay; nothing is written to /repo",
              "baseline_off_cmd": "python3 /verif/tools/baseline.py",
              "source_commits": [], "add_only": True},
    "engines": [{"name": "coq-model+correspondence", "path": "/verif/coq, /verif/harness, /verif/lib",
                 "serves_properties": [c["property_id"] for c in checks],
                 "kind_free_text": "Rocq/Coq 8.16.1 theorems about a hand-written executable model; the model is tied to /repo on every run by a correspondence check (Go driver built from the working tree runs the real code, coqc vm_compute re-computes every output with the model) plus small translators that regenerate table-shaped model parts from the source"}],
    "checks": checks,
    "not_applicable": na,
    "notes": "Technique: machine-checked proof in Coq. Exit 1 + VIOLATION line on a failing input not listed in known_findings.json, or on a broken proof/correspondence (then ...no-failing-input-found). See DESIGN.md.",
}
json.dump(m, open(os.path.join(V, "MANIFEST.json"), "w"), indent=1)
print("claimed:", len(checks), "unclaimed:", len(na))
