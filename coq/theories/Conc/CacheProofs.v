(* CacheProofs.v — proofs about Conc/Cache.v (C21): the RW-lock protocol of the regexp cache is
   data-race free and schedule independent; threads with disjoint footprints (in particular
   threads that only read what they share) compute their sequential results in every
   interleaving.  All statements are by induction over arbitrary schedules. *)
From Ygot Require Import Base.Base Conc.Cache.

(* ------------------------------------------------------------------ list helpers *)

Lemma upd_nth_length : forall A i (x : A) l, length (upd_nth i x l) = length l.
Proof. intros A i x l. revert i. induction l as [|y r IH]; intros [|i]; simpl; auto. Qed.

Lemma nth_error_upd_same : forall A i (x : A) l t, nth_error l i = Some t -> nth_error (upd_nth i x l) i = Some x.
Proof. intros A i x l. revert i. induction l as [|y r IH]; intros [|i] t H; simpl in *; try discriminate; eauto. Qed.

Lemma nth_error_upd_other : forall A i j (x : A) l, i <> j -> nth_error (upd_nth i x l) j = nth_error l j.
Proof.
  intros A i j x l. revert i j. induction l as [|y r IH]; intros [|i] [|j] H; simpl; auto.
  - contradiction H; reflexivity.
Qed.

Lemma Forall_upd_nth : forall A (P : A -> Prop) i x l, Forall P l -> P x -> Forall P (upd_nth i x l).
Proof.
  intros A P i x l. revert i. induction l as [|y r IH]; intros [|i] Hl Hx; simpl; auto;
    inversion Hl; subst; constructor; auto.
Qed.

Lemma map_upd_nth : forall A B (f : A -> B) i t t' l,
  nth_error l i = Some t -> f t' = f t -> map f (upd_nth i t' l) = map f l.
Proof.
  intros A B f i t t' l. revert i. induction l as [|y r IH]; intros [|i] H E; simpl in *; try discriminate.
  - injection H as ->. rewrite E. reflexivity.
  - f_equal. apply IH; assumption.
Qed.

Lemma nth_error_Forall : forall A (P : A -> Prop) l i t, Forall P l -> nth_error l i = Some t -> P t.
Proof. intros A P l i t H E. rewrite Forall_forall in H. apply H. eapply nth_error_In; eauto. Qed.

Lemma nth_error_map_some : forall A B (f : A -> B) l i t,
  nth_error l i = Some t -> nth_error (map f l) i = Some (f t).
Proof. intros A B f l. induction l as [|y r IH]; intros [|i] t H; simpl in *; try discriminate; [injection H as ->; reflexivity | auto]. Qed.

Definition b2n (b : bool) : nat := if b then 1%nat else 0%nat.

Lemma count_upd : forall f l i t t', nth_error l i = Some t ->
  (count f (upd_nth i t' l) + b2n (f t) = count f l + b2n (f t'))%nat.
Proof.
  intros f l. unfold count. induction l as [|y r IH]; intros [|i] t t' H; simpl in *; try discriminate.
  - injection H as ->. destruct (f t), (f t'); simpl; lia.
  - specialize (IH i t t' H). destruct (f y); simpl; lia.
Qed.

Lemma count_one : forall f l i t, nth_error l i = Some t -> f t = true -> (1 <= count f l)%nat.
Proof.
  intros f l. unfold count. induction l as [|y r IH]; intros [|i] t H E; simpl in *; try discriminate.
  - injection H as ->. rewrite E. simpl. lia.
  - specialize (IH i t H E). destruct (f y); simpl; lia.
Qed.

Lemma count_two : forall f l i j ti tj, i <> j -> nth_error l i = Some ti -> nth_error l j = Some tj ->
  f ti = true -> f tj = true -> (2 <= count f l)%nat.
Proof.
  intros f l. induction l as [|y r IH]; intros [|i] [|j] ti tj Hn Hi Hj Ei Ej; simpl in *; try discriminate.
  - contradiction Hn; reflexivity.
  - injection Hi as ->. pose proof (count_one f r j tj Hj Ej) as H. unfold count in *. simpl. rewrite Ei. simpl. lia.
  - injection Hj as ->. pose proof (count_one f r i ti Hi Ei) as H. unfold count in *. simpl. rewrite Ej. simpl. lia.
  - assert (i <> j) by (intros ->; apply Hn; reflexivity).
    pose proof (IH i j ti tj H Hi Hj Ei Ej) as H'. unfold count in *. simpl. destruct (f y); simpl; lia.
Qed.

Lemma count_pos_ex : forall f l, (0 < count f l)%nat -> exists i t, nth_error l i = Some t /\ f t = true.
Proof.
  intros f l. unfold count. induction l as [|y r IH]; simpl; intros H; [lia|].
  destruct (f y) eqn:E.
  - exists 0%nat, y. split; [reflexivity | exact E].
  - destruct (IH H) as [i [t [Hi Ht]]]. exists (S i), t. split; assumption.
Qed.

Lemma count_zero_all : forall f l i t, count f l = 0%nat -> nth_error l i = Some t -> f t = false.
Proof.
  intros f l i t H Hi. destruct (f t) eqn:E; [|reflexivity].
  pose proof (count_one f l i t Hi E). lia.
Qed.

Section CacheProofs.
  Variable compile : key -> option rx.
  Notation step_thread := (step_thread compile).
  Notation step := (step compile).
  Notation run := (run compile).
  Notation cache_ok := (cache_ok compile).
  Notation thread_ok := (thread_ok compile).
  Notation data_inv := (data_inv compile).
  Notation sequential_results := (sequential_results compile).

  (* ---------------------------------------------------------------- the lock invariant *)

  Lemma lock_inv_upd : forall l i t t' s s',
    nth_error l i = Some t ->
    lock_inv {| c_threads := l; c_shared := s |} ->
    (s_readers s' + b2n (holds_r t) = s_readers s + b2n (holds_r t'))%nat ->
    (b2n (s_writer s') + b2n (holds_w t) = b2n (s_writer s) + b2n (holds_w t'))%nat ->
    (s_writer s' = true -> s_readers s' = 0%nat) ->
    lock_inv {| c_threads := upd_nth i t' l; c_shared := s' |}.
  Proof.
    intros l i t t' s s' Hi [I1 [I2 I3]] Hr Hw H3. simpl in *.
    pose proof (count_upd holds_r l i t t' Hi) as Cr.
    pose proof (count_upd holds_w l i t t' Hi) as Cw.
    unfold lock_inv; simpl. repeat split.
    - lia.
    - assert (count holds_w l = b2n (s_writer s)) as E by (rewrite I2; destruct (s_writer s); reflexivity).
      assert (count holds_w (upd_nth i t' l) = b2n (s_writer s')) as E' by lia.
      rewrite E'. destruct (s_writer s'); reflexivity.
    - exact H3.
  Qed.

  Lemma step_lock_inv : forall i c, lock_inv c -> lock_inv (step i c).
  Proof.
    intros i [l s] Hinv. unfold Cache.step; simpl.
    destruct (nth_error l i) as [t|] eqn:Hi; [|exact Hinv].
    destruct (step_thread t s) as [[t' s']|] eqn:E; [|exact Hinv].
    pose proof Hinv as [I1 [I2 I3]]. simpl in I1, I2, I3.
    unfold Cache.step_thread in E.
    assert (Hr1 : holds_r t = true -> (1 <= s_readers s)%nat)
      by (intros H; rewrite I1; eapply count_one; eauto).
    assert (Hw1 : holds_w t = true -> s_writer s = true).
    { intros H. pose proof (count_one holds_w l i t Hi H) as C. rewrite I2 in C.
      destruct (s_writer s); [reflexivity | lia]. }
    unfold holds_r, holds_w in Hr1, Hw1.
    destruct (t_pc t) eqn:P.
    - (* PIdle *)
      destruct (t_todo t) as [|k r]; [discriminate E|]. injection E as <- <-.
      apply (lock_inv_upd l i t _ s s Hi Hinv); unfold holds_r, holds_w; simpl; rewrite ?P; simpl; auto.
    - (* PRLock *)
      destruct (s_writer s) eqn:W; [discriminate E|]. injection E as <- <-.
      apply (lock_inv_upd l i t _ s _ Hi Hinv); unfold holds_r, holds_w; simpl; rewrite ?P, ?W; simpl; try lia; try (intros H; discriminate H).
    - (* PRead *)
      injection E as <- <-.
      apply (lock_inv_upd l i t _ s s Hi Hinv); unfold holds_r, holds_w; simpl; rewrite ?P; simpl; auto.
    - (* PRUnlock *)
      injection E as <- <-. specialize (Hr1 eq_refl).
      apply (lock_inv_upd l i t _ s _ Hi Hinv); unfold holds_r, holds_w; simpl; rewrite ?P; simpl.
      + destruct r; simpl; lia.
      + destruct r; simpl; lia.
      + intros W. rewrite (I3 W). reflexivity.
    - (* PCompile *)
      injection E as <- <-.
      apply (lock_inv_upd l i t _ s s Hi Hinv); unfold holds_r, holds_w; simpl; rewrite ?P; simpl; auto;
        destruct (compile k); simpl; lia.
    - (* PLock *)
      destruct (s_writer s) eqn:W; [discriminate E|]. simpl in E.
      destruct (Nat.eqb (s_readers s) 0) eqn:R; [|discriminate E]. injection E as <- <-.
      apply Nat.eqb_eq in R.
      apply (lock_inv_upd l i t _ s _ Hi Hinv); unfold holds_r, holds_w; simpl; rewrite ?P, ?W; simpl; auto.
    - (* PWrite *)
      injection E as <- <-.
      apply (lock_inv_upd l i t _ s _ Hi Hinv); unfold holds_r, holds_w; simpl; rewrite ?P; simpl; auto.
    - (* PUnlock *)
      injection E as <- <-. specialize (Hw1 eq_refl).
      apply (lock_inv_upd l i t _ s _ Hi Hinv); unfold holds_r, holds_w; simpl; rewrite ?P, ?Hw1; simpl; auto; try (intros H; discriminate H).
  Qed.

  Lemma run_lock_inv : forall sched c, lock_inv c -> lock_inv (run sched c).
  Proof.
    unfold Cache.run. induction sched as [|i r IH]; intros c H; simpl; [exact H|].
    apply IH. apply step_lock_inv. exact H.
  Qed.

  Lemma count_init : forall f progs,
    (forall ks, f {| t_prog := ks; t_todo := ks; t_pc := PIdle; t_res := [] |} = false) ->
    count f (map (fun ks => {| t_prog := ks; t_todo := ks; t_pc := PIdle; t_res := [] |}) progs) = 0%nat.
  Proof.
    intros f progs H. unfold count. induction progs as [|ks r IH]; simpl; [reflexivity|].
    rewrite H. exact IH.
  Qed.

  Lemma init_lock_inv : forall m progs, lock_inv (init m progs).
  Proof.
    intros m progs. unfold lock_inv, init; simpl.
    rewrite !count_init by reflexivity. split; [reflexivity|]. split; [reflexivity|]. intros H; discriminate H.
  Qed.

  (* Mutual exclusion, read off the invariant. *)
  Lemma lock_inv_exclusion : forall c, lock_inv c ->
    (forall i j ti tj, i <> j -> nth_error (c_threads c) i = Some ti -> nth_error (c_threads c) j = Some tj ->
       holds_w ti = true -> holds_r tj = false /\ holds_w tj = false) /\
    (forall i t, nth_error (c_threads c) i = Some t -> holds_r t = true ->
       (0 < s_readers (c_shared c))%nat /\ s_writer (c_shared c) = false) /\
    (forall i t, nth_error (c_threads c) i = Some t -> holds_w t = true ->
       s_writer (c_shared c) = true /\ s_readers (c_shared c) = 0%nat).
  Proof.
    intros [l s] [I1 [I2 I3]]. simpl in *.
    assert (HW : forall i t, nth_error l i = Some t -> holds_w t = true -> s_writer s = true /\ s_readers s = 0%nat).
    { intros i t Hi Hw. pose proof (count_one holds_w l i t Hi Hw) as C. rewrite I2 in C.
      destruct (s_writer s) eqn:W; [split; [reflexivity | apply I3; reflexivity] | lia]. }
    repeat split.
    - destruct (holds_r tj) eqn:R; [|reflexivity].
      destruct (HW i ti H0 H2) as [_ Z]. pose proof (count_one holds_r l j tj H1 R). lia.
    - destruct (holds_w tj) eqn:R; [|reflexivity].
      destruct (HW i ti H0 H2) as [W _]. pose proof (count_two holds_w l i j ti tj H H0 H1 H2 R) as C.
      rewrite I2, W in C. lia.
    - pose proof (count_one holds_r l i t H H0). lia.
    - destruct (s_writer s) eqn:W; [|reflexivity]. pose proof (count_one holds_r l i t H H0).
      rewrite (I3 eq_refl) in I1. lia.
    - apply (HW i t H H0).
    - apply (HW i t H H0).
  Qed.

  (* ---------------------------------------------------------------- the data invariant *)

  Lemma res_ok_snoc : forall (res : list (key * option rx)) k r,
    Forall (fun kr => snd kr = compile (fst kr)) res -> r = compile k ->
    Forall (fun kr => snd kr = compile (fst kr)) (res ++ [(k, r)]).
  Proof. intros res k r H E. apply Forall_app. split; [exact H | constructor; [exact E | constructor]]. Qed.

  Lemma step_thread_ok : forall t s t' s',
    cache_ok (s_cache s) -> thread_ok t -> step_thread t s = Some (t', s') ->
    cache_ok (s_cache s') /\ thread_ok t' /\ t_prog t' = t_prog t.
  Proof.
    intros t s t' s' Hc [Hp [Hr Hk]] E. unfold Cache.step_thread in E.
    destruct (t_pc t) eqn:P; simpl in Hp, Hk.
    - destruct (t_todo t) as [|k r] eqn:T; [discriminate E|]. injection E as <- <-.
      repeat split; simpl; auto.
    - destruct (s_writer s); [discriminate E|]. injection E as <- <-. repeat split; simpl; auto.
    - injection E as <- <-. repeat split; simpl; auto.
      destruct (lookup k (s_cache s)) eqn:L; [apply Hc; exact L | exact I].
    - injection E as <- <-. destruct r as [re|]; repeat split; simpl; auto.
      + apply res_ok_snoc; [exact Hr | symmetry; exact Hp].
      + rewrite map_app; simpl. rewrite <- app_assoc. exact Hk.
    - injection E as <- <-. destruct (compile k) as [re|] eqn:C; repeat split; simpl; auto.
      + apply res_ok_snoc; [exact Hr | symmetry; exact C].
      + rewrite map_app; simpl. rewrite <- app_assoc. exact Hk.
    - destruct (s_writer s || negb (Nat.eqb (s_readers s) 0)); [discriminate E|]. injection E as <- <-.
      repeat split; simpl; auto.
    - injection E as <- <-. repeat split; simpl; auto.
      intros k' re'. simpl. destruct (N.eqb k' k) eqn:K.
      + apply N.eqb_eq in K. subst k'. intros H; injection H as <-. exact Hp.
      + apply Hc.
    - injection E as <- <-. repeat split; simpl; auto.
      + apply res_ok_snoc; [exact Hr | symmetry; exact Hp].
      + rewrite map_app; simpl. rewrite <- app_assoc. exact Hk.
  Qed.

  Lemma step_data_inv : forall progs i c, data_inv progs c -> data_inv progs (step i c).
  Proof.
    intros progs i [l s] [Hc [Hf Hm]]. unfold Cache.step; simpl in *.
    destruct (nth_error l i) as [t|] eqn:Hi; [|repeat split; assumption].
    destruct (step_thread t s) as [[t' s']|] eqn:E; [|repeat split; assumption].
    destruct (step_thread_ok t s t' s' Hc (nth_error_Forall _ _ l i t Hf Hi) E) as [Hc' [Ht' Hp']].
    repeat split; simpl.
    - exact Hc'.
    - apply Forall_upd_nth; assumption.
    - rewrite (map_upd_nth _ _ t_prog i t t' l Hi Hp'). exact Hm.
  Qed.

  Lemma run_data_inv : forall progs sched c, data_inv progs c -> data_inv progs (run sched c).
  Proof.
    unfold Cache.run. intros progs sched. induction sched as [|i r IH]; intros c H; simpl; [exact H|].
    apply IH. apply step_data_inv. exact H.
  Qed.

  Lemma init_data_inv : forall m progs, cache_ok m -> data_inv progs (init m progs).
  Proof.
    intros m progs Hm. unfold Cache.data_inv, init; simpl. repeat split.
    - exact Hm.
    - apply Forall_forall. intros t Ht. apply in_map_iff in Ht. destruct Ht as [ks [<- _]].
      repeat split; simpl; auto.
    - rewrite map_map. simpl. apply map_id.
  Qed.

  Lemma res_is_sequential : forall res : list (key * option rx),
    Forall (fun kr => snd kr = compile (fst kr)) res -> res = sequential_results (map fst res).
  Proof.
    unfold Cache.sequential_results. induction res as [|[k r] rest IH]; intros H; simpl; [reflexivity|].
    inversion H; subst. simpl in *. subst r. f_equal. apply IH. assumption.
  Qed.

  (* ---------------------------------------------------------------- the theorems *)

  (* DRF: in every configuration reachable under ANY schedule
     (1) the lock invariant holds (reader count = number of readers inside, at most one writer
         inside, a writer excludes readers),
     (2) a thread about to WRITE the map excludes every other thread from any access to it:
         no two conflicting accesses are ever enabled together,
     (3) every read of the map happens under the lock in read mode, every write in write mode. *)
  Theorem cache_drf : forall m progs sched,
    let c := run sched (init m progs) in
    lock_inv c /\
    (forall i j ti tj, i <> j ->
       nth_error (c_threads c) i = Some ti -> nth_error (c_threads c) j = Some tj ->
       access (t_pc ti) = Some true -> access (t_pc tj) = None) /\
    (forall i t, nth_error (c_threads c) i = Some t -> access (t_pc t) = Some false ->
       (0 < s_readers (c_shared c))%nat /\ s_writer (c_shared c) = false) /\
    (forall i t, nth_error (c_threads c) i = Some t -> access (t_pc t) = Some true ->
       s_writer (c_shared c) = true /\ s_readers (c_shared c) = 0%nat).
  Proof.
    intros m progs sched c.
    assert (Hinv : lock_inv c) by (apply run_lock_inv; apply init_lock_inv).
    destruct (lock_inv_exclusion c Hinv) as [X1 [X2 X3]].
    split; [exact Hinv|]. split; [|split].
    - intros i j ti tj Hij Hi Hj Ha.
      assert (Hw : holds_w ti = true) by (unfold holds_w; destruct (t_pc ti); simpl in *; congruence).
      destruct (X1 i j ti tj Hij Hi Hj Hw) as [R W].
      unfold holds_r in R; unfold holds_w in W. destruct (t_pc tj); simpl in *; congruence.
    - intros i t Hi Ha.
      assert (Hr : holds_r t = true) by (unfold holds_r; destruct (t_pc t); simpl in *; congruence).
      apply (X2 i t Hi Hr).
    - intros i t Hi Ha.
      assert (Hw : holds_w t = true) by (unfold holds_w; destruct (t_pc t); simpl in *; congruence).
      apply (X3 i t Hi Hw).
  Qed.

  (* Results: under ANY schedule, started on a cache that holds only compile's results,
     (1) the cache still holds only compile's results (it is a sub-graph of compile: a lost
         update or a double compile can only store the same value),
     (2) whatever a thread has returned so far is compile's answer for the patterns it asked,
     (3) a thread that has finished has returned exactly its sequential results, and thread i is
         still the thread that was started with the i-th pattern list. *)
  Theorem cache_results : forall m progs sched, cache_ok m ->
    let c := run sched (init m progs) in
    cache_ok (s_cache (c_shared c)) /\
    (forall i t, nth_error (c_threads c) i = Some t ->
       nth_error progs i = Some (t_prog t) /\
       Forall (fun kr => snd kr = compile (fst kr)) (t_res t) /\
       (finished t -> t_res t = sequential_results (t_prog t))).
  Proof.
    intros m progs sched Hm c.
    assert (Hd : data_inv progs c) by (apply run_data_inv; apply init_data_inv; exact Hm).
    destruct Hd as [Hc [Hf Hp]]. split; [exact Hc|].
    intros i t Hi. pose proof (nth_error_Forall _ _ _ i t Hf Hi) as [_ [Hr Hk]].
    repeat split.
    - rewrite <- Hp. apply nth_error_map_some. exact Hi.
    - exact Hr.
    - intros [Hpc Htodo]. rewrite Hpc, Htodo in Hk. simpl in Hk. rewrite app_nil_r in Hk.
      rewrite <- Hk. apply res_is_sequential. exact Hr.
  Qed.

  (* ---------------------------------------------------------------- nothing is lost *)

  (* what a thread has obtained (or is about to return) is in the cache and stays there *)
  Definition thread_cached (m : list (key * rx)) (t : thread) : Prop :=
    (forall k re, In (k, Some re) (t_res t) -> lookup k m = Some re) /\
    match t_pc t with
    | PRUnlock k (Some re) | PUnlock k re => lookup k m = Some re
    | _ => True
    end.

  Lemma lookup_stable : forall (m : list (key * rx)) k0 re0 k re,
    cache_ok ((k0, re0) :: m) -> cache_ok m -> lookup k m = Some re -> lookup k ((k0, re0) :: m) = Some re.
  Proof.
    intros m k0 re0 k re H' H L. simpl. destruct (N.eqb k k0) eqn:K; [|exact L].
    apply N.eqb_eq in K. subst k0.
    assert (E0 : compile k = Some re0) by (apply H'; simpl; rewrite N.eqb_refl; reflexivity).
    rewrite (H k re L) in E0. symmetry. exact E0.
  Qed.

  Lemma thread_cached_stable : forall m k0 re0 t,
    cache_ok ((k0, re0) :: m) -> cache_ok m -> thread_cached m t -> thread_cached ((k0, re0) :: m) t.
  Proof.
    intros m k0 re0 t H' H [A B]. split.
    - intros k re Hin. apply lookup_stable; auto.
    - destruct (t_pc t); auto; try (apply lookup_stable; auto). destruct r; auto. apply lookup_stable; auto.
  Qed.

  Lemma step_thread_cached : forall t s t' s',
    cache_ok (s_cache s) -> thread_ok t -> thread_cached (s_cache s) t -> step_thread t s = Some (t', s') ->
    thread_cached (s_cache s') t' /\
    (s_cache s' = s_cache s \/ exists k re, s_cache s' = (k, re) :: s_cache s).
  Proof.
    intros t s t' s' Hc [Hp _] [A B] E. unfold Cache.step_thread in E.
    destruct (t_pc t) eqn:P; simpl in Hp.
    - destruct (t_todo t) as [|k r]; [discriminate E|]. injection E as <- <-. split; [split; simpl; auto | left; reflexivity].
    - destruct (s_writer s); [discriminate E|]. injection E as <- <-. split; [split; simpl; auto | left; reflexivity].
    - injection E as <- <-. split; [|left; reflexivity]. split; simpl; auto.
      destruct (lookup k (s_cache s)) eqn:L; auto.
    - injection E as <- <-. split; [|left; reflexivity]. destruct r as [re|]; split; simpl; auto.
      intros k' re' Hin. apply in_app_or in Hin. destruct Hin as [Hin|[Hin|[]]]; [apply A; exact Hin|].
      injection Hin as <- <-. exact B.
    - injection E as <- <-. split; [|left; reflexivity]. destruct (compile k) as [re|]; split; simpl; auto.
      intros k' re' Hin. apply in_app_or in Hin. destruct Hin as [Hin|[Hin|[]]]; [apply A; exact Hin | discriminate Hin].
    - destruct (s_writer s || negb (Nat.eqb (s_readers s) 0)); [discriminate E|]. injection E as <- <-.
      split; [split; simpl; auto | left; reflexivity].
    - injection E as <- <-. split; [|right; exists k, re; reflexivity].
      assert (Hc' : cache_ok ((k, re) :: s_cache s)).
      { intros k' re'. simpl. destruct (N.eqb k' k) eqn:K; [|apply Hc].
        apply N.eqb_eq in K. subst k'. intros H; injection H as <-. exact Hp. }
      split; simpl.
      + intros k' re' Hin. apply lookup_stable; auto.
      + rewrite N.eqb_refl. reflexivity.
    - injection E as <- <-. split; [|left; reflexivity]. split; simpl; auto.
      intros k' re' Hin. apply in_app_or in Hin. destruct Hin as [Hin|[Hin|[]]]; [apply A; exact Hin|].
      injection Hin as <- <-. exact B.
  Qed.

  Definition cached_inv (c : config) : Prop := Forall (thread_cached (s_cache (c_shared c))) (c_threads c).

  Lemma step_cached_inv : forall progs i c, data_inv progs c -> cached_inv c -> cached_inv (step i c).
  Proof.
    intros progs i [l s] [Hc [Hf _]] Hk. unfold cached_inv, Cache.step in *; simpl in *.
    destruct (nth_error l i) as [t|] eqn:Hi; [|exact Hk].
    destruct (step_thread t s) as [[t' s']|] eqn:E; [|exact Hk]. simpl.
    pose proof (nth_error_Forall _ _ l i t Hf Hi) as Ht.
    destruct (step_thread_ok t s t' s' Hc Ht E) as [Hc' _].
    destruct (step_thread_cached t s t' s' Hc Ht (nth_error_Forall _ _ l i t Hk Hi) E) as [Hk' Hcache].
    apply Forall_upd_nth; [|exact Hk'].
    destruct Hcache as [->|[k [re Eq]]]; [exact Hk|].
    rewrite Eq in *. apply Forall_forall. intros u Hu. apply thread_cached_stable; auto.
    rewrite Forall_forall in Hk. apply Hk. exact Hu.
  Qed.

  Lemma run_invs : forall progs sched c, data_inv progs c -> cached_inv c ->
    data_inv progs (run sched c) /\ cached_inv (run sched c).
  Proof.
    unfold Cache.run. intros progs sched. induction sched as [|i r IH]; intros c Hd Hk; simpl; [split; assumption|].
    apply IH; [apply step_data_inv; exact Hd | apply (step_cached_inv progs); assumption].
  Qed.

  (* No lost update: under ANY schedule every regexp a thread has been handed is in the cache
     afterwards, and when a thread has finished, every compilable pattern it asked for is cached
     with compile's value. *)
  Theorem cache_complete : forall m progs sched, cache_ok m ->
    let c := run sched (init m progs) in
    forall i t, nth_error (c_threads c) i = Some t ->
      (forall k re, In (k, Some re) (t_res t) -> lookup k (s_cache (c_shared c)) = Some re) /\
      (finished t -> forall k re, In k (t_prog t) -> compile k = Some re ->
         lookup k (s_cache (c_shared c)) = Some re).
  Proof.
    intros m progs sched Hm c i t Hi.
    assert (Hk0 : cached_inv (init m progs)).
    { unfold cached_inv, init; simpl. apply Forall_forall. intros u Hu. apply in_map_iff in Hu.
      destruct Hu as [ks [<- _]]. split; simpl; [intros k re [] | exact I]. }
    destruct (run_invs progs sched (init m progs) (init_data_inv m progs Hm) Hk0) as [Hd Hk].
    fold c in Hd, Hk. pose proof (nth_error_Forall _ _ _ i t Hk Hi) as [A _].
    split; [exact A|].
    intros Hfin k re Hin Hcomp.
    destruct (cache_results m progs sched Hm) as [_ R]. fold c in R.
    destruct (R i t Hi) as [_ [_ Hseq]]. specialize (Hseq Hfin).
    apply A. rewrite Hseq. unfold Cache.sequential_results. apply in_map_iff. exists k. split; [|exact Hin].
    rewrite Hcomp. reflexivity.
  Qed.

  (* No deadlock: as long as some thread has not finished, some thread can take a step. *)
  Theorem cache_progress : forall m progs sched,
    let c := run sched (init m progs) in
    (exists i t, nth_error (c_threads c) i = Some t /\ ~ finished t) ->
    exists j t, nth_error (c_threads c) j = Some t /\ step_thread t (c_shared c) <> None.
  Proof.
    intros m progs sched c [i [t [Hi Hnf]]].
    assert (Hinv : lock_inv c) by (apply run_lock_inv; apply init_lock_inv).
    destruct c as [l s]. destruct Hinv as [I1 [I2 I3]]. simpl in *.
    destruct (s_writer s) eqn:W.
    - (* the writer inside can always move *)
      destruct (count_pos_ex holds_w l) as [j [tw [Hj Hw]]]; [lia|].
      exists j, tw. split; [exact Hj|]. unfold Cache.step_thread, holds_w in *.
      destruct (t_pc tw); try discriminate Hw; intros E; discriminate E.
    - destruct (Nat.eqb (s_readers s) 0) eqn:R.
      + (* nobody holds the lock: the unfinished thread itself can move *)
        apply Nat.eqb_eq in R. exists i, t. split; [exact Hi|].
        pose proof (count_zero_all holds_r l i t (eq_trans (eq_sym I1) R) Hi) as Nr.
        pose proof (count_zero_all holds_w l i t I2 Hi) as Nw.
        unfold Cache.step_thread, holds_r, holds_w, finished in *.
        destruct (t_pc t) eqn:P; try discriminate Nr; try discriminate Nw; rewrite ?W, ?R; simpl;
          try (intros E; discriminate E).
        destruct (t_todo t) eqn:T; [exfalso; apply Hnf; split; reflexivity | intros E; discriminate E].
      + (* a reader inside can always move *)
        apply Nat.eqb_neq in R.
        destruct (count_pos_ex holds_r l) as [j [tr [Hj Hr]]]; [lia|].
        exists j, tr. split; [exact Hj|]. unfold Cache.step_thread, holds_r in *.
        destruct (t_pc tr); try discriminate Hr; intros E; discriminate E.
  Qed.
End CacheProofs.

(* ------------------------------------------------------------------ disjoint footprints *)

Section FootprintProofs.
  Variables (loc val L : Type).
  Variable loc_eq_dec : forall a b : loc, {a = b} + {a <> b}.
  Variable stp : nat -> L -> mem loc val -> L * list (loc * val).
  Variable reads owns : nat -> loc -> Prop.
  Notation mem := (mem loc val).
  Notation apply_stores := (apply_stores loc val loc_eq_dec).
  Notation cstep := (cstep loc val L loc_eq_dec stp).
  Notation crun := (crun loc val L loc_eq_dec stp).
  Notation solo := (solo loc val L loc_eq_dec stp).

  Hypothesis Hreads : reads_only loc val L stp reads.
  Hypothesis Hwrites : writes_owned loc val L stp owns.
  Hypothesis Hdisj : footprints_disjoint loc reads owns.

  Definition footprint (i : nat) (x : loc) : Prop := reads i x \/ owns i x.

  Lemma apply_stores_other : forall ws (m : mem) x,
    (forall v, ~ In (x, v) ws) -> apply_stores ws m x = m x.
  Proof.
    induction ws as [|[y v] r IH]; intros m x H; simpl; [reflexivity|].
    rewrite IH.
    - unfold put. destruct (loc_eq_dec x y) as [->|]; [|reflexivity].
      exfalso. apply (H v). left; reflexivity.
    - intros v' Hin. apply (H v'). right; exact Hin.
  Qed.

  (* the same stores applied to memories that agree on a set keep them agreeing on it *)
  Lemma apply_stores_agree : forall ws (m m' : mem) (P : loc -> Prop),
    (forall x, P x -> m x = m' x) -> forall x, P x -> apply_stores ws m x = apply_stores ws m' x.
  Proof.
    induction ws as [|[y v] r IH]; intros m m' P H x Hx; simpl; [apply H; exact Hx|].
    apply (IH _ _ P); [|exact Hx]. intros z Hz. unfold put. destruct (loc_eq_dec z y); [reflexivity | apply H; exact Hz].
  Qed.

  (* a thread running alone cannot tell memories apart that agree on its footprint *)
  Lemma solo_agree : forall i n l (m m' : mem),
    (forall x, footprint i x -> m x = m' x) ->
    fst (solo i n l m) = fst (solo i n l m') /\
    (forall x, footprint i x -> snd (solo i n l m) x = snd (solo i n l m') x).
  Proof.
    intros i n. induction n as [|n IH]; intros l m m' H; simpl; [split; [reflexivity | exact H]|].
    assert (E : stp i l m = stp i l m') by (apply Hreads; intros x Hx; apply H; left; exact Hx).
    rewrite <- E. destruct (stp i l m) as [l' ws]. apply IH.
    apply apply_stores_agree. exact H.
  Qed.

  (* a step of another thread is invisible on thread i's footprint *)
  Lemma other_step_invisible : forall i j (st : (nat -> L) * mem), i <> j ->
    fst (cstep j st) i = fst st i /\ (forall x, footprint i x -> snd (cstep j st) x = snd st x).
  Proof.
    intros i j [ls m] Hij. unfold Cache.cstep; simpl.
    destruct (stp j (ls j) m) as [l' ws] eqn:E. simpl. split.
    - unfold set_local. destruct (Nat.eqb i j) eqn:N; [apply Nat.eqb_eq in N; contradiction | reflexivity].
    - intros x Hx. apply apply_stores_other. intros v Hin.
      assert (Ho : owns j x) by (apply (Hwrites j (ls j) m x v); rewrite E; exact Hin).
      destruct (Hdisj j i x (fun e => Hij (eq_sym e)) Ho) as [Nr No]. destruct Hx; contradiction.
  Qed.

  (* Schedule independence: after ANY schedule, the private state of thread i and the shared
     memory on i's footprint are what thread i computes when it runs ALONE, from the initial
     memory, for the number of steps the schedule gave it. *)
  Theorem interleaving_is_sequential : forall sched (ls : nat -> L) (m : mem) i,
    let n := count_occ Nat.eq_dec sched i in
    fst (crun sched (ls, m)) i = fst (solo i n (ls i) m) /\
    (forall x, footprint i x -> snd (crun sched (ls, m)) x = snd (solo i n (ls i) m) x).
  Proof.
    induction sched as [|j r IH]; intros ls m i; simpl; [split; reflexivity|].
    destruct (Nat.eq_dec j i) as [->|Hji].
    - (* thread i itself moves: unfold one step of the solo run *)
      simpl. unfold Cache.cstep. simpl.
      destruct (stp i (ls i) m) as [l' ws] eqn:E. simpl.
      pose proof (IH (set_local L ls i l') (apply_stores ws m) i) as IH'. simpl in IH'.
      assert (S1 : set_local L ls i l' i = l') by (unfold set_local; rewrite Nat.eqb_refl; reflexivity).
      rewrite S1 in IH'. exact IH'.
    - (* another thread moves: invisible to i *)
      destruct (other_step_invisible i j (ls, m) (fun e => Hji (eq_sym e))) as [Hl Hm].
      destruct (cstep j (ls, m)) as [ls1 m1] eqn:E. simpl in Hl, Hm.
      specialize (IH ls1 m1 i). simpl in IH. destruct IH as [IH1 IH2].
      destruct (solo_agree i (count_occ Nat.eq_dec r i) (ls1 i) m1 m Hm) as [A1 A2].
      rewrite Hl in *. split.
      + rewrite IH1. exact A1.
      + intros x Hx. rewrite (IH2 x Hx). apply A2. exact Hx.
  Qed.
End FootprintProofs.

(* Threads whose shared accesses are all reads (no stores at all): proved directly, for step
   functions that may look at the WHOLE shared memory. *)
Section Readers.
  Variables (loc val L : Type).
  Variable loc_eq_dec : forall a b : loc, {a = b} + {a <> b}.
  Variable rd : nat -> L -> mem loc val -> L.        (* a step reads the shared memory only *)
  Definition rd_stp (i : nat) (l : L) (m : mem loc val) : L * list (loc * val) := (rd i l m, []).

  Fixpoint iter_rd (i n : nat) (l : L) (m : mem loc val) : L :=
    match n with O => l | S n' => iter_rd i n' (rd i l m) m end.

  Lemma readers_mem_unchanged : forall sched ls m,
    snd (crun loc val L loc_eq_dec rd_stp sched (ls, m)) = m.
  Proof.
    induction sched as [|j r IH]; intros ls m; simpl; [reflexivity|].
    unfold cstep, rd_stp; simpl. apply IH.
  Qed.

  (* In every interleaving a reader ends in the state it reaches by running alone for as many
     steps as it was scheduled, and the shared memory is what it was. *)
  Theorem readers_sequential : forall sched ls m i,
    fst (crun loc val L loc_eq_dec rd_stp sched (ls, m)) i = iter_rd i (count_occ Nat.eq_dec sched i) (ls i) m /\
    snd (crun loc val L loc_eq_dec rd_stp sched (ls, m)) = m.
  Proof.
    intros sched ls m i. split; [|apply readers_mem_unchanged].
    revert ls. induction sched as [|j r IH]; intros ls; simpl; [reflexivity|].
    unfold cstep, rd_stp; simpl. rewrite IH. unfold set_local.
    destruct (Nat.eq_dec j i) as [->|Hji].
    - rewrite Nat.eqb_refl. reflexivity.
    - destruct (Nat.eqb i j) eqn:N; [apply Nat.eqb_eq in N; subst; contradiction Hji; reflexivity | reflexivity].
  Qed.
End Readers.
