(* Cache.v — C21: the one piece of concurrency LOGIC in ygot's library code, the regexp cache of
   ytypes/string_type.go, as a small-step interleaving semantics; and the generic interleaving
   model in which "threads that only read what they share give their sequential results".

     func (c *regexpCache) compilePattern(pattern string, isPOSIX bool) ( *regexp.Regexp, error) {
       ...
       if re := func() *regexp.Regexp {
           regexMutex.RLock()                     -- PRLock
           defer regexMutex.RUnlock()             -- PRUnlock
           return regexCache[pattern]             -- PRead
       }(); re != nil { return re, nil }
       re, err := regexCompile(pattern)           -- PCompile (thread-local)
       if err != nil { return nil, err }
       regexMutex.Lock()                          -- PLock
       defer regexMutex.Unlock()                  -- PUnlock
       regexCache[pattern] = re                   -- PWrite
       return re, nil
     }

   A thread is a goroutine that calls compilePattern for a list of patterns one after the other
   (what Validate does for the pattern-restricted strings of a tree).  Every constructor of `pc`
   is one atomic step.  sync.RWMutex is modelled by a reader count and a writer flag: RLock is
   enabled when no writer holds the lock, Lock when nobody holds it (the writer-preference of the
   real mutex only removes schedules).  A step that is not enabled leaves the configuration
   unchanged, so every list of thread ids is a schedule.  regexp.Compile is a parameter
   (`compile`): a function of the pattern, None = error.
   Definitions only; proofs are in CacheProofs.v. *)
From Ygot Require Import Base.Base.

Section Cache.
  Definition key := N.     (* a pattern (of one of the two maps: they are independent copies of this model) *)
  Definition rx := N.      (* a compiled regexp, up to the equivalence "compiled from the same pattern" *)
  Variable compile : key -> option rx.

  Inductive pc :=
  | PIdle
  | PRLock (k : key)
  | PRead (k : key)
  | PRUnlock (k : key) (r : option rx)
  | PCompile (k : key)
  | PLock (k : key) (re : rx)
  | PWrite (k : key) (re : rx)
  | PUnlock (k : key) (re : rx).

  Record thread := {
    t_prog : list key;                   (* ghost: the patterns this goroutine was started with *)
    t_todo : list key;
    t_pc : pc;
    t_res : list (key * option rx)       (* what compilePattern returned, in call order *)
  }.
  Record shared := {
    s_cache : list (key * rx);           (* the Go map: the first binding of a key is its value *)
    s_readers : nat;
    s_writer : bool
  }.
  Record config := { c_threads : list thread; c_shared : shared }.

  Fixpoint lookup (k : key) (m : list (key * rx)) : option rx :=
    match m with
    | [] => None
    | (k', re) :: r => if N.eqb k k' then Some re else lookup k r
    end.

  Definition set_pc (t : thread) (p : pc) : thread :=
    {| t_prog := t_prog t; t_todo := t_todo t; t_pc := p; t_res := t_res t |}.
  Definition finish (t : thread) (k : key) (r : option rx) : thread :=
    {| t_prog := t_prog t; t_todo := t_todo t; t_pc := PIdle; t_res := t_res t ++ [(k, r)] |}.

  (* one atomic step of a thread; None: blocked on the lock, or nothing left to do *)
  Definition step_thread (t : thread) (s : shared) : option (thread * shared) :=
    match t_pc t with
    | PIdle =>
        match t_todo t with
        | [] => None
        | k :: r => Some ({| t_prog := t_prog t; t_todo := r; t_pc := PRLock k; t_res := t_res t |}, s)
        end
    | PRLock k =>
        if s_writer s then None
        else Some (set_pc t (PRead k),
                   {| s_cache := s_cache s; s_readers := S (s_readers s); s_writer := s_writer s |})
    | PRead k => Some (set_pc t (PRUnlock k (lookup k (s_cache s))), s)
    | PRUnlock k r =>
        Some (match r with Some re => finish t k (Some re) | None => set_pc t (PCompile k) end,
              {| s_cache := s_cache s; s_readers := pred (s_readers s); s_writer := s_writer s |})
    | PCompile k =>
        Some (match compile k with None => finish t k None | Some re => set_pc t (PLock k re) end, s)
    | PLock k re =>
        if s_writer s || negb (Nat.eqb (s_readers s) 0) then None
        else Some (set_pc t (PWrite k re),
                   {| s_cache := s_cache s; s_readers := s_readers s; s_writer := true |})
    | PWrite k re =>
        Some (set_pc t (PUnlock k re),
              {| s_cache := (k, re) :: s_cache s; s_readers := s_readers s; s_writer := s_writer s |})
    | PUnlock k re =>
        Some (finish t k (Some re),
              {| s_cache := s_cache s; s_readers := s_readers s; s_writer := false |})
    end.

  Fixpoint upd_nth {A} (i : nat) (x : A) (l : list A) : list A :=
    match l, i with
    | [], _ => []
    | _ :: r, O => x :: r
    | y :: r, S i' => y :: upd_nth i' x r
    end.

  (* thread i takes a step if it can *)
  Definition step (i : nat) (c : config) : config :=
    match nth_error (c_threads c) i with
    | None => c
    | Some t =>
        match step_thread t (c_shared c) with
        | None => c
        | Some (t', s') => {| c_threads := upd_nth i t' (c_threads c); c_shared := s' |}
        end
    end.

  Definition run (sched : list nat) (c : config) : config := fold_left (fun c i => step i c) sched c.

  (* N goroutines with their pattern lists, started on a cache with arbitrary earlier content *)
  Definition init (m : list (key * rx)) (progs : list (list key)) : config :=
    {| c_threads := map (fun ks => {| t_prog := ks; t_todo := ks; t_pc := PIdle; t_res := [] |}) progs;
       c_shared := {| s_cache := m; s_readers := 0; s_writer := false |} |}.

  (* ---- what the theorems talk about *)

  (* the access to the shared map a thread is about to perform: Some true = write, Some false = read *)
  Definition access (p : pc) : option bool :=
    match p with PRead _ => Some false | PWrite _ _ => Some true | _ => None end.
  (* critical sections *)
  Definition holds_r (t : thread) : bool :=
    match t_pc t with PRead _ | PRUnlock _ _ => true | _ => false end.
  Definition holds_w (t : thread) : bool :=
    match t_pc t with PWrite _ _ | PUnlock _ _ => true | _ => false end.
  Definition count (f : thread -> bool) (l : list thread) : nat := length (filter f l).

  (* the RW-lock invariant: the reader count is the number of threads in a read section, the
     writer flag says whether (exactly one) thread is in the write section, writers are exclusive *)
  Definition lock_inv (c : config) : Prop :=
    s_readers (c_shared c) = count holds_r (c_threads c) /\
    count holds_w (c_threads c) = (if s_writer (c_shared c) then 1 else 0)%nat /\
    (s_writer (c_shared c) = true -> s_readers (c_shared c) = 0%nat).

  (* the cache only ever holds what compile yields *)
  Definition cache_ok (m : list (key * rx)) : Prop :=
    forall k re, lookup k m = Some re -> compile k = Some re.

  Definition finished (t : thread) : Prop := t_pc t = PIdle /\ t_todo t = [].
  Definition sequential_results (ks : list key) : list (key * option rx) := map (fun k => (k, compile k)) ks.

  (* data invariants *)
  Definition pc_ok (p : pc) : Prop :=
    match p with
    | PRUnlock k (Some re) | PLock k re | PWrite k re | PUnlock k re => compile k = Some re
    | _ => True
    end.
  Definition cur_key (p : pc) : list key :=
    match p with
    | PIdle => []
    | PRLock k | PRead k | PRUnlock k _ | PCompile k | PLock k _ | PWrite k _ | PUnlock k _ => [k]
    end.
  Definition thread_ok (t : thread) : Prop :=
    pc_ok (t_pc t) /\
    Forall (fun kr => snd kr = compile (fst kr)) (t_res t) /\
    map fst (t_res t) ++ cur_key (t_pc t) ++ t_todo t = t_prog t.
  Definition data_inv (progs : list (list key)) (c : config) : Prop :=
    cache_ok (s_cache (c_shared c)) /\ Forall thread_ok (c_threads c) /\ map t_prog (c_threads c) = progs.
End Cache.

(* ---------------------------------------------------------------------------------------------
   Generic interleavings of threads with declared footprints.  Thread i has a private state of
   type L and a step function that looks at the shared memory and returns its new private state
   and a list of stores.  `reads i` / `owns i` are the locations it may read / write. *)
Section Footprints.
  Variables (loc val L : Type).
  Variable loc_eq_dec : forall a b : loc, {a = b} + {a <> b}.
  Definition mem := loc -> val.
  Variable stp : nat -> L -> mem -> L * list (loc * val).

  Definition put (m : mem) (x : loc) (v : val) : mem := fun y => if loc_eq_dec y x then v else m y.
  Fixpoint apply_stores (ws : list (loc * val)) (m : mem) : mem :=
    match ws with
    | [] => m
    | (x, v) :: r => apply_stores r (put m x v)
    end.
  Definition set_local (ls : nat -> L) (i : nat) (l : L) : nat -> L := fun j => if Nat.eqb j i then l else ls j.

  (* thread i takes one step in the shared memory *)
  Definition cstep (i : nat) (st : (nat -> L) * mem) : (nat -> L) * mem :=
    let '(l', ws) := stp i (fst st i) (snd st) in (set_local (fst st) i l', apply_stores ws (snd st)).
  Fixpoint crun (sched : list nat) (st : (nat -> L) * mem) : (nat -> L) * mem :=
    match sched with
    | [] => st
    | i :: r => crun r (cstep i st)
    end.

  (* thread i running alone for n steps *)
  Fixpoint solo (i : nat) (n : nat) (l : L) (m : mem) : L * mem :=
    match n with
    | O => (l, m)
    | S n' => let '(l', ws) := stp i l m in solo i n' l' (apply_stores ws m)
    end.

  Variable reads : nat -> loc -> Prop.
  Variable owns : nat -> loc -> Prop.
  (* a step depends only on the locations the thread reads ... *)
  Definition reads_only : Prop :=
    forall i l m m', (forall x, reads i x -> m x = m' x) -> stp i l m = stp i l m'.
  (* ... stores only into locations it owns ... *)
  Definition writes_owned : Prop :=
    forall i l m x v, In (x, v) (snd (stp i l m)) -> owns i x.
  (* ... and nobody else reads or writes what a thread owns *)
  Definition footprints_disjoint : Prop :=
    forall i j x, i <> j -> owns i x -> ~ reads j x /\ ~ owns j x.
End Footprints.
