(* C15 — generated ordered maps behave as insertion-ordered unique-key maps.
   This file only restates results proved in Gen/OrderedMapProofs.v about the model
   Gen/OrderedMap.v (a transcription of gogen/ordered_list.go's two templates), for an
   arbitrary key type K with Go equality keq, arbitrary entries V and ARBITRARY operation lists.

   Not covered by a Coq theorem (checked on the implementation by the `ordmap` stream only):
   preservation of the order through JSON, gNMI and DeepCopy, and the absence of aliasing
   between the slices returned by Keys()/Values() and the map (c15_keys_values_fresh_partial is
   the model-level shadow of that statement). *)
From Ygot Require Import Base.Base Gen.GoMap Gen.OrderedMap Gen.OrderedMapProofs Corr.OrdMapCorr.

Section C15.
  Variables K V T : Type.
  Variable keq : K -> K -> bool.
  Variable keyof : V -> option K.
  Variable mk : K -> T -> V.
  Hypothesis keq_spec : forall a b, keq a b = true <-> a = b.

  Notation ostep := (ostep K V T keq keyof mk).
  Notation orun := (orun K V T keq keyof mk).
  Notation arun := (arun K V T keq keyof mk).

  (* Inv := NoDup keys /\ (k in keys <-> valueMap has k), after any sequence of calls starting
     from a parent whose field is nil *)
  Theorem c15_inv : forall ops, ostate_inv K V keq (fst (orun None ops)).
  Proof. exact (om_run_inv K V T keq keyof mk keq_spec). Qed.

  (* the generated code and the insertion-ordered list of bindings produce the same outputs
     for every call of every sequence, and end in related states *)
  Theorem c15_refines : forall ops,
    snd (orun None ops) = snd (arun None ops) /\
    abs_state K V keq (fst (orun None ops)) = fst (arun None ops).
  Proof. exact (om_run_refines K V T keq keyof mk keq_spec). Qed.

  (* the specification state never holds two bindings of one key *)
  Theorem c15_abs_unique : forall ops l, fst (arun None ops) = Some l -> NoDup (map fst l).
  Proof. exact (om_abs_unique K V T keq keyof mk keq_spec). Qed.

  (* a failed Append/AppendNew leaves the ordered map unchanged (the parent helpers AppendX /
     AppendNewX replace a nil field by an empty ordered map before they fail) *)
  Theorem c15_reject_no_change : forall s op, is_append K V T op = true ->
    snd (ostep s op) = OErr ->
    fst (ostep s op) = s \/ (s = None /\ fst (ostep s op) = Some (om_empty K V)).
  Proof. exact (om_reject_no_change K V T keq keyof mk). Qed.

  (* nil entries, nil key fields and duplicate keys are rejected *)
  Theorem c15_append_rejects : forall (m : om K V) e, om_inv K V keq m ->
    (e = None \/ exists v, e = Some v /\
       (keyof v = None \/ exists k, keyof v = Some k /\ In k (om_keys m))) ->
    ostep (Some m) (OAppend e) = (Some m, OErr) /\ ostep (Some m) (PAppend e) = (Some m, OErr).
  Proof. exact (om_append_rejects K V T keq keyof mk). Qed.

  Theorem c15_appendnew_rejects : forall (m : om K V) k t, om_inv K V keq m -> In k (om_keys m) ->
    ostep (Some m) (OAppendNew k t) = (Some m, OErr) /\ ostep (Some m) (PAppendNew k t) = (Some m, OErr).
  Proof. exact (om_appendnew_rejects K V T keq keyof mk). Qed.

  (* everything else is accepted and goes to the end of the order *)
  Theorem c15_append_accepts : forall (m : om K V) v k, om_inv K V keq m ->
    keyof v = Some k -> ~ In k (om_keys m) ->
    exists m', ostep (Some m) (OAppend (Some v)) = (Some m', OOk) /\
               abs_om K V keq m' = abs_om K V keq m ++ [(k, v)].
  Proof. exact (om_append_accepts K V T keq keyof mk keq_spec). Qed.

  Theorem c15_values_no_nil : forall s, ostate_inv K V keq s -> forall vs,
    m_values K V keq s = OValList (Some vs) -> ~ In None vs.
  Proof. exact (om_values_no_nil K V keq). Qed.

  (* every stored entry carries the key it is stored under *)
  Theorem c15_entry_keys : (forall k t, keyof (mk k t) = Some k) ->
    forall ops m k v, fst (orun None ops) = Some m ->
      gm_get keq k (om_vmap m) = Some v -> keyof v = Some k.
  Proof. exact (om_entry_keys K V T keq keyof mk keq_spec). Qed.

  (* PARTIAL: Keys()/Values() return copies.  In the model outputs are values, so the statement
     degenerates to: later calls do not change what earlier calls returned.  The real statement
     (no shared backing array) is tested on the implementation by the stream's oracle. *)
  Theorem c15_keys_values_fresh_partial : forall ops ops' s,
    firstn (length ops) (snd (orun s (ops ++ ops'))) = snd (orun s ops).
  Proof. exact (om_outputs_stable K V T keq keyof mk). Qed.

  (* "nil keys are rejected", read at the level of YANG key leaves: *)
  Definition c15_nil_keys_rejected_full (unset : K -> bool) : Prop :=
    forall s v, snd (ostep s (OAppend (Some v))) = OOk -> om_key_leaves_set K V keyof unset v.

  (* it holds when every key field is pointer-typed (no Go key value stands for "unset") ... *)
  Theorem c15_nil_keys_rejected_partial : forall unset, (forall k, unset k = false) ->
    c15_nil_keys_rejected_full unset.
  Proof. exact (om_append_rejects_unset_partial K V T keq keyof mk). Qed.

  (* ... and fails for a list with an enum or union key: the template emits no check for such a
     key field, the entry with the unset key is accepted.  (The YANG corpus of the check holds no
     ordered list with such a key; the same template branch is exercised for keyed lists, C34.) *)
  Theorem c15_nil_keys_refuted_enum_union : (forall k t, keyof (mk k t) = Some k) ->
    forall unset k0 (t : T), unset k0 = true -> ~ c15_nil_keys_rejected_full unset.
  Proof.
    intros Hmk unset k0 t U F.
    destruct (om_append_accepts_unset K V T keq keyof mk Hmk unset k0 t U) as [A B].
    apply B. exact (F _ _ A).
  Qed.
End C15.

Print Assumptions c15_inv.
Print Assumptions c15_refines.
Print Assumptions c15_abs_unique.
Print Assumptions c15_reject_no_change.
Print Assumptions c15_append_rejects.
Print Assumptions c15_appendnew_rejects.
Print Assumptions c15_append_accepts.
Print Assumptions c15_values_no_nil.
Print Assumptions c15_entry_keys.
Print Assumptions c15_keys_values_fresh_partial.
Print Assumptions c15_nil_keys_rejected_partial.
Print Assumptions c15_nil_keys_refuted_enum_union.

(* Non-vacuity, at the instance used by the correspondence check (K := N): the hypothesis on
   keq is satisfiable, and a run with accepted, rejected and deleting calls reaches the expected
   order. *)
Example c15_keq_instance : forall a b : N, N.eqb a b = true <-> a = b.
Proof. exact N.eqb_eq. Qed.

Open Scope N_scope.
Definition c15_example_ops : list om_op :=
  [ OAppend (Some (Some 1, 10));          (* nil receiver: error *)
    PAppend (Some (Some 1, 10));          (* allocates, appends 1 *)
    PAppendNew 2 11;                      (* appends 2 *)
    OAppend (Some (Some 1, 12));          (* duplicate: error *)
    OAppend (Some (None, 13));            (* nil key: error *)
    OAppend None;                         (* nil entry: error *)
    OAppendNew 3 14;
    ODelete 2;
    OAppendNew 2 15;
    OKeys; OValues; OLen; OGet 2; PGet 7; PDelete 7 ].
Example c15_example_run :
  snd (orun N om_cV N N.eqb om_keyof om_mk None c15_example_ops) =
    [ OErr; OOk; OEntry (Some (Some 2, 11)); OErr; OErr; OErr; OEntry (Some (Some 3, 14));
      OBool true; OEntry (Some (Some 2, 15));
      OKeyList (Some [1; 3; 2]);
      OValList (Some [Some (Some 1, 10); Some (Some 3, 14); Some (Some 2, 15)]);
      OLenN 3; OEntry (Some (Some 2, 15)); OEntry None; OBool false ]
  /\ abs_state N om_cV N.eqb (fst (orun N om_cV N N.eqb om_keyof om_mk None c15_example_ops)) =
     Some [(1, (Some 1, 10)); (3, (Some 3, 14)); (2, (Some 2, 15))].
Proof. split; vm_compute; reflexivity. Qed.
