(* C20 — Malformed input yields errors, never panics (the entry points modelled so far:
   Unmarshal of arbitrary JSON into any tree with any options; StringToPath on any rune list). *)
From Ygot Require Import Tree.Tree Tree.Codec Tree.TreeOps Tree.Unmarshal Tree.UnmarshalProofs
  Path.PathString Path.PathStringProofs.

Theorem c20_unmarshal_total : forall env fo opts s cur j, unmarshal env fo opts s cur j <> Panic.
Proof. exact unmarshal_no_panic. Qed.
Print Assumptions c20_unmarshal_total.

Theorem c20_unmarshal_node_total : forall env fo opts fuel s cur j, unm_node env fo opts fuel s cur j <> Panic.
Proof. exact unm_node_no_panic. Qed.
Print Assumptions c20_unmarshal_node_total.

Theorem c20_string_to_path_total : forall s, parse_path s <> Panic /\ parse_slice s <> Panic.
Proof. intros s; split; [apply parse_total | apply parse_slice_total]. Qed.
Print Assumptions c20_string_to_path_total.
