(* C09 — gNMI path relations: ComparePaths returns the true set relation between the sets of
   concrete data paths two path patterns denote; the result is independent of map iteration
   order and antisymmetric under swapping the arguments; trim/join, common-prefix and
   query-match characterisations.
   This file only restates results proved in Path/PathRelProofs.v. *)
From Coq Require Import Permutation.
From Ygot Require Import Base.Base Path.PathString Path.PathRel Path.PathRelProofs.

(* (T1) soundness and completeness of ComparePaths w.r.t. the denotation D *)
Theorem c09_compare : forall a b, wf_gpb a = true -> wf_gpb b = true ->
  rel_holds (compare_paths a b) (D a) (D b).
Proof. exact compare_paths_sound. Qed.
Print Assumptions c09_compare.

(* (T2) swapping the arguments exchanges Subset and Superset *)
Theorem c09_swap : forall a b, wf_gpb a = true -> wf_gpb b = true ->
  compare_paths b a = swap_rel (compare_paths a b).
Proof. exact compare_paths_swap. Qed.
Print Assumptions c09_swap.

(* (T3) the element comparison does not depend on the order in which the keys are listed
   (Go map iteration order) *)
Theorem c09_order_independent : forall n m ka ka' kb kb',
  Permutation ka ka' -> Permutation kb kb' ->
  wf_relemb {| ename := n; ekeys := ka |} = true ->
  wf_relemb {| ename := m; ekeys := kb |} = true ->
  compare_elem {| ename := n; ekeys := ka |} {| ename := m; ekeys := kb |} =
  compare_elem {| ename := n; ekeys := ka' |} {| ename := m; ekeys := kb' |}.
Proof. exact compare_elem_perm. Qed.
Print Assumptions c09_order_independent.

(* (T4) TrimGNMIPathElemPrefix followed by JoinPaths restores the path up to PathElemsEqual.
   Statement adjusted w.r.t. the plan: PathElemsEqual e e holds only if the key names of e
   are distinct (always the case for a Go map; the model's association lists allow
   duplicates), hence the hypothesis nodup_pathb (elems p). *)
Theorem c09_trim_join : forall p pre,
  matches_elem_prefix p pre = true ->
  nodup_pathb (elems p) = true ->
  target pre = [] \/ target p = [] \/ target pre = target p ->
  exists j, join_paths pre (trim_elem_prefix p pre) = Ok j /\
            length (elems j) = length (elems p) /\
            Forall2 (fun x y => elems_equal x y = true) (elems j) (elems p).
Proof. exact trim_join. Qed.
Print Assumptions c09_trim_join.

(* the same without any condition on the keys, in structural form *)
Theorem c09_trim_join_struct : forall p pre,
  matches_elem_prefix p pre = true ->
  target pre = [] \/ target p = [] \/ target pre = target p ->
  exists j, join_paths pre (trim_elem_prefix p pre) = Ok j /\
            origin j = origin p /\
            elems j = elems pre ++ skipn (length (elems pre)) (elems p) /\
            length (elems j) = length (elems p) /\
            Forall2 (fun x y => elems_equal x y = true)
                    (elems pre) (firstn (length (elems pre)) (elems p)).
Proof. exact trim_join_struct. Qed.
Print Assumptions c09_trim_join_struct.

(* (T5) FindPathElemPrefix: the result is a common prefix of all inputs, an initial segment of
   the first, and maximal.  PathElemsEqual is reflexive and symmetric only on elements with
   distinct key names, hence the hypothesis (always true of Go maps). *)
Theorem c09_common_prefix : forall p rest,
  forallb nodup_pathb (p :: rest) = true ->
  let r := find_prefix (p :: rest) in
  (forall x, In x (p :: rest) -> elems_prefix r x = true) /\
  r = firstn (length r) p /\
  ((exists x, In x (p :: rest) /\ length x = length r) \/
   (exists x ex ep, In x rest /\ nth_error x (length r) = Some ex /\
                    nth_error p (length r) = Some ep /\ elems_equal ex ep = false)).
Proof. exact find_prefix_spec. Qed.
Print Assumptions c09_common_prefix.

Theorem c09_common_prefix_longest : forall p rest c,
  forallb nodup_pathb (p :: rest) = true -> nodup_pathb c = true ->
  (forall x, In x (p :: rest) -> elems_prefix c x = true) ->
  (length c <= length (find_prefix (p :: rest)))%nat.
Proof. exact find_prefix_longest. Qed.
Print Assumptions c09_common_prefix_longest.

(* (T6) PathMatchesQuery *)
Theorem c09_query : forall p q,
  matches_query p q = true <->
  (length (elems q) <= length (elems p))%nat /\
  origin_equiv (origin p) (origin q) = true /\
  Forall2 qmatch (firstn (length (elems q)) (elems p)) (elems q).
Proof. exact matches_query_iff. Qed.
Print Assumptions c09_query.

(* ---------- non-vacuity: the guards hold on non-trivial values ---------- *)

Definition sa : str := [97].    (* "a" *)
Definition sb : str := [98].    (* "b" *)
Definition sc : str := [99].    (* "c" *)
Definition k1 : str := [107; 49].   (* "k1" *)
Definition k2 : str := [107; 50].   (* "k2" *)
Definition v1 : str := [120].   (* "x" *)
Definition v2 : str := [121; 233; 19990].
Definition el (n : str) (ks : list (str * str)) : pelem := {| ename := n; ekeys := ks |}.
Definition mk (o : str) (es : list pelem) : gp := {| origin := o; target := []; elems := es |}.

(* /a/b[k1=x][k2=*]/c  vs  openconfig:/a/b[k2=yé世][k1=*] : neither includes the other *)
Definition c09_pa : gp := mk [] [el sa []; el sb [(k1, v1); (k2, STAR)]; el sc []].
Definition c09_pb : gp := mk OC [el sa []; el sb [(k2, v2); (k1, STAR)]].
(* /a/b[k1=x] (key k2 absent)  and  /a/b[k1=x][k2=yé世] *)
Definition c09_pc : gp := mk [] [el sa []; el sb [(k1, v1)]].
Definition c09_pd : gp := mk [] [el sa []; el sb [(k2, v2); (k1, v1)]].
Definition c09_pe : gp := mk [] [el sa []; el sb [(k1, v2)]].

Example c09_guard_satisfiable :
  wf_gpb c09_pa = true /\ wf_gpb c09_pb = true /\ wf_gpb c09_pc = true /\
  wf_gpb c09_pd = true /\ wf_gpb c09_pe = true.
Proof. repeat split; vm_compute; reflexivity. Qed.

(* all five outcomes occur on well-formed inputs *)
Example c09_outcomes :
  compare_paths c09_pa c09_pb = RPartial /\
  compare_paths c09_pc c09_pd = RSuperset /\
  compare_paths c09_pd c09_pc = RSubset /\
  compare_paths c09_pd c09_pe = RDisjoint /\
  compare_paths c09_pc (mk OC [el sa []; el sb [(k1, v1); (k2, STAR)]]) = REqual.
Proof. repeat split; vm_compute; reflexivity. Qed.

Example c09_order_guard :
  Permutation [(k1, v1); (k2, STAR)] [(k2, STAR); (k1, v1)] /\
  wf_relemb (el sb [(k1, v1); (k2, STAR)]) = true /\
  compare_elem (el sb [(k1, v1); (k2, STAR)]) (el sb [(k2, v2); (k1, STAR)]) = RPartial.
Proof. split; [apply perm_swap | split; vm_compute; reflexivity]. Qed.

Example c09_trim_join_guard :
  let p := {| origin := OC; target := sa; elems := elems c09_pa |} in
  let pre := {| origin := OC; target := []; elems := [el sa []; el sb [(k2, STAR); (k1, v1)]] |} in
  matches_elem_prefix p pre = true /\ nodup_pathb (elems p) = true /\
  join_paths pre (trim_elem_prefix p pre) =
    Ok {| origin := OC; target := sa;
          elems := [el sa []; el sb [(k2, STAR); (k1, v1)]; el sc []] |}.
Proof. repeat split; vm_compute; reflexivity. Qed.

Example c09_common_prefix_guard :
  let ps := [elems c09_pa; elems c09_pd; [el sa []; el sb [(k1, v1); (k2, v2)]; el sc []]] in
  forallb nodup_pathb ps = true /\
  find_prefix [elems c09_pc; [el sa []; el sb [(k1, v1)]; el sc []]] = elems c09_pc /\
  find_prefix ps = [el sa []].
Proof. repeat split; vm_compute; reflexivity. Qed.

Example c09_query_guard :
  matches_query c09_pd (mk OC [el STAR []; el sb [(k1, STAR); (k2, v2)]]) = true /\
  matches_query c09_pd (mk OC [el STAR []; el sb [(k1, v2)]]) = false.
Proof. split; vm_compute; reflexivity. Qed.
