(* C16 — list keys and data-tree paths agree: the string a key value is printed as in a gNMI path
   (KeyValueAsString) is parsed back to the same value by the key decoder of SetNode / GetNode
   (stringToKeyType and friends), for every key type and for key tuples; every leaf path that
   TogNMINotifications emits is resolved by GetNode to exactly that leaf; an entry created
   through a path carries key leaves equal to its map key.
   This file only restates results proved in Tree/KeyCodecProofs.v, Tree/GnmiRtProofs.v and
   Tree/GnmiGetProofs.v (models: Tree/KeyCodec.v, Leaves.v, Node.v). *)
From Ygot Require Import Tree.Tree Tree.Codec Tree.CodecProofs Tree.TreeOps Tree.Unmarshal Tree.RoundTrip.
From Ygot Require Import Tree.KeyCodec Tree.Leaves Tree.Notif Tree.Node Tree.SetReq Path.PathRel.
From Ygot Require Import Tree.KeyCodecProofs Tree.NodeStepProofs Tree.GnmiRt Tree.GnmiRtProofs Tree.GnmiGetProofs Tree.GnmiExample.
From Ygot Require Import Corr.TreeCorr Corr.GnmiCorr.

(* ---------- the key codec ---------- *)

(* key_wfb env fo ko t v (executable): v is a value of key type t —
   an integer of the declared width in range, a string, a boolean, bytes, a non-zero enumeration /
   identityref value of the declared type that is in its table, a decimal64 whose float64 is
   printed by %g and parsed back to the same bits by the oracle tables (fmt_g_okb), the target
   type for a leafref; for a union the value must be the alternative the decoder tries first on
   the printed text (no enumeration of the union has that name, no earlier member kind parses it;
   see c16_refuted_union_string); `empty` is not a key type. *)
Theorem c16_key_codec : forall env fo ko t v s,
  wf_envb env = true -> key_wfb env fo ko t v = true ->
  key_to_string env ko v = Ok s -> string_to_key env fo ko t s = Ok v.
Proof. exact key_codec. Qed.
Print Assumptions c16_key_codec.

(* and printing never fails inside the guard *)
Theorem c16_key_to_string_total : forall env fo ko t v,
  key_wfb env fo ko t v = true -> exists s, key_to_string env ko v = Ok s.
Proof. exact key_to_string_total. Qed.
Print Assumptions c16_key_to_string_total.

(* for the non-union types typing alone is enough (plus the float oracle for decimal64) *)
Theorem c16_key_codec_simple : forall env fo ko t v s,
  wf_envb env = true -> key_typedb env t v = true -> fmt_g_okb fo ko v = true ->
  key_to_string env ko v = Ok s -> string_to_key env fo ko t s = Ok v.
Proof. exact key_codec_simple. Qed.
Print Assumptions c16_key_codec_simple.

(* distinct keys are printed differently *)
Theorem c16_key_injective : forall env fo ko t v w s,
  wf_envb env = true -> key_wfb env fo ko t v = true -> key_wfb env fo ko t w = true ->
  key_to_string env ko v = Ok s -> key_to_string env ko w = Ok s -> v = w.
Proof. exact key_to_string_inj. Qed.
Print Assumptions c16_key_injective.

(* key tuples: the path keys printed for the map key mk of a (multi-key) list create, through
   SetNode / GetNode's key decoding, the entry with map key mk and the key leaves set to mk *)
Theorem c16_key_tuple : forall env fo ko sfs keys mk kk,
  wf_envb env = true -> NoDup keys -> keys_wfb env fo ko sfs keys mk = true ->
  mapkey_strs env ko keys mk = Ok kk ->
  make_entry env fo ko sfs keys kk = Ok (mk, key_fields sfs keys mk).
Proof. exact key_tuple_codec. Qed.
Print Assumptions c16_key_tuple.

(* ---------- paths resolve ---------- *)

(* every leaf path of a well-formed tree (the paths of c02_notifs_are_leaves) is resolved by
   GetNode (exact match, no wildcards, no partial keys) to one node: that leaf *)
Theorem c16_leaf_paths_resolve : forall env fo ko, wf_envb env = true ->
  forall o, g_shadow o = false -> g_partial o = false -> g_wild o = false ->
  forall S t pfx l p v,
  gn_treeb env fo ko S t = true -> leaves env ko false S t pfx = Ok l -> In (p, v) l ->
  get_node env fo ko o S t (skipn (length pfx) p)
    = Ok [{| gn_path := skipn (length pfx) p; gn_data := Some (lval_tree v) |}].
Proof. exact leaf_paths_resolve. Qed.
Print Assumptions c16_leaf_paths_resolve.

(* ---------- created entries ---------- *)

(* _partial: the statement is about the entry SetNode / GetOrCreate builds from path keys (one
   call of make_entry): its key leaves hold the map key, entry_key reads the map key back, and
   each component is the decoded path key.  Missing for the full target: lifting this to "every
   entry of the tree after any sequence of SetNode calls is consistent", which is false as it
   stands (a later SetNode on the key leaf path overwrites the key leaf: finding
   setnode/key-leaf-overwrite; DeleteNode removes it: deletenode/key-leaf-deleted) and needs
   the C10 frame invariant with those paths excluded. *)
Theorem c16_created_entries_consistent_partial : forall env fo ko sfs keys ek mk nfs,
  NoDup (go_names sfs) -> (forall k, In k keys -> key_agreeb sfs k = true) ->
  NoDup (map (key_go sfs) keys) ->
  make_entry env fo ko sfs keys ek = Ok (mk, nfs) ->
  Forall2 (fun k v => field_get (key_go sfs k) nfs = Some (TLeaf v)) keys mk /\
  entry_key sfs keys nfs = Ok mk /\
  Forall2 (fun k v => exists s ty d fi,
             al_find k ek = Some s /\ key_name_field sfs k = Ok (fi, SLeaf ty d) /\
             string_to_key env fo ko ty s = Ok v) keys mk.
Proof. exact make_entry_consistent. Qed.
Print Assumptions c16_created_entries_consistent_partial.

(* ---------- the deviations that remain ---------- *)

(* a union {int64, string} holding the string "5": printed as 5, read back as the integer 5 *)
Theorem c16_refuted_union_string :
  key_to_string [] ko0 (VStr [53]) = Ok [53] /\
  string_to_key [] fo0 ko0 un_int_str [53] = Ok (VInt I64 5) /\
  key_roundtripsb [] fo0 ko0 un_int_str (VStr [53]) = false.
Proof. exact union_string_not_roundtrip. Qed.
Print Assumptions c16_refuted_union_string.

(* a decimal64 key "NaN" in a path: the key parses, the entry is inserted under a NaN map key
   that no lookup finds again, and SetNode panics (nil dereference after the failed lookup) *)
Definition nan_path : dpath :=
  [mk_elem [116;111;112]; {| ename := [108;45;100;101;99]; ekeys := [([107], [78;97;78])] |}].   (* /top/l-dec[k=NaN] *)
Theorem c16_refuted_nan_key :
  (exists b, string_to_key ex_env ex_fo ex_ko (YDec 2) [78;97;78] = Ok (VDec b) /\ nan_key (VDec b) = true) /\
  snd (set_node_st ex_env ex_fo ex_ko rt_opts TVNil ex_sch (TCont []) nan_path) = Panic.
Proof. split; [eexists; split|]; vm_compute; reflexivity. Qed.
Print Assumptions c16_refuted_nan_key.

(* why c16_created_entries_consistent is _partial: the consistency of a created entry is not an
   invariant of later operations.  SetNode on the key leaf path itself stores a value different
   from the map key; DeleteNode on it removes the key leaf and keeps the entry. *)
Definition ex_entry_a : dpath :=
  [mk_elem [116;111;112]; {| ename := [108;45;115;116;114]; ekeys := [([107], [97])] |}].       (* /top/l-str[k=a] *)
Definition ex_t_a : tree :=                                                   (* /top/l-str[k=a]/v = "x" *)
  fst (set_node_st ex_env ex_fo ex_ko rt_opts (TVString [120]) ex_sch (TCont []) (ex_entry_a ++ [mk_elem [118]])).
Definition ex_entry_of (t : tree) : option (list (str * tree)) :=
  match t with
  | TCont [(_, TCont [(_, TList [([VStr [97]], TCont fs)])])] => Some fs
  | _ => None
  end.
Theorem c16_refuted_key_leaf_overwrite :
  ex_entry_of ex_t_a = Some [([75], TLeaf (VStr [97])); ([86], TLeaf (VStr [120]))] /\
  match set_node_st ex_env ex_fo ex_ko rt_opts (TVString [98]) ex_sch ex_t_a (ex_entry_a ++ [mk_elem [107]]) with
  | (t', r) => r = Ok tt /\ ex_entry_of t' = Some [([75], TLeaf (VStr [98])); ([86], TLeaf (VStr [120]))]
  end.
Proof. vm_compute. repeat split; reflexivity. Qed.
Print Assumptions c16_refuted_key_leaf_overwrite.

Theorem c16_refuted_key_leaf_deleted :
  match delete_node_st ex_env ex_fo ex_ko false ex_sch ex_t_a (ex_entry_a ++ [mk_elem [107]]) with
  | (t', r) => r = Ok tt /\ ex_entry_of t' = Some [([86], TLeaf (VStr [120]))]
  end.
Proof. vm_compute. repeat split; reflexivity. Qed.
Print Assumptions c16_refuted_key_leaf_deleted.

(* ---------- non-vacuity ---------- *)

(* every key kind is inside the guard and computes its own round trip *)
Definition ex_color : str := [69;95;67;111;108;111;114].
Definition ex_base : str := [69;95;66;97;115;101].
Definition ex_keys : list (ytype * scalar) :=
  [ (YInt I8 [], VInt I8 (-128)); (YInt I8 [], VInt I8 127);
    (YInt I16 [], VInt I16 (-32768)); (YInt I32 [], VInt I32 2147483647);
    (YInt I64 [], VInt I64 (-9223372036854775808)); (YInt I64 [], VInt I64 9223372036854775807);
    (YInt U8 [], VInt U8 255); (YInt U16 [], VInt U16 65535); (YInt U32 [], VInt U32 4294967295);
    (YInt U64 [], VInt U64 18446744073709551615);
    (YStr [] 0%nat, VStr []); (YStr [] 0%nat, VStr [98;47;91;61;93]);
    (YBool, VBool true); (YBool, VBool false);
    (YBin [], VBin [0;255;7]);
    (YEnum ex_color, VEnum ex_color 5); (YIdref ex_base, VEnum ex_base 2);
    (YDec 2, VDec 4609434218613702656); (YDec 2, VDec 13835621005235585024);
    (YLeafref (YStr [] 0%nat), VStr [114;101;102]);
    (YLeafref (YInt U32 []), VInt U32 7);
    (YUnion [YInt I64 []; YStr [] 0%nat], VInt I64 5);
    (YUnion [YInt I64 []; YStr [] 0%nat], VStr [115;97;98;99]);
    (YUnion [YEnum ex_color; YInt U8 []], VEnum ex_color 6);
    (YUnion [YEnum ex_color; YInt U8 []], VInt U8 200) ].
Example c16_guard_every_kind :
  wf_envb ex_env = true /\
  forallb (fun tv => key_wfb ex_env ex_fo ex_ko (fst tv) (snd tv)
                     && key_roundtripsb ex_env ex_fo ex_ko (fst tv) (snd tv)) ex_keys = true.
Proof. split; vm_compute; reflexivity. Qed.

(* the guard is not trivially true: out-of-range, unknown enum value, non-canonical union
   member, decimal outside the oracle tables, `empty` *)
Example c16_guard_rejects :
  existsb (fun tv => key_wfb ex_env ex_fo ex_ko (fst tv) (snd tv))
    [ (YInt I8 [], VInt I8 128); (YInt U8 [], VInt I8 1); (YEnum ex_color, VEnum ex_color 2);
      (YEnum ex_color, VEnum ex_color 0); (YUnion [YInt I64 []; YStr [] 0%nat], VStr [53]);
      (YDec 2, VDec 1); (YEmpty, VEmpty) ] = false.
Proof. vm_compute. reflexivity. Qed.

(* a two-key list: printed keys, then the entry created from them *)
Definition ex_sub (name : str) (s : schema) : schema :=
  match find (fun fs => str_eqb (f_go (fst fs)) name) (sfields s) with Some (_, ss) => ss | None => SCont [] end.
Definition ex_multi_fields : list (finfo * schema) :=
  sfields (ex_sub [76;77;117;108;116;105] (ex_sub [84;111;112] ex_sch)).                 (* Top / LMulti *)
Example c16_multi_key :
  let keys := [[107;49]; [107;50]] in
  let mk := [VStr [98;47;91;61;93]; VInt U16 1] in
  keys_wfb ex_env ex_fo ex_ko ex_multi_fields keys mk = true /\
  mapkey_strs ex_env ex_ko keys mk = Ok [([107;49], [98;47;91;61;93]); ([107;50], [49])] /\
  make_entry ex_env ex_fo ex_ko ex_multi_fields keys [([107;50], [49]); ([107;49], [98;47;91;61;93])]
    = Ok (mk, [([75;49], TLeaf (VStr [98;47;91;61;93])); ([75;50], TLeaf (VInt U16 1))]).
Proof. repeat split; vm_compute; reflexivity. Qed.

(* every leaf path of the example tree resolves, by computation (keyed prefix stripped) *)
Example c16_paths_resolve_computes :
  match leaves ex_env ex_ko false ex_sch ex_tree ex_pfx with
  | Ok l =>
      forallb (fun pv =>
        match get_node ex_env ex_fo ex_ko {| g_partial := false; g_wild := false; g_tolerate_nil := false; g_shadow := false |}
                       ex_sch ex_tree (skipn (length ex_pfx) (fst pv)) with
        | Ok [n] => otree_eqb (gn_data n) (Some (lval_tree (snd pv)))
        | _ => false
        end) l = true /\ (40 <=? length l)%nat = true
  | _ => False
  end.
Proof. vm_compute. split; reflexivity. Qed.
