(* C30 — Leafref validation errors exactly on dangling references.
   Statement: validating from the root with leafref checking enabled reports an error exactly when
   some leafref leaf holds a value not found in the node set its path selects, with predicates
   evaluated against the current data; with IgnoreMissingData set, no leafref error is reported.
   Models: Tree/Leafref.v (uncompressed structs; relative "../"^n a/b and absolute /a/b paths, no
   predicates; ytypes.GetNode modelled by its result) and its generalisation Tree/LeafrefPred.v
   (key predicates [k = current()/../x] and [k = "literal"]: leafRefToGNMIPath's step one, GetNode's
   partial key match).  This file only restates results of Tree/LeafrefProofs.v and
   Tree/LeafrefPredProofs.v, plus witnesses. *)
From Ygot Require Import Tree.Tree Tree.Codec Tree.TreeOps Tree.KeyCodec Tree.Validate Tree.Defaults Tree.Leafref Tree.LeafrefProofs
  Tree.LeafrefPred Tree.LeafrefPredProofs.

(* the upward walk over the NodeInfo chain followed by GetNode selects what the path denotes *)
Theorem c30_two_step_is_select : forall sfs0 fs0 loc lp,
  loc_keyed loc = true -> go_targets sfs0 fs0 loc lp = select sfs0 fs0 loc lp.
Proof. exact go_targets_select. Qed.
Print Assumptions c30_two_step_is_select.

(* Validate without LeafrefOptions (and, once leafrefErrOrLog is repaired: lrfix = true, with
   &LeafrefOptions{IgnoreMissingData: false} as well): no error iff every set leafref leaf holds one
   of the values its path selects.  Guards: no leafref leaf inside an unkeyed list, no binary
   leafref value. *)
Theorem c30_iff : forall lrfix tab sfs0 fs0 mode,
  reports lrfix mode = true ->
  (forall x, In x (all_lr_leaves tab fs0) -> loc_keyed (fst (fst x)) = true /\ not_bin (snd x) = true) ->
  (validate_leafrefs lrfix tab sfs0 fs0 mode = [] <->
   forall x, In x (all_lr_leaves tab fs0) -> satisfied sfs0 fs0 (fst (fst x)) (snd (fst x)) (snd x) = true).
Proof. exact validate_leafrefs_iff. Qed.
Print Assumptions c30_iff.

Theorem c30_ignore_missing : forall lrfix tab sfs0 fs0, validate_leafrefs lrfix tab sfs0 fs0 LrIgnore = [].
Proof. exact validate_leafrefs_ignore. Qed.
Print Assumptions c30_ignore_missing.

(* ---------- witnesses ---------- *)

Definition fld (go : str) : finfo :=
  {| f_go := go; f_paths := [[go]]; f_mods := []; f_spaths := []; f_smods := [];
     f_presence := false; f_cfg := true; f_case := [] |}.
(* root { s: string; r: leafref ../s;  L: list keyed k { k: leafref ../../T/k };  T: list keyed k { k: string } } *)
Definition w_sfs : list (finfo * schema) :=
  [(fld [115], SLeaf (YStr [] 0) []); (fld [114], SLeaf (YLeafref (YStr [] 0)) []);
   (fld [76], SList false [[107]] 0 0 [(fld [107], SLeaf (YLeafref (YStr [] 0)) [])]);
   (fld [84], SList false [[107]] 0 0 [(fld [107], SLeaf (YStr [] 0) [])])].
Definition w_tab : lrtab :=
  [([[114]], {| lr_abs := false; lr_up := 1; lr_down := [[115]] |});
   ([[76]; [107]], {| lr_abs := false; lr_up := 2; lr_down := [[84]; [107]] |})].
Definition w_ok : list (str * tree) :=
  [([115], TLeaf (VStr [97])); ([114], TLeaf (VStr [97]));
   ([76], TList [([VStr [120]], TCont [([107], TLeaf (VStr [120]))])]);
   ([84], TList [([VStr [119]], TCont [([107], TLeaf (VStr [119]))]); ([VStr [120]], TCont [([107], TLeaf (VStr [120]))])])].
Definition w_dangling : list (str * tree) :=
  [([115], TLeaf (VStr [97])); ([114], TLeaf (VStr [98]));
   ([76], TList [([VStr [122]], TCont [([107], TLeaf (VStr [122]))])]);
   ([84], TList [([VStr [119]], TCont [([107], TLeaf (VStr [119]))])])].
Example c30_example :
  validate_leafrefs false w_tab w_sfs w_ok LrNil = [] /\ length (all_lr_leaves w_tab w_ok) = 2%nat /\
  validate_leafrefs false w_tab w_sfs w_dangling LrNil = [ELrDangling; ELrDangling] /\
  validate_leafrefs false w_tab w_sfs w_dangling LrIgnore = [].
Proof. repeat split; vm_compute; reflexivity. Qed.

(* "leafref checking enabled" means: no LeafrefOptions at all.  With a non-nil options value whose
   IgnoreMissingData is false, leafrefErrOrLog still swallows every dangling reference. *)
Definition c30_enabled_with_options (lrfix : bool) : Prop := forall tab sfs0 fs0,
  validate_leafrefs lrfix tab sfs0 fs0 LrNonNil = [] ->
  forall x, In x (all_lr_leaves tab fs0) -> satisfied sfs0 fs0 (fst (fst x)) (snd (fst x)) (snd x) = true.
Theorem c30_refuted_non_nil_options : ~ c30_enabled_with_options false.
Proof.
  intros H. specialize (H w_tab w_sfs w_dangling eq_refl).
  specialize (H ([], {| lr_abs := false; lr_up := 1; lr_down := [[115]] |}, VStr [98])).
  vm_compute in H. assert (false = true) by (apply H; now left). discriminate.
Qed.
Print Assumptions c30_refuted_non_nil_options.

(* a leafref whose value is binary panics as soon as its path selects something: the Binary source
   is a slice and matchesNodes calls ni.FieldValue.Elem() on it *)
Example c30_refuted_binary :
  let sfs := [(fld [98], SLeaf (YBin []) []); (fld [114], SLeaf (YLeafref (YBin [])) [])] in
  let tab := [([[114]], {| lr_abs := false; lr_up := 1; lr_down := [[98]] |})] in
  let fs := [([98], TLeaf (VBin [1; 2])); ([114], TLeaf (VBin [1; 2]))] in
  validate_leafrefs false tab sfs fs LrNil = [ELrPanic] /\
  satisfied sfs fs [] {| lr_abs := false; lr_up := 1; lr_down := [[98]] |} (VBin [1; 2]) = true.
Proof. split; vm_compute; reflexivity. Qed.

(* a leafref that climbs out of an unkeyed list entry ("../../s" from a leaf of the entry): the
   slice has a NodeInfo of its own which dataNodesAtPath does not skip, the walk stops one level
   short and GetNode fails ("unkeyed list can't be traversed"): a satisfied reference is reported *)
Example c30_refuted_unkeyed :
  let sfs := [(fld [115], SLeaf (YStr [] 0) []);
              (fld [85], SUnkeyed [(fld [117], SLeaf (YLeafref (YStr [] 0)) [])])] in
  let lp := {| lr_abs := false; lr_up := 2; lr_down := [[115]] |} in
  let tab := [([[85]; [117]], lp)] in
  let fs := [([115], TLeaf (VStr [97])); ([85], TUnkeyed [TCont [([117], TLeaf (VStr [97]))]])] in
  validate_leafrefs false tab sfs fs LrNil = [ELrNoParent] /\
  satisfied sfs fs [StU [85] 0] lp (VStr [97]) = true.
Proof. split; vm_compute; reflexivity. Qed.

(* ====================== paths with key predicates (Tree/LeafrefPred.v) ====================== *)

(* on a side table without predicates the generalised validation is the one above *)
Theorem c30p_plain_paths : forall env ko lrfix sfs0 fs0 tab mode,
  map snd (validate_leafrefs_p env ko lrfix (embed_tab tab) sfs0 fs0 mode) =
  map embed_cls (validate_leafrefs lrfix tab sfs0 fs0 mode).
Proof. exact validate_leafrefs_p_embed. Qed.
Print Assumptions c30p_plain_paths.

(* step one: on a regular path every predicate is replaced by the key value computed from its operand *)
Theorem c30p_step_one : forall env ko sfs0 fs0 loc els,
  forallb (elem_regular env ko sfs0 fs0 loc) els = true ->
  resolve env ko sfs0 fs0 loc els = S1Ok (map (erase env ko sfs0 fs0 loc) els).
Proof. exact resolve_regular. Qed.
Print Assumptions c30p_step_one.

(* step two: the upward walk reaches XPath's ancestor, and GetNode with partial key match on the
   path of step one returns nodes whose values are the values the path with its predicates denotes *)
Theorem c30p_upward_walk : forall sfs0 fs0 loc abs up,
  loc_keyed loc = true -> go_ctx sfs0 fs0 loc abs up = ctx sfs0 fs0 loc abs up.
Proof. exact go_ctx_ctx. Qed.
Print Assumptions c30p_upward_walk.

Theorem c30p_step_two_is_select : forall env ko sfs0 fs0 loc els sfs fs,
  forallb (elem_regular env ko sfs0 fs0 loc) els = true -> descent_ok env ko sfs0 fs0 loc els sfs fs = true ->
  exists ns, selp env ko (map (erase env ko sfs0 fs0 loc) els) sfs fs = Some ns /\
             flat_map lnode_vals ns = seld env ko sfs0 fs0 loc els sfs fs.
Proof. exact selp_seld. Qed.
Print Assumptions c30p_step_two_is_select.

(* Validate without LeafrefOptions (with &LeafrefOptions{IgnoreMissingData: false} as well once
   leafrefErrOrLog is repaired): no error iff every set leafref leaf holds one of the values its path,
   predicates included, selects.  Guards (leaf_regular, not_bin): no leafref leaf inside an unkeyed
   list, no binary leafref value, at most one predicate per path element, the key value step one
   substitutes is the string of the operand's only value (or the operand selects no value) and is
   not "*", the predicate names a key of the list it addresses, and when the operand selects no value
   no entry of that list carries the substituted key (""); the entries of a single-key list print
   differently.  Each guard is necessary: see the c30p_refuted_* witnesses below. *)
Theorem c30p_iff : forall env ko lrfix tab sfs0 fs0 mode,
  reports lrfix mode = true ->
  (forall x, In x (all_lrp_leaves tab fs0) ->
     leaf_regular env ko sfs0 fs0 (ll_loc x) (ll_path x) = true /\ not_bin (ll_val x) = true) ->
  (validate_leafrefs_p env ko lrfix tab sfs0 fs0 mode = [] <->
   forall x, In x (all_lrp_leaves tab fs0) -> satisfied_p env ko sfs0 fs0 (ll_loc x) (ll_path x) (ll_val x) = true).
Proof. exact validate_leafrefs_p_iff. Qed.
Print Assumptions c30p_iff.

(* one leaf: an error for it iff its value is not among the selected values *)
Theorem c30p_leaf_iff : forall env ko lrfix sfs0 fs0 mode loc lp v,
  reports lrfix mode = true -> leaf_regular env ko sfs0 fs0 loc lp = true -> not_bin v = true ->
  (check_leaf_p env ko lrfix sfs0 fs0 mode loc lp v = [] <-> satisfied_p env ko sfs0 fs0 loc lp v = true).
Proof. exact check_leaf_p_iff. Qed.
Print Assumptions c30p_leaf_iff.

Theorem c30p_ignore_missing : forall env ko lrfix tab sfs0 fs0,
  validate_leafrefs_p env ko lrfix tab sfs0 fs0 LrIgnore = [].
Proof. exact validate_leafrefs_p_ignore. Qed.
Print Assumptions c30p_ignore_missing.

(* ---------- witnesses ---------- *)

Definition S_srv : str := [115;114;118].      Definition S_name : str := [110;97;109;101].
Definition S_addr : str := [97;100;100;114].  Definition S_lnk : str := [108;110;107].
Definition S_k1 : str := [107;49].            Definition S_k2 : str := [107;50].
Definition S_d : str := [100].                Definition S_cli : str := [99;108;105].
Definition S_sn : str := [115;110].           Definition S_sa : str := [115;97].
Definition S_sp : str := [115;112].           Definition S_sm : str := [115;109].
Definition S_s2 : str := [115;50].            Definition S_v1 : str := [118;49].
Definition S_v2 : str := [118;50].
Definition sleaf : schema := SLeaf (YStr [] 0) [].
Definition sref : schema := SLeaf (YLeafref (YStr [] 0)) [].
(* root { srv: list keyed name { name; addr };  lnk: list keyed k1 k2 { k1; k2; d };
          cli { sn; v1; v2: strings;
                sa: leafref ../../srv[name=current()/../sn]/addr;
                sp: the same with a module prefix in the operand;
                sm: leafref ../../srv[name=current()/../../srv/name]/addr;
                s2: leafref ../../lnk[k1=current()/../v1][k2=current()/../v2]/d } } *)
Definition p_sfs : list (finfo * schema) :=
  [(fld S_srv, SList false [S_name] 0 0 [(fld S_name, sleaf); (fld S_addr, sleaf)]);
   (fld S_lnk, SList false [S_k1; S_k2] 0 0 [(fld S_k1, sleaf); (fld S_k2, sleaf); (fld S_d, sleaf)]);
   (fld S_cli, SCont [(fld S_sn, sleaf); (fld S_v1, sleaf); (fld S_v2, sleaf);
                      (fld S_sa, sref); (fld S_sp, sref); (fld S_sm, sref); (fld S_s2, sref)])].
Definition srv_path (op : lroperand) : lrppath :=
  {| lp_abs := false; lp_up := 2; lp_down := [{| le_name := S_srv; le_preds := [(S_name, op)] |}; nopred S_addr] |}.
Definition p_sa : lrppath := srv_path (OpPath false 1 [S_sn]).
Definition p_sp : lrppath := srv_path (OpPath true 1 [S_sn]).
Definition p_sm : lrppath := srv_path (OpPath false 2 [S_srv; S_name]).
Definition p_s2 : lrppath :=
  {| lp_abs := false; lp_up := 2;
     lp_down := [{| le_name := S_lnk; le_preds := [(S_k1, OpPath false 1 [S_v1]); (S_k2, OpPath false 1 [S_v2])] |}; nopred S_d] |}.
Definition p_tab : lrptab :=
  [([S_cli; S_sa], p_sa); ([S_cli; S_sp], p_sp); ([S_cli; S_sm], p_sm); ([S_cli; S_s2], p_s2)].
Definition p_ko : key_oracle := mk_key_oracle [] [] true.
Definition srv (name addr : str) : list scalar * tree :=
  ([VStr name], TCont [(S_name, TLeaf (VStr name)); (S_addr, TLeaf (VStr addr))]).
Definition two_srv : str * tree := (S_srv, TList [srv [97] [120]; srv [98] [121]]).     (* a -> x, b -> y *)
Definition cli (fs : list (str * tree)) : str * tree := (S_cli, TCont fs).
Definition p_validate (fs : list (str * tree)) : list lperr := validate_leafrefs_p [] p_ko true p_tab p_sfs fs LrNil.
Definition p_regular (fs : list (str * tree)) : bool :=
  forallb (fun x => leaf_regular [] p_ko p_sfs fs (ll_loc x) (ll_path x) && not_bin (ll_val x)) (all_lrp_leaves p_tab fs).
Definition p_satisfied (fs : list (str * tree)) : bool :=
  forallb (fun x => satisfied_p [] p_ko p_sfs fs (ll_loc x) (ll_path x) (ll_val x)) (all_lrp_leaves p_tab fs).

(* the value under the addressed key: accepted; under the other key only, or with the operand leaf
   unset: reported (all three inside the guards of c30p_iff) *)
Example c30p_example :
  let ok := [two_srv; cli [(S_sn, TLeaf (VStr [97])); (S_sa, TLeaf (VStr [120]))]] in
  let other := [two_srv; cli [(S_sn, TLeaf (VStr [97])); (S_sa, TLeaf (VStr [121]))]] in
  let unset := [two_srv; cli [(S_sa, TLeaf (VStr [121]))]] in
  (p_validate ok = [] /\ p_regular ok = true /\ p_satisfied ok = true /\ length (all_lrp_leaves p_tab ok) = 1%nat) /\
  (p_validate other = [(S_sa, PDangling)] /\ p_regular other = true /\ p_satisfied other = false) /\
  (p_validate unset = [(S_sa, PDangling)] /\ p_regular unset = true /\ p_satisfied unset = false) /\
  validate_leafrefs_p [] p_ko true p_tab p_sfs other LrIgnore = [].
Proof. repeat split; vm_compute; reflexivity. Qed.

(* the statement without guards *)
Definition c30p_full : Prop := forall env ko tab sfs0 fs0,
  validate_leafrefs_p env ko true tab sfs0 fs0 LrNil = [] <->
  forall x, In x (all_lrp_leaves tab fs0) -> satisfied_p env ko sfs0 fs0 (ll_loc x) (ll_path x) (ll_val x) = true.

(* operand leaf unset: the key "" is substituted; an entry whose key IS the empty string matches, and
   the value y, which no entry addressed by the (empty) operand holds, is accepted *)
Definition w_empty_key : list (str * tree) :=
  [(S_srv, TList [srv [] [121]; srv [97] [120]]); cli [(S_sa, TLeaf (VStr [121]))]].
Theorem c30p_refuted_empty_key : ~ c30p_full.
Proof.
  intros H. destruct (H [] p_ko p_tab p_sfs w_empty_key) as [H1 _].
  assert (E : validate_leafrefs_p [] p_ko true p_tab p_sfs w_empty_key LrNil = []) by (vm_compute; reflexivity).
  specialize (H1 E).
  assert (Hall : p_satisfied w_empty_key = true) by (apply forallb_forall; exact H1).
  vm_compute in Hall. discriminate Hall.
Qed.
Print Assumptions c30p_refuted_empty_key.

(* operand value "*": GetNode takes it as a wildcard, every entry matches *)
Example c30p_refuted_star :
  let fs := [two_srv; cli [(S_sn, TLeaf (VStr [42])); (S_sa, TLeaf (VStr [121]))]] in
  p_validate fs = [] /\ p_satisfied fs = false /\ p_regular fs = false.
Proof. repeat split; vm_compute; reflexivity. Qed.

(* two predicates on one element (both keys of a two-key list): isKeyValue rejects the element as
   malformed, a satisfied reference is an error in every mode but IgnoreMissingData *)
Example c30p_refuted_two_predicates :
  let fs := [(S_lnk, TList [([VStr [112]; VStr [113]], TCont [(S_k1, TLeaf (VStr [112])); (S_k2, TLeaf (VStr [113])); (S_d, TLeaf (VStr [120]))])]);
             cli [(S_v1, TLeaf (VStr [112])); (S_v2, TLeaf (VStr [113])); (S_s2, TLeaf (VStr [120]))]] in
  p_validate fs = [(S_s2, PMalformed)] /\ p_satisfied fs = true /\
  validate_leafrefs_p [] p_ko true p_tab p_sfs fs LrNonNil = [(S_s2, PMalformed)].
Proof. repeat split; vm_compute; reflexivity. Qed.

(* a module prefix in the operand: StripModulePrefix mangles the operand path, the key is "", a
   satisfied reference is reported *)
Example c30p_refuted_prefixed_operand :
  let fs := [two_srv; cli [(S_sn, TLeaf (VStr [97])); (S_sp, TLeaf (VStr [120]))]] in
  p_validate fs = [(S_sp, PDangling)] /\ p_satisfied fs = true.
Proof. repeat split; vm_compute; reflexivity. Qed.

(* an operand that selects two nodes is an error, although XPath's "=" is existential *)
Example c30p_refuted_operand_node_set :
  let fs := [two_srv; cli [(S_sm, TLeaf (VStr [120]))]] in
  p_validate fs = [(S_sm, POperandMulti)] /\ p_satisfied fs = true.
Proof. repeat split; vm_compute; reflexivity. Qed.
