(* C30 — Leafref validation errors exactly on dangling references.
   Statement: validating from the root with leafref checking enabled reports an error exactly when
   some leafref leaf holds a value not found in the node set its path selects, with predicates
   evaluated against the current data; with IgnoreMissingData set, no leafref error is reported.
   Model: Tree/Leafref.v (uncompressed structs; relative "../"^n a/b and absolute /a/b paths, no
   predicates: the corpus has none; ytypes.GetNode modelled by its result).  This file only
   restates results of Tree/LeafrefProofs.v, plus witnesses. *)
From Ygot Require Import Tree.Tree Tree.TreeOps Tree.Validate Tree.Defaults Tree.Leafref Tree.LeafrefProofs.

(* the upward walk over the NodeInfo chain followed by GetNode selects what the path denotes *)
Theorem c30_two_step_is_select : forall sfs0 fs0 loc lp,
  loc_keyed loc = true -> go_targets sfs0 fs0 loc lp = select sfs0 fs0 loc lp.
Proof. exact go_targets_select. Qed.
Print Assumptions c30_two_step_is_select.

(* Validate without LeafrefOptions (and, once leafrefErrOrLog is repaired: lrfix = true, with
   &LeafrefOptions{IgnoreMissingData: false} as well): no error iff every set leafref leaf holds one
   of the values its path selects.  Guards: no leafref leaf inside an unkeyed list, no binary
   leafref value. *)
Theorem c30_iff : forall lrfix tab sfs0 fs0 mode,
  reports lrfix mode = true ->
  (forall x, In x (all_lr_leaves tab fs0) -> loc_keyed (fst (fst x)) = true /\ not_bin (snd x) = true) ->
  (validate_leafrefs lrfix tab sfs0 fs0 mode = [] <->
   forall x, In x (all_lr_leaves tab fs0) -> satisfied sfs0 fs0 (fst (fst x)) (snd (fst x)) (snd x) = true).
Proof. exact validate_leafrefs_iff. Qed.
Print Assumptions c30_iff.

Theorem c30_ignore_missing : forall lrfix tab sfs0 fs0, validate_leafrefs lrfix tab sfs0 fs0 LrIgnore = [].
Proof. exact validate_leafrefs_ignore. Qed.
Print Assumptions c30_ignore_missing.

(* ---------- witnesses ---------- *)

Definition fld (go : str) : finfo :=
  {| f_go := go; f_paths := [[go]]; f_mods := []; f_spaths := []; f_smods := [];
     f_presence := false; f_cfg := true; f_case := [] |}.
(* root { s: string; r: leafref ../s;  L: list keyed k { k: leafref ../../T/k };  T: list keyed k { k: string } } *)
Definition w_sfs : list (finfo * schema) :=
  [(fld [115], SLeaf (YStr [] 0) []); (fld [114], SLeaf (YLeafref (YStr [] 0)) []);
   (fld [76], SList false [[107]] 0 0 [(fld [107], SLeaf (YLeafref (YStr [] 0)) [])]);
   (fld [84], SList false [[107]] 0 0 [(fld [107], SLeaf (YStr [] 0) [])])].
Definition w_tab : lrtab :=
  [([[114]], {| lr_abs := false; lr_up := 1; lr_down := [[115]] |});
   ([[76]; [107]], {| lr_abs := false; lr_up := 2; lr_down := [[84]; [107]] |})].
Definition w_ok : list (str * tree) :=
  [([115], TLeaf (VStr [97])); ([114], TLeaf (VStr [97]));
   ([76], TList [([VStr [120]], TCont [([107], TLeaf (VStr [120]))])]);
   ([84], TList [([VStr [119]], TCont [([107], TLeaf (VStr [119]))]); ([VStr [120]], TCont [([107], TLeaf (VStr [120]))])])].
Definition w_dangling : list (str * tree) :=
  [([115], TLeaf (VStr [97])); ([114], TLeaf (VStr [98]));
   ([76], TList [([VStr [122]], TCont [([107], TLeaf (VStr [122]))])]);
   ([84], TList [([VStr [119]], TCont [([107], TLeaf (VStr [119]))])])].
Example c30_example :
  validate_leafrefs false w_tab w_sfs w_ok LrNil = [] /\ length (all_lr_leaves w_tab w_ok) = 2%nat /\
  validate_leafrefs false w_tab w_sfs w_dangling LrNil = [ELrDangling; ELrDangling] /\
  validate_leafrefs false w_tab w_sfs w_dangling LrIgnore = [].
Proof. repeat split; vm_compute; reflexivity. Qed.

(* "leafref checking enabled" means: no LeafrefOptions at all.  With a non-nil options value whose
   IgnoreMissingData is false, leafrefErrOrLog still swallows every dangling reference. *)
Definition c30_enabled_with_options (lrfix : bool) : Prop := forall tab sfs0 fs0,
  validate_leafrefs lrfix tab sfs0 fs0 LrNonNil = [] ->
  forall x, In x (all_lr_leaves tab fs0) -> satisfied sfs0 fs0 (fst (fst x)) (snd (fst x)) (snd x) = true.
Theorem c30_refuted_non_nil_options : ~ c30_enabled_with_options false.
Proof.
  intros H. specialize (H w_tab w_sfs w_dangling eq_refl).
  specialize (H ([], {| lr_abs := false; lr_up := 1; lr_down := [[115]] |}, VStr [98])).
  vm_compute in H. assert (false = true) by (apply H; now left). discriminate.
Qed.
Print Assumptions c30_refuted_non_nil_options.

(* a leafref whose value is binary panics as soon as its path selects something: the Binary source
   is a slice and matchesNodes calls ni.FieldValue.Elem() on it *)
Example c30_refuted_binary :
  let sfs := [(fld [98], SLeaf (YBin []) []); (fld [114], SLeaf (YLeafref (YBin [])) [])] in
  let tab := [([[114]], {| lr_abs := false; lr_up := 1; lr_down := [[98]] |})] in
  let fs := [([98], TLeaf (VBin [1; 2])); ([114], TLeaf (VBin [1; 2]))] in
  validate_leafrefs false tab sfs fs LrNil = [ELrPanic] /\
  satisfied sfs fs [] {| lr_abs := false; lr_up := 1; lr_down := [[98]] |} (VBin [1; 2]) = true.
Proof. split; vm_compute; reflexivity. Qed.

(* a leafref that climbs out of an unkeyed list entry ("../../s" from a leaf of the entry): the
   slice has a NodeInfo of its own which dataNodesAtPath does not skip, the walk stops one level
   short and GetNode fails ("unkeyed list can't be traversed"): a satisfied reference is reported *)
Example c30_refuted_unkeyed :
  let sfs := [(fld [115], SLeaf (YStr [] 0) []);
              (fld [85], SUnkeyed [(fld [117], SLeaf (YLeafref (YStr [] 0)) [])])] in
  let lp := {| lr_abs := false; lr_up := 2; lr_down := [[115]] |} in
  let tab := [([[85]; [117]], lp)] in
  let fs := [([115], TLeaf (VStr [97])); ([85], TUnkeyed [TCont [([117], TLeaf (VStr [97]))]])] in
  validate_leafrefs false tab sfs fs LrNil = [ELrNoParent] /\
  satisfied sfs fs [StU [85] 0] lp (VStr [97]) = true.
Proof. split; vm_compute; reflexivity. Qed.
