(* C21 — Concurrent use is race-free and schedule-independent.
   This file only restates results proved in Conc/CacheProofs.v and Heap/EffectsProofs.v.

   What is proved in Coq:
     - the regexp cache protocol of ytypes/string_type.go (the only code in the library that
       shares mutable state between calls) is data-race free, returns compile's answers and
       loses no update, for any number of goroutines and ANY schedule (lists of thread ids);
     - generic: threads with pairwise disjoint write footprints — in particular threads that
       only read what they share — end, in every interleaving, in the state they reach when run
       alone;
     - the per-API premise "only reads what is shared": C11's write sets (the schema's entry
       graph, paths and decoded JSON are in no API's write set; a read-only API of the repaired
       code writes nothing).
   What is outside Coq: the Go memory model, the scheduler and the race detector's coverage —
   the `race` stream runs the real code from K goroutines under `go build -race`. *)
From Ygot Require Import Base.Base Conc.Cache Conc.CacheProofs Heap.Effects Heap.EffectsProofs.

(* ---------------------------------------------------------------- the cache protocol *)

(* In every configuration reachable under any schedule from N goroutines with arbitrary pattern
   lists and an arbitrary initial cache: the RW-lock invariant holds (writers exclusive), a
   pending write to the map excludes every other pending access, reads happen under the read
   lock and writes under the write lock. *)
Theorem c21_cache_drf : forall (compile : key -> option rx) m progs sched,
  let c := run compile sched (init m progs) in
  lock_inv c /\
  (forall i j ti tj, i <> j ->
     nth_error (c_threads c) i = Some ti -> nth_error (c_threads c) j = Some tj ->
     access (t_pc ti) = Some true -> access (t_pc tj) = None) /\
  (forall i t, nth_error (c_threads c) i = Some t -> access (t_pc t) = Some false ->
     (0 < s_readers (c_shared c))%nat /\ s_writer (c_shared c) = false) /\
  (forall i t, nth_error (c_threads c) i = Some t -> access (t_pc t) = Some true ->
     s_writer (c_shared c) = true /\ s_readers (c_shared c) = 0%nat).
Proof. exact cache_drf. Qed.
Print Assumptions c21_cache_drf.

(* Every thread is handed compile's answer for every pattern; a finished thread has exactly its
   sequential results; the cache stays a sub-graph of compile (double compilation and
   overwriting are harmless). *)
Theorem c21_cache_results : forall (compile : key -> option rx) m progs sched, cache_ok compile m ->
  let c := run compile sched (init m progs) in
  cache_ok compile (s_cache (c_shared c)) /\
  (forall i t, nth_error (c_threads c) i = Some t ->
     nth_error progs i = Some (t_prog t) /\
     Forall (fun kr => snd kr = compile (fst kr)) (t_res t) /\
     (finished t -> t_res t = sequential_results compile (t_prog t))).
Proof. exact cache_results. Qed.
Print Assumptions c21_cache_results.

(* No lost update. *)
Theorem c21_cache_complete : forall (compile : key -> option rx) m progs sched, cache_ok compile m ->
  let c := run compile sched (init m progs) in
  forall i t, nth_error (c_threads c) i = Some t ->
    (forall k re, In (k, Some re) (t_res t) -> lookup k (s_cache (c_shared c)) = Some re) /\
    (finished t -> forall k re, In k (t_prog t) -> compile k = Some re ->
       lookup k (s_cache (c_shared c)) = Some re).
Proof. exact cache_complete. Qed.
Print Assumptions c21_cache_complete.

(* No deadlock. *)
Theorem c21_cache_progress : forall (compile : key -> option rx) m progs sched,
  let c := run compile sched (init m progs) in
  (exists i t, nth_error (c_threads c) i = Some t /\ ~ finished t) ->
  exists j t, nth_error (c_threads c) j = Some t /\ step_thread compile t (c_shared c) <> None.
Proof. exact cache_progress. Qed.
Print Assumptions c21_cache_progress.

(* ---------------------------------------------------------------- generic interleavings *)

(* Threads whose shared accesses are reads: in every interleaving every thread ends in the
   state it reaches running alone, and the shared memory is untouched. *)
Theorem c21_readers : forall (loc val L : Type) (loc_eq_dec : forall a b : loc, {a = b} + {a <> b})
  (rd : nat -> L -> mem loc val -> L) sched ls m i,
  fst (crun loc val L loc_eq_dec (rd_stp loc val L rd) sched (ls, m)) i
    = iter_rd loc val L rd i (count_occ Nat.eq_dec sched i) (ls i) m /\
  snd (crun loc val L loc_eq_dec (rd_stp loc val L rd) sched (ls, m)) = m.
Proof. exact readers_sequential. Qed.
Print Assumptions c21_readers.

(* Threads that also write, each into locations nobody else reads or writes (decoders filling
   distinct trees from one shared schema and shared messages): same conclusion on every
   thread's footprint. *)
Theorem c21_disjoint_footprints : forall (loc val L : Type) (loc_eq_dec : forall a b : loc, {a = b} + {a <> b})
  (stp : nat -> L -> mem loc val -> L * list (loc * val)) (reads owns : nat -> loc -> Prop),
  reads_only loc val L stp reads -> writes_owned loc val L stp owns -> footprints_disjoint loc reads owns ->
  forall sched (ls : nat -> L) (m : mem loc val) i,
  let n := count_occ Nat.eq_dec sched i in
  fst (crun loc val L loc_eq_dec stp sched (ls, m)) i = fst (solo loc val L loc_eq_dec stp i n (ls i) m) /\
  (forall x, reads i x \/ owns i x ->
     snd (crun loc val L loc_eq_dec stp sched (ls, m)) x = snd (solo loc val L loc_eq_dec stp i n (ls i) m) x).
Proof. exact interleaving_is_sequential. Qed.
Print Assumptions c21_disjoint_footprints.

(* ---------------------------------------------------------------- the per-API premise *)

(* The schema's entry graph is in no API's write set, in any variant of the code: Validate,
   Unmarshal and SetNode copy an entry before editing it (leaf_list.go `leafSchema := *schema`,
   yangTypeToLeafEntry / yangKindToLeafEntry build fresh entries). *)
Theorem c21_schema_readonly : forall v c, ~ In CSchemaEntries (writes v c).
Proof. exact schema_entries_never_written. Qed.
Print Assumptions c21_schema_readonly.

(* Shared input messages of the decoders: decoded JSON and paths are never written; the
   TypedValue is not written without TolerateJSONInconsistencies. *)
Theorem c21_shared_inputs_readonly : forall v c, ~ In CJSON (writes v c) /\ ~ In CPath (writes v c).
Proof. exact json_and_path_never_written. Qed.
Print Assumptions c21_shared_inputs_readonly.

Theorem c21_typedvalue_readonly_strict : forall v reached ll ks tv, setnode_tv v reached false ll ks tv = tv.
Proof. exact setnode_strict_tv_unchanged. Qed.
Print Assumptions c21_typedvalue_readonly_strict.

(* The read-only APIs share their arguments without writing them: for the code as it is under
   C11's guard, for the repaired code always. *)
Theorem c21_readonly_apis_now_partial : forall c,
  read_only_api c = true -> stores_into_argument_now c = false -> writes impl_now c = [].
Proof. exact readonly_pure_now. Qed.
Print Assumptions c21_readonly_apis_now_partial.

Theorem c21_readonly_apis_fixed : forall c, read_only_api c = true -> writes impl_fixed c = [].
Proof. exact readonly_pure_fixed. Qed.
Print Assumptions c21_readonly_apis_fixed.

(* The three stores of C11 are races as soon as the argument is shared: the write happens on
   every call, also when it does not change the value (cfg.AppendModuleName already true). *)
Theorem c21_shared_cfg_refuted :
  writes impl_now (KEncodeTypedValue EncJSONIETF VkStruct (Some true)) = [COpt RFC7951_AppendModuleName] /\
  changes impl_now (KEncodeTypedValue EncJSONIETF VkStruct (Some true)) = [].
Proof. split; reflexivity. Qed.

(* Non-vacuity: three goroutines, overlapping patterns, one that does not compile; under a
   schedule that interleaves them step by step every thread finishes with its sequential
   results and the cache holds exactly the compilable patterns. *)
Definition c21_compile (k : key) : option rx := if N.eqb k 3 then None else Some (k + 100).
Definition c21_progs : list (list key) := [[1; 2]; [2; 3]; [1]].
Definition c21_sched : list nat := concat (repeat [0; 1; 2]%nat 40).
Example c21_example :
  let c := run c21_compile c21_sched (init [] c21_progs) in
  map t_res (c_threads c) = map (sequential_results c21_compile) c21_progs /\
  lookup 1 (s_cache (c_shared c)) = Some 101 /\ lookup 2 (s_cache (c_shared c)) = Some 102 /\
  lookup 3 (s_cache (c_shared c)) = None /\ s_readers (c_shared c) = 0%nat /\ s_writer (c_shared c) = false.
Proof. vm_compute. repeat split; reflexivity. Qed.
