(* C22 — the gnmidiff SetRequest intent diff is a well-behaved comparison.
   This file only restates results proved in Diffs/GnmiDiffProofs.v about the model
   Diffs/GnmiDiff.v (a transcription of the schema-less code path of /repo/gnmidiff; the
   with-schema path is covered by the implementation-side oracle of stream gdiff only).
   cfg ranges over {the code as it is, the code with the proposed repairs}: a statement
   "forall cfg" holds for both; gd_cfg_current is the code before the repairs, gd_cfg_repo
   (Diffs/GnmiDiff.v) the configuration the correspondence check ties to /repo.  fo is the table of
   strconv facts (float formatting) the harness supplies; statements hold for every table. *)
From Ygot Require Import Base.Base Path.PathString Tree.Tree Diffs.GnmiDiff Diffs.GnmiDiffProofs.
From Coq Require Import Permutation.
Open Scope N_scope.

(* ---- reflexivity: DiffSetRequest(a, a) has nothing missing, extra or mismatched ---- *)
Theorem c22_refl : forall cfg fo r i, gd_minimal_intent cfg fo r = Ok i ->
  diff_intent i i = {| d_mdel := []; d_edel := []; d_cdel := map fst (i_del i);
                       d_mupd := []; d_eupd := []; d_cupd := i_upd i; d_mism := [] |}.
Proof. intros cfg fo r i. exact (refl_request cfg fo true r i). Qed.
Print Assumptions c22_refl.

(* ---- swap: for ARBITRARY intents (maps = strictly sorted association lists) ---- *)
Theorem c22_swap : forall a b, gd_wfb a = true -> gd_wfb b = true ->
  diff_intent b a = gd_swap_diff (diff_intent a b).
Proof. exact swap_intents. Qed.
Print Assumptions c22_swap.

Theorem c22_swap_requests : forall cfg fo a b d, gd_diff_set_request cfg fo a b = Ok d ->
  gd_diff_set_request cfg fo b a = Ok (gd_swap_diff d).
Proof. intros cfg fo. exact (swap_requests cfg fo true). Qed.
Print Assumptions c22_swap_requests.

(* every intent the model computes is a pair of strictly sorted maps *)
Theorem c22_intent_wf : forall cfg fo r i, gd_minimal_intent cfg fo r = Ok i -> gd_wf i.
Proof. intros cfg fo. exact (minimal_intent_wf cfg fo true). Qed.
Print Assumptions c22_intent_wf.

(* the map-iteration order of Go only decides WHICH failure is reported: successful results
   are the same under both schedules of the model *)
Theorem c22_schedule_independent : forall cfg fo p1 p2 r i,
  gd_minimal_intent_p cfg fo p1 r = Ok i -> gd_minimal_intent_p cfg fo p2 r = Ok i.
Proof. exact minimal_intent_prio. Qed.
Print Assumptions c22_schedule_independent.

(* ---- rewrite 1: reordered updates ---- *)
Theorem c22_reorder_updates : forall cfg fo pre ds rs us us' i i', Permutation us us' ->
  gd_minimal_intent cfg fo {| sr_prefix := pre; sr_del := ds; sr_rep := rs; sr_upd := us |} = Ok i ->
  gd_minimal_intent cfg fo {| sr_prefix := pre; sr_del := ds; sr_rep := rs; sr_upd := us' |} = Ok i' ->
  i = i'.
Proof. intros cfg fo. exact (reorder_updates cfg fo true true). Qed.
Print Assumptions c22_reorder_updates.

(* ---- rewrite 2: moving common elements q between the prefix and the element paths.
   Guard: the elements of pre and q print to non-empty strings that do not end in '/'
   (fullPathStr trims ONE trailing "/" from each part, so a name ending in "/" is treated
   differently on the two sides; YANG names never do). Full equality, failures included. ---- *)
Theorem c22_prefix_split : forall cfg fo pre q ds rs us, sane_path pre = true -> sane_path q = true ->
  gd_minimal_intent cfg fo {| sr_prefix := pre ++ q; sr_del := ds; sr_rep := rs; sr_upd := us |} =
  gd_minimal_intent cfg fo {| sr_prefix := pre; sr_del := map (app q) ds;
                              sr_rep := map_paths (app q) rs; sr_upd := map_paths (app q) us |}.
Proof. intros cfg fo. exact (prefix_split cfg fo true). Qed.
Print Assumptions c22_prefix_split.

(* ---- rewrite 3: a leaf replace versus the same leaf as an update.
   Guard: no LATER replace in the request has the same path (then the order matters). ---- *)
Theorem c22_leaf_replace_vs_update : forall cfg fo pre ds r1 p tv r2 us i i' v,
  gd_classify cfg fo tv = Ok (CLeaf v) ->
  (forall ps q tv', path_str pre = Ok ps -> In (q, tv') r2 -> gd_full_path ps q <> gd_full_path ps p) ->
  gd_minimal_intent cfg fo {| sr_prefix := pre; sr_del := ds; sr_rep := r1 ++ (p, tv) :: r2; sr_upd := us |} = Ok i ->
  gd_minimal_intent cfg fo {| sr_prefix := pre; sr_del := ds; sr_rep := r1 ++ r2; sr_upd := (p, tv) :: us |} = Ok i' ->
  i = i'.
Proof. intros cfg fo. exact (leaf_replace_vs_update cfg fo true true). Qed.
Print Assumptions c22_leaf_replace_vs_update.

(* ---- rewrite 4: a duplicated identical update ---- *)
(* (a) whenever both requests are accepted they have the same intent (any position) *)
Theorem c22_dup_identical : forall cfg fo pre ds rs l1 l2 u i i', In u (l1 ++ l2) ->
  gd_minimal_intent cfg fo {| sr_prefix := pre; sr_del := ds; sr_rep := rs; sr_upd := l1 ++ l2 |} = Ok i ->
  gd_minimal_intent cfg fo {| sr_prefix := pre; sr_del := ds; sr_rep := rs; sr_upd := l1 ++ u :: l2 |} = Ok i' ->
  i = i'.
Proof. intros cfg fo. exact (dup_update_agree cfg fo true true). Qed.
Print Assumptions c22_dup_identical.

(* (b) the duplicate is accepted (same intent) when the comparison cannot panic: no array
   (leaf-list) value in what the update writes, or the repaired writeUpdate *)
Definition c22_dup_identical_full (cfg : gd_cfg) : Prop :=
  forall fo pre ds rs l1 u l2 i,
    gd_minimal_intent cfg fo {| sr_prefix := pre; sr_del := ds; sr_rep := rs; sr_upd := l1 ++ u :: l2 |} = Ok i ->
    gd_minimal_intent cfg fo {| sr_prefix := pre; sr_del := ds; sr_rep := rs; sr_upd := l1 ++ u :: u :: l2 |} = Ok i.

Theorem c22_dup_identical_partial : forall cfg fo pre ds rs l1 u l2 i, dup_safe cfg fo (snd u) ->
  gd_minimal_intent cfg fo {| sr_prefix := pre; sr_del := ds; sr_rep := rs; sr_upd := l1 ++ u :: l2 |} = Ok i ->
  gd_minimal_intent cfg fo {| sr_prefix := pre; sr_del := ds; sr_rep := rs; sr_upd := l1 ++ u :: u :: l2 |} = Ok i.
Proof. intros cfg fo. exact (dup_adjacent_ok cfg fo true). Qed.
Print Assumptions c22_dup_identical_partial.

Definition c22_fo0 : gd_oracle := gd_mk_oracle [] [] [].
Definition c22_a : pelem := {| ename := [97]; ekeys := [] |}.
(* update /a = leaf-list ["x"], twice: Go compares two []interface{} with != and panics *)
Definition c22_ll : gpath * tval := ([c22_a], TVLeafList [TVString [120]]).
Theorem c22_dup_identical_refuted : ~ c22_dup_identical_full gd_cfg_current.
Proof.
  intros H. specialize (H c22_fo0 [] [] [] [] c22_ll [] _ eq_refl). vm_compute in H. discriminate H.
Qed.
Print Assumptions c22_dup_identical_refuted.

Theorem c22_dup_identical_fixed : c22_dup_identical_full gd_cfg_fixed.
Proof. intros fo pre ds rs l1 u l2 i. apply (dup_adjacent_ok gd_cfg_fixed fo true). left. reflexivity. Qed.
Print Assumptions c22_dup_identical_fixed.

(* ---- rewrite 5: one JSON-IETF update versus the equivalent leaf updates ----
   gd_sleaves is the structured reading of the JSON tree (every scalar member of a list element
   is a key, spelt as ygot spells key values in paths); leaves_for relates it to leaf updates
   whose TypedValues flatten to the JSON leaf values.  The last hypothesis says that none of
   the written leaves is itself the target of a delete or replace of the request (a leaf
   update removes such a delete from the intent, a JSON update does not: finding
   json-vs-leaves/leaf-delete-kept). *)
Definition c22_json_vs_leaves_full (cfg : gd_cfg) : Prop :=
  forall fo pre ds rs l1 p j l2 SL LV i i',
    sane_path p = true -> gd_sleaves fo j [] = Some SL -> leaves_for fo SL LV ->
    (forall ps P ks rg, path_str pre = Ok ps -> gd_full_path ps p = Ok P ->
       mapM (gd_full_path ps) ds = Ok ks -> mapM (res_upd cfg fo (gd_full_path ps)) rs = Ok rg ->
       forall qv, In qv SL -> ~ In (P ++ fst (spell qv)) (ks ++ map fst rg)) ->
    gd_minimal_intent cfg fo {| sr_prefix := pre; sr_del := ds; sr_rep := rs; sr_upd := l1 ++ (p, TVJsonIetf j) :: l2 |} = Ok i ->
    gd_minimal_intent cfg fo {| sr_prefix := pre; sr_del := ds; sr_rep := rs;
                                sr_upd := l1 ++ map (fun l => (p ++ fst l, snd l)) LV ++ l2 |} = Ok i' ->
    i = i'.

(* proved under the guard gd_keys_ok: every list key of the JSON is spelt by flattenOCJSON as
   PathToString spells it (no '=' or ']' to escape, numbers below 10^6; JSON without lists
   satisfies it trivially) *)
Theorem c22_json_vs_leaves_partial : forall cfg fo pre ds rs l1 p j l2 SL LV i i',
  sane_path p = true -> gd_sleaves fo j [] = Some SL -> gd_keys_ok cfg fo j = true -> leaves_for fo SL LV ->
  (forall ps P ks rg, path_str pre = Ok ps -> gd_full_path ps p = Ok P ->
     mapM (gd_full_path ps) ds = Ok ks -> mapM (res_upd cfg fo (gd_full_path ps)) rs = Ok rg ->
     forall qv, In qv SL -> ~ In (P ++ fst (spell qv)) (ks ++ map fst rg)) ->
  gd_minimal_intent cfg fo {| sr_prefix := pre; sr_del := ds; sr_rep := rs; sr_upd := l1 ++ (p, TVJsonIetf j) :: l2 |} = Ok i ->
  gd_minimal_intent cfg fo {| sr_prefix := pre; sr_del := ds; sr_rep := rs;
                              sr_upd := l1 ++ map (fun l => (p ++ fst l, snd l)) LV ++ l2 |} = Ok i' ->
  i = i'.
Proof. intros cfg fo. exact (json_vs_leaves_struct cfg fo true true). Qed.
Print Assumptions c22_json_vs_leaves_partial.

(* with the repairs the guard always holds *)
Theorem c22_json_vs_leaves_fixed : c22_json_vs_leaves_full gd_cfg_fixed.
Proof.
  intros fo pre ds rs l1 p j l2 SL LV i i' H1 H2 H3. apply (json_vs_leaves_struct gd_cfg_fixed fo true true); auto.
  apply keys_ok_fixed.
Qed.
Print Assumptions c22_json_vs_leaves_fixed.

(* refuted for the code as it is: update /top = {"l":[{"k":"x=y"}]}  versus
   update /top/l[k=x=y]/k = "x=y"  (printed /top/l[k=x\=y]/k by PathToString) *)
Definition c22_top : pelem := {| ename := [116; 111; 112]; ekeys := [] |}.
Definition c22_xy : str := [120; 61; 121].
Definition c22_j_unescaped : json := JObj [([108], JArr [JObj [([107], JStr c22_xy)]])].
Definition c22_lv_unescaped : list (gpath * tval) :=
  [([{| ename := [108]; ekeys := [([107], c22_xy)] |}; {| ename := [107]; ekeys := [] |}], TVString c22_xy)].
Definition c22_sl_unescaped : list (gpath * json) :=
  [([{| ename := [108]; ekeys := [([107], c22_xy)] |}; {| ename := [107]; ekeys := [] |}], JStr c22_xy)].
Theorem c22_json_vs_leaves_refuted : ~ c22_json_vs_leaves_full gd_cfg_current.
Proof.
  intros H.
  assert (E1 : exists i, gd_minimal_intent gd_cfg_current c22_fo0
     {| sr_prefix := []; sr_del := []; sr_rep := []; sr_upd := [] ++ ([c22_top], TVJsonIetf c22_j_unescaped) :: [] |} = Ok i)
    by (vm_compute; eauto).
  assert (E2 : exists i, gd_minimal_intent gd_cfg_current c22_fo0
     {| sr_prefix := []; sr_del := []; sr_rep := []; sr_upd := [] ++ map (fun l => ([c22_top] ++ fst l, snd l)) c22_lv_unescaped ++ [] |} = Ok i)
    by (vm_compute; eauto).
  destruct E1 as [i E1]. destruct E2 as [i' E2].
  assert (L : leaves_for c22_fo0 c22_sl_unescaped c22_lv_unescaped) by (repeat constructor).
  assert (G : forall ps P ks rg, path_str [] = Ok ps -> gd_full_path ps [c22_top] = Ok P ->
     mapM (gd_full_path ps) [] = Ok ks -> mapM (res_upd gd_cfg_current c22_fo0 (gd_full_path ps)) [] = Ok rg ->
     forall qv, In qv c22_sl_unescaped -> ~ In (P ++ fst (spell qv)) (ks ++ map fst rg)).
  { intros ps P ks rg _ _ X1 X2 qv _. simpl in X1, X2. inversion X1; inversion X2; subst. intros []. }
  pose proof (H c22_fo0 [] [] [] [] [c22_top] c22_j_unescaped [] c22_sl_unescaped c22_lv_unescaped i i' eq_refl eq_refl L G E1 E2) as Q.
  subst i'. vm_compute in E1, E2. rewrite <- E1 in E2. discriminate E2.
Qed.
Print Assumptions c22_json_vs_leaves_refuted.

(* ---- concrete witnesses of the other confirmed causes (requests with the same intent, different model intents) ---- *)
Definition c22_mk (us : list (gpath * tval)) : setreq := {| sr_prefix := []; sr_del := []; sr_rep := []; sr_upd := us |}.
Definition c22_e (n : str) : pelem := {| ename := n; ekeys := [] |}.
Definition c22_ek (n k v : str) : pelem := {| ename := n; ekeys := [(k, v)] |}.

(* numeric list key >= 10^6: %g prints 1.234567e+06 *)
Definition c22_num_json : setreq :=
  c22_mk [([c22_e [108]], TVJsonIetf (JArr [JObj [([105], JNum 1234567 0)]]))].
Definition c22_num_leaf : setreq :=
  c22_mk [([c22_ek [108] [105] [49;50;51;52;53;54;55]; c22_e [105]], TVUint 1234567)].
Example c22_numeric_key_exponent_witness :
  gd_minimal_intent gd_cfg_current c22_fo0 c22_num_json <> gd_minimal_intent gd_cfg_current c22_fo0 c22_num_leaf /\
  gd_minimal_intent gd_cfg_fixed c22_fo0 c22_num_json = gd_minimal_intent gd_cfg_fixed c22_fo0 c22_num_leaf.
Proof. split; [vm_compute; discriminate | vm_compute; reflexivity]. Qed.

(* the unescaped key, repaired *)
Example c22_unescaped_key_fixed_witness :
  gd_minimal_intent gd_cfg_fixed c22_fo0 (c22_mk [([c22_top], TVJsonIetf c22_j_unescaped)]) =
  gd_minimal_intent gd_cfg_fixed c22_fo0 (c22_mk (map (fun l => (c22_top :: fst l, snd l)) c22_lv_unescaped)).
Proof. vm_compute. reflexivity. Qed.

(* a scalar member of a list element that is not a key (the schema-less code assumes the
   OpenConfig style rule; documented): {"l":[{"k":"x","v":1}]} vs /l[k=x]/k, /l[k=x]/v *)
Example c22_non_key_scalar_witness : forall cfg,
  gd_minimal_intent cfg c22_fo0 (c22_mk [([], TVJsonIetf (JObj [([108], JArr [JObj [([107], JStr [120]); ([118], JNum 1 0)]])]))]) <>
  gd_minimal_intent cfg c22_fo0 (c22_mk [([c22_ek [108] [107] [120]; c22_e [107]], TVString [120]);
                                  ([c22_ek [108] [107] [120]; c22_e [118]], TVInt 1)]).
Proof. intros [[|] [|] [|]]; vm_compute; discriminate. Qed.

(* 64-bit integers are strings in RFC 7951 JSON and numbers in a TypedValue (documented in protoLeafToJSON) *)
Example c22_int64_as_string_witness : forall cfg,
  gd_minimal_intent cfg c22_fo0 (c22_mk [([c22_e [97]], TVJsonIetf (JObj [([98], JStr [53])]))]) <>
  gd_minimal_intent cfg c22_fo0 (c22_mk [([c22_e [97]; c22_e [98]], TVUint 5)]).
Proof. intros [[|] [|] [|]]; vm_compute; discriminate. Qed.

(* delete /a/b ; update /a = {"b":3}   versus   delete /a/b ; update /a/b = 3 :
   the leaf update removes the delete from the intent, the JSON update keeps it *)
Example c22_leaf_delete_kept_witness : forall cfg,
  let d := [[c22_e [97]; c22_e [98]]] in
  gd_minimal_intent cfg c22_fo0 {| sr_prefix := []; sr_del := d; sr_rep := []; sr_upd := [([c22_e [97]], TVJsonIetf (JObj [([98], JNum 3 0)]))] |} <>
  gd_minimal_intent cfg c22_fo0 {| sr_prefix := []; sr_del := d; sr_rep := []; sr_upd := [([c22_e [97]; c22_e [98]], TVInt 3)] |}.
Proof. intros [[|] [|] [|]]; vm_compute; discriminate. Qed.

(* ---- non-vacuity ---- *)
Definition c22_example_request : setreq :=
  {| sr_prefix := [c22_top];
     sr_del := [[c22_e [100]]];
     sr_rep := [([c22_e [114]], TVString [118])];
     sr_upd := [([c22_e [97]], TVJsonIetf (JObj [([98], JNum 3 0); ([109; 58; 99], JObj [([100], JStr [120])])]));
                ([c22_ek [108] [107] [120]; c22_e [107]], TVString [120]);
                ([c22_e [110]], TVInt 7)] |}.
Example c22_example_ok :
  exists i, minimal_intent c22_fo0 c22_example_request = Ok i /\ length (i_upd i) = 5%nat /\ length (i_del i) = 1%nat /\
            gd_diff_clean (diff_intent i i) = true.
Proof. eexists. split; [vm_compute; reflexivity|]. vm_compute. repeat split. Qed.
