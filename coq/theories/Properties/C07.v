(* C07 — Tree validation accepts exactly schema-valid trees.
   Statement: Validate on a generated root returns no error for a tree whose every value is in
   its type's value space, whose enumeration / identity values are defined, whose union values
   fit a member, whose list keys equal the key leaves, whose configuration leaf-lists are
   duplicate free, whose lists and leaf-lists respect min/max-elements and whose choices have at
   most one case populated; and it reports an error for every tree that breaks one of these.

   Model: Tree/Validate.v (validate fx = ytypes.Validate with IgnoreMissingData, where fx : vfix says
   which of the proposed repairs are present in the code under test: fx_head = the code as it
   stands, fx_all = every proposed patch applied; valid = the declarative validity from RFC 7950).
   Scope: what the schema term carries (no patterns, no decimal64 ranges, no mandatory/must/when).
   This file only restates results of Tree/ValidateProofs.v, plus witnesses. *)
From Ygot Require Import Tree.Tree Tree.TreeOps Tree.Codec Tree.Validate Tree.ValidateProofs.

Definition c07_sound (fx : vfix) : Prop :=
  forall env fo s t, validate fx env fo s t = [] -> valid env s t.
Definition c07_complete (fx : vfix) : Prop :=
  forall env fo s t, valid env s t -> validate fx env fo s t = [].

(* ---------- what holds: Validate = validity minus the checks it does not make ---------- *)

(* guards, for the code as it stands (fx = fx_head):
     schema_ok fx s  = no leafref member inside a union, no union with both an enum/identityref
                       and an int64 member, no choice nested in a case, no choice directly in a list
                       entry (allowed again, if flat, with the repair fx_choice_list);
     tree_ok fx env true s t = every leaf value has the Go type generated for its leaf; list keys are
                       pairwise distinct and of the key's arity (Go maps); and the fault classes
                       Validate misses are absent: enum / identity values are defined (with the
                       repair fx_enum only: are not the UNSET value 0), configuration leaf-lists are
                       duplicate free (dropped by fx_lldup), leaf-lists respect min/max-elements
                       (dropped by fx_llattr), no entry has an unset enum-typed key leaf. *)
Theorem c07_exact : forall fx env fo s t, schema_ok fx s = true ->
  (valid env s t <-> validate fx env fo s t = [] /\ tree_ok fx env true s t = true).
Proof. intros fx env fo s t. exact (validate_exact fx env s t true). Qed.
Print Assumptions c07_exact.

Theorem c07_complete_partial : forall fx env fo s t, schema_ok fx s = true ->
  valid env s t -> validate fx env fo s t = [].
Proof. intros fx env fo s t Hs H. exact (proj1 (proj1 (validate_exact fx env s t true Hs) H)). Qed.
Print Assumptions c07_complete_partial.

Theorem c07_sound_partial : forall fx env fo s t, schema_ok fx s = true -> tree_ok fx env true s t = true ->
  validate fx env fo s t = [] -> valid env s t.
Proof. intros fx env fo s t Hs Hok H. exact (proj2 (validate_exact fx env s t true Hs) (conj H Hok)). Qed.
Print Assumptions c07_sound_partial.

(* every valid tree satisfies the tree guard: the guard removes no valid tree *)
Theorem c07_guard_of_valid : forall fx env s t, schema_ok fx s = true -> valid env s t -> tree_ok fx env true s t = true.
Proof. intros fx env s t Hs H. exact (proj2 (proj1 (validate_exact fx env s t true Hs) H)). Qed.
Print Assumptions c07_guard_of_valid.

(* ---------- witnesses ---------- *)

Definition fld (go : str) (cfg : bool) (cs : list str) : finfo :=
  {| f_go := go; f_paths := [[go]]; f_mods := []; f_spaths := []; f_smods := [];
     f_presence := false; f_cfg := cfg; f_case := cs |}.
Definition nofo : float_oracle := mk_float_oracle [] [].
Definition wenv : enum_env :=
  [([84], [ {| ev_num := 1; ev_name := [65]; ev_mod := [] |}; {| ev_num := 2; ev_name := [66]; ev_mod := [] |} ])].
(* the code as it stands accepts the invalid tree t; with every proposed patch it is rejected *)
Definition refutes_sound (s : schema) (t : tree) : Prop :=
  validate fx_head wenv nofo s t = [] /\ validb wenv true s t = false.
Definition repaired (s : schema) (t : tree) : Prop := validate fx_all wenv nofo s t <> [].

Ltac refute_with s t :=
  intros H; specialize (H wenv nofo s t eq_refl); unfold valid in H; vm_compute in H; discriminate H.

(* (1) an undefined enumeration value (99 of a type with values 1, 2) *)
Definition w_enum_s := SCont [(fld [101] true [], SLeaf (YEnum [84]) [])].
Definition w_enum_t := TCont [([101], TLeaf (VEnum [84] 99))].
Theorem c07_refuted_enum : ~ c07_sound fx_head.
Proof. refute_with w_enum_s w_enum_t. Qed.
Print Assumptions c07_refuted_enum.
(* (2) an undefined identity value *)
Definition w_idref_s := SCont [(fld [105] true [], SLeaf (YIdref [84]) [])].
Theorem c07_refuted_identity : refutes_sound w_idref_s (TCont [([105], TLeaf (VEnum [84] 99))]).
Proof. split; vm_compute; reflexivity. Qed.
(* (3) duplicate values in a configuration leaf-list *)
Definition w_ll_s := SCont [(fld [108] true [], SLeafList (YStr [] 0) 0 0)].
Theorem c07_refuted_leaflist_duplicates : refutes_sound w_ll_s (TCont [([108], TLeafList [VStr [97]; VStr [97]])]).
Proof. split; vm_compute; reflexivity. Qed.
(* ... which are fine in state data *)
Example c07_state_duplicates_valid :
  validb wenv true (SCont [(fld [108] false [], SLeafList (YStr [] 0) 0 0)]) (TCont [([108], TLeafList [VStr [97]; VStr [97]])]) = true.
Proof. vm_compute. reflexivity. Qed.
(* (4) five elements under max-elements 3, (5) one under min-elements 2: leaf-lists *)
Definition w_llmax_s := SCont [(fld [108] true [], SLeafList (YInt U8 []) 2 3)].
Theorem c07_refuted_leaflist_max : refutes_sound w_llmax_s
  (TCont [([108], TLeafList [VInt U8 1; VInt U8 2; VInt U8 3; VInt U8 4; VInt U8 5])]).
Proof. split; vm_compute; reflexivity. Qed.
Theorem c07_refuted_leaflist_min : refutes_sound w_llmax_s (TCont [([108], TLeafList [VInt U8 1])]).
Proof. split; vm_compute; reflexivity. Qed.
(* (6) two cases of a choice populated directly in a list entry *)
Definition w_chl_s := SCont [(fld [76] true [], SList false [[107]] 0 0
  [(fld [107] true [], SLeaf (YStr [] 0) []);
   (fld [97] true [[99]; [49]], SLeaf (YStr [] 0) []); (fld [98] true [[99]; [50]], SLeaf (YStr [] 0) [])])].
Definition w_chl_t := TCont [([76], TList [([VStr [120]],
  TCont [([107], TLeaf (VStr [120])); ([97], TLeaf (VStr [49])); ([98], TLeaf (VStr [50]))])])].
Theorem c07_refuted_choice_in_list : refutes_sound w_chl_s w_chl_t /\ schema_ok fx_head w_chl_s = false.
Proof. repeat split; vm_compute; reflexivity. Qed.
(* (7) a case that holds a leaf and a nested choice: the leaf no longer selects the case *)
Definition w_nest_s := SCont
  [(fld [97] true [[99]; [49]], SLeaf (YStr [] 0) []);
   (fld [110] true [[99]; [49]; [100]; [120]], SLeaf (YStr [] 0) []);
   (fld [98] true [[99]; [50]], SLeaf (YStr [] 0) [])].
Definition w_nest_t := TCont [([97], TLeaf (VStr [49])); ([98], TLeaf (VStr [50]))].
Theorem c07_refuted_nested_choice : refutes_sound w_nest_s w_nest_t /\ schema_ok fx_head w_nest_s = false.
Proof. repeat split; vm_compute; reflexivity. Qed.
(* (8) union { enumeration; int64 range 1..5 }: the enumeration member accepts the int64 100 *)
Definition w_mix_s := SCont [(fld [117] true [], SLeaf (YUnion [YEnum [84]; YInt I64 [(1, 5)%Z]]) [])].
Theorem c07_refuted_union_enum_int64 :
  refutes_sound w_mix_s (TCont [([117], TLeaf (VInt I64 100))]) /\ schema_ok fx_head w_mix_s = false.
Proof. repeat split; vm_compute; reflexivity. Qed.
(* (9) an entry with an unset enum-typed key leaf under the map key 0 *)
Definition w_key_s := SCont [(fld [76] true [], SList false [[107]] 0 0 [(fld [107] true [], SLeaf (YEnum [84]) [])])].
Theorem c07_refuted_unset_enum_key : refutes_sound w_key_s (TCont [([76], TList [([VEnum [84] 0], TCont [])])]).
Proof. split; vm_compute; reflexivity. Qed.
(* with the proposed patches (fx_all) witnesses (1)-(7) are rejected; (8) and (9) remain *)
Example c07_repaired :
  repaired w_enum_s w_enum_t /\ repaired w_idref_s (TCont [([105], TLeaf (VEnum [84] 99))]) /\
  repaired w_ll_s (TCont [([108], TLeafList [VStr [97]; VStr [97]])]) /\
  repaired w_llmax_s (TCont [([108], TLeafList [VInt U8 1; VInt U8 2; VInt U8 3; VInt U8 4; VInt U8 5])]) /\
  repaired w_llmax_s (TCont [([108], TLeafList [VInt U8 1])]) /\
  repaired w_chl_s w_chl_t /\ repaired w_nest_s w_nest_t /\
  validate fx_all wenv nofo w_mix_s (TCont [([117], TLeaf (VInt I64 100))]) = [] /\
  validate fx_all wenv nofo w_key_s (TCont [([76], TList [([VEnum [84] 0], TCont [])])]) = [].
Proof. unfold repaired. repeat split; vm_compute; try reflexivity; discriminate. Qed.

(* the other direction: a leafref member inside a union is skipped, its values are rejected *)
Definition w_lr_s := SCont [(fld [117] true [], SLeaf (YUnion [YLeafref (YStr [] 0); YInt U8 []]) [])].
Theorem c07_refuted_complete : ~ c07_complete fx_head.
Proof.
  intros H. specialize (H wenv nofo w_lr_s (TCont [([117], TLeaf (VStr [97]))]) eq_refl). vm_compute in H. discriminate H.
Qed.
Print Assumptions c07_refuted_complete.

(* a list with min-elements that is absent is not looked at (RFC 7950 7.7.5 makes the constraint
   apply when the parent exists; ygot has no notion of `mandatory`): both sides accept *)
Example c07_absent_list_not_checked :
  let s := SCont [(fld [76] true [], SList false [[107]] 1 3 [(fld [107] true [], SLeaf (YStr [] 0) [])])] in
  validate fx_head wenv nofo s (TCont []) = [] /\ validb wenv true s (TCont []) = true /\
  validate fx_head wenv nofo s (TCont [([76], TList [])]) = [EMin].
Proof. repeat split; vm_compute; reflexivity. Qed.

(* non-vacuity: faults Validate does detect, and a valid tree that satisfies every guard *)
Definition ex_s := SCont
  [(fld [105] true [], SLeaf (YInt I8 [((-10)%Z, 10%Z); (20%Z, 30%Z)]) []);
   (fld [115] true [], SLeaf (YStr [(2, 4)] 0) []);
   (fld [117] true [], SLeaf (YUnion [YInt I8 []; YStr [(1, 6)] 0]) []);
   (fld [101] true [], SLeaf (YEnum [84]) []);
   (fld [97] true [[99]; [49]], SLeaf (YStr [] 0) []); (fld [98] true [[99]; [50]], SLeaf (YStr [] 0) []);
   (fld [76] true [], SList false [[107]] 1 2 [(fld [107] true [], SLeaf (YStr [] 0) []); (fld [118] true [], SLeaf (YInt U8 []) [])])].
Definition ex_t := TCont
  [([105], TLeaf (VInt I8 25)); ([115], TLeaf (VStr [97; 98])); ([117], TLeaf (VStr [97])); ([101], TLeaf (VEnum [84] 2));
   ([97], TLeaf (VStr [49]));
   ([76], TList [([VStr [120]], TCont [([107], TLeaf (VStr [120])); ([118], TLeaf (VInt U8 7))])])].
Example c07_example_valid :
  schema_ok fx_head ex_s = true /\ tree_ok fx_head wenv true ex_s ex_t = true /\ validate fx_head wenv nofo ex_s ex_t = [] /\ validb wenv true ex_s ex_t = true.
Proof. repeat split; vm_compute; reflexivity. Qed.
Example c07_example_faults :
  validate fx_head wenv nofo ex_s (TCont [([105], TLeaf (VInt I8 15))]) = [EIntRange] /\
  validate fx_head wenv nofo ex_s (TCont [([115], TLeaf (VStr [97]))]) = [ELength] /\
  validate fx_head wenv nofo ex_s (TCont [([117], TLeaf (VStr [97; 97; 97; 97; 97; 97; 97]))]) = [ELength] /\
  validate fx_head wenv nofo ex_s (TCont [([97], TLeaf (VStr [49])); ([98], TLeaf (VStr [50]))]) = [EChoice] /\
  validate fx_head wenv nofo ex_s (TCont [([76], TList [([VStr [120]], TCont [([107], TLeaf (VStr [121]))])])]) = [EKey] /\
  validate fx_head wenv nofo ex_s (TCont [([76], TList [([VStr [120]], TCont [])])]) = [EKey] /\
  validate fx_head wenv nofo ex_s (TCont [([76], TList [])]) = [EMin] /\
  validate fx_head wenv nofo ex_s (TCont [([76], TList [([VStr [97]], TCont [([107], TLeaf (VStr [97]))]);
                                                ([VStr [98]], TCont [([107], TLeaf (VStr [98]))]);
                                                ([VStr [99]], TCont [([107], TLeaf (VStr [99]))])])]) = [EMax].
Proof. repeat split; vm_compute; reflexivity. Qed.
