(* C14 — PruneEmptyBranches removes only empty branches and never fails; BuildEmptyTree followed
   by PruneEmptyBranches gives back the original leaf set.
   Model: Tree/Prune.v (pruneBranchesInternal, initialiseTree), variant parameter
   fixed_om = false: /repo as it is, true: with the proposed fix.  This file only restates
   results proved in Tree/PruneProofs.v, and gives the witnesses that refute the full statements
   on the code as it is.
   Hypotheses that appear below:
     mg_wf_schema S   the Go field names of every struct type are pairwise distinct
     mg_conforms S t  every set field holds a value of the shape of its schema node
     mg_nobin S t     no field of Go type Binary holds the empty value (guard, see refutation)
     mg_prune_safe    no entry of a reachable non-empty ordered list has a non-pointer field or
                      a set container (guard of totality for the code as it is) *)
From Ygot Require Import Tree.Tree Tree.TreeOps Tree.Merge Tree.Prune Tree.PruneProofs.

(* ---------- (1) never fails ---------- *)

(* with the fix: PruneEmptyBranches returns normally on every tree of every schema *)
Theorem c14_total_fixed : forall S t, exists t', mg_prune true S t = Ok t'.
Proof. exact prune_total_fixed. Qed.
Print Assumptions c14_total_fixed.

(* the code as it is: it returns normally under the guard ... *)
Theorem c14_total_partial : forall S t,
  mg_prune_safe S (fields_of t) = true -> exists t', mg_prune false S t = Ok t'.
Proof. exact prune_total_partial. Qed.
Print Assumptions c14_total_partial.

(* ... and panics exactly outside it; it never returns an error *)
Theorem c14_panics_iff : forall S t,
  mg_prune false S t = Panic <-> mg_prune_safe S (fields_of t) = false.
Proof. exact prune_panics_iff. Qed.
Print Assumptions c14_panics_iff.

Theorem c14_never_err : forall f S t, mg_prune f S t <> Err.
Proof. exact prune_never_err. Qed.
Print Assumptions c14_never_err.

(* ---------- (2) every leaf, leaf-list member and list entry is still there ---------- *)
Theorem c14_preserves_leaves_partial : forall f S t t',
  mg_wf_schema S = true -> mg_nobin S (fields_of t) = true ->
  mg_prune f S t = Ok t' ->
  mg_leaves S (fields_of t') = mg_leaves S (fields_of t).
Proof. exact c14_preserves_leaves_partial_lemma. Qed.
Print Assumptions c14_preserves_leaves_partial.

(* ---------- (3) no container without data is left ---------- *)
(* not looking below unkeyed list entries (pruneBranchesInternal does not visit slices) *)
Theorem c14_no_empty_partial : forall f S t t',
  mg_wf_schema S = true -> mg_conforms S (fields_of t) = true ->
  mg_prune f S t = Ok t' ->
  mg_has_empty_cont false S (fields_of t') = false.
Proof. exact c14_no_empty_partial_lemma. Qed.
Print Assumptions c14_no_empty_partial.

(* ---------- (4) idempotent ---------- *)
Theorem c14_idempotent : forall f S t t',
  mg_wf_schema S = true -> mg_prune f S t = Ok t' -> mg_prune f S t' = Ok t'.
Proof. exact c14_idempotent_lemma. Qed.
Print Assumptions c14_idempotent.

(* ---------- (5) BuildEmptyTree, then PruneEmptyBranches ---------- *)
(* the containers BuildEmptyTree allocates are exactly undone: same result, same panic *)
Theorem c14_build_prune : forall f S t,
  mg_wf_schema S = true -> mg_prune f S (build_empty S t) = mg_prune f S t.
Proof. exact c14_build_prune_lemma. Qed.
Print Assumptions c14_build_prune.

Theorem c14_build_prune_leaves_partial : forall f S t t',
  mg_wf_schema S = true -> mg_nobin S (fields_of t) = true ->
  mg_prune f S (build_empty S t) = Ok t' ->
  mg_leaves S (fields_of t') = mg_leaves S (fields_of t).
Proof. exact c14_build_prune_leaves_partial_lemma. Qed.
Print Assumptions c14_build_prune_leaves_partial.

(* ---------- witnesses: the full statements fail on the code as it is ---------- *)
Definition c14_fi (n : str) : finfo :=
  {| f_go := n; f_paths := [[n]]; f_mods := []; f_spaths := []; f_smods := [];
     f_presence := false; f_cfg := true; f_case := [] |}.
Definition c14_str : ytype := YStr [] 0%nat.
(* container c { leaf bin { type binary; } leaf x { type string; } }
   list o { ordered-by user; key k; leaf k; leaf en { type enumeration } }
   list u (no key) { container uc { leaf z } leaf a } *)
Definition c14_schema : schema :=
  SCont [ (c14_fi [67], SCont [(c14_fi [66], SLeaf (YBin []) []); (c14_fi [88], SLeaf c14_str [])]);
          (c14_fi [79], SList true [[107]] 0 0 [(c14_fi [75], SLeaf c14_str []); (c14_fi [69], SLeaf (YEnum [69]) [])]);
          (c14_fi [85], SUnkeyed [(c14_fi [65], SLeaf c14_str []); (c14_fi [85;99], SCont [(c14_fi [90], SLeaf c14_str [])])]) ].

Example c14_schema_wf : mg_wf_schema c14_schema = true.
Proof. vm_compute. reflexivity. Qed.

(* a tree holding an ordered list with one entry: PruneEmptyBranches panics *)
Definition c14_t_ordered : tree :=
  TCont [([79], TList [([VStr [97]], TCont [([75], TLeaf (VStr [97]))])])].
Theorem c14_refuted_ordered_map : exists S t, mg_prune false S t = Panic.
Proof. exists c14_schema, c14_t_ordered. vm_compute. reflexivity. Qed.
Print Assumptions c14_refuted_ordered_map.
Example c14_ordered_fixed :
  mg_prune true c14_schema c14_t_ordered = Ok c14_t_ordered.
Proof. vm_compute. reflexivity. Qed.

(* a binary leaf holding the empty value is lost with its container *)
Definition c14_t_bin : tree := TCont [([67], TCont [([66], TLeaf (VBin []))])].
Theorem c14_refuted_empty_binary : exists f S t t',
  mg_wf_schema S = true /\ mg_prune f S t = Ok t' /\
  mg_leaves S (fields_of t') <> mg_leaves S (fields_of t).
Proof.
  exists true, c14_schema, c14_t_bin, (TCont []). split; [|split]; try (vm_compute; reflexivity).
  vm_compute. discriminate.
Qed.
Print Assumptions c14_refuted_empty_binary.

(* an empty container below an unkeyed list entry is left *)
Definition c14_t_unk : tree := TCont [([85], TUnkeyed [TCont [([65], TLeaf (VStr [97])); ([85;99], TCont [])]])].
Theorem c14_refuted_unkeyed_entry : exists f S t t',
  mg_wf_schema S = true /\ mg_conforms S (fields_of t) = true /\ mg_prune f S t = Ok t' /\
  mg_has_empty_cont true S (fields_of t') = true.
Proof.
  exists true, c14_schema, c14_t_unk, c14_t_unk. repeat split; vm_compute; reflexivity.
Qed.
Print Assumptions c14_refuted_unkeyed_entry.

(* non-vacuity: a tree with empty containers, a leaf and a keyed... pruned to the leaf *)
Example c14_example_prune :
  mg_prune false c14_schema (TCont [([67], TCont [([88], TLeaf (VStr [120]))]); ([85], TUnkeyed [])]) =
  Ok (TCont [([67], TCont [([88], TLeaf (VStr [120]))]); ([85], TUnkeyed [])]) /\
  mg_prune false c14_schema (TCont [([67], TCont []); ([85], TUnkeyed [])]) = Ok (TCont [([85], TUnkeyed [])]) /\
  build_empty c14_schema (TCont []) = TCont [([67], TCont [])] /\
  mg_leaves c14_schema [([67], TCont [([88], TLeaf (VStr [120]))])] = [([MgF [67]; MgF [88]], MgV (VStr [120]))].
Proof. repeat split; vm_compute; reflexivity. Qed.
