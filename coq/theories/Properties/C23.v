(* C23 — the gnmidiff SetRequest-to-notifications diff classifies leaves exactly.
   Restatements of results proved in Diffs/GnmiDiffProofs.v about diff_intent_notifs, the
   comparison DiffSetRequestToNotifications performs between the intent of the SetRequest
   (deletes + leaf updates, maps keyed by path strings) and the map of leaves the notifications
   carry.  The statements hold for ARBITRARY intents whose update map is strictly sorted
   (every intent the model computes is: c22_intent_wf).  How requests and notifications are
   turned into these maps is the model of C22 (Diffs/GnmiDiff.v), tied to the implementation by
   the gdiff / gdiffnotifs streams; the with-schema path is covered by the oracle only. *)
From Ygot Require Import Base.Base Path.PathString Tree.Tree Diffs.GnmiDiff Diffs.GnmiDiffProofs.
Open Scope N_scope.

(* the notifications carry exactly the leaves the intent writes *)
Theorem c23_exact : forall si, Srt (i_upd si) ->
  diff_intent_notifs si (i_upd si) =
  {| sd_missing := []; sd_extra := []; sd_common := i_upd si; sd_mism := [] |}.
Proof. exact notifs_exact. Qed.
Print Assumptions c23_exact.

(* one leaf removed: that leaf, and only that leaf, is missing *)
Theorem c23_single_edit_remove : forall si p v, Srt (i_upd si) -> al_find p (i_upd si) = Some v ->
  diff_intent_notifs si (gd_al_remove p (i_upd si)) =
  {| sd_missing := [(p, v)]; sd_extra := []; sd_common := gd_al_remove p (i_upd si); sd_mism := [] |}.
Proof. exact notifs_remove. Qed.
Print Assumptions c23_single_edit_remove.

(* one leaf changed: that leaf, and only that leaf, is mismatched (A = wanted, B = got) *)
Theorem c23_single_edit_change : forall si p v v', Srt (i_upd si) -> al_find p (i_upd si) = Some v -> v <> v' ->
  diff_intent_notifs si (al_insert p v' (i_upd si)) =
  {| sd_missing := []; sd_extra := []; sd_common := gd_al_remove p (i_upd si); sd_mism := [(p, (v, v'))] |}.
Proof. exact notifs_change. Qed.
Print Assumptions c23_single_edit_change.

(* one leaf added: it is extra iff it lies strictly below a deleted (or replaced) path; nothing
   else is reported either way *)
Theorem c23_single_edit_add : forall si p v', Srt (i_upd si) -> al_find p (i_upd si) = None ->
  diff_intent_notifs si (al_insert p v' (i_upd si)) =
  {| sd_missing := [];
     sd_extra := if gd_under_deleted (i_del si) p then [(p, v')] else [];
     sd_common := i_upd si; sd_mism := [] |}.
Proof. exact notifs_add. Qed.
Print Assumptions c23_single_edit_add.

(* for whole requests: when the notifications flatten to the update map of the request's
   intent, the diff is clean *)
Theorem c23_exact_request : forall cfg fo r ns si ni,
  gd_minimal_intent cfg fo r = Ok si ->
  gd_notifs_intent cfg fo {| i_del := []; i_upd := [] |} ns = Ok ni -> i_upd ni = i_upd si ->
  gd_diff_set_to_notifs cfg fo r ns =
  Ok {| sd_missing := []; sd_extra := []; sd_common := i_upd si; sd_mism := [] |}.
Proof.
  intros cfg fo r ns si ni H1 H2 E. unfold gd_diff_set_to_notifs, gd_diff_set_to_notifs_p.
  unfold gd_minimal_intent in H1. rewrite H1. simpl. rewrite H2. simpl. rewrite E. f_equal.
  apply notifs_exact. apply (minimal_intent_wf cfg fo true r si H1).
Qed.
Print Assumptions c23_exact_request.

(* "strictly below": a leaf AT a deleted path is not reported (confirmed on the implementation:
   finding single-edit/add/at-deleted-path).  delete /a/b ; notifications still carry /a/b *)
Definition c23_ab : str := [47; 97; 47; 98].
Example c23_at_deleted_path_witness :
  diff_intent_notifs {| i_del := [(c23_ab, tt)]; i_upd := [] |} [(c23_ab, JNum 3 0)] =
  {| sd_missing := []; sd_extra := []; sd_common := []; sd_mism := [] |}.
Proof. vm_compute. reflexivity. Qed.

(* non-vacuity: an intent with a delete of /a and leaves /c, /d; notifications carry /c, /d and /a/b *)
Example c23_example :
  let si := {| i_del := [([47; 97], tt)]; i_upd := [([47; 99], JStr [120]); ([47; 100], JNum 1 0)] |} in
  Srt (i_upd si) /\
  sd_extra (diff_intent_notifs si (al_insert c23_ab (JBool true) (i_upd si))) = [(c23_ab, JBool true)] /\
  sd_missing (diff_intent_notifs si (gd_al_remove [47; 99] (i_upd si))) = [([47; 99], JStr [120])].
Proof. split; [apply ssorted_srt; reflexivity|]. split; vm_compute; reflexivity. Qed.
