(* C01 — RFC 7951 JSON round trip is lossless.
   "For every data tree that a generated GoStruct can hold, rendering it to RFC 7951 JSON and
   unmarshalling that JSON into an empty root of the same type yields a tree with exactly the
   same leaves, leaf-lists, list entries (same keys; ordered-by-user lists: same order) and
   presence containers.  Re-rendering gives identical JSON.  Compressed and uncompressed code,
   simple and wrapper unions, with or without module-name prefixes."

   Model: Tree/Render.v (ygot.ConstructIETFJSON), Tree/Unmarshal.v (ytypes.Unmarshal), tied to
   the implementation by the jsonrt stream.  Hypotheses (Tree/RoundTrip.v, all executable):
     wf_schemab S      struct tags unambiguous (any number of path alternatives / elements,
                       shadow paths: compressed code is covered)
     wf_envb env       enum tables have distinct names
     wf_cfgb env cfg   module rewrite targets (and, if prefixes are emitted, enum names) have no ':'
     wf_treeb env fo S t   t is a schema-conforming tree with canonical union values, and the float
                       oracle round-trips the decimal64 values that occur in t.
   Statements only; proofs in Tree/RoundTripProofs.v and Tree/RoundTripObjProofs.v. *)
From Coq Require Import String Ascii.
From Ygot Require Import Tree.Tree Tree.Codec Tree.CodecProofs Tree.TreeOps Tree.Render Tree.Unmarshal.
From Ygot Require Import Tree.RoundTrip Tree.RoundTripObjProofs Tree.RoundTripProofs Corr.TreeCorr Corr.WfCorr.

(* the decoder is given the rendered text (erase_sets: entries of Go-map lists in tree order) *)
Theorem c01_roundtrip : forall env fo cfg S t j,
  wf_envb env = true -> wf_cfgb env cfg = true ->
  wf_schemab S = true -> wf_treeb env fo S t = true ->
  render env fo cfg S t = Ok j ->
  unmarshal env fo {| o_ignore_extra := false; o_prefer_shadow := c_shadow cfg |} S (TCont []) (erase_sets j) = Ok t.
Proof. exact roundtrip. Qed.
Print Assumptions c01_roundtrip.

(* a conforming tree always renders: no error, no panic *)
Theorem c01_render_total : forall env fo cfg S t,
  wf_cfgb env cfg = true -> wf_schemab S = true -> wf_treeb env fo S t = true ->
  exists j, render env fo cfg S t = Ok j.
Proof. exact render_total. Qed.
Print Assumptions c01_render_total.

(* hence the whole round trip succeeds and re-rendering the result gives the same JSON *)
Theorem c01_rerender : forall env fo cfg S t j t',
  wf_envb env = true -> wf_cfgb env cfg = true ->
  wf_schemab S = true -> wf_treeb env fo S t = true ->
  render env fo cfg S t = Ok j ->
  unmarshal env fo {| o_ignore_extra := false; o_prefer_shadow := c_shadow cfg |} S (TCont []) (erase_sets j) = Ok t' ->
  render env fo cfg S t' = render env fo cfg S t.
Proof. exact rerender. Qed.
Print Assumptions c01_rerender.

Theorem c01_roundtrip_exists : forall env fo cfg S t,
  wf_envb env = true -> wf_cfgb env cfg = true ->
  wf_schemab S = true -> wf_treeb env fo S t = true ->
  exists j, render env fo cfg S t = Ok j
    /\ unmarshal env fo {| o_ignore_extra := false; o_prefer_shadow := c_shadow cfg |} S (TCont []) (erase_sets j) = Ok t.
Proof.
  intros env fo cfg S t He Hc Hs Hw. destruct (render_total env fo cfg S t Hc Hs Hw) as [j Hj].
  exists j. split; [exact Hj | exact (roundtrip env fo cfg S t j He Hc Hs Hw Hj)].
Qed.
Print Assumptions c01_roundtrip_exists.

(* the decimal64 clause of wf_treeb is what the strconv guarantee gives for every value: with the
   two float-oracle guarantees as premises the per-value check is redundant *)
Theorem c01_float_check_redundant : forall fo,
  (forall b, fparse fo (ffmt fo b) = Some b) -> (forall b, dec64_lexb (ffmt fo b) = true) ->
  forall v, float_okb fo v = true.
Proof. exact float_okb_of_strconv. Qed.
Print Assumptions c01_float_check_redundant.

(* ---------- non-vacuity: a hand-written schema and tree ---------- *)

Definition S_ (x : string) : str := List.map N_of_ascii (list_ascii_of_string x).

Definition fld (go : string) (paths mods spaths smods : list (list string)) (pres : bool) : finfo :=
  {| f_go := S_ go; f_paths := map (map S_) paths; f_mods := map (map S_) mods;
     f_spaths := map (map S_) spaths; f_smods := map (map S_) smods;
     f_presence := pres; f_cfg := true; f_case := [] |}.
Definition fld1 (go p : string) : finfo := fld go [[p]] [["m"%string]] [] [] false.

Definition ex_env : enum_env :=
  [(S_ "E_Color", [{| ev_num := 1; ev_name := S_ "RED"; ev_mod := [] |};
                   {| ev_num := 2; ev_name := S_ "BLUE"; ev_mod := [] |}]);
   (S_ "E_Id", [{| ev_num := 1; ev_name := S_ "id-a"; ev_mod := S_ "m" |}])].
Definition ex_fo : float_oracle := mk_float_oracle [(4602678819172646912, S_ "0.5")] [(S_ "0.5", 4602678819172646912)].

Definition ex_union : ytype := YUnion [YInt I8 []; YEnum (S_ "E_Color"); YStr [] 0].

(* compressed-style code: "l2s/l2" list with two keys ("config/a|a", shadow "state/a|a"), an
   ordered list nested in it, a union, an enum, an identityref, a decimal64, a presence container *)
Definition ex_sch : schema :=
  SCont [
    (fld1 "Top" "top", SCont [
      (fld1 "En" "en", SLeaf (YEnum (S_ "E_Color")) []);
      (fld1 "Idr" "idr", SLeaf (YIdref (S_ "E_Id")) []);
      (fld1 "Un" "un", SLeaf ex_union []);
      (fld1 "Un2" "un2", SLeaf ex_union []);
      (fld1 "Dec" "dec", SLeaf (YDec 2) []);
      (fld "Pres" [["pres"%string]] [["m"%string]] [] [] true, SCont [(fld1 "X" "x", SLeaf (YStr [] 0) [])]);
      (fld "L2" [["l2s"; "l2"]%string] [["m"; "m"]%string] [] [] false,
       SList false [S_ "a"; S_ "b"] 0 0 [
         (fld "A" [["config"; "a"]; ["a"]]%string [["m"; "m"]; ["m"]]%string
                  [["state"; "a"]; ["a"]]%string [["m"; "m"]; ["m"]]%string false, SLeaf (YStr [] 0) []);
         (fld "B" [["config"; "b"]; ["b"]]%string [["m"; "m"]; ["m"]]%string [] [] false, SLeaf (YInt U8 []) []);
         (fld "Note" [["config"; "note"]]%string [["m"; "m"]]%string [["state"; "note"]]%string [["m"; "m"]]%string false,
          SLeaf (YStr [] 0) []);
         (fld "Ord" [["ords"; "ord"]%string] [["m"; "other"]%string] [] [] false,
          SList true [S_ "k"] 0 0 [
            (fld1 "K" "k", SLeaf (YInt I64 []) []);
            (fld1 "V" "v", SLeafList (YStr [] 0) 0 0)])])])].

Definition ex_tree : tree :=
  TCont [(S_ "Top", TCont [
    (S_ "En", TLeaf (VEnum (S_ "E_Color") 2));
    (S_ "Idr", TLeaf (VEnum (S_ "E_Id") 1));
    (S_ "Un", TLeaf (VStr (S_ "hello")));
    (S_ "Un2", TLeaf (VEnum (S_ "E_Color") 1));
    (S_ "Dec", TLeaf (VDec 4602678819172646912));
    (S_ "Pres", TCont []);
    (S_ "L2", TList [
      ([VStr (S_ "x"); VInt U8 1],
       TCont [(S_ "A", TLeaf (VStr (S_ "x"))); (S_ "B", TLeaf (VInt U8 1)); (S_ "Note", TLeaf (VStr (S_ "n")));
              (S_ "Ord", TList [
                 ([VInt I64 5], TCont [(S_ "K", TLeaf (VInt I64 5)); (S_ "V", TLeafList [VStr (S_ "p"); VStr (S_ "q")])]);
                 ([VInt I64 3], TCont [(S_ "K", TLeaf (VInt I64 3))])])]);
      ([VStr (S_ "y"); VInt U8 0],
       TCont [(S_ "A", TLeaf (VStr (S_ "y"))); (S_ "B", TLeaf (VInt U8 0))])])])].

Definition ex_cfg (am pi sh : bool) : jcfg :=
  {| c_append_mod := am; c_prepend_iref := pi; c_shadow := sh; c_rewrite := [(S_ "other", S_ "renamed")] |}.

Example c01_ex_schema_wf : wf_schemab ex_sch = true.
Proof. vm_compute. reflexivity. Qed.
Example c01_ex_env_wf : wf_envb ex_env = true.
Proof. vm_compute. reflexivity. Qed.
Example c01_ex_cfg_wf : forallb (fun c => wf_cfgb ex_env c)
  [ex_cfg false false false; ex_cfg true true false; ex_cfg true false true; ex_cfg false true true] = true.
Proof. vm_compute. reflexivity. Qed.
Example c01_ex_tree_wf : wf_treeb ex_env ex_fo ex_sch ex_tree = true.
Proof. vm_compute. reflexivity. Qed.

(* the theorem instantiated (and, independently, its conclusion computed by the model) *)
Example c01_ex_roundtrip : forall j, render ex_env ex_fo (ex_cfg true true true) ex_sch ex_tree = Ok j ->
  unmarshal ex_env ex_fo {| o_ignore_extra := false; o_prefer_shadow := true |} ex_sch (TCont []) (erase_sets j) = Ok ex_tree.
Proof.
  intros j. apply (c01_roundtrip ex_env ex_fo (ex_cfg true true true) ex_sch ex_tree j); vm_compute; reflexivity.
Qed.
Example c01_ex_computed : forallb (fun c => c01_holds ex_sch ex_env ex_fo c ex_tree)
  [ex_cfg false false false; ex_cfg true true false; ex_cfg true false true; ex_cfg false true true] = true.
Proof. vm_compute. reflexivity. Qed.

(* the rendered text of the example does use both path alternatives, a module prefix that is
   rewritten, and an unordered set *)
Example c01_ex_render_shape :
  match render ex_env ex_fo (ex_cfg true true false) ex_sch ex_tree with
  | Ok j => (match jget (erase_sets j) [S_ "top"; S_ "l2s"; S_ "l2"] with Some (JArr [_; _]) => true | _ => false end)
  | _ => false
  end = true.
Proof. vm_compute. reflexivity. Qed.

(* ---------- the hypotheses are needed ---------- *)

(* a union value that is not the decoder's choice for its own text: the string "RED" in a union
   with an enumeration that has a value RED comes back as the enum value *)
Definition ex_tree_noncanon : tree := TCont [(S_ "Top", TCont [(S_ "Un", TLeaf (VStr (S_ "RED")))])].
Example c01_noncanonical_union_changes :
  wf_treeb ex_env ex_fo ex_sch ex_tree_noncanon = false /\
  c01_holds ex_sch ex_env ex_fo (ex_cfg false false false) ex_tree_noncanon = false.
Proof. vm_compute. split; reflexivity. Qed.

(* a module rewritten to a name with ':' makes the member name unparseable *)
Definition ex_cfg_bad : jcfg :=
  {| c_append_mod := true; c_prepend_iref := false; c_shadow := false; c_rewrite := [(S_ "m", S_ "a:b")] |}.
Example c01_cfg_hypothesis_needed :
  wf_cfgb ex_env ex_cfg_bad = false /\ c01_holds ex_sch ex_env ex_fo ex_cfg_bad ex_tree = false.
Proof. vm_compute. split; reflexivity. Qed.

(* an empty non-presence container is not rendered, so it does not come back *)
Definition ex_tree_empty_cont : tree := TCont [(S_ "Top", TCont [])].
Example c01_empty_container_lost :
  wf_treeb ex_env ex_fo ex_sch ex_tree_empty_cont = false /\
  c01_holds ex_sch ex_env ex_fo (ex_cfg false false false) ex_tree_empty_cont = false.
Proof. vm_compute. split; reflexivity. Qed.
