(* C05 — MergeStructs has set-union semantics with conflict detection.
   Model: Tree/Merge.v (copyStruct and the copy*Field functions, both options), variant
   fixed_slice_copy = false (/repo as it is).  This file only restates results proved in
   Tree/MergeProofs.v and gives the witnesses that refute the full statements.
   Predicates (Tree/Prune.v):
     compatible S a b        the documented condition: leaves set in both are equal, leaf-lists and
                             unkeyed lists set in both are equal or disjoint, ordered lists are
                             disjoint or b's is a same-order sub-sequence of a's
     mg_compat false o ...   the condition the code checks (differs for binary leaves and for
                             ordered lists; overwrite switches the leaf conflicts off)
     mg_wf_schema, mg_conforms  Go struct types / values of the right shape
     mg_srcok                no union leaf holds the empty binary value; list keys are distinct
     mg_plain                the schema has no leaf of Go type YANGEmpty or Binary
   mg_leaves (written L below) is the leaf abstraction: one item per leaf, leaf-list member,
   keyed-list entry and unkeyed-list entry. *)
From Ygot Require Import Tree.Tree Tree.TreeOps Tree.Merge Tree.Prune Tree.PruneProofs Tree.MergeProofs.

(* ---------- (1) succeeds exactly when compatible ---------- *)

(* exact, for the condition the code implements, with either option *)
Theorem c05_succeeds_iff : forall o S a b,
  mg_wf_schema S = true -> mg_conforms S (fields_of a) = true ->
  mg_srcok S (fields_of a) = true -> mg_srcok S (fields_of b) = true ->
  ((exists r, mg_merge false o S a b = Ok r) <-> mg_compat false o S (fields_of a) (fields_of b) = true).
Proof. exact merge_ok_iff. Qed.
Print Assumptions c05_succeeds_iff.

(* the documented condition is sufficient ... *)
Theorem c05_succeeds_if_compatible : forall S a b,
  mg_wf_schema S = true -> mg_conforms S (fields_of a) = true ->
  mg_srcok S (fields_of a) = true -> mg_srcok S (fields_of b) = true ->
  compatible S a b = true -> exists r, mg_merge false mg_noopts S a b = Ok r.
Proof. exact merge_ok_if_compatible. Qed.
Print Assumptions c05_succeeds_if_compatible.

(* ... but not necessary: see c05_refuted_binary_leaf and c05_refuted_ordered_overlap below *)

(* ---------- (2) the result's leaves are the union ---------- *)
Theorem c05_union_partial : forall S a b r,
  mg_wf_schema S = true -> mg_plain S = true ->
  mg_srcok S (fields_of a) = true -> mg_srcok S (fields_of b) = true ->
  mg_merge false mg_noopts S a b = Ok r ->
  forall x, In x (mg_leaves S (fields_of r)) <->
            In x (mg_leaves S (fields_of a)) \/ In x (mg_leaves S (fields_of b)).
Proof. exact c05_union_partial_lemma. Qed.
Print Assumptions c05_union_partial.

(* ---------- (3) swapping the inputs ---------- *)
Theorem c05_comm_partial : forall S a b r1 r2,
  mg_wf_schema S = true -> mg_plain S = true ->
  mg_srcok S (fields_of a) = true -> mg_srcok S (fields_of b) = true ->
  mg_merge false mg_noopts S a b = Ok r1 -> mg_merge false mg_noopts S b a = Ok r2 ->
  forall x, In x (mg_leaves S (fields_of r1)) <-> In x (mg_leaves S (fields_of r2)).
Proof. exact c05_comm_partial_lemma. Qed.
Print Assumptions c05_comm_partial.

(* ---------- (4) MergeOverwriteExistingFields ---------- *)
(* no leaf conflict is ever reported ... *)
Theorem c05_overwrite_no_leaf_conflict : forall em dv v,
  mg_leaf_conflict {| mo_overwrite := true; mo_empty_maps := em |} dv v = false.
Proof. exact c05_overwrite_no_leaf_conflict_lemma. Qed.
Print Assumptions c05_overwrite_no_leaf_conflict.

(* ... and b's values win: every leaf of b is in the result, nothing is invented *)
Theorem c05_overwrite_partial : forall em S a b r,
  mg_wf_schema S = true -> mg_plain S = true ->
  mg_srcok S (fields_of a) = true -> mg_srcok S (fields_of b) = true ->
  mg_merge false {| mo_overwrite := true; mo_empty_maps := em |} S a b = Ok r ->
  (forall x, In x (mg_leaves S (fields_of b)) -> In x (mg_leaves S (fields_of r))) /\
  (forall x, In x (mg_leaves S (fields_of r)) ->
             In x (mg_leaves S (fields_of a)) \/ In x (mg_leaves S (fields_of b))).
Proof. exact c05_overwrite_partial_lemma. Qed.
Print Assumptions c05_overwrite_partial.

(* ---------- witnesses ---------- *)
Definition c05_fi (n : str) : finfo :=
  {| f_go := n; f_paths := [[n]]; f_mods := []; f_spaths := []; f_smods := [];
     f_presence := false; f_cfg := true; f_case := [] |}.
Definition c05_str : ytype := YStr [] 0%nat.
(* leaf b { type binary; }  leaf e { type empty; }  leaf x { type string; }
   list o { ordered-by user; key k; leaf k { type string; } } *)
Definition c05_schema : schema :=
  SCont [ (c05_fi [66], SLeaf (YBin []) []); (c05_fi [69], SLeaf YEmpty []); (c05_fi [88], SLeaf c05_str []);
          (c05_fi [79], SList true [[107]] 0 0 [(c05_fi [75], SLeaf c05_str [])]) ].
Definition c05_entry (k : N) : list scalar * tree := ([VStr [k]], TCont [([75], TLeaf (VStr [k]))]).

(* two different values of a binary leaf are merged by appending the bytes *)
Theorem c05_refuted_binary_leaf : exists S a b r,
  compatible S a b = false /\ mg_merge false mg_noopts S a b = Ok r.
Proof.
  exists c05_schema, (TCont [([66], TLeaf (VBin [1;2]))]), (TCont [([66], TLeaf (VBin [3;4]))]),
         (TCont [([66], TLeaf (VBin [1;2;3;4]))]).
  split; vm_compute; reflexivity.
Qed.
Print Assumptions c05_refuted_binary_leaf.

(* ordered lists: b = [n; c] against a = [c] overlaps without being a sub-sequence, and is merged *)
Theorem c05_refuted_ordered_overlap : exists S a b r,
  compatible S a b = false /\ mg_merge false mg_noopts S a b = Ok r.
Proof.
  exists c05_schema, (TCont [([79], TList [c05_entry 99])]), (TCont [([79], TList [c05_entry 110; c05_entry 99])]),
         (TCont [([79], TList [c05_entry 99; c05_entry 110])]).
  split; vm_compute; reflexivity.
Qed.
Print Assumptions c05_refuted_ordered_overlap.

(* a leaf of type empty set in a and not in b is not in the result *)
Theorem c05_refuted_empty_leaf : exists S a b r x,
  mg_wf_schema S = true /\ mg_merge false mg_noopts S a b = Ok r /\
  In x (mg_leaves S (fields_of a)) /\ ~ In x (mg_leaves S (fields_of r)).
Proof.
  exists c05_schema, (TCont [([69], TLeaf VEmpty)]), (TCont [([88], TLeaf (VStr [120]))]),
         (TCont [([88], TLeaf (VStr [120]))]), ([MgF [69]], MgV VEmpty).
  split; [vm_compute; reflexivity|]. split; [vm_compute; reflexivity|]. split.
  - vm_compute. auto.
  - vm_compute. intros [H|[]]. discriminate H.
Qed.
Print Assumptions c05_refuted_empty_leaf.

(* with MergeOverwriteExistingFields a binary leaf conflict with a common byte is still an error *)
Theorem c05_refuted_overwrite_binary : exists S a b,
  mg_merge false {| mo_overwrite := true; mo_empty_maps := false |} S a b = Err.
Proof.
  exists c05_schema, (TCont [([66], TLeaf (VBin [1;2]))]), (TCont [([66], TLeaf (VBin [2;4]))]).
  vm_compute. reflexivity.
Qed.
Print Assumptions c05_refuted_overwrite_binary.

(* non-vacuity *)
Example c05_example_merge :
  mg_merge false mg_noopts c05_schema (TCont [([88], TLeaf (VStr [120])); ([79], TList [c05_entry 97])])
                                     (TCont [([79], TList [c05_entry 98])]) =
  Ok (TCont [([88], TLeaf (VStr [120])); ([79], TList [c05_entry 97; c05_entry 98])]) /\
  mg_merge false mg_noopts c05_schema (TCont [([88], TLeaf (VStr [120]))]) (TCont [([88], TLeaf (VStr [121]))]) = Err /\
  mg_merge false {| mo_overwrite := true; mo_empty_maps := false |} c05_schema
           (TCont [([88], TLeaf (VStr [120]))]) (TCont [([88], TLeaf (VStr [121]))]) = Ok (TCont [([88], TLeaf (VStr [121]))]) /\
  compatible c05_schema (TCont [([88], TLeaf (VStr [120]))]) (TCont [([88], TLeaf (VStr [121]))]) = false.
Proof. repeat split; vm_compute; reflexivity. Qed.
