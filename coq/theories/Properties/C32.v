(* C32 — PruneConfigFalse removes exactly derived state.
   Statement: after PruneConfigFalse(schema, s) no config-false data remains in s, except
   compressed leaves kept for their config counterpart as documented; every config-true value is
   unchanged.
   Model: Tree/ConfigFalse.v (prune_config_false over the side table `cside` of per-path-
   alternative config / compressed-leaf facts); leaf abstraction vd_leaves: every leaf and
   leaf-list of a tree with its path, its value and vl_kept = "every field on the way, itself
   included, is config true or carries the compressed-leaf annotation on each alternative of its
   path tag".  This file only restates results of Tree/ConfigFalseProofs.v, plus examples. *)
From Ygot Require Import Tree.Tree Tree.TreeOps Tree.ConfigFalse Tree.ConfigFalseProofs.

(* the leaves after the call are exactly the kept leaves before it: same paths, same values,
   same order; for all trees and all side tables *)
Theorem c32_spec : forall c t,
  vd_leaves c (prune_config_false c t) = filter vl_kept (vd_leaves c t).
Proof. intros c t. exact (prune_spec t c). Qed.
Print Assumptions c32_spec.

(* no config-false data remains (except documented compressed leaves: they count as kept) *)
Theorem c32_nothing_config_false_remains : forall c t,
  forallb vl_kept (vd_leaves c (prune_config_false c t)) = true.
Proof. exact prune_all_kept. Qed.
Print Assumptions c32_nothing_config_false_remains.

(* every config-true value is unchanged, nothing is invented *)
Theorem c32_config_true_unchanged : forall c t l,
  In l (vd_leaves c t) -> vl_kept l = true -> In l (vd_leaves c (prune_config_false c t)).
Proof. exact prune_keeps. Qed.
Theorem c32_only_removes : forall c t l,
  In l (vd_leaves c (prune_config_false c t)) -> In l (vd_leaves c t) /\ vl_kept l = true.
Proof. exact prune_only_removes. Qed.
Print Assumptions c32_config_true_unchanged.
Print Assumptions c32_only_removes.

(* non-vacuity: an uncompressed struct with a state container, a read-only leaf, a list with a
   read-only leaf; and a compressed struct whose preferred state leaf is annotated *)
Definition lf : list (bool * bool) * cside := ([(true, false)], CSide []).
Definition ro : list (bool * bool) * cside := ([(false, false)], CSide []).
Definition ex_c : cside := CSide
  [([99], lf); ([114], ro);
   ([83], ([(false, false)], CSide [([120], ro)]));
   ([76], ([(true, false)], CSide [([107], lf); ([119], lf); ([111], ro)]));
   (* compressed, prefer_operational_state: path "state/name|name" -> (config false, annotated), (config true) *)
   ([78], ([(false, true); (true, false)], CSide []));
   (* derived state leaf of compressed code: not annotated *)
   ([79], ([(false, false)], CSide []))].
Definition ex_t : tree := TCont
  [([99], TLeaf (VStr [97])); ([114], TLeaf (VStr [98]));
   ([83], TCont [([120], TLeaf (VInt U8 1))]);
   ([76], TList [([VStr [107]], TCont [([107], TLeaf (VStr [107])); ([119], TLeaf (VStr [119])); ([111], TLeaf (VStr [111]))])]);
   ([78], TLeaf (VStr [110])); ([79], TLeaf (VStr [111]))].
Example c32_example :
  prune_config_false ex_c ex_t = TCont
    [([99], TLeaf (VStr [97]));
     ([76], TList [([VStr [107]], TCont [([107], TLeaf (VStr [107])); ([119], TLeaf (VStr [119]))])]);
     ([78], TLeaf (VStr [110]))] /\
  length (vd_leaves ex_c ex_t) = 8%nat /\ length (filter vl_kept (vd_leaves ex_c ex_t)) = 4%nat.
Proof. repeat split; vm_compute; reflexivity. Qed.
