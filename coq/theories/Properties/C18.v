(* C18 — Decoding rejects values outside the leaf's value space instead of coercing.
   Restatements of lemmas from Tree/CodecProofs.v, Scalar/DecProofs.v, Scalar/Base64Proofs.v
   about Codec.dec_kind / dec_json (the transcription of sanitizeJSON, unmarshalUnion,
   yangFloatIntToGoType, checkJSONFloat64Range, castToEnumValue). *)
From Ygot Require Import Tree.Tree Scalar.Dec Scalar.DecProofs Scalar.Base64 Scalar.Base64Proofs
  Tree.Codec Tree.CodecProofs.

(* 8/16/32-bit integer leaves accept a JSON number exactly when it denotes an integer in range,
   and then store exactly that integer: fractional and out-of-range numbers are errors. *)
Theorem c18_int_exact : forall fo ik m e v,
  ikind_is64 ik = false ->
  (dec_kind fo (KInt ik) (JNum m e) = Ok v <->
   exists z, jnum_int m e = Some z /\ (ikind_min ik <= z <= ikind_max ik)%Z /\ v = VInt ik z).
Proof. exact dec_kind_rejects. Qed.
Print Assumptions c18_int_exact.

(* wrong JSON kind: a 64-bit integer leaf never accepts a JSON number, a narrower one never a string *)
Theorem c18_int_wrong_kind : forall fo ik,
  (ikind_is64 ik = true -> forall m e, dec_kind fo (KInt ik) (JNum m e) = Err) /\
  (ikind_is64 ik = false -> forall s, dec_kind fo (KInt ik) (JStr s) = Err).
Proof. intros fo ik; split; intros H *; [now apply dec_kind_int_num64 | now apply dec_kind_int_str_narrow]. Qed.
Print Assumptions c18_int_wrong_kind.

(* whatever is accepted is a value of the leaf's kind (in range, bytes < 256, ...) *)
Theorem c18_accepted_in_space : forall fo k j v, dec_kind fo k j = Ok v -> has_kind k v = true.
Proof. exact dec_kind_has_kind. Qed.
Print Assumptions c18_accepted_in_space.

(* every accepted scalar re-renders to a JSON value that decodes to the same scalar *)
Theorem c18_rerender_stable : forall env fo pmi k j v,
  (forall b, fparse fo (ffmt fo b) = Some b) -> (forall b, dec64_lexb (ffmt fo b) = true) ->
  dec_kind fo k j = Ok v ->
  forall j', enc_scalar env fo pmi v = Ok j' -> dec_kind fo k j' = Ok v.
Proof.
  intros env fo pmi k j v Hf Hl Hd j' He.
  eapply dec_kind_enc; eauto. eapply dec_kind_has_kind; eauto.
Qed.
Print Assumptions c18_rerender_stable.

(* unknown enumeration / identity names are errors; known names give the table's value *)
Theorem c18_enum_roundtrip : forall env fo pmi ty n j,
  tbl_okb (enum_table env ty) = true ->
  (pmi = true -> tbl_nocolonb (enum_table env ty) = true) ->
  enc_scalar env fo pmi (VEnum ty n) = Ok j ->
  dec_json env fo (YEnum ty) j = Ok (VEnum ty n) /\ dec_json env fo (YIdref ty) j = Ok (VEnum ty n).
Proof. exact dec_json_enum_roundtrip. Qed.
Print Assumptions c18_enum_roundtrip.

Theorem c18_unknown_enum_name : forall env fo ty s,
  enum_cast (enum_table env ty) s = None -> dec_json env fo (YEnum ty) (JStr s) = Err.
Proof. intros env fo ty s H. cbn [dec_json]. now rewrite H. Qed.
Print Assumptions c18_unknown_enum_name.

(* base64: only byte strings come out; malformed int64 strings are rejected by parse_int_range *)
Theorem c18_binary_bytes : forall s bs, b64dec s = Some bs -> bytesb bs = true.
Proof. exact b64dec_bytes. Qed.
Print Assumptions c18_binary_bytes.

Theorem c18_int64_bounds : forall lo hi s z, parse_int_range lo hi s = Some z -> (lo <= z <= hi)%Z.
Proof. exact parse_int_range_bounds. Qed.
Print Assumptions c18_int64_bounds.

(* Non-vacuity and the rejection set on literals: 1.5, 127.9, 128 for int8; "1e3", "NaN" for
   decimal64 (the oracle knows how strconv parses them, the lexical check rejects them). *)
Example c18_examples :
  let fo := mk_float_oracle [(4652007308841189376, [49;48;48;48])] [([49;101;51], 4652007308841189376); ([49;48;48;48], 4652007308841189376)] in
  dec_kind fo (KInt I8) (JNum 15 (-1)) = Err /\ dec_kind fo (KInt I8) (JNum 1279 (-1)) = Err /\
  dec_kind fo (KInt I8) (JNum 128 0) = Err /\ dec_kind fo (KInt I8) (JNum 127 0) = Ok (VInt I8 127) /\
  dec_kind fo (KInt I8) (JNum 1270 (-1)) = Ok (VInt I8 127) /\
  dec_kind fo KDec (JStr [49;101;51]) = Err /\ dec_kind fo KDec (JStr [49;48;48;48]) = Ok (VDec 4652007308841189376) /\
  dec_kind fo KEmpty (JArr []) = Err /\ dec_kind fo KEmpty (JArr [JNull]) = Ok VEmpty /\
  dec_kind fo KBin (JStr [65;81;73]) = Err /\ dec_kind fo KBin (JStr [65;81;73;61]) = Ok (VBin [1;2]).
Proof. vm_compute. repeat split; reflexivity. Qed.
