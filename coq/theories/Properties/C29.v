(* C29 — path structs resolve to the schema's data-tree paths.
   The model (Gen/PathStructs.v) transcribes ygot.ResolvePath / NodePath.relPath / KeyValueAsString;
   the theorems hold for chains of any length.  On every run the generated path-struct API of the
   compressed packages is enumerated by reflection; each chain's NodePaths (read back from the path
   structs), the path ygot.ResolvePath returned and the data path given by the GoStruct field tags
   are compared by `mismatches` (correspondence + tag check).
   Builder-style list API (-list_builder_key_threshold): Gen/PathBuilder.v transcribes ygot.ModifyKey
   and the generated XxxAny() / With<Key>(v) methods; the c29_builder_* theorems below say what
   ResolvePath gives after ANY sequence of in-place key writes; on every run the stream
   `pathbuilder` runs programs of With calls and resolutions on live path structs and
   `pb_model_mismatches` re-computes every resolution from the model state.
   This file restates results of Gen/PathStructsProofs.v and Gen/PathBuilderProofs.v. *)
From Ygot Require Import Base.Base Path.PathString Tree.Tree Gen.PathStructs Gen.PathStructsProofs.
From Ygot Require Import Gen.PathBuilder Gen.PathBuilderProofs.

(* ResolvePath of a chain = the concatenation, root side first, of the relative paths *)
Theorem c29_resolve : forall kfmt env (c : chain) pes,
  Forall2 (fun n pe => rel_path kfmt env n = Ok pe) c pes ->
  resolve kfmt env true c = Ok (concat pes).
Proof. exact resolve_concat. Qed.
Print Assumptions c29_resolve.

Theorem c29_resolve_inv : forall kfmt env rootok c p, resolve kfmt env rootok c = Ok p ->
  exists pes, Forall2 (fun n pe => rel_path kfmt env n = Ok pe) c pes /\ p = concat pes.
Proof. exact resolve_ok_inv. Qed.
Print Assumptions c29_resolve_inv.

(* the element names are the data-tree path: the concatenated relative schema paths *)
Theorem c29_resolve_names : forall kfmt env rootok c p,
  resolve kfmt env rootok c = Ok p -> map ename p = concat (map np_rel c).
Proof. exact resolve_names. Qed.
Print Assumptions c29_resolve_names.

(* a relative path without keys is its names; with keys, the last element carries every key under
   its name with the string KeyValueAsString gives *)
Theorem c29_rel_nokeys : forall kfmt env n,
  np_keys n = [] -> rel_path kfmt env n = Ok (map name_elem (np_rel n)).
Proof. exact rel_path_nokeys. Qed.
Print Assumptions c29_rel_nokeys.

Theorem c29_rel_keys : forall kfmt env n init last kvs,
  np_keys n <> [] -> np_rel n = init ++ [last] ->
  mapM (render_key kfmt env) (np_keys n) = Ok kvs ->
  rel_path kfmt env n = Ok (map name_elem init ++ [ {| ename := last; ekeys := kvs |} ]).
Proof. exact rel_path_keys. Qed.
Print Assumptions c29_rel_keys.

Theorem c29_keys_rendered : forall kfmt env ks kvs,
  mapM (render_key kfmt env) ks = Ok kvs ->
  Forall2 (fun k kv => fst kv = fst k /\ key_to_string kfmt env (snd k) = Ok (snd kv)) ks kvs.
Proof. exact render_keys_spec. Qed.
Print Assumptions c29_keys_rendered.

(* keys left as wildcards appear as "*" *)
Theorem c29_wildcard : forall kfmt env, key_to_string kfmt env wildcard = Ok s_star.
Proof. exact wildcard_renders_star. Qed.
Print Assumptions c29_wildcard.

(* a key that cannot be rendered makes ResolvePath fail; generated NodePaths (non-empty relative
   path) never make it panic *)
Theorem c29_error_propagates : forall kfmt env c n, In n c -> rel_path kfmt env n = Err ->
  forall rootok p, resolve kfmt env rootok c <> Ok p.
Proof. exact resolve_err. Qed.
Print Assumptions c29_error_propagates.

(* the root must be a fake-root path struct (Id, CustomData); ResolvePath fails otherwise *)
Theorem c29_bad_root : forall kfmt env c p, resolve kfmt env false c <> Ok p.
Proof. exact resolve_bad_root. Qed.
Print Assumptions c29_bad_root.

Theorem c29_rel_no_panic : forall kfmt env n, np_rel n <> [] -> rel_path kfmt env n <> Panic.
Proof. exact rel_path_no_panic. Qed.
Print Assumptions c29_rel_no_panic.

(* ---------- non-vacuity: /interfaces/interface[name=eth0]/subinterfaces/subinterface[index=*]/config/vlan ---------- *)
Definition c29_s_if : str := [105; 102].
Definition c29_example : chain :=
  [ MkNP [[105; 102; 115]; c29_s_if] [([110], VStr [101; 116; 104; 48])];
    MkNP [[115; 117; 98; 115]; [115; 117; 98]] [([105], wildcard)];
    MkNP [[99; 102; 103]; [118]] [] ].
Example c29_example_resolves :
  resolve (fun _ => []) [] true c29_example =
  Ok [ name_elem [105; 102; 115]; {| ename := c29_s_if; ekeys := [([110], [101; 116; 104; 48])] |};
       name_elem [115; 117; 98; 115]; {| ename := [115; 117; 98]; ekeys := [([105], [42])] |};
       name_elem [99; 102; 103]; name_elem [118] ] /\
  key_to_string (fun _ => []) [] (VInt I64 (-9000000000)%Z) = Ok [45; 57; 48; 48; 48; 48; 48; 48; 48; 48; 48] /\
  resolve (fun _ => []) [] true [MkNP [[108]] [([107], VEnum [69] 7%Z)]] = Err.
Proof. repeat split; vm_compute; reflexivity. Qed.

(* ================= builder-style list API: XxxAny() + With<Key>(v) = ygot.ModifyKey in place ================= *)

(* ModifyKey(n, k, v) then relPath: the same element names; on the last element k is bound to the
   rendering of v, every other key as before *)
Theorem c29_builder_rel_path : forall kfmt env n init last kvs k v s,
  np_rel n = init ++ [last] ->
  mapM (render_key kfmt env) (np_keys n) = Ok kvs -> key_to_string kfmt env v = Ok s ->
  rel_path kfmt env (modify_key n k v) =
  Ok (map name_elem init ++ [ {| ename := last; ekeys := al_insert k s kvs |} ]).
Proof. exact rel_path_modify_key. Qed.
Print Assumptions c29_builder_rel_path.

Theorem c29_builder_rel_path_find : forall kfmt env n init last kvs k v s pe,
  np_rel n = init ++ [last] ->
  mapM (render_key kfmt env) (np_keys n) = Ok kvs -> key_to_string kfmt env v = Ok s ->
  rel_path kfmt env (modify_key n k v) = Ok pe ->
  exists e, pe = map name_elem init ++ [e] /\ ename e = last /\
            al_find k (ekeys e) = Some s /\ forall k0, k0 <> k -> al_find k0 (ekeys e) = al_find k0 kvs.
Proof. exact rel_path_modify_key_find. Qed.
Print Assumptions c29_builder_rel_path_find.

(* a value KeyValueAsString rejects makes the node (hence every path through it) fail to resolve *)
Theorem c29_builder_bad_value : forall kfmt env n kvs k v,
  mapM (render_key kfmt env) (np_keys n) = Ok kvs -> key_to_string kfmt env v = Err ->
  rel_path kfmt env (modify_key n k v) = Err.
Proof. exact rel_path_modify_key_err. Qed.
Print Assumptions c29_builder_bad_value.

(* frame: a key write on node i of a chain changes the resolved path in the elements of node i
   only (as c29_builder_rel_path says); the nodes above and below contribute what they did *)
Theorem c29_builder_frame : forall kfmt env pre n post pes1 pes2 k v pe,
  Forall2 (fun m p => rel_path kfmt env m = Ok p) pre pes1 ->
  Forall2 (fun m p => rel_path kfmt env m = Ok p) post pes2 ->
  rel_path kfmt env (modify_key n k v) = Ok pe ->
  resolve kfmt env true (modify_at (pre ++ n :: post) (length pre) k v) = Ok (concat pes1 ++ pe ++ concat pes2).
Proof. exact resolve_modify_at. Qed.
Print Assumptions c29_builder_frame.

Theorem c29_builder_frame_nodes : forall c i j k v d, j <> i -> nth j (modify_at c i k v) d = nth j c d.
Proof. exact modify_at_other. Qed.
Print Assumptions c29_builder_frame_nodes.

Theorem c29_builder_frame_rel : forall c i k v, map np_rel (modify_at c i k v) = map np_rel c.
Proof. exact modify_at_rel. Qed.
Print Assumptions c29_builder_frame_rel.

(* the path structs above the written node resolve exactly as before *)
Theorem c29_builder_frame_above : forall kfmt env rootok c i upto k v, (upto <= i)%nat ->
  resolve kfmt env rootok (firstn upto (modify_at c i k v)) = resolve kfmt env rootok (firstn upto c).
Proof. exact resolve_above_unchanged. Qed.
Print Assumptions c29_builder_frame_above.

(* the element names (the data-tree path) never change, whatever is written where *)
Theorem c29_builder_names : forall kfmt env rootok c i k v p q,
  resolve kfmt env rootok c = Ok p -> resolve kfmt env rootok (modify_at c i k v) = Ok q -> map ename q = map ename p.
Proof. exact resolve_names_modify_at. Qed.
Print Assumptions c29_builder_names.

(* sequences of With calls (any length, any order, repetitions): closed form of the key map.
   Every key of the list is present; its value is the one most recently written, "*" if none. *)
Theorem c29_builder_keys : forall rel keys ws,
  keys_sorted keys -> (forall w, In w ws -> In (fst w) keys) ->
  apply_withs ws (any_node rel keys) = MkNP rel (map (fun k => (k, final_value k ws)) keys).
Proof. exact builder_node. Qed.
Print Assumptions c29_builder_keys.

Theorem c29_builder_last_write_wins : forall k v ws, final_value k (ws ++ [(k, v)]) = v.
Proof. exact final_value_set. Qed.
Print Assumptions c29_builder_last_write_wins.

Theorem c29_builder_other_keys_kept : forall k k' v ws, k <> k' -> final_value k (ws ++ [(k', v)]) = final_value k ws.
Proof. exact final_value_other. Qed.
Print Assumptions c29_builder_other_keys_kept.

Theorem c29_builder_wildcard_until_set : forall k ws, (forall w, In w ws -> fst w <> k) -> final_value k ws = wildcard.
Proof. exact final_value_unset. Qed.
Print Assumptions c29_builder_wildcard_until_set.

(* re-keying: of two consecutive writes to one key only the second counts (any node, any state) *)
Theorem c29_builder_rekey : forall ws k v1 v2 n,
  apply_withs (ws ++ [(k, v1); (k, v2)]) n = apply_withs (ws ++ [(k, v2)]) n.
Proof. exact rekey_twice. Qed.
Print Assumptions c29_builder_rekey.

Theorem c29_builder_order_irrelevant : forall rel keys ws1 ws2,
  keys_sorted keys -> (forall w, In w ws1 -> In (fst w) keys) -> (forall w, In w ws2 -> In (fst w) keys) ->
  (forall k, In k keys -> final_value k ws1 = final_value k ws2) ->
  apply_withs ws1 (any_node rel keys) = apply_withs ws2 (any_node rel keys).
Proof. exact builder_order_irrelevant. Qed.
Print Assumptions c29_builder_order_irrelevant.

(* end to end: a chain through a builder node after any sequence of With calls on it resolves to
   the data-tree path whose list element carries, for every key of the list, the rendering of the
   value most recently passed ("*" for a key never set) *)
Theorem c29_builder_resolve : forall kfmt env pre post pes1 pes2 init last keys ws kvs,
  keys_sorted keys -> keys <> [] -> (forall w, In w ws -> In (fst w) keys) ->
  Forall2 (fun m p => rel_path kfmt env m = Ok p) pre pes1 ->
  Forall2 (fun m p => rel_path kfmt env m = Ok p) post pes2 ->
  mapM (render_key kfmt env) (map (fun k => (k, final_value k ws)) keys) = Ok kvs ->
  resolve kfmt env true (pre ++ apply_withs ws (any_node (init ++ [last]) keys) :: post) =
  Ok (concat pes1 ++ (map name_elem init ++ [ {| ename := last; ekeys := kvs |} ]) ++ concat pes2).
Proof. exact builder_resolve. Qed.
Print Assumptions c29_builder_resolve.

Theorem c29_builder_rendered_keys : forall kfmt env keys ws kvs,
  mapM (render_key kfmt env) (map (fun k => (k, final_value k ws)) keys) = Ok kvs ->
  Forall2 (fun k kv => fst kv = k /\ key_to_string kfmt env (final_value k ws) = Ok (snd kv)) keys kvs.
Proof. exact builder_rendered_keys. Qed.
Print Assumptions c29_builder_rendered_keys.

Theorem c29_builder_all_wildcards : forall kfmt env keys,
  mapM (render_key kfmt env) (map (fun k => (k, final_value k [])) keys) = Ok (map (fun k => (k, s_star)) keys).
Proof. exact builder_all_wildcards. Qed.
Print Assumptions c29_builder_all_wildcards.

(* ModifyKey on a nil key map (the root's NodePath, NewNodePath(rel, nil, p)) panics *)
Theorem c29_builder_nil_map : forall n k v, modify_key_go true n k v = Panic.
Proof. exact modify_key_go_nil. Qed.
Print Assumptions c29_builder_nil_map.

(* ---------- non-vacuity: /acl/acl-sets/acl-set[name=*][type=*]/entries/entry[seq=7]
   resolved, WithType(ACCEPT...) = "T", WithName("a"), WithName("b"), resolved again ---------- *)
Definition c29b_s_name : str := [110; 97; 109; 101].
Definition c29b_s_type : str := [116; 121; 112; 101].
Definition c29b_any : nodepath := any_node [[97; 99; 108; 45; 115; 101; 116; 115]; [97; 99; 108; 45; 115; 101; 116]] [c29b_s_name; c29b_s_type].
Definition c29b_chain : chain :=
  [ MkNP [[97; 99; 108]] []; c29b_any; MkNP [[101; 110; 116; 114; 105; 101; 115]; [101; 110; 116; 114; 121]] [([115; 101; 113], VInt U32 7%Z)] ].
Definition c29b_withs : list (str * scalar) :=
  [ (c29b_s_type, VStr [84]); (c29b_s_name, VStr [97]); (c29b_s_name, VStr [98]) ].
Example c29_builder_example :
  (* before any With call: both keys "*" *)
  resolve (fun _ => []) [] true c29b_chain =
  Ok [ name_elem [97; 99; 108]; name_elem [97; 99; 108; 45; 115; 101; 116; 115];
       {| ename := [97; 99; 108; 45; 115; 101; 116]; ekeys := [(c29b_s_name, [42]); (c29b_s_type, [42])] |};
       name_elem [101; 110; 116; 114; 105; 101; 115]; {| ename := [101; 110; 116; 114; 121]; ekeys := [([115; 101; 113], [55])] |} ] /\
  (* after the three With calls on the node in the middle of the chain: name = "b" (last write), type = "T" *)
  resolve (fun _ => []) [] true
    (fold_left (fun c w => modify_at c 1 (fst w) (snd w)) c29b_withs c29b_chain) =
  Ok [ name_elem [97; 99; 108]; name_elem [97; 99; 108; 45; 115; 101; 116; 115];
       {| ename := [97; 99; 108; 45; 115; 101; 116]; ekeys := [(c29b_s_name, [98]); (c29b_s_type, [84])] |};
       name_elem [101; 110; 116; 114; 105; 101; 115]; {| ename := [101; 110; 116; 114; 121]; ekeys := [([115; 101; 113], [55])] |} ] /\
  apply_withs c29b_withs c29b_any =
    MkNP [[97; 99; 108; 45; 115; 101; 116; 115]; [97; 99; 108; 45; 115; 101; 116]] [(c29b_s_name, VStr [98]); (c29b_s_type, VStr [84])] /\
  keys_sorted [c29b_s_name; c29b_s_type] /\
  (* the trace checker accepts the faithful trace and rejects a stale resolution (the path resolved
     before WithName is returned again after it) *)
  run_model (fun _ => []) [] true [false] [c29b_any]
    [ PResolve 1 [c29b_any] (Ok [name_elem [97; 99; 108; 45; 115; 101; 116; 115]; {| ename := [97; 99; 108; 45; 115; 101; 116]; ekeys := [(c29b_s_name, [42]); (c29b_s_type, [42])] |}]) [];
      PSet 0 c29b_s_name (VStr [97]) false;
      PResolve 1 [modify_key c29b_any c29b_s_name (VStr [97])]
        (Ok [name_elem [97; 99; 108; 45; 115; 101; 116; 115]; {| ename := [97; 99; 108; 45; 115; 101; 116]; ekeys := [(c29b_s_name, [97]); (c29b_s_type, [42])] |}]) [] ] = true /\
  run_model (fun _ => []) [] true [false] [c29b_any]
    [ PSet 0 c29b_s_name (VStr [97]) false;
      PResolve 1 [modify_key c29b_any c29b_s_name (VStr [97])]
        (Ok [name_elem [97; 99; 108; 45; 115; 101; 116; 115]; {| ename := [97; 99; 108; 45; 115; 101; 116]; ekeys := [(c29b_s_name, [42]); (c29b_s_type, [42])] |}]) [] ] = false.
Proof.
  repeat split; try (vm_compute; reflexivity).
  all: repeat constructor.
Qed.
