(* C29 — path structs resolve to the schema's data-tree paths.
   The model (Gen/PathStructs.v) transcribes ygot.ResolvePath / NodePath.relPath / KeyValueAsString;
   the theorems hold for chains of any length.  On every run the generated path-struct API of the
   compressed packages is enumerated by reflection; each chain's NodePaths (read back from the path
   structs), the path ygot.ResolvePath returned and the data path given by the GoStruct field tags
   are compared by `mismatches` (correspondence + tag check).  This file restates results of
   Gen/PathStructsProofs.v. *)
From Ygot Require Import Base.Base Path.PathString Tree.Tree Gen.PathStructs Gen.PathStructsProofs.

(* ResolvePath of a chain = the concatenation, root side first, of the relative paths *)
Theorem c29_resolve : forall kfmt env (c : chain) pes,
  Forall2 (fun n pe => rel_path kfmt env n = Ok pe) c pes ->
  resolve kfmt env true c = Ok (concat pes).
Proof. exact resolve_concat. Qed.
Print Assumptions c29_resolve.

Theorem c29_resolve_inv : forall kfmt env rootok c p, resolve kfmt env rootok c = Ok p ->
  exists pes, Forall2 (fun n pe => rel_path kfmt env n = Ok pe) c pes /\ p = concat pes.
Proof. exact resolve_ok_inv. Qed.
Print Assumptions c29_resolve_inv.

(* the element names are the data-tree path: the concatenated relative schema paths *)
Theorem c29_resolve_names : forall kfmt env rootok c p,
  resolve kfmt env rootok c = Ok p -> map ename p = concat (map np_rel c).
Proof. exact resolve_names. Qed.
Print Assumptions c29_resolve_names.

(* a relative path without keys is its names; with keys, the last element carries every key under
   its name with the string KeyValueAsString gives *)
Theorem c29_rel_nokeys : forall kfmt env n,
  np_keys n = [] -> rel_path kfmt env n = Ok (map name_elem (np_rel n)).
Proof. exact rel_path_nokeys. Qed.
Print Assumptions c29_rel_nokeys.

Theorem c29_rel_keys : forall kfmt env n init last kvs,
  np_keys n <> [] -> np_rel n = init ++ [last] ->
  mapM (render_key kfmt env) (np_keys n) = Ok kvs ->
  rel_path kfmt env n = Ok (map name_elem init ++ [ {| ename := last; ekeys := kvs |} ]).
Proof. exact rel_path_keys. Qed.
Print Assumptions c29_rel_keys.

Theorem c29_keys_rendered : forall kfmt env ks kvs,
  mapM (render_key kfmt env) ks = Ok kvs ->
  Forall2 (fun k kv => fst kv = fst k /\ key_to_string kfmt env (snd k) = Ok (snd kv)) ks kvs.
Proof. exact render_keys_spec. Qed.
Print Assumptions c29_keys_rendered.

(* keys left as wildcards appear as "*" *)
Theorem c29_wildcard : forall kfmt env, key_to_string kfmt env wildcard = Ok s_star.
Proof. exact wildcard_renders_star. Qed.
Print Assumptions c29_wildcard.

(* a key that cannot be rendered makes ResolvePath fail; generated NodePaths (non-empty relative
   path) never make it panic *)
Theorem c29_error_propagates : forall kfmt env c n, In n c -> rel_path kfmt env n = Err ->
  forall rootok p, resolve kfmt env rootok c <> Ok p.
Proof. exact resolve_err. Qed.
Print Assumptions c29_error_propagates.

(* the root must be a fake-root path struct (Id, CustomData); ResolvePath fails otherwise *)
Theorem c29_bad_root : forall kfmt env c p, resolve kfmt env false c <> Ok p.
Proof. exact resolve_bad_root. Qed.
Print Assumptions c29_bad_root.

Theorem c29_rel_no_panic : forall kfmt env n, np_rel n <> [] -> rel_path kfmt env n <> Panic.
Proof. exact rel_path_no_panic. Qed.
Print Assumptions c29_rel_no_panic.

(* ---------- non-vacuity: /interfaces/interface[name=eth0]/subinterfaces/subinterface[index=*]/config/vlan ---------- *)
Definition c29_s_if : str := [105; 102].
Definition c29_example : chain :=
  [ MkNP [[105; 102; 115]; c29_s_if] [([110], VStr [101; 116; 104; 48])];
    MkNP [[115; 117; 98; 115]; [115; 117; 98]] [([105], wildcard)];
    MkNP [[99; 102; 103]; [118]] [] ].
Example c29_example_resolves :
  resolve (fun _ => []) [] true c29_example =
  Ok [ name_elem [105; 102; 115]; {| ename := c29_s_if; ekeys := [([110], [101; 116; 104; 48])] |};
       name_elem [115; 117; 98; 115]; {| ename := [115; 117; 98]; ekeys := [([105], [42])] |};
       name_elem [99; 102; 103]; name_elem [118] ] /\
  key_to_string (fun _ => []) [] (VInt I64 (-9000000000)%Z) = Ok [45; 57; 48; 48; 48; 48; 48; 48; 48; 48; 48] /\
  resolve (fun _ => []) [] true [MkNP [[108]] [([107], VEnum [69] 7%Z)]] = Err.
Proof. repeat split; vm_compute; reflexivity. Qed.
