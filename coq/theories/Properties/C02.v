(* C02 — gNMI notification round trip: TogNMINotifications (PathElem form, any prefix) followed
   by UnmarshalNotifications into an empty root gives back exactly the original tree: the same
   leaves and leaf-lists, list entries under the same keys, `ordered-by user` lists with their
   entries in the same order, nothing rejected.
   This file only restates results proved in Tree/GnmiRtProofs.v and Tree/GnmiRtOrdProofs.v
   (models: Tree/Leaves.v, Notif.v, Node.v, SetReq.v; guards: Tree/GnmiRt.v, Tree/GnmiRtOrd.v) and
   exhibits the witnesses of the deviations that remain.
   Proved (c02_roundtrip_ordered, c02_render_total_ordered): every tree of the guard gn_treeb_ord,
   which accepts `ordered-by user` lists in the OpenConfig shape `container xs { list x {...} }`
   (the list is all that its surrounding container holds), any number of them, anywhere outside
   another ordered list.  c02_roundtrip_partial / c02_render_total (guard gn_treeb: no ordered
   list at all) are the special case (c02_guard_extends).
   Still partial, because the unguarded statement is false on the faithful model:
   - an ordered list with a sibling in its container: the atomic notification deletes the whole
     container first and the sibling is lost (c02_refuted_atomic_wipes);
   - an unkeyed list: the tree is rejected as a whole (c02_refuted_unkeyed);
   - the scalar / key conditions of the guard (empty leaf-lists, `empty` leaves, NaN keys, union
     values that the decoder reads as another member: see gn_node / key_wfb). *)
From Ygot Require Import Tree.Tree Tree.Codec Tree.TreeOps Tree.RoundTrip.
From Ygot Require Import Tree.KeyCodec Tree.Leaves Tree.Notif Tree.Node Tree.SetReq Path.PathRel.
From Ygot Require Import Tree.KeyCodecProofs Tree.NodeStepProofs Tree.GnmiRt Tree.GnmiRtProofs Tree.GnmiExample.
From Ygot Require Import Tree.GnmiRtOrd Tree.GnmiRtOrdProofs.
From Ygot Require Import Corr.TreeCorr.

(* The guards (all executable):
   wf_envb env        every enum table has distinct names (RoundTrip.v);
   gn_treeb S t       S: struct tags unambiguous and without empty names, list keys are leaves
                      found the same way by the three key lookups, in distinct fields;
                      t: typed leaves whose TypedValue decodes to the same value (tv_rtb; implied
                      by typing for every non-union type: tv_codec_simple), non-empty leaf-lists,
                      no container without a leaf, Go-map lists with distinct, printable and
                      re-parseable keys (keys_wfb), no NaN key, key leaves equal to the map key,
                      no `ordered-by user` list, no unkeyed list;
   prefix_okb pfx     no element of the prefix repeats a key name;
   gn_treeb_ord S t   as gn_treeb, and a struct may hold `ordered-by user` list fields (SList true).
                      For such a field (first alternative a0 of its path tag; the atomic
                      notification of the list is prefixed with path-of-the-struct ++ removelast a0),
                      ord_field_okb:
                      - compressed code (a0 = xs/x, two or more elements): DeleteNode of the prefix is
                        resolved inside the struct to "remove this ordered-map field" and to this
                        very field (find_field with the delete flag on removelast a0 gives
                        FMOrdPartial of the field): nothing else can be wiped;
                      - uncompressed code (a0 = x): the struct is the value of a container field
                        of its parent (not the root, not a list entry) and the list is the only
                        field it has set;
                      and the list itself, gn_olistb: non-empty; every entry a struct satisfying
                      the conditions of a Go-map entry (gn_node of the entry, hence no ordered list
                      inside an ordered list, which the renderer rejects; key leaves equal to the
                      key, key_matchb; keys printable and re-parseable, keys_wfb); keys pairwise
                      distinct in any order (keys_okb true); and each key value survives
                      ytypes.StringToType, which AppendNew uses (okeys_rtb: integer, string,
                      boolean, enumeration / identityref keys and single-type unions of those; not
                      decimal64, binary or multi-type unions). *)

(* nothing is rejected *)
Theorem c02_render_total : forall env fo ko, wf_envb env = true -> forall S t pfx,
  gn_treeb env fo ko S t = true -> prefix_okb pfx = true -> exists ns, to_notifs env ko pfx S t = Ok ns.
Proof. exact render_total. Qed.
Print Assumptions c02_render_total.

(* on EVERY tree (no guard, ordered lists included): the non-atomic notification carries exactly
   the plain leaves of the tree, in order, each path with the prefix stripped and each value as
   EncodeTypedValue gives it (mk_update); there is one atomic notification per `ordered-by user`
   list, prefixed with the path of the node containing the list, carrying its leaves in list
   order; the plain notification is dropped only when it is empty and an atomic one exists *)
Theorem c02_notifs_are_leaves : forall env ko pfx S t ns,
  to_notifs env ko pfx S t = Ok ns ->
  exists l gs us ats,
    leaves env ko false S t pfx = Ok l /\
    ordered_groups env ko false S t pfx = Ok gs /\
    Forall2 (fun pv u => mk_update env pfx pv = Ok u) l us /\
    Forall2 (fun g a => exists q, strip_prefix pfx (fst g) = Ok q /\ atomic_notif env (fst g) (snd g) = Ok a) gs ats /\
    let n := {| n_prefix := pfx; n_atomic := false; n_updates := us; n_deletes := [] |} in
    ns = match us, ats with [], _ :: _ => ats | _, _ => n :: ats end.
Proof. exact notifs_shape. Qed.
Print Assumptions c02_notifs_are_leaves.

(* inside the guard: one notification; its updates are the leaves (every path alternative of
   every leaf, a leaf-list as one value) with the prefix cut off and the value in closed form *)
Theorem c02_notifs_are_leaves_wf : forall env fo ko, wf_envb env = true -> forall S t pfx ns,
  gn_treeb env fo ko S t = true -> prefix_okb pfx = true ->
  to_notifs env ko pfx S t = Ok ns ->
  exists l, leaves env ko false S t pfx = Ok l /\
    ns = [{| n_prefix := pfx; n_atomic := false;
             n_updates := map (fun pv => (skipn (length pfx) (fst pv), enc_l env (snd pv))) l;
             n_deletes := [] |}] /\
    forall p v, In (p, v) l -> exists q, p = pfx ++ q /\ q <> [].
Proof. exact notifs_are_leaves. Qed.
Print Assumptions c02_notifs_are_leaves_wf.

(* the round trip: exact tree equality, for any PathElem prefix (taken off the notifications
   again before they are applied to the schema root).
   _partial: the guard gn_treeb excludes every `ordered-by user` list; c02_roundtrip_ordered below
   covers the ordered lists that are not wiped (OpenConfig shape). *)
Theorem c02_roundtrip_partial : forall env fo ko, wf_envb env = true -> forall S t pfx ns,
  gn_treeb env fo ko S t = true -> prefix_okb pfx = true ->
  to_notifs env ko pfx S t = Ok ns ->
  unmarshal_notifs env fo ko S rt_sropts (TCont []) (map (strip_notif pfx) ns) = (t, SROk).
Proof. exact roundtrip. Qed.
Print Assumptions c02_roundtrip_partial.

Theorem c02_roundtrip_noprefix_partial : forall env fo ko, wf_envb env = true -> forall S t ns,
  gn_treeb env fo ko S t = true -> to_notifs env ko [] S t = Ok ns ->
  unmarshal_notifs env fo ko S rt_sropts (TCont []) ns = (t, SROk).
Proof. exact roundtrip_noprefix. Qed.
Print Assumptions c02_roundtrip_noprefix_partial.

(* ---------- with `ordered-by user` lists ---------- *)

(* nothing is rejected *)
Theorem c02_render_total_ordered : forall env fo ko, wf_envb env = true -> forall S t pfx,
  gn_treeb_ord env fo ko S t = true -> prefix_okb pfx = true -> exists ns, to_notifs env ko pfx S t = Ok ns.
Proof. exact render_total_ord. Qed.
Print Assumptions c02_render_total_ordered.

(* the round trip: exact tree equality, the order of the entries of every ordered list included.
   What arrives is the plain notification (dropped when it is empty and an atomic one exists) and
   then one atomic notification per ordered list (c02_notifs_are_leaves); each of them deletes
   its prefix (inside the guard: a node that does not exist yet) and appends the entries in list
   order (AppendNew). *)
Theorem c02_roundtrip_ordered : forall env fo ko, wf_envb env = true -> forall S t pfx ns,
  gn_treeb_ord env fo ko S t = true -> prefix_okb pfx = true ->
  to_notifs env ko pfx S t = Ok ns ->
  unmarshal_notifs env fo ko S rt_sropts (TCont []) (map (strip_notif pfx) ns) = (t, SROk).
Proof. exact roundtrip_ord. Qed.
Print Assumptions c02_roundtrip_ordered.

(* the guard with ordered lists contains the guard without *)
Theorem c02_guard_extends : forall env fo ko S t,
  gn_treeb env fo ko S t = true -> gn_treeb_ord env fo ko S t = true.
Proof. exact gn_treeb_ord_extends. Qed.
Print Assumptions c02_guard_extends.

(* every non-union leaf type satisfies the scalar guard by typing alone *)
Theorem c02_scalar_guard_simple : forall env ko t v,
  wf_envb env = true -> leaf_typedb env t v = true -> tv_rtb env ko t v = true.
Proof. exact tv_codec_simple. Qed.
Print Assumptions c02_scalar_guard_simple.

(* ---------- the deviations that remain (the unguarded statement is false) ---------- *)

(* an `ordered-by user` list next to other data: the atomic notification is prefixed with the
   path of the node that contains the list; UnmarshalNotifications deletes that whole node
   before it applies the updates, and the sibling leaf is lost (the rebuilt tree has no leaf
   outside the ordered list any more) *)
Definition leaf_paths (r : result (list (dpath * lval))) : list dpath :=
  match r with Ok l => map fst l | _ => [] end.
Definition other_path : dpath := [mk_elem [111;114;100;115]; mk_elem [111;116;104;101;114]].   (* /ords/other *)
Theorem c02_refuted_atomic_wipes :
  exists ns t',
    to_notifs ex_env ex_ko [] ex_sch ex_tree_ord = Ok ns /\
    unmarshal_notifs ex_env ex_fo ex_ko ex_sch rt_sropts (TCont []) ns = (t', SROk) /\
    In other_path (leaf_paths (leaves ex_env ex_ko false ex_sch ex_tree_ord [])) /\
    ~ In other_path (leaf_paths (leaves ex_env ex_ko false ex_sch t' [])).
Proof.
  destruct (to_notifs ex_env ex_ko [] ex_sch ex_tree_ord) as [ns| |] eqn:En; try (vm_compute in En; discriminate).
  destruct (unmarshal_notifs ex_env ex_fo ex_ko ex_sch rt_sropts (TCont []) ns) as [t' r] eqn:Eu.
  exists ns, t'. vm_compute in En. injection En as <-. vm_compute in Eu. injection Eu as <- <-.
  repeat split.
  - vm_compute. auto.
  - vm_compute. intros [].
Qed.
Print Assumptions c02_refuted_atomic_wipes.

(* a tree that holds an unkeyed list is rejected as a whole *)
Theorem c02_refuted_unkeyed : to_notifs ex_env ex_ko [] ex_sch ex_tree_unk = Err.
Proof. vm_compute. reflexivity. Qed.
Print Assumptions c02_refuted_unkeyed.

(* ---------- non-vacuity ---------- *)

(* the example tree (every key kind incl. int64 / uint64 extremes, enumeration, identityref,
   decimal64 through the oracle tables, two unions, leafref, binary, boolean; a multi-key list;
   nested lists; an OpenConfig-style compressed list with `config/name|name`) is inside the guards *)
Example c02_guard_satisfiable :
  wf_envb ex_env = true /\ gn_treeb ex_env ex_fo ex_ko ex_sch ex_tree = true /\ prefix_okb ex_pfx = true.
Proof. repeat split; vm_compute; reflexivity. Qed.

(* and the model computes the round trip on it (65 updates under a keyed prefix) *)
Example c02_roundtrip_computes :
  match to_notifs ex_env ex_ko ex_pfx ex_sch ex_tree with
  | Ok ns => unmarshal_notifs ex_env ex_fo ex_ko ex_sch rt_sropts (TCont []) (map (strip_notif ex_pfx) ns) = (ex_tree, SROk)
             /\ (length (flat_map n_updates ns) =? 65)%nat = true
  | _ => False
  end.
Proof. vm_compute. split; reflexivity. Qed.

(* ordered lists in the OpenConfig shape, compressed code (acl-set[name]/entries/entry[seq], the
   entries out of key order): inside the guard of c02_roundtrip_ordered, under a keyed prefix too *)
Example c02_ordered_guard_satisfiable :
  gn_treeb_ord ex_env ex_fo ex_ko ex_sch ex_tree_ord_oc = true /\
  gn_treeb ex_env ex_fo ex_ko ex_sch ex_tree_ord_oc = false.
Proof. split; vm_compute; reflexivity. Qed.

Example c02_ordered_openconfig_shape :
  match to_notifs ex_env ex_ko [] ex_sch ex_tree_ord_oc with
  | Ok ns => unmarshal_notifs ex_env ex_fo ex_ko ex_sch rt_sropts (TCont []) ns = (ex_tree_ord_oc, SROk)
             /\ existsb n_atomic ns = true
  | _ => False
  end.
Proof. vm_compute. split; reflexivity. Qed.

(* two compressed ordered lists in two entries of a Go map, an ordered list alone in its
   (uncompressed) container `ords`, and plain leaves: 1 plain + 3 atomic notifications *)
Definition ex_tree_ord_mix : tree :=
  TCont [([65;99;108;83;101;116], TList [
            ([VStr [115;49]], TCont [([69;110;116;114;121], TList [
                 ([VInt U32 20%Z], TCont [([65;99;116;105;111;110], TLeaf (VEnum [69;95;67;111;108;111;114] 1%Z));
                                          ([83;101;113], TLeaf (VInt U32 20%Z))]);
                 ([VInt U32 10%Z], TCont [([83;101;113], TLeaf (VInt U32 10%Z))])]);
               ([78;97;109;101], TLeaf (VStr [115;49]))]);
            ([VStr [115;50]], TCont [([69;110;116;114;121], TList [
                 ([VInt U32 7%Z], TCont [([83;101;113], TLeaf (VInt U32 7%Z))])]);
               ([78;97;109;101], TLeaf (VStr [115;50]))])]);
         ([79;114;100;115], TCont [([76;79;114;100], TList [
            ([VStr [122]], TCont [([75], TLeaf (VStr [122]))]);
            ([VStr [97]], TCont [([75], TLeaf (VStr [97])); ([86], TLeaf (VStr [118;97]))])])]);
         ([84;111;112], TCont [([78;97;109;101], TLeaf (VStr [114;49]))])].

Example c02_ordered_mix_roundtrip :
  gn_treeb_ord ex_env ex_fo ex_ko ex_sch ex_tree_ord_mix = true /\
  match to_notifs ex_env ex_ko ex_pfx ex_sch ex_tree_ord_mix with
  | Ok ns => unmarshal_notifs ex_env ex_fo ex_ko ex_sch rt_sropts (TCont []) (map (strip_notif ex_pfx) ns)
               = (ex_tree_ord_mix, SROk)
             /\ (length ns =? 4)%nat = true
  | _ => False
  end.
Proof. split; [vm_compute; reflexivity|]. vm_compute. split; reflexivity. Qed.

(* the refuted shapes are outside the guard *)
Example c02_ordered_guard_excludes :
  gn_treeb_ord ex_env ex_fo ex_ko ex_sch ex_tree_ord = false /\
  gn_treeb_ord ex_env ex_fo ex_ko ex_sch ex_tree_unk = false.
Proof. split; vm_compute; reflexivity. Qed.
