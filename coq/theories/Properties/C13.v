(* C13 — UnmarshalSetRequest implements gNMI Set semantics.
   "Applying a SetRequest with UnmarshalSetRequest gives the same tree as the gNMI reference
   semantics on a path-to-value model.  The prefix is joined to every path, then all deletes
   apply, then each replace (delete the subtree, then write the payload), then each update
   (merge the payload), all in message order.  Atomic notifications passed to
   UnmarshalNotifications replace the subtree at their prefix."

   Model: Tree/SetReq.v (ytypes/gnmi.go) over Tree/Node.v (SetNode / DeleteNode), tied to the
   implementation by the setreq and nodeops streams.  Reference semantics: Tree/SetReqSpec.v.
   This file only restates results proved in Tree/SetReqProofs.v.

   1. structure   — the phases and their order, for any request, tree and options; errors
   2. notifications
   3. refinement  — leaves after a request = the declarative spec on the leaf map, derived from
                    the two per-operation statements about DeleteNode / SetNode (premises)
   3b. the premises discharged (Tree/LeavesBridgeProofs.v, LeavesPartsProofs.v, LeavesSetProofs.v,
                    LeavesDelProofs.v, SetReqBridgeProofs.v): the refinement, the histories and the
                    atomic notifications without premises, inside executable guards
   4. histories
   5. deviations  — witnesses *)
From Coq Require Import String Ascii Permutation.
From Ygot Require Import Tree.Tree Tree.Codec Tree.TreeOps Tree.Unmarshal Tree.KeyCodec Tree.Leaves
  Tree.Notif Tree.Node Tree.SetReq Tree.GnmiStatements Tree.SetReqSpec Tree.SetReqProofs Path.PathRel
  Properties.C01.
From Ygot Require Import Tree.GnmiRt Tree.NodeFrameProofs Tree.NodeProofs Tree.LeavesPartsProofs Tree.SetReqBridgeProofs Tree.NodeExamples.

(* ====================================================================================== *)
(* 1. Structure                                                                           *)
(* ====================================================================================== *)

(* The three loops are one loop over deletes ++ replaces ++ updates, each in message order, every
   path joined to the prefix by its step.  Unconditional: any options, any outcome, the tree
   included. *)
Theorem c13_setrequest_one_loop : forall env fo ko sch o t r,
  unmarshal_setrequest env fo ko sch o t r = run_ops env fo ko sch o (sr_prefix r) t (pending r) false.
Proof. exact setrequest_run_ops. Qed.
Print Assumptions c13_setrequest_one_loop.

(* Success is the left fold of the gNMI phases (the candidate statement of GnmiStatements.v) *)
Theorem c13_setrequest_is_fold : GnmiStatements.c13_setrequest_is_fold.
Proof. intros sch env fo ko t r t'. exact (setrequest_is_reference env fo ko sch no_opts t r t'). Qed.
Print Assumptions c13_setrequest_is_fold.

(* ... for every option set; with BestEffortUnmarshal, OK means that nothing failed *)
Theorem c13_setrequest_is_fold_opts : forall env fo ko sch o t r t',
  unmarshal_setrequest env fo ko sch o t r = (t', SROk) <-> reference_set_o env fo ko sch o t r = Ok t'.
Proof. exact setrequest_is_reference. Qed.
Print Assumptions c13_setrequest_is_fold_opts.

(* ... and literally List.fold_left of delete_node_st, (delete_node_st ; set_node_st), set_node_st
   over the joined paths *)
Theorem c13_setrequest_fold_left : forall env fo ko sch o t r t',
  unmarshal_setrequest env fo ko sch o t r = (t', SROk) ->
  t' = fold_left (upd_f env fo ko sch o) (map (jupd (sr_prefix r)) (sr_updates r))
         (fold_left (rep_f env fo ko sch o) (map (jupd (sr_prefix r)) (sr_replaces r))
           (fold_left (del_f env fo ko sch o) (map (jelems (sr_prefix r)) (sr_deletes r)) t))
  /\ joins_ok r.
Proof. exact setrequest_fold_left. Qed.
Print Assumptions c13_setrequest_fold_left.

(* Without BestEffortUnmarshal the first operation that is not OK ends the request; the tree is
   what the operations before it and the failing one itself left behind (no rollback) *)
Theorem c13_first_error_stops : forall env fo ko sch o t r ops1 op ops2 t1 t2 so,
  so_best_effort o = false -> pending r = ops1 ++ op :: ops2 ->
  run_strict env fo ko sch o (sr_prefix r) t ops1 = Some t1 ->
  step_op env fo ko sch o (sr_prefix r) t1 op = (t2, so) -> so <> StOk ->
  unmarshal_setrequest env fo ko sch o t r = (t2, out_of_step so).
Proof. exact setrequest_first_error_stops. Qed.
Print Assumptions c13_first_error_stops.

Theorem c13_error_is_first_failure : forall env fo ko sch o t r t' out,
  so_best_effort o = false -> unmarshal_setrequest env fo ko sch o t r = (t', out) -> out <> SROk ->
  exists ops1 op ops2 t1 so, pending r = ops1 ++ op :: ops2 /\
    run_strict env fo ko sch o (sr_prefix r) t ops1 = Some t1 /\
    step_op env fo ko sch o (sr_prefix r) t1 op = (t', so) /\ so <> StOk /\ out = out_of_step so.
Proof. exact setrequest_error_is_first_failure. Qed.
Print Assumptions c13_error_is_first_failure.

(* BestEffortUnmarshal: every operation is attempted, on the tree its predecessors left *)
Theorem c13_best_effort_tree : forall env fo ko sch o t r t' out,
  so_best_effort o = true -> joins_ok r ->
  unmarshal_setrequest env fo ko sch o t r = (t', out) ->
  out = SRPanic \/
  ((out = SROk \/ out = SRCompliance) /\ t' = attempt_all env fo ko sch o (sr_prefix r) t (pending r)).
Proof. exact setrequest_best_effort_attempts_all. Qed.
Print Assumptions c13_best_effort_tree.

Theorem c13_best_effort_attempts_all : GnmiStatements.c13_best_effort_attempts_all.
Proof.
  intros sch env fo ko t r t' out Hd Hu H.
  assert (Hj : joins_ok r) by (split; intros x Hin; apply join_paths_ok_or_err; auto).
  destruct (setrequest_best_effort_attempts_all env fo ko sch
              {| so_shadow := false; so_ignore_extra := false; so_best_effort := true |}
              t r t' out eq_refl Hj H) as [E|[[E|E] _]]; auto.
Qed.
Print Assumptions c13_best_effort_attempts_all.

(* ====================================================================================== *)
(* 2. Notifications                                                                       *)
(* ====================================================================================== *)

Theorem c13_notifs_are_requests : GnmiStatements.c13_notifs_are_requests.
Proof. intros sch env fo ko o t n ns t1 H. simpl. rewrite H. reflexivity. Qed.
Print Assumptions c13_notifs_are_requests.

(* the whole list: the requests req_of_notif, in order, stopping at the first that is not OK *)
Theorem c13_notifs_are_requests_fold : forall env fo ko sch o ns t,
  unmarshal_notifs env fo ko sch o t ns = run_requests env fo ko sch o t (map req_of_notif ns).
Proof. exact notifs_run_requests. Qed.
Print Assumptions c13_notifs_are_requests_fold.

(* the request of a notification: its deletes, then (atomic) DeleteNode at the prefix, then its updates *)
Theorem c13_notif_request : forall env fo ko sch o n t,
  reference_set_o env fo ko sch o t (req_of_notif n) =
  bind (fold_res (ref_delete env fo ko sch o (gp_of (n_prefix n))) (map gp_of (n_deletes n)) t) (fun t0 =>
  bind (if n_atomic n then delete_node env fo ko (so_shadow o) sch t0 (n_prefix n) else Ok t0) (fun t1 =>
    fold_res (ref_update env fo ko sch o (gp_of (n_prefix n)))
             (map (fun u => (gp_of (fst u), snd u)) (n_updates n)) t1)).
Proof. exact notif_request_reference. Qed.
Print Assumptions c13_notif_request.

(* an atomic notification first deletes the subtree at its prefix, then applies its updates *)
Theorem c13_atomic_replaces_prefix : forall env fo ko sch o n t t',
  n_atomic n = true -> n_deletes n = [] ->
  (unmarshal_notifs env fo ko sch o t [n] = (t', SROk) <->
   exists t1, delete_node_st env fo ko (so_shadow o) sch t (n_prefix n) = (t1, Ok tt) /\
              fold_res (ref_update env fo ko sch o (gp_of (n_prefix n)))
                       (map (fun u => (gp_of (fst u), snd u)) (n_updates n)) t1 = Ok t').
Proof. exact atomic_notif_deletes_prefix_first. Qed.
Print Assumptions c13_atomic_replaces_prefix.

(* ====================================================================================== *)
(* 3. Refinement of the declarative spec                                                  *)
(* ====================================================================================== *)

(* The spec itself: what it says pointwise (no model involved) *)
Theorem c13_spec_delete : forall sem m p q v,
  In (q, v) (spec_delete sem m p) <-> In (q, v) m /\ under (ps_alts sem p) q = false.
Proof. exact spec_delete_in. Qed.
Print Assumptions c13_spec_delete.

Theorem c13_spec_delete_plain : forall value m p,
  spec_delete (plain_sem value) m p = filter (fun q => negb (is_prefix p (fst q))) m.
Proof. exact plain_spec_delete. Qed.
Print Assumptions c13_spec_delete_plain.

Theorem c13_spec_update : forall sem m p x v q w, ps_value sem p x = Some v ->
  (In (q, w) (spec_update sem m p x) <->
   (In q (ps_alts sem p) /\ w = v) \/
   (under (ps_alts sem p) q = false /\
    (In (q, w) m \/ (In (q, w) (ps_keyleaves sem p) /\ has_path m q = false)))).
Proof. exact spec_update_in. Qed.
Print Assumptions c13_spec_update.

(* The refinement, by induction over the three operation lists.  Premises: the two per-operation
   statements (SetReqSpec.leaves_after_delete_stmt / leaves_after_set_leaf_stmt: after a
   successful DeleteNode / SetNode on a guarded target the leaves are those of spec_delete /
   spec_update, and the invariant is kept).  Everything else is quantified: the path semantics
   `sem`, the invariant, the guards. *)
Theorem c13_refines_scalar : forall env fo ko sch o sem Inv dguard sguard,
  let obs := fun t => leaves env ko (so_shadow o) sch t [] in
  leaves_after_delete_stmt env fo ko sch o sem obs Inv dguard ->
  leaves_after_set_leaf_stmt env fo ko sch o sem obs Inv sguard ->
  forall t r t' m,
    Inv t -> req_guard dguard sguard r -> obs t = Ok m ->
    unmarshal_setrequest env fo ko sch o t r = (t', SROk) ->
    Inv t' /\ exists m', obs t' = Ok m' /\ lm_equiv m' (spec_set sem m r).
Proof. intros env fo ko sch o sem Inv dguard sguard obs. exact (setrequest_refines_scalar env fo ko sch o sem obs Inv dguard sguard). Qed.
Print Assumptions c13_refines_scalar.

(* the same for any observation of the tree (e.g. one that also lists ordered-list leaves) *)
Theorem c13_refines_scalar_obs : forall env fo ko sch o sem obs Inv dguard sguard,
  leaves_after_delete_stmt env fo ko sch o sem obs Inv dguard ->
  leaves_after_set_leaf_stmt env fo ko sch o sem obs Inv sguard ->
  forall t r t' m,
    Inv t -> req_guard dguard sguard r -> obs t = Ok m ->
    unmarshal_setrequest env fo ko sch o t r = (t', SROk) ->
    Inv t' /\ exists m', obs t' = Ok m' /\ lm_equiv m' (spec_set sem m r).
Proof. exact setrequest_refines_scalar. Qed.
Print Assumptions c13_refines_scalar_obs.

(* The instance the Node-level lemmas are to discharge: the path semantics of the schema
   (SetReqSpec.schema_sem: all path alternatives of a field, key leaves of created entries,
   payload decoded at the leaf's type), trees that are tree_ok, delete targets that are not key
   leaves, update targets that are non-key leaves / leaf-lists with a payload of their type.
   c13_ex_* below evaluate it on an example; the streams' case files evaluate it on generated
   inputs. *)
Definition c13_inv env fo ko sch (t : tree) : Prop :=
  schema_ok sch /\ enum_env_ok env = true /\ tree_ok env fo ko loose_guard sch t = true.
Definition c13_delete_premise env fo ko sch : Prop :=
  leaves_after_delete_stmt env fo ko sch no_opts (schema_sem env fo ko sch)
    (fun t => leaves env ko false sch t []) (c13_inv env fo ko sch)
    (fun p => delete_guardb env fo ko sch p = true).
Definition c13_set_premise env fo ko sch : Prop :=
  leaves_after_set_leaf_stmt env fo ko sch no_opts (schema_sem env fo ko sch)
    (fun t => leaves env ko false sch t []) (c13_inv env fo ko sch)
    (fun p x => update_guardb env fo ko sch p x = true).

Theorem c13_refines_scalar_schema : forall env fo ko sch,
  c13_delete_premise env fo ko sch -> c13_set_premise env fo ko sch ->
  forall t r t' m,
    c13_inv env fo ko sch t ->
    req_guard (fun p => delete_guardb env fo ko sch p = true)
              (fun p x => update_guardb env fo ko sch p x = true) r ->
    leaves env ko false sch t [] = Ok m ->
    unmarshal_setrequest env fo ko sch no_opts t r = (t', SROk) ->
    c13_inv env fo ko sch t' /\
    exists m', leaves env ko false sch t' [] = Ok m' /\ lm_equiv m' (spec_set (schema_sem env fo ko sch) m r).
Proof.
  intros env fo ko sch Hd Hs.
  exact (setrequest_refines_scalar env fo ko sch no_opts _ _ _ _ _ Hd Hs).
Qed.
Print Assumptions c13_refines_scalar_schema.

(* atomic notifications at the level of leaves (the shape of GnmiStatements.c13_atomic_replaces_prefix):
   below the prefix only what the updates name remains *)
Theorem c13_atomic_leaves : forall env fo ko sch o sem obs Inv dguard sguard,
  leaves_after_delete_stmt env fo ko sch o sem obs Inv dguard ->
  leaves_after_set_leaf_stmt env fo ko sch o sem obs Inv sguard ->
  forall n t t' m l',
    n_atomic n = true -> n_deletes n = [] ->
    Inv t -> req_guard dguard sguard (req_of_notif n) -> obs t = Ok m ->
    unmarshal_notifs env fo ko sch o t [n] = (t', SROk) -> obs t' = Ok l' ->
    forall q w, In (q, w) l' -> under (ps_alts sem (n_prefix n)) q = true ->
      exists u, In u (n_updates n) /\
        (In q (ps_alts sem (n_prefix n ++ fst u)) \/ In (q, w) (ps_keyleaves sem (n_prefix n ++ fst u))).
Proof. exact atomic_notif_leaves. Qed.
Print Assumptions c13_atomic_leaves.

(* ====================================================================================== *)
(* 3b. The premises discharged                                                            *)
(* ====================================================================================== *)

(* The two premises hold for the invariant SetReqBridgeProofs.c13_inv2:
     c13_schemab sch = true  — the schema guard: GnmiRt.gn_schemab (the path alternatives of the
        fields of a struct are pairwise incomparable and hold no empty name; list keys are found
        consistently by the three key lookups), NodeFrameProofs.swfb, and every field that is not a
        leaf or leaf-list has exactly one path (LeavesPartsProofs.single_pathb);
     root_ok env fo ko sch t — the tree guard of C10 / C12: a container root, fields in struct
        order, kinds match the schema, list entries carry key leaves equal to their map key, every
        key is read back from its own string, Go-map entries in canonical order.
   Both are executable (c13_inv2b) and preserved by every guarded operation.  The path guards are
   the ones of SetReqSpec, unchanged.  With c13_inv (tree_ok) in the place of c13_inv2 the premises
   are false on the model: c13_set_premise_refuted / c13_delete_premise_refuted below. *)
Definition c13_delete_premise2 env fo ko sch : Prop :=
  leaves_after_delete_stmt env fo ko sch no_opts (schema_sem env fo ko sch)
    (fun t => leaves env ko false sch t []) (c13_inv2 env fo ko sch)
    (fun p => delete_guardb env fo ko sch p = true).
Definition c13_set_premise2 env fo ko sch : Prop :=
  leaves_after_set_leaf_stmt env fo ko sch no_opts (schema_sem env fo ko sch)
    (fun t => leaves env ko false sch t []) (c13_inv2 env fo ko sch)
    (fun p x => update_guardb env fo ko sch p x = true).

Theorem c13_delete_premise_holds : forall env fo ko sch, c13_delete_premise2 env fo ko sch.
Proof. exact leaves_after_delete_holds. Qed.
Print Assumptions c13_delete_premise_holds.

Theorem c13_set_premise_holds : forall env fo ko sch, c13_set_premise2 env fo ko sch.
Proof. exact leaves_after_set_holds. Qed.
Print Assumptions c13_set_premise_holds.

(* the invariant and the guards of a request are decided by boolean functions *)
Theorem c13_inv2_decided : forall env fo ko sch t, c13_inv2b env fo ko sch t = true -> c13_inv2 env fo ko sch t.
Proof. exact c13_inv2b_sound. Qed.
Print Assumptions c13_inv2_decided.

Theorem c13_req_guard_decided : forall env fo ko sch r, req_guardb env fo ko sch r = true ->
  req_guard (fun p => delete_guardb env fo ko sch p = true) (fun p x => update_guardb env fo ko sch p x = true) r.
Proof. exact req_guardb_sound. Qed.
Print Assumptions c13_req_guard_decided.

(* the refinement without premises: a guarded request on a guarded tree leaves exactly the leaves
   of the gNMI reference semantics, and the result is a guarded tree again *)
Theorem c13_refines_unconditional : forall env fo ko sch t r t' m,
  c13_inv2 env fo ko sch t ->
  req_guard (fun p => delete_guardb env fo ko sch p = true)
            (fun p x => update_guardb env fo ko sch p x = true) r ->
  leaves env ko false sch t [] = Ok m ->
  unmarshal_setrequest env fo ko sch no_opts t r = (t', SROk) ->
  c13_inv2 env fo ko sch t' /\
  exists m', leaves env ko false sch t' [] = Ok m' /\ lm_equiv m' (spec_set (schema_sem env fo ko sch) m r).
Proof. exact setrequest_refines_bridge. Qed.
Print Assumptions c13_refines_unconditional.

Theorem c13_history_unconditional : forall env fo ko sch rs t t' m,
  c13_inv2 env fo ko sch t ->
  (forall r, In r rs -> req_guard (fun p => delete_guardb env fo ko sch p = true)
                                  (fun p x => update_guardb env fo ko sch p x = true) r) ->
  leaves env ko false sch t [] = Ok m ->
  run_requests env fo ko sch no_opts t rs = (t', SROk) ->
  c13_inv2 env fo ko sch t' /\
  exists m', leaves env ko false sch t' [] = Ok m' /\ lm_equiv m' (spec_history (schema_sem env fo ko sch) m rs).
Proof. exact history_refines_bridge. Qed.
Print Assumptions c13_history_unconditional.

Theorem c13_history_notifs_unconditional : forall env fo ko sch ns t t' m,
  c13_inv2 env fo ko sch t ->
  (forall n, In n ns -> req_guard (fun p => delete_guardb env fo ko sch p = true)
                                  (fun p x => update_guardb env fo ko sch p x = true) (req_of_notif n)) ->
  leaves env ko false sch t [] = Ok m ->
  unmarshal_notifs env fo ko sch no_opts t ns = (t', SROk) ->
  c13_inv2 env fo ko sch t' /\
  exists m', leaves env ko false sch t' [] = Ok m' /\
             lm_equiv m' (spec_history (schema_sem env fo ko sch) m (map req_of_notif ns)).
Proof. exact notifs_refine_bridge. Qed.
Print Assumptions c13_history_notifs_unconditional.

Theorem c13_atomic_leaves_unconditional : forall env fo ko sch n t t' m l',
  n_atomic n = true -> n_deletes n = [] ->
  c13_inv2 env fo ko sch t ->
  req_guard (fun p => delete_guardb env fo ko sch p = true)
            (fun p x => update_guardb env fo ko sch p x = true) (req_of_notif n) ->
  leaves env ko false sch t [] = Ok m ->
  unmarshal_notifs env fo ko sch no_opts t [n] = (t', SROk) -> leaves env ko false sch t' [] = Ok l' ->
  forall q w, In (q, w) l' -> under (ps_alts (schema_sem env fo ko sch) (n_prefix n)) q = true ->
    exists u, In u (n_updates n) /\
      (In q (ps_alts (schema_sem env fo ko sch) (n_prefix n ++ fst u)) \/
       In (q, w) (ps_keyleaves (schema_sem env fo ko sch) (n_prefix n ++ fst u))).
Proof. exact atomic_notif_leaves_bridge. Qed.
Print Assumptions c13_atomic_leaves_unconditional.

(* ====================================================================================== *)
(* 4. Histories                                                                           *)
(* ====================================================================================== *)

Theorem c13_history : forall env fo ko sch o sem obs Inv dguard sguard,
  leaves_after_delete_stmt env fo ko sch o sem obs Inv dguard ->
  leaves_after_set_leaf_stmt env fo ko sch o sem obs Inv sguard ->
  forall rs t t' m,
    Inv t -> (forall r, In r rs -> req_guard dguard sguard r) -> obs t = Ok m ->
    run_requests env fo ko sch o t rs = (t', SROk) ->
    Inv t' /\ exists m', obs t' = Ok m' /\ lm_equiv m' (spec_history sem m rs).
Proof. exact history_refines. Qed.
Print Assumptions c13_history.

Theorem c13_history_notifs : forall env fo ko sch o sem obs Inv dguard sguard,
  leaves_after_delete_stmt env fo ko sch o sem obs Inv dguard ->
  leaves_after_set_leaf_stmt env fo ko sch o sem obs Inv sguard ->
  forall ns t t' m,
    Inv t -> (forall n, In n ns -> req_guard dguard sguard (req_of_notif n)) -> obs t = Ok m ->
    unmarshal_notifs env fo ko sch o t ns = (t', SROk) ->
    Inv t' /\ exists m', obs t' = Ok m' /\ lm_equiv m' (spec_history sem m (map req_of_notif ns)).
Proof. exact notifs_refine. Qed.
Print Assumptions c13_history_notifs.

(* the operational history, unconditionally: OK iff the fold of the per-request reference is *)
Theorem c13_history_is_fold : forall env fo ko sch o rs t t',
  run_requests env fo ko sch o t rs = (t', SROk) <-> fold_res (reference_set_o env fo ko sch o) rs t = Ok t'.
Proof. exact run_requests_ok. Qed.
Print Assumptions c13_history_is_fold.

(* ====================================================================================== *)
(* Examples and witnesses                                                                 *)
(* ====================================================================================== *)

(* compressed-style code: a list "ifs/if" keyed by a uint8 (key leaf "config/id|id"), an ordered
   list nested in it, a leaf-list, an `empty` leaf, a list keyed by a decimal64 *)
Definition c13_env : enum_env := [].
Definition c13_nan : N := 9221120237041090561.
Definition c13_fo : float_oracle :=
  mk_float_oracle [(4602678819172646912, S_ "0.5")] [(S_ "0.5", 4602678819172646912); (S_ "NaN", c13_nan)].
Definition c13_ko : key_oracle := mk_key_oracle [(4602678819172646912, S_ "0.5")] [] true.
Definition c13_sch : schema :=
  SCont [
    (fld1 "Sys" "system", SCont [
       (fld1 "Host" "hostname", SLeaf (YStr [] 0) []);
       (fld1 "Mtu" "mtu", SLeaf (YInt U16 []) []);
       (fld1 "Tags" "tag", SLeafList (YStr [] 0) 0 0);
       (fld1 "Flag" "flag", SLeaf YEmpty [])]);
    (fld "If" [["ifs"; "if"]]%string [["m"; "m"]]%string [] [] false,
       SList false [S_ "id"] 0 0 [
         (fld "Id" [["config"; "id"]; ["id"]]%string [["m"; "m"]; ["m"]]%string [] [] false, SLeaf (YInt U8 []) []);
         (fld "Descr" [["config"; "descr"]]%string [["m"; "m"]]%string [] [] false, SLeaf (YStr [] 0) []);
         (fld "Speed" [["config"; "speed"]]%string [["m"; "m"]]%string [] [] false, SLeaf (YInt U32 []) []);
         (fld "Rule" [["rules"; "rule"]]%string [["m"; "m"]]%string [] [] false,
            SList true [S_ "seq"] 0 0 [
              (fld1 "Seq" "seq", SLeaf (YInt U32 []) []);
              (fld1 "Act" "act", SLeaf (YStr [] 0) [])])]);
    (fld "Pt" [["pts"; "pt"]]%string [["m"; "m"]]%string [] [] false,
       SList false [S_ "x"] 0 0 [
         (fld1 "X" "x", SLeaf (YDec 2) []);
         (fld1 "V" "v", SLeaf (YStr [] 0) [])])].

Definition c13_t0 : tree :=
  TCont [(S_ "Sys", TCont [(S_ "Host", TLeaf (VStr (S_ "r1"))); (S_ "Mtu", TLeaf (VInt U16 1500))]);
         (S_ "If", TList [([VInt U8 1],
            TCont [(S_ "Id", TLeaf (VInt U8 1)); (S_ "Descr", TLeaf (VStr (S_ "up")));
                   (S_ "Speed", TLeaf (VInt U32 100));
                   (S_ "Rule", TList [([VInt U32 10],
                      TCont [(S_ "Seq", TLeaf (VInt U32 10)); (S_ "Act", TLeaf (VStr (S_ "permit")))])])])])].

Definition c13_e (n : string) (ks : list (string * string)) : pelem :=
  {| ename := S_ n; ekeys := map (fun kv => (S_ (fst kv), S_ (snd kv))) ks |}.
Definition c13_if (id leaf : string) : gp :=
  gp_of [c13_e "ifs" []; c13_e "if" [("id", id)]; c13_e "config" []; c13_e leaf []]%string.
Definition c13_sys (leaf : string) : gp := gp_of [c13_e "system" []; c13_e leaf []]%string.
Definition c13_updates (us : list (gp * tval)) : sreq :=
  {| sr_prefix := empty_gp; sr_deletes := []; sr_replaces := []; sr_updates := us |}.
Definition c13_best : sr_opts := {| so_shadow := false; so_ignore_extra := false; so_best_effort := true |}.

Definition c13_lv (t : tree) : result lmap := leaves c13_env c13_ko false c13_sch t [].
Definition c13_sem : path_sem := schema_sem c13_env c13_fo c13_ko c13_sch.
Definition c13_run (o : sr_opts) (t : tree) (r : sreq) : tree * sr_out :=
  unmarshal_setrequest c13_env c13_fo c13_ko c13_sch o t r.

(* one delete, one replace, three updates: an existing leaf, a leaf of an entry that does not
   exist yet (its key leaves config/id and id appear), a leaf-list *)
Definition c13_req : sreq :=
  {| sr_prefix := empty_gp;
     sr_deletes := [c13_sys "mtu"];
     sr_replaces := [(c13_if "1" "descr", TVString (S_ "wan"))];
     sr_updates := [(c13_sys "hostname", TVString (S_ "r2"));
                    (c13_if "2" "descr", TVString (S_ "lan"));
                    (c13_sys "tag", TVLeafList [TVString (S_ "a"); TVString (S_ "b")])] |}.

Example c13_ex_inputs_ok :
  wf_schema 10 c13_sch = true /\ tree_ok c13_env c13_fo c13_ko loose_guard c13_sch c13_t0 = true
  /\ forallb (fun p => delete_guardb c13_env c13_fo c13_ko c13_sch (jelems (sr_prefix c13_req) p)) (sr_deletes c13_req) = true
  /\ forallb (fun u => delete_guardb c13_env c13_fo c13_ko c13_sch (jelems (sr_prefix c13_req) (fst u))) (sr_replaces c13_req) = true
  /\ forallb (fun u => update_guardb c13_env c13_fo c13_ko c13_sch (jelems (sr_prefix c13_req) (fst u)) (snd u))
             (sr_replaces c13_req ++ sr_updates c13_req) = true.
Proof. vm_compute. repeat split; reflexivity. Qed.

(* the conclusion of c13_refines_scalar_schema on the example: same leaves as the spec *)
Example c13_ex_refines : exists t' m m',
  c13_run no_opts c13_t0 c13_req = (t', SROk) /\ c13_lv c13_t0 = Ok m /\ c13_lv t' = Ok m'
  /\ tree_ok c13_env c13_fo c13_ko loose_guard c13_sch t' = true
  /\ length m = 6%nat /\ length m' = 9%nat
  /\ lm_equiv m' (spec_set c13_sem m c13_req).
Proof.
  eexists. eexists. eexists.
  split; [vm_compute; reflexivity|]. split; [vm_compute; reflexivity|]. split; [vm_compute; reflexivity|].
  split; [vm_compute; reflexivity|]. split; [vm_compute; reflexivity|]. split; [vm_compute; reflexivity|].
  intros q v. vm_compute. tauto.
Qed.

(* and it is the fold of section 1 *)
Example c13_ex_fold :
  fst (c13_run no_opts c13_t0 c13_req) = fold_set c13_env c13_fo c13_ko c13_sch no_opts c13_t0 c13_req.
Proof. vm_compute. reflexivity. Qed.

(* ---------- no rollback ---------- *)
(* two updates, the second with a payload of the wrong type: the first one stays *)
Definition c13_req_fail : sreq :=
  c13_updates [(c13_sys "tag", TVLeafList [TVString (S_ "a")]); (c13_sys "mtu", TVString (S_ "x"))].

Theorem c13_no_rollback : GnmiStatements.c13_no_rollback.
Proof.
  exists c13_sch, c13_env, c13_fo, c13_ko, c13_t0, c13_req_fail.
  eexists. eexists. eexists.
  split; [vm_compute; reflexivity|]. split; [vm_compute; reflexivity|]. split; [vm_compute; reflexivity|].
  intros P. apply Permutation_length in P. vm_compute in P. discriminate P.
Qed.
Print Assumptions c13_no_rollback.

(* with BestEffortUnmarshal the same request reports ComplianceErrors and has applied both *)
Example c13_ex_best_effort : exists t',
  c13_run c13_best c13_t0 c13_req_fail = (t', SRCompliance)
  /\ t' = attempt_all c13_env c13_fo c13_ko c13_sch c13_best empty_gp c13_t0 (pending c13_req_fail)
  /\ t' = fst (c13_run no_opts c13_t0 c13_req_fail).
Proof. eexists. split; [vm_compute; reflexivity|]. split; vm_compute; reflexivity. Qed.

(* ---------- BestEffortUnmarshal can panic: a decimal64 list key that parses to NaN ---------- *)
Definition c13_req_nan : sreq :=
  c13_updates [(gp_of [c13_e "pts" []; c13_e "pt" [("x", "NaN")]; c13_e "v" []]%string, TVString (S_ "x"))].
Theorem c13_refuted_best_effort_panic : GnmiStatements.c13_refuted_best_effort_panic.
Proof.
  exists c13_sch, c13_env, c13_fo, c13_ko, c13_t0, c13_req_nan. eexists. vm_compute. reflexivity.
Qed.
Print Assumptions c13_refuted_best_effort_panic.

(* ---------- JSON payloads: the C31 limitation ---------- *)
(* updating (merging into) a list entry with JSON that names an existing entry of its ordered
   list is an error; on an entry without it, or as a replace (which deletes the entry first),
   the same payload is accepted *)
Definition c13_json_rule : json :=
  JObj [(S_ "rules", JObj [(S_ "rule", JArr [JObj [(S_ "act", JStr (S_ "deny")); (S_ "seq", JNum 10 0)]])])].
Definition c13_entry (id : string) : gp := gp_of [c13_e "ifs" []; c13_e "if" [("id", id)]]%string.
Theorem c13_refuted_ordered_list_merge :
  snd (c13_run no_opts c13_t0 (c13_updates [(c13_entry "1", TVJsonIetf c13_json_rule)])) = SRErr
  /\ snd (c13_run no_opts c13_t0 (c13_updates [(c13_entry "2", TVJsonIetf c13_json_rule)])) = SROk
  /\ snd (c13_run no_opts c13_t0
            {| sr_prefix := empty_gp; sr_deletes := [];
               sr_replaces := [(c13_entry "1", TVJsonIetf c13_json_rule)]; sr_updates := [] |}) = SROk.
Proof. vm_compute. repeat split; reflexivity. Qed.
Print Assumptions c13_refuted_ordered_list_merge.

(* ---------- values gNMI allows that are rejected ---------- *)
(* an empty leaf-list payload is an error ("got empty leaf list"); an `empty` leaf takes bool_val true *)
Theorem c13_refuted_empty_leaflist :
  snd (c13_run no_opts c13_t0 (c13_updates [(c13_sys "tag", TVLeafList [])])) = SRErr.
Proof. vm_compute. reflexivity. Qed.
Print Assumptions c13_refuted_empty_leaflist.

(* ---------- a key string that is not the canonical one ---------- *)
(* The path names entry 1 as [id=01].  No entry prints "01", so retrieveNodeList finds no match and
   insertAndGetKey is asked for the parsed key 1; the map holds that key already, so the existing
   entry is kept and the update acts on it: the result is the one of the request that spells the
   key canonically, and every other leaf of the entry (here config/speed and the ordered list) is
   still there.  (Before the repair of insertAndGetKey a new entry was stored over the existing
   one.)  The schema guard of c13_refines_scalar_schema still excludes such paths (update_guardb
   is false): GetNode / DeleteNode do not find the entry under that spelling. *)
Definition c13_req_noncanon : sreq := c13_updates [(c13_if "01" "descr", TVString (S_ "x"))].
Definition c13_req_canon : sreq := c13_updates [(c13_if "1" "descr", TVString (S_ "x"))].
Theorem c13_noncanonical_key_keeps_entry : exists t' m m' speed descr,
  c13_run no_opts c13_t0 c13_req_noncanon = (t', SROk) /\ c13_lv c13_t0 = Ok m /\ c13_lv t' = Ok m'
  /\ c13_run no_opts c13_t0 c13_req_canon = (t', SROk)
  /\ speed = elems (c13_if "1" "speed") /\ descr = elems (c13_if "1" "descr")
  /\ In (speed, LV (VInt U32 100)) m /\ In (speed, LV (VInt U32 100)) m'
  /\ In (descr, LV (VStr (S_ "x"))) m'
  /\ (forall q v, In (q, v) m -> q <> descr -> In (q, v) m')
  /\ update_guardb c13_env c13_fo c13_ko c13_sch (elems (c13_if "01" "descr")) (TVString (S_ "x")) = false
  /\ update_guardb c13_env c13_fo c13_ko c13_sch (elems (c13_if "1" "descr")) (TVString (S_ "x")) = true.
Proof.
  eexists. eexists. eexists. eexists. eexists.
  split; [vm_compute; reflexivity|]. split; [vm_compute; reflexivity|]. split; [vm_compute; reflexivity|].
  split; [vm_compute; reflexivity|].
  split; [reflexivity|]. split; [reflexivity|].
  split; [vm_compute; tauto|]. split; [vm_compute; tauto|]. split; [vm_compute; tauto|].
  split; [|split; vm_compute; reflexivity].
  intros q v Hin Hne. vm_compute in Hin. vm_compute in Hne. vm_compute.
  repeat (destruct Hin as [Hin|Hin]; [injection Hin as <- <-; tauto|]). destruct Hin.
Qed.
Print Assumptions c13_noncanonical_key_keeps_entry.

(* ---------- atomic notification ---------- *)
Definition c13_notif : notif :=
  {| n_prefix := [c13_e "ifs" []; c13_e "if" [("id", "1")]]%string; n_atomic := true;
     n_updates := [([c13_e "config" []; c13_e "descr" []]%string, TVString (S_ "new"))]; n_deletes := [] |}.
(* the entry is deleted first: afterwards it holds its key leaves and the update, nothing else *)
Example c13_ex_atomic : exists t' m',
  unmarshal_notifs c13_env c13_fo c13_ko c13_sch no_opts c13_t0 [c13_notif] = (t', SROk)
  /\ c13_lv t' = Ok m' /\ length (filter (fun e => is_prefix (n_prefix c13_notif) (fst e)) m') = 3%nat
  /\ forall m, c13_lv c13_t0 = Ok m -> lm_equiv m' (spec_set c13_sem m (req_of_notif c13_notif)).
Proof.
  eexists. eexists. split; [vm_compute; reflexivity|]. split; [vm_compute; reflexivity|].
  split; [vm_compute; reflexivity|].
  intros m Hm. vm_compute in Hm. inversion Hm; subst m. intros q v. vm_compute. tauto.
Qed.

(* ---------- the unconditional refinement on the example ---------- *)
(* the guards hold on c13_t0 / c13_req (one delete, one replace, three updates, one of them creating
   the entry if[id=2] with its key leaves config/id and id) ... *)
Example c13_ex_guards :
  c13_inv2b c13_env c13_fo c13_ko c13_sch c13_t0 = true /\ req_guardb c13_env c13_fo c13_ko c13_sch c13_req = true.
Proof. vm_compute. split; reflexivity. Qed.

(* ... so c13_refines_unconditional applies: the leaves are those of the spec, the new tree is
   guarded again; the key leaves of the created entry are among them *)
Example c13_ex_unconditional : exists t' m m',
  c13_run no_opts c13_t0 c13_req = (t', SROk) /\ c13_lv c13_t0 = Ok m /\ c13_lv t' = Ok m'
  /\ c13_inv2 c13_env c13_fo c13_ko c13_sch t'
  /\ lm_equiv m' (spec_set c13_sem m c13_req)
  /\ In (elems (c13_if "2" "id"), LV (VInt U8 2)) m' /\ ~ In (elems (c13_if "2" "id")) (map fst m).
Proof.
  destruct c13_ex_guards as [Hi Hg].
  destruct (c13_run no_opts c13_t0 c13_req) as [t' out] eqn:Er.
  assert (Eo : out = SROk) by (vm_compute in Er; now injection Er as _ <-).
  subst out. exists t'.
  assert (Hm : exists m, c13_lv c13_t0 = Ok m) by (vm_compute; eauto). destruct Hm as (m & Hm). exists m.
  destruct (c13_refines_unconditional c13_env c13_fo c13_ko c13_sch c13_t0 c13_req t' m
              (c13_inv2_decided _ _ _ _ _ Hi) (c13_req_guard_decided _ _ _ _ _ Hg) Hm Er) as (Hi' & m' & Hm' & He).
  exists m'. split; [reflexivity|]. split; [exact Hm|]. split; [exact Hm'|]. split; [exact Hi'|]. split; [exact He|].
  vm_compute in Er. injection Er as <-. vm_compute in Hm. injection Hm as <-. vm_compute in Hm'. injection Hm' as <-.
  split; [vm_compute; tauto|]. vm_compute. intros H. repeat (destruct H as [H|H]; [discriminate H|]). exact H.
Qed.

(* ---------- the same on the schema and tree of Tree/NodeExamples.v (the examples of C10 / C12) ---------- *)
(* one delete, one replace, three updates that create list entries: interface eth9 (single string
   key), subinterface 7 below the existing eth0 (nested list, uint32 key), acl (a2, ACL_IPV6)
   (two keys, one an identityref; the keys of the path element in name order) *)
Definition c13_acl2 : dpath :=
  [el "acls"; elk "acl" [("name", "a2"); ("type", "ACL_IPV6")]; el "config"; el "description"]%string.
Definition c13_node_req : sreq :=
  {| sr_prefix := empty_gp;
     sr_deletes := [gp_of p_hostname];
     sr_replaces := [(gp_of (p_mtu "eth0"), TVUint 1400)];
     sr_updates := [(gp_of (p_mtu "eth9"), TVUint 9100);
                    (gp_of (p_subdescr "eth0" "7"), TVString (s_ "sub"));
                    (gp_of c13_acl2, TVString (s_ "second"))] |}.

Example c13_ex_node_guards :
  c13_inv2b ex_env ex_fo ex_ko ex_schema ex_tree = true /\ req_guardb ex_env ex_fo ex_ko ex_schema c13_node_req = true.
Proof. vm_compute. split; reflexivity. Qed.

Example c13_ex_node_unconditional : exists t' m m',
  unmarshal_setrequest ex_env ex_fo ex_ko ex_schema no_opts ex_tree c13_node_req = (t', SROk)
  /\ leaves ex_env ex_ko false ex_schema ex_tree [] = Ok m /\ leaves ex_env ex_ko false ex_schema t' [] = Ok m'
  /\ c13_inv2 ex_env ex_fo ex_ko ex_schema t'
  /\ lm_equiv m' (spec_set (schema_sem ex_env ex_fo ex_ko ex_schema) m c13_node_req)
  /\ length m = 15%nat /\ length m' = 25%nat.
Proof.
  destruct c13_ex_node_guards as [Hi Hg].
  destruct (unmarshal_setrequest ex_env ex_fo ex_ko ex_schema no_opts ex_tree c13_node_req) as [t' out] eqn:Er.
  assert (Eo : out = SROk) by (vm_compute in Er; now injection Er as _ <-).
  subst out. exists t'.
  assert (Hm : exists m, leaves ex_env ex_ko false ex_schema ex_tree [] = Ok m) by (vm_compute; eauto).
  destruct Hm as (m & Hm). exists m.
  destruct (c13_refines_unconditional ex_env ex_fo ex_ko ex_schema ex_tree c13_node_req t' m
              (c13_inv2_decided _ _ _ _ _ Hi) (c13_req_guard_decided _ _ _ _ _ Hg) Hm Er) as (Hi' & m' & Hm' & He).
  exists m'. split; [reflexivity|]. split; [exact Hm|]. split; [exact Hm'|]. split; [exact Hi'|]. split; [exact He|].
  vm_compute in Er. injection Er as <-. vm_compute in Hm. injection Hm as <-. vm_compute in Hm'. injection Hm' as <-.
  split; reflexivity.
Qed.

(* ---------- the premises with c13_inv (tree_ok) in the place of c13_inv2 are false on the model ---------- *)
(* (a) SetNode does not preserve tree_ok: a decimal64 payload that the float tables of the oracle
   do not list (here 0.25) is stored, but it is not a value tree_ok accepts (float_key_ok: the
   tables must read it back).  An artefact of the finite oracle tables, not of ygot. *)
Definition c13_dec_sch : schema := SCont [(fld1 "D" "d", SLeaf (YDec 2) [])].
Theorem c13_set_premise_refuted : ~ c13_set_premise c13_env c13_fo c13_ko c13_dec_sch.
Proof.
  intros H.
  destruct (H (TCont []) [c13_e "d" []] (TVDouble 4598175219545276416)
              (TCont [(S_ "D", TLeaf (VDec 4598175219545276416))]) []) as [(_ & _ & Hok) _].
  - split; [exists 5%nat; reflexivity|]. split; reflexivity.
  - vm_compute. reflexivity.
  - vm_compute. reflexivity.
  - vm_compute. reflexivity.
  - vm_compute in Hok. discriminate Hok.
Qed.
Print Assumptions c13_set_premise_refuted.

(* (b) tree_ok does not fix the order of the entries of a Go map in the model (the harness prints
   them sorted; tl_insert relies on it): on a list whose entries are not in canonical order the
   update of entry 1 is stored as a second entry 1, the deleted leaf is still reported.  An
   artefact of the representation of Go maps as sorted lists, excluded by root_ok. *)
Definition c13_unsorted : tree :=
  TCont [(S_ "If", TList [([VInt U8 3], TCont [(S_ "Id", TLeaf (VInt U8 3)); (S_ "Descr", TLeaf (VStr (S_ "c")))]);
                          ([VInt U8 1], TCont [(S_ "Id", TLeaf (VInt U8 1)); (S_ "Descr", TLeaf (VStr (S_ "a")))])])].
Theorem c13_delete_premise_refuted : ~ c13_delete_premise c13_env c13_fo c13_ko c13_sch.
Proof.
  intros H.
  destruct (delete_node_st c13_env c13_fo c13_ko false c13_sch c13_unsorted (elems (c13_if "1" "descr"))) as [t' r] eqn:Ed.
  assert (Hr : r = Ok tt) by (vm_compute in Ed; now injection Ed as _ <-). subst r.
  assert (Hm : exists m, leaves c13_env c13_ko false c13_sch c13_unsorted [] = Ok m) by (vm_compute; eauto).
  destruct Hm as (m & Hm).
  destruct (H c13_unsorted (elems (c13_if "1" "descr")) t' m) as [(_ & _ & Hok) _].
  - split; [exists 10%nat; reflexivity|]. split; reflexivity.
  - vm_compute. reflexivity.
  - exact Ed.
  - exact Hm.
  - vm_compute in Ed. injection Ed as <-. vm_compute in Hok. discriminate Hok.
Qed.
Print Assumptions c13_delete_premise_refuted.

(* the guard of the unconditional theorems rejects that tree *)
Example c13_unsorted_rejected : c13_inv2b c13_env c13_fo c13_ko c13_sch c13_unsorted = false.
Proof. vm_compute. reflexivity. Qed.
