(* C25 — code generation is deterministic: running the generator twice on the same inputs
   gives byte-identical output, whatever order Go's map iteration takes.

   Shape of the argument (see Gen/Determinism.v):
   - every `for ... range <map>` of the generators is listed, with a conservative syntactic
     class of its body, in a table regenerated from /repo on every run (Gen_MapRanges.v, by
     /verif/harness/maprange); the generated file C25_sites.v proves
     [sites_ok allow known sites = true] by vm_compute on that table;
   - this file proves, for all inputs, that every accepted class of loop body is insensitive
     to the iteration order (T1-T9), and that a pipeline all of whose stages are
     order-insensitive has the same result in every run (T10, T11).
   This file only restates results proved in Gen/DeterminismProofs.v. *)
From Coq Require Import Permutation.
From Ygot Require Import Base.Base Gen.Determinism Gen.DeterminismProofs.

(* (T1) the core: folding pairwise commuting, equivalence-respecting loop bodies over bindings
   with distinct keys gives equivalent states for every iteration order *)
Theorem c25_fold_perm : forall (S B K : Type) (key : B -> K) (R : S -> S -> Prop) (act : B -> S -> S),
  is_equiv R -> respects R act ->
  forall l l', Permutation l l' -> NoDup (map key l) -> commutes_on key R act l ->
  forall s s', R s s' -> R (fold_bind act l s) (fold_bind act l' s').
Proof. exact @fold_perm. Qed.
Print Assumptions c25_fold_perm.

(* (T2) collect_then_sort: sorting (any total order on the keys) erases the order in which a
   slice with distinct keys was filled *)
Theorem c25_sorted_canon : forall (A K : Type) (key : A -> K) (leb : K -> K -> bool),
  (forall a b, leb a b = true \/ leb b a = true) ->
  (forall a b, leb a b = true -> leb b a = true -> a = b) ->
  (forall a b c, leb a b = true -> leb b c = true -> leb a c = true) ->
  forall l l', Permutation l l' -> NoDup (map key l) -> isort key leb l = isort key leb l'.
Proof. exact @sorted_canon. Qed.
Print Assumptions c25_sorted_canon.

(* ... without any distinctness condition when the element is its own key (sort.Strings) *)
Theorem c25_sorted_canon_inj : forall (A K : Type) (key : A -> K) (leb : K -> K -> bool),
  (forall a b, leb a b = true \/ leb b a = true) ->
  (forall a b, leb a b = true -> leb b a = true -> a = b) ->
  (forall a b c, leb a b = true -> leb b c = true -> leb a c = true) ->
  (forall x y, key x = key y -> x = y) ->
  forall l l', Permutation l l' -> isort key leb l = isort key leb l'.
Proof. exact @sorted_canon_inj. Qed.
Print Assumptions c25_sorted_canon_inj.

(* the loop `sl = append(sl, f b)` followed by the sort *)
Theorem c25_collect_then_sort : forall (A K : Type) (key : A -> K) (leb : K -> K -> bool),
  (forall a b, leb a b = true \/ leb b a = true) ->
  (forall a b, leb a b = true -> leb b a = true -> a = b) ->
  (forall a b c, leb a b = true -> leb b c = true -> leb a c = true) ->
  forall (B : Type) (f : B -> A) (l l' : list B) (init : list A),
  Permutation l l' -> NoDup (map key (init ++ map f l)) ->
  isort key leb (fold_bind (collect_act f) l init) = isort key leb (fold_bind (collect_act f) l' init).
Proof. exact @collect_then_sort_canon. Qed.
Print Assumptions c25_collect_then_sort.

(* (T3) map_write_only: inserting bindings with distinct keys into a map, in any order, gives
   the same map (observed through lookup) *)
Theorem c25_map_insert_comm : forall (K V : Type) (eqb : K -> K -> bool),
  (forall a b, eqb a b = true <-> a = b) ->
  forall (l l' : list (K * V)) (m m' : amap), Permutation l l' -> NoDup (map fst l) ->
  amap_eq eqb m m' -> amap_eq eqb (fold_bind ains l m) (fold_bind ains l' m').
Proof. exact @map_insert_comm. Qed.
Print Assumptions c25_map_insert_comm.

(* (T4) insert_or_fail: `if _, ok := m[k]; ok { return err }; m[k] = v` -- every order fails or
   every order builds the same map *)
Theorem c25_insert_or_fail : forall (K V : Type) (eqb : K -> K -> bool),
  (forall a b, eqb a b = true <-> a = b) ->
  forall (l l' : list (K * V)) (m m' : option amap), Permutation l l' -> NoDup (map fst l) ->
  oamap_eq eqb m m' -> oamap_eq eqb (fold_bind (ains_new eqb) l m) (fold_bind (ains_new eqb) l' m').
Proof. exact @insert_new_comm. Qed.
Print Assumptions c25_insert_or_fail.

(* (T5) commutative_reduce *)
Theorem c25_reduce_comm : forall (B R : Type) (op : R -> R -> R) (g : B -> R),
  (forall a b, op a b = op b a) -> (forall a b c, op (op a b) c = op a (op b c)) ->
  forall l l', Permutation l l' ->
  forall acc, fold_bind (reduce_act op g) l acc = fold_bind (reduce_act op g) l' acc.
Proof. exact @reduce_comm. Qed.
Print Assumptions c25_reduce_comm.

(* (T6) error_only: whether some element is reported does not depend on the order *)
Theorem c25_error_only : forall (B : Type) (bad : B -> bool) l l', Permutation l l' ->
  forall failed, fold_bind (error_act bad) l failed = fold_bind (error_act bad) l' failed.
Proof. exact @error_only_comm. Qed.
Print Assumptions c25_error_only.

(* (T7) unique_select: if at most one binding satisfies the guard, "last one wins" selects the
   same value in every order *)
Theorem c25_select_unique : forall (B V : Type) (guard : B -> bool) (g : B -> V) l l',
  Permutation l l' -> at_most_one guard l ->
  forall x, fold_bind (select_act guard g) l x = fold_bind (select_act guard g) l' x.
Proof. exact @select_unique. Qed.
Print Assumptions c25_select_unique.

(* (T8) singleton: a map with one binding has one iteration order *)
Theorem c25_singleton : forall (B : Type) (l l' : list B), length l = 1%nat -> Permutation l l' -> l = l'.
Proof. exact @singleton_perm. Qed.
Print Assumptions c25_singleton.

(* (T9) a body made of effects on separate parts of the state commutes if every part does *)
Theorem c25_prod_commutes : forall (B K S1 S2 : Type) (key : B -> K) (R1 : S1 -> S1 -> Prop)
    (R2 : S2 -> S2 -> Prop) (a1 : B -> S1 -> S1) (a2 : B -> S2 -> S2) l,
  commutes_on key R1 a1 l -> commutes_on key R2 a2 l ->
  commutes_on key (prod_rel R1 R2) (prod_act a1 a2) l.
Proof. exact @prod_commutes. Qed.
Print Assumptions c25_prod_commutes.

(* (T10) all runs of a pipeline of order-insensitive stages agree: the output does not depend
   on the permutation any of its map ranges takes (induction over the list of stages) *)
Theorem c25_pipeline : forall (S B K : Type) (key : B -> K) (eqS : S -> S -> Prop) (stages : list (stage S B)),
  Forall (stage_ok key eqS) stages ->
  forall s s' o o', eqS s s' -> runs stages s o -> runs stages s' o' -> eqS o o'.
Proof. exact @pipeline_deterministic. Qed.
Print Assumptions c25_pipeline.

(* (T11) the same, read off the translator's table.  The hypothesis on [interp] is what the
   classifier and the reviewed allow-list are trusted for. *)
Theorem c25_pipeline_table : forall (S B K : Type) (key : B -> K) (eqS : S -> S -> Prop)
    (interp : site -> stage S B) (allow : list allow_entry),
  (forall x, site_ok allow x = true -> stage_ok key eqS (interp x)) ->
  forall sites, sites_ok allow [] sites = true ->
  forall s s' o o', eqS s s' -> runs (map interp sites) s o -> runs (map interp sites) s' o' -> eqS o o'.
Proof. exact @table_deterministic. Qed.
Print Assumptions c25_pipeline_table.

(* (T12) what the check of the table decides *)
Theorem c25_sites_ok_spec : forall allow known sites, sites_ok allow known sites = true <->
  forall x, In x sites -> class_accepted (s_class x) = true \/ allowed allow x = true \/ allowed known x = true.
Proof. exact sites_ok_spec. Qed.
Print Assumptions c25_sites_ok_spec.

Theorem c25_open_sites_known : forall allow known sites, sites_ok allow known sites = true ->
  forall x, In x (open_sites allow sites) -> allowed known x = true.
Proof. exact open_sites_spec. Qed.
Print Assumptions c25_open_sites_known.

(* ------------------------------------------------------------------ non-vacuity *)

(* a concrete order-insensitive stage: `for k := range m { names = append(names, k) };
   sort(names)` over the map {3:30, 1:10, 2:20} *)
Definition ex_bindings : list (N * N) := [(3, 30); (1, 10); (2, 20)].
Definition ex_stage : stage (list N) (N * N) :=
  {| st_src := fun _ => ex_bindings;
     st_act := collect_act fst;
     st_post := isort (fun x => x) N.leb |}.

Lemma ex_stage_ok : stage_ok fst eq ex_stage.
Proof.
  split; [|split].
  - exists (@Permutation N). repeat split.
    + apply Permutation_refl.
    + apply Permutation_sym.
    + apply Permutation_trans.
    + intros s s' H; subst; apply Permutation_refl.
    + intros b s s' H. apply Permutation_app_tail, H.
    + intros s b b' s0 _ _ _. unfold ex_stage, collect_act; simpl. rewrite <- !app_assoc.
      apply Permutation_app_head. apply perm_swap.
    + intros s s' H. simpl. apply sorted_canon_inj; auto.
      * intros a b. rewrite !N.leb_le. lia.
      * intros a b. rewrite !N.leb_le. lia.
      * intros a b c. rewrite !N.leb_le. lia.
  - intro s. vm_compute. repeat constructor; simpl; intuition discriminate.
  - intros s s' _. apply Permutation_refl.
Qed.

Example c25_example_deterministic : forall o o', runs [ex_stage] [] o -> runs [ex_stage] [] o' -> o = o'.
Proof. intros o o'. apply (c25_pipeline _ _ _ fst eq [ex_stage]); auto. constructor; [apply ex_stage_ok | constructor]. Qed.

Example c25_example_run : runs [ex_stage] [] [1; 2; 3].
Proof. apply runs_cons with (l := [(2, 20); (3, 30); (1, 10)]).
  - unfold ex_stage, ex_bindings; simpl.
    apply perm_trans with [(3, 30); (2, 20); (1, 10)]; [apply perm_swap | apply perm_skip, perm_swap].
  - vm_compute. constructor.
Qed.

(* the model does distinguish orders: without the sort the same loop is order sensitive *)
Example c25_unsorted_collect_differs : exists l l' : list (N * N), Permutation l l' /\
  fold_bind (collect_act fst) l [] <> fold_bind (collect_act fst) l' [].
Proof. exists [(1, 10); (2, 20)], [(2, 20); (1, 10)]. split; [apply perm_swap | vm_compute; discriminate]. Qed.

(* ... and "last one wins" is order sensitive when two bindings satisfy the guard *)
Example c25_select_two_differs : exists l l' : list (N * N), Permutation l l' /\
  fold_bind (select_act (fun _ => true) snd) l None <> fold_bind (select_act (fun _ => true) snd) l' None.
Proof. exists [(1, 10); (2, 20)], [(2, 20); (1, 10)]. split; [apply perm_swap | vm_compute; discriminate]. Qed.

(* the table check rejects an order_sensitive site unless it is allow-listed under the hash of
   its current body *)
Definition ex_site (c : sclass) (h : str) : site :=
  {| s_pkg := [121]; s_func := [102]; s_line := 1; s_class := c; s_body_hash := h; s_func_hash := [48] |}.
Definition ex_allow : list allow_entry :=
  [{| a_pkg := [121]; a_func := [102]; a_body_hash := [97]; a_func_hash := None |}].
Example c25_table_accepts_sorted : sites_ok [] [] [ex_site collect_then_sort [97]] = true.
Proof. reflexivity. Qed.
Example c25_table_rejects_order_sensitive : sites_ok [] [] [ex_site order_sensitive [97]] = false.
Proof. reflexivity. Qed.
Example c25_table_accepts_allow_listed : sites_ok ex_allow [] [ex_site order_sensitive [97]] = true.
Proof. reflexivity. Qed.
Example c25_table_rejects_edited_body : sites_ok ex_allow [] [ex_site order_sensitive [98]] = false.
Proof. reflexivity. Qed.
