(* C04 — DeepCopy / MergeStructs results share no mutable memory with their inputs.
   Model: Heap/Located.v (GoStruct values with the location of every mutable cell) and
   Heap/Copy.v (copyStruct and the copy*Field functions threading a supply of new locations and
   storing SOURCE locations exactly where the Go code stores a source pointer).  Variants:
     fu = fixed_unkeyed  copySliceField appends the fresh copy d of a list entry, not the source v
     fe = fixed_elems    copySliceField copies Binary / union members of a leaf-list
   (false, false) is /repo as it is; (true, true) is /repo with the proposed fix.
   This file only restates results proved in Heap/CopyProofs.v and gives the witnesses that
   refute the full statements on the code as it is.
   lshared fu fe l is the list of source cells the copy holds on to: entries of unkeyed lists
   (unless fu), cells of leaf-list members (unless fe), and pointer keys of maps (always). *)
From Ygot Require Import Tree.Tree Tree.TreeOps Tree.Merge Heap.Located Heap.Copy Heap.CopyProofs.

(* ---------- (1) the copy is equal to the original ---------- *)
(* guard: no empty slice / map / binary (DeepCopy does not reproduce those), distinct keys *)
Theorem c04_copy_equal_partial : forall fu fe l c,
  lno_empty l = true -> lkeys_ok l = true ->
  ldeep_copy fu fe l = Ok c -> erase c = erase l.
Proof. exact c04_copy_equal_partial_lemma. Qed.
Print Assumptions c04_copy_equal_partial.

(* ---------- (2) which cells the copy shares with the original ---------- *)
Theorem c04_copy_sharing : forall fu fe l c,
  ldeep_copy fu fe l = Ok c ->
  forall p, In p (locs c) -> In p (locs l) -> In p (lshared fu fe l).
Proof. exact deep_copy_sharing. Qed.
Print Assumptions c04_copy_sharing.

(* with the fix: separate, for every tree without pointer-valued map keys *)
Theorem c04_copy_separate_fixed : forall l c,
  lno_ptr_keys l = true -> ldeep_copy true true l = Ok c -> ldisjoint (locs c) (locs l).
Proof. exact c04_copy_separate_fixed_lemma. Qed.
Print Assumptions c04_copy_separate_fixed.

(* the code as it is: separate under the guard "nothing is shared" (no unkeyed list entry, no
   leaf-list member owning a cell, no pointer-valued map key) *)
Theorem c04_copy_separate_partial : forall l c,
  lshared false false l = [] -> ldeep_copy false false l = Ok c -> ldisjoint (locs c) (locs l).
Proof. exact c04_copy_separate_partial_lemma. Qed.
Print Assumptions c04_copy_separate_partial.

(* ---------- (3) no sequence of in-place writes to one side changes the other ---------- *)
(* lwrites_on cp other ms: every write of ms goes to a cell of (the current state of) cp and
   stores a value built from cells that are not cells of `other` *)
Theorem c04_frame : forall ms cp other,
  ldisjoint (locs cp) (locs other) -> lwrites_on cp (locs other) ms ->
  lmutate_all ms other = other.
Proof. exact frame. Qed.
Print Assumptions c04_frame.

(* writes to the copy do not change the original, writes to the original do not change the copy *)
Theorem c04_frame_copy_fixed : forall l c ms,
  lno_ptr_keys l = true -> ldeep_copy true true l = Ok c ->
  (lwrites_on c (locs l) ms -> erase (lmutate_all ms l) = erase l) /\
  (lwrites_on l (locs c) ms -> erase (lmutate_all ms c) = erase c).
Proof. exact c04_frame_copy_fixed_lemma. Qed.
Print Assumptions c04_frame_copy_fixed.

(* ---------- (4) MergeStructs ---------- *)
Theorem c04_merge_sharing : forall fu fe o a b c,
  lmerge fu fe o a b = Ok c ->
  forall p, In p (locs c) -> In p (locs a) \/ In p (locs b) ->
            In p (lshared fu fe a) \/ In p (lshared fu fe b).
Proof. exact merge_sharing. Qed.
Print Assumptions c04_merge_sharing.

Theorem c04_merge_separate_fixed : forall o a b c,
  lno_ptr_keys a = true -> lno_ptr_keys b = true -> lmerge true true o a b = Ok c ->
  ldisjoint (locs c) (locs a) /\ ldisjoint (locs c) (locs b).
Proof. exact c04_merge_separate_fixed_lemma. Qed.
Print Assumptions c04_merge_separate_fixed.

Theorem c04_merge_separate_partial : forall o a b c,
  lshared false false a = [] -> lshared false false b = [] -> lmerge false false o a b = Ok c ->
  ldisjoint (locs c) (locs a) /\ ldisjoint (locs c) (locs b).
Proof. exact c04_merge_separate_partial_lemma. Qed.
Print Assumptions c04_merge_separate_partial.

(* ---------- witnesses ---------- *)
(* { unkeyed: [ &{a: "x"} ] } with cells: root 2, slice 3, entry 4, string pointer 5 *)
Definition c04_t_unkeyed : ltree :=
  LCont 2 [([85], LUnk 3 [LCont 4 [([65], LPtr 5 (VStr [120]))]])].
(* the copy holds the SAME entry struct 4 (and its leaf 5) *)
Theorem c04_refuted_unkeyed_entry : exists l c,
  ldeep_copy false false l = Ok c /\ erase c = erase l /\ loc_mem 4 (locs c) = true /\ loc_mem 4 (locs l) = true.
Proof.
  exists c04_t_unkeyed. eexists. split; [vm_compute; reflexivity|]. split; [vm_compute; reflexivity|]. split; vm_compute; reflexivity.
Qed.
Print Assumptions c04_refuted_unkeyed_entry.

(* a write to the copy (the entry struct is overwritten) changes the original *)
Theorem c04_refuted_frame : exists l c p w,
  ldeep_copy false false l = Ok c /\ loc_mem p (locs c) = true /\ erase (lmutate p w l) <> erase l.
Proof.
  exists c04_t_unkeyed. eexists. exists 4, (LCont 4 []).
  split; [vm_compute; reflexivity|]. split; [vm_compute; reflexivity|]. vm_compute. discriminate.
Qed.
Print Assumptions c04_refuted_frame.

Example c04_unkeyed_fixed :
  exists c, ldeep_copy true true c04_t_unkeyed = Ok c /\ ldisjointb (locs c) (locs c04_t_unkeyed) = true.
Proof. eexists. split; vm_compute; reflexivity. Qed.

(* { ll-bin: [ 0x0102 ] } with cells: root 2, slice 3, bytes 4: the copy's member has bytes 4 *)
Definition c04_t_binll : ltree := LCont 2 [([76], LLeafList 3 [LBin false 4 [1; 2]])].
Theorem c04_refuted_binary_leaflist : exists l c,
  ldeep_copy false false l = Ok c /\ erase c = erase l /\ loc_mem 4 (locs c) = true /\ loc_mem 4 (locs l) = true.
Proof.
  exists c04_t_binll. eexists. split; [vm_compute; reflexivity|]. split; [vm_compute; reflexivity|]. split; vm_compute; reflexivity.
Qed.
Print Assumptions c04_refuted_binary_leaflist.

(* a map keyed by a wrapper union (a pointer): the copy's map uses the same key object, also
   with the fix *)
Definition c04_t_ptrkey : ltree :=
  LCont 2 [([76], LMap 3 [([LWrap 4 (LVal (VStr [107]))], LCont 5 [([75], LWrap 6 (LVal (VStr [107])))])])].
Theorem c04_refuted_wrapper_key : exists l c,
  ldeep_copy true true l = Ok c /\ erase c = erase l /\ loc_mem 4 (locs c) = true /\ loc_mem 4 (locs l) = true.
Proof.
  exists c04_t_ptrkey. eexists. split; [vm_compute; reflexivity|]. split; [vm_compute; reflexivity|]. split; vm_compute; reflexivity.
Qed.
Print Assumptions c04_refuted_wrapper_key.

(* an empty binary leaf value is not reproduced by the copy *)
Theorem c04_refuted_empty_binary : exists l c,
  ldeep_copy true true l = Ok c /\ erase c <> erase l.
Proof.
  exists (LCont 2 [([66], LBin false 3 [])]). eexists. split; [vm_compute; reflexivity|]. vm_compute. discriminate.
Qed.
Print Assumptions c04_refuted_empty_binary.

(* non-vacuity: a tree with every kind of cell is copied to an equal, separate tree by the fixed code *)
Definition c04_t_all : ltree :=
  LCont 2 [ ([65], LPtr 3 (VInt I8 1)); ([66], LBin false 4 [9]); ([67], LVal (VEnum [69] 1));
            ([68], LBin true 5 [7]); ([69], LLeafList 6 [LVal (VStr [97]); LBin false 7 [1]]);
            ([70], LMap 8 [([LVal (VStr [107])], LCont 9 [([75], LPtr 10 (VStr [107]))])]);
            ([71], LOMap 11 12 13 [([VStr [111]], LCont 14 [([75], LPtr 15 (VStr [111]))])]);
            ([72], LUnk 16 [LCont 17 [([65], LPtr 18 (VStr [120]))]]) ].
Example c04_example_all :
  exists c, ldeep_copy true true c04_t_all = Ok c /\ erase c = erase c04_t_all /\
            ldisjointb (locs c) (locs c04_t_all) = true /\ lno_empty c04_t_all = true /\ lkeys_ok c04_t_all = true.
Proof.
  eexists. split; [vm_compute; reflexivity|]. split; [vm_compute; reflexivity|].
  split; [vm_compute; reflexivity|]. split; vm_compute; reflexivity.
Qed.
