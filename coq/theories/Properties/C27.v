(* C27 — the schema tree embedded in generated code faithfully describes the input YANG.
   Translation validation: the generator is not modelled.  On every run the goyang compilation of
   the input modules and the unzipped embedded schema of every generated package are printed as
   ynode terms; `embed` is the transformation ygen applies between them and schema_eq_b decides
   whether the embedded tree is exactly the transformed goyang tree.  This file restates results
   of Gen/SchemaEqProofs.v; the per-run obligation lives in build/coqgen/C27_obligation.v. *)
From Ygot Require Import Base.Base Gen.SchemaEq Gen.SchemaEqProofs.

(* The checker decides equality: names, kinds, list keys, config flags, ordered-by, presence,
   defaults, and leaf types with ranges, lengths, patterns, enumeration values, identity bases,
   union members and leafref paths are all part of a ynode. *)
Theorem c27_tree_eqb_spec : forall a b : ynode, ynode_eqb a b = true <-> a = b.
Proof. exact ynode_eqb_eq. Qed.
Print Assumptions c27_tree_eqb_spec.

Theorem c27_schema_eq_b_spec : forall o mods e, schema_eq_b o mods e = true <-> embed o mods = e.
Proof. exact schema_eq_b_spec. Qed.
Print Assumptions c27_schema_eq_b_spec.

(* lifting the regenerated boolean obligation to every generated package of the run *)
Theorem c27_lift : forall cs, forallb ecase_ok cs = true ->
  forall c, In c cs -> embed (ec_opts c) (ec_mods c) = ec_embedded c.
Proof. exact ecases_lift. Qed.
Print Assumptions c27_lift.

(* What `embed` is allowed to change.  Every statement attribute is copied ... *)
Theorem c27_embed_keeps_attributes : forall o km reach pp n,
  let a := node_attrs n in let a' := node_attrs (xf o km reach pp n) in
  y_name a' = y_name a /\ y_kind a' = y_kind a /\ y_config a' = y_config a /\ y_mandatory a' = y_mandatory a /\
  y_key a' = y_key a /\ y_listattr a' = y_listattr a /\ y_presence a' = y_presence a /\
  y_default a' = y_default a /\ y_units a' = y_units a /\ y_prefix a' = y_prefix a.
Proof. exact xf_attrs. Qed.
Print Assumptions c27_embed_keeps_attributes.

Theorem c27_embed_keeps_children : forall o km reach pp n,
  map node_name (node_children (xf o km reach pp n)) = map node_name (node_children n).
Proof. exact xf_children. Qed.
Print Assumptions c27_embed_keeps_children.

(* ... leaf types are copied verbatim, except that with prefer_operational_state the leafref path
   of a leaf may be pointed from a config container to the state container (TransformEntry). *)
Theorem c27_embed_keeps_types : forall o km reach pp n,
  o_prefer_state o = false -> node_type (xf o km reach pp n) = node_type n.
Proof. exact xf_type_plain. Qed.
Print Assumptions c27_embed_keeps_types.

Theorem c27_embed_type_prefer_state : forall o km reach pp n t,
  node_type n = Some t ->
  exists t', node_type (xf o km reach pp n) = Some t' /\
    match t, t' with
    | YT n1 k1 i1 e1 b1 u1 d1 h1 f1 l1 o1 p1 pa1 po1 r1 m1, YT n2 k2 i2 e2 b2 u2 d2 h2 f2 l2 o2 p2 pa2 po2 r2 m2 =>
        n1 = n2 /\ k1 = k2 /\ i1 = i2 /\ e1 = e2 /\ b1 = b2 /\ u1 = u2 /\ d1 = d2 /\ h1 = h2 /\ f1 = f2 /\ l1 = l2 /\
        o1 = o2 /\ pa1 = pa2 /\ po1 = po2 /\ r1 = r2 /\ m1 = m2 /\ (p2 = p1 \/ p2 = point_to_state p1)
    end.
Proof. exact xf_type_state. Qed.
Print Assumptions c27_embed_type_prefer_state.

(* the root of the embedded tree holds exactly the top-level entries of the non-excluded modules *)
Theorem c27_embed_root_children : forall o mods c,
  In c (node_children (embed o mods)) <->
  exists m e, In m mods /\ excluded o m = false /\ In e (node_children m) /\
              c = xf o false true (47 :: node_name m) e.
Proof. exact embed_root_children. Qed.
Print Assumptions c27_embed_root_children.

(* ---------- non-vacuity ---------- *)
Definition c27_str_t : ytyp := YT [115] 18 None [] [] [] [] false 0 [] false [] [] [] [] [].
Definition c27_lref_t : ytyp :=   (* leafref "../config/name" *)
  YT [108] 17 None [] [] [] [] false 0 [] false
     [46; 46; 47; 99; 111; 110; 102; 105; 103; 47; 110; 97; 109; 101] [] [] [] [].
Definition c27_attr (name : str) (kind : N) (mod_ : str) : yattrs :=
  MkA name kind TS_unset TS_unset [] None None [] [] [100] mod_ [112] [].
Definition c27_mod : ynode :=
  YN (c27_attr [109] K_dir [109]) None
     [YN (c27_attr [116] K_dir [109]) None
         [YN (c27_attr [107] K_leaf [109]) (Some c27_lref_t) [];
          YN (c27_attr [118] K_leaf [109]) (Some c27_str_t) []]].
Definition c27_opts (ps : bool) : eopts :=
  {| o_rootname := [100]; o_prefer_state := ps; o_descriptions := false; o_excluded := [] |}.

(* the leafref path is rewritten exactly under prefer_operational_state; the checker tells the
   two embedded trees apart, and rejects a tree in which a leaf changed its type *)
Example c27_checker_discriminates :
  schema_eq_b (c27_opts false) [c27_mod] (embed (c27_opts false) [c27_mod]) = true /\
  schema_eq_b (c27_opts true) [c27_mod] (embed (c27_opts false) [c27_mod]) = false /\
  point_to_state [46; 46; 47; 99; 111; 110; 102; 105; 103; 47; 110; 97; 109; 101]
    = [46; 46; 47; 115; 116; 97; 116; 101; 47; 110; 97; 109; 101] /\
  point_to_state [46; 46; 47; 111; 99; 58; 99; 111; 110; 102; 105; 103; 47; 110]
    = [46; 46; 47; 111; 99; 58; 115; 116; 97; 116; 101; 47; 110] /\
  point_to_state [46; 46; 47; 110; 97; 109; 101] = [46; 46; 47; 110; 97; 109; 101].
Proof. repeat split; vm_compute; reflexivity. Qed.
