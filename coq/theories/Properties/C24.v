(* C24 — protomap paths <-> proto mapping round-trips.
   This file only restates results proved in Diffs/ProtoMapProofs.v about the model
   Diffs/ProtoMap.v of protomap/proto.go, and exhibits the witnesses that refute the
   statement at full strength for the code as it is. *)
From Coq Require Import Permutation.
From Ygot Require Import Base.Base Path.PathString Diffs.ProtoMap Diffs.ProtoMapProofs.

(* The domain of the property: a path-compressed descriptor (wf_fields) and a message of the
   supported shape (supp_msg): string/uint/bytes wrappers, named enum values, leaf-lists,
   leaf-lists of unions with one non-zero member, non-empty containers, keyed lists with
   distinct string/uint64 keys, at any depth. *)
Definition c24_domain (ds : list fdesc) (m : msg) : bool := wf_fields [] ds && supp_msg 0 ds m.

(* What the round trip yields with the repairs fx: PathsFromProto succeeds and, in WHATEVER
   order the path map is iterated, ProtoFromPaths on a blank message succeeds with a message
   equal to m up to the order of keyed-list entries. *)
Definition c24_holds (fx : fixes) (ds : list fdesc) (m : msg) : Prop :=
  exists paths, paths_from_proto ds m = Ok paths /\
    forall vals, Permutation vals paths ->
      exists m', proto_from_paths fx ds vals [] [] false = Ok m' /\ msg_equiv m' m.

(* the property at full strength, for the code with the repairs fx *)
Definition c24_full (fx : fixes) : Prop := forall ds m, c24_domain ds m = true -> c24_holds fx ds m.

(* Proved for every combination of repairs, under the guard that names exactly what the
   missing repairs break (guard_msg): without fx_uint no populated UintValue wrapper, without
   fx_leaflist no populated scalar leaf-list, without fx_trim no populated container below a
   list entry (and no annotation that embeds a sibling's), and in every case no union value
   that an earlier member of the union message would take (string before enum). *)
Theorem c24_roundtrip_partial : forall fx ds m,
  c24_domain ds m = true -> guard_msg fx false ds m = true -> c24_holds fx ds m.
Proof.
  intros fx ds m Hd Hg. apply andb_prop in Hd as [Hwf Hs]. now apply roundtrip.
Qed.
Print Assumptions c24_roundtrip_partial.

(* the code as it is *)
Corollary c24_roundtrip_current : forall ds m,
  c24_domain ds m = true -> guard_msg nofix false ds m = true -> c24_holds nofix ds m.
Proof. intros. now apply c24_roundtrip_partial. Qed.
Print Assumptions c24_roundtrip_current.

(* with the three repairs the guard only constrains union values *)
Corollary c24_roundtrip_fixed : forall ds m,
  c24_domain ds m = true -> guard_msg allfix false ds m = true -> c24_holds allfix ds m.
Proof. intros. now apply c24_roundtrip_partial. Qed.
Print Assumptions c24_roundtrip_fixed.

(* every emitted path, keys stripped, is a schemapath annotation of the field that emitted it
   (its own, a key field's, or one of a descendant) *)
Theorem c24_paths_annotated : forall ds m paths,
  c24_domain ds m = true -> paths_from_proto ds m = Ok paths ->
  forall pv, In pv paths -> In (schema (fst pv)) (all_anns ds).
Proof.
  intros ds m paths Hd Hp. apply andb_prop in Hd as [Hwf Hs]. now apply (paths_annotated ds m).
Qed.
Print Assumptions c24_paths_annotated.

(* PathsFromProto computes the relative specification *)
Theorem c24_paths_spec : forall ds m,
  c24_domain ds m = true -> paths_from_proto ds m = Ok (rel_paths_msg 0 ds m).
Proof. intros ds m Hd. apply andb_prop in Hd as [Hwf Hs]. now apply paths_from_proto_spec. Qed.
Print Assumptions c24_paths_spec.

(* ---------- witnesses ---------- *)

Definition pe (n : str) : pelem := {| ename := n; ekeys := [] |}.
Definition s_a : str := [97].   Definition s_b : str := [98].   Definition s_c : str := [99].
Definition s_k : str := [107].  Definition s_l : str := [108].  Definition s_v : str := [118].
Definition s_x : str := [120].  Definition s_y : str := [121].

Ltac refute w m :=
  intros Hfull; destruct (Hfull w m eq_refl) as (paths & Hp & Hr);
  vm_compute in Hp; injection Hp as <-;
  destruct (Hr _ (Permutation_refl _)) as (m' & Hm & He);
  vm_compute in Hm; try discriminate Hm.

(* 1. a populated UintValue: PathsFromProto yields uint64, makeWrapper accepts only uint *)
Definition w_uint_ds : list fdesc := [FD s_a [[pe s_a]] false (KWrap WUint)].
Definition w_uint_m : msg := [VWrap (WVUint 3)].
Theorem c24_refuted_uint : ~ c24_full nofix.
Proof. refute w_uint_ds w_uint_m. Qed.
Print Assumptions c24_refuted_uint.

(* 2. a scalar leaf-list: PathsFromProto yields []interface{}, makeSimpleLeafList wants []string *)
Definition w_ll_ds : list fdesc := [FD s_a [[pe s_a]] false (KLeafList WString)].
Definition w_ll_m : msg := [VLeafList [WVString s_x]].
Theorem c24_refuted_leaflist : ~ c24_full {| fx_uint := true; fx_leaflist := false; fx_trim := true |}.
Proof. refute w_ll_ds w_ll_m. Qed.
Print Assumptions c24_refuted_leaflist.

(* 3. a container below a list entry is dropped: its prefix is computed by trimming the
      annotation (a schema path) by the keyed data path *)
Definition w_cul_kd : kdesc := {| kd_ann := [[pe s_c; pe s_l; pe s_k]]; kd_kind := SString; kd_oneof := false |}.
Definition w_cul_ds : list fdesc :=
  [FD s_l [[pe s_c; pe s_l]] false
      (KList [w_cul_kd]
             [FD s_x [[pe s_c; pe s_l; pe s_x]] false
                 (KMsg [FD s_y [[pe s_c; pe s_l; pe s_x; pe s_y]] false (KWrap WString)])])].
Definition w_cul_m : msg := [VList [([Some (SVString s_a)], Some [VMsg [VWrap (WVString s_v)]])]].
Theorem c24_refuted_container_under_list :
  ~ c24_full {| fx_uint := true; fx_leaflist := true; fx_trim := false |}.
Proof.
  refute w_cul_ds w_cul_m. injection Hm as <-.
  inversion He as [|? ? ? ? Hf _]; subst. inversion Hf as [? Hl| |? ? ? Hperm Hall]; subst.
  apply Permutation_length_1_inv in Hperm. subst. inversion Hall as [|? ? ? ? He1 _]; subst.
  inversion He1 as [? ? ? Hms]; subst. inversion Hms as [|? ? ? ? Hx _]; subst. inversion Hx; try contradiction.
Qed.
Print Assumptions c24_refuted_container_under_list.

(* 4. with all three repairs the full statement still fails: an enum member of a union whose
      message has an earlier string member comes back as the string *)
Definition w_un_tbl : enumtbl := [(0, []); (1, s_v)].
Definition w_un_ds : list fdesc := [FD s_a [[pe s_a]] false (KUnion [SString; SEnum w_un_tbl])].
Definition w_un_m : msg := [VUnion [[(1%nat, SVEnum 1)]]].
Theorem c24_refuted_union : ~ c24_full allfix.
Proof.
  refute w_un_ds w_un_m. injection Hm as <-.
  inversion He as [|? ? ? ? Hf _]; subst. inversion Hf.
Qed.
Print Assumptions c24_refuted_union.

(* 5. equality on the nose is too strong whatever is repaired: createListField appends the
      entries in the iteration order of the path map *)
Definition w_ord_ds : list fdesc :=
  [FD s_l [[pe s_c; pe s_l]] false
      (KList [w_cul_kd] [FD s_v [[pe s_c; pe s_l; pe s_v]] false (KWrap WString)])].
Definition w_ord_m : msg :=
  [VList [([Some (SVString s_a)], Some [VWrap (WVString s_x)]);
          ([Some (SVString s_b)], Some [VUnset])]].
Theorem c24_refuted_list_order :
  ~ (forall ds m paths vals, c24_domain ds m = true -> guard_msg allfix false ds m = true ->
       paths_from_proto ds m = Ok paths -> Permutation vals paths ->
       proto_from_paths allfix ds vals [] [] false = Ok m).
Proof.
  intros H.
  assert (Hp : paths_from_proto w_ord_ds w_ord_m = Ok (rel_paths_msg 0 w_ord_ds w_ord_m)) by reflexivity.
  specialize (H w_ord_ds w_ord_m _ (rev (rel_paths_msg 0 w_ord_ds w_ord_m)) eq_refl eq_refl Hp
                (Permutation_sym (Permutation_rev _))).
  vm_compute in H. discriminate H.
Qed.
Print Assumptions c24_refuted_list_order.

(* ---------- non-vacuity ---------- *)

(* a container with a leaf, a two-level keyed list (string and uint64 keys) with an enum, a
   bytes wrapper and a union below the entries: in the domain, inside the guard of the code as
   it is, and rebuilt exactly when the map is iterated in emission order *)
Definition ex_tbl : enumtbl := [(0, []); (1, s_x); (7, s_y)].
Definition ex_kd1 : kdesc :=
  {| kd_ann := [[pe s_c; pe s_l; pe s_k]; [pe s_c; pe s_l; pe CONFIG; pe s_k]]; kd_kind := SString; kd_oneof := false |}.
Definition ex_kd2 : kdesc :=
  {| kd_ann := [[pe s_c; pe s_l; pe s_a; pe s_b; pe s_k]]; kd_kind := SUint64; kd_oneof := false |}.
Definition ex_ds : list fdesc :=
  [ FD s_a [[pe s_a]] false (KWrap WString);
    FD s_b [[pe s_b]] false (KMsg [FD s_v [[pe s_b; pe CONFIG; pe s_v]] false (KWrap WBytes)]);
    FD s_l [[pe s_c; pe s_l]] false
       (KList [ex_kd1]
          [ FD s_x [[pe s_c; pe s_l; pe STATE; pe s_x]] false (KScalar (SEnum ex_tbl));
            FD s_y [[pe s_c; pe s_l; pe s_y]] false (KUnion [SEnum ex_tbl; SUint64]);
            FD s_l [[pe s_c; pe s_l; pe s_a; pe s_b]] false
               (KList [ex_kd2] [FD s_v [[pe s_c; pe s_l; pe s_a; pe s_b; pe s_v]] false (KWrap WString)]) ]) ].
Definition ex_m : msg :=
  [ VWrap (WVString s_x);
    VMsg [VWrap (WVBytes [0; 255])];
    VList [ ([Some (SVString s_a)],
             Some [ VScalar (SVEnum 7);
                    VUnion [[(0%nat, SVEnum 1)]; [(1%nat, SVUint64 5)]];
                    VList [ ([Some (SVUint64 0)], Some [VWrap (WVString [])]);
                            ([Some (SVUint64 18446744073709551615)], Some [VUnset]) ] ]);
            ([Some (SVString [])], Some [VUnset; VUnset; VUnset]) ] ].
Example c24_guard_satisfiable :
  c24_domain ex_ds ex_m = true /\ guard_msg nofix false ex_ds ex_m = true /\
  bind (paths_from_proto ex_ds ex_m) (fun p => proto_from_paths nofix ex_ds p [] [] false) = Ok ex_m /\
  option_map (@length _) (match paths_from_proto ex_ds ex_m with Ok p => Some p | _ => None end) = Some 11%nat.
Proof. repeat split; vm_compute; reflexivity. Qed.

(* the same message with a populated UintValue leaves the guard of the current code only *)
Example c24_guard_is_tight :
  c24_domain w_uint_ds w_uint_m = true /\ guard_msg nofix false w_uint_ds w_uint_m = false /\
  guard_msg allfix false w_uint_ds w_uint_m = true.
Proof. repeat split; vm_compute; reflexivity. Qed.
