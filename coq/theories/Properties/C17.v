(* C17 — Enumeration and identity names map bijectively.
   Restatements of results proved in Scalar/EnumTableProofs.v and Tree/CodecProofs.v about the
   transcriptions of enumFieldToString / EnumName / EnumLogString and their callers
   (Scalar/EnumTable.v), castToEnumValue (Tree/Codec.v: enum_cast) and the generator's numbering
   (gen_enum_table, gen_identity_table).  The statement "for every generated type" is the
   regenerated obligation build/coqgen/C17_tables.v (written and compiled by lib/c17_pre.py on
   every run), which instantiates c17_lift / c17_colon_lift below.
   The last part (c17_colon_...) restates Scalar/EnumColonProofs.v: the same code on tables whose
   enumeration names may contain ':' (enum "ipv4:unicast"), where the well-formedness predicate is
   about the KEY castToEnumValue compares, util.StripModulePrefix(name). *)
From Coq Require Import Lia.
From Ygot Require Import Tree.Tree Tree.Codec Tree.CodecProofs Scalar.EnumTable Scalar.EnumTableProofs
  Scalar.EnumColon Scalar.EnumColonProofs.

(* ---------- well-formed tables ---------- *)

(* tbl_okb_full decides: values distinct, names distinct, 0 (UNSET) not a defined value, names
   non-empty without ':' and module names without ':' *)
Theorem c17_tbl_ok_spec : forall t, tbl_okb_full t = true <->
  NoDup (map ev_num t) /\ NoDup (map ev_name t) /\ ~ In 0%Z (map ev_num t) /\
  Forall (fun e => ev_name e <> [] /\ ~ In COLON (ev_name e) /\ ~ In COLON (ev_mod e)) t.
Proof. exact tbl_ok_spec. Qed.
Print Assumptions c17_tbl_ok_spec.

(* ---------- value -> name -> value ---------- *)

(* every defined non-zero value is rendered (set = true) as its name, or module:name when
   asked, and each of these texts, the bare name and the module-qualified name parse back to
   the same value *)
Theorem c17_bijection : forall env ty, tbl_okb_full (enum_table env ty) = true ->
  forall n e, enum_by_num (enum_table env ty) n = Some e -> n <> 0%Z ->
  forall pmi,
    enum_field_to_string env pmi ty n = Ok (enum_text pmi e, true) /\
    enum_parse (enum_table env ty) (enum_text pmi e) = Ok n /\
    enum_parse (enum_table env ty) (ev_name e) = Ok n /\
    enum_parse (enum_table env ty) (ev_mod e ++ COLON :: ev_name e) = Ok n.
Proof. exact enum_bijection. Qed.
Print Assumptions c17_bijection.

(* whatever text the renderer produced for a set value parses back to that value *)
Theorem c17_render_parse : forall env ty pmi n s,
  tbl_okb_full (enum_table env ty) = true ->
  enum_field_to_string env pmi ty n = Ok (s, true) -> enum_parse (enum_table env ty) s = Ok n.
Proof. exact enum_render_parse. Qed.
Print Assumptions c17_render_parse.

(* the same through the JSON codec of the tree layer (ConstructIETFJSON ; Unmarshal) *)
Theorem c17_bijection_json : forall env fo pmi ty n j,
  tbl_okb_full (enum_table env ty) = true ->
  enc_scalar env fo pmi (VEnum ty n) = Ok j ->
  dec_json env fo (YEnum ty) j = Ok (VEnum ty n) /\ dec_json env fo (YIdref ty) j = Ok (VEnum ty n).
Proof. exact enum_bijection_json. Qed.
Print Assumptions c17_bijection_json.

(* name -> value -> name: an accepted string is, up to one module prefix, the name of the value *)
Theorem c17_parse_render : forall t s n, tbl_okb_full t = true -> enum_parse t s = Ok n ->
  exists e, enum_by_num t n = Some e /\ ev_name e = strip_mod s.
Proof. exact enum_parse_render. Qed.
Print Assumptions c17_parse_render.

(* names are unique within a type *)
Theorem c17_names_unique : forall t, tbl_okb_full t = true ->
  NoDup (map ev_name t) /\
  forall n1 n2 e1 e2, enum_by_num t n1 = Some e1 -> enum_by_num t n2 = Some e2 ->
    ev_name e1 = ev_name e2 -> n1 = n2.
Proof. exact enum_names_unique. Qed.
Print Assumptions c17_names_unique.

(* ---------- UNSET ---------- *)

(* The zero value is never rendered by a field: enumFieldToString reports "not set" for 0 for
   every table (even one that defines 0), a struct field and a union member in JSON are skipped,
   a struct field is skipped in gNMI notifications; and a well-formed table has no name for 0,
   so the tree-layer renderer (which never meets VEnum _ 0 in a TLeaf, the field being unset)
   has nothing it could print. *)
Theorem c17_unset_not_rendered_partial : forall env pmi ty,
  enum_field_to_string env pmi ty 0 = Ok ([], false) /\
  enum_leaf env pmi ty 0 = Ok None /\
  (forall fo, tbl_okb_full (enum_table env ty) = true ->
     enum_by_num (enum_table env ty) 0 = None /\
     enc_enum env pmi ty 0 = Err /\
     enc_scalar env fo pmi (VEnum ty 0) = Err).
Proof. exact enum_unset_not_rendered. Qed.
Print Assumptions c17_unset_not_rendered_partial.

(* The statement at full strength: no renderer emits anything for UNSET.  It is false of the
   faithful model: the callers that drop enumFieldToString's `set` result (EnumName, hence
   EncodeTypedValue and a simple-union member in notifications; KeyValueAsString; the element
   loop of an enum leaf-list) emit the empty string, and EncodeTypedValue panics on a wrapper
   union holding UNSET. *)
Definition c17_unset_full : Prop := forall env pmi ty wrapper,
  enum_leaf env pmi ty 0 = Ok None /\
  enum_elem env pmi ty 0 <> Ok [] /\
  enum_slice env pmi ty [0%Z] <> Ok [[]] /\
  enum_union_gnmi wrapper env ty 0 = Ok None.

Theorem c17_unset_elem_renders_empty : forall env pmi ty,
  enum_name env ty 0 = Ok [] /\ enum_elem env pmi ty 0 = Ok [] /\
  enum_slice env pmi ty [0%Z] = Ok [[]] /\
  enum_union_gnmi false env ty 0 = Ok (Some []) /\
  enum_union_gnmi true env ty 0 = Panic.
Proof. intros. repeat split. Qed.
Print Assumptions c17_unset_elem_renders_empty.

Theorem c17_unset_refuted : ~ c17_unset_full.
Proof. intros H. destruct (H [] false [] false) as (_ & H2 & _). now apply H2. Qed.
Print Assumptions c17_unset_refuted.

(* ---------- undefined values ---------- *)

(* a non-zero value that the table does not define makes every renderer fail *)
Theorem c17_undefined_errors : forall env fo pmi ty n,
  enum_by_num (enum_table env ty) n = None -> n <> 0%Z ->
  enum_field_to_string env pmi ty n = Err /\
  enum_leaf env pmi ty n = Err /\
  enum_elem env pmi ty n = Err /\
  enum_name env ty n = Err /\
  (forall wrapper, enum_union_gnmi wrapper env ty n = Err) /\
  (forall pre post, (forall m, In m pre -> exists s, enum_elem env pmi ty m = Ok s) ->
     enum_slice env pmi ty (pre ++ n :: post) = Err) /\
  enc_scalar env fo pmi (VEnum ty n) = Err /\
  enum_log_string env ty n = None.
Proof. exact enum_undefined_errors. Qed.
Print Assumptions c17_undefined_errors.

(* rendering fails exactly on undefined non-zero values, and never panics *)
Theorem c17_render_outcomes : forall env pmi ty n,
  (enum_field_to_string env pmi ty n = Err <-> n <> 0%Z /\ enum_by_num (enum_table env ty) n = None) /\
  enum_field_to_string env pmi ty n <> Panic.
Proof. intros. split; [apply enum_field_to_string_err_iff | apply enum_field_to_string_no_panic]. Qed.
Print Assumptions c17_render_outcomes.

(* ---------- the statement per table, and its lifting over a regenerated list ---------- *)

Definition c17_table_statement := table_statement.

Theorem c17_table : forall t, tbl_okb_full t = true -> c17_table_statement t.
Proof. exact table_statement_ok. Qed.
Print Assumptions c17_table.

(* used by the regenerated file: vm_compute establishes the forallb, this lemma lifts it *)
Theorem c17_lift : forall (ts : list (str * str * list enumval)),
  forallb (fun t => tbl_okb_full (snd t)) ts = true ->
  forall t, In t ts -> c17_table_statement (snd t).
Proof. exact table_statement_lift. Qed.
Print Assumptions c17_lift.

(* ---------- the generator's numbering ---------- *)

(* value+1 numbering of an enumeration statement gives a well-formed table provided no enum has
   value -1; alphabetical numbering of the identities of a base gives one provided the names
   are distinct across modules *)
Theorem c17_gen_enum_ok_partial : forall vals, yang_enum_wf vals -> tbl_okb_full (gen_enum_table vals) = true.
Proof. intros vals H. apply tbl_ok_spec. now apply gen_enum_table_wf. Qed.
Print Assumptions c17_gen_enum_ok_partial.

Theorem c17_gen_identity_ok_partial : forall ids, yang_identities_wf ids -> tbl_okb_full (gen_identity_table ids) = true.
Proof. intros ids H. apply tbl_ok_spec. now apply gen_identity_table_wf. Qed.
Print Assumptions c17_gen_identity_ok_partial.

(* Both guards are necessary (known findings, reproduced on the real generator by the
   adversarial schemas of lib/c17_pre.py).
   "enum x; enum y { value -1; }" is legal YANG: y gets Go value 0 = UNSET and can never be rendered. *)
Definition c17_minus_one : list (str * Z) := [([121], (-1)%Z); ([120], 0%Z)].          (* y = -1, x = 0 *)
Theorem c17_gen_enum_minus_one_refuted :
  NoDup (map fst c17_minus_one) /\ NoDup (map snd c17_minus_one) /\
  tbl_okb_full (gen_enum_table c17_minus_one) = false /\
  let env := [([84], gen_enum_table c17_minus_one)] in
  (exists e, enum_by_num (enum_table env [84]) 0 = Some e /\ ev_name e = [121]) /\
  enum_leaf env false [84] 0 = Ok None.
Proof.
  repeat split.
  - repeat constructor; simpl; intuition discriminate.
  - repeat constructor; simpl; intuition discriminate.
  - eexists. split; reflexivity.
Qed.
Print Assumptions c17_gen_enum_minus_one_refuted.

(* identity "same" defined in modules "a" and "b", both derived from one base: two values carry
   the name "same" (and the module of the later one); value 2 renders as "same", which parses to 1 *)
Definition c17_same_name : list (str * str) := [([115;97;109;101], [98]); ([122], [98]); ([115;97;109;101], [97])].
Theorem c17_gen_identity_same_name_refuted :
  let t := gen_identity_table c17_same_name in
  tbl_okb_full t = false /\
  (exists e, enum_by_num t 2 = Some e /\ enum_parse t (ev_name e) = Ok 1%Z /\ ev_mod e = [97]).
Proof. split; [reflexivity|]. eexists. repeat split. Qed.
Print Assumptions c17_gen_identity_same_name_refuted.

(* ---------- non-vacuity ---------- *)

(* E_VMain_Color and E_VMain_BaseId of the corpus *)
Definition c17_color : list enumval :=
  [ {| ev_num := 1; ev_name := [82;69;68]; ev_mod := [] |};
    {| ev_num := 6; ev_name := [71;82;69;69;78]; ev_mod := [] |};
    {| ev_num := 7; ev_name := [66;76;85;69]; ev_mod := [] |};
    {| ev_num := 8; ev_name := [100;97;114;107;45;103;114;101;121]; ev_mod := [] |} ].
Definition c17_baseid : list enumval :=
  [ {| ev_num := 1; ev_name := [105;100;45;97]; ev_mod := [118;45;109;97;105;110] |};
    {| ev_num := 2; ev_name := [105;100;45;98]; ev_mod := [118;45;109;97;105;110] |} ].
Example c17_examples :
  let env := [([67], c17_color); ([73], c17_baseid)] in
  tbl_okb_full c17_color = true /\ tbl_okb_full c17_baseid = true /\
  gen_enum_table [([82;69;68], 0%Z); ([71;82;69;69;78], 5%Z); ([66;76;85;69], 6%Z);
                  ([100;97;114;107;45;103;114;101;121], 7%Z)] = c17_color /\
  gen_identity_table [([105;100;45;98], [118;45;109;97;105;110]); ([105;100;45;97], [118;45;109;97;105;110])] = c17_baseid /\
  enum_field_to_string env true [73] 2 = Ok ([118;45;109;97;105;110;58;105;100;45;98], true) /\
  enum_parse c17_baseid [118;45;109;97;105;110;58;105;100;45;98] = Ok 2%Z /\
  enum_parse c17_color [71;82;69;69;78] = Ok 6%Z /\
  enum_parse c17_color [103;114;101;101;110] = Err /\
  enum_field_to_string env false [67] 2 = Err /\
  enum_field_to_string env false [67] 0 = Ok ([], false).
Proof. vm_compute. repeat split; reflexivity. Qed.


(* ====================================================================================== *)
(* ---------- enumeration names that contain ':' (Scalar/EnumColon.v) ---------- *)

(* tblc_okb decides: values distinct, KEYS (the name after util.StripModulePrefix: "a:b" -> "b",
   no ':' or two and more ':' -> unchanged) distinct and non-empty, 0 (UNSET) not defined, module
   names without ':', and identities (entries with a defining module) without ':' in the name *)
Theorem c17_colon_tbl_ok_spec : forall t, tblc_okb t = true <->
  NoDup (map ev_num t) /\ NoDup (map (fun e => strip_mod (ev_name e)) t) /\ ~ In 0%Z (map ev_num t) /\
  Forall (fun e => strip_mod (ev_name e) <> [] /\ ~ In COLON (ev_mod e) /\
                   (ev_mod e <> [] -> ~ In COLON (ev_name e))) t.
Proof. exact tblc_ok_spec. Qed.
Print Assumptions c17_colon_tbl_ok_spec.

(* the predicate of the first part is an instance, so every theorem below holds of the tables
   accepted by tbl_okb_full; and on a table without ':' in any name the two predicates agree *)
Theorem c17_colon_generalises : forall t, tbl_okb_full t = true -> tblc_okb t = true.
Proof. exact tbl_okb_full_tblc_okb. Qed.
Print Assumptions c17_colon_generalises.

Theorem c17_colon_conservative : forall t, tbl_has_colonb t = false -> tblc_okb t = true -> tbl_okb_full t = true.
Proof. exact tblc_okb_no_colon_full. Qed.
Print Assumptions c17_colon_conservative.

(* every defined non-zero value is rendered as its name (module:name for identities when asked);
   the rendered text and the bare name parse back to the value.  With a prefix "m:" in front:
   a name without ':' still parses to the value (any m), a name WITH ':' does not — the string
   then has two or more ':' and StripModulePrefix leaves it alone *)
Theorem c17_colon_bijection : forall env ty, tblc_okb (enum_table env ty) = true ->
  forall n e, enum_by_num (enum_table env ty) n = Some e -> n <> 0%Z ->
  forall pmi,
    enum_field_to_string env pmi ty n = Ok (enum_text pmi e, true) /\
    enum_parse (enum_table env ty) (enum_text pmi e) = Ok n /\
    enum_parse (enum_table env ty) (ev_name e) = Ok n /\
    (~ In COLON (ev_name e) -> forall m, ~ In COLON m ->
       enum_parse (enum_table env ty) (m ++ COLON :: ev_name e) = Ok n) /\
    (In COLON (ev_name e) -> forall m, ~ In COLON m ->
       enum_parse (enum_table env ty) (m ++ COLON :: ev_name e) <> Ok n).
Proof. exact enumc_bijection. Qed.
Print Assumptions c17_colon_bijection.

Theorem c17_colon_render_parse : forall env ty pmi n s,
  tblc_okb (enum_table env ty) = true ->
  enum_field_to_string env pmi ty n = Ok (s, true) -> enum_parse (enum_table env ty) s = Ok n.
Proof. exact enumc_render_parse. Qed.
Print Assumptions c17_colon_render_parse.

Theorem c17_colon_bijection_json : forall env fo pmi ty n j,
  tblc_okb (enum_table env ty) = true ->
  enc_scalar env fo pmi (VEnum ty n) = Ok j ->
  dec_json env fo (YEnum ty) j = Ok (VEnum ty n) /\ dec_json env fo (YIdref ty) j = Ok (VEnum ty n).
Proof. exact enumc_bijection_json. Qed.
Print Assumptions c17_colon_bijection_json.

(* names, values and keys are unique within a type *)
Theorem c17_colon_names_unique : forall t, tblc_okb t = true ->
  NoDup (map ev_name t) /\ NoDup (map ev_num t) /\ NoDup (map (fun e => strip_mod (ev_name e)) t) /\
  forall n1 n2 e1 e2, enum_by_num t n1 = Some e1 -> enum_by_num t n2 = Some e2 ->
    ev_name e1 = ev_name e2 -> n1 = n2.
Proof. exact enumc_names_unique. Qed.
Print Assumptions c17_colon_names_unique.

(* UNSET: as c17_unset_not_rendered_partial, for the wider class of tables *)
Theorem c17_colon_unset_not_rendered_partial : forall env pmi ty,
  enum_field_to_string env pmi ty 0 = Ok ([], false) /\
  enum_leaf env pmi ty 0 = Ok None /\
  (forall fo, tblc_okb (enum_table env ty) = true ->
     enum_by_num (enum_table env ty) 0 = None /\
     enc_enum env pmi ty 0 = Err /\
     enc_scalar env fo pmi (VEnum ty 0) = Err).
Proof. exact enumc_unset_not_rendered. Qed.
Print Assumptions c17_colon_unset_not_rendered_partial.

(* ---------- which strings parse ---------- *)

(* exactly the strings whose stripped form equals the key of a defined value parse, to that
   value; every other string is an error; parsing never panics *)
Theorem c17_colon_parse_iff : forall t s n, tblc_okb t = true ->
  (enum_parse t s = Ok n <->
   exists e, enum_by_num t n = Some e /\ strip_mod (ev_name e) = strip_mod s).
Proof. exact enumc_parse_iff. Qed.
Print Assumptions c17_colon_parse_iff.

Theorem c17_colon_parse_outcomes : forall t s,
  (enum_parse t s = Err <-> forall e, In e t -> strip_mod (ev_name e) <> strip_mod s) /\
  enum_parse t s <> Panic.
Proof. intros. split; [apply enumc_parse_err_iff | apply enum_parse_no_panic]. Qed.
Print Assumptions c17_colon_parse_outcomes.

(* name -> value -> name: an accepted string is the KEY of the value's entry, or the key behind
   one colon-free prefix *)
Theorem c17_colon_parse_render : forall t s n, tblc_okb t = true -> enum_parse t s = Ok n ->
  exists e, enum_by_num t n = Some e /\
    (s = strip_mod (ev_name e) \/
     exists m, s = m ++ COLON :: strip_mod (ev_name e) /\ ~ In COLON m /\ ~ In COLON (strip_mod (ev_name e))).
Proof. exact enumc_parse_render. Qed.
Print Assumptions c17_colon_parse_render.

(* The weakness, stated positively: for a name "p:b" with one ':' the key is b, so the suffix b
   alone and b behind ANY prefix m parse to the value although neither is a name of the type
   ("unicast" and "zz:unicast" for enum "ipv4:unicast"). *)
Theorem c17_colon_foreign_prefix_accepted : forall t n e p b m, tblc_okb t = true ->
  enum_by_num t n = Some e -> ev_name e = p ++ COLON :: b ->
  ~ In COLON p -> ~ In COLON b -> ~ In COLON m ->
  enum_parse t b = Ok n /\ enum_parse t (m ++ COLON :: b) = Ok n.
Proof. exact enumc_parse_foreign_prefix. Qed.
Print Assumptions c17_colon_foreign_prefix_accepted.

(* A module prefix in front of a name that contains ':' ("v-colon:ipv4:unicast"): accepted only
   if that whole string is literally another name of the table, and then as THAT entry's value;
   rejected otherwise.  (RFC 7951 never prefixes enumeration names; identities, which are
   prefixed, have no ':' in their names.) *)
Theorem c17_colon_prefixed_name : forall t n e m k, tblc_okb t = true ->
  enum_by_num t n = Some e -> In COLON (ev_name e) -> ~ In COLON m ->
  (enum_parse t (m ++ COLON :: ev_name e) = Ok k <->
   exists e', enum_by_num t k = Some e' /\ ev_name e' = m ++ COLON :: ev_name e).
Proof. exact enumc_parse_prefixed_colon_name. Qed.
Print Assumptions c17_colon_prefixed_name.

Theorem c17_colon_prefixed_name_rejected : forall t n e m, tblc_okb t = true ->
  enum_by_num t n = Some e -> In COLON (ev_name e) -> ~ In COLON m ->
  (forall e', In e' t -> ev_name e' <> m ++ COLON :: ev_name e) ->
  enum_parse t (m ++ COLON :: ev_name e) = Err.
Proof. exact enumc_parse_prefixed_colon_name_err. Qed.
Print Assumptions c17_colon_prefixed_name_rejected.

(* ---------- the corpus table and the refuted full statements ---------- *)

(* E_VColon_AfiSafi of yang/v-colon.yang:
   enum "ipv4:unicast"; enum "ipv6:labeled-unicast" { value 4; } enum "l2vpn:evpn"; enum plain; *)
Definition c17_s_ipv4_unicast : str := [105;112;118;52;58;117;110;105;99;97;115;116].
Definition c17_s_ipv6_lu : str := [105;112;118;54;58;108;97;98;101;108;101;100;45;117;110;105;99;97;115;116].
Definition c17_s_l2vpn_evpn : str := [108;50;118;112;110;58;101;118;112;110].
Definition c17_s_plain : str := [112;108;97;105;110].
Definition c17_afisafi : list enumval :=
  [ {| ev_num := 1; ev_name := c17_s_ipv4_unicast; ev_mod := [] |};
    {| ev_num := 5; ev_name := c17_s_ipv6_lu; ev_mod := [] |};
    {| ev_num := 6; ev_name := c17_s_l2vpn_evpn; ev_mod := [] |};
    {| ev_num := 7; ev_name := c17_s_plain; ev_mod := [] |} ].
Definition c17_s_zz_unicast : str := [122;122;58;117;110;105;99;97;115;116].                 (* "zz:unicast" *)
Definition c17_s_unicast : str := [117;110;105;99;97;115;116].                           (* "unicast" *)
Definition c17_s_mod_ipv4_unicast : str := [118;45;99;111;108;111;110;58;105;112;118;52;58;117;110;105;99;97;115;116].   (* "v-colon:ipv4:unicast" *)
Definition c17_s_ipv4_lu : str := [105;112;118;52;58;108;97;98;101;108;101;100;45;117;110;105;99;97;115;116].  (* "ipv4:labeled-unicast" *)

(* "An undefined name is rejected", at full strength (up to the one module prefix the code is
   documented to ignore): an accepted string is a name of the type or "m:name".  Holds when no
   name has a ':' (c17_colon_undefined_rejected_partial); false of the faithful model otherwise:
   "zz:unicast" (and "unicast", and "ipv4:labeled-unicast") are accepted. *)
Definition c17_colon_undefined_rejected_full : Prop := forall t s n,
  tblc_okb t = true -> enum_parse t s = Ok n ->
  exists e, enum_by_num t n = Some e /\ (s = ev_name e \/ exists m, s = m ++ COLON :: ev_name e).

Theorem c17_colon_undefined_rejected_partial : forall t s n,
  tbl_has_colonb t = false -> tblc_okb t = true -> enum_parse t s = Ok n ->
  exists e, enum_by_num t n = Some e /\ (s = ev_name e \/ exists m, s = m ++ COLON :: ev_name e).
Proof. exact enumc_undefined_rejected_guarded. Qed.
Print Assumptions c17_colon_undefined_rejected_partial.

Theorem c17_colon_undefined_rejected_refuted : ~ c17_colon_undefined_rejected_full.
Proof.
  intros H.
  assert (Hok : tblc_okb c17_afisafi = true) by (vm_compute; reflexivity).
  assert (Hp : enum_parse c17_afisafi c17_s_zz_unicast = Ok 1%Z) by (vm_compute; reflexivity).
  destruct (H c17_afisafi c17_s_zz_unicast 1%Z Hok Hp) as (e & He & Hs).
  vm_compute in He. injection He as <-. cbn [ev_name] in Hs. destruct Hs as [Hs | (m & Hs)].
  - discriminate Hs.
  - apply (f_equal (@length _)) in Hs. rewrite app_length in Hs. simpl in Hs. lia.
Qed.
Print Assumptions c17_colon_undefined_rejected_refuted.

(* "Parsing the name with or without module prefix yields the same value", at full strength.
   Holds for names without ':' (c17_colon_prefix_partial); false for a name with ':'. *)
Definition c17_colon_prefix_full : Prop := forall t n e m,
  tblc_okb t = true -> enum_by_num t n = Some e -> ~ In COLON m ->
  enum_parse t (m ++ COLON :: ev_name e) = Ok n.

Theorem c17_colon_prefix_partial : forall t n e m, tblc_okb t = true -> enum_by_num t n = Some e ->
  ~ In COLON (ev_name e) -> ~ In COLON m -> enum_parse t (m ++ COLON :: ev_name e) = Ok n.
Proof. exact enumc_parse_any_prefix. Qed.
Print Assumptions c17_colon_prefix_partial.

Theorem c17_colon_prefix_refuted : ~ c17_colon_prefix_full.
Proof.
  intros H.
  assert (Hok : tblc_okb c17_afisafi = true) by (vm_compute; reflexivity).
  specialize (H c17_afisafi 1%Z _ [118;45;99;111;108;111;110] Hok eq_refl).
  assert (Hm : ~ In COLON [118;45;99;111;108;111;110]) by (apply no_colon_spec; reflexivity).
  specialize (H Hm). vm_compute in H. discriminate H.
Qed.
Print Assumptions c17_colon_prefix_refuted.

(* Two names with the same part after the ':' ("a:b" and "x:b") are legal, distinct YANG enum
   names; the table is rejected by tblc_okb, and rightly: "x:b" (value 2) parses to 1. *)
Definition c17_same_suffix : list (str * Z) := [([97;58;98], 0%Z); ([120;58;98], 1%Z)].
Theorem c17_colon_same_suffix_refuted :
  let t := gen_enum_table c17_same_suffix in
  NoDup (map fst c17_same_suffix) /\ NoDup (map snd c17_same_suffix) /\
  tblc_okb t = false /\
  (exists e, enum_by_num t 2 = Some e /\ ev_name e = [120;58;98] /\ enum_parse t (ev_name e) = Ok 1%Z).
Proof.
  repeat split.
  - repeat constructor; simpl; intuition discriminate.
  - repeat constructor; simpl; intuition discriminate.
  - eexists. repeat split.
Qed.
Print Assumptions c17_colon_same_suffix_refuted.

(* ---------- per table, and the lifting used by the regenerated file ---------- *)

Definition c17_colon_table_statement := colon_table_statement.

Theorem c17_colon_table : forall t, tblc_okb t = true -> c17_colon_table_statement t.
Proof. exact colon_table_statement_ok. Qed.
Print Assumptions c17_colon_table.

(* tbl_checkb applies tblc_okb to a table with a ':' in some name and tbl_okb_full to any other:
   every checked table satisfies the colon statement, and a table without ':' also the statement
   of the first part (c17_table_statement, with the module-prefixed form) *)
Theorem c17_colon_lift : forall (ts : list (str * str * list enumval)),
  forallb (fun t => tbl_checkb (snd t)) ts = true ->
  forall t, In t ts ->
    c17_colon_table_statement (snd t) /\ (tbl_has_colonb (snd t) = false -> c17_table_statement (snd t)).
Proof. exact tbl_checkb_lift. Qed.
Print Assumptions c17_colon_lift.

(* the value+1 numbering of an enumeration statement whose names have distinct non-empty keys *)
Theorem c17_colon_gen_enum_ok_partial : forall vals, yang_enumc_wf vals -> tblc_okb (gen_enum_table vals) = true.
Proof. intros vals H. apply tblc_ok_spec. now apply gen_enum_table_wf_c. Qed.
Print Assumptions c17_colon_gen_enum_ok_partial.

(* ---------- non-vacuity ---------- *)

Example c17_colon_examples :
  let env := [([84], c17_afisafi)] in
  tblc_okb c17_afisafi = true /\ tbl_okb_full c17_afisafi = false /\ tbl_checkb c17_afisafi = true /\
  tbl_checkb c17_color = true /\ tbl_has_colonb c17_color = false /\ tblc_okb c17_baseid = true /\
  gen_enum_table [(c17_s_ipv4_unicast, 0%Z); (c17_s_ipv6_lu, 4%Z); (c17_s_l2vpn_evpn, 5%Z); (c17_s_plain, 6%Z)] = c17_afisafi /\
  enum_field_to_string env true [84] 1 = Ok (c17_s_ipv4_unicast, true) /\
  enum_parse c17_afisafi c17_s_ipv4_unicast = Ok 1%Z /\
  enum_parse c17_afisafi c17_s_ipv6_lu = Ok 5%Z /\
  enum_parse c17_afisafi c17_s_plain = Ok 7%Z /\
  enum_parse c17_afisafi c17_s_unicast = Ok 1%Z /\                (* undefined, accepted *)
  enum_parse c17_afisafi c17_s_zz_unicast = Ok 1%Z /\             (* undefined, accepted *)
  enum_parse c17_afisafi c17_s_ipv4_lu = Ok 5%Z /\                (* undefined, accepted as ipv6:labeled-unicast *)
  enum_parse c17_afisafi c17_s_mod_ipv4_unicast = Err /\          (* module-prefixed, rejected *)
  enum_parse c17_afisafi [105;112;118;52] = Err /\                (* "ipv4" *)
  enum_field_to_string env false [84] 0 = Ok ([], false) /\
  enum_field_to_string env false [84] 2 = Err.
Proof. vm_compute. repeat split; reflexivity. Qed.
