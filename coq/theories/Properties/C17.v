(* C17 — Enumeration and identity names map bijectively.
   Restatements of results proved in Scalar/EnumTableProofs.v and Tree/CodecProofs.v about the
   transcriptions of enumFieldToString / EnumName / EnumLogString and their callers
   (Scalar/EnumTable.v), castToEnumValue (Tree/Codec.v: enum_cast) and the generator's numbering
   (gen_enum_table, gen_identity_table).  The statement "for every generated type" is the
   regenerated obligation build/coqgen/C17_tables.v (written and compiled by lib/c17_pre.py on
   every run), which instantiates c17_lift below. *)
From Ygot Require Import Tree.Tree Tree.Codec Tree.CodecProofs Scalar.EnumTable Scalar.EnumTableProofs.

(* ---------- well-formed tables ---------- *)

(* tbl_okb_full decides: values distinct, names distinct, 0 (UNSET) not a defined value, names
   non-empty without ':' and module names without ':' *)
Theorem c17_tbl_ok_spec : forall t, tbl_okb_full t = true <->
  NoDup (map ev_num t) /\ NoDup (map ev_name t) /\ ~ In 0%Z (map ev_num t) /\
  Forall (fun e => ev_name e <> [] /\ ~ In COLON (ev_name e) /\ ~ In COLON (ev_mod e)) t.
Proof. exact tbl_ok_spec. Qed.
Print Assumptions c17_tbl_ok_spec.

(* ---------- value -> name -> value ---------- *)

(* every defined non-zero value is rendered (set = true) as its name, or module:name when
   asked, and each of these texts, the bare name and the module-qualified name parse back to
   the same value *)
Theorem c17_bijection : forall env ty, tbl_okb_full (enum_table env ty) = true ->
  forall n e, enum_by_num (enum_table env ty) n = Some e -> n <> 0%Z ->
  forall pmi,
    enum_field_to_string env pmi ty n = Ok (enum_text pmi e, true) /\
    enum_parse (enum_table env ty) (enum_text pmi e) = Ok n /\
    enum_parse (enum_table env ty) (ev_name e) = Ok n /\
    enum_parse (enum_table env ty) (ev_mod e ++ COLON :: ev_name e) = Ok n.
Proof. exact enum_bijection. Qed.
Print Assumptions c17_bijection.

(* whatever text the renderer produced for a set value parses back to that value *)
Theorem c17_render_parse : forall env ty pmi n s,
  tbl_okb_full (enum_table env ty) = true ->
  enum_field_to_string env pmi ty n = Ok (s, true) -> enum_parse (enum_table env ty) s = Ok n.
Proof. exact enum_render_parse. Qed.
Print Assumptions c17_render_parse.

(* the same through the JSON codec of the tree layer (ConstructIETFJSON ; Unmarshal) *)
Theorem c17_bijection_json : forall env fo pmi ty n j,
  tbl_okb_full (enum_table env ty) = true ->
  enc_scalar env fo pmi (VEnum ty n) = Ok j ->
  dec_json env fo (YEnum ty) j = Ok (VEnum ty n) /\ dec_json env fo (YIdref ty) j = Ok (VEnum ty n).
Proof. exact enum_bijection_json. Qed.
Print Assumptions c17_bijection_json.

(* name -> value -> name: an accepted string is, up to one module prefix, the name of the value *)
Theorem c17_parse_render : forall t s n, tbl_okb_full t = true -> enum_parse t s = Ok n ->
  exists e, enum_by_num t n = Some e /\ ev_name e = strip_mod s.
Proof. exact enum_parse_render. Qed.
Print Assumptions c17_parse_render.

(* names are unique within a type *)
Theorem c17_names_unique : forall t, tbl_okb_full t = true ->
  NoDup (map ev_name t) /\
  forall n1 n2 e1 e2, enum_by_num t n1 = Some e1 -> enum_by_num t n2 = Some e2 ->
    ev_name e1 = ev_name e2 -> n1 = n2.
Proof. exact enum_names_unique. Qed.
Print Assumptions c17_names_unique.

(* ---------- UNSET ---------- *)

(* The zero value is never rendered by a field: enumFieldToString reports "not set" for 0 for
   every table (even one that defines 0), a struct field and a union member in JSON are skipped,
   a struct field is skipped in gNMI notifications; and a well-formed table has no name for 0,
   so the tree-layer renderer (which never meets VEnum _ 0 in a TLeaf, the field being unset)
   has nothing it could print. *)
Theorem c17_unset_not_rendered_partial : forall env pmi ty,
  enum_field_to_string env pmi ty 0 = Ok ([], false) /\
  enum_leaf env pmi ty 0 = Ok None /\
  (forall fo, tbl_okb_full (enum_table env ty) = true ->
     enum_by_num (enum_table env ty) 0 = None /\
     enc_enum env pmi ty 0 = Err /\
     enc_scalar env fo pmi (VEnum ty 0) = Err).
Proof. exact enum_unset_not_rendered. Qed.
Print Assumptions c17_unset_not_rendered_partial.

(* The statement at full strength: no renderer emits anything for UNSET.  It is false of the
   faithful model: the callers that drop enumFieldToString's `set` result (EnumName, hence
   EncodeTypedValue and a simple-union member in notifications; KeyValueAsString; the element
   loop of an enum leaf-list) emit the empty string, and EncodeTypedValue panics on a wrapper
   union holding UNSET. *)
Definition c17_unset_full : Prop := forall env pmi ty wrapper,
  enum_leaf env pmi ty 0 = Ok None /\
  enum_elem env pmi ty 0 <> Ok [] /\
  enum_slice env pmi ty [0%Z] <> Ok [[]] /\
  enum_union_gnmi wrapper env ty 0 = Ok None.

Theorem c17_unset_elem_renders_empty : forall env pmi ty,
  enum_name env ty 0 = Ok [] /\ enum_elem env pmi ty 0 = Ok [] /\
  enum_slice env pmi ty [0%Z] = Ok [[]] /\
  enum_union_gnmi false env ty 0 = Ok (Some []) /\
  enum_union_gnmi true env ty 0 = Panic.
Proof. intros. repeat split. Qed.
Print Assumptions c17_unset_elem_renders_empty.

Theorem c17_unset_refuted : ~ c17_unset_full.
Proof. intros H. destruct (H [] false [] false) as (_ & H2 & _). now apply H2. Qed.
Print Assumptions c17_unset_refuted.

(* ---------- undefined values ---------- *)

(* a non-zero value that the table does not define makes every renderer fail *)
Theorem c17_undefined_errors : forall env fo pmi ty n,
  enum_by_num (enum_table env ty) n = None -> n <> 0%Z ->
  enum_field_to_string env pmi ty n = Err /\
  enum_leaf env pmi ty n = Err /\
  enum_elem env pmi ty n = Err /\
  enum_name env ty n = Err /\
  (forall wrapper, enum_union_gnmi wrapper env ty n = Err) /\
  (forall pre post, (forall m, In m pre -> exists s, enum_elem env pmi ty m = Ok s) ->
     enum_slice env pmi ty (pre ++ n :: post) = Err) /\
  enc_scalar env fo pmi (VEnum ty n) = Err /\
  enum_log_string env ty n = None.
Proof. exact enum_undefined_errors. Qed.
Print Assumptions c17_undefined_errors.

(* rendering fails exactly on undefined non-zero values, and never panics *)
Theorem c17_render_outcomes : forall env pmi ty n,
  (enum_field_to_string env pmi ty n = Err <-> n <> 0%Z /\ enum_by_num (enum_table env ty) n = None) /\
  enum_field_to_string env pmi ty n <> Panic.
Proof. intros. split; [apply enum_field_to_string_err_iff | apply enum_field_to_string_no_panic]. Qed.
Print Assumptions c17_render_outcomes.

(* ---------- the statement per table, and its lifting over a regenerated list ---------- *)

Definition c17_table_statement := table_statement.

Theorem c17_table : forall t, tbl_okb_full t = true -> c17_table_statement t.
Proof. exact table_statement_ok. Qed.
Print Assumptions c17_table.

(* used by the regenerated file: vm_compute establishes the forallb, this lemma lifts it *)
Theorem c17_lift : forall (ts : list (str * str * list enumval)),
  forallb (fun t => tbl_okb_full (snd t)) ts = true ->
  forall t, In t ts -> c17_table_statement (snd t).
Proof. exact table_statement_lift. Qed.
Print Assumptions c17_lift.

(* ---------- the generator's numbering ---------- *)

(* value+1 numbering of an enumeration statement gives a well-formed table provided no enum has
   value -1; alphabetical numbering of the identities of a base gives one provided the names
   are distinct across modules *)
Theorem c17_gen_enum_ok_partial : forall vals, yang_enum_wf vals -> tbl_okb_full (gen_enum_table vals) = true.
Proof. intros vals H. apply tbl_ok_spec. now apply gen_enum_table_wf. Qed.
Print Assumptions c17_gen_enum_ok_partial.

Theorem c17_gen_identity_ok_partial : forall ids, yang_identities_wf ids -> tbl_okb_full (gen_identity_table ids) = true.
Proof. intros ids H. apply tbl_ok_spec. now apply gen_identity_table_wf. Qed.
Print Assumptions c17_gen_identity_ok_partial.

(* Both guards are necessary (known findings, reproduced on the real generator by the
   adversarial schemas of lib/c17_pre.py).
   "enum x; enum y { value -1; }" is legal YANG: y gets Go value 0 = UNSET and can never be rendered. *)
Definition c17_minus_one : list (str * Z) := [([121], (-1)%Z); ([120], 0%Z)].          (* y = -1, x = 0 *)
Theorem c17_gen_enum_minus_one_refuted :
  NoDup (map fst c17_minus_one) /\ NoDup (map snd c17_minus_one) /\
  tbl_okb_full (gen_enum_table c17_minus_one) = false /\
  let env := [([84], gen_enum_table c17_minus_one)] in
  (exists e, enum_by_num (enum_table env [84]) 0 = Some e /\ ev_name e = [121]) /\
  enum_leaf env false [84] 0 = Ok None.
Proof.
  repeat split.
  - repeat constructor; simpl; intuition discriminate.
  - repeat constructor; simpl; intuition discriminate.
  - eexists. split; reflexivity.
Qed.
Print Assumptions c17_gen_enum_minus_one_refuted.

(* identity "same" defined in modules "a" and "b", both derived from one base: two values carry
   the name "same" (and the module of the later one); value 2 renders as "same", which parses to 1 *)
Definition c17_same_name : list (str * str) := [([115;97;109;101], [98]); ([122], [98]); ([115;97;109;101], [97])].
Theorem c17_gen_identity_same_name_refuted :
  let t := gen_identity_table c17_same_name in
  tbl_okb_full t = false /\
  (exists e, enum_by_num t 2 = Some e /\ enum_parse t (ev_name e) = Ok 1%Z /\ ev_mod e = [97]).
Proof. split; [reflexivity|]. eexists. repeat split. Qed.
Print Assumptions c17_gen_identity_same_name_refuted.

(* ---------- non-vacuity ---------- *)

(* E_VMain_Color and E_VMain_BaseId of the corpus *)
Definition c17_color : list enumval :=
  [ {| ev_num := 1; ev_name := [82;69;68]; ev_mod := [] |};
    {| ev_num := 6; ev_name := [71;82;69;69;78]; ev_mod := [] |};
    {| ev_num := 7; ev_name := [66;76;85;69]; ev_mod := [] |};
    {| ev_num := 8; ev_name := [100;97;114;107;45;103;114;101;121]; ev_mod := [] |} ].
Definition c17_baseid : list enumval :=
  [ {| ev_num := 1; ev_name := [105;100;45;97]; ev_mod := [118;45;109;97;105;110] |};
    {| ev_num := 2; ev_name := [105;100;45;98]; ev_mod := [118;45;109;97;105;110] |} ].
Example c17_examples :
  let env := [([67], c17_color); ([73], c17_baseid)] in
  tbl_okb_full c17_color = true /\ tbl_okb_full c17_baseid = true /\
  gen_enum_table [([82;69;68], 0%Z); ([71;82;69;69;78], 5%Z); ([66;76;85;69], 6%Z);
                  ([100;97;114;107;45;103;114;101;121], 7%Z)] = c17_color /\
  gen_identity_table [([105;100;45;98], [118;45;109;97;105;110]); ([105;100;45;97], [118;45;109;97;105;110])] = c17_baseid /\
  enum_field_to_string env true [73] 2 = Ok ([118;45;109;97;105;110;58;105;100;45;98], true) /\
  enum_parse c17_baseid [118;45;109;97;105;110;58;105;100;45;98] = Ok 2%Z /\
  enum_parse c17_color [71;82;69;69;78] = Ok 6%Z /\
  enum_parse c17_color [103;114;101;101;110] = Err /\
  enum_field_to_string env false [67] 2 = Err /\
  enum_field_to_string env false [67] 0 = Ok ([], false).
Proof. vm_compute. repeat split; reflexivity. Qed.
