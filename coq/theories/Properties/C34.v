(* C34 — generated keyed-list helpers behave as a keyed map.
   This file only restates results proved in Gen/KeyedMapProofs.v about the model
   Gen/KeyedMap.v (a transcription of the New/GetOrCreate/Get/Append/Delete/Rename templates of
   gogen/unordered_list.go), for an arbitrary Go key type K with equality keq, arbitrary
   entries V and ARBITRARY operation lists, starting from a parent whose map field is nil. *)
From Ygot Require Import Base.Base Gen.GoMap Gen.KeyedMap Gen.KeyedMapProofs Corr.KeyedMapCorr.

Section C34.
  Variables K V T : Type.
  Variable keq : K -> K -> bool.
  Variable keyof : V -> option K.
  Variable setkey : K -> V -> V.
  Variable mk : K -> T -> V.
  Hypothesis keq_spec : forall a b, keq a b = true <-> a = b.
  Hypothesis keyof_mk : forall k t, keyof (mk k t) = Some k.
  Hypothesis keyof_setkey : forall k v, keyof (setkey k v) = Some k.

  Notation kstep := (kstep K V T keq keyof setkey mk).
  Notation krun := (krun K V T keq keyof setkey mk).
  Notation karun := (karun K V T keq keyof setkey mk).
  Notation klookup := (klookup K V keq).

  (* each entry's key leaves equal its map key *)
  Theorem c34_inv : forall ops k e, klookup k (fst (krun None ops)) = Some e -> keyof e = Some k.
  Proof. exact (km_inv K V T keq keyof setkey mk keq_spec keyof_mk keyof_setkey). Qed.

  (* the helpers and the finite map K -> option V produce the same outputs for every call of
     every sequence, and the Go map always holds exactly the bindings of the finite map *)
  Theorem c34_refines : forall ops,
    snd (krun None ops) = snd (karun (am_empty K V) ops) /\
    forall k, klookup k (fst (krun None ops)) = fst (karun (am_empty K V) ops) k.
  Proof. exact (km_refines K V T keq keyof setkey mk keq_spec). Qed.

  (* New and Append reject duplicate keys (Append also a nil key field) without changing the map *)
  Theorem c34_new_append_reject_dup_no_change :
    (forall s op, is_new_or_append K V T op = true -> snd (kstep s op) = Err -> fst (kstep s op) = s) /\
    (forall s k t e, klookup k s = Some e -> snd (kstep s (KNew k t)) = Err) /\
    (forall s v k e, keyof v = Some k -> klookup k s = Some e -> snd (kstep s (KAppend (Some v))) = Err) /\
    (forall s v, keyof v = None -> kstep s (KAppend (Some v)) = (s, Err)).
  Proof.
    split; [exact (km_reject_no_change K V T keq keyof setkey mk)|].
    split; [exact (km_new_dup K V T keq keyof setkey mk)|].
    split; [exact (km_append_dup K V T keq keyof setkey mk)|].
    exact (km_append_nil_key K V T keq keyof setkey mk).
  Qed.

  (* ... and accept everything else, binding exactly the given key *)
  Theorem c34_new_fresh : forall s k t, klookup k s = None ->
    snd (kstep s (KNew k t)) = Ok (Some (mk k t)) /\
    klookup k (fst (kstep s (KNew k t))) = Some (mk k t) /\
    forall k', k' <> k -> klookup k' (fst (kstep s (KNew k t))) = klookup k' s.
  Proof. exact (km_new_fresh K V T keq keyof setkey mk keq_spec). Qed.

  Theorem c34_append_fresh : forall s v k, keyof v = Some k -> klookup k s = None ->
    snd (kstep s (KAppend (Some v))) = Ok None /\
    klookup k (fst (kstep s (KAppend (Some v)))) = Some v /\
    forall k', k' <> k -> klookup k' (fst (kstep s (KAppend (Some v)))) = klookup k' s.
  Proof. exact (km_append_fresh K V T keq keyof setkey mk keq_spec). Qed.

  (* GetOrCreate never panics, returns the entry bound to k afterwards, and calling it again
     returns the same entry and changes nothing; other keys are untouched *)
  Theorem c34_getorcreate_idempotent : forall s k t t',
    let r := kstep s (KGetOrCreate k t) in
    (exists v, snd r = Ok (Some v) /\ klookup k (fst r) = Some v) /\
    kstep (fst r) (KGetOrCreate k t') = r.
  Proof. exact (km_getorcreate_idempotent K V T keq keyof setkey mk keq_spec). Qed.

  Theorem c34_getorcreate_keeps_others : forall s k t k', k' <> k ->
    klookup k' (fst (kstep s (KGetOrCreate k t))) = klookup k' s.
  Proof. exact (km_getorcreate_keeps_others K V T keq keyof setkey mk keq_spec). Qed.

  (* Get never creates entries: the state (nil-ness of the map included) is unchanged *)
  Theorem c34_get_pure : forall s k, kstep s (KGet k) = (s, Ok (klookup k s)).
  Proof. exact (km_get_pure K V T keq keyof setkey mk). Qed.

  Theorem c34_delete : forall s k,
    snd (kstep s (KDelete k)) = Ok None /\
    klookup k (fst (kstep s (KDelete k))) = None /\
    forall k', k' <> k -> klookup k' (fst (kstep s (KDelete k))) = klookup k' s.
  Proof. exact (km_delete K V T keq keyof setkey mk keq_spec). Qed.

  (* Rename moves the entry and updates its key leaves; it fails, changing nothing, when the
     new key is taken (old = new included) or the old key is absent *)
  Theorem c34_rename_moves : forall s old new e,
    klookup old s = Some e -> klookup new s = None ->
    let s' := fst (kstep s (KRename old new)) in
    snd (kstep s (KRename old new)) = Ok None /\
    klookup new s' = Some (setkey new e) /\
    klookup old s' = None /\
    forall k, k <> old -> k <> new -> klookup k s' = klookup k s.
  Proof. exact (km_rename_moves K V T keq keyof setkey mk keq_spec). Qed.

  Theorem c34_rename_rejects : forall s old new,
    (klookup new s <> None \/ klookup old s = None) -> kstep s (KRename old new) = (s, Err).
  Proof. exact (km_rename_rejects K V T keq keyof setkey mk). Qed.

  (* "Append rejects nil keys", read at the level of YANG key leaves (unset g: the Go key value
     g stands for an unset leaf — enum value 0, nil union interface) *)
  Definition c34_append_rejects_nil_full (unset : K -> bool) : Prop :=
    forall s v, snd (kstep s (KAppend (Some v))) = Ok None -> key_leaves_set K V keyof unset v.

  (* holds for lists all of whose key fields are pointer-typed ... *)
  Theorem c34_append_rejects_nil_partial : forall unset, (forall k, unset k = false) ->
    c34_append_rejects_nil_full unset.
  Proof. exact (km_append_rejects_unset_partial K V T keq keyof setkey mk). Qed.

  (* ... and is false for a list with an enum, identityref or union key: AppendL accepts the
     entry whose key leaf is unset *)
  Theorem c34_append_nil_refuted_enum_union : forall unset k0 (t : T), unset k0 = true ->
    ~ c34_append_rejects_nil_full unset.
  Proof.
    intros unset k0 t U F.
    destruct (km_append_accepts_unset K V T keq keyof setkey mk keyof_mk unset k0 t U) as [A B].
    apply B. exact (F _ _ A).
  Qed.

  (* "a map from key tuples to entries", read at the level of YANG key values (yval g: the
     YANG value(s) the Go key g stands for) *)
  Definition c34_yang_unique_full (Y : Type) (yval : K -> Y) : Prop :=
    forall ops k1 k2 e1 e2,
      klookup k1 (fst (krun None ops)) = Some e1 -> klookup k2 (fst (krun None ops)) = Some e2 ->
      yval k1 = yval k2 -> k1 = k2 /\ e1 = e2.

  (* holds when distinct Go keys stand for distinct YANG values ... *)
  Theorem c34_yang_unique_partial : forall Y (yval : K -> Y),
    (forall a b, yval a = yval b -> a = b) -> c34_yang_unique_full Y yval.
  Proof. exact (km_yang_unique_partial K V T keq keyof setkey mk). Qed.

  (* ... and is false otherwise (wrapper unions: the Go key is the address of a wrapper struct):
     two entries with the same YANG key value are created *)
  Theorem c34_yang_unique_refuted_wrapper_union : forall Y (yval : K -> Y) k1 k2 (t : T),
    k1 <> k2 -> yval k1 = yval k2 -> ~ c34_yang_unique_full Y yval.
  Proof.
    intros Y yval k1 k2 t N E F.
    destruct (km_yang_dup_accepted K V T keq keyof setkey mk keq_spec Y yval k1 k2 t t N E) as [_ [A B]].
    destruct (F _ _ _ _ _ A B E) as [C _]. contradiction.
  Qed.

  Theorem c34_outputs_stable : forall ops ops' s,
    firstn (length ops) (snd (krun s (ops ++ ops'))) = snd (krun s ops).
  Proof. exact (km_outputs_stable K V T keq keyof setkey mk). Qed.
End C34.

Print Assumptions c34_inv.
Print Assumptions c34_refines.
Print Assumptions c34_new_append_reject_dup_no_change.
Print Assumptions c34_new_fresh.
Print Assumptions c34_append_fresh.
Print Assumptions c34_getorcreate_idempotent.
Print Assumptions c34_getorcreate_keeps_others.
Print Assumptions c34_get_pure.
Print Assumptions c34_delete.
Print Assumptions c34_rename_moves.
Print Assumptions c34_rename_rejects.
Print Assumptions c34_append_rejects_nil_partial.
Print Assumptions c34_append_nil_refuted_enum_union.
Print Assumptions c34_yang_unique_partial.
Print Assumptions c34_yang_unique_refuted_wrapper_union.
Print Assumptions c34_outputs_stable.

(* Non-vacuity at the instance used by the correspondence check (K := N): the three hypotheses
   are satisfiable, and a run reaches a state with renamed and re-created entries. *)
Example c34_instance :
  (forall a b : N, N.eqb a b = true <-> a = b) /\
  (forall k t, km_keyof (km_mk k t) = Some k) /\
  (forall k v, km_keyof (km_setkey k v) = Some k).
Proof. split; [exact N.eqb_eq|split; reflexivity]. Qed.

Open Scope N_scope.
Definition c34_example_ops : list km_op :=
  [ KGet 1; KRename 1 2; KDelete 1;       (* nil map: not found / error / no-op *)
    KNew 1 10; KNew 1 11;                 (* created / duplicate *)
    KAppend (Some (Some 2, 12)); KAppend (Some (Some 2, 13)); KAppend (Some (None, 14)); KAppend None;
    KGetOrCreate 2 15; KGetOrCreate 3 16;
    KRename 1 1; KRename 1 2; KRename 1 4; KRename 1 4;
    KDelete 2; KGet 2; KGet 4 ].
Example c34_example_run :
  snd (krun N km_cV N N.eqb km_keyof km_setkey km_mk None c34_example_ops) =
    [ Ok None; Err; Ok None;
      Ok (Some (Some 1, 10)); Err;
      Ok None; Err; Err; Panic;
      Ok (Some (Some 2, 12)); Ok (Some (Some 3, 16));
      Err; Err; Ok None; Err;
      Ok None; Ok None; Ok (Some (Some 4, 10)) ]
  /\ km_dump_of (fst (krun N km_cV N N.eqb km_keyof km_setkey km_mk None c34_example_ops)) =
     Some [(3, (Some 3, 16)); (4, (Some 4, 10))].
Proof. split; vm_compute; reflexivity. Qed.
