(* C26 — generated Go code matches the schema it embeds.
   Translation validation: the generator is not modelled.  On every run the Go struct types of
   every generated package (field names, struct tags, Go type kinds, read by reflection) and the
   goyang tree of its input modules are printed as terms; `fits` states that the structs match the
   schema under the package's compression behaviour and fits_b decides it.  (That the generated
   packages compile and pass go vet is established by running the Go toolchain on each of them:
   no executable Gallina model expresses Go's type checker; see the evidence of the run.)
   This file restates results of Gen/SchemaMatchProofs.v; the per-run obligation lives in
   build/coqgen/C26_obligation.v. *)
From Ygot Require Import Base.Base Gen.SchemaEq Gen.SchemaEqProofs Gen.SchemaMatch Gen.SchemaMatchProofs.

(* the checker decides the declarative statement, for every struct tree and schema tree *)
Theorem c26_fits_b_spec : forall g cb om isroot cfg e,
  fits_b cb om isroot cfg e g = true <-> fits cb om isroot cfg e g.
Proof. exact fits_b_spec. Qed.
Print Assumptions c26_fits_b_spec.

Theorem c26_lift : forall cs, forallb gcase_ok cs = true -> forall c, In c cs -> gcase_fits c.
Proof. exact gcases_lift. Qed.
Print Assumptions c26_lift.

(* what `fits` says, unfolded once.  Coverage: every schema data node reachable under the
   compression rule appears as exactly one field ... *)
Theorem c26_coverage : forall cb om isroot cfg e f k fields,
  fits cb om isroot cfg e (GN f k fields) ->
  forall x, In x (expected cb isroot cfg e) ->
  exists l1 g l2, fields = l1 ++ g :: l2 /\ primary_path g = x_path x /\
                  Forall (fun y => primary_path y <> x_path x) l1 /\ Forall (fun y => primary_path y <> x_path x) l2.
Proof. exact fits_covers. Qed.
Print Assumptions c26_coverage.

(* ... and every field's path and module tags resolve to an expected node whose kind fits the
   field's Go type, recursively for containers and lists. *)
Theorem c26_fields_resolve : forall cb om isroot cfg e f k fields,
  fits cb om isroot cfg e (GN f k fields) ->
  forall g, In g fields -> exists x, In x (expected cb isroot cfg e) /\ field_ok cb om e x g /\
     (is_dirnode (x_node x) = true -> fits cb om false (x_cfg x) (x_node x) g).
Proof. exact fits_fields. Qed.
Print Assumptions c26_fields_resolve.

(* choice and case nodes never appear as fields *)
Theorem c26_choice_case_skipped : forall cfg n,
  Forall (fun nc => choice_or_case (fst nc) = false) (flatten_choice cfg n).
Proof. exact children_plain_no_choice. Qed.
Print Assumptions c26_choice_case_skipped.

(* The schema tree used by the check is the embedded schema (C27: embed opts mods, the tree that
   UnzipSchema yields) with the instantiating modules added for the `module` tags. *)
Theorem c26_schema_is_embedded_schema : forall c, erase_mods (gcase_schema c) = embed (gc_opts c) (gc_mods c).
Proof. exact gcase_schema_is_embedded. Qed.
Print Assumptions c26_schema_is_embedded_schema.

(* ---------- non-vacuity: a two-level OpenConfig-shaped schema ---------- *)
Definition c26_s (l : list N) : str := l.
Definition c26_leaf (name : str) (tk : N) (cfg : N) : ynode :=
  YN (MkA name K_leaf cfg TS_unset [] None None [] [] [] [109] [] [])
     (Some (YT [] tk None [] [] [] [] false 0 [] false [] [] [] [] [])) [].
Definition c26_dir (name : str) (cfg : N) (ch : list ynode) : ynode :=
  YN (MkA name K_dir cfg TS_unset [] None None [] [] [] [109] [] []) None ch.
(* container top { container config { leaf a {string} }  container state { config false; leaf a; leaf c {uint8} } } *)
Definition c26_top : ynode :=
  c26_dir [116] TS_unset
    [c26_dir s_config TS_unset [c26_leaf [97] 18 TS_unset];
     c26_dir s_state TS_false [c26_leaf [97] 18 TS_unset; c26_leaf [99] 5 TS_unset]].
Definition c26_root : ynode := c26_dir [100] TS_unset [c26_top].
Definition c26_fld (name : str) (path mods : list str) (k : gokind) (sub : list gnode) : gnode :=
  GN (MkG name [path] [mods] [] []) k sub.
Definition c26_go (a_from : str) : gnode :=
  GN (MkG [68] [] [] [] []) GStructPtr
     [c26_fld [84] [[116]] [[109]] GStructPtr
        [c26_fld [65] [a_from; [97]] [[109]; [109]] (GPtrScalar RK_string) [];
         c26_fld [67] [s_state; [99]] [[109]; [109]] (GPtrScalar 8) []]].

(* the same structs fit under prefer-config only when `a` is mapped to config/a, under prefer-state
   only when it is mapped to state/a; without compression they do not fit at all *)
Example c26_fits_discriminates :
  fits_b PreferIntendedConfig true true true c26_root (c26_go s_config) = true /\
  fits_b PreferIntendedConfig true true true c26_root (c26_go s_state) = false /\
  fits_b PreferOperationalState true true true c26_root (c26_go s_state) = true /\
  fits_b Uncompressed true true true c26_root (c26_go s_config) = false /\
  map x_path (find_children ExcludeDerivedState true c26_top) = [[s_config; [97]]].
Proof. repeat split; vm_compute; reflexivity. Qed.
