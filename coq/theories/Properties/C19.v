(* C19 — RFC7951 output uses the RFC 7951 / RFC 7950 encodings. *)
From Ygot Require Import Tree.Tree Scalar.Dec Scalar.DecProofs Scalar.Base64 Scalar.Base64Proofs
  Tree.Codec Tree.CodecProofs Tree.Render.

(* lexical form of every scalar kind: 8/16/32-bit integers are JSON numbers, 64-bit integers are
   strings of decimal digits with an optional '-', binary is base64, empty is [null], booleans are
   JSON booleans, enumerations/identities are names; decimal64 is the oracle's text *)
Theorem c19_lexical : forall env fo pmi v j, enc_scalar env fo pmi v = Ok j ->
  match v with
  | VInt k z => if ikind_is64 k then j = JStr (dec_of_Z z) /\ dec_lexical (dec_of_Z z) = true else j = JNum z 0
  | VStr s => j = JStr s
  | VBool b => j = JBool b
  | VDec bits => j = JStr (ffmt fo bits)
  | VBin bs => j = JStr (b64enc bs) /\ forallb b64_alphab (b64enc bs) = true
  | VEmpty => j = JArr [JNull]
  | VEnum ty n => exists s, j = JStr s
  end.
Proof. exact enc_scalar_lexical. Qed.
Print Assumptions c19_lexical.

(* decimal64: the text is whatever the float oracle supplies; "no exponent" is the oracle
   hypothesis dec64_lexb (ffmt fo b) = true, which the harness checks on every float it emits
   (reference text = strconv.FormatFloat(f,'f',-1,64)). *)

(* an undefined enumeration value makes rendering fail instead of producing output *)
Theorem c19_undefined_enum_errors : forall env fo pmi ty n,
  enc_scalar env fo pmi (VEnum ty n) = Err <-> enum_by_num (enum_table env ty) n = None.
Proof. exact enc_scalar_enum_err. Qed.
Print Assumptions c19_undefined_enum_errors.

(* identityrefs are "module:identity" exactly when AppendModuleName or
   PrependModuleNameIdentityref is set and the identity has a defining module *)
Theorem c19_identityref_prefix : forall env pmi ty n e,
  enum_by_num (enum_table env ty) n = Some e ->
  enc_enum env pmi ty n =
    Ok (if pmi && negb (nil_b (ev_mod e)) then ev_mod e ++ COLON :: ev_name e else ev_name e).
Proof. intros env pmi ty n e H. unfold enc_enum. now rewrite H. Qed.
Print Assumptions c19_identityref_prefix.

(* a member name carries its module prefix exactly when its (rewritten) module differs from its
   parent's; at the top level (parent "") a non-empty module is always prepended *)
Theorem c19_member_prefix : forall cfg parent m,
  prepend_one cfg parent [m] =
    ([if str_eqb (rewrite_mod cfg m) parent then [] else rewrite_mod cfg m],
     if str_eqb (rewrite_mod cfg m) parent then parent else rewrite_mod cfg m).
Proof. intros cfg parent m. cbn [prepend_one]. destruct (str_eqb (rewrite_mod cfg m) parent); reflexivity. Qed.
Print Assumptions c19_member_prefix.

Theorem c19_top_level_prefixed : forall cfg m k,
  rewrite_mod cfg m <> [] ->
  qualify_path (fst (prepend_one cfg [] [m])) [k] = [rewrite_mod cfg m ++ COLON :: k].
Proof.
  intros cfg m k H. rewrite c19_member_prefix. cbn [fst].
  destruct (rewrite_mod cfg m) as [|c r] eqn:E; [congruence|]. reflexivity.
Qed.
Print Assumptions c19_top_level_prefixed.

Example c19_examples :
  enc_scalar [] (mk_float_oracle [] []) true (VInt I64 (-9223372036854775808)) =
    Ok (JStr [45;57;50;50;51;51;55;50;48;51;54;56;53;52;55;55;53;56;48;56]) /\
  enc_scalar [] (mk_float_oracle [] []) true (VInt U8 255) = Ok (JNum 255 0) /\
  enc_scalar [] (mk_float_oracle [] []) true (VBin [1;2]) = Ok (JStr [65;81;73;61]).
Proof. vm_compute. repeat split; reflexivity. Qed.
