(* C12 — DeleteNode removes exactly the addressed subtree.
   "After DeleteNode(schema, root, p), GetNode finds no data at or below p, and every leaf
   outside p keeps its value.  Containers (presence containers included, as documented) and list
   entries on the way to p that become empty are removed.  Deleting a path that holds no data,
   or deleting twice, leaves the tree unchanged apart from that pruning."

   Model: Tree/Node.v (delete_node / delete_node_st, get_node), tied to ytypes/node.go by the
   nodeops stream.  Proofs: Tree/NodeProofs.v (del_rec_spec and corollaries), Tree/NodeTotalProofs.v.
   This file only restates them.  Vocabulary as in Properties/C10.v: structural addresses
   (`addr_of S p = Some (sp, fl, ss, kl)`: address, prune flags, schema of the node, key-leaf
   flag), `sub_at`, the guards swfb / root_okb (root_ok).  Paths: any container, list entry (all
   keys given, canonical strings), leaf or leaf-list path, present or absent; Go maps and ordered
   maps.

   The pruning the model does, precisely (Node.prune_child and the is_empty_cont tests): after a
   successful descent the child is removed from its parent when it is an empty struct under a
   container schema (presence or not) or an empty Go map; a list entry is removed from its list
   when it is an empty struct (no field at all: an entry that still holds its key leaves stays);
   an emptied ordered map stays.  fl flags the steps of the address where this applies, and
   `clean c sp fl` says that no flagged node strictly inside the spine is empty.  The root is
   never removed.

   Names ending in _partial: proved on the domain of addr_of and the guards swfb / root_ok.  Not
   covered, exactly: key strings that are not canonical (then no entry matches and DeleteNode is
   a no-op), elements without all keys (c12_refuted_keyless_list_path: an error on a non-empty
   list), trees outside root_ok, PreferShadowPath; when the deleted node is a key leaf (kl = true)
   removal and frame still hold but the tree guard is lost (C16), so the statements that need it
   afterwards (GetNode, idempotence, sequences) ask for kl = false; leaf-level claims are about
   sub_at / leaf_at, the link to Leaves.leaves is not proved.  c12_delete_total and
   c12_delete_root are unguarded. *)
From Coq Require Import String Ascii.
From Ygot Require Import Tree.Tree Tree.Codec Tree.TreeOps Tree.Unmarshal Tree.KeyCodec Tree.Leaves Tree.Node Path.PathRel.
From Ygot Require Import Tree.MergeJson Tree.NodeFrameProofs Tree.NodeProofs Tree.NodeTotalProofs Tree.NodeExamples.
From Ygot Require Import Tree.GnmiStatements.
From Ygot Require Import Tree.SetReq Tree.SetReqSpec Tree.LeavesPartsProofs Tree.SetReqBridgeProofs.

(* ---------- 1. DeleteNode succeeds and removes the subtree ---------- *)
(* for every addressable path (key leaf or not): success, nothing is left at or below the address,
   and nothing that was absent appears *)
Theorem c12_delete_removes_subtree_partial : forall env fo ko S t p sp fl ss kl,
  swfb S = true -> root_ok env fo ko S t -> addr_of env fo ko S p = Some (sp, fl, ss, kl) -> p <> [] ->
  exists t', delete_node env fo ko false S t p = Ok t'
    /\ (forall q, sprefix sp q -> sub_at t' q = None)
    /\ (forall q, sub_at t q = None -> sub_at t' q = None).
Proof.
  intros env fo ko S t p sp fl ss kl Hw Hr Ha Hp.
  destruct (delete_node_at env fo ko S t p sp fl ss kl Hw Hr Ha Hp) as (t' & H1 & H2 & _ & _ & _ & _ & H7). eauto.
Qed.
Print Assumptions c12_delete_removes_subtree_partial.

(* GetNode afterwards: no data (no node, or nodes whose Data is nil) *)
Theorem c12_get_after_delete_partial : forall env fo ko og S t p sp fl ss t',
  g_shadow og = false -> g_wild og = false -> g_tolerate_nil og = true ->
  swfb S = true -> root_ok env fo ko S t -> addr_of env fo ko S p = Some (sp, fl, ss, false) -> p <> [] ->
  delete_node env fo ko false S t p = Ok t' ->
  exists ns, get_node env fo ko og S t' p = Ok ns /\ nil_nodes ns.
Proof. exact get_after_delete. Qed.
Print Assumptions c12_get_after_delete_partial.

(* the root path zeroes the root struct *)
Theorem c12_delete_root : forall env fo ko S fs, delete_node env fo ko false S (TCont fs) [] = Ok (TCont []).
Proof. exact delete_root. Qed.
Print Assumptions c12_delete_root.

(* ---------- 2. frame ---------- *)
(* every subtree that is neither on the spine nor below the address is as it was; the guard is
   kept unless the deleted node is a key leaf *)
Theorem c12_delete_frame_partial : forall env fo ko S t p sp fl ss kl t',
  swfb S = true -> root_ok env fo ko S t -> addr_of env fo ko S p = Some (sp, fl, ss, kl) -> p <> [] ->
  delete_node env fo ko false S t p = Ok t' ->
  (forall q, ~ sprefix q sp -> ~ sprefix sp q -> sub_at t' q = sub_at t q)
  /\ (forall q, no_index q -> ~ sprefix q sp -> ~ sprefix sp q -> leaf_at t' q = leaf_at t q)
  /\ (kl = false -> root_ok env fo ko S t').
Proof.
  intros env fo ko S t p sp fl ss kl t' Hw Hr Ha Hp Hd.
  destruct (delete_node_at env fo ko S t p sp fl ss kl Hw Hr Ha Hp) as (t1 & H1 & _ & H3 & H4 & _).
  rewrite Hd in H1. injection H1 as <-. split; [exact H3|]. split; auto.
  intros q Hq Ha1 Ha2. now apply (del_frame_leaf_at t t' sp q).
Qed.
Print Assumptions c12_delete_frame_partial.

(* ---------- 3. pruning ---------- *)
Theorem c12_no_empty_on_spine_partial : forall env fo ko S t p sp fl ss kl t',
  swfb S = true -> root_ok env fo ko S t -> addr_of env fo ko S p = Some (sp, fl, ss, kl) -> p <> [] ->
  delete_node env fo ko false S t p = Ok t' -> clean (Some t') sp fl.
Proof.
  intros env fo ko S t p sp fl ss kl t' Hw Hr Ha Hp Hd.
  destruct (delete_node_at env fo ko S t p sp fl ss kl Hw Hr Ha Hp) as (t1 & H1 & _ & _ & _ & H5 & _).
  rewrite Hd in H1. now injection H1 as <-.
Qed.
Print Assumptions c12_no_empty_on_spine_partial.

(* deleting what is not there is the identity, provided nothing prunable on the spine is empty
   already (such nodes are removed by the descent) *)
Theorem c12_delete_absent_noop_partial : forall env fo ko S t p sp fl ss kl,
  swfb S = true -> root_ok env fo ko S t -> addr_of env fo ko S p = Some (sp, fl, ss, kl) -> p <> [] ->
  sub_at t sp = None -> clean (Some t) sp fl -> delete_node env fo ko false S t p = Ok t.
Proof.
  intros env fo ko S t p sp fl ss kl Hw Hr Ha Hp Hn Hc.
  destruct (delete_node_at env fo ko S t p sp fl ss kl Hw Hr Ha Hp) as (t1 & H1 & _ & _ & _ & _ & H6 & _).
  now rewrite H1, (H6 Hn Hc).
Qed.
Print Assumptions c12_delete_absent_noop_partial.

Theorem c12_delete_idempotent_partial : forall env fo ko S t p sp fl ss t',
  swfb S = true -> root_ok env fo ko S t -> addr_of env fo ko S p = Some (sp, fl, ss, false) -> p <> [] ->
  delete_node env fo ko false S t p = Ok t' -> delete_node env fo ko false S t' p = Ok t'.
Proof. exact delete_idempotent. Qed.
Print Assumptions c12_delete_idempotent_partial.

(* ---------- 4. sequences of deletions ---------- *)
Theorem c12_history_partial : forall env fo ko S, swfb S = true ->
  forall ps sps t, Forall2 (del_op_ok env fo ko S) ps sps -> root_ok env fo ko S t ->
  exists t', del_seq env fo ko S t ps = Ok t' /\ root_ok env fo ko S t'
    /\ (forall sp q, In sp sps -> sprefix sp q -> sub_at t' q = None)
    /\ (forall q, (forall sp, In sp sps -> ~ sprefix q sp /\ ~ sprefix sp q) -> sub_at t' q = sub_at t q)
    /\ (forall q, sub_at t q = None -> sub_at t' q = None).
Proof. exact del_seq_history. Qed.
Print Assumptions c12_history_partial.

(* ---------- 5. totality ---------- *)
(* DeleteNode never panics: any schema, tree, path, PreferShadowPath or not *)
Theorem c12_delete_total : forall env fo ko sh S t p t', delete_node_st env fo ko sh S t p <> (t', Panic).
Proof. exact delete_node_no_panic. Qed.
Print Assumptions c12_delete_total.

(* ====================================================================================== *)
(* Known deviations (witnesses on the example schema)                                     *)
(* ====================================================================================== *)
Local Open Scope string_scope.

(* naming a non-empty list without keys is an error (outside the domain of addr_of) *)
Theorem c12_refuted_keyless_list_path : GnmiStatements.c12_refuted_keyless_list_path.
Proof.
  destruct (node_at ex_schema [el "interfaces"; el "interface"]) as [ni|] eqn:En; [|vm_compute in En; discriminate].
  exists ex_schema, ex_env, ex_fo, ex_ko, ex_tree, [el "interfaces"; el "interface"], ni.
  split; [vm_compute; reflexivity|]. split; [exact En|].
  split; [vm_compute in En; injection En as <-; reflexivity | vm_compute; reflexivity].
Qed.
Print Assumptions c12_refuted_keyless_list_path.

(* documented behaviour, stated as such: an emptied presence container is removed like any other *)
Definition c12_sys_tree : tree :=
  TCont [(s_ "Hostname", TLeaf (VStr (s_ "r1"))); (s_ "Ntp", TCont [(s_ "Enabled", TLeaf (VBool true))])].
Theorem c12_presence_container_pruned : GnmiStatements.c12_refuted_presence_pruned.
Proof.
  exists ex_sys, ex_env, ex_fo, ex_ko, c12_sys_tree, (el "ntp"), (el "enabled"),
    (TCont [(s_ "Hostname", TLeaf (VStr (s_ "r1")))]), (mkf "Ntp" [["ntp"]] true), ex_ntp.
  split; [right; left; reflexivity|]. split; [reflexivity|]. split; [reflexivity|].
  split; [vm_compute; discriminate|]. split; vm_compute; reflexivity.
Qed.
Print Assumptions c12_presence_container_pruned.

(* ====================================================================================== *)
(* Non-vacuity                                                                            *)
(* ====================================================================================== *)
Definition c12_root : root_ok ex_env ex_fo ex_ko ex_schema ex_tree :=
  root_okb_sound ex_env ex_fo ex_ko ex_schema ex_tree eq_refl eq_refl.
Definition c12_addr (p : dpath) : option (list step * list bool * bool) :=
  match addr_of ex_env ex_fo ex_ko ex_schema p with Some (sp, fl, _, kl) => Some (sp, fl, kl) | None => None end.
Definition DEL (t : tree) (p : dpath) : result tree := delete_node ex_env ex_fo ex_ko false ex_schema t p.

(* container, list entry, nested-list entry (absent), ordered-list entry, leaf, leaf-list paths *)
Example c12_addresses :
  c12_addr [el "system"] = Some ([StF (s_ "System")], [true], false)
  /\ c12_addr (p_if "eth0") = Some ([StF (s_ "Iface"); StK [VStr (s_ "eth0")]], [true; true], false)
  /\ c12_addr [el "rules"; elk "rule" [("seq", "10")]] = Some ([StF (s_ "Rule"); StK [VInt U32 10]], [false; true], false)
  /\ c12_addr p_ntp_enabled = Some ([StF (s_ "System"); StF (s_ "Ntp"); StF (s_ "Enabled")], [true; true; false], false)
  /\ c12_addr p_tags = Some ([StF (s_ "Tags")], [false], false)
  /\ c12_addr (p_acl_descr "a1" "ACL_IPV4") = Some ([StF (s_ "Acl"); StK [VStr (s_ "a1"); VEnum (s_ "E_AclType") 1]; StF (s_ "Descr")], [true; true; false], false).
Proof. repeat split; vm_compute; reflexivity. Qed.

(* the theorems applied: a list entry is removed, GetNode finds nothing, the other entry stays,
   a second delete changes nothing *)
Example c12_entry_example :
  exists t', DEL ex_tree (p_if "eth0") = Ok t'
    /\ sub_at t' [StF (s_ "Iface"); StK [VStr (s_ "eth0")]; StF (s_ "Mtu")] = None
    /\ sub_at t' [StF (s_ "Iface"); StK [VStr (s_ "eth1")]; StF (s_ "Mtu")] = Some (TLeaf (VInt U16 9000))
    /\ (exists ns, get_node ex_env ex_fo ex_ko ex_get ex_schema t' (p_if "eth0") = Ok ns /\ nil_nodes ns)
    /\ DEL t' (p_if "eth0") = Ok t'.
Proof.
  destruct (delete_node_at ex_env ex_fo ex_ko ex_schema ex_tree (p_if "eth0") _ _ _ _ eq_refl c12_root eq_refl ltac:(discriminate))
    as (t' & Hd & Hsub & Hfr & Hr' & _).
  exists t'. split; [exact Hd|]. split; [apply Hsub; eexists; reflexivity|]. split; [|split].
  - transitivity (sub_at ex_tree [StF (s_ "Iface"); StK [VStr (s_ "eth1")]; StF (s_ "Mtu")]); [|vm_compute; reflexivity].
    apply (Hfr [StF (s_ "Iface"); StK [VStr (s_ "eth1")]; StF (s_ "Mtu")]); intros [c Hc]; discriminate Hc.
  - eapply (c12_get_after_delete_partial ex_env ex_fo ex_ko ex_get ex_schema ex_tree (p_if "eth0")); try reflexivity;
      [exact c12_root | discriminate | exact Hd].
  - eapply (c12_delete_idempotent_partial ex_env ex_fo ex_ko ex_schema ex_tree (p_if "eth0")); try reflexivity;
      [exact c12_root | discriminate | exact Hd].
Qed.

(* pruning: deleting the only leaf of the presence container removes the container; after the
   hostname is gone too, the enclosing container goes; an ordered map emptied of its entries stays *)
Example c12_pruning_example :
  (exists t', DEL ex_tree p_ntp_enabled = Ok t'
     /\ sub_at t' [StF (s_ "System"); StF (s_ "Ntp")] = None
     /\ sub_at t' [StF (s_ "System"); StF (s_ "Hostname")] = Some (TLeaf (VStr (s_ "r1"))))
  /\ (exists t1 t2, DEL ex_tree p_hostname = Ok t1 /\ DEL t1 p_ntp_enabled = Ok t2 /\ sub_at t2 [StF (s_ "System")] = None)
  /\ (exists t1 t2, DEL ex_tree [el "rules"; elk "rule" [("seq", "10")]] = Ok t1
        /\ DEL t1 [el "rules"; elk "rule" [("seq", "20")]] = Ok t2 /\ sub_at t2 [StF (s_ "Rule")] = Some (TList [])).
Proof.
  split; [|split].
  - eexists. split; [vm_compute; reflexivity|]. split; vm_compute; reflexivity.
  - eexists. eexists. split; [vm_compute; reflexivity|]. split; vm_compute; reflexivity.
  - eexists. eexists. split; [vm_compute; reflexivity|]. split; vm_compute; reflexivity.
Qed.

(* an absent node (no such interface): identity *)
Example c12_absent_example : DEL ex_tree (p_mtu "eth7") = Ok ex_tree.
Proof.
  eapply (c12_delete_absent_noop_partial ex_env ex_fo ex_ko ex_schema ex_tree (p_mtu "eth7")); try reflexivity;
    [exact c12_root | discriminate |].
  vm_compute. repeat split; intros _ [H|H]; discriminate H.
Qed.

(* a path through a shadow-path tag (the state copy of a config leaf) is accepted and ignored *)
Definition c12_shadow_tree : tree :=
  match set_node ex_env ex_fo ex_ko ex_set (TVString (s_ "x")) ex_schema ex_tree (p_subdescr "eth0" "7") with
  | Ok t => t | _ => TCont [] end.
Example c12_shadow_path_noop :
  DEL c12_shadow_tree [el "interfaces"; elk "interface" [("name", "eth0")]; el "subinterfaces";
                       elk "subinterface" [("index", "7")]; el "state"; el "description"] = Ok c12_shadow_tree
  /\ sub_at c12_shadow_tree [StF (s_ "Iface"); StK [VStr (s_ "eth0")]; StF (s_ "Subif"); StK [VInt U32 7]; StF (s_ "Descr")]
     = Some (TLeaf (VStr (s_ "x"))).
Proof. split; vm_compute; reflexivity. Qed.

(* ---------- the leaf-level form (Leaves.leaves, the gNMI paths of TogNMINotifications) ---------- *)

(* "every leaf outside p keeps its value": on the leaf map that findUpdatedLeaves reports, a
   successful guarded DeleteNode is exactly spec_delete (the leaves at and below p removed, every
   other leaf kept), and the invariant is preserved.  Guards: c13_inv2 and delete_guardb (target
   no key leaf, complete canonical sorted keys, no ordered or unkeyed list on the path; p = []
   included).  Proved in Tree/SetReqBridgeProofs.v (shared with C13). *)
Theorem c12_leaves_after_delete : forall env fo ko sch,
  leaves_after_delete_stmt env fo ko sch no_opts (schema_sem env fo ko sch)
    (fun t => leaves env ko false sch t []) (c13_inv2 env fo ko sch)
    (fun p => delete_guardb env fo ko sch p = true).
Proof. exact leaves_after_delete_holds. Qed.
Print Assumptions c12_leaves_after_delete.
