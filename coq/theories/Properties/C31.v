(* C31 — Unmarshal merges into existing data as documented.
   "Unmarshalling JSON into a populated tree leaves every value not mentioned in the JSON
   unchanged, overwrites the leaves mentioned, replaces each mentioned leaf-list wholesale and
   merges list entries by key, updating existing entries.  With IgnoreExtraFields unknown
   members are skipped and everything else is applied as without the option; without it unknown
   members are an error."  Documented limitation: an ordered-by-user list entry whose key
   already exists is an error.

   Model: Tree/Unmarshal.v (unm_node / unmarshal), the same model that C01 and C20 use, tied to
   ytypes.Unmarshal by the jsonrt stream.  Definitions in Tree/MergeJson.v, proofs in
   Tree/MergeJsonProofs.v.  unm_fields / unm_struct / unm_elems / unm_uelems are the loops of
   unm_node as top-level functions (Tree/RoundTripProofs.v, equations by reflexivity). *)
From Coq Require Import String Ascii.
From Ygot Require Import Tree.Tree Tree.Codec Tree.CodecProofs Tree.TreeOps Tree.Render Tree.Unmarshal.
From Ygot Require Import Tree.RoundTrip Tree.RoundTripObjProofs Tree.RoundTripProofs.
From Ygot Require Import Tree.MergeJson Tree.MergeJsonProofs Properties.C01.

Definition strict (sh : bool) : uopts := {| o_ignore_extra := false; o_prefer_shadow := sh |}.
Definition lenient (sh : bool) : uopts := {| o_ignore_extra := true; o_prefer_shadow := sh |}.

(* ---------- 1. IgnoreExtraFields only removes a test ---------- *)

Theorem c31_ignore_extra_mono : forall env fo sh S cur j t,
  unmarshal env fo (strict sh) S cur j = Ok t -> unmarshal env fo (lenient sh) S cur j = Ok t.
Proof. exact ignore_extra_mono. Qed.
Print Assumptions c31_ignore_extra_mono.

(* ---------- 2. unknown members ---------- *)

(* a member that no path / shadow-path alternative of the struct starts with is an error ... *)
Theorem c31_unknown_member_rejected : forall env fo sh sfs cur jm n v,
  In (n, v) jm -> known_memberb sfs n = false ->
  unmarshal env fo (strict sh) (SCont sfs) cur (JObj jm) = Err.
Proof. exact unmarshal_unknown_member_rejected. Qed.
Print Assumptions c31_unknown_member_rejected.

Theorem c31_unknown_member_rejected_node : forall env fo sh fuel sfs cur jm n v,
  In (n, v) jm -> known_memberb sfs n = false ->
  unm_node env fo (strict sh) fuel (SCont sfs) cur (JObj jm) = Err.
Proof. exact unknown_member_rejected. Qed.
Print Assumptions c31_unknown_member_rejected_node.

(* ... and is skipped with IgnoreExtraFields: same result as without the member *)
Theorem c31_ignore_extra_skips : forall env fo sh sfs cur jm n,
  wf_schemab (SCont sfs) = true -> known_memberb sfs n = false ->
  unmarshal env fo (lenient sh) (SCont sfs) cur (JObj (remove_member n jm))
  = unmarshal env fo (lenient sh) (SCont sfs) cur (JObj jm).
Proof. exact unmarshal_skips_member. Qed.
Print Assumptions c31_ignore_extra_skips.

Theorem c31_ignore_extra_skips_all_top : forall env fo sh sfs cur jm,
  wf_schemab (SCont sfs) = true ->
  unmarshal env fo (lenient sh) (SCont sfs) cur (JObj (strip_unknown_top sfs jm))
  = unmarshal env fo (lenient sh) (SCont sfs) cur (JObj jm).
Proof. exact unmarshal_skips_top. Qed.
Print Assumptions c31_ignore_extra_skips_all_top.

(* at any struct of the document (any fuel, no schema hypothesis) *)
Theorem c31_ignore_extra_skips_node : forall env fo sh fuel sfs cur jm n,
  known_memberb sfs n = false ->
  unm_node env fo (lenient sh) fuel (SCont sfs) cur (JObj (remove_member n jm))
  = unm_node env fo (lenient sh) fuel (SCont sfs) cur (JObj jm).
Proof. exact ignore_extra_skips_member. Qed.
Print Assumptions c31_ignore_extra_skips_node.

(* at any depth: strip_unknown removes, recursively, every member that no path of the enclosing
   struct leads through (also inside the intermediate objects of compressed paths and inside
   list entries).  The lenient decoder does not see the difference, and the strict decoder
   accepts the stripped document with the same result.  multi_alt_leafb: a field with several
   path alternatives is a leaf (generated code: list keys "config/k|k"). *)
Theorem c31_strip_unknown_lenient : forall env fo sh S cur j,
  wf_schemab S = true -> multi_alt_leafb S = true ->
  unmarshal env fo (lenient sh) S cur (strip_unknown S j) = unmarshal env fo (lenient sh) S cur j.
Proof. exact unmarshal_strip_lenient. Qed.
Print Assumptions c31_strip_unknown_lenient.

Theorem c31_strip_unknown_strict : forall env fo sh S cur j,
  wf_schemab S = true -> multi_alt_leafb S = true ->
  unmarshal env fo (strict sh) S cur (strip_unknown S j) = unmarshal env fo (lenient sh) S cur j.
Proof. exact unmarshal_strip_strict. Qed.
Print Assumptions c31_strip_unknown_strict.

(* the fuel of the model is immaterial once it covers the depth of the document *)
Theorem c31_fuel_enough : forall env fo opts f1 f2 s, wf_schemab s = true -> forall cur j,
  (jdepth j <= f1)%nat -> (jdepth j <= f2)%nat ->
  unm_node env fo opts f1 s cur j = unm_node env fo opts f2 s cur j.
Proof. exact fuel_enough. Qed.
Print Assumptions c31_fuel_enough.

(* ---------- 3. one struct: frame and overwrite ---------- *)

Theorem c31_unmentioned_unchanged : forall env fo opts f sfs cur jm res g sg,
  NoDup (go_names sfs) ->
  unm_node env fo opts (S f) (SCont sfs) (Some (TCont cur)) (JObj jm) = Ok (Some (TCont res)) ->
  In (g, sg) sfs -> jget_field (JObj jm) (upaths opts g) None = Ok None ->
  named (f_go g) res = named (f_go g) cur /\ field_get (f_go g) res = field_get (f_go g) cur.
Proof. exact unmentioned_unchanged. Qed.
Print Assumptions c31_unmentioned_unchanged.

(* a mentioned field holds the result of unmarshalling the JSON value INTO its previous value
   (containers and lists are merged recursively, not replaced) *)
Theorem c31_mentioned_merged : forall env fo opts f sfs cur jm res g sg jv,
  NoDup (go_names sfs) -> fields_orderedb sfs cur = true ->
  unm_node env fo opts (S f) (SCont sfs) (Some (TCont cur)) (JObj jm) = Ok (Some (TCont res)) ->
  In (g, sg) sfs -> jget_field (JObj jm) (upaths opts g) None = Ok (Some jv) ->
  exists nt, unm_node env fo opts f sg (field_get (f_go g) cur) jv = Ok nt /\ field_get (f_go g) res = nt.
Proof. exact mentioned_merged. Qed.
Print Assumptions c31_mentioned_merged.

Theorem c31_leaf_overwritten : forall env fo opts f sfs cur jm res g ty d jv,
  NoDup (go_names sfs) -> fields_orderedb sfs cur = true ->
  unm_node env fo opts (S f) (SCont sfs) (Some (TCont cur)) (JObj jm) = Ok (Some (TCont res)) ->
  In (g, SLeaf ty d) sfs -> jget_field (JObj jm) (upaths opts g) None = Ok (Some jv) ->
  exists v, dec_json env fo ty jv = Ok v /\ field_get (f_go g) res = Some (TLeaf v).
Proof. exact leaf_overwritten. Qed.
Print Assumptions c31_leaf_overwritten.

Theorem c31_leaflist_replaced : forall env fo opts f sfs cur jm res g ty mn mx jv,
  NoDup (go_names sfs) -> fields_orderedb sfs cur = true ->
  unm_node env fo opts (S f) (SCont sfs) (Some (TCont cur)) (JObj jm) = Ok (Some (TCont res)) ->
  In (g, SLeafList ty mn mx) sfs -> jget_field (JObj jm) (upaths opts g) None = Ok (Some jv) ->
  exists l vs, jv = JArr l /\ dec_leaflist env fo ty l = Ok vs
    /\ field_get (f_go g) res = match vs with [] => None | _ => Some (TLeafList vs) end.
Proof. exact leaflist_replaced. Qed.
Print Assumptions c31_leaflist_replaced.

(* ---------- 4. lists ---------- *)

(* Go-map list = merge by key, exactly (MergeJson.list_merge) *)
Theorem c31_list_merge_by_key : forall env fo opts f keys mn mx sfs es l res,
  unm_node env fo opts (S f) (SList false keys mn mx sfs) (Some (TList es)) (JArr l) = Ok (Some (TList res))
  <-> list_merge (unm_struct env fo opts f sfs) (entry_key sfs keys) es l res.
Proof. exact list_merge_node. Qed.
Print Assumptions c31_list_merge_by_key.

(* entries whose key no element has are preserved *)
Theorem c31_list_unmentioned_kept : forall env fo opts f keys sfs l es res k,
  list_merge (unm_struct env fo opts f sfs) (entry_key sfs keys) es l res ->
  ~ key_mentioned (unm_struct env fo opts f sfs) (entry_key sfs keys) l k ->
  tl_find k res = tl_find k es.
Proof. exact list_merge_frame. Qed.
Print Assumptions c31_list_unmentioned_kept.

(* an entry mentioned once is that element unmarshalled into the existing entry (or into an
   empty one: insertion) *)
Theorem c31_list_entry_merged : forall env fo opts f keys sfs l1 jm l2 es res nfs k,
  list_merge (unm_struct env fo opts f sfs) (entry_key sfs keys) es (l1 ++ JObj jm :: l2) res ->
  unm_struct env fo opts f sfs [] jm = Ok nfs -> entry_key sfs keys nfs = Ok k ->
  ~ key_mentioned (unm_struct env fo opts f sfs) (entry_key sfs keys) l1 k ->
  ~ key_mentioned (unm_struct env fo opts f sfs) (entry_key sfs keys) l2 k ->
  exists mfs, unm_struct env fo opts f sfs (entry_fields (tl_find k es)) jm = Ok mfs
              /\ tl_find k res = Some (TCont mfs).
Proof. exact list_merge_entry. Qed.
Print Assumptions c31_list_entry_merged.

(* documented limitation: ordered-by-user list, existing key *)
Theorem c31_ordered_existing_key_err : forall env fo opts f keys sfs mn mx es l jm nfs k,
  In (JObj jm) l -> unm_struct env fo opts f sfs [] jm = Ok nfs -> entry_key sfs keys nfs = Ok k ->
  tl_find k es <> None ->
  unm_node env fo opts (S f) (SList true keys mn mx sfs) (Some (TList es)) (JArr l) = Err.
Proof. exact ordered_existing_key_err. Qed.
Print Assumptions c31_ordered_existing_key_err.

Theorem c31_unkeyed_appends : forall env fo opts f sfs es l res,
  unm_node env fo opts (S f) (SUnkeyed sfs) (Some (TUnkeyed es)) (JArr l) = Ok (Some (TUnkeyed res))
  <-> exists new, res = es ++ new /\ appended (unm_struct env fo opts f sfs) l new.
Proof. exact unkeyed_appends_node. Qed.
Print Assumptions c31_unkeyed_appends.

(* ---------- 5. the whole tree: untouched leaves survive ---------- *)

(* leaf_at: value at a structural path (field names / key tuples / positions); untouched: the
   document does not mention the path (absent field on the way, key of no array element, or
   only elements that in turn leave the rest of the path alone; entries of ordered and unkeyed
   lists are never modified).  otree: fields in struct order, hereditarily (otreeb executable). *)
Theorem c31_leaves : forall env fo opts S cur j res p lv,
  wf_schemab S = true -> otree S cur ->
  unmarshal env fo opts S cur j = Ok res ->
  leaf_at cur p = Some lv ->
  untouched (unm_struct env fo opts) (upaths opts) (jdepth j + 2) S j p ->
  leaf_at res p = Some lv /\ otree S res.
Proof. exact untouched_leaves_kept. Qed.
Print Assumptions c31_leaves.

Theorem c31_otreeb_sound : forall t s, wf_schemab s = true -> otreeb s t = true -> otree s t.
Proof. exact otreeb_sound. Qed.
Print Assumptions c31_otreeb_sound.

Theorem c31_leaf_at_enumerated : forall t p lv, leaf_at t p = Some lv -> In (p, lv) (tleaves t).
Proof. exact leaf_at_tleaves. Qed.
Print Assumptions c31_leaf_at_enumerated.

(* ---------- non-vacuity: the example schema and tree of C01 ---------- *)

(* another tree: changes the leaf Un, updates the Note of list entry (x,1), adds entry (z,9) *)
Definition ex_tree2 : tree :=
  TCont [(S_ "Top", TCont [
    (S_ "Un", TLeaf (VStr (S_ "changed")));
    (S_ "L2", TList [
      ([VStr (S_ "x"); VInt U8 1],
       TCont [(S_ "A", TLeaf (VStr (S_ "x"))); (S_ "B", TLeaf (VInt U8 1)); (S_ "Note", TLeaf (VStr (S_ "n2")))]);
      ([VStr (S_ "z"); VInt U8 9],
       TCont [(S_ "A", TLeaf (VStr (S_ "z"))); (S_ "B", TLeaf (VInt U8 9))])])])].

Definition ex_doc : json :=
  match render ex_env ex_fo (ex_cfg false false false) ex_sch ex_tree2 with Ok j => erase_sets j | _ => JNull end.
(* the same document with an unknown member at the top and one inside "top" *)
Definition add_member (n : string) (j : json) : json :=
  match j with JObj m => JObj (m ++ [(S_ n, JNum 1 0)]) | _ => j end.
Definition ex_doc_junk : json := add_member "junk" ex_doc.

Definition ex_merged : result tree := unmarshal ex_env ex_fo (lenient false) ex_sch ex_tree ex_doc_junk.

Definition ex_path_en : list step := [StF (S_ "Top"); StF (S_ "En")].
Definition ex_path_un : list step := [StF (S_ "Top"); StF (S_ "Un")].
Definition ex_entry (a : string) (b : Z) : list step := [StF (S_ "Top"); StF (S_ "L2"); StK [VStr (S_ a); VInt U8 b]].

Example c31_ex_inputs_ok : wf_schemab ex_sch = true /\ otreeb ex_sch ex_tree = true.
Proof. vm_compute. split; reflexivity. Qed.

(* strict: the unknown member is an error; lenient: skipped, same result as without it *)
Example c31_ex_strict_vs_lenient :
  unmarshal ex_env ex_fo (strict false) ex_sch ex_tree ex_doc_junk = Err
  /\ ex_merged = unmarshal ex_env ex_fo (strict false) ex_sch ex_tree ex_doc
  /\ ex_merged = unmarshal ex_env ex_fo (lenient false) ex_sch ex_tree ex_doc
  /\ match ex_merged with Ok _ => true | _ => false end = true.
Proof. vm_compute. repeat split; reflexivity. Qed.

(* unknown members deeper in the document: inside "top" and inside the intermediate object
   "l2s" of the compressed path l2s/l2 *)
Fixpoint add_in (path : list string) (j : json) : json :=
  match path with
  | [] => add_member "junk" j
  | k :: rest =>
      match j with
      | JObj m => JObj (map (fun kv => if str_eqb (fst kv) (S_ k) then (fst kv, add_in rest (snd kv)) else kv) m)
      | _ => j
      end
  end.
Definition ex_doc_deep : json := add_in ["top"; "l2s"]%string (add_in ["top"%string] ex_doc_junk).

Example c31_ex_strip_unknown :
  multi_alt_leafb ex_sch = true
  /\ negb (json_eqb ex_doc_deep ex_doc) = true
  /\ strip_unknown ex_sch ex_doc_deep = ex_doc
  /\ unmarshal ex_env ex_fo (strict false) ex_sch ex_tree ex_doc_deep = Err
  /\ unmarshal ex_env ex_fo (lenient false) ex_sch ex_tree ex_doc_deep = ex_merged
  /\ unmarshal ex_env ex_fo (strict false) ex_sch ex_tree (strip_unknown ex_sch ex_doc_deep) = ex_merged.
Proof. vm_compute. repeat split; reflexivity. Qed.

(* what the merge did *)
Example c31_ex_effect :
  match ex_merged with
  | Ok res =>
      (* not mentioned: unchanged *)
      leaf_at res ex_path_en = leaf_at ex_tree ex_path_en
      /\ leaf_at res ex_path_en = Some (LvLeaf (VEnum (S_ "E_Color") 2))
      (* mentioned leaf: overwritten *)
      /\ leaf_at ex_tree ex_path_un = Some (LvLeaf (VStr (S_ "hello")))
      /\ leaf_at res ex_path_un = Some (LvLeaf (VStr (S_ "changed")))
      (* entry (y,0) not mentioned: kept *)
      /\ leaf_at res (ex_entry "y" 0 ++ [StF (S_ "B")]) = Some (LvLeaf (VInt U8 0))
      (* entry (x,1) mentioned: merged, not replaced: Note updated, nested ordered list kept *)
      /\ leaf_at res (ex_entry "x" 1 ++ [StF (S_ "Note")]) = Some (LvLeaf (VStr (S_ "n2")))
      /\ leaf_at res (ex_entry "x" 1 ++ [StF (S_ "Ord"); StK [VInt I64 5]; StF (S_ "V")])
         = Some (LvList [VStr (S_ "p"); VStr (S_ "q")])
      (* entry (z,9) new: inserted *)
      /\ leaf_at ex_tree (ex_entry "z" 9 ++ [StF (S_ "B")]) = None
      /\ leaf_at res (ex_entry "z" 9 ++ [StF (S_ "B")]) = Some (LvLeaf (VInt U8 9))
      /\ otreeb ex_sch res = true
  | _ => False
  end.
Proof. vm_compute. repeat split; reflexivity. Qed.

(* c31_leaves instantiated: the enum leaf Top/En is not touched by the document *)
Example c31_ex_leaves_instance : forall res,
  unmarshal ex_env ex_fo (lenient false) ex_sch ex_tree ex_doc_junk = Ok res ->
  leaf_at res ex_path_en = Some (LvLeaf (VEnum (S_ "E_Color") 2)).
Proof.
  intros res H.
  refine (proj1 (c31_leaves ex_env ex_fo (lenient false) ex_sch ex_tree ex_doc_junk res ex_path_en _ _ _ H _ _)).
  - vm_compute. reflexivity.
  - apply otreeb_sound; vm_compute; reflexivity.
  - vm_compute. reflexivity.
  - (* the document mentions Top (descend) but not Top/En (absent) *)
    set (d := ex_doc_junk). vm_compute in d. subst d.
    match goal with |- untouched _ _ ?fuel _ _ _ => let f := eval vm_compute in fuel in change fuel with f end.
    unfold ex_sch, ex_path_en. apply ut_cont.
    eapply (utf_descend _ _ _ _ _ (fld1 "Top" "top")); [left; reflexivity | vm_compute; reflexivity |].
    apply ut_cont. apply utf_absent.
    intros g sg Hin Hg. simpl in Hin.
    repeat (destruct Hin as [Hin|Hin]; [injection Hin as <- <-; first [vm_compute; reflexivity | vm_compute in Hg; discriminate]|]).
    destruct Hin.
Qed.

(* documented limitation: an ordered-by-user entry whose key exists *)
Definition ex_tree_ord : tree :=
  TCont [(S_ "Top", TCont [(S_ "L2", TList [
    ([VStr (S_ "x"); VInt U8 1],
     TCont [(S_ "A", TLeaf (VStr (S_ "x"))); (S_ "B", TLeaf (VInt U8 1));
            (S_ "Ord", TList [([VInt I64 5], TCont [(S_ "K", TLeaf (VInt I64 5))])])])])])].
Definition ex_doc_ord : json :=
  match render ex_env ex_fo (ex_cfg false false false) ex_sch ex_tree_ord with Ok j => erase_sets j | _ => JNull end.
Example c31_ex_ordered_existing_key :
  unmarshal ex_env ex_fo (lenient false) ex_sch ex_tree ex_doc_ord = Err
  /\ match unmarshal ex_env ex_fo (lenient false) ex_sch (TCont []) ex_doc_ord with Ok _ => true | _ => false end = true.
Proof. vm_compute. split; reflexivity. Qed.
