(* C03 — Diff is sound, complete and minimal.
   This file only restates results proved in Tree/DiffProofs.v about the model Tree/Diff.v
   (transcription of ygot/diff.go: findSetLeaves, toStringPathMap, diff, DiffWithAtomic,
   IgnoreAdditions, DiffPathOpt).

   Notation.  L t            = df_L ... sch t: every set leaf of t with its data paths
                               (with atomic = true an ordered list is one value, LOrd entries).
              apply_diff m d = UnmarshalNotifications on the leaf map: deletes (subtrees), then
                               updates; then per atomic notification: delete its prefix, set the list.
              lm_equiv       = equal as maps from structured gNMI paths to values.

   Hypotheses of the guarded statements (all are computable booleans, evaluated by the checker
   Corr/DiffCorr.v:dguards on every generated pair):
     df_no_zero_union  no union leaf holds a simple-union member equal to its Go zero value
                       (UnionString(""), UnionInt64(0), UnionBool(false), ...).  Without it the
                       statements are FALSE of the code: c03_apply_refuted, c03_sound_deletes_refuted.
     df_lm_wfb         every leaf path satisfies PathString.wf_pathb (identifier names, non-empty key
                       values without a backslash).  THIS is the hypothesis that carries the
                       dependence on C08: ygot.Diff keys its maps by ygot.PathToString, so it is
                       correct only where PathToString is injective; the proof uses
                       PathStringProofs.print_injective (through DiffProofs.wf_keys_inj) and nothing else
                       about the path printer.
     df_lm_nodupb      no two leaves of one tree have the same path (true of every tree of a
                       ygen-generated schema whose list entries have distinct key strings).
     df_isolatedb      leaf paths are prefix-free, and nothing but the ordered list lies below the
                       container that encloses an ordered list taken as a value.  Vacuous for the
                       second part when atomic = false.  Without it DiffWithAtomic is FALSE of the
                       code (its notification deletes the enclosing container): c03_atomic_refuted. *)
From Ygot Require Import Tree.Tree Tree.TreeOps Tree.Codec Tree.Diff Tree.DiffProofs.

Section C03.
  Variables (env : enum_env) (kf : N -> str) (wu atomic single shadow : bool) (sch : schema).
  Notation L := (df_L env kf wu atomic single shadow sch).
  Notation nz := (df_no_zero_union env kf wu atomic single shadow sch).
  Notation core ia := (df_diff_core env kf wu atomic ia single shadow sch).

  (* Applying the notifications of Diff / DiffWithAtomic (no IgnoreAdditions) to the leaves of a
     gives the leaves of b. *)
  Theorem c03_apply_partial : forall a b d,
    core false a b = Ok d ->
    nz a = true -> nz b = true ->
    df_lm_wfb (L a) = true -> df_lm_wfb (L b) = true ->
    df_lm_nodupb (L a) = true -> df_lm_nodupb (L b) = true ->
    df_isolatedb (L a) (L b) = true ->
    lm_equiv (apply_diff (L a) d) (L b).
  Proof. exact (diff_apply env kf wu atomic single shadow sch). Qed.

  (* DiffWithAtomic: every ordered list ends up with b's entries in b's order (the value of an
     ordered list is the sequence of its entries). *)
  Theorem c03_apply_order_partial : forall a b d q es,
    core false a b = Ok d ->
    nz a = true -> nz b = true ->
    df_lm_wfb (L a) = true -> df_lm_wfb (L b) = true ->
    df_lm_nodupb (L a) = true -> df_lm_nodupb (L b) = true ->
    df_isolatedb (L a) (L b) = true ->
    lm_get q (L b) = Some (LOrd es) -> lm_get q (apply_diff (L a) d) = Some (LOrd es).
  Proof. exact (diff_apply_order env kf wu atomic single shadow sch). Qed.

  (* Every update (plain or atomic, with or without IgnoreAdditions) carries b's value of a leaf
     that a lacks or holds with another value. *)
  Theorem c03_sound_updates_partial : forall ia a b d p v,
    core ia a b = Ok d ->
    nz a = true -> nz b = true ->
    df_lm_wfb (L a) = true -> df_lm_wfb (L b) = true ->
    df_lm_nodupb (L a) = true -> df_lm_nodupb (L b) = true ->
    In (p, v) (dd_updates d ++ dd_atomic d) ->
    lm_get p (L b) = Some v /\ lm_get p (L a) <> Some v.
  Proof. exact (diff_sound_updates env kf wu atomic single shadow sch). Qed.

  (* Every delete names a leaf set in a and absent in b (df_trunc: the leaf's own path; for an
     ordered list taken as a value the path of its enclosing container). *)
  Theorem c03_sound_deletes_partial : forall ia a b d q,
    core ia a b = Ok d ->
    nz a = true -> nz b = true ->
    df_lm_wfb (L a) = true -> df_lm_wfb (L b) = true ->
    df_lm_nodupb (L a) = true -> df_lm_nodupb (L b) = true ->
    In q (dd_deletes d) ->
    exists p v, lm_get p (L a) = Some v /\ lm_get p (L b) = None /\ q = df_trunc (p, v).
  Proof. exact (diff_sound_deletes env kf wu atomic single shadow sch). Qed.

  (* Completeness: nothing is forgotten. *)
  Theorem c03_complete_partial : forall a b d,
    core false a b = Ok d ->
    nz a = true -> nz b = true ->
    df_lm_wfb (L a) = true -> df_lm_wfb (L b) = true ->
    df_lm_nodupb (L a) = true -> df_lm_nodupb (L b) = true ->
    (forall p v, lm_get p (L b) = Some v -> lm_get p (L a) <> Some v -> In (p, v) (dd_updates d ++ dd_atomic d)) /\
    (forall p v, lm_get p (L a) = Some v -> lm_get p (L b) = None -> In (df_trunc (p, v)) (dd_deletes d)).
  Proof. exact (diff_complete env kf wu atomic single shadow sch). Qed.

  (* Diff(a, a) is empty: for every tree, every option, no guard. *)
  Theorem c03_minimal : forall ia a d,
    core ia a a = Ok d -> d = {| dd_deletes := []; dd_updates := []; dd_atomic := [] |}.
  Proof. exact (diff_minimal env kf wu atomic single shadow sch). Qed.

  (* IgnoreAdditions: the deletes are unchanged, and exactly the updates whose leaf is new in b
     (absent from a) are omitted. *)
  Theorem c03_ignore_additions_partial : forall a b d0 d1,
    core false a b = Ok d0 -> core true a b = Ok d1 ->
    nz a = true -> nz b = true ->
    df_lm_wfb (L a) = true -> df_lm_wfb (L b) = true ->
    df_lm_nodupb (L a) = true -> df_lm_nodupb (L b) = true ->
    dd_deletes d1 = dd_deletes d0 /\
    (forall pv, In pv (dd_updates d1) <-> In pv (dd_updates d0) /\ lm_get (fst pv) (L a) <> None) /\
    (forall pv, In pv (dd_atomic d1) <-> In pv (dd_atomic d0) /\ lm_get (fst pv) (L a) <> None).
  Proof. exact (diff_ignore_additions env kf wu atomic single shadow sch). Qed.

  (* Histories: folding apply_diff over the diffs of successive versions, starting from (a map
     equivalent to) the leaves of the first version, gives the leaves of the last version.
     df_chain_okb: the guards of c03_apply_partial for every pair of successive versions. *)
  Theorem c03_history_partial : forall vs v0 m m',
    df_replay env kf wu atomic false single shadow sch m (v0 :: vs) = Some m' ->
    df_chain_okb env kf wu atomic single shadow sch (v0 :: vs) = true ->
    lm_equiv m (L v0) -> lm_equiv m' (L (last vs v0)).
  Proof. exact (diff_history env kf wu atomic single shadow sch). Qed.
End C03.

Print Assumptions c03_apply_partial.
Print Assumptions c03_apply_order_partial.
Print Assumptions c03_sound_updates_partial.
Print Assumptions c03_sound_deletes_partial.
Print Assumptions c03_complete_partial.
Print Assumptions c03_minimal.
Print Assumptions c03_ignore_additions_partial.
Print Assumptions c03_history_partial.

(* The dependence on the injectivity of PathToString, made explicit: the only fact about the
   path printer used above. *)
Theorem c03_uses_path_injectivity : forall l : leafmap, df_lm_wfb l = true ->
  forall pv pv', In pv l -> In pv' l -> path_str (fst pv) = path_str (fst pv') -> fst pv = fst pv'.
Proof. exact wf_keys_inj. Qed.
Print Assumptions c03_uses_path_injectivity.

(* the leaf at a path after applying a diff depends only on the diff and the leaf at that path *)
Theorem c03_apply_pointwise : forall m d p, lm_get p (apply_diff m d) = df_apply_get d p (lm_get p m).
Proof. exact apply_get. Qed.
Print Assumptions c03_apply_pointwise.

(* ---------- the unguarded statements are false of the faithful model ---------- *)

Definition c03_fi (go path : str) : finfo :=
  {| f_go := go; f_paths := [[path]]; f_mods := []; f_spaths := []; f_smods := [];
     f_presence := false; f_cfg := true; f_case := [] |}.
(* leaf un: union { int64, string }; leaf x: string; list ord (ordered-by user, key k), all at the root *)
Definition c03_sch : schema :=
  SCont [ (c03_fi [85;110] [117;110], SLeaf (YUnion [YInt I64 []; YStr [] 0%nat]) []);
          (c03_fi [88] [120], SLeaf (YStr [] 0%nat) []);
          (c03_fi [79;114;100] [111;114;100],
             SList true [[107]] 0 0 [ (c03_fi [75] [107], SLeaf (YStr [] 0%nat) []);
                                      (c03_fi [86] [118], SLeaf (YStr [] 0%nat) []) ]) ].
Definition c03_kf : N -> str := fun _ => [].

(* apply, without the zero-value guard *)
Definition c03_apply_full : Prop :=
  forall env kf wu atomic single shadow sch a b d,
    df_diff_core env kf wu atomic false single shadow sch a b = Ok d ->
    df_lm_wfb (df_L env kf wu atomic single shadow sch a) = true ->
    df_lm_wfb (df_L env kf wu atomic single shadow sch b) = true ->
    df_lm_nodupb (df_L env kf wu atomic single shadow sch a) = true ->
    df_lm_nodupb (df_L env kf wu atomic single shadow sch b) = true ->
    df_isolatedb (df_L env kf wu atomic single shadow sch a) (df_L env kf wu atomic single shadow sch b) = true ->
    lm_equiv (apply_diff (df_L env kf wu atomic single shadow sch a) d) (df_L env kf wu atomic single shadow sch b).

(* Diff(empty, {un: UnionString("")}) is empty *)
(* The two zero-valued-union refutations (c03_apply_refuted, c03_sound_deletes_refuted) described the
   code before the repair in /repo (fix: Diff does not skip union leaves that hold a zero-valued member);
   the model switch Diff.df_zero_test_on_unions is now false and the guard df_no_zero_union holds trivially. *)
Definition c03_sound_deletes_full : Prop :=
  forall env kf wu atomic ia single shadow sch a b d q,
    df_diff_core env kf wu atomic ia single shadow sch a b = Ok d ->
    df_lm_wfb (df_L env kf wu atomic single shadow sch a) = true ->
    df_lm_wfb (df_L env kf wu atomic single shadow sch b) = true ->
    df_lm_nodupb (df_L env kf wu atomic single shadow sch a) = true ->
    df_lm_nodupb (df_L env kf wu atomic single shadow sch b) = true ->
    In q (dd_deletes d) ->
    exists p v, lm_get p (df_L env kf wu atomic single shadow sch a) = Some v /\
                lm_get p (df_L env kf wu atomic single shadow sch b) = None /\ q = df_trunc (p, v).

(* DiffWithAtomic, without the isolation guard: the atomic notification of a changed ordered
   list deletes the container that encloses the list, here the root, and with it the leaf x *)
Definition c03_atomic_full : Prop :=
  forall env kf wu single shadow sch a b d,
    df_diff_core env kf wu true false single shadow sch a b = Ok d ->
    df_no_zero_union env kf wu true single shadow sch a = true ->
    df_no_zero_union env kf wu true single shadow sch b = true ->
    df_lm_wfb (df_L env kf wu true single shadow sch a) = true ->
    df_lm_wfb (df_L env kf wu true single shadow sch b) = true ->
    df_lm_nodupb (df_L env kf wu true single shadow sch a) = true ->
    df_lm_nodupb (df_L env kf wu true single shadow sch b) = true ->
    lm_equiv (apply_diff (df_L env kf wu true single shadow sch a) d) (df_L env kf wu true single shadow sch b).
Definition c03_entry (k : str) : list scalar * tree := ([VStr k], TCont [([75], TLeaf (VStr k))]).
Definition c03_w_ord1 : tree := TCont [([88], TLeaf (VStr [112])); ([79;114;100], TList [c03_entry [97]; c03_entry [98]])].
Definition c03_w_ord2 : tree := TCont [([88], TLeaf (VStr [112])); ([79;114;100], TList [c03_entry [98]; c03_entry [97]])].
Theorem c03_atomic_refuted : ~ c03_atomic_full.
Proof.
  intros H.
  specialize (H [] c03_kf false false false c03_sch c03_w_ord1 c03_w_ord2
                {| dd_deletes := []; dd_updates := [];
                   dd_atomic := [([df_elem [111;114;100]], LOrd [c03_entry [98]; c03_entry [97]])] |}
                eq_refl eq_refl eq_refl eq_refl eq_refl eq_refl eq_refl [df_elem [120]]).
  vm_compute in H. discriminate H.
Qed.
Print Assumptions c03_atomic_refuted.

(* ---------- non-vacuity: the guards are satisfiable by a pair with updates, a delete and a
   reordered ordered list (plain Diff), and the statement computes to true on it ---------- *)
Definition c03_ex_a : tree :=
  TCont [([85;110], TLeaf (VInt I64 5)); ([88], TLeaf (VStr [112])); ([79;114;100], TList [c03_entry [97]; c03_entry [98]])].
Definition c03_ex_b : tree :=
  TCont [([85;110], TLeaf (VStr [115])); ([79;114;100], TList [c03_entry [98]; c03_entry [99]])].
Example c03_guards_satisfiable :
  df_pair_okb [] c03_kf false false false false c03_sch c03_ex_a c03_ex_b = true /\
  exists d, df_diff_core [] c03_kf false false false false false c03_sch c03_ex_a c03_ex_b = Ok d /\
            length (dd_updates d) = 2%nat /\ length (dd_deletes d) = 2%nat.
Proof. split; [vm_compute; reflexivity|]. eexists. split; [vm_compute; reflexivity|]. split; reflexivity. Qed.
