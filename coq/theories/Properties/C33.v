(* C33 — PopulateDefaults fills only unset defaulted leaves, validly.
   Statement: the generated PopulateDefaults sets every unset leaf that has a YANG default to that
   default value and leaves every set leaf unchanged; a tree that validated before the call still
   validates afterwards.
   Model: Tree/Defaults.v.  This file only restates results of Tree/DefaultsProofs.v, plus
   witnesses. *)
From Ygot Require Import Tree.Tree Tree.TreeOps Tree.Codec Tree.Validate Tree.ValidateProofs
  Tree.Defaults Tree.DefaultsProofs.

(* root.PopulateDefaults() on a root struct with fields fs *)
Lemma c33_root : forall env fo sfs fs,
  populate_defaults env fo (SCont sfs) (TCont fs) = TCont (pop_fields env fo sfs fs).
Proof. reflexivity. Qed.

(* (fills) Every struct reachable from the root before the call (through containers, set or not,
   and through existing list entries) is reachable after it, and each of its leaf fields holds the
   old value if it was set and otherwise exactly the parsed default literal (nothing if the leaf
   has no default).  Guard: Go field names are distinct. *)
Theorem c33_fills : forall env fo sfs fs p sfs' fs' n fi ty dflt,
  schema_nodup (SCont sfs) = true ->
  reach sfs fs p = Some (sfs', fs') -> sfind n sfs' = Some (fi, SLeaf ty dflt) ->
  exists fs'', reach sfs (pop_fields env fo sfs fs) p = Some (sfs', fs'') /\
               field_get n fs'' = match field_get n fs' with
                                  | Some x => Some x
                                  | None => option_map TLeaf (leaf_default env fo ty dflt) end.
Proof. exact pop_fills. Qed.
Print Assumptions c33_fills.

(* nothing else becomes reachable: no list entry is created, and every struct reachable after the
   call is the populated image of the one reachable before *)
Theorem c33_fills_only : forall env fo sfs fs p sfs' fs'',
  schema_nodup (SCont sfs) = true ->
  reach sfs (pop_fields env fo sfs fs) p = Some (sfs', fs'') ->
  exists fs', reach sfs fs p = Some (sfs', fs') /\ fs'' = pop_fields env fo sfs' fs'.
Proof. exact pop_reach_inv. Qed.
Print Assumptions c33_fills_only.

(* leaf-lists are not touched *)
Theorem c33_leaflists_kept : forall env fo n sfs fs fi ty mn mx,
  nodup_strs (go_names sfs) = true -> sfind n sfs = Some (fi, SLeafList ty mn mx) ->
  field_get n (pop_fields env fo sfs fs) = field_get n fs.
Proof. exact pop_keeps_leaflist. Qed.
Print Assumptions c33_leaflists_kept.

(* a default literal the generator accepts is in the value space of the leaf *)
Theorem c33_default_in_space : forall env fo t lit v,
  parse_default env fo t lit = Some v -> in_space env t v = true.
Proof. exact parse_default_in_space. Qed.
Print Assumptions c33_default_in_space.

(* (valid) guard defaults_ok: no leaf with a default and no container lies inside a case of a
   choice (everything PopulateDefaults creates on its own is outside every choice) *)
Theorem c33_valid_partial : forall env fo s t,
  schema_nodup s = true -> defaults_ok s = true ->
  valid env s t -> valid env s (populate_defaults env fo s t).
Proof. intros env fo s t Hn Hd H. exact (pop_valid env fo s t true Hn Hd H). Qed.
Print Assumptions c33_valid_partial.

(* ---------- the unguarded statement is false ---------- *)

Definition c33_valid : Prop := forall env fo s t,
  schema_nodup s = true -> valid env s t -> valid env s (populate_defaults env fo s t).

Definition fld (go : str) (cs : list str) : finfo :=
  {| f_go := go; f_paths := [[go]]; f_mods := []; f_spaths := []; f_smods := [];
     f_presence := false; f_cfg := true; f_case := cs |}.
Definition nofo : float_oracle := mk_float_oracle [] [].

(* (1) defaults in two cases of one choice: the empty tree is valid, the populated one has both
   cases selected *)
Definition w2_s := SCont [(fld [97] [[99]; [49]], SLeaf (YStr [] 0) [[120]]);
                          (fld [98] [[99]; [50]], SLeaf (YStr [] 0) [[121]])].
Theorem c33_refuted_two_cases : ~ c33_valid.
Proof.
  intros H. specialize (H [] nofo w2_s (TCont []) eq_refl eq_refl). unfold valid in H. vm_compute in H. discriminate H.
Qed.
Print Assumptions c33_refuted_two_cases.
Example c33_two_cases_detail :
  populate_defaults [] nofo w2_s (TCont []) = TCont [([97], TLeaf (VStr [120])); ([98], TLeaf (VStr [121]))] /\
  validate fx_head [] nofo w2_s (TCont []) = [] /\
  validate fx_head [] nofo w2_s (populate_defaults [] nofo w2_s (TCont [])) = [EChoice].
Proof. repeat split; vm_compute; reflexivity. Qed.

(* (2) a default in ONE case is enough: the other case is populated by the user (this is the
   corpus situation /top/defaults/dch) *)
Definition w1_s := SCont [(fld [97] [[99]; [49]], SLeaf (YStr [] 0) [[120]]);
                          (fld [98] [[99]; [50]], SLeaf (YStr [] 0) [])].
Definition w1_t := TCont [([98], TLeaf (VStr [117]))].
Example c33_refuted_one_case :
  schema_nodup w1_s = true /\ validb [] true w1_s w1_t = true /\
  validb [] true w1_s (populate_defaults [] nofo w1_s w1_t) = false /\
  validate fx_head [] nofo w1_s (populate_defaults [] nofo w1_s w1_t) = [EChoice].
Proof. repeat split; vm_compute; reflexivity. Qed.

(* (3) no default at all: a container inside a case is instantiated by BuildEmptyTree and selects
   its case *)
Definition w3_s := SCont [(fld [97] [[99]; [49]], SCont [(fld [122] [], SLeaf (YStr [] 0) [])]);
                          (fld [98] [[99]; [50]], SLeaf (YStr [] 0) [])].
Example c33_refuted_container_in_case :
  schema_nodup w3_s = true /\ validb [] true w3_s w1_t = true /\
  populate_defaults [] nofo w3_s w1_t = TCont [([97], TCont []); ([98], TLeaf (VStr [117]))] /\
  validb [] true w3_s (populate_defaults [] nofo w3_s w1_t) = false /\
  validate fx_head [] nofo w3_s (populate_defaults [] nofo w3_s w1_t) = [EChoice].
Proof. repeat split; vm_compute; reflexivity. Qed.

(* a presence container is instantiated as well: its existence is data (RFC 7950 7.5.1), so
   "fills only leaves" holds for the reachable leaves (c33_fills) but not for presence nodes *)
Definition wp_s := SCont [({| f_go := [112]; f_paths := [[[112]]]; f_mods := []; f_spaths := []; f_smods := [];
                              f_presence := true; f_cfg := true; f_case := [] |}, SCont [(fld [120] [], SLeaf (YStr [] 0) [])])].
Example c33_presence_container_created :
  populate_defaults [] nofo wp_s (TCont []) = TCont [([112], TCont [])].
Proof. vm_compute. reflexivity. Qed.

(* non-vacuity: defaults of several types, a set leaf kept, a list entry visited, an absent
   container created, guards satisfied *)
Definition ex_env : enum_env :=
  [([84], [ {| ev_num := 1; ev_name := [82]; ev_mod := [] |}; {| ev_num := 2; ev_name := [71]; ev_mod := [] |} ])].
Definition ex_s := SCont
  [(fld [105] [], SLeaf (YInt I8 []) [[45; 55]]);
   (fld [115] [], SLeaf (YStr [] 0) [[104; 105]]);
   (fld [101] [], SLeaf (YEnum [84]) [[71]]);
   (fld [117] [], SLeaf (YUnion [YInt I8 []; YStr [(1, 6)] 0]) [[49; 50]]);
   (fld [99] [], SCont [(fld [100] [], SLeaf (YInt U8 []) [[57]])]);
   (fld [76] [], SList false [[107]] 0 0 [(fld [107] [], SLeaf (YStr [] 0) []); (fld [118] [], SLeaf (YInt U16 []) [[56; 48]])])].
Definition ex_t := TCont [([115], TLeaf (VStr [111])); ([76], TList [([VStr [120]], TCont [([107], TLeaf (VStr [120]))])])].
Example c33_example :
  schema_nodup ex_s = true /\ defaults_ok ex_s = true /\ validb ex_env true ex_s ex_t = true /\
  populate_defaults ex_env nofo ex_s ex_t =
    TCont [([105], TLeaf (VInt I8 (-7))); ([115], TLeaf (VStr [111])); ([101], TLeaf (VEnum [84] 2));
           ([117], TLeaf (VInt I8 12)); ([99], TCont [([100], TLeaf (VInt U8 9))]);
           ([76], TList [([VStr [120]], TCont [([107], TLeaf (VStr [120])); ([118], TLeaf (VInt U16 80))])])] /\
  validb ex_env true ex_s (populate_defaults ex_env nofo ex_s ex_t) = true.
Proof. repeat split; vm_compute; reflexivity. Qed.
