(* C11 — Read-only and encoding APIs never mutate their inputs.
   This file only restates results proved in Heap/EffectsProofs.v about the effect model of
   Heap/Effects.v (write set of every API over the cells of its arguments, transcribed from the
   Go code; tied to the real code for EQUALITY of the changed-cell sets by the `purity` stream). *)
From Ygot Require Import Base.Base Heap.Effects Heap.EffectsProofs.

(* The property at full strength, for a given variant of the code: every API stores only into
   the cells that are its documented destination (none at all for the read-only ones). *)
Definition c11_full (v : variant) : Prop :=
  forall c x, In x (writes v c) -> In x (dest c).

(* ---------------------------------------------------------------- per API: the write set is empty *)
Theorem c11_GetNode_pure : forall v, writes v KGetNode = [].                       Proof. reflexivity. Qed.
Theorem c11_Validate_pure : forall v, writes v KValidate = [].                     Proof. reflexivity. Qed.
Theorem c11_EmitJSON_pure : forall v skip, writes v (KEmitJSON skip) = [].         Proof. reflexivity. Qed.
Theorem c11_ConstructIETFJSON_pure : forall v, writes v KConstructIETFJSON = [].   Proof. reflexivity. Qed.
Theorem c11_Marshal7951_pure : forall v, writes v KMarshal7951 = [].               Proof. reflexivity. Qed.
Theorem c11_TogNMINotifications_pure : forall v, writes v KTogNMINotifications = []. Proof. reflexivity. Qed.
Theorem c11_Diff_pure : forall v, writes v KDiff = [] /\ writes v KDiffWithAtomic = []. Proof. split; reflexivity. Qed.
Theorem c11_DeepCopy_pure : forall v, writes v KDeepCopy = [].                     Proof. reflexivity. Qed.
Theorem c11_MergeStructs_pure : forall v, writes v KMergeStructs = [].             Proof. reflexivity. Qed.
Theorem c11_gnmidiff_without_schema_pure : forall v ups,
  writes v (KDiffSetRequest false ups) = [] /\ writes v (KDiffSetRequestToNotifications false ups) = [].
Proof. split; reflexivity. Qed.
(* the decoders write their destination only *)
Theorem c11_Unmarshal_pure : forall v, writes v KUnmarshal = dest KUnmarshal.      Proof. reflexivity. Qed.
Theorem c11_UnmarshalSetRequest_pure : forall v, writes v KUnmarshalSetRequest = dest KUnmarshalSetRequest.
Proof. reflexivity. Qed.
(* EncodeTypedValue is pure except for a struct / ordered list in JSON_IETF with a caller-supplied config *)
Theorem c11_EncodeTypedValue_pure_partial : forall v e vk cfg,
  (e <> EncJSONIETF \/ vk = VkLeafValue \/ vk = VkNilStruct \/ cfg = None) ->
  writes v (KEncodeTypedValue e vk cfg) = [].
Proof.
  intros v e vk cfg [H|[H|[H|H]]]; subst; simpl.
  - destruct e; try reflexivity. contradiction H; reflexivity.
  - destruct e; reflexivity.
  - destruct e; reflexivity.
  - destruct e, vk; reflexivity.
Qed.
(* SetNode without TolerateJSONInconsistencies (hence UnmarshalSetRequest, which never passes
   it) leaves the TypedValue as it was: for every target, path and payload *)
Theorem c11_SetNode_strict_pure : forall v reached ll ks tv,
  setnode_tv v reached false ll ks tv = tv /\
  writes v (KSetNode reached false ll ks tv) = dest (KSetNode reached false ll ks tv).
Proof.
  intros. split; [apply setnode_strict_tv_unchanged|].
  simpl. unfold setnode_writes_tv. rewrite setnode_strict_tv_unchanged, tvalue_eqb_refl. reflexivity.
Qed.
Print Assumptions c11_SetNode_strict_pure.

(* ---------------------------------------------------------------- the code as it is now *)

(* Proved for the code as it is, under the guard that excludes the four situations in which it
   stores into an argument. *)
Theorem c11_now_partial : forall c x,
  stores_into_argument_now c = false -> In x (writes impl_now c) -> In x (dest c).
Proof. exact writes_in_dest_now. Qed.
Print Assumptions c11_now_partial.

Theorem c11_readonly_now_partial : forall c,
  read_only_api c = true -> stores_into_argument_now c = false -> writes impl_now c = [].
Proof. exact readonly_pure_now. Qed.
Print Assumptions c11_readonly_now_partial.

(* The full statement is false of the faithful model; three witnesses (all reproduced on the real
   code by the purity stream, signatures mutates/<api>/<cell>). *)
Theorem c11_EncodeTypedValue_refuted :
  writes impl_now (KEncodeTypedValue EncJSONIETF VkStruct (Some false)) = [COpt RFC7951_AppendModuleName] /\
  changes impl_now (KEncodeTypedValue EncJSONIETF VkStruct (Some false)) = [COpt RFC7951_AppendModuleName].
Proof. split; reflexivity. Qed.

(* SetNode(/.../u8, int_val:5, &TolerateJSONInconsistencies{}) leaves uint_val:5 in the caller's message *)
Theorem c11_SetNode_refuted :
  setnode_tv impl_now true true false [KUint 8] (TvScalar (TvInt 5)) = TvScalar (TvUint 5) /\
  In CTypedValue (writes impl_now (KSetNode true true false [KUint 8] (TvScalar (TvInt 5)))).
Proof. split; [reflexivity | vm_compute; right; left; reflexivity]. Qed.

(* ... and the rewrite is visible to the next union member: union{uint8,int32} rejects int_val:300
   with the option (the int32 member is offered uint_val:300), although it accepts it without *)
Example c11_SetNode_union_quirk :
  try_kinds impl_now true [KUint 8; KInt 32] (TvInt 300) = (TvUint 300, false) /\
  try_kinds impl_now false [KUint 8; KInt 32] (TvInt 300) = (TvInt 300, true) /\
  try_kinds impl_fixed true [KUint 8; KInt 32] (TvInt 300) = (TvInt 300, true).
Proof. repeat split; reflexivity. Qed.

Definition c11_nonleaf_update : upd := {| u_nonleaf := true; u_absent := true; u_out := UOk |}.
Theorem c11_gnmidiff_refuted :
  writes impl_now (KDiffSetRequest true [c11_nonleaf_update]) = [CSchemaRoot] /\
  writes impl_now (KDiffSetRequestToNotifications true [c11_nonleaf_update]) = [CSchemaRoot].
Proof. split; reflexivity. Qed.

Theorem c11_refuted : ~ c11_full impl_now.
Proof.
  intros H.
  specialize (H (KEncodeTypedValue EncJSONIETF VkStruct (Some false)) (COpt RFC7951_AppendModuleName)).
  simpl in H. apply H. left; reflexivity.
Qed.
Print Assumptions c11_refuted.

(* ---------------------------------------------------------------- the repaired code *)

Theorem c11_fixed : c11_full impl_fixed.
Proof. exact writes_in_dest_fixed. Qed.
Print Assumptions c11_fixed.

Theorem c11_readonly_fixed : forall c, read_only_api c = true -> writes impl_fixed c = [].
Proof. exact readonly_pure_fixed. Qed.
Print Assumptions c11_readonly_fixed.

(* ---------------------------------------------------------------- cells nobody writes, in any variant *)

Theorem c11_schema_entries_pure : forall v c, ~ In CSchemaEntries (writes v c).
Proof. exact schema_entries_never_written. Qed.
Print Assumptions c11_schema_entries_pure.

(* Unmarshal does not modify the decoded JSON it is given; no API modifies a path *)
Theorem c11_json_and_path_pure : forall v c, ~ In CJSON (writes v c) /\ ~ In CPath (writes v c).
Proof. exact json_and_path_never_written. Qed.
Print Assumptions c11_json_and_path_pure.

(* a GoStruct is written only where it is the destination of a decoder *)
Theorem c11_source_trees_pure : forall v c i, In (CTree i) (writes v c) -> i = 0%nat /\ In (CTree i) (dest c).
Proof. exact source_trees_never_written. Qed.
Print Assumptions c11_source_trees_pure.

(* what the snapshots of the correspondence stream can see is part of the write set *)
Theorem c11_changes_sound : forall v c x, In x (changes v c) -> In x (writes v c).
Proof. exact changes_incl_writes. Qed.
Print Assumptions c11_changes_sound.

(* ---------------------------------------------------------------- composition *)

(* If no step of a composite operation has a cell in its write set, any sequence of such steps
   leaves the cell unchanged — for every store, every value type and whatever the steps compute. *)
Theorem c11_sequence_frame : forall (value : Type) (ops : list (op value)) (s : store value) (c : cell),
  (forall o, In o ops -> mem_cell c (op_writes value o) = false) -> run_ops value ops s c = s c.
Proof. exact run_ops_frame. Qed.
Print Assumptions c11_sequence_frame.

Theorem c11_sequence_of_calls : forall (value : Type) v f (ks : list call) (s : store value) (c : cell),
  (forall k, In k ks -> ~ In c (writes v k)) -> run_ops value (map (call_op value v f) ks) s c = s c.
Proof. exact calls_frame. Qed.
Print Assumptions c11_sequence_of_calls.

Theorem c11_readonly_sequences_fixed : forall (value : Type) f (ks : list call) (s : store value),
  (forall k, In k ks -> read_only_api k = true) ->
  forall c, run_ops value (map (call_op value impl_fixed f) ks) s c = s c.
Proof. exact readonly_calls_leave_everything_fixed. Qed.
Print Assumptions c11_readonly_sequences_fixed.

(* Non-vacuity: the guard of c11_now_partial holds for calls of every API, including SetNode
   with the tolerance option on a target that is not unsigned, and gnmidiff with a schema whose
   root already holds the target node. *)
Example c11_guard_satisfiable :
  stores_into_argument_now (KSetNode true true false [KInt 8; KString] (TvScalar (TvInt 5))) = false /\
  stores_into_argument_now (KSetNode true true true [KUint 16] (TvLeaflist [TvUint 5; TvString; TvInt 7])) = false /\
  stores_into_argument_now (KDiffSetRequest true [{| u_nonleaf := true; u_absent := false; u_out := UOk |}]) = false /\
  stores_into_argument_now (KEncodeTypedValue EncJSONIETF VkStruct None) = false /\
  stores_into_argument_now (KUnmarshalNotifications false) = false.
Proof. repeat split; vm_compute; reflexivity. Qed.
