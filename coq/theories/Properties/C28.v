(* C28 — generated protobufs are well-formed.
   This file only restates results proved in Gen/FieldTagProofs.v and Gen/ProtoWFProofs.v. *)
From Ygot Require Import Base.Base Gen.FieldTag Gen.FieldTagProofs Gen.ProtoWF Gen.ProtoWFProofs.

(* ---------- the numbers fieldTag hands out ---------- *)

(* The property at full strength: every number returned by fieldTag is a legal proto field number. *)
Definition c28_tag_range_full : Prop :=
  forall fuel s v, field_tag fuel s = Some v -> (1 <= v <= 536870911) /\ ~ (19000 <= v <= 19999).

(* Proved for the code as it is: 0 is not excluded (the retry test is `v >= 1 && v <= 1000`). Every
   other result lies in 1001 .. 2^29-1 outside 19000 .. 19999. *)
Theorem c28_tag_range_partial : forall fuel s v,
  field_tag fuel s = Some v -> v = 0 \/ (1001 <= v <= 536870911 /\ ~ (19000 <= v <= 19999)).
Proof. exact field_tag_range. Qed.
Print Assumptions c28_tag_range_partial.

Theorem c28_tag_nonzero_legal : forall fuel s v,
  field_tag fuel s = Some v -> v <> 0 -> field_number_okb v = true.
Proof. exact field_tag_nonzero_legal. Qed.
Print Assumptions c28_tag_nonzero_legal.

(* The schema path /m/c/leaf-259424739 (module m, container c) has FNV-1 hash 0. *)
Definition c28_zero_witness : bytes := [47; 109; 47; 99; 47; 108; 101; 97; 102; 45; 50; 53; 57; 52; 50; 52; 55; 51; 57].
Theorem c28_tag_range_refuted : ~ c28_tag_range_full.
Proof.
  intros H. specialize (H 1%nat c28_zero_witness 0 eq_refl). destruct H as [[H _] _].
  vm_compute in H. apply H. reflexivity.
Qed.
Print Assumptions c28_tag_range_refuted.

(* The number depends only on the hashed string (the schema path): it is a function of the bytes,
   whatever the recursion budget. *)
Theorem c28_tag_deterministic : forall fuel1 fuel2 s v1 v2,
  field_tag fuel1 s = Some v1 -> field_tag fuel2 s = Some v2 -> v1 = v2.
Proof. exact field_tag_fuel_irrelevant. Qed.
Print Assumptions c28_tag_deterministic.

(* What the retry loop computes: the masked FNV-1 hash of the string followed by the least number
   of underscores that leaves the ranges 1..1000 and 19000..19999. *)
Theorem c28_tag_retry_spec : forall fuel s v,
  field_tag fuel s = Some v ->
  exists k, (k < fuel)%nat /\ v = masked_hash (pad s k) /\ tag_retry v = false /\
            forall j, (j < k)%nat -> tag_retry (masked_hash (pad s j)) = true.
Proof. exact field_tag_spec. Qed.
Print Assumptions c28_tag_retry_spec.

(* The N arithmetic of the model is uint32 arithmetic on byte input. *)
Theorem c28_fnv_uint32 : forall bs, Forall (fun c => c < 256) bs -> fnv1_32 bs < 4294967296.
Proof. exact fnv1_32_uint32. Qed.
Print Assumptions c28_fnv_uint32.

(* Distinct sibling paths do not get distinct numbers: fieldTag is not injective on the children of
   one container, nor on the identities of one base (29-bit hash, no collision check in protogen). *)
Definition c28_tags_distinct_full : Prop :=
  forall fuel s1 s2 v, field_tag fuel s1 = Some v -> field_tag fuel s2 = Some v -> s1 = s2.
Definition c28_sibling_a : bytes := [47; 109; 47; 99; 47; 108; 101; 97; 102; 45; 49; 57; 55; 55; 52].   (* /m/c/leaf-19774 *)
Definition c28_sibling_b : bytes := [47; 109; 47; 99; 47; 108; 101; 97; 102; 45; 53; 56; 50; 53; 48].   (* /m/c/leaf-58250 *)
Definition c28_identity_a : bytes := [98; 105; 100; 45; 49; 56; 48; 51; 52].  (* base b, identity id-18034 *)
Definition c28_identity_b : bytes := [98; 105; 100; 45; 53; 57; 49; 53; 48].  (* base b, identity id-59150 *)
Theorem c28_tags_distinct_refuted : ~ c28_tags_distinct_full.
Proof.
  intros H. specialize (H 1%nat c28_sibling_a c28_sibling_b 29970581 eq_refl eq_refl). discriminate H.
Qed.
Print Assumptions c28_tags_distinct_refuted.
Example c28_identity_collision :
  field_tag 1 c28_identity_a = Some 107848625 /\ field_tag 1 c28_identity_b = Some 107848625.
Proof. split; vm_compute; reflexivity. Qed.

(* ---------- the well-formedness check applied to the generated text ---------- *)

Theorem c28_msg_wf_b_spec : forall m, msg_wf_b m = true <-> wf_msg m.
Proof. exact msg_wf_b_spec. Qed.
Print Assumptions c28_msg_wf_b_spec.

Theorem c28_file_wf_b_spec : forall f, file_wf_b f = true <-> wf_file f.
Proof. exact file_wf_b_spec. Qed.
Print Assumptions c28_file_wf_b_spec.

Theorem c28_enum_wf_b_spec : forall e, enum_wf_b e = true <-> wf_enum e.
Proof. exact enum_wf_b_spec. Qed.
Print Assumptions c28_enum_wf_b_spec.

(* wf_msg in the words of the property: distinct field names, distinct legal field numbers,
   well-formed enums, recursively. *)
Theorem c28_wf_msg_fields : forall m, wf_msg m ->
  NoDup (map fst (pm_fields m)) /\ NoDup (map snd (pm_fields m)) /\
  Forall (fun f => field_number_legal (snd f)) (pm_fields m) /\
  Forall wf_enum (pm_enums m) /\ Forall wf_msg (pm_nested m).
Proof. exact wf_msg_fields. Qed.
Print Assumptions c28_wf_msg_fields.

(* Non-vacuity. A retried tag: /m/c/leaf-23905120 hashes to 133, /m/c/leaf-10750530 to 19228. *)
Example c28_retry_examples :
  masked_hash [47; 109; 47; 99; 47; 108; 101; 97; 102; 45; 50; 51; 57; 48; 53; 49; 50; 48] = 133 /\ field_tag 2 [47; 109; 47; 99; 47; 108; 101; 97; 102; 45; 50; 51; 57; 48; 53; 49; 50; 48] = Some (masked_hash ([47; 109; 47; 99; 47; 108; 101; 97; 102; 45; 50; 51; 57; 48; 53; 49; 50; 48] ++ [95])) /\
  masked_hash [47; 109; 47; 99; 47; 108; 101; 97; 102; 45; 49; 48; 55; 53; 48; 53; 51; 48] = 19228 /\ field_tag 2 [47; 109; 47; 99; 47; 108; 101; 97; 102; 45; 49; 48; 55; 53; 48; 53; 51; 48] = Some (masked_hash ([47; 109; 47; 99; 47; 108; 101; 97; 102; 45; 49; 48; 55; 53; 48; 53; 51; 48] ++ [95])).
Proof. repeat split; vm_compute; reflexivity. Qed.

(* message M { message N { string a = 1; } enum E { E_UNSET = 0; E_x = -2; } oneof u { ... } } *)
Definition c28_example_msg : pmsg :=
  PMsg [77] [([97], 1001%Z); ([117; 95; 115], 536870911%Z); ([117; 95; 105], 18999%Z)] [[117]]
       [PMsg [78] [([97], 1%Z)] [] [] []]
       [{| pe_name := [69]; pe_values := [([69; 95; 85], 0%Z); ([69; 95; 120], (-2)%Z)] |}].
Example c28_wf_satisfiable : msg_wf_b c28_example_msg = true /\ wf_msg c28_example_msg.
Proof. split; [vm_compute; reflexivity | apply msg_wf_b_spec; vm_compute; reflexivity]. Qed.
(* a field numbered 0, a duplicate number, and an enum whose first value is negative are rejected *)
Example c28_wf_rejects :
  msg_wf_b (PMsg [77] [([97], 0%Z)] [] [] []) = false /\
  msg_wf_b (PMsg [77] [([97], 5000%Z); ([98], 5000%Z)] [] [] []) = false /\
  msg_wf_b (PMsg [77] [] [] [] [{| pe_name := [69]; pe_values := [([120], (-2)%Z); ([85], 0%Z)] |}]) = false /\
  msg_wf_b (PMsg [77] [([97], 19500%Z)] [] [] []) = false.
Proof. repeat split; vm_compute; reflexivity. Qed.
