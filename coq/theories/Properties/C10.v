(* C10 — SetNode then GetNode returns the value set, and nothing else changes.
   "If SetNode(schema, root, p, v, InitMissingElements) succeeds for a leaf or leaf-list path p,
   then GetNode(schema, root, p) returns exactly one node holding v, decoded to the leaf's Go
   type.  Every other leaf in the tree keeps its previous value, apart from the key leaves of
   list entries created along p, which take the keys named in p."

   Model: Tree/Node.v (get_node / set_node / set_node_st: transcription of ytypes/node.go, tied to
   the real code by the nodeops stream).  Proofs: Tree/NodeFrameProofs.v (set), Tree/NodeProofs.v
   (get, sequences), Tree/NodeTotalProofs.v (panics).  This file only restates them.

   Leaf-level claims are stated on the STRUCTURAL view of a tree: `sub_at t sp` is the subtree at
   the structural path sp (StF g = struct field with Go name g, StK k = map entry with key tuple
   k); `set_frame_leaf_at` rephrases them through MergeJson.leaf_at.  `addr_of S p` is the
   structural address of the gNMI path p, a function of schema and path only.  It is defined
   when every element of p matches a (non-shadow) path tag, every keyed element names all keys of
   its list, and every key string is canonical: the decoder of the list kind accepts it and the
   value prints as the same string (path_key).  Its result (sp, fl, ss, kl): address, prune flags
   (C12), schema of the node, "the node is a key leaf of its list entry".

   Guards (named, boolean): swfb S (Go field names of a struct distinct; the three key-leaf
   lookups getKeyValue / schemaNameToFieldName / ΛListKeyMap of a list agree and give distinct
   leaves), root_okb S t (fields in struct order, node kinds match the schema, list entries are
   structs whose key leaves equal their map key, every map key is read back from its own string
   (GnmiStatements.key_roundtrips), Go-map entries in the canonical order with distinct keys).

   Names ending in _partial: proved on the domain of addr_of and the guards above.  What they do
   not cover, exactly: (1) key strings that are not canonical ("07", "+7", "acl:ACL_IPV6" for an
   identity): SetNode creates the entry under the parsed key (or, when the map holds that key
   already, acts on the existing entry) and GetNode with the same string finds nothing,
   c10_refuted_noncanonical_key; (2) elements without all keys, wildcards, a list
   named without keys; (3) a target that is a key leaf of its entry (kl = true: the C16
   key-leaf-overwrite finding); (4) trees outside root_ok: a map key that is not read back from
   its string (union {int; string} holding "5", `empty` keys, NaN), key leaf <> map key, unsorted
   Go-map entries; (5) PreferShadowPath, IgnoreExtraFields (success without any effect), JSON
   payloads on containers; (6) the Path of the returned node: an existential here (for a
   multi-key element GetNode reports the keys in sorted order, not as given); (7) the link from
   structural paths to the gNMI paths of Leaves.leaves is not proved: the leaf-level claims are
   about sub_at / leaf_at.  c10_get_total and c10_no_panic are unguarded. *)
From Coq Require Import String Ascii Permutation.
From Ygot Require Import Tree.Tree Tree.Codec Tree.TreeOps Tree.Unmarshal Tree.KeyCodec Tree.Leaves Tree.Node Path.PathRel.
From Ygot Require Import Tree.MergeJson Tree.NodeFrameProofs Tree.NodeProofs Tree.NodeTotalProofs Tree.NodeExamples.
From Ygot Require Import Tree.GnmiStatements.
From Ygot Require Import Tree.SetReq Tree.SetReqSpec Tree.LeavesPartsProofs Tree.SetReqBridgeProofs.

(* ---------- the guards are decidable ---------- *)
Theorem c10_guard_sound : forall env fo ko S t,
  swfb S = true -> root_okb env fo ko S t = true -> root_ok env fo ko S t.
Proof. exact root_okb_sound. Qed.
Print Assumptions c10_guard_sound.

(* ---------- 1. get after set ---------- *)

(* scalar TypedValue on a leaf.  Conclusions: the node at the address of p holds the decoded value;
   GetNode (any options without wildcards / shadow paths) returns exactly one node with it; the
   guard holds again (so the theorem applies to the next operation); the frame (see 2). *)
Theorem c10_get_after_set_partial : forall env fo ko o og tv S t p sp fl ty d v t',
  s_shadow o = false -> s_ignore_extra o = false -> g_shadow og = false -> g_wild og = false ->
  swfb S = true -> root_ok env fo ko S t ->
  addr_of env fo ko S p = Some (sp, fl, SLeaf ty d, false) ->
  (forall j, tv <> TVJsonIetf j) -> decode_tv env ko (s_tol_json o) ty tv = Ok v ->
  set_node env fo ko o tv S t p = Ok t' ->
  sub_at t' sp = Some (TLeaf v)
  /\ (exists q, get_node env fo ko og S t' p = Ok [{| gn_path := q; gn_data := Some (TLeaf v) |}])
  /\ root_ok env fo ko S t' /\ frame (Some t) (Some t') sp.
Proof. intros env fo ko o og tv S t p sp fl ty d v t' H1 H2 H3 H4. exact (get_after_set env fo ko o og H1 H2 H3 H4 tv S t p sp fl ty d v t'). Qed.
Print Assumptions c10_get_after_set_partial.

(* JSON_IETF payload on a leaf *)
Theorem c10_get_after_set_json_partial : forall env fo ko o og j S t p sp fl ty d v t',
  s_shadow o = false -> s_ignore_extra o = false -> g_shadow og = false -> g_wild og = false ->
  swfb S = true -> root_ok env fo ko S t ->
  addr_of env fo ko S p = Some (sp, fl, SLeaf ty d, false) ->
  j <> JNull -> dec_json env fo ty j = Ok v ->
  set_node env fo ko o (TVJsonIetf j) S t p = Ok t' ->
  sub_at t' sp = Some (TLeaf v)
  /\ (exists q, get_node env fo ko og S t' p = Ok [{| gn_path := q; gn_data := Some (TLeaf v) |}])
  /\ root_ok env fo ko S t' /\ frame (Some t) (Some t') sp.
Proof. intros env fo ko o og j S t p sp fl ty d v t' H1 H2 H3 H4. exact (get_after_set_json env fo ko o og H1 H2 H3 H4 j S t p sp fl ty d v t'). Qed.
Print Assumptions c10_get_after_set_json_partial.

(* leaflist_val on a leaf-list: success implies that every element decodes; the node holds them all *)
Theorem c10_get_after_set_leaflist_partial : forall env fo ko o og tvs S t p sp fl ty mn mx t',
  s_shadow o = false -> s_ignore_extra o = false -> g_shadow og = false -> g_wild og = false ->
  swfb S = true -> root_ok env fo ko S t ->
  addr_of env fo ko S p = Some (sp, fl, SLeafList ty mn mx, false) ->
  set_node env fo ko o (TVLeafList tvs) S t p = Ok t' ->
  exists vs, tvs <> [] /\ mapM (decode_tv env ko (s_tol_json o) ty) tvs = Ok vs
    /\ sub_at t' sp = Some (TLeafList vs)
    /\ (exists q, get_node env fo ko og S t' p = Ok [{| gn_path := q; gn_data := Some (TLeafList vs) |}])
    /\ root_ok env fo ko S t' /\ frame (Some t) (Some t') sp.
Proof. intros env fo ko o og tvs S t p sp fl ty mn mx t' H1 H2 H3 H4. exact (get_after_set_leaflist env fo ko o og H1 H2 H3 H4 tvs S t p sp fl ty mn mx t'). Qed.
Print Assumptions c10_get_after_set_leaflist_partial.

(* every payload at once: the new content of the node is what the leaf update (Node.set_leaf:
   unmarshalLeaf / unmarshalLeafList / Unmarshal of a JSON value) computes from the old content *)
Theorem c10_set_general_partial : forall env fo ko o og tv S t p sp fl ss t',
  s_shadow o = false -> s_ignore_extra o = false -> g_shadow og = false -> g_wild og = false ->
  tv_is_nil tv = false -> swfb S = true -> root_ok env fo ko S t ->
  addr_of env fo ko S p = Some (sp, fl, ss, false) -> is_leafish ss = true ->
  set_node env fo ko o tv S t p = Ok t' ->
  exists nl, set_leaf env fo ko o tv ss (sub_at t sp) = (nl, Ok tt)
    /\ sub_at t' sp = nl /\ root_ok env fo ko S t' /\ frame (Some t) (Some t') sp
    /\ get_post og nl (get_node env fo ko og S t' p).
Proof. intros env fo ko o og tv S t p sp fl ss t' H1 H2 H3 H4. exact (set_node_at env fo ko o og H1 H2 H3 H4 tv S t p sp fl ss t'). Qed.
Print Assumptions c10_set_general_partial.

(* GetNode at any addressable path reads the structural subtree: exactly one node when it is
   there; with GetTolerateNil nothing (or one nil node) when it is not *)
Theorem c10_get_reads_address : forall env fo ko og S t p sp fl ss kl,
  g_shadow og = false -> g_wild og = false -> swfb S = true -> root_ok env fo ko S t ->
  addr_of env fo ko S p = Some (sp, fl, ss, kl) ->
  get_post og (sub_at t sp) (get_node env fo ko og S t p).
Proof. exact get_node_at. Qed.
Print Assumptions c10_get_reads_address.

(* ---------- 2. frame ---------- *)
(* frame (Some t) (Some t') sp unfolded: every subtree at a structural path q that is not a
   prefix of the address (so: every other leaf, leaf-list, container, list, entry) is as before,
   or it did not exist and is a key leaf of a list entry created on the way, holding one of the
   key values named in p (which one: root_ok S t' says the key leaves equal the map key, and the
   map key StK mk on the spine is the tuple parsed from the path) *)
Theorem c10_frame : forall t t' sp,
  frame (Some t) (Some t') sp ->
  (forall q x, ~ sprefix q sp -> sub_at t q = Some x -> sub_at t' q = Some x)
  /\ (forall q x, ~ sprefix q sp -> sub_at t' q = Some x ->
        sub_at t q = Some x \/ (sub_at t q = None /\ created_key sp q (Some x))).
Proof.
  intros t t' sp H. split; intros q x Hq Hs; destruct (H q Hq) as [E|[En Hck]]; simpl in *.
  - congruence.
  - congruence.
  - left. congruence.
  - right. split; auto. now rewrite <- Hs.
Qed.
Print Assumptions c10_frame.

Theorem c10_frame_leaf_at : forall t t' sp q lv,
  frame (Some t) (Some t') sp -> no_index q -> ~ sprefix q sp ->
  (leaf_at t q = Some lv -> leaf_at t' q = Some lv)
  /\ (leaf_at t' q = Some lv -> leaf_at t q = Some lv \/ exists v, lv = LvLeaf v /\ created_key sp q (Some (TLeaf v))).
Proof. exact set_frame_leaf_at. Qed.
Print Assumptions c10_frame_leaf_at.

(* ---------- 3. sequences of sets ---------- *)
Theorem c10_history_partial : forall env fo ko o S,
  s_shadow o = false -> s_ignore_extra o = false -> swfb S = true ->
  forall ops sps t t', Forall2 (set_op_ok env fo ko S) ops sps -> root_ok env fo ko S t ->
  set_seq env fo ko o S t ops = Ok t' ->
  root_ok env fo ko S t' /\
  forall q, (forall sp, In sp sps -> ~ sprefix q sp) ->
    sub_at t' q = sub_at t q \/ (sub_at t q = None /\ exists sp, In sp sps /\ created_key sp q (sub_at t' q)).
Proof. exact set_seq_history. Qed.
Print Assumptions c10_history_partial.

(* last write wins: a value set at p is read back after any later sets that do not address p *)
Theorem c10_history_last_partial : forall env fo ko o og S,
  s_shadow o = false -> s_ignore_extra o = false -> g_shadow og = false -> g_wild og = false -> swfb S = true ->
  forall ops1 p tv ops2 sps1 sps2 t t' sp fl ty d v,
  Forall2 (set_op_ok env fo ko S) ops1 sps1 -> Forall2 (set_op_ok env fo ko S) ops2 sps2 -> root_ok env fo ko S t ->
  addr_of env fo ko S p = Some (sp, fl, SLeaf ty d, false) ->
  (forall j, tv <> TVJsonIetf j) -> decode_tv env ko (s_tol_json o) ty tv = Ok v ->
  (forall sp', In sp' sps2 -> ~ sprefix sp sp') ->
  set_seq env fo ko o S t (ops1 ++ (p, tv) :: ops2) = Ok t' ->
  sub_at t' sp = Some (TLeaf v)
  /\ exists q, get_node env fo ko og S t' p = Ok [{| gn_path := q; gn_data := Some (TLeaf v) |}].
Proof. exact set_seq_last. Qed.
Print Assumptions c10_history_last_partial.

(* ---------- 4. totality ---------- *)
(* GetNode never panics (no hypothesis) *)
Theorem c10_get_total : forall env fo ko o S t p, get_node env fo ko o S t p <> Panic.
Proof. exact get_node_no_panic. Qed.
Print Assumptions c10_get_total.

(* SetNode with a TypedValue other than json_ietf_val panics only in insertAndGetKey, on a
   decimal64 key string that strconv.ParseFloat reads as NaN *)
Theorem c10_no_panic : forall env fo ko o tv S t p t',
  (forall j, tv <> TVJsonIetf j) -> no_nan_path fo p ->
  set_node_st env fo ko o tv S t p <> (t', Panic).
Proof. intros env fo ko o tv S t p t' Hj. exact (set_node_no_panic env fo ko o tv Hj S t p t'). Qed.
Print Assumptions c10_no_panic.

(* ====================================================================================== *)
(* The candidate statement of GnmiStatements.v, and why it needed the canonical-key guard   *)
(* ====================================================================================== *)
Local Open Scope string_scope.

Definition c10_full : Prop := GnmiStatements.c10_get_after_set.

Example c10_schema_guards :
  swfb ex_schema = true /\ root_okb ex_env ex_fo ex_ko ex_schema ex_tree = true
  /\ schema_ok ex_schema /\ enum_env_ok ex_env = true
  /\ tree_ok ex_env ex_fo ex_ko loose_guard ex_schema ex_tree = true.
Proof. repeat split; try (vm_compute; reflexivity). exists 10%nat. vm_compute. reflexivity. Qed.

(* a key written "07" (the tree holds no entry 7): SetNode creates the entry with key 7,
   GetNode("07") compares the string with "7" and finds nothing.  (Also false for the reported path: a multi-key element is
   returned with its keys in sorted order.) *)
Theorem c10_refuted_noncanonical_key : ~ c10_full.
Proof.
  intros H. unfold c10_full, GnmiStatements.c10_get_after_set in H.
  destruct (node_at ex_schema (p_subdescr "eth0" "07")) as [ni|] eqn:En; [|vm_compute in En; discriminate].
  assert (Hs : schema_ok ex_schema) by (exists 10%nat; vm_compute; reflexivity).
  specialize (H ex_schema ex_env ex_fo ex_ko ex_set (TVString (s_ "x")) ex_tree (p_subdescr "eth0" "07")).
  destruct (set_node ex_env ex_fo ex_ko ex_set (TVString (s_ "x")) ex_schema ex_tree (p_subdescr "eth0" "07")) as [t'| |] eqn:Es;
    [|vm_compute in Es; discriminate|vm_compute in Es; discriminate].
  specialize (H t' ni (YStr [] 0) [] (VStr (s_ "x")) Hs eq_refl eq_refl eq_refl En).
  assert (E1 : ni_schema ni = SLeaf (YStr [] 0) []) by (vm_compute in En; injection En as <-; reflexivity).
  assert (E2 : ni_key_leaf ni = false) by (vm_compute in En; injection En as <-; reflexivity).
  specialize (H E1 E2 eq_refl eq_refl).
  vm_compute in Es. injection Es as <-. vm_compute in H. discriminate H.
Qed.
Print Assumptions c10_refuted_noncanonical_key.

(* the Path GetNode reports for a multi-key entry carries the keys in sorted order, not as given
   (so `gn_path = p` in the candidate fails even for canonical keys) *)
Example c10_reported_path_has_sorted_keys :
  map gn_path (match get_node ex_env ex_fo ex_ko ex_get ex_schema ex_tree (p_acl_descr "a1" "ACL_IPV4") with Ok l => l | _ => [] end)
  = [[el "acls"; elk "acl" [("name", "a1"); ("type", "ACL_IPV4")]; el "config"; el "description"]]
  /\ p_acl_descr "a1" "ACL_IPV4" = [el "acls"; elk "acl" [("type", "ACL_IPV4"); ("name", "a1")]; el "config"; el "description"].
Proof. split; vm_compute; reflexivity. Qed.

(* a failing SetNode is not a no-op: InitMissingElements leaves the created entry behind *)
Definition c10_fail_tree : tree :=
  fst (set_node_st ex_env ex_fo ex_ko ex_set (TVString (s_ "x")) ex_schema (TCont []) (p_mtu "eth9")).
Theorem c10_refuted_failed_set_mutates : GnmiStatements.c10_refuted_failed_set_mutates.
Proof.
  exists ex_schema, ex_env, ex_fo, ex_ko, ex_set, (TVString (s_ "x")), (TCont []), (p_mtu "eth9"), c10_fail_tree,
    [], (match leaves ex_env ex_ko false ex_schema c10_fail_tree [] with Ok l => l | _ => [] end).
  split; [vm_compute; reflexivity|]. split; [vm_compute; reflexivity|]. split; [vm_compute; reflexivity|].
  intros Hp. apply Permutation_length in Hp. vm_compute in Hp. discriminate Hp.
Qed.
Print Assumptions c10_refuted_failed_set_mutates.

(* the NaN arm: the hypothesis of c10_no_panic cannot be dropped *)
Definition c10_nan_schema : schema :=
  SCont [ (mkf "L" [["ls";"l"]] false,
           SList false [s_ "k"] 0 0 [ (mkf "K" [["k"]] false, SLeaf (YDec 2) []);
                                      (mkf "V" [["v"]] false, SLeaf (YStr [] 0) []) ]) ].
Definition c10_nan_fo : float_oracle := mk_float_oracle [] [(s_ "NaN", 9221120237041090560%N)].
Example c10_panic_nan_witness :
  snd (set_node_st ex_env c10_nan_fo ex_ko ex_set (TVString (s_ "x")) c10_nan_schema (TCont [])
         [el "ls"; elk "l" [("k", "NaN")]; el "v"]) = Panic.
Proof. vm_compute. reflexivity. Qed.

(* ====================================================================================== *)
(* Non-vacuity: the theorems applied to the example schema                                *)
(* ====================================================================================== *)
Definition c10_root : root_ok ex_env ex_fo ex_ko ex_schema ex_tree :=
  root_okb_sound ex_env ex_fo ex_ko ex_schema ex_tree eq_refl eq_refl.

Definition ex_addr (p : dpath) : option (list step * bool) :=
  match addr_of ex_env ex_fo ex_ko ex_schema p with Some (sp, _, _, kl) => Some (sp, kl) | None => None end.

(* addresses: nested list (new entries), multi-key list with an enumeration key, ordered list,
   leaf-list, union leaf; a key leaf is flagged; non-canonical keys and a list without keys have
   no address *)
Example c10_addresses :
  ex_addr (p_subdescr "eth0" "7") = Some ([StF (s_ "Iface"); StK [VStr (s_ "eth0")]; StF (s_ "Subif"); StK [VInt U32 7]; StF (s_ "Descr")], false)
  /\ ex_addr (p_acl_descr "a2" "ACL_IPV6") = Some ([StF (s_ "Acl"); StK [VStr (s_ "a2"); VEnum (s_ "E_AclType") 2]; StF (s_ "Descr")], false)
  /\ ex_addr (p_rule_action "15") = Some ([StF (s_ "Rule"); StK [VInt U32 15]; StF (s_ "Action")], false)
  /\ ex_addr p_tags = Some ([StF (s_ "Tags")], false) /\ ex_addr p_mode = Some ([StF (s_ "Mode")], false)
  /\ ex_addr [el "interfaces"; elk "interface" [("name", "eth0")]; el "name"] = Some ([StF (s_ "Iface"); StK [VStr (s_ "eth0")]; StF (s_ "Name")], true)
  /\ ex_addr (p_subdescr "eth0" "07") = None /\ ex_addr (p_acl_descr "a2" "acl:ACL_IPV6") = None
  /\ ex_addr [el "interfaces"; el "interface"] = None.
Proof. repeat split; vm_compute; reflexivity. Qed.

(* a nested list: two entries are created; the value is read back and the new key leaves are the
   only other additions *)
Example c10_nested_list_example :
  exists t', set_node ex_env ex_fo ex_ko ex_set (TVString (s_ "x")) ex_schema ex_tree (p_subdescr "eth2" "7") = Ok t'
    /\ (exists q, get_node ex_env ex_fo ex_ko ex_get ex_schema t' (p_subdescr "eth2" "7") = Ok [{| gn_path := q; gn_data := Some (TLeaf (VStr (s_ "x"))) |}])
    /\ root_ok ex_env ex_fo ex_ko ex_schema t'
    /\ sub_at t' [StF (s_ "Iface"); StK [VStr (s_ "eth1")]; StF (s_ "Mtu")] = Some (TLeaf (VInt U16 9000))
    /\ sub_at t' [StF (s_ "Iface"); StK [VStr (s_ "eth2")]; StF (s_ "Name")] = Some (TLeaf (VStr (s_ "eth2"))).
Proof.
  destruct (set_node ex_env ex_fo ex_ko ex_set (TVString (s_ "x")) ex_schema ex_tree (p_subdescr "eth2" "7")) as [t'| |] eqn:Es;
    [|vm_compute in Es; discriminate Es|vm_compute in Es; discriminate Es].
  exists t'. split; auto.
  destruct (c10_get_after_set_partial ex_env ex_fo ex_ko ex_set ex_get (TVString (s_ "x")) ex_schema ex_tree (p_subdescr "eth2" "7")
              _ _ (YStr [] 0) [] (VStr (s_ "x")) t' eq_refl eq_refl eq_refl eq_refl eq_refl c10_root eq_refl
              ltac:(discriminate) eq_refl Es) as (Hv & Hg & Hr & Hf).
  split; auto. split; auto.
  destruct (c10_frame _ _ _ Hf) as [Hfw _].
  split; [|vm_compute in Es; injection Es as <-; vm_compute; reflexivity].
  apply Hfw; [|vm_compute; reflexivity].
  intros [c Hc]. discriminate Hc.
Qed.

(* multi-key list (string + identity keys given in any order), ordered list, leaf-list, union *)
Example c10_other_kinds_example :
  (exists t' q, set_node ex_env ex_fo ex_ko ex_set (TVString (s_ "x")) ex_schema ex_tree (p_acl_descr "a2" "ACL_IPV6") = Ok t'
     /\ get_node ex_env ex_fo ex_ko ex_get ex_schema t' (p_acl_descr "a2" "ACL_IPV6") = Ok [{| gn_path := q; gn_data := Some (TLeaf (VStr (s_ "x"))) |}])
  /\ (exists t' q, set_node ex_env ex_fo ex_ko ex_set (TVString (s_ "log")) ex_schema ex_tree (p_rule_action "15") = Ok t'
     /\ get_node ex_env ex_fo ex_ko ex_get ex_schema t' (p_rule_action "15") = Ok [{| gn_path := q; gn_data := Some (TLeaf (VStr (s_ "log"))) |}])
  /\ (exists t' q, set_node ex_env ex_fo ex_ko ex_set (TVLeafList [TVString (s_ "z")]) ex_schema ex_tree p_tags = Ok t'
     /\ get_node ex_env ex_fo ex_ko ex_get ex_schema t' p_tags = Ok [{| gn_path := q; gn_data := Some (TLeafList [VStr (s_ "z")]) |}])
  /\ (exists t' q, set_node ex_env ex_fo ex_ko ex_set (TVString (s_ "five")) ex_schema ex_tree p_mode = Ok t'
     /\ get_node ex_env ex_fo ex_ko ex_get ex_schema t' p_mode = Ok [{| gn_path := q; gn_data := Some (TLeaf (VStr (s_ "five"))) |}])
  /\ (exists t' q, set_node ex_env ex_fo ex_ko ex_set (TVJsonIetf (JNum 1400 0)) ex_schema ex_tree (p_mtu "eth0") = Ok t'
     /\ get_node ex_env ex_fo ex_ko ex_get ex_schema t' (p_mtu "eth0") = Ok [{| gn_path := q; gn_data := Some (TLeaf (VInt U16 1400)) |}]).
Proof.
  repeat split.
  - destruct (set_node ex_env ex_fo ex_ko ex_set (TVString (s_ "x")) ex_schema ex_tree (p_acl_descr "a2" "ACL_IPV6")) as [t'| |] eqn:Es;
      [|vm_compute in Es; discriminate Es|vm_compute in Es; discriminate Es].
    destruct (c10_get_after_set_partial ex_env ex_fo ex_ko ex_set ex_get (TVString (s_ "x")) ex_schema ex_tree (p_acl_descr "a2" "ACL_IPV6")
                _ _ (YStr [] 0) [] (VStr (s_ "x")) t' eq_refl eq_refl eq_refl eq_refl eq_refl c10_root eq_refl
                ltac:(discriminate) eq_refl Es) as (_ & (q & Hg) & _). eauto.
  - destruct (set_node ex_env ex_fo ex_ko ex_set (TVString (s_ "log")) ex_schema ex_tree (p_rule_action "15")) as [t'| |] eqn:Es;
      [|vm_compute in Es; discriminate Es|vm_compute in Es; discriminate Es].
    destruct (c10_get_after_set_partial ex_env ex_fo ex_ko ex_set ex_get (TVString (s_ "log")) ex_schema ex_tree (p_rule_action "15")
                _ _ (YStr [] 0) [] (VStr (s_ "log")) t' eq_refl eq_refl eq_refl eq_refl eq_refl c10_root eq_refl
                ltac:(discriminate) eq_refl Es) as (_ & (q & Hg) & _). eauto.
  - destruct (set_node ex_env ex_fo ex_ko ex_set (TVLeafList [TVString (s_ "z")]) ex_schema ex_tree p_tags) as [t'| |] eqn:Es;
      [|vm_compute in Es; discriminate Es|vm_compute in Es; discriminate Es].
    destruct (c10_get_after_set_leaflist_partial ex_env ex_fo ex_ko ex_set ex_get [TVString (s_ "z")] ex_schema ex_tree p_tags
                _ _ (YStr [] 0) 0%N 0%N t' eq_refl eq_refl eq_refl eq_refl eq_refl c10_root eq_refl Es)
      as (vs & _ & Hm & _ & (q & Hg) & _).
    vm_compute in Hm. injection Hm as <-. eauto.
  - destruct (set_node ex_env ex_fo ex_ko ex_set (TVString (s_ "five")) ex_schema ex_tree p_mode) as [t'| |] eqn:Es;
      [|vm_compute in Es; discriminate Es|vm_compute in Es; discriminate Es].
    destruct (c10_get_after_set_partial ex_env ex_fo ex_ko ex_set ex_get (TVString (s_ "five")) ex_schema ex_tree p_mode
                _ _ (YUnion [YInt I8 []; YStr [] 0]) [] (VStr (s_ "five")) t' eq_refl eq_refl eq_refl eq_refl eq_refl c10_root eq_refl
                ltac:(discriminate) eq_refl Es) as (_ & (q & Hg) & _). eauto.
  - destruct (set_node ex_env ex_fo ex_ko ex_set (TVJsonIetf (JNum 1400 0)) ex_schema ex_tree (p_mtu "eth0")) as [t'| |] eqn:Es;
      [|vm_compute in Es; discriminate Es|vm_compute in Es; discriminate Es].
    destruct (c10_get_after_set_json_partial ex_env ex_fo ex_ko ex_set ex_get (JNum 1400 0) ex_schema ex_tree (p_mtu "eth0")
                _ _ (YInt U16 []) [] (VInt U16 1400) t' eq_refl eq_refl eq_refl eq_refl eq_refl c10_root eq_refl
                ltac:(discriminate) eq_refl Es) as (_ & (q & Hg) & _). eauto.
Qed.

(* ---------- the leaf-level form (Leaves.leaves, the gNMI paths of TogNMINotifications) ---------- *)

(* "Every other leaf in the tree keeps its previous value, apart from the key leaves of list
   entries created along p": on the leaf map that findUpdatedLeaves reports, a successful guarded
   SetNode is exactly spec_update (the leaves at and below p replaced by the new value, the key
   leaves of created entries added, every other leaf kept), and the invariant is preserved.
   Guards: c13_inv2 (schema: c13_schemab; tree: root_ok) and update_guardb (leaf / leaf-list
   target that is no key leaf, scalar payload of its type, complete canonical sorted keys, no
   ordered or unkeyed list on the path).  Proved in Tree/SetReqBridgeProofs.v (shared with C13). *)
Theorem c10_leaves_after_set : forall env fo ko sch,
  leaves_after_set_leaf_stmt env fo ko sch no_opts (schema_sem env fo ko sch)
    (fun t => leaves env ko false sch t []) (c13_inv2 env fo ko sch)
    (fun p x => update_guardb env fo ko sch p x = true).
Proof. exact leaves_after_set_holds. Qed.
Print Assumptions c10_leaves_after_set.
