(* C06 — scalar restriction checks match YANG value-space semantics.
   This file only restates results proved in Scalar/*Proofs.v, refutes the unguarded pattern
   statement on the faithful model with concrete witnesses, and gives non-vacuity examples. *)
From Ygot Require Import Base.Base Scalar.Number Scalar.NumberSpec Scalar.NumberProofs Scalar.Regex Scalar.RegexProofs
  Scalar.FixRegexp Scalar.FixRegexpProofs Scalar.RegexParseProofs Scalar.Restrict Scalar.RestrictProofs.
From Coq Require Import QArith.
Open Scope N_scope.

(* ------------------------------------------------------------------ ranges and Number *)

(* yang.Number.Less is the strict order of the denoted rationals (FractionDigits <= 18,
   64-bit magnitude, no negative zero): no off-by-a-power-of-ten between different
   fraction-digits. *)
Theorem number_less_spec : forall a b, wf_num a = true -> wf_num b = true ->
  (less a b = true <-> (denoteQ a < denoteQ b)%Q).
Proof. exact less_spec_Q. Qed.
Print Assumptions number_less_spec.

Theorem number_less_scaled : forall a b, wf_num a = true -> wf_num b = true ->
  (less a b = true <-> (scaled a < scaled b)%Z).
Proof. exact less_spec. Qed.
Print Assumptions number_less_scaled.

Theorem number_equal_spec : forall a b, wf_num a = true -> wf_num b = true ->
  (equal a b = true <-> scaled a = scaled b).
Proof. exact equal_spec. Qed.
Print Assumptions number_equal_spec.

Theorem number_scaled_is_value : forall n, nfd n <= 18 ->
  (inject_Z (scaled n) == denoteQ n * inject_Z 1000000000000000000)%Q.
Proof. exact scaled_denoteQ. Qed.
Print Assumptions number_scaled_is_value.

Theorem c06_in_ranges : forall rs v, forallb wf_range rs = true -> wf_num v = true ->
  (in_ranges rs v = true <->
   rs = [] \/ exists r, In r rs /\ (scaled (rmin r) <= scaled v <= scaled (rmax r))%Z).
Proof. exact in_ranges_spec. Qed.
Print Assumptions c06_in_ranges.

(* ValidateIntRestrictions: accepted iff no range is given or z lies in one of the parts *)
Theorem c06_int_range : forall (bs : list (Z * Z)) z,
  (forall b, In b bs -> int64b (fst b) /\ int64b (snd b)) -> int64b z ->
  (validate_int (only_range (map (fun b => int_range (fst b) (snd b)) bs)) z = Ok tt <->
   bs = [] \/ exists b, In b bs /\ (fst b <= z <= snd b)%Z).
Proof. exact validate_int_range. Qed.
Print Assumptions c06_int_range.

(* the same against arbitrary well-formed range bounds (e.g. decimal bounds) *)
Theorem c06_int_range_gen : forall rs z, forallb wf_range rs = true -> int64b z ->
  (validate_int (only_range rs) z = Ok tt <->
   rs = [] \/ exists r, In r rs /\ (scaled (rmin r) <= z * 1000000000000000000 <= scaled (rmax r))%Z).
Proof. exact validate_int_spec. Qed.
Print Assumptions c06_int_range_gen.

Theorem c06_uint_range : forall (bs : list (N * N)) n,
  (forall b, In b bs -> fst b < W64 /\ snd b < W64) -> n < W64 ->
  (validate_uint (only_range (map (fun b => uint_range (fst b) (snd b)) bs)) n = Ok tt <->
   bs = [] \/ exists b, In b bs /\ fst b <= n <= snd b).
Proof. exact validate_uint_range. Qed.
Print Assumptions c06_uint_range.

(* ValidateDecimalRestrictions, given v = yang.FromFloat(f) *)
Theorem c06_decimal_range : forall rs v, forallb wf_range rs = true -> wf_num v = true ->
  (validate_decimal (only_range rs) v = Ok tt <->
   rs = [] \/ exists r, In r rs /\ (scaled (rmin r) <= scaled v <= scaled (rmax r))%Z).
Proof. exact validate_decimal_spec. Qed.
Print Assumptions c06_decimal_range.

(* ------------------------------------------------------------------ lengths *)

(* strings: the length restriction counts code points (characters), not bytes *)
Theorem c06_string_length : forall (bs : list (N * N)) s,
  (forall b, In b bs -> fst b < W64 /\ snd b < W64) -> N.of_nat (length s) < W64 ->
  (validate_string (only_length (map (fun b => uint_range (fst b) (snd b)) bs)) s = Ok tt <->
   bs = [] \/ exists b, In b bs /\ fst b <= N.of_nat (length s) <= snd b).
Proof. exact validate_string_length. Qed.
Print Assumptions c06_string_length.

(* binary: counts bytes *)
Theorem c06_binary_length : forall (bs : list (N * N)) (bytes : list N),
  (forall b, In b bs -> fst b < W64 /\ snd b < W64) -> N.of_nat (length bytes) < W64 ->
  (validate_binary (only_length (map (fun b => uint_range (fst b) (snd b)) bs)) bytes = Ok tt <->
   bs = [] \/ exists b, In b bs /\ fst b <= N.of_nat (length bytes) <= snd b).
Proof. exact validate_binary_length. Qed.
Print Assumptions c06_binary_length.

(* ------------------------------------------------------------------ anchoring *)

(* fixYangRegexp, documented case: ^( escaped pattern )$.  For the code as it is, plainb
   requires a one-byte last rune; the statement is generic in FixRegexp.the_cfg. *)
Theorem fix_shape : forall p, plainb the_cfg p = true ->
  fix_yang_regexp p = wrap_str (esc the_cfg p).
Proof. intros p. exact (fix_shape_plain the_cfg p). Qed.
Print Assumptions fix_shape.

Theorem fix_escape_identity : forall p,
  forallb (fun c => negb (c =? R_DOLLAR) && negb (c =? R_CARET)) p = true -> esc the_cfg p = p.
Proof. exact (esc_id the_cfg). Qed.
Print Assumptions fix_escape_identity.

(* the remaining cases of the current code *)
Theorem fix_shape_now_empty : fix_with cfg_now [] = [].
Proof. exact (fix_empty cfg_now). Qed.
Theorem fix_shape_now_dollar : forall b, head_is R_CARET (b ++ [R_DOLLAR]) = false ->
  fix_with cfg_now (b ++ [R_DOLLAR]) = wrap_str (esc cfg_now b).
Proof. exact fix_shape_dollar. Qed.
Theorem fix_shape_now_caret : forall t, t <> [] -> last_single t = true -> last_is R_DOLLAR t = false ->
  fix_with cfg_now (R_CARET :: t) = R_CARET :: esc_mid false false R_CARET false t ++ [R_DOLLAR].
Proof. exact fix_shape_caret. Qed.
Theorem fix_shape_now_caret_dollar : forall b,
  fix_with cfg_now (R_CARET :: b ++ [R_DOLLAR]) = R_CARET :: esc_mid false false R_CARET false b ++ [R_DOLLAR].
Proof. exact fix_shape_caret_dollar. Qed.
Theorem fix_shape_now_multibyte : forall p, p <> [] -> head_is R_CARET p = false -> last_single p = false ->
  fix_with cfg_now p = [R_CARET; R_LPAR] ++ esc cfg_now p.
Proof. exact fix_shape_multibyte. Qed.
Theorem fix_shape_now_caret_multibyte : forall t, t <> [] -> last_single t = false ->
  fix_with cfg_now (R_CARET :: t) = R_CARET :: esc_mid false false R_CARET false t.
Proof. exact fix_shape_caret_multibyte. Qed.
Print Assumptions fix_shape_now_multibyte.
Print Assumptions fix_shape_now_caret.

(* the repaired code groups ^a|b *)
Theorem fix_shape_fixed_caret_alt : forall cf t, f_group_alt cf = true -> has_bar t = true ->
  (f_rune_end cf || last_single t) = true -> last_is R_DOLLAR t = false ->
  fix_with cf (R_CARET :: t) = wrap_str (esc_mid (f_esc_bracket cf) false R_CARET false t).
Proof. exact fix_shape_caret_alt_fixed. Qed.
Print Assumptions fix_shape_fixed_caret_alt.

(* the matcher decides the declarative semantics *)
Theorem search_decides : forall r s, search_b r s = true <-> search r s.
Proof. exact search_b_spec. Qed.
Theorem whole_decides : forall r s, whole_b r s = true <-> whole r s.
Proof. exact whole_b_spec. Qed.
Print Assumptions search_decides.

(* Go's unanchored MatchString on ^( r )$ is a whole-string match of r, for every r *)
Theorem anchored_search : forall r s, search_b (wrap r) s = whole_b r s.
Proof. exact RegexProofs.anchored_search. Qed.
Print Assumptions anchored_search.

(* for anchor-free r the whole-string match is membership in the regular language of r *)
Theorem anchored_language : forall r s, anchor_free r = true ->
  (search_b (wrap r) s = true <-> L r s).
Proof. exact anchored_lang. Qed.
Print Assumptions anchored_language.

(* ------------------------------------------------------------------ patterns *)

(* ygot's convention (pinned by TestSanitizedPattern): one leading ^ and one trailing unescaped $
   are redundant anchors; everything else is read as XSD, where ^ and $ are ordinary characters. *)
Definition strip (p : str) : str :=
  let q := if head_is R_CARET p then tl p else p in
  if last_is R_DOLLAR q && negb (esc_state false (removelast q)) then removelast q else q.
(* the XSD reading expressed in Go syntax: escape every unescaped $ and every unescaped ^ that
   does not open a negated class *)
Definition xsd_to_go (p : str) : str := esc_mid true false 0 false p.

(* The property at full strength: the verdict of ValidateStringRestrictions for one pattern is
   membership of the whole value in the language of the pattern. *)
Definition c06_pattern_full : Prop :=
  forall p r s, parse_re false (xsd_to_go (strip p)) = POk r -> anchor_free r = true ->
    (validate_string (only_pattern p) s = Ok tt <-> L r s).

(* Proved for the code as it is, under the guard plainb (non-empty, no leading ^, no trailing $,
   and — until the rune-aware end test is in — a one-byte last rune): if the escaped pattern
   compiles to r and r is anchor-free, the verdict is membership of the whole value in L(r). *)
Theorem c06_pattern_partial : forall p r s, plainb the_cfg p = true ->
  parse_re false (esc the_cfg p) = POk r -> anchor_free r = true ->
  (validate_string (only_pattern p) s = Ok tt <-> L r s).
Proof. exact pattern_lang_parsed. Qed.
Print Assumptions c06_pattern_partial.

(* its ingredients *)
Theorem parse_wrap : forall b r, parse_re false b = POk r ->
  parse_re false (wrap_str b) = POk (wrap r).
Proof. exact RegexParseProofs.parse_wrap. Qed.
Print Assumptions parse_wrap.

Theorem c06_pattern_whole_partial : forall p r s, plainb the_cfg p = true ->
  parse_re false (wrap_str (esc the_cfg p)) = POk (wrap r) ->
  (validate_string (only_pattern p) s = Ok tt <-> whole r s).
Proof. exact pattern_whole. Qed.
Print Assumptions c06_pattern_whole_partial.

(* --- refutations of the full statement on the faithful model ---
   Each is stated under `the_cfg = cfg_now` (true by reflexivity today); once /repo is repaired
   and FixRegexp.the_cfg is flipped, the hypothesis is false, the theorems become vacuous and
   should be deleted together with their known_findings entries. *)

Definition lang_b (r : re) (s : str) : bool := anchor_free r && whole_b r s.
Lemma lang_b_true : forall r s, lang_b r s = true -> anchor_free r = true /\ L r s.
Proof.
  intros r s H. apply andb_prop in H as [H1 H2]. split; [assumption | ]. apply whole_lang; assumption.
Qed.
Lemma lang_b_false : forall r s, anchor_free r = true -> whole_b r s = false -> ~ L r s.
Proof. intros r s Haf H Hl. apply whole_lang in Hl; [congruence | assumption]. Qed.

(* a witness on which ygot rejects a value of the language *)
Ltac refute_reject p r s :=
  intros H; specialize (H p r s eq_refl eq_refl);
  assert (Hl : L r s) by (apply (lang_b_true r s); vm_compute; reflexivity);
  apply H in Hl; vm_compute in Hl; discriminate Hl.
(* a witness on which ygot accepts a value outside the language *)
Ltac refute_accept p r s :=
  intros H; specialize (H p r s eq_refl eq_refl);
  assert (Hv : validate_string (only_pattern p) s = Ok tt) by (vm_compute; reflexivity);
  apply H in Hv; revert Hv; apply lang_b_false; vm_compute; reflexivity.

Definition lit (c : rune) : re := Cls false [(c, c)].

(* "abcé": the sanitized pattern is ^(abcé — it does not compile, every value is rejected *)
Definition w1_p : str := [97; 98; 99; 233].
Definition w1_r : re := Seq (lit 97) (Seq (lit 98) (Seq (lit 99) (lit 233))).
Example w1_fix : fix_with cfg_now w1_p = [94; 40; 97; 98; 99; 233].
Proof. vm_compute. reflexivity. Qed.
Theorem c06_refuted_multibyte_end : the_cfg = cfg_now -> ~ c06_pattern_full.
Proof. intros E; first [discriminate E | clear E; refute_reject w1_p w1_r w1_p]. Qed.
Print Assumptions c06_refuted_multibyte_end.
Theorem c06_multibyte_end_all_fail : the_cfg = cfg_now ->
  forall s, validate_string (only_pattern w1_p) s = Err.
Proof. intros E; first [discriminate E | clear E; apply pattern_all_fail; vm_compute; reflexivity]. Qed.

(* "^a|b" becomes ^a|b$ and accepts "ax" *)
Definition w2_p : str := [94; 97; 124; 98].
Definition w2_r : re := Alt (lit 97) (lit 98).
Example w2_fix : fix_with cfg_now w2_p = [94; 97; 124; 98; 36].
Proof. vm_compute. reflexivity. Qed.
Theorem c06_refuted_caret_alternation : the_cfg = cfg_now -> ~ c06_pattern_full.
Proof. intros E; first [discriminate E | clear E; refute_accept w2_p w2_r [97; 120]]. Qed.
Print Assumptions c06_refuted_caret_alternation.

(* further defects found by this property's oracle *)
(* "abc\$" becomes ^(abc\)$ — the escaped dollar is taken for the closing anchor: compile error *)
Definition w3_p : str := [97; 98; 99; 92; 36].
Definition w3_r : re := Seq (lit 97) (Seq (lit 98) (Seq (lit 99) (lit 36))).
Theorem c06_refuted_escaped_dollar_end : the_cfg = cfg_now -> ~ c06_pattern_full.
Proof. intros E; first [discriminate E | clear E; refute_reject w3_p w3_r [97; 98; 99; 36]]. Qed.
Print Assumptions c06_refuted_escaped_dollar_end.

(* "\[^a" becomes ^(\[^a)$ — the caret after an ESCAPED bracket is left as an anchor: nothing matches *)
Definition w4_p : str := [92; 91; 94; 97].
Definition w4_r : re := Seq (lit 91) (Seq (lit 94) (lit 97)).
Theorem c06_refuted_escaped_bracket_caret : the_cfg = cfg_now -> ~ c06_pattern_full.
Proof. intros E; first [discriminate E | clear E; refute_reject w4_p w4_r [91; 94; 97]]. Qed.
Print Assumptions c06_refuted_escaped_bracket_caret.

(* the empty pattern stays empty (pinned by TestSanitizedPattern) and accepts every value,
   whereas the XSD pattern "" matches only the empty string *)
Theorem c06_refuted_empty_pattern : ~ c06_pattern_full.
Proof. refute_accept (@nil rune) Eps [120]. Qed.
Print Assumptions c06_refuted_empty_pattern.

(* posix-pattern: CompilePOSIX makes ^ and $ LINE anchors, so "^abc$" accepts "abc\nxyz" *)
Theorem c06_posix_multiline :
  validate_string (YT [] [] [] [[94; 97; 98; 99; 36]]) [97; 98; 99; 10; 120; 121; 122] = Ok tt.
Proof. vm_compute. reflexivity. Qed.

(* --- the repaired configurations on the witnesses and on the pinned unit-test patterns --- *)
Example fixed_witnesses :
  fix_with cfg_fixed2 w1_p = wrap_str w1_p /\
  fix_with cfg_fixed2 w2_p = wrap_str [97; 124; 98] /\
  fix_with cfg_fixed4 w3_p = wrap_str w3_p /\
  fix_with cfg_fixed4 w4_p = wrap_str [92; 91; 92; 94; 97].
Proof. repeat split; vm_compute; reflexivity. Qed.
(* TestSanitizedPattern: "" -> "", ^abc -> ^abc$, ^abc$ -> ^abc$, abc$ -> ^(abc)$,
   a$b^c[^d]\\\ne -> ^(a\$b\^c[^d]\\\ne)$ : unchanged by every configuration *)
Definition pinned_in : list str :=
  [ []; [94; 97; 98; 99]; [94; 97; 98; 99; 36]; [97; 98; 99; 36];
    [97; 36; 98; 94; 99; 91; 94; 100; 93; 92; 92; 92; 110; 101]; [97; 98; 99] ].
Definition pinned_out : list str :=
  [ []; [94; 97; 98; 99; 36]; [94; 97; 98; 99; 36]; [94; 40; 97; 98; 99; 41; 36];
    [94; 40; 97; 92; 36; 98; 92; 94; 99; 91; 94; 100; 93; 92; 92; 92; 110; 101; 41; 36];
    [94; 40; 97; 98; 99; 41; 36] ].
Example pinned_tests_all_configurations :
  map (fix_with cfg_now) pinned_in = pinned_out /\
  map (fix_with cfg_fixed2) pinned_in = pinned_out /\
  map (fix_with cfg_fixed4) pinned_in = pinned_out.
Proof. repeat split; vm_compute; reflexivity. Qed.

(* --- non-vacuity --- *)
(* a plain pattern with a class, a repetition, an alternation, an escaped dot, a non-ASCII
   literal in the middle and literal ^ $ :  [a-c]+(é|\.)x{2,3}^$z *)
Definition ex_p : str := [91; 97; 45; 99; 93; 43; 40; 233; 124; 92; 46; 41; 120; 123; 50; 44; 51; 125; 94; 36; 122].
Definition ex_r : re :=
  match parse_re false (esc the_cfg ex_p) with POk r => r | _ => Eps end.
Example c06_pattern_guard_satisfiable :
  plainb the_cfg ex_p = true /\
  parse_re false (esc the_cfg ex_p) = POk ex_r /\
  anchor_free ex_r = true /\
  validate_string (only_pattern ex_p) [98; 97; 233; 120; 120; 94; 36; 122] = Ok tt /\
  validate_string (only_pattern ex_p) [98; 97; 233; 120; 94; 36; 122] = Err.
Proof. repeat split; vm_compute; reflexivity. Qed.

Example parse_wrap_examples :
  forallb (fun b => match parse_re false b, parse_re false (wrap_str b) with
                    | POk r, POk r' => match r' with
                                       | Seq Bol (Seq (Group _) Eol) => true
                                       | _ => false
                                       end
                    | _, _ => false
                    end)
    [ [97; 124; 98]; esc the_cfg ex_p; [40; 97; 42; 41; 42; 124]; [91; 94; 97; 93; 63]; [] ] = true.
Proof. vm_compute. reflexivity. Qed.

Example number_examples :
  (* 0.30 < 0.4, -2.5 < -2.49, 10 (integer) = 10.000 (3 digits), 2^64-1 > 1.8446744073709551615 *)
  less (Num 30 2 false) (Num 4 1 false) = true /\ less (Num 25 1 true) (Num 249 2 true) = true /\
  equal (Num 10 0 false) (Num 10000 3 false) = true /\
  less (Num 18446744073709551615 18 false) (Num 18446744073709551615 0 false) = true /\
  wf_num (Num 18446744073709551615 18 false) = true.
Proof. repeat split; vm_compute; reflexivity. Qed.

Example range_examples :
  validate_int (only_range [int_range (-5) 5; int_range 10 10]) 10 = Ok tt /\
  validate_int (only_range [int_range (-5) 5; int_range 10 10]) 6 = Err /\
  validate_int (only_range [int_range (-9223372036854775808) (-9223372036854775808)]) (-9223372036854775808) = Ok tt /\
  (* "é世" has 2 characters and 5 bytes *)
  validate_string (only_length [uint_range 2 2]) [233; 19990] = Ok tt /\
  validate_binary (only_length [uint_range 2 2]) [195; 169; 228; 184; 150] = Err.
Proof. repeat split; vm_compute; reflexivity. Qed.
