(* C08 — gNMI path string encoding round-trips and is injective.
   This file only restates results proved in Path/PathStringProofs.v. *)
From Ygot Require Import Base.Base Path.PathString Path.PathStringProofs.

(* The property at full strength: every path whose names are identifiers and whose key values
   are arbitrary non-empty strings survives PathToString ; StringToStructuredPath. *)
Definition c08_full : Prop :=
  forall p, wf_path_fullb p = true -> bind (path_str p) parse_path = Ok p.

(* Proved for the code as it is: key values without a backslash (the printer does not escape
   '\', which TestStringToPath pins). *)
Theorem c08_roundtrip_partial : forall p, wf_pathb p = true -> bind (path_str p) parse_path = Ok p.
Proof. exact roundtrip. Qed.
Print Assumptions c08_roundtrip_partial.

Theorem c08_injective_partial : forall p q, wf_pathb p = true -> wf_pathb q = true ->
  path_str p = path_str q -> p = q.
Proof. exact print_injective. Qed.
Print Assumptions c08_injective_partial.

(* legacy string-slice form: StringToStringSlicePath(PathToString p).Element = PathToStrings p *)
Theorem c08_slice_roundtrip_partial : forall p, wf_pathb p = true ->
  bind (path_str p) parse_slice = path_strs p.
Proof. exact slice_roundtrip. Qed.
Print Assumptions c08_slice_roundtrip_partial.

Theorem c08_parse_total : forall s, parse_path s <> Panic /\ parse_slice s <> Panic.
Proof. intros s; split; [apply parse_total | apply parse_slice_total]. Qed.
Print Assumptions c08_parse_total.

(* The full statement is false of the faithful model: a value containing a backslash. *)
Definition c08_witness : gpath := [ {| ename := [97]; ekeys := [([107], [120; 92; 121])] |} ].
Theorem c08_refuted_backslash : ~ c08_full.
Proof.
  intros H. specialize (H c08_witness eq_refl). vm_compute in H. discriminate H.
Qed.
Print Assumptions c08_refuted_backslash.

(* Non-vacuity: a path with '/', ']/', '//', '/../', '[', '=', space and non-ASCII runes in
   its key values satisfies the guard. *)
Definition c08_example : gpath :=
  [ {| ename := [97; 58; 98]; ekeys := [] |};
    {| ename := [108];
       ekeys := [ ([107; 49], [120; 93; 47; 121; 47; 47; 122; 47; 46; 46; 47; 91; 61; 32; 233; 19990]);
                  ([107; 50], [47]) ] |} ].
Example c08_guard_satisfiable :
  wf_pathb c08_example = true /\ bind (path_str c08_example) parse_path = Ok c08_example.
Proof. split; vm_compute; reflexivity. Qed.
