(* GnmiRt.v — definitions for properties C02 / C16 on the gNMI layer: the executable guards
   "schema usable through gNMI paths" (gn_schemab) and "tree that TogNMINotifications renders
   and UnmarshalNotifications rebuilds" (gn_treeb).  Definitions only; the proofs are in
   KeyCodecProofs.v, NodeStepProofs.v and GnmiRtProofs.v. *)
From Ygot Require Import Tree.Tree Scalar.Dec Scalar.Base64 Tree.Codec Tree.CodecProofs.
From Ygot Require Import Tree.TreeOps Tree.Render Tree.Unmarshal Tree.RoundTrip.
From Ygot Require Import Tree.KeyCodec Tree.Leaves Tree.Notif Tree.Node Tree.SetReq Path.PathRel.
From Ygot Require Import Tree.KeyCodecProofs Tree.NodeStepProofs.

(* ---------- scalars ---------- *)

(* the TypedValue ygot emits for v is decoded as v again by a leaf of type ty (plain gNMI
   encoding).  For the non-union types this is implied by typing (GnmiRtProofs.tv_codec_simple);
   for unions it singles out the member the decoder tries first. *)
Definition tv_rtb (env : enum_env) (ko : key_oracle) (ty : ytype) (v : scalar) : bool :=
  match encode_tv env v with
  | Ok tv => match decode_tv env ko false ty tv with Ok v' => scalar_eqb v v' | _ => false end
  | _ => false
  end.

(* ---------- schema ---------- *)

(* the three ways the code finds the key leaf of a list (ΛListKeyMap / entry_key: the field with
   the one-element path [k]; getKeyValue: the first field whose relative schema path ends in k;
   schemaNameToFieldName) agree, and it is a leaf *)
Definition key_agreeb (sfs : list (finfo * schema)) (k : str) : bool :=
  match key_field sfs k, key_value_field sfs k, key_name_field sfs k with
  | Some (f1, SLeaf _ _), Some (f2, _), Ok (f3, _) => str_eqb (f_go f1) (f_go f2) && str_eqb (f_go f1) (f_go f3)
  | _, _, _ => false
  end.

(* the Go field holding key k *)
Definition key_go (sfs : list (finfo * schema)) (k : str) : str :=
  match key_field sfs k with Some (fi, _) => f_go fi | None => [] end.

Fixpoint gn_schemab (s : schema) : bool :=
  match s with
  | SLeaf _ _ | SLeafList _ _ _ => true
  | SCont fs | SUnkeyed fs =>
      gn_struct_okb fs
      && (fix go (l : list (finfo * schema)) : bool :=
            match l with [] => true | (_, ss) :: r => gn_schemab ss && go r end) fs
  | SList _ keys _ _ fs =>
      gn_struct_okb fs && negb (nil_b keys) && nodupb keys && forallb (key_agreeb fs) keys
      && nodupb (map (key_go fs) keys)                      (* distinct keys live in distinct fields *)
      && (fix go (l : list (finfo * schema)) : bool :=
            match l with [] => true | (_, ss) :: r => gn_schemab ss && go r end) fs
  end.

(* ---------- trees ---------- *)

Fixpoint subseqb (a l : list str) : bool :=
  match a, l with
  | [], _ => true
  | _ :: _, [] => false
  | x :: a', y :: l' => if str_eqb x y then subseqb a' l' else subseqb a l'
  end.

Section GnTree.
  Variable env : enum_env.
  Variable fo : float_oracle.
  Variable ko : key_oracle.

  (* what the round trip needs of a (sub)tree:
     - every leaf value survives encode/decode (tv_rtb), leaf-lists are non-empty;
     - a struct lists fields of its schema, in schema order, each once, at least one
       (a container without any leaf is not conveyed by leaf updates);
     - a keyed list is a Go map (not `ordered-by user`: see c02_refuted_atomic_wipes), non-empty,
       its entries in canonical order under distinct keys, each entry a struct whose key leaves
       equal its map key, every key printable and re-parseable (keys_wfb), no NaN key;
     - no unkeyed list (c02_refuted_unkeyed). *)
  Fixpoint gn_node (s : schema) (t : tree) {struct t} : bool :=
    match t with
    | TLeaf v => match s with SLeaf ty _ => tv_rtb env ko ty v | _ => false end
    | TLeafList vs =>
        match s with
        | SLeafList ty _ _ => negb (nil_b vs) && forallb (tv_rtb env ko ty) vs
        | _ => false
        end
    | TCont fs =>
        negb (nil_b fs) && subseqb (map fst fs) (go_names (sfields s))
        && (fix fields (l : list (str * tree)) {struct l} : bool :=
              match l with
              | [] => true
              | (name, sub) :: rest =>
                  match find (fun fs => str_eqb (f_go (fst fs)) name) (sfields s) with
                  | None => false
                  | Some (_, ss) => kind_matchb ss sub && gn_node ss sub && fields rest
                  end
              end) fs
    | TList es =>
        match s with
        | SList false keys _ _ sfs =>
            negb (nil_b es)
            && (fix entries (l : list (list scalar * tree)) : bool :=
                  match l with
                  | [] => true
                  | (k, e) :: rest =>
                      match e with
                      | TCont fs => gn_node s e && key_matchb sfs keys fs k
                                    && keys_wfb env fo ko sfs keys k && negb (existsb nan_key k)
                      | _ => false
                      end && entries rest
                  end) es
            && keys_okb false (map fst es)
        | _ => false
        end
    | TUnkeyed _ => false
    end.

  Definition is_cont_schema (s : schema) : bool := match s with SCont _ => true | _ => false end.

  (* the root: a container schema; the empty root is allowed *)
  Definition gn_treeb (s : schema) (t : tree) : bool :=
    gn_schemab s && is_cont_schema s &&
    match t with
    | TCont [] => true
    | TCont _ => gn_node s t
    | _ => false
    end.
End GnTree.

(* the options UnmarshalNotifications / UnmarshalSetRequest use for every SetNode *)
Definition rt_opts : set_opts := {| s_init := true; s_tol_json := false; s_shadow := false; s_ignore_extra := false |}.
Definition rt_sropts : sr_opts := {| so_shadow := false; so_ignore_extra := false; so_best_effort := false |}.

(* a prefix whose elements have distinct key names (util.PathElemsEqual compares through the map) *)
Definition prefix_okb (pfx : dpath) : bool := forallb (fun e => nodup_keysb (ekeys e)) pfx.

(* the caller's prefix is taken off again before the notifications are applied to the root *)
Definition strip_notif (pfx : dpath) (n : notif) : notif :=
  {| n_prefix := skipn (length pfx) (n_prefix n); n_atomic := n_atomic n;
     n_updates := n_updates n; n_deletes := n_deletes n |}.
