(* SetReq.v — ytypes/gnmi.go: UnmarshalSetRequest (deletePaths, replacePaths, updatePaths,
   joinPrefixToUpdate, setNode) and UnmarshalNotifications.  Paths carry origin/target
   (PathRel.gp) because util.JoinPaths can fail on them; the node operations only look at the
   elements.  The tree is threaded through every step: a failing step leaves its partial
   effect behind (no rollback), which is what BestEffortUnmarshal continues from.
   Definitions only. *)
From Ygot Require Import Tree.Tree Tree.Codec Tree.TreeOps Tree.Unmarshal Tree.KeyCodec Tree.Leaves
  Tree.Notif Tree.Node Path.PathRel.

Record sreq := {
  sr_prefix : gp;                         (* nil Prefix = the empty path *)
  sr_deletes : list gp;
  sr_replaces : list (gp * tval);
  sr_updates : list (gp * tval)
}.

Record sr_opts := {
  so_shadow : bool;                       (* PreferShadowPath *)
  so_ignore_extra : bool;                 (* IgnoreExtraFields *)
  so_best_effort : bool                   (* BestEffortUnmarshal *)
}.

(* what UnmarshalSetRequest returns *)
Inductive sr_out :=
| SROk
| SRErr                                   (* a plain error: processing stopped there *)
| SRCompliance                            (* BestEffortUnmarshal: *ComplianceErrors collected, everything was attempted *)
| SRPanic.
Definition sr_out_eqb (a b : sr_out) : bool :=
  match a, b with
  | SROk, SROk | SRErr, SRErr | SRCompliance, SRCompliance | SRPanic, SRPanic => true
  | _, _ => false
  end.

Definition empty_gp : gp := {| origin := []; target := []; elems := [] |}.
Definition gp_of (p : dpath) : gp := {| origin := []; target := []; elems := p |}.

(* outcome of one delete / replace / update *)
Inductive step_out := StOk | StErr | StJoinErr | StPanic.
Definition of_res (r : result unit) : step_out :=
  match r with Ok _ => StOk | Err => StErr | Panic => StPanic end.

Section SetReq.
  Variable env : enum_env.
  Variable fo : float_oracle.
  Variable ko : key_oracle.
  Variable sch : schema.
  Variable o : sr_opts.

  (* setNode: SetNode with InitMissingElements (+ PreferShadowPath, IgnoreExtraFields) *)
  Definition sn_opts : set_opts :=
    {| s_init := true; s_tol_json := false; s_shadow := so_shadow o; s_ignore_extra := so_ignore_extra o |}.

  (* deletePaths body *)
  Definition delete_step (pre : gp) (t : tree) (p : gp) : tree * step_out :=
    match join_paths pre p with
    | Ok jp => let '(t', r) := delete_node_st env fo ko (so_shadow o) sch t (elems jp) in (t', of_res r)
    | _ => (t, StJoinErr)
    end.

  (* updatePaths body *)
  Definition update_step (pre : gp) (t : tree) (u : gp * tval) : tree * step_out :=
    match join_paths pre (fst u) with
    | Ok jp => let '(t', r) := set_node_st env fo ko sn_opts (snd u) sch t (elems jp) in (t', of_res r)
    | _ => (t, StJoinErr)
    end.

  (* replacePaths body: DeleteNode then setNode on the joined path *)
  Definition replace_step (pre : gp) (t : tree) (u : gp * tval) : tree * step_out :=
    match join_paths pre (fst u) with
    | Ok jp =>
        let '(t1, r1) := delete_node_st env fo ko (so_shadow o) sch t (elems jp) in
        match r1 with
        | Ok _ => let '(t2, r2) := set_node_st env fo ko sn_opts (snd u) sch t1 (elems jp) in (t2, of_res r2)
        | _ => (t1, of_res r1)
        end
    | _ => (t, StJoinErr)
    end.

  (* one of the three loops.  Without BestEffortUnmarshal the first error ends the request.
     With it, node errors are collected (ce) and the loop goes on; a JoinPaths error is returned
     as a plain error, on which UnmarshalSetRequest's unchecked type assertion of err to ComplianceErrors
     assertion panics. *)
  Fixpoint run_phase {X} (step : tree -> X -> tree * step_out) (items : list X) (t : tree) (ce : bool)
    : tree * bool * option sr_out :=
    match items with
    | [] => (t, ce, None)
    | x :: rest =>
        let '(t', so) := step t x in
        match so with
        | StOk => run_phase step rest t' ce
        | StErr => if so_best_effort o then run_phase step rest t' true else (t', ce, Some SRErr)
        | StJoinErr => (t', ce, Some SRErr)          (* a join error is returned as is, also in best-effort mode *)
        | StPanic => (t', ce, Some SRPanic)
        end
    end.

  (* UnmarshalSetRequest: deletes, then replaces, then updates, each in message order *)
  Definition unmarshal_setrequest (t : tree) (r : sreq) : tree * sr_out :=
    let pre := sr_prefix r in
    let '(t1, ce1, st1) := run_phase (delete_step pre) (sr_deletes r) t false in
    match st1 with
    | Some x => (t1, x)
    | None =>
        let '(t2, ce2, st2) := run_phase (replace_step pre) (sr_replaces r) t1 ce1 in
        match st2 with
        | Some x => (t2, x)
        | None =>
            let '(t3, ce3, st3) := run_phase (update_step pre) (sr_updates r) t2 ce2 in
            match st3 with
            | Some x => (t3, x)
            | None => (t3, if so_best_effort o && ce3 then SRCompliance else SROk)
            end
        end
    end.

  (* UnmarshalNotifications: one SetRequest per notification (deletes + updates); an atomic
     notification additionally deletes the subtree at its prefix first *)
  Definition req_of_notif (n : notif) : sreq :=
    {| sr_prefix := gp_of (n_prefix n);
       sr_deletes := map gp_of (n_deletes n) ++ (if n_atomic n then [empty_gp] else []);
       sr_replaces := [];
       sr_updates := map (fun u => (gp_of (fst u), snd u)) (n_updates n) |}.

  Fixpoint unmarshal_notifs (t : tree) (ns : list notif) : tree * sr_out :=
    match ns with
    | [] => (t, SROk)
    | n :: rest =>
        let '(t', r) := unmarshal_setrequest t (req_of_notif n) in
        match r with
        | SROk => unmarshal_notifs t' rest
        | _ => (t', r)
        end
    end.
End SetReq.
