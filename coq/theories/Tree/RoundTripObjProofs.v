(* RoundTripObjProofs.v — the JSON object layer of property C01: what Render.jput builds from a
   prefix-free set of (module-qualified) paths, what Unmarshal.jget / jget_field read back from
   it, and why Unmarshal.check_tree accepts it.  No schema or tree here. *)
From Ygot Require Import Tree.Tree Tree.Codec Tree.CodecProofs.
From Ygot Require Import Tree.TreeOps Tree.Render Tree.Unmarshal Tree.RoundTrip.

(* ====================================================================================== *)
(* 0. Strings, comparison                                                                  *)
(* ====================================================================================== *)

Lemma str_cmp_eq a : forall b, str_cmp a b = Eq -> a = b.
Proof.
  induction a as [|x a IH]; intros [|y b]; simpl; try discriminate; auto.
  destruct (x ?= y) eqn:E; try discriminate.
  apply N.compare_eq in E. subst y. intros H. f_equal. now apply IH.
Qed.

Lemma str_cmp_refl a : str_cmp a a = Eq.
Proof. induction a as [|x a IH]; simpl; auto. now rewrite N.compare_refl. Qed.

Lemma str_cmp_antisym a : forall b, str_cmp a b = CompOpp (str_cmp b a).
Proof.
  induction a as [|x a IH]; intros [|y b]; simpl; auto.
  rewrite (N.compare_antisym y x). destruct (y ?= x); simpl; auto.
Qed.

Lemma str_cmp_gt_lt a b : str_cmp a b = Gt -> str_cmp b a = Lt.
Proof. rewrite str_cmp_antisym. destruct (str_cmp b a); simpl; congruence. Qed.

Lemma str_cmp_lt_asym a b : str_cmp a b = Lt -> str_cmp b a = Lt -> False.
Proof. rewrite str_cmp_antisym. intros H1 H2. rewrite H2 in H1. discriminate. Qed.

Lemma str_cmp_lt_trans a : forall b c, str_cmp a b = Lt -> str_cmp b c = Lt -> str_cmp a c = Lt.
Proof.
  induction a as [|x a IH]; intros [|y b] [|z c]; simpl; try discriminate; auto.
  destruct (x ?= y) eqn:Exy; try discriminate.
  - apply N.compare_eq in Exy. subst y. destruct (x ?= z); try discriminate; eauto.
  - intros _. destruct (y ?= z) eqn:Eyz; try discriminate.
    + apply N.compare_eq in Eyz. subst z. now rewrite Exy.
    + intros _. apply N.compare_lt_iff in Exy. apply N.compare_lt_iff in Eyz.
      pose proof (N.lt_trans _ _ _ Exy Eyz) as H. apply N.compare_lt_iff in H. now rewrite H.
Qed.

Lemma str_eqb_false_neq a b : str_eqb a b = false <-> a <> b.
Proof.
  split; intros H.
  - intros ->. now rewrite cstr_eqb_refl in H.
  - destruct (str_eqb a b) eqn:E; auto. apply cstr_eqb_eq in E. contradiction.
Qed.

(* ====================================================================================== *)
(* 1. erase_sets                                                                           *)
(* ====================================================================================== *)

Definition erase_obj (m : list (str * json)) : list (str * json) :=
  map (fun kv => (fst kv, erase_sets (snd kv))) m.

Lemma erase_obj_eq m : erase_sets (JObj m) = JObj (erase_obj m).
Proof.
  simpl. f_equal. induction m as [|[k v] r IH]; simpl; [reflexivity | now rewrite IH].
Qed.

Lemma erase_arr_eq l :
  erase_sets (JArr l) =
  match l with
  | JStr tag :: _ => if str_eqb tag JSET_TAG then JArr (tl (map erase_sets l)) else JArr (map erase_sets l)
  | _ => JArr (map erase_sets l)
  end.
Proof.
  assert (E : (fix go (x : list json) : list json :=
                 match x with [] => [] | y :: r => erase_sets y :: go r end) l = map erase_sets l).
  { induction l as [|y r IH]; simpl; [reflexivity | now rewrite IH]. }
  cbn [erase_sets]. rewrite E. reflexivity.
Qed.

Lemma erase_jset l : erase_sets (jset l) = JArr (map erase_sets l).
Proof. unfold jset. rewrite erase_arr_eq. reflexivity. Qed.

Lemma erase_arr_objs l : (forall x, In x l -> exists m, x = JObj m) ->
  erase_sets (JArr l) = JArr (map erase_sets l).
Proof.
  intros H. rewrite erase_arr_eq. destruct l as [|x r]; auto.
  destruct (H x (or_introl eq_refl)) as [m ->]. reflexivity.
Qed.

Lemma erase_not_null v : v <> JNull -> erase_sets v <> JNull.
Proof.
  destruct v; try (simpl; congruence); intros _.
  rewrite erase_arr_eq. destruct l as [|[] ?]; try discriminate.
  destruct (str_eqb s JSET_TAG); discriminate.
Qed.

Lemma erase_obj_In n x o : In (n, x) (erase_obj o) -> exists x0, In (n, x0) o /\ x = erase_sets x0.
Proof.
  unfold erase_obj. intros H. apply in_map_iff in H as ([n0 x0] & [= <- <-] & Hin). eauto.
Qed.

(* ====================================================================================== *)
(* 2. Association lists                                                                    *)
(* ====================================================================================== *)

Lemma al_find_insert_same {V} k (v : V) l : al_find k (al_insert k v l) = Some v.
Proof.
  induction l as [|[k' v'] t IH]; simpl.
  - now rewrite cstr_eqb_refl.
  - destruct (str_cmp k k') eqn:E; simpl.
    + now rewrite cstr_eqb_refl.
    + now rewrite cstr_eqb_refl.
    + assert (str_eqb k k' = false).
      { apply str_eqb_false_neq. intros ->. now rewrite str_cmp_refl in E. }
      now rewrite H.
Qed.

Lemma al_find_insert_other {V} k k0 (v : V) l : k0 <> k -> al_find k0 (al_insert k v l) = al_find k0 l.
Proof.
  intros Hne. assert (E0 : str_eqb k0 k = false) by now apply str_eqb_false_neq.
  induction l as [|[k' v'] t IH]; simpl.
  - now rewrite E0.
  - destruct (str_cmp k k') eqn:E; simpl.
    + apply str_cmp_eq in E. subst k'. now rewrite E0.
    + now rewrite E0.
    + now rewrite IH.
Qed.

Lemma al_find_In {V} k (l : list (str * V)) v : al_find k l = Some v -> In (k, v) l.
Proof.
  induction l as [|[k' v'] r IH]; simpl; [discriminate|].
  destruct (str_eqb k k') eqn:E.
  - intros [= <-]. apply cstr_eqb_eq in E. subst. auto.
  - auto.
Qed.

Lemma al_insert_In {V} k (v : V) l x : In x (al_insert k v l) -> x = (k, v) \/ In x l.
Proof.
  induction l as [|[k' v'] t IH]; simpl.
  - intros [<-|[]]; auto.
  - destruct (str_cmp k k'); simpl; intros [<-|H]; auto.
    destruct (IH H); auto.
Qed.

Lemma al_insert_nonempty {V} k (v : V) l : al_insert k v l <> [].
Proof. destruct l as [|[k' v'] t]; simpl; [discriminate|]. destruct (str_cmp k k'); discriminate. Qed.

(* strongly sorted by name *)
Fixpoint ssorted {V} (m : list (str * V)) : Prop :=
  match m with
  | [] => True
  | (k, _) :: t => (forall kv, In kv t -> str_cmp k (fst kv) = Lt) /\ ssorted t
  end.

Lemma al_insert_ssorted {V} k (v : V) l : ssorted l -> ssorted (al_insert k v l).
Proof.
  induction l as [|[k' v'] t IH]; simpl; intros H.
  - split; auto. intros ? [].
  - destruct H as [H1 H2]. destruct (str_cmp k k') eqn:E; simpl.
    + apply str_cmp_eq in E. subst k'. auto.
    + split; [|split; auto]. intros kv [<-|Hin]; simpl; auto.
      eapply str_cmp_lt_trans; eauto.
    + split; auto. intros kv Hin. apply al_insert_In in Hin as [->|Hin]; simpl; auto.
      now apply str_cmp_gt_lt.
Qed.

(* a new name: the list is split around the new member *)
Lemma al_insert_new {V} k (x : V) l : al_find k l = None ->
  exists l1 l2, l = l1 ++ l2 /\ al_insert k x l = l1 ++ (k, x) :: l2.
Proof.
  induction l as [|[k' v'] t IH]; simpl; intros H.
  - exists [], []. auto.
  - destruct (str_eqb k k') eqn:E; [discriminate|].
    destruct (str_cmp k k') eqn:C.
    + apply str_cmp_eq in C. subst. now rewrite cstr_eqb_refl in E.
    + exists [], ((k', v') :: t). auto.
    + destruct (IH H) as (l1 & l2 & -> & E2). exists ((k', v') :: l1), l2. simpl. now rewrite E2.
Qed.

(* an existing name in a sorted list: that member is replaced *)
Lemma al_insert_replace {V} k (x y : V) l : ssorted l -> al_find k l = Some y ->
  exists l1 l2, l = l1 ++ (k, y) :: l2 /\ al_insert k x l = l1 ++ (k, x) :: l2.
Proof.
  induction l as [|[k' v'] t IH]; simpl; intros Hs H; [discriminate|].
  destruct Hs as [Hs1 Hs2].
  destruct (str_eqb k k') eqn:E.
  - apply cstr_eqb_eq in E. subst k'. injection H as ->. rewrite str_cmp_refl.
    exists [], t. auto.
  - destruct (str_cmp k k') eqn:C.
    + apply str_cmp_eq in C. subst. now rewrite cstr_eqb_refl in E.
    + exfalso. apply al_find_In in H. specialize (Hs1 _ H). simpl in Hs1.
      eapply str_cmp_lt_asym; eauto.
    + destruct (IH Hs2 H) as (l1 & l2 & -> & E2). exists ((k', v') :: l1), l2. simpl. now rewrite E2.
Qed.

(* ====================================================================================== *)
(* 3. Paths: prefixes                                                                      *)
(* ====================================================================================== *)

Definition incomp (p q : list str) : Prop := incompb p q = true.

Lemma incomp_sym p q : incomp p q -> incomp q p.
Proof. unfold incomp, incompb. now rewrite andb_comm. Qed.

Lemma is_prefixb_refl p : is_prefixb p p = true.
Proof. induction p; simpl; auto. now rewrite cstr_eqb_refl. Qed.

Lemma incomp_irrefl p : ~ incomp p p.
Proof. unfold incomp, incompb. now rewrite is_prefixb_refl. Qed.

Lemma incomp_nil_l p : ~ incomp [] p.
Proof. unfold incomp, incompb. simpl. discriminate. Qed.

Lemma incomp_cons k p n q :
  incomp (k :: p) (n :: q) <-> k <> n \/ (k = n /\ incomp p q).
Proof.
  unfold incomp, incompb. simpl. destruct (str_eqb k n) eqn:E.
  - apply cstr_eqb_eq in E. subst n. rewrite cstr_eqb_refl. simpl. split; [intros H; right; auto|].
    intros [H|[_ H]]; [congruence | auto].
  - assert (E' : str_eqb n k = false).
    { apply str_eqb_false_neq. apply str_eqb_false_neq in E. congruence. }
    rewrite E'. simpl. apply str_eqb_false_neq in E. split; auto.
Qed.

Lemma is_prefixb_app p q : is_prefixb p (p ++ q) = true.
Proof. induction p; simpl; auto. now rewrite cstr_eqb_refl. Qed.

Lemma is_prefixb_app_inv p : forall q, is_prefixb p q = true -> exists r, q = p ++ r.
Proof.
  induction p as [|x p IH]; intros q H; simpl in H.
  - exists q. reflexivity.
  - destruct q as [|y q]; [discriminate|]. apply andb_true_iff in H as [H1 H2].
    apply cstr_eqb_eq in H1. subst y. destruct (IH q H2) as [r ->]. exists r. reflexivity.
Qed.

Lemma incomp_app_l r p q : incomp (r ++ p) (r ++ q) <-> incomp p q.
Proof.
  induction r as [|x r IH]; simpl; [tauto|].
  rewrite incomp_cons. split; [intros [H|[_ H]]; [congruence | tauto] | intros H; right; tauto].
Qed.

(* a prefix of a path is never incomparable with it *)
Lemma incomp_prefix p q : ~ incomp p (p ++ q).
Proof. unfold incomp, incompb. now rewrite is_prefixb_app. Qed.

Lemma list_eqb_str_eq a b : list_eqb str_eqb a b = true -> a = b.
Proof.
  revert b. induction a as [|x a IH]; intros [|y b]; simpl; try discriminate; auto.
  intros H. apply andb_true_iff in H as [H1 H2]. apply cstr_eqb_eq in H1. f_equal; auto.
Qed.

(* ====================================================================================== *)
(* 4. All values reachable by a (stripped) path                                            *)
(* ====================================================================================== *)

Fixpoint jall (j : json) (p : list str) {struct p} : list json :=
  match p with
  | [] => [j]
  | k :: rest =>
      match j with
      | JObj m => flat_map (fun kv => if str_eqb k (strip_mod (fst kv)) then jall (snd kv) rest else []) m
      | _ => []
      end
  end.

Lemma hd_error_app {A} (a b : list A) :
  hd_error (a ++ b) = match hd_error a with Some x => Some x | None => hd_error b end.
Proof. destruct a; reflexivity. Qed.

(* jget returns the first of them *)
Lemma jget_jall p : forall j, jget j p = hd_error (jall j p).
Proof.
  induction p as [|k rest IH]; intros j; [reflexivity|].
  destruct j; try reflexivity. cbn [jget jall].
  induction m as [|[n v] t IHm]; [reflexivity|].
  cbn [flat_map fst snd]. destruct (str_eqb k (strip_mod n)).
  - rewrite hd_error_app, <- IH. destruct (jget v rest); auto.
  - simpl. auto.
Qed.

Lemma jall_erase p : forall j, jall (erase_sets j) p = map erase_sets (jall j p).
Proof.
  induction p as [|k rest IH]; intros j; [reflexivity|].
  destruct j; try reflexivity.
  - (* arrays stay arrays *)
    rewrite erase_arr_eq. destruct l as [|[] ?]; try reflexivity.
    destruct (str_eqb s JSET_TAG); reflexivity.
  - rewrite erase_obj_eq. cbn [jall]. induction m as [|[n v] t IHm]; [reflexivity|].
    cbn [erase_obj map flat_map fst snd]. rewrite map_app.
    destruct (str_eqb k (strip_mod n)).
    + rewrite IH. f_equal. exact IHm.
    + simpl. exact IHm.
Qed.

Lemma jall_nil p : p <> [] -> jall (JObj []) p = [].
Proof. destruct p; [congruence | reflexivity]. Qed.

Lemma jall_depth p : forall j x, p <> [] -> In x (jall j p) -> (jdepth x < jdepth j)%nat.
Proof.
  induction p as [|k rest IH]; intros j x Hne Hin; [congruence|].
  destruct j; try (destruct Hin; fail). cbn [jall] in Hin.
  apply in_flat_map in Hin as ([n v] & Hm & Hin). simpl in Hin.
  destruct (str_eqb k (strip_mod n)); [|destruct Hin].
  assert (Hv : (jdepth v < jdepth (JObj m))%nat).
  { clear - Hm. simpl. induction m as [|[k' v'] r IH]; simpl; [destruct Hm|]. destruct Hm as [H|H].
    - injection H as -> ->. lia.
    - apply IH in H. lia. }
  destruct rest as [|k2 r2].
  - destruct Hin as [<-|[]]. exact Hv.
  - apply IH in Hin; [lia | discriminate].
Qed.

(* contribution of the members of an object *)
Definition jcontrib (k : str) (rest : list str) (m : list (str * json)) : list json :=
  flat_map (fun kv => if str_eqb k (strip_mod (fst kv)) then jall (snd kv) rest else []) m.

Lemma jall_obj k rest m : jall (JObj m) (k :: rest) = jcontrib k rest m.
Proof. reflexivity. Qed.

Lemma jcontrib_app k rest a b : jcontrib k rest (a ++ b) = jcontrib k rest a ++ jcontrib k rest b.
Proof. unfold jcontrib. apply flat_map_app. Qed.

Lemma jcontrib_cons k rest n x b :
  jcontrib k rest ((n, x) :: b) = (if str_eqb k (strip_mod n) then jall x rest else []) ++ jcontrib k rest b.
Proof. reflexivity. Qed.

(* ====================================================================================== *)
(* 5. Sorted objects                                                                       *)
(* ====================================================================================== *)

(* objects sorted by member name, hereditarily through objects (arrays are not entered) *)
Fixpoint jsorted (j : json) : Prop :=
  match j with
  | JObj m =>
      ssorted m /\
      (fix go (l : list (str * json)) : Prop :=
         match l with [] => True | (_, v) :: r => jsorted v /\ go r end) m
  | _ => True
  end.

Lemma jsorted_obj m : jsorted (JObj m) <-> ssorted m /\ forall k v, In (k, v) m -> jsorted v.
Proof.
  cbn [jsorted]. split; intros [H1 H2]; split; auto.
  - induction m as [|[k0 v0] r IH]; intros k v []; destruct H2 as [Ha Hb].
    + injection H as -> ->. exact Ha.
    + destruct H1 as [_ H1]. eauto.
  - induction m as [|[k0 v0] r IH]; [exact I|]. split.
    + apply (H2 k0 v0). now left.
    + destruct H1 as [_ H1]. apply IH; auto. intros k v Hin. apply (H2 k v). now right.
Qed.

Lemma jsorted_nil : jsorted (JObj []).
Proof. simpl. auto. Qed.

Lemma jput_cons2 n n2 r2 v o :
  jput (n :: n2 :: r2) v o =
  match al_find n o with
  | None => bind (jput (n2 :: r2) v []) (fun sub => Ok (al_insert n (JObj sub) o))
  | Some (JObj sub) => bind (jput (n2 :: r2) v sub) (fun sub' => Ok (al_insert n (JObj sub') o))
  | Some _ => Panic
  end.
Proof. reflexivity. Qed.

Lemma jput_sorted q : forall v o o',
  jsorted v -> jsorted (JObj o) -> jput q v o = Ok o' -> jsorted (JObj o').
Proof.
  induction q as [|n rest IH]; intros v o o' Hv Ho H.
  - simpl in H. now injection H as <-.
  - apply jsorted_obj in Ho as [Hs Hvals].
    assert (Hins : forall x, jsorted x -> jsorted (JObj (al_insert n x o))).
    { intros x Hx. apply jsorted_obj. split; [now apply al_insert_ssorted|].
      intros k y Hin. apply al_insert_In in Hin as [[= -> ->]|Hin]; eauto. }
    destruct rest as [|n2 r2].
    + simpl in H. injection H as <-. auto.
    + rewrite jput_cons2 in H. destruct (al_find n o) as [[| | | | |sub]|] eqn:Ef; try discriminate.
      * destruct (jput (n2 :: r2) v sub) as [sub'| |] eqn:Es; try discriminate.
        simpl in H. injection H as <-. apply Hins.
        apply (IH v sub sub' Hv); auto. apply (Hvals n). now apply al_find_In.
      * destruct (jput (n2 :: r2) v []) as [sub'| |] eqn:Es; try discriminate.
        simpl in H. injection H as <-. apply Hins.
        apply (IH v [] sub' Hv); auto. apply jsorted_nil.
Qed.

Lemma jput_nonempty q v o o' : q <> [] -> jput q v o = Ok o' -> o' <> [].
Proof.
  destruct q as [|n [|n2 r2]]; [congruence| |]; intros _ H.
  - simpl in H. injection H as <-. apply al_insert_nonempty.
  - rewrite jput_cons2 in H. destruct (al_find n o) as [[| | | | |sub]|]; try discriminate.
    + destruct (jput (n2 :: r2) v sub); try discriminate. simpl in H. injection H as <-.
      apply al_insert_nonempty.
    + destruct (jput (n2 :: r2) v []); try discriminate. simpl in H. injection H as <-.
      apply al_insert_nonempty.
Qed.

(* ====================================================================================== *)
(* 6. What one jput changes                                                                *)
(* ====================================================================================== *)

Definition spath (q : list str) : list str := map strip_mod q.

(* members with another stripped name are not affected by an insertion *)
Lemma jcontrib_insert_other k rest n x o : k <> strip_mod n ->
  jcontrib k rest (al_insert n x o) = jcontrib k rest o.
Proof.
  intros Hne. assert (E : str_eqb k (strip_mod n) = false) by now apply str_eqb_false_neq.
  induction o as [|[n' v'] t IH]; simpl.
  - unfold jcontrib. simpl. now rewrite E.
  - destruct (str_cmp n n') eqn:C.
    + apply str_cmp_eq in C. subst n'. rewrite !jcontrib_cons. now rewrite E.
    + rewrite jcontrib_cons. now rewrite E.
    + rewrite !jcontrib_cons. now rewrite IH.
Qed.

(* paths incomparable with the written one see the same values *)
Lemma jput_other q : forall v o o' p,
  jsorted (JObj o) -> jput q v o = Ok o' -> q <> [] -> incomp p (spath q) ->
  jall (JObj o') p = jall (JObj o) p.
Proof.
  induction q as [|n rest IH]; intros v o o' p Ho H Hne Hi; [congruence|].
  destruct p as [|k p']; [now apply incomp_nil_l in Hi|].
  cbn [spath map] in Hi. apply incomp_cons in Hi.
  rewrite !jall_obj.
  destruct rest as [|n2 r2].
  - simpl in H. injection H as <-.
    destruct Hi as [Hk|[_ Hi]]; [now apply jcontrib_insert_other|].
    simpl in Hi. exfalso. apply incomp_sym in Hi. now apply incomp_nil_l in Hi.
  - rewrite jput_cons2 in H. apply jsorted_obj in Ho as [Hs Hvals].
    destruct (al_find n o) as [[| | | | |sub]|] eqn:Ef; try discriminate.
    + destruct (jput (n2 :: r2) v sub) as [sub'| |] eqn:Es; try discriminate.
      simpl in H. injection H as <-.
      destruct Hi as [Hk|[-> Hi]]; [now apply jcontrib_insert_other|].
      destruct (al_insert_replace n (JObj sub') (JObj sub) o Hs Ef) as (l1 & l2 & -> & ->).
      rewrite !jcontrib_app, !jcontrib_cons. f_equal. f_equal.
      destruct (str_eqb (strip_mod n) (strip_mod n)); auto.
      eapply IH; eauto; [|discriminate].
      apply (Hvals n). apply in_or_app. right. now left.
    + destruct (jput (n2 :: r2) v []) as [sub'| |] eqn:Es; try discriminate.
      simpl in H. injection H as <-.
      destruct Hi as [Hk|[-> Hi]]; [now apply jcontrib_insert_other|].
      destruct (al_insert_new n (JObj sub') o Ef) as (l1 & l2 & -> & ->).
      rewrite !jcontrib_app, !jcontrib_cons. f_equal.
      rewrite cstr_eqb_refl.
      rewrite (IH v [] sub' p' jsorted_nil Es ltac:(discriminate) Hi).
      rewrite jall_nil; [reflexivity|].
      intros ->. now apply incomp_nil_l in Hi.
Qed.

Lemma app_eq_nil_l {A} (a b : list A) : a ++ b = [] -> a = [] /\ b = [].
Proof. destruct a; simpl; [auto | discriminate]. Qed.

(* the written path, if nothing was there, now yields exactly the value *)
Lemma jput_same q : forall v o o',
  jsorted (JObj o) -> jput q v o = Ok o' -> q <> [] ->
  jall (JObj o) (spath q) = [] -> jall (JObj o') (spath q) = [v].
Proof.
  induction q as [|n rest IH]; intros v o o' Ho H Hne Hnil; [congruence|].
  cbn [spath map] in *. rewrite jall_obj in *.
  destruct rest as [|n2 r2].
  - simpl in H. injection H as <-. simpl map in *.
    (* no member has this stripped name, so the name is new *)
    assert (Ef : al_find n o = None).
    { destruct (al_find n o) as [y|] eqn:Ef; auto. exfalso. apply al_find_In in Ef.
      apply in_split in Ef as (l1 & l2 & ->). rewrite jcontrib_app, jcontrib_cons, cstr_eqb_refl in Hnil.
      apply app_eq_nil_l in Hnil as [_ Hnil]. discriminate. }
    destruct (al_insert_new n v o Ef) as (l1 & l2 & -> & ->).
    rewrite jcontrib_app in *. rewrite jcontrib_cons, cstr_eqb_refl.
    apply app_eq_nil_l in Hnil as [-> ->]. reflexivity.
  - rewrite jput_cons2 in H. apply jsorted_obj in Ho as [Hs Hvals].
    destruct (al_find n o) as [[| | | | |sub]|] eqn:Ef; try discriminate.
    + destruct (jput (n2 :: r2) v sub) as [sub'| |] eqn:Es; try discriminate.
      simpl in H. injection H as <-.
      destruct (al_insert_replace n (JObj sub') (JObj sub) o Hs Ef) as (l1 & l2 & -> & ->).
      rewrite jcontrib_app, jcontrib_cons, cstr_eqb_refl in *.
      apply app_eq_nil_l in Hnil as [-> Hnil]. apply app_eq_nil_l in Hnil as [Hsub ->].
      assert (Hj : jsorted (JObj sub)) by (apply (Hvals n); apply in_or_app; right; now left).
      pose proof (IH v sub sub' Hj Es ltac:(discriminate) Hsub) as HH. unfold spath in HH.
      rewrite HH. reflexivity.
    + destruct (jput (n2 :: r2) v []) as [sub'| |] eqn:Es; try discriminate.
      simpl in H. injection H as <-.
      destruct (al_insert_new n (JObj sub') o Ef) as (l1 & l2 & -> & ->).
      rewrite jcontrib_app in *. rewrite jcontrib_cons, cstr_eqb_refl.
      apply app_eq_nil_l in Hnil as [-> ->].
      pose proof (IH v [] sub' jsorted_nil Es ltac:(discriminate) eq_refl) as HH. unfold spath in HH.
      rewrite HH. reflexivity.
Qed.

(* ====================================================================================== *)
(* 7. Every member of the object lies on an allowed path                                   *)
(* ====================================================================================== *)

Lemma spath_cons n q : spath (n :: q) = strip_mod n :: spath q.
Proof. reflexivity. Qed.

Section Cover.
  Variable A : list (list str).      (* the allowed (stripped) paths of the struct *)

  (* r is a proper prefix of an allowed path *)
  Definition ext (r : list str) : Prop := exists p t, In p A /\ p = r ++ t /\ t <> [].

  (* below the prefix r: each member is a value at an allowed path, or an intermediate object *)
  Inductive covp : list str -> list (str * json) -> Prop :=
  | covp_intro r o :
      (forall n x, In (n, x) o ->
         In (r ++ [strip_mod n]) A
         \/ exists sub, x = JObj sub /\ ext (r ++ [strip_mod n]) /\ covp (r ++ [strip_mod n]) sub) ->
      covp r o.

  Lemma covp_nil r : covp r [].
  Proof. constructor. intros n x []. Qed.

  Lemma covp_inv r o n x : covp r o -> In (n, x) o ->
    In (r ++ [strip_mod n]) A
    \/ exists sub, x = JObj sub /\ ext (r ++ [strip_mod n]) /\ covp (r ++ [strip_mod n]) sub.
  Proof. intros H. inversion H; subst. auto. Qed.

  Lemma jput_cov q : forall v o o' r,
    covp r o -> In (r ++ spath q) A -> q <> [] -> jput q v o = Ok o' -> covp r o'.
  Proof.
    induction q as [|n rest IH]; intros v o o' r Hc HA Hne H; [congruence|].
    assert (Hins : forall x,
              (In (r ++ [strip_mod n]) A
               \/ exists sub, x = JObj sub /\ ext (r ++ [strip_mod n]) /\ covp (r ++ [strip_mod n]) sub) ->
              covp r (al_insert n x o)).
    { intros x Hx. constructor. intros n' x' Hin. apply al_insert_In in Hin as [[= -> ->]|Hin]; auto.
      eapply covp_inv; eauto. }
    destruct rest as [|n2 r2].
    - simpl in H. injection H as <-. apply Hins. left. exact HA.
    - rewrite jput_cons2 in H. rewrite spath_cons in HA.
      assert (Hext : ext (r ++ [strip_mod n])).
      { exists (r ++ strip_mod n :: spath (n2 :: r2)), (spath (n2 :: r2)). repeat split; auto.
        - now rewrite <- app_assoc.
        - discriminate. }
      assert (HA' : In ((r ++ [strip_mod n]) ++ spath (n2 :: r2)) A) by now rewrite <- app_assoc.
      destruct (al_find n o) as [[| | | | |sub]|] eqn:Ef; try discriminate.
      + destruct (jput (n2 :: r2) v sub) as [sub'| |] eqn:Es; try discriminate.
        simpl in H. injection H as <-. apply Hins.
        apply al_find_In in Ef. destruct (covp_inv _ _ _ _ Hc Ef) as [Hl|(sub0 & [= <-] & _ & Hsub)]; auto.
        right. exists sub'. split; [reflexivity|]. split; [exact Hext|].
        apply (IH v sub sub' (r ++ [strip_mod n]) Hsub HA' ltac:(discriminate) Es).
      + destruct (jput (n2 :: r2) v []) as [sub'| |] eqn:Es; try discriminate.
        simpl in H. injection H as <-. apply Hins.
        right. exists sub'. split; [reflexivity|]. split; [exact Hext|].
        apply (IH v [] sub' (r ++ [strip_mod n]) (covp_nil _) HA' ltac:(discriminate) Es).
  Qed.

  (* any two allowed paths are equal or incomparable *)
  Definition compatA : Prop := forall a b, In a A -> In b A -> a = b \/ incomp a b.

  (* jput does not meet a non-object on its way: no panic *)
  Lemma jput_total q : forall v o r,
    compatA -> covp r o -> In (r ++ spath q) A -> q <> [] -> exists o', jput q v o = Ok o'.
  Proof.
    induction q as [|n rest IH]; intros v o r HC Hc HA Hne; [congruence|].
    destruct rest as [|n2 r2]; [simpl; eauto|].
    rewrite jput_cons2. rewrite spath_cons in HA.
    assert (HA' : In ((r ++ [strip_mod n]) ++ spath (n2 :: r2)) A) by now rewrite <- app_assoc.
    destruct (al_find n o) as [x|] eqn:Ef.
    - apply al_find_In in Ef. destruct (covp_inv _ _ _ _ Hc Ef) as [Hl|(sub & -> & _ & Hsub)].
      + exfalso. destruct (HC _ _ HA Hl) as [E|E].
        * apply app_inv_head in E. discriminate.
        * apply incomp_app_l in E. apply incomp_cons in E as [E|[_ E]]; [congruence|].
          apply incomp_sym in E. now apply incomp_nil_l in E.
      + destruct (IH v sub _ HC Hsub HA' ltac:(discriminate)) as [sub' ->]. simpl. eauto.
    - destruct (IH v [] _ HC (covp_nil _) HA' ltac:(discriminate)) as [sub' ->]. simpl. eauto.
  Qed.
End Cover.

(* ====================================================================================== *)
(* 8. The trie of allowed paths                                                            *)
(* ====================================================================================== *)

Fixpoint tget (t : trie) (p : list str) : option trie :=
  match p with
  | [] => Some t
  | k :: rest =>
      match t with
      | TrieNode m => match al_find k m with Some t' => tget t' rest | None => None end
      | TrieLeaf => None
      end
  end.

Definition nocolon_path (p : list str) : Prop := forallb no_colonb p = true.

Lemma trie_add_cons2 k k2 r2 t :
  trie_add (k :: k2 :: r2) t =
  let m := match t with TrieNode m => m | TrieLeaf => [] end in
  let sub := match al_find (strip_mod k) m with Some (TrieNode s) => TrieNode s | _ => TrieNode [] end in
  TrieNode (al_insert (strip_mod k) (trie_add (k2 :: r2) sub) m).
Proof. reflexivity. Qed.

Lemma trie_add_node p : forall t, p <> [] -> exists s, trie_add p t = TrieNode s.
Proof.
  destruct p as [|k [|k2 r2]]; intros t H; [congruence| |].
  - simpl. destruct t; eauto.
  - rewrite trie_add_cons2. simpl. eauto.
Qed.

Lemma tget_node_nil p : p <> [] -> tget (TrieNode []) p = None.
Proof. destruct p; [congruence | reflexivity]. Qed.

Lemma tget_leaf p : p <> [] -> tget TrieLeaf p = None.
Proof. destruct p; [congruence | reflexivity]. Qed.

Lemma trie_add_same p : forall m, p <> [] -> nocolon_path p ->
  tget (trie_add p (TrieNode m)) p = Some TrieLeaf.
Proof.
  induction p as [|k rest IH]; intros m Hne Hnc; [congruence|].
  unfold nocolon_path in Hnc. simpl in Hnc. apply andb_true_iff in Hnc as [Hk Hr].
  destruct rest as [|k2 r2].
  - simpl. rewrite (strip_mod_no_colon k Hk), al_find_insert_same. reflexivity.
  - rewrite trie_add_cons2. cbv zeta. rewrite (strip_mod_no_colon k Hk).
    cbn [tget]. rewrite al_find_insert_same.
    destruct (al_find k m) as [[|s]|]; apply IH; auto; discriminate.
Qed.

Lemma trie_add_other p : forall m r, p <> [] -> nocolon_path p -> incomp r p ->
  tget (trie_add p (TrieNode m)) r = tget (TrieNode m) r.
Proof.
  induction p as [|k rest IH]; intros m r Hne Hnc Hi; [congruence|].
  unfold nocolon_path in Hnc. simpl in Hnc. apply andb_true_iff in Hnc as [Hk Hr].
  destruct r as [|k' r']; [now apply incomp_nil_l in Hi|].
  apply incomp_cons in Hi.
  destruct rest as [|k2 r2].
  - simpl. rewrite (strip_mod_no_colon k Hk).
    destruct Hi as [Hne'|[_ Hi]]; [now rewrite al_find_insert_other|].
    apply incomp_sym in Hi. now apply incomp_nil_l in Hi.
  - rewrite trie_add_cons2. cbv zeta. rewrite (strip_mod_no_colon k Hk). cbn [tget].
    destruct Hi as [Hne'|[-> Hi]]; [now rewrite al_find_insert_other|].
    rewrite al_find_insert_same.
    assert (Hr' : r' <> []) by (intros ->; now apply incomp_nil_l in Hi).
    destruct (al_find k m) as [[|s]|].
    + rewrite IH; auto; [|discriminate]. now rewrite tget_node_nil, tget_leaf.
    + apply IH; auto. discriminate.
    + rewrite IH; auto; [|discriminate]. now rewrite tget_node_nil.
Qed.

Lemma trie_add_prefix r : forall t m, r <> [] -> t <> [] -> nocolon_path (r ++ t) ->
  exists s, tget (trie_add (r ++ t) (TrieNode m)) r = Some (TrieNode s).
Proof.
  induction r as [|k r' IH]; intros t m Hr Ht Hnc; [congruence|].
  unfold nocolon_path in Hnc. simpl in Hnc. apply andb_true_iff in Hnc as [Hk Hrest].
  destruct (r' ++ t) as [|k2 r2] eqn:E.
  { destruct r'; [simpl in E; congruence | discriminate]. }
  simpl app. rewrite E, trie_add_cons2. cbv zeta. rewrite (strip_mod_no_colon k Hk). cbn [tget].
  rewrite al_find_insert_same. rewrite <- E.
  destruct r' as [|k3 r3].
  - simpl. destruct (trie_add_node t (match al_find k m with Some (TrieNode s0) => TrieNode s0 | _ => TrieNode [] end) Ht) as [s ->].
    eauto.
  - destruct (al_find k m) as [[|s]|]; apply IH; auto; try discriminate; now rewrite E.
Qed.

Definition compat (L : list (list str)) : Prop := forall a b, In a L -> In b L -> a = b \/ incomp a b.

(* the trie knows every allowed path as a leaf and every proper prefix as an inner node *)
Definition tspec (T : trie) (L : list (list str)) : Prop :=
  (forall p, In p L -> tget T p = Some TrieLeaf)
  /\ (forall p r t, In p L -> p = r ++ t -> r <> [] -> t <> [] -> exists s, tget T r = Some (TrieNode s)).

Lemma prefix_trichotomy (r p : list str) :
  (exists t, p = r ++ t) \/ (exists t, r = p ++ t /\ t <> []) \/ incomp r p.
Proof.
  destruct (is_prefixb r p) eqn:E1.
  - left. now apply is_prefixb_app_inv.
  - destruct (is_prefixb p r) eqn:E2.
    + right. left. apply is_prefixb_app_inv in E2 as [t ->]. exists t. split; auto.
      intros ->. rewrite app_nil_r in E1. now rewrite is_prefixb_refl in E1.
    + right. right. unfold incomp, incompb. now rewrite E1, E2.
Qed.

Lemma trie_fold_spec : forall L m0 L0,
  tspec (TrieNode m0) L0 -> compat (L0 ++ L) ->
  (forall p, In p L -> p <> [] /\ nocolon_path p) ->
  exists m, fold_left (fun t p => trie_add p t) L (TrieNode m0) = TrieNode m /\ tspec (TrieNode m) (L0 ++ L).
Proof.
  induction L as [|p L IH]; intros m0 L0 Hsp HC Hok.
  - exists m0. simpl. rewrite app_nil_r. auto.
  - destruct (Hok p (or_introl eq_refl)) as [Hne Hnc].
    destruct (trie_add_node p (TrieNode m0) Hne) as [m1 E1].
    simpl. rewrite E1.
    assert (Hp : In p (L0 ++ p :: L)) by (apply in_or_app; right; now left).
    assert (HL0 : forall a, In a L0 -> In a (L0 ++ p :: L)) by (intros; apply in_or_app; now left).
    assert (Hsp1 : tspec (TrieNode m1) (L0 ++ [p])).
    { rewrite <- E1. destruct Hsp as [S1 S2]. split.
      - intros a Ha. apply in_app_or in Ha as [Ha|[<-|[]]]; [|now apply trie_add_same].
        destruct (HC a p (HL0 a Ha) Hp) as [->|Hi]; [now apply trie_add_same|].
        rewrite trie_add_other; auto.
      - intros a r t Ha -> Hr Ht.
        destruct (prefix_trichotomy r p) as [[t' ->]|[(t' & -> & Ht')|Hi]].
        + (* r is a prefix of p *)
          destruct t' as [|x t'].
          * exfalso. rewrite app_nil_r in *.
            apply in_app_or in Ha as [Ha|[Ha|[]]].
            -- destruct (HC _ _ (HL0 _ Ha) Hp) as [E|E].
               ++ rewrite <- (app_nil_r r) in E at 2. apply app_inv_head in E. contradiction.
               ++ apply incomp_sym in E. now apply incomp_prefix in E.
            -- rewrite <- (app_nil_r r) in Ha at 1. apply app_inv_head in Ha. congruence.
          * apply trie_add_prefix; auto. discriminate.
        + (* p is a proper prefix of r, hence of a *)
          exfalso. rewrite <- app_assoc in Ha.
          apply in_app_or in Ha as [Ha|[Ha|[]]].
          * destruct (HC _ _ (HL0 _ Ha) Hp) as [E|E].
            -- rewrite <- (app_nil_r p) in E at 2. apply app_inv_head in E.
               apply app_eq_nil_l in E as [_ E]. contradiction.
            -- apply incomp_sym in E. now apply incomp_prefix in E.
          * rewrite <- (app_nil_r p) in Ha at 1. apply app_inv_head in Ha.
            symmetry in Ha. apply app_eq_nil_l in Ha as [_ Ha]. contradiction.
        + rewrite trie_add_other; auto.
          apply in_app_or in Ha as [Ha|[Ha|[]]]; [eapply S2; eauto|].
          (* a = p itself: r is a prefix of p, not incomparable *)
          exfalso. rewrite Ha in Hi. now apply incomp_prefix in Hi. }
    destruct (IH m1 (L0 ++ [p]) Hsp1) as (m & E & Hs).
    + now rewrite <- app_assoc.
    + intros a Ha. apply Hok. now right.
    + exists m. split; auto. now rewrite <- app_assoc in Hs.
Qed.

Lemma fold_left_flat_map {A B C} (f : A -> C -> A) (g : B -> list C) (l : list B) (a : A) :
  fold_left (fun t x => fold_left f (g x) t) l a = fold_left f (flat_map g l) a.
Proof.
  revert a. induction l as [|x l IH]; intros a; simpl; auto.
  now rewrite fold_left_app, IH.
Qed.

Lemma tget_app T r k : tget T (r ++ [k]) =
  match tget T r with
  | Some (TrieNode m) => al_find k m
  | _ => None
  end.
Proof.
  revert T. induction r as [|x r IH]; intros T; simpl.
  - destruct T; auto. destruct (al_find k m); auto.
  - destruct T; auto. destruct (al_find x m); auto.
Qed.

(* checkDataTreeAgainstPaths accepts the (erased) object *)
Lemma check_tree_cov A T : tspec T A ->
  forall fuel o r s,
    (jdepth (JObj (erase_obj o)) <= fuel)%nat -> covp A r o -> tget T r = Some (TrieNode s) ->
    check_tree fuel (erase_obj o) (TrieNode s) = true.
Proof.
  intros [T1 T2]. induction fuel as [|f IH]; intros o r s Hd Hc Hr.
  - simpl in Hd. lia.
  - cbn [check_tree]. apply forallb_forall. intros [n x] Hin. cbn [fst snd].
    apply erase_obj_In in Hin as (x0 & Hin & ->).
    pose proof (tget_app T r (strip_mod n)) as Hta. rewrite Hr in Hta.
    destruct (covp_inv _ _ _ _ _ Hc Hin) as [Hl|(sub & -> & (p & t & Hp & -> & Ht) & Hsub)].
    + rewrite <- Hta, (T1 _ Hl). reflexivity.
    + destruct (T2 _ (r ++ [strip_mod n]) t Hp eq_refl) as [s' Hs']; auto.
      { destruct r; discriminate. }
      rewrite <- Hta, Hs', erase_obj_eq. eapply IH; eauto.
      assert (Hm : In (n, JObj (erase_obj sub)) (erase_obj o)).
      { unfold erase_obj at 2. apply in_map_iff. exists (n, JObj sub). split; auto.
        cbn [fst snd]. now rewrite erase_obj_eq. }
      clear - Hm Hd. revert Hm Hd. generalize (erase_obj o) as eo, (JObj (erase_obj sub)) as y.
      intros eo y Hm Hd.
      assert (jdepth y < jdepth (JObj eo))%nat; [|lia].
      clear Hd. simpl. induction eo as [|[k' v'] r' IHe]; simpl; [destruct Hm|]. destruct Hm as [H|H].
      * injection H as -> ->. lia.
      * apply IHe in H. lia.
Qed.

(* ====================================================================================== *)
(* 9. getJSONTreeValForField                                                               *)
(* ====================================================================================== *)

Lemma json_eqb_refl : forall j, json_eqb j j = true.
Proof.
  fix IH 1. intros [| b | m e | s | l | m]; simpl; auto.
  - now destruct b.
  - now rewrite !Z.eqb_refl.
  - apply cstr_eqb_refl.
  - induction l as [|x l IHl]; auto. now rewrite IH, IHl.
  - induction m as [|[k v] m IHm]; auto. now rewrite cstr_eqb_refl, IH, IHm.
Qed.

Lemma jget_field_none j : forall ps out, (forall p, In p ps -> jget j p = None) -> jget_field j ps out = Ok out.
Proof.
  induction ps as [|p ps IH]; intros out H; [reflexivity|].
  simpl. rewrite (H p (or_introl eq_refl)). apply IH. intros q Hq. apply H. now right.
Qed.

Lemma jget_field_some j x : x <> JNull ->
  forall ps out, (forall p, In p ps -> jget j p = Some x) -> (out = None \/ out = Some x) -> ps <> [] ->
  jget_field j ps out = Ok (Some x).
Proof.
  intros Hx. induction ps as [|p ps IH]; intros out H Hout Hne; [congruence|].
  simpl. rewrite (H p (or_introl eq_refl)).
  assert (Hn : match x with JNull => None | _ => Some x end = Some x) by (destruct x; congruence).
  assert (Hrest : jget_field j ps (Some x) = Ok (Some x)).
  { destruct ps as [|p2 ps2]; [reflexivity|]. apply IH; auto; [|discriminate].
    intros q Hq. apply H. now right. }
  destruct Hout as [->| ->]; [|rewrite json_eqb_refl]; now rewrite Hn.
Qed.

(* ====================================================================================== *)
(* 10. A sequence of writes with pairwise incomparable paths                               *)
(* ====================================================================================== *)

Fixpoint put_paths (W : list (list str * json)) (acc : jobj) : result jobj :=
  match W with
  | [] => Ok acc
  | (q, v) :: r => bind (jput q v acc) (put_paths r)
  end.

Lemma put_paths_app a b acc : put_paths (a ++ b) acc = bind (put_paths a acc) (put_paths b).
Proof.
  revert acc. induction a as [|[q v] a IH]; intros acc; simpl; [reflexivity|].
  destruct (jput q v acc); simpl; auto.
Qed.

Definition wpaths (W : list (list str * json)) : list (list str) := map (fun w => spath (fst w)) W.

Fixpoint pairwise (l : list (list str)) : Prop :=
  match l with
  | [] => True
  | x :: r => (forall y, In y r -> incomp x y) /\ pairwise r
  end.

Lemma pairwise_app_mid a x r : pairwise (a ++ x :: r) -> forall y, In y a -> incomp y x.
Proof.
  induction a as [|z a IH]; simpl; intros H y []; destruct H as [H1 H2].
  - subst z. apply H1. apply in_or_app. right. now left.
  - eauto.
Qed.

(* what is known about the object after the writes Wd *)
Record obj_inv (A : list (list str)) (o : jobj) (Wd : list (list str * json)) : Prop := {
  oi_sorted : jsorted (JObj o);
  oi_some : forall q v, In (q, v) Wd -> jall (JObj o) (spath q) = [v];
  oi_none : forall p, p <> [] -> (forall q v, In (q, v) Wd -> incomp p (spath q)) -> jall (JObj o) p = [];
  oi_cov : covp A [] o
}.

Lemma obj_inv_nil A : obj_inv A [] [].
Proof.
  constructor.
  - apply jsorted_nil.
  - intros q v [].
  - intros p Hp _. now apply jall_nil.
  - apply covp_nil.
Qed.

Lemma put_paths_inv A : forall W acc Wd o,
  obj_inv A acc Wd -> pairwise (wpaths (Wd ++ W)) ->
  (forall q v, In (q, v) W -> q <> [] /\ jsorted v /\ In (spath q) A) ->
  put_paths W acc = Ok o -> obj_inv A o (Wd ++ W).
Proof.
  induction W as [|[q v] W IH]; intros acc Wd o Hinv Hpw Hok H.
  - simpl in H. injection H as <-. now rewrite app_nil_r.
  - simpl in H. destruct (jput q v acc) as [acc1| |] eqn:Ej; try discriminate. simpl in H.
    destruct (Hok q v (or_introl eq_refl)) as (Hne & Hsv & HA).
    destruct Hinv as [I1 I2 I3 I4].
    assert (Hold : forall q0 v0, In (q0, v0) Wd -> incomp (spath q0) (spath q)).
    { intros q0 v0 Hin. unfold wpaths in Hpw. rewrite map_app in Hpw. simpl in Hpw.
      eapply pairwise_app_mid; eauto. apply (in_map (fun w => spath (fst w)) _ _ Hin). }
    assert (Hspne : spath q <> []) by (destruct q; [congruence | discriminate]).
    assert (Hinv1 : obj_inv A acc1 (Wd ++ [(q, v)])).
    { constructor.
      - eapply jput_sorted; eauto.
      - intros q0 v0 Hin. apply in_app_or in Hin as [Hin|[[= <- <-]|[]]].
        + rewrite (jput_other q v acc acc1 (spath q0) I1 Ej Hne); eauto.
        + eapply jput_same; eauto. apply I3; auto.
          intros q0 v0 Hin. apply incomp_sym. eauto.
      - intros p Hp Hi. rewrite (jput_other q v acc acc1 p I1 Ej Hne).
        + apply I3; auto. intros q0 v0 Hin. apply (Hi q0 v0). apply in_or_app. now left.
        + apply (Hi q v). apply in_or_app. right. now left.
      - eapply (jput_cov A q v acc acc1 []); eauto. }
    rewrite (app_assoc Wd [(q, v)] W : Wd ++ (q, v) :: W = (Wd ++ [(q, v)]) ++ W) by now rewrite <- app_assoc.
    eapply IH; eauto.
    + now rewrite <- app_assoc.
    + intros q0 v0 Hin. apply Hok. now right.
Qed.

Lemma put_paths_nonempty : forall W acc o,
  (forall q v, In (q, v) W -> q <> []) -> W <> [] -> put_paths W acc = Ok o -> o <> [].
Proof.
  induction W as [|[q v] W IH]; intros acc o Hok Hne H; [congruence|].
  simpl in H. destruct (jput q v acc) as [acc1| |] eqn:Ej; try discriminate. simpl in H.
  destruct W as [|w W'].
  - simpl in H. injection H as <-. eapply jput_nonempty; eauto. apply (Hok q v). now left.
  - eapply IH; eauto; [|discriminate]. intros q0 v0 Hin. apply (Hok q0 v0). now right.
Qed.
