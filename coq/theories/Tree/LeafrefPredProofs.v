(* LeafrefPredProofs.v — leafref validation with key predicates (Tree/LeafrefPred.v):
   - on predicate-free paths the generalised functions are the functions of Tree/Leafref.v
     (selp_nokeys, check_leaf_p_embed, validate_leafrefs_p_embed);
   - step one substitutes the operand's value and step two selects what the path denotes
     (resolve_regular, go_ctx_ctx, selp_seld);
   - the traversal reports an error exactly for the leafref leaves whose value is not among the
     values the path with its predicates selects (validate_leafrefs_p_iff), and nothing with
     IgnoreMissingData.
   All by structural induction on paths, entry lists and trees; no size bounds. *)
From Ygot Require Import Tree.Tree Tree.Codec Tree.TreeOps Tree.KeyCodec Tree.Validate Tree.ValidateProofs
  Tree.Defaults Tree.DefaultsProofs Tree.Leafref Tree.LeafrefProofs Tree.LeafrefPred.

(* ---------- small facts ---------- *)

Lemma seqb_eq a b : str_eqb a b = true <-> a = b.
Proof.
  revert b; induction a as [|x a IH]; intros [|y b]; simpl; split; intros H; try reflexivity; try discriminate.
  - apply andb_true_iff in H as [H1 H2]. apply N.eqb_eq in H1. apply IH in H2. now subst.
  - injection H as -> ->. rewrite N.eqb_refl. simpl. now apply IH.
Qed.

Lemma map_flat_map {A B C} (f : B -> C) (g : A -> list B) l :
  map f (flat_map g l) = flat_map (fun x => map f (g x)) l.
Proof. induction l as [|a l IH]; simpl; [reflexivity|]. now rewrite map_app, IH. Qed.

Lemma filter_all {A} (b : A -> bool) l : (forall x, In x l -> b x = true) -> filter b l = l.
Proof.
  induction l as [|a l IH]; intros H; simpl; [reflexivity|].
  rewrite (H a (or_introl eq_refl)). f_equal. apply IH. intros x Hx. apply H. now right.
Qed.

Lemma filter_none {A} (b : A -> bool) l : (forall x, In x l -> b x = false) -> filter b l = [].
Proof.
  induction l as [|a l IH]; intros H; simpl; [reflexivity|].
  rewrite (H a (or_introl eq_refl)). apply IH. intros x Hx. apply H. now right.
Qed.

Lemma nodup_filter_le1 {A} (ks : A -> str) j es :
  nodup_strs (map ks es) = true -> (length (filter (fun ke => str_eqb (ks ke) j) es) <= 1)%nat.
Proof.
  induction es as [|a es IH]; intros H; simpl; [lia|].
  change (map ks (a :: es)) with (ks a :: map ks es) in H.
  apply nodup_strs_cons in H as [Hn Hr]. destruct (str_eqb (ks a) j) eqn:E.
  - apply seqb_eq in E. rewrite filter_none; [simpl; lia|].
    intros x Hx. destruct (str_eqb (ks x) j) eqn:E2; [|reflexivity].
    apply seqb_eq in E2. exfalso. apply Hn. rewrite E, <- E2. now apply in_map.
  - now apply IH.
Qed.

Definition vals (ns : list lnode) : list scalar := flat_map lnode_vals ns.
Lemma vals_app a b : vals (a ++ b) = vals a ++ vals b.
Proof. apply flat_map_app. Qed.

Section P.
  Variable env : enum_env.
  Variable ko : key_oracle.

  (* ---------- key comparison ---------- *)

  Lemma keys_match_p_nil keys mk : keys_match_p env ko [] keys mk = Some true.
  Proof. revert mk; induction keys as [|k ks IH]; intros [|v vs]; simpl; auto. Qed.

  Lemma keys_match_p_absent k j keys mk : ~ In k keys -> keys_match_p env ko [(k, j)] keys mk = Some true.
  Proof.
    revert mk; induction keys as [|k' ks IH]; intros [|v vs] H; try reflexivity. simpl.
    destruct (str_eqb k' k) eqn:E.
    - apply seqb_eq in E. subst. exfalso. apply H. now left.
    - apply IH. intros Hin. apply H. now right.
  Qed.

  Lemma keys_match_p_single k j keys mk s :
    nodup_strs keys = true -> key_str_of env ko k keys mk = Some s ->
    keys_match_p env ko [(k, j)] keys mk = Some (star_b j || str_eqb s j).
  Proof.
    revert mk; induction keys as [|k' ks IH]; intros [|v vs] Hnd Hk; simpl in Hk; try discriminate Hk.
    apply nodup_strs_cons in Hnd as [Hn Hr]. simpl. destruct (str_eqb k' k) eqn:E.
    - apply seqb_eq in E. subst k'. rewrite Hk.
      destruct (star_b j || str_eqb s j); [|reflexivity]. now apply keys_match_p_absent.
    - now apply IH.
  Qed.

  (* ---------- entry selection ---------- *)

  Lemma ents_all_spec m f (g : list (str * tree) -> list scalar) (b : list scalar * tree -> bool) es :
    (forall ke, In ke es -> m (fst ke) = Some (b ke)) ->
    (forall ke, In ke es -> exists ns, f (fields_of (snd ke)) = Some ns /\ vals ns = g (fields_of (snd ke))) ->
    exists ns, ents_all m f es = Some ns /\
               vals ns = flat_map (fun ke => g (fields_of (snd ke))) (filter b es).
  Proof.
    induction es as [|ke es IH]; intros Hm Hf; simpl; [exists []; split; reflexivity|].
    rewrite (Hm ke (or_introl eq_refl)).
    destruct IH as (bs & Hb & Hvb); [intros x Hx; apply Hm; now right|intros x Hx; apply Hf; now right|].
    destruct (b ke).
    - destruct (Hf ke (or_introl eq_refl)) as (a & Ha & Hva). rewrite Ha, Hb.
      exists (a ++ bs). split; [reflexivity|]. simpl. now rewrite vals_app, Hva, Hvb.
    - exists bs. split; assumption.
  Qed.

  Lemma ents_first_spec m f (g : list (str * tree) -> list scalar) (b : list scalar * tree -> bool) es :
    (forall ke, In ke es -> m (fst ke) = Some (b ke)) ->
    (forall ke, In ke es -> exists ns, f (fields_of (snd ke)) = Some ns /\ vals ns = g (fields_of (snd ke))) ->
    (length (filter b es) <= 1)%nat ->
    exists ns, ents_first m f es = Some ns /\
               vals ns = flat_map (fun ke => g (fields_of (snd ke))) (filter b es).
  Proof.
    induction es as [|ke es IH]; intros Hm Hf Hl; simpl; [exists []; split; reflexivity|].
    rewrite (Hm ke (or_introl eq_refl)). simpl in Hl. destruct (b ke).
    - destruct (Hf ke (or_introl eq_refl)) as (a & Ha & Hva). exists a. split; [assumption|].
      destruct (filter b es); [|simpl in Hl; lia]. simpl. now rewrite app_nil_r.
    - apply IH; [intros x Hx; apply Hm; now right|intros x Hx; apply Hf; now right|assumption].
  Qed.

  (* an element without keys selects every entry *)
  Lemma sel_list_nokeys keys f (g : list (str * tree) -> list scalar) es :
    (forall ke, In ke es -> exists ns, f (fields_of (snd ke)) = Some ns /\ vals ns = g (fields_of (snd ke))) ->
    exists ns, sel_list env ko keys [] f es = Some ns /\ vals ns = flat_map (fun ke => g (fields_of (snd ke))) es.
  Proof.
    intros Hf.
    assert (H : forall m, (forall mk, m mk = Some true) ->
              exists ns, ents_all m f es = Some ns /\ vals ns = flat_map (fun ke => g (fields_of (snd ke))) es).
    { intros m Hm. destruct (ents_all_spec m f g (fun _ => true) es) as (ns & Hn & Hv); [intros; apply Hm|assumption|].
      exists ns. split; [assumption|]. rewrite Hv. now rewrite filter_all. }
    unfold sel_list. destruct keys as [|k [|k2 ks]]; apply H; intros mk; try reflexivity; apply keys_match_p_nil.
  Qed.

  Lemma ents_all_unkeyed f (g : list (str * tree) -> list scalar) (es : list tree) :
    (forall x, In x es -> exists ns, f (fields_of x) = Some ns /\ vals ns = g (fields_of x)) ->
    exists ns, ents_all (fun _ => Some true) f (map (fun x => ([], x)) es) = Some ns /\
               vals ns = flat_map (fun x => g (fields_of x)) es.
  Proof.
    induction es as [|x es IH]; intros Hf; simpl; [exists []; split; reflexivity|].
    destruct (Hf x (or_introl eq_refl)) as (a & Ha & Hva).
    destruct IH as (bs & Hb & Hvb); [intros y Hy; apply Hf; now right|].
    rewrite Ha, Hb. exists (a ++ bs). split; [reflexivity|]. now rewrite vals_app, Hva, Hvb.
  Qed.
End P.

Section Q.
  Variable env : enum_env.
  Variable ko : key_oracle.
  Variable lrfix : bool.
  Variable tab : lrptab.
  Variable sfs0 : list (finfo * schema).
  Variable fs0 : list (str * tree).

  Local Notation kso := (key_str_of env ko).
  Local Notation dmatch := (den_match env ko sfs0 fs0).
  Local Notation ereg := (elem_regular env ko sfs0 fs0).
  Local Notation lok := (list_ok env ko sfs0 fs0).
  Local Notation dok := (descent_ok env ko sfs0 fs0).
  Local Notation okeyq := (okey env ko sfs0 fs0).
  Local Notation opkey := (operand_key env ko sfs0 fs0).
  Local Notation dop := (den_operand env ko sfs0 fs0).
  Local Notation seldq := (seld env ko sfs0 fs0).
  Local Notation resolveq := (resolve env ko sfs0 fs0).

  (* what step one produces on a regular path *)
  Definition erase (loc : list sstep) (e : lrelem) : gelem :=
    (le_name e, map (fun kp => (fst kp, okeyq loc (snd kp))) (le_preds e)).

  Theorem resolve_regular loc els :
    forallb (ereg loc) els = true -> resolveq loc els = S1Ok (map (erase loc) els).
  Proof.
    induction els as [|e r IH]; intros H; [reflexivity|]. simpl in H. apply andb_true_iff in H as [He Hr].
    specialize (IH Hr). unfold elem_regular in He. cbn [resolve map]. unfold erase at 1.
    destruct (le_preds e) as [|kp [|kp2 ps]]; try discriminate He.
    - rewrite IH. reflexivity.
    - unfold pred_regular in He. cbn [map]. unfold okey. destruct (opkey loc (snd kp)) as [j|]; [|discriminate He].
      rewrite IH. reflexivity.
  Qed.

  (* the regular predicate, seen from one entry *)
  Lemma den_match_single loc kp keys mk s j :
    opkey loc (snd kp) = Some j ->
    match dop loc (snd kp) with [] => true | [s0] => str_eqb s0 j | _ => false end = true ->
    kso (fst kp) keys mk = Some s ->
    negb (nil_b (dop loc (snd kp))) || negb (str_eqb s j) = true ->
    dmatch loc [kp] keys mk = str_eqb s j.
  Proof.
    intros _ Ho Hk Hg. unfold den_match. cbn [forallb]. rewrite Hk, andb_true_r.
    destruct (dop loc (snd kp)) as [|s0 [|s1 r]]; try discriminate Ho.
    - simpl in Hg. apply negb_true_iff in Hg. now rewrite Hg.
    - apply seqb_eq in Ho. subst s0. simpl. now rewrite orb_false_r.
  Qed.

  Lemma sel_list_agree loc e keys es f (g : list (str * tree) -> list scalar) :
    ereg loc e = true -> lok loc (le_preds e) keys es = true ->
    (forall ke, In ke es -> exists ns, f (fields_of (snd ke)) = Some ns /\ vals ns = g (fields_of (snd ke))) ->
    exists ns, sel_list env ko keys (snd (erase loc e)) f es = Some ns /\
               vals ns = flat_map (fun ke => g (fields_of (snd ke)))
                                  (filter (fun ke => dmatch loc (le_preds e) keys (fst ke)) es).
  Proof.
    intros He Hl Hf. unfold erase, elem_regular in *. cbn [snd].
    destruct (le_preds e) as [|kp [|kp2 ps]]; try discriminate He.
    - (* no predicate *)
      cbn [map]. destruct (sel_list_nokeys env ko keys f g es Hf) as (ns & Hn & Hv).
      exists ns. split; [assumption|]. rewrite Hv. now rewrite filter_all.
    - (* one predicate *)
      unfold pred_regular in He. cbn [map]. unfold okey in *.
      destruct (opkey loc (snd kp)) as [j|] eqn:Ej; [|discriminate He].
      apply andb_true_iff in He as [Hstar Ho]. apply negb_true_iff in Hstar.
      unfold list_ok, okey in Hl. rewrite Ej in Hl.
      apply andb_true_iff in Hl as [Hl Hsingle]. apply andb_true_iff in Hl as [Hl Hes].
      apply andb_true_iff in Hl as [Hnd Hin]. rewrite forallb_forall in Hes.
      set (ks := fun ke : list scalar * tree => match kso (fst kp) keys (fst ke) with Some s => s | None => [] end).
      assert (Hb : forall ke, In ke es -> kso (fst kp) keys (fst ke) = Some (ks ke) /\
                                          dmatch loc [kp] keys (fst ke) = str_eqb (ks ke) j).
      { intros ke Hke. specialize (Hes ke Hke). unfold ks.
        destruct (kso (fst kp) keys (fst ke)) as [s|] eqn:Ek; [|discriminate Hes].
        split; [reflexivity|]. now apply (den_match_single loc kp keys (fst ke) s j). }
      assert (Hfilter : filter (fun ke => dmatch loc [kp] keys (fst ke)) es = filter (fun ke => str_eqb (ks ke) j) es).
      { apply filter_ext_in. intros ke Hke. exact (proj2 (Hb ke Hke)). }
      rewrite Hfilter. unfold sel_list.
      destruct keys as [|k0 [|k1 krest]].
      + discriminate Hin.
      + (* a single-key list: the first entry whose key prints as j *)
        simpl in Hin. rewrite orb_false_r in Hin. cbn [al_find]. rewrite Hin, Hstar.
        apply ents_first_spec; [|assumption|now apply nodup_filter_le1].
        intros ke Hke. destruct (Hb ke Hke) as [Hk _]. destruct (fst ke) as [|v vs]; simpl in Hk; [discriminate Hk|].
        rewrite Hin in Hk. unfold single_match. now rewrite Hk.
      + (* a struct-keyed list: every entry whose key named by the predicate prints as j *)
        apply ents_all_spec; [|assumption].
        intros ke Hke. destruct (Hb ke Hke) as [Hk _].
        rewrite (keys_match_p_single env ko (fst kp) j _ _ _ Hnd Hk). now rewrite Hstar.
  Qed.

  (* step two on the path step one produced selects what the path with its predicates denotes *)
  Theorem selp_seld loc : forall els sfs fs,
    forallb (ereg loc) els = true -> dok loc els sfs fs = true ->
    exists ns, selp env ko (map (erase loc) els) sfs fs = Some ns /\ vals ns = seldq loc els sfs fs.
  Proof.
    induction els as [|e rest IH]; intros sfs fs Hr Hd; [exists []; split; reflexivity|].
    simpl in Hr. apply andb_true_iff in Hr as [He Hr].
    cbn [map selp seld descent_ok] in *. change (fst (erase loc e)) with (le_name e).
    destruct (key_field sfs (le_name e)) as [[fi ss]|]; [|exists []; split; reflexivity].
    assert (Hnil : nil_b (map (erase loc) rest) = nil_b rest) by (now destruct rest).
    destruct ss as [t d|t mn mx|sfs'|ord keys mn mx sfs'|sfs'].
    - rewrite Hnil. destruct (field_get (f_go fi) fs) as [[v|vs|cfs|es|es]|]; try (exists []; split; reflexivity).
      + destruct (nil_b rest); [exists [LNLeaf v]|exists []]; split; reflexivity.
      + destruct (nil_b rest); [|exists []; split; reflexivity].
        destruct (enum_ty t); [eexists; split; reflexivity|exists []; split; reflexivity].
    - rewrite Hnil. destruct (field_get (f_go fi) fs) as [[v|vs|cfs|es|es]|]; try (exists []; split; reflexivity).
      destruct (nil_b rest); [exists [LNList vs]; split; [reflexivity|apply app_nil_r]|exists []; split; reflexivity].
    - now apply IH.
    - destruct (field_get (f_go fi) fs) as [[v|vs|cfs|es|es]|]; try (exists []; split; reflexivity).
      apply andb_true_iff in Hd as [Hl Hes]. rewrite forallb_forall in Hes.
      apply sel_list_agree; [assumption|assumption|]. intros ke Hke. apply IH; [assumption|now apply Hes].
    - destruct (field_get (f_go fi) fs) as [[v|vs|cfs|es|es]|]; try (exists []; split; reflexivity).
      rewrite forallb_forall in Hd. apply (ents_all_unkeyed (selp env ko (map (erase loc) rest) sfs') (seldq loc rest sfs')).
      intros x Hx. apply IH; [assumption|now apply Hd].
  Qed.

  (* the upward walk over the NodeInfo chain reaches the struct XPath's ".." reaches *)
  Theorem go_ctx_ctx loc abs up : loc_keyed loc = true -> go_ctx sfs0 fs0 loc abs up = ctx sfs0 fs0 loc abs up.
  Proof.
    intros Hk. unfold go_ctx, ctx. destruct abs; [reflexivity|].
    destruct up as [|k]; [reflexivity|]. cbn [Nat.eqb]. replace (S k - 1)%nat with k by lia.
    rewrite go_up_skipn by now rewrite loc_keyed_rev. rewrite rev_length.
    destruct (Nat.leb k (length loc)) eqn:E.
    - apply Nat.leb_le in E. assert (Nat.ltb (length loc) k = false) as -> by (apply Nat.ltb_ge; lia).
      now rewrite skipn_rev, rev_involutive.
    - apply Nat.leb_gt in E. assert (Nat.ltb (length loc) k = true) as -> by (apply Nat.ltb_lt; lia). reflexivity.
  Qed.

  Lemma lr_eq_scalar_eqb' v ts : not_bin v = true -> existsb (lr_eq v) ts = existsb (scalar_eqb v) ts.
  Proof.
    intros Hv. apply existsb_ext_in. intros w _. unfold lr_eq. destruct w; try reflexivity. now destruct v.
  Qed.

  Theorem check_leaf_p_iff mode loc lp v :
    reports lrfix mode = true -> leaf_regular env ko sfs0 fs0 loc lp = true -> not_bin v = true ->
    (check_leaf_p env ko lrfix sfs0 fs0 mode loc lp v = [] <-> satisfied_p env ko sfs0 fs0 loc lp v = true).
  Proof.
    intros Hrep Hreg Hv. unfold leaf_regular in Hreg.
    apply andb_true_iff in Hreg as [Hreg Hd]. apply andb_true_iff in Hreg as [Hk He].
    unfold check_leaf_p, satisfied_p, go_nodes. rewrite (resolve_regular loc _ He), Hrep, (go_ctx_ctx _ _ _ Hk).
    destruct (ctx sfs0 fs0 loc (lp_abs lp) (lp_up lp)) as [[sfs fs]|]; [|split; discriminate].
    destruct (selp_seld loc _ sfs fs He Hd) as (ns & -> & Hvals). fold (vals ns). rewrite Hvals.
    set (ts := seldq loc (lp_down lp) sfs fs).
    assert (Hc : match ts, v with
                 | _ :: _, VBin _ => [PPanic]
                 | _, _ => if existsb (lr_eq v) ts then [] else [PDangling]
                 end = if existsb (lr_eq v) ts then [] else [PDangling]).
    { destruct ts; [reflexivity|]. destruct v; try reflexivity. discriminate Hv. }
    rewrite Hc. rewrite lr_eq_scalar_eqb' by assumption. destruct (existsb (scalar_eqb v) ts); split; congruence.
  Qed.
End Q.

(* ---------- the traversal ---------- *)

Section W.
  Variable env : enum_env.
  Variable ko : key_oracle.
  Variable lrfix : bool.
  Variable tab : lrptab.
  Variable sfs0 : list (finfo * schema).
  Variable fs0 : list (str * tree).

  Definition leaf_errs (mode : lrmode) (x : lrleaf) : list lperr :=
    map (fun c => (ll_name x, c)) (check_leaf_p env ko lrfix sfs0 fs0 mode (ll_loc x) (ll_path x) (ll_val x)).

  (* the traversal visits exactly the set leafref leaves *)
  Definition walk_p_eq (mode : lrmode) (t : tree) : Prop :=
    forall gp loc, walk_p env ko lrfix tab sfs0 fs0 mode gp loc t = flat_map (leaf_errs mode) (lrp_leaves tab gp loc t).

  Lemma walk_p_leaves mode : forall t,
    walk_p_eq mode t /\
    (forall es, t = TList es -> Forall (fun ke => walk_p_eq mode (snd ke)) es) /\
    (forall es, t = TUnkeyed es -> Forall (walk_p_eq mode) es).
  Proof.
    induction t as [v|vs|fs IH|es IH|es IH] using tree_ind2.
    - repeat split; try discriminate; intros gp loc; reflexivity.
    - repeat split; try discriminate; intros gp loc; reflexivity.
    - split; [|split; discriminate]. intros gp loc. cbn [walk_p lrp_leaves].
      rewrite flat_map_flat_map'. apply flat_map_ext_in'. intros nt Hin.
      rewrite Forall_forall in IH. specialize (IH nt Hin). destruct IH as (Hw & Hl & Hu).
      destruct (snd nt) as [v|vs|fs'|es|es] eqn:Et.
      + destruct (ptab_find (gp ++ [fst nt]) tab); simpl; [now rewrite app_nil_r|reflexivity].
      + reflexivity.
      + apply Hw.
      + specialize (Hl es eq_refl). rewrite Forall_forall in Hl.
        rewrite flat_map_flat_map'. apply flat_map_ext_in'. intros ke Hke. apply (Hl ke Hke).
      + specialize (Hu es eq_refl). clear Et Hw Hl. revert Hu. generalize 0%nat.
        induction es as [|e es IHes]; intros i Hu; [reflexivity|].
        inversion Hu as [|? ? He Hes]; subst. rewrite flat_map_app. rewrite He. f_equal. now apply IHes.
    - split; [intros gp loc; reflexivity|]. split; [|discriminate]. intros es' [= <-].
      apply Forall_forall. intros ke Hke. rewrite Forall_forall in IH. exact (proj1 (IH ke Hke)).
    - split; [intros gp loc; reflexivity|]. split; [discriminate|]. intros es' [= <-].
      apply Forall_forall. intros e He. rewrite Forall_forall in IH. exact (proj1 (IH e He)).
  Qed.

  Theorem validate_leafrefs_p_iff mode :
    reports lrfix mode = true ->
    (forall x, In x (all_lrp_leaves tab fs0) ->
       leaf_regular env ko sfs0 fs0 (ll_loc x) (ll_path x) = true /\ not_bin (ll_val x) = true) ->
    (validate_leafrefs_p env ko lrfix tab sfs0 fs0 mode = [] <->
     forall x, In x (all_lrp_leaves tab fs0) -> satisfied_p env ko sfs0 fs0 (ll_loc x) (ll_path x) (ll_val x) = true).
  Proof.
    intros Hrep Hg. unfold validate_leafrefs_p, all_lrp_leaves in *.
    assert (Hw : (match mode with LrIgnore => [] | _ => walk_p env ko lrfix tab sfs0 fs0 mode [] [] (TCont fs0) end)
                 = walk_p env ko lrfix tab sfs0 fs0 mode [] [] (TCont fs0)).
    { destruct mode; try reflexivity. discriminate Hrep. }
    rewrite Hw. rewrite (proj1 (walk_p_leaves mode (TCont fs0)) [] []). rewrite flat_map_nil_iff.
    assert (Hmap : forall x, leaf_errs mode x = [] <->
                             check_leaf_p env ko lrfix sfs0 fs0 mode (ll_loc x) (ll_path x) (ll_val x) = []).
    { intros x. unfold leaf_errs. split; [apply map_eq_nil|intros ->; reflexivity]. }
    split; intros H x Hx; specialize (H x Hx); destruct (Hg x Hx) as [Hk Hv].
    - apply (check_leaf_p_iff env ko lrfix sfs0 fs0 mode); try assumption. now apply Hmap.
    - apply Hmap. now apply (check_leaf_p_iff env ko lrfix sfs0 fs0 mode).
  Qed.

  Theorem validate_leafrefs_p_ignore : validate_leafrefs_p env ko lrfix tab sfs0 fs0 LrIgnore = [].
  Proof. reflexivity. Qed.
End W.

(* ---------- predicate-free paths: the functions of Tree/Leafref.v ---------- *)

Section E.
  Variable env : enum_env.
  Variable ko : key_oracle.
  Variable lrfix : bool.
  Variable sfs0 : list (finfo * schema).
  Variable fs0 : list (str * tree).

  (* GetNode on elements without keys: `sel` *)
  Theorem selp_nokeys : forall names sfs fs,
    exists ns, selp env ko (map nokeys names) sfs fs = Some ns /\ vals ns = sel names sfs fs.
  Proof.
    induction names as [|n rest IH]; intros sfs fs; [exists []; split; reflexivity|].
    cbn [map selp sel]. change (fst (nokeys n)) with n. change (snd (nokeys n)) with (@nil (str * str)).
    destruct (key_field sfs n) as [[fi ss]|]; [|exists []; split; reflexivity].
    assert (Hnil : nil_b (map nokeys rest) = nil_b rest) by (now destruct rest).
    destruct ss as [t d|t mn mx|sfs'|ord keys mn mx sfs'|sfs'].
    - rewrite Hnil. destruct (field_get (f_go fi) fs) as [[v|vs|cfs|es|es]|]; try (exists []; split; reflexivity).
      + destruct (nil_b rest); [exists [LNLeaf v]|exists []]; split; reflexivity.
      + destruct (nil_b rest); [|exists []; split; reflexivity].
        destruct (enum_ty t); [eexists; split; reflexivity|exists []; split; reflexivity].
    - rewrite Hnil. destruct (field_get (f_go fi) fs) as [[v|vs|cfs|es|es]|]; try (exists []; split; reflexivity).
      destruct (nil_b rest); [exists [LNList vs]; split; [reflexivity|apply app_nil_r]|exists []; split; reflexivity].
    - apply IH.
    - destruct (field_get (f_go fi) fs) as [[v|vs|cfs|es|es]|]; try (exists []; split; reflexivity).
      apply (sel_list_nokeys env ko keys (selp env ko (map nokeys rest) sfs') (sel rest sfs')). intros ke _. apply IH.
    - destruct (field_get (f_go fi) fs) as [[v|vs|cfs|es|es]|]; try (exists []; split; reflexivity).
      apply (ents_all_unkeyed (selp env ko (map nokeys rest) sfs') (sel rest sfs')). intros x _. apply IH.
  Qed.

  Lemma resolve_nopred loc names : resolve env ko sfs0 fs0 loc (map nopred names) = S1Ok (map nokeys names).
  Proof. induction names as [|n r IH]; [reflexivity|]. cbn [map resolve nopred le_preds le_name]. now rewrite IH. Qed.

  (* the part of check_leaf / check_leaf_p that follows the lookup *)
  Definition finish_o (mode : lrmode) (v : scalar) (r : option (list scalar)) : list lerr :=
    match r with
    | None => [ELrNoParent]
    | Some ts =>
        match ts, v with
        | _ :: _, VBin _ => [ELrPanic]
        | _, _ => if existsb (lr_eq v) ts then [] else if reports lrfix mode then [ELrDangling] else []
        end
    end.
  Definition finish_p (mode : lrmode) (v : scalar) (r : tres) : list lpcls :=
    match r with
    | TNoParent => [PNoParent]
    | TGetErr => [PGetNode]
    | TNodes ns =>
        match flat_map lnode_vals ns, v with
        | _ :: _, VBin _ => [PPanic]
        | _, _ => if existsb (lr_eq v) (flat_map lnode_vals ns) then [] else if reports lrfix mode then [PDangling] else []
        end
    end.

  Lemma finish_embed mode v names sfs fs :
    finish_p mode v (match selp env ko (map nokeys names) sfs fs with Some l => TNodes l | None => TGetErr end) =
    map embed_cls (finish_o mode v (Some (sel names sfs fs))).
  Proof.
    destruct (selp_nokeys names sfs fs) as (ns & -> & Hv). unfold vals in Hv. unfold finish_p, finish_o. rewrite Hv.
    destruct (sel names sfs fs) as [|w ws]; destruct v; try reflexivity;
      match goal with |- context [existsb ?f ?l] => destruct (existsb f l) end; try reflexivity;
      destruct (reports lrfix mode); reflexivity.
  Qed.

  Theorem check_leaf_p_embed mode loc lp v :
    check_leaf_p env ko lrfix sfs0 fs0 mode loc (embed_path lp) v = map embed_cls (check_leaf lrfix sfs0 fs0 mode loc lp v).
  Proof.
    change (check_leaf lrfix sfs0 fs0 mode loc lp v) with (finish_o mode v (go_targets sfs0 fs0 loc lp)).
    unfold check_leaf_p, embed_path. cbn [lp_abs lp_up lp_down]. rewrite resolve_nopred.
    change (finish_p mode v (go_nodes env ko sfs0 fs0 loc (lr_abs lp) (lr_up lp) (map nokeys (lr_down lp))) =
            map embed_cls (finish_o mode v (go_targets sfs0 fs0 loc lp))).
    unfold go_nodes, go_targets, go_ctx.
    destruct (lr_abs lp); [apply finish_embed|].
    destruct (lr_up lp) as [|k]; [reflexivity|].
    destruct (go_up k (rev loc)) as [r|]; [|reflexivity].
    destruct (reach sfs0 fs0 (rev r)) as [[sfs fs]|]; [apply finish_embed|reflexivity].
  Qed.

  Lemma ptab_find_embed gp tab : ptab_find gp (embed_tab tab) = option_map embed_path (tab_find gp tab).
  Proof.
    induction tab as [|[p l] r IH]; [reflexivity|]. simpl. destruct (list_eqb str_eqb p gp); [reflexivity|exact IH].
  Qed.

  Definition walk_embed_eq (tab : lrtab) (mode : lrmode) (t : tree) : Prop :=
    forall gp loc, map snd (walk_p env ko lrfix (embed_tab tab) sfs0 fs0 mode gp loc t) =
                   map embed_cls (walk lrfix tab sfs0 fs0 mode gp loc t).

  Lemma walk_p_embed tab mode : forall t,
    walk_embed_eq tab mode t /\
    (forall es, t = TList es -> Forall (fun ke => walk_embed_eq tab mode (snd ke)) es) /\
    (forall es, t = TUnkeyed es -> Forall (walk_embed_eq tab mode) es).
  Proof.
    induction t as [v|vs|fs IH|es IH|es IH] using tree_ind2.
    - repeat split; try discriminate; intros gp loc; reflexivity.
    - repeat split; try discriminate; intros gp loc; reflexivity.
    - split; [|split; discriminate]. intros gp loc. cbn [walk_p walk].
      rewrite !map_flat_map. apply flat_map_ext_in'. intros nt Hin.
      rewrite Forall_forall in IH. specialize (IH nt Hin). destruct IH as (Hw & Hl & Hu).
      destruct (snd nt) as [v|vs|fs'|es|es] eqn:Et.
      + rewrite ptab_find_embed. destruct (tab_find (gp ++ [fst nt]) tab) as [lp|]; [|reflexivity].
        cbn [option_map]. rewrite map_map. cbn [snd]. rewrite map_id. apply check_leaf_p_embed.
      + reflexivity.
      + apply Hw.
      + specialize (Hl es eq_refl). rewrite Forall_forall in Hl.
        rewrite !map_flat_map. apply flat_map_ext_in'. intros ke Hke. apply (Hl ke Hke).
      + specialize (Hu es eq_refl). clear Et Hw Hl. revert Hu. generalize 0%nat.
        induction es as [|e es IHes]; intros i Hu; [reflexivity|].
        inversion Hu as [|? ? He Hes]; subst. rewrite !map_app. rewrite He. f_equal. now apply IHes.
    - split; [intros gp loc; reflexivity|]. split; [|discriminate]. intros es' [= <-].
      apply Forall_forall. intros ke Hke. rewrite Forall_forall in IH. exact (proj1 (IH ke Hke)).
    - split; [intros gp loc; reflexivity|]. split; [discriminate|]. intros es' [= <-].
      apply Forall_forall. intros e He. rewrite Forall_forall in IH. exact (proj1 (IH e He)).
  Qed.

  (* on a side table without predicates the generalised validation is the validation of Leafref.v *)
  Theorem validate_leafrefs_p_embed tab mode :
    map snd (validate_leafrefs_p env ko lrfix (embed_tab tab) sfs0 fs0 mode) =
    map embed_cls (validate_leafrefs lrfix tab sfs0 fs0 mode).
  Proof.
    unfold validate_leafrefs_p, validate_leafrefs. destruct mode; try reflexivity;
      apply (proj1 (walk_p_embed tab _ (TCont fs0)) [] []).
  Qed.
End E.

Print Assumptions selp_seld.
Print Assumptions validate_leafrefs_p_iff.
Print Assumptions validate_leafrefs_p_embed.
