(* LeavesDelProofs.v — DeleteNode (ytypes/node.go, Tree/Node.v del_rec) seen through the leaves of
   ygot/render.go findUpdatedLeaves (Tree/Leaves.v): after a successful DeleteNode on a path that
   the schema walk of SetReqSpec accepts and that is not a key leaf, the leaves are those of the
   spec (SetReqSpec.spec_delete): the leaves below the paths of the target are gone, every other
   leaf is as before (emptied containers, list entries and lists are pruned: they hold no leaves).
   Proved by induction along the descent of del_rec; the tree guard (NodeFrameProofs.nwf) is
   preserved. *)
From Ygot Require Import Tree.Tree Scalar.Dec Scalar.Base64 Tree.Codec Tree.CodecProofs.
From Ygot Require Import Tree.TreeOps Tree.Render Tree.Unmarshal Tree.RoundTrip Tree.RoundTripObjProofs Tree.RoundTripProofs.
From Ygot Require Import Tree.KeyCodec Tree.Leaves Tree.Notif Tree.Node Tree.SetReq Path.PathRel.
From Ygot Require Import Tree.KeyCodecProofs Tree.NodeStepProofs Tree.GnmiRt Tree.GnmiRtProofs.
From Ygot Require Import Tree.MergeJson Tree.MergeJsonProofs Tree.NodeFrameProofs Tree.NodeProofs.
From Ygot Require Import Tree.GnmiStatements Tree.SetReqSpec Tree.SetReqProofs Tree.LeavesBridgeProofs Tree.LeavesPartsProofs.
From Ygot Require Import Tree.LeavesSetProofs.

Section DelLeaves.
  Variable env : enum_env.
  Variable fo : float_oracle.
  Variable ko : key_oracle.
  Notation nwf := (nwf env fo ko).
  Notation keys_ok := (keys_ok env fo ko).
  Notation FLv := (find_leaves env ko false false).
  Notation L := (flat_map plain_of).
  Notation DR := (del_rec env fo ko false).

  Definition del_res (s : schema) (fs : list (str * tree)) (par : dpath) (alts : list dpath)
      (items : list litem) (c' : option tree) : Prop :=
    exists fs' items', c' = Some (TCont fs') /\ nwf s (TCont fs')
      /\ (forall g0, is_key_field s g0 = true -> field_get g0 fs' = field_get g0 fs)
      /\ FLv s (TCont fs') par = Ok items'
      /\ forall q w, In (q, w) (L items') <-> del_in alts (L items) q w.
  Definition del_concl (s : schema) (fs : list (str * tree)) (par : dpath) (ni : node_info)
      (items : list litem) (c' : option tree) : Prop := del_res s fs par (ni_alts ni) items c'.

  (* a path element without keys names the whole list: only an empty list is accepted *)
  Lemma del_list_nokeys f s keys sfs es e0 prest c :
    del_list env fo ko false f s keys sfs es e0 prest = (c, Ok tt) -> ekeys e0 = [] -> keys <> [] ->
    (forall k e, In (k, e) es -> length k = length keys) -> es = [] /\ c = Some (TList []).
  Proof.
    intros H Hek Hkne Hlen. unfold del_list in H. rewrite Hek in H.
    destruct keys as [|k [|k2 ks]]; [congruence| |].
    - cbn [al_find] in H. destruct es; [injection H as <-; auto | discriminate].
    - destruct es as [|[mk e] more]; [cbn in H; injection H as <-; auto|]. exfalso.
      cbn [del_all] in H. pose proof (Hlen mk e (or_introl eq_refl)) as Hl.
      destruct mk as [|v vs]; [discriminate|]. cbn [keys_match al_find] in H. discriminate.
  Qed.

  (* the leaves of a leaf, leaf-list or container field lie below the paths of the field *)
  Lemma field_leaves_under sfs par fi ss x0 :
    gn_struct_okb sfs = true -> NoDup (go_names sfs) -> In (fi, ss) sfs -> gn_schemab ss = true ->
    prefix_okb par = true -> kind2 ss x0 = true -> is_keyed_list ss = false ->
    forall q w, In (q, w) (Lo_field env ko false sfs par (f_go fi) (Some x0)) -> under (lib_paths false fi par) q = true.
  Proof.
    intros Hok Hnd Hin Hgs Hpar Hk Hnl q w Hq. unfold Lo_field in Hq.
    destruct (fl_field env ko false sfs par (f_go fi, x0)) as [h| |] eqn:Eh; try (now destruct Hq).
    unfold fl_field in Eh. rewrite (find_go sfs fi ss Hnd Hin) in Eh. cbv zeta in Eh.
    destruct (lib_paths_hd fi par (paths_nonempty _ _ _ Hok Hin)) as (a0 & Ha0 & Ehd). rewrite Ehd in Eh.
    assert (Hokp : forall a, prefix_okb (par ++ path_of_names a) = true) by (intros a; now rewrite prefix_okb_app, Hpar, prefix_okb_names).
    assert (Hat : forall q0, In q0 (lib_paths false fi par) -> under (lib_paths false fi par) q0 = true).
    { intros q0 H0. unfold under. apply existsb_exists. exists q0. split; [exact H0|]. unfold is_prefix. apply elems_prefix_refl.
      unfold lib_paths in H0. apply in_map_iff in H0 as (a & <- & _). apply Hokp. }
    destruct x0 as [v|vs|cfs|es|ues]; destruct ss; try discriminate.
    - destruct (leaf_walk_ok env _ v); [|discriminate]. injection Eh as <-. apply leaf_items_In in Hq as [Hq _]. auto.
    - destruct vs as [|v1 vs']; injection Eh as <-; [destruct Hq|]. apply leaf_items_In in Hq as [Hq _]. auto.
    - destruct (FL_extends env ko _ _ _ _ _ Hgs Eh q w Hq) as (y & ->).
      unfold under. apply existsb_exists. exists (par ++ path_of_names a0). split.
      + unfold lib_paths, tag_paths. cbn [andb]. apply in_map_iff. eauto.
      + unfold is_prefix. apply elems_prefix_refl_app. apply Hokp.
  Qed.

  (* a pruned child holds no leaves *)
  Lemma prune_leaves sfs par fi ss cc : NoDup (go_names sfs) -> In (fi, ss) sfs ->
    Lo_field env ko false sfs par (f_go fi) (prune_child ss cc) = Lo_field env ko false sfs par (f_go fi) cc.
  Proof.
    intros Hnd Hin. unfold prune_child. destruct ss as [| |csfs|[|] keys mn mx esfs|]; try reflexivity.
    - destruct cc as [[| |[|]| |]|]; try reflexivity. unfold Lo_field, fl_field. rewrite (find_go sfs fi _ Hnd Hin). reflexivity.
    - destruct cc as [[| | |[|]|]|]; try reflexivity. unfold Lo_field, fl_field. rewrite (find_go sfs fi _ Hnd Hin). reflexivity.
  Qed.

  Lemma prune_cases ss cc : prune_child ss cc = cc \/ prune_child ss cc = None.
  Proof.
    unfold prune_child. destruct ss as [| |csfs|[|] keys mn mx esfs|]; auto.
    - destruct cc as [[| |[|]| |]|]; auto.
    - destruct cc as [[| | |[|]|]|]; auto.
  Qed.

  (* the struct rebuilt around the (pruned) child that lost the leaves below the target *)
  Lemma struct_del_finish s sfs fs par fi ss alt ch alts items cc :
    gn_schemab s = true -> struct_schema s sfs -> NoDup (go_names sfs) -> nwf s (TCont fs) -> In (fi, ss) sfs ->
    In alt (f_paths fi) -> pnames ch = alt -> is_key_field s (f_go fi) = false ->
    FLv s (TCont fs) par = Ok items ->
    (forall x, cc = Some x -> kind2 ss x = true /\ nwf ss x /\ exists h, fl_field env ko false sfs par (f_go fi, x) = Ok h) ->
    paths_inside (par ++ ch) alts ->
    (forall q w, In (q, w) (Lo_field env ko false sfs par (f_go fi) cc)
                 <-> del_in alts (Lo_field env ko false sfs par (f_go fi) (field_get (f_go fi) fs)) q w) ->
    del_res s fs par alts items (Some (TCont (put_field (go_names sfs) (f_go fi) (prune_child ss cc) fs))).
  Proof.
    intros Hgn Hs Hnd Hn Hin Halt Hchn Hnkf Hfl Hcc Hai Heq.
    set (c2 := prune_child ss cc).
    assert (Hc2 : forall x, c2 = Some x -> kind2 ss x = true /\ nwf ss x /\ exists h, fl_field env ko false sfs par (f_go fi, x) = Ok h).
    { intros x Hx. destruct (prune_cases ss cc) as [E|E]; fold c2 in E; rewrite E in Hx; [auto|discriminate]. }
    destruct (struct_replace env fo ko false s sfs fs par fi ss c2 items Hgn Hs Hnd Hn Hin Hfl)
      as (O & items' & Hit' & HL & HL' & Hout).
    { intros x Hx. now destruct (Hc2 x Hx) as (_ & _ & Hh). }
    exists (put_field (go_names sfs) (f_go fi) c2 fs), items'. split; [reflexivity|].
    split; [|split; [|split; [exact Hit'|]]].
    - apply (nwf_put_field env fo ko s sfs fs fi ss c2 Hs Hnd Hn Hin). intros x Hx. destruct (Hc2 x Hx) as (H1 & H2 & _). auto.
    - apply key_fields_kept. exact Hnkf.
    - intros q w. rewrite (HL' (q, w)). unfold c2. rewrite (prune_leaves sfs par fi ss cc Hnd Hin).
      assert (Hd : del_in alts (L items) q w <->
                   del_in alts (Lo_field env ko false sfs par (f_go fi) (field_get (f_go fi) fs) ++ O) q w).
      { unfold del_in. now rewrite (HL (q, w)). }
      rewrite Hd.
      apply (del_frame_in (par ++ ch) alts _ _ O Hai (Hout alt ch Halt Hchn) Heq).
  Qed.

  Lemma walk_here_keys keys mn mx esfs ek plen n done' l :
    walk_here env fo ko (SList false keys mn mx esfs) ek plen n done' = Some l -> nil_b ek = false ->
    NoDup (go_names esfs) -> (forall k, In k keys -> key_leaf_okb esfs k = true) ->
    exists mk, keys_sortedb ek = true /\ length ek = length keys
      /\ path_key env fo ko false esfs keys ek = Some mk /\ l = kleaves esfs keys mk done'.
  Proof.
    intros H Hne Hnd Hkl. unfold walk_here in H. rewrite Hne in H.
    destruct (keys_sortedb ek && Nat.eqb (length ek) (length keys)) eqn:Es; [|discriminate].
    apply andb_true_iff in Es as [Es El]. apply Nat.eqb_eq in El.
    destruct (entry_keyleaves_path env fo ko esfs ek done' Hnd keys l Hkl H) as (mk & Hp & _ & ->).
    exists mk. auto.
  Qed.

  (* the list step of DeleteNode: the entry the path element selects is removed (the path ends
     there) or handed to the recursive call; every other entry stays *)
  Lemma del_list_step f0 keys mn mx esfs es front nm ek mk prest alts cc litems :
    let ss := SList false keys mn mx esfs in
    let D := front ++ [{| ename := nm; ekeys := ek |}] in
    gn_schemab ss = true -> swfb ss = true -> nwf ss (TList es) -> prefix_okb D = true ->
    path_key env fo ko false esfs keys ek = Some mk -> mapkey_strs env ko keys mk = Ok ek ->
    paths_inside D alts -> (prest = [] -> alts = [D]) ->
    DR (S f0) ss (Some (TList es)) ({| ename := nm; ekeys := ek |} :: prest) = (cc, Ok tt) ->
    fl_entries env ko false ss esfs keys (front ++ [mk_elem nm]) es = Ok litems ->
    (forall fsin eitems e', tl_find mk es = Some (TCont fsin) -> prest <> [] ->
       DR f0 ss (Some (TCont fsin)) prest = (e', Ok tt) -> FLv ss (TCont fsin) D = Ok eitems ->
       exists efs' eitems', e' = Some (TCont efs') /\ nwf ss (TCont efs') /\ keys_ok esfs keys mk efs' = true
         /\ FLv ss (TCont efs') D = Ok eitems'
         /\ forall q w, In (q, w) (L eitems') <-> del_in alts (L eitems) q w) ->
    exists es' litems', cc = Some (TList es') /\ nwf ss (TList es')
      /\ fl_entries env ko false ss esfs keys (front ++ [mk_elem nm]) es' = Ok litems'
      /\ forall q w, In (q, w) (L litems') <-> del_in alts (L litems) q w.
  Proof.
    intros ss0 D Hgns Hsws Hn1 HparD Hpk Hcanon Hai Hfinal Hdel Hfl1 HE. subst ss0.
    destruct (swfb_fields _ Hsws) as [Hnde _]. cbn [sfields] in Hnde.
    destruct (list_keys_ok_inv _ _ (swfb_list_keys _ _ _ _ _ Hsws)) as (Hkne & Hkl & Hkd).
    destruct (gn_schemab_list _ _ _ _ _ Hgns) as (_ & Hdk & _ & _).
    pose proof Hn1 as Hn1'. apply nwf_list in Hn1' as [Hokb Hent].
    assert (Heok : entries_ok env fo ko esfs keys es) by (intros k e Hi; now destruct (Hent _ _ Hi)).
    pose proof (keys_okb_NoDup _ _ Hokb) as Hdist.
    (* the loops *)
    assert (Heq : match tl_find mk es with
                  | None => (Some (TList es), Ok tt)
                  | Some e => del_entry tl_insert (DR f0) (SList false keys mn mx esfs) prest mk e es
                  end = (cc, Ok tt)).
    { rewrite del_rec_list in Hdel. unfold del_list in Hdel. cbn [ekeys] in Hdel. rewrite <- Hdel.
      destruct keys as [|k [|k2 ks]]; [congruence| |].
      - assert (Hs0 : exists s0, al_find k ek = Some s0).
        { cbn [path_key] in Hpk. destruct (al_find k ek); [eauto|discriminate]. }
        destruct Hs0 as (s0 & Hs0). rewrite Hs0. symmetry.
        apply (del_first_spec env fo ko _ _ esfs prest false mk es k s0 ek Hnde Hpk (Hkl k (or_introl eq_refl)) Hs0 es Heok).
      - symmetry. apply (del_all_spec env fo ko _ _ esfs (k :: k2 :: ks) ek prest false mk Hpk es es Heok Hdist). }
    clear Hdel.
    (* some entry with the map key mk, for its key strings *)
    assert (Hfsm : exists fsm, keys_ok esfs keys mk fsm = true).
    { destruct (make_entry_ok env fo ko esfs ek Hnde keys mk Hkl Hkd Hpk) as (nfs & _ & _ & Hk & _). eauto. }
    destruct Hfsm as (fsm & Hfsm).
    (* the result list *)
    assert (Hfin : forall es' c3 A A',
              keys_okb false (map fst es') = true -> tl_find mk es' = c3 -> (forall k, k <> mk -> tl_find k es' = tl_find k es) ->
              (forall x, In x es' -> (exists e3, c3 = Some e3 /\ x = (mk, e3)) \/ In x es) ->
              (forall e3, c3 = Some e3 -> (exists efs', e3 = TCont efs' /\ keys_ok esfs keys mk efs' = true) /\ nwf (SList false keys mn mx esfs) e3
                 /\ exists h3, fl_entry env ko false (SList false keys mn mx esfs) esfs keys (front ++ [mk_elem nm]) (mk, e3) = Ok h3) ->
              (forall e, In e (Lo_entry env ko false (SList false keys mn mx esfs) esfs keys (front ++ [mk_elem nm]) mk (tl_find mk es)) <-> In e A) ->
              (forall e, In e (Lo_entry env ko false (SList false keys mn mx esfs) esfs keys (front ++ [mk_elem nm]) mk c3) <-> In e A') ->
              (forall q w, In (q, w) A' <-> del_in alts A q w) ->
              exists litems', nwf (SList false keys mn mx esfs) (TList es')
                /\ fl_entries env ko false (SList false keys mn mx esfs) esfs keys (front ++ [mk_elem nm]) es' = Ok litems'
                /\ forall q w, In (q, w) (L litems') <-> del_in alts (L litems) q w).
    { intros es' c3 A A' Hokb' Hf3 Hoth Hin' Hc3 HA HA' HAA.
      destruct (list_replace env fo ko false false keys mn mx esfs front nm es es' mk c3 litems ek fsm
                  Hgns Hn1 Hokb' Hf3 Hoth Hfl1 Hfsm Hcanon) as (O1 & litems' & Hlit' & HLl & HLl' & Hout1).
      { intros e3 He3. now destruct (Hc3 e3 He3) as (_ & _ & Hh). }
      exists litems'. split; [|split; [exact Hlit'|]].
      - apply nwf_list. split; [exact Hokb'|]. intros k e Hi. destruct (Hin' _ Hi) as [(e3 & He3 & [= -> ->])|Hi']; [|now apply Hent].
        destruct (Hc3 e3 He3) as ((efs' & -> & Hk3) & Hn3 & _). split; [eauto|exact Hn3].
      - intros q w. rewrite (HLl' (q, w)).
        assert (Hd : del_in alts (L litems) q w <-> del_in alts (A ++ O1) q w).
        { unfold del_in. rewrite (HLl (q, w)), !in_app_iff, (HA (q, w)). tauto. }
        rewrite Hd. rewrite in_app_iff, (HA' (q, w)), <- in_app_iff.
        apply (del_frame_in D alts A A' O1 Hai Hout1 HAA). }
    destruct (tl_find mk es) as [e|] eqn:Ef.
    - pose proof (tl_find_In _ _ _ Ef) as Hi. destruct (Hent _ _ Hi) as [(fsin & -> & Hkin) Hnin].
      (* the leaves of the selected entry *)
      assert (Hflin : exists eitems, FLv (SList false keys mn mx esfs) (TCont fsin) D = Ok eitems
                        /\ Lo_entry env ko false (SList false keys mn mx esfs) esfs keys (front ++ [mk_elem nm]) mk (Some (TCont fsin)) = L eitems).
      { rewrite fl_entries_concat in Hfl1. destruct (concatM_inv _ _ _ Hfl1 _ Hi) as (h & Hh). exists h.
        unfold Lo_entry. rewrite Hh. split; [|reflexivity].
        unfold fl_entry in Hh. cbn [snd fields_of] in Hh.
        rewrite (entry_key_strs_ok env fo ko esfs keys mk fsin Hkin), Hcanon in Hh. cbn [bind] in Hh.
        rewrite set_last_keys_snoc in Hh. cbn [bind ename mk_elem] in Hh. exact Hh. }
      destruct Hflin as (eitems & Hflin & HLin).
      unfold del_entry in Heq. destruct prest as [|e1 prest'].
      + (* the entry itself *)
        cbn [nil_b] in Heq. injection Heq as <-. rewrite (Hfinal eq_refl) in *.
        assert (P1 : keys_okb false (map fst (tl_remove mk es)) = true) by now apply tl_remove_okb.
        assert (P2 : tl_find mk (tl_remove mk es) = None) by (eapply tl_find_remove_same; eauto).
        assert (P3 : forall k, k <> mk -> tl_find k (tl_remove mk es) = tl_find k es) by (intros k Hk; now apply tl_find_remove_other).
        assert (P4 : forall x, In x (tl_remove mk es) -> (exists e3, @None tree = Some e3 /\ x = (mk, e3)) \/ In x es)
          by (intros x Hx; right; eapply tl_remove_In; eauto).
        assert (P5 : forall e3, @None tree = Some e3 -> (exists efs', e3 = TCont efs' /\ keys_ok esfs keys mk efs' = true) /\ nwf (SList false keys mn mx esfs) e3
                 /\ exists h3, fl_entry env ko false (SList false keys mn mx esfs) esfs keys (front ++ [mk_elem nm]) (mk, e3) = Ok h3)
          by (intros e3 [=]).
        assert (P6 : forall e0, In e0 (Lo_entry env ko false (SList false keys mn mx esfs) esfs keys (front ++ [mk_elem nm]) mk (Some (TCont fsin))) <-> In e0 (L eitems))
          by (intros e0; now rewrite HLin).
        assert (P7 : forall e0 : dpath * lval, In e0 (Lo_entry env ko false (SList false keys mn mx esfs) esfs keys (front ++ [mk_elem nm]) mk None) <-> In e0 [])
          by (intros e0; simpl; tauto).
        assert (P8 : forall q w, In (q, w) [] <-> del_in [D] (L eitems) q w).
        { intros q w. unfold del_in. split; [intros []|]. intros [Hq Hu].
          destruct (FL_extends env ko _ _ _ _ _ Hgns Hflin q w Hq) as (y & ->).
          unfold under in Hu. cbn [existsb] in Hu. unfold is_prefix in Hu. now rewrite (elems_prefix_refl_app D HparD y) in Hu. }
        destruct (Hfin (tl_remove mk es) None (L eitems) [] P1 P2 P3 P4 P5 P6 P7 P8) as (litems' & Hn3 & Hlit' & HLl).
        exists (tl_remove mk es), litems'. split; [reflexivity|]. split; [exact Hn3|]. split; [exact Hlit'|exact HLl].
      + cbn [nil_b] in Heq.
        destruct (DR f0 (SList false keys mn mx esfs) (Some (TCont fsin)) (e1 :: prest')) as [e' r] eqn:Er.
        assert (Hr : r = Ok tt) by (destruct r as [[]| |], e' as [e''|]; congruence). subst r.
        destruct (HE fsin eitems e' eq_refl ltac:(discriminate) Er Hflin) as (efs' & eitems' & -> & Hn3 & Hk3 & Hfl3 & HL3).
        assert (Hfe3 : fl_entry env ko false (SList false keys mn mx esfs) esfs keys (front ++ [mk_elem nm]) (mk, TCont efs') = Ok eitems').
        { unfold fl_entry. cbn [snd fields_of]. rewrite (entry_key_strs_ok env fo ko esfs keys mk efs' Hk3), Hcanon. cbn [bind].
          rewrite set_last_keys_snoc. cbn [bind ename mk_elem]. exact Hfl3. }
        assert (P6 : forall e0, In e0 (Lo_entry env ko false (SList false keys mn mx esfs) esfs keys (front ++ [mk_elem nm]) mk (Some (TCont fsin))) <-> In e0 (L eitems))
          by (intros e0; now rewrite HLin).
        destruct (Node.is_empty_cont (TCont efs')) eqn:Eem; injection Heq as <-.
        * assert (efs' = []) by (destruct efs'; [reflexivity|discriminate]). subst efs'.
          assert (Hnil : L eitems' = []).
          { rewrite FL_struct in Hfl3. cbn [concatM] in Hfl3. now injection Hfl3 as <-. }
          assert (P1 : keys_okb false (map fst (tl_remove mk es)) = true) by now apply tl_remove_okb.
          assert (P2 : tl_find mk (tl_remove mk es) = None) by (eapply tl_find_remove_same; eauto).
          assert (P3 : forall k, k <> mk -> tl_find k (tl_remove mk es) = tl_find k es) by (intros k Hk; now apply tl_find_remove_other).
          assert (P4 : forall x, In x (tl_remove mk es) -> (exists e3, @None tree = Some e3 /\ x = (mk, e3)) \/ In x es)
            by (intros x Hx; right; eapply tl_remove_In; eauto).
          assert (P5 : forall e3, @None tree = Some e3 -> (exists efs', e3 = TCont efs' /\ keys_ok esfs keys mk efs' = true) /\ nwf (SList false keys mn mx esfs) e3
                   /\ exists h3, fl_entry env ko false (SList false keys mn mx esfs) esfs keys (front ++ [mk_elem nm]) (mk, e3) = Ok h3)
            by (intros e3 [=]).
          assert (P7 : forall e0 : dpath * lval, In e0 (Lo_entry env ko false (SList false keys mn mx esfs) esfs keys (front ++ [mk_elem nm]) mk None) <-> In e0 (L eitems'))
            by (intros e0; rewrite Hnil; simpl; tauto).
          destruct (Hfin (tl_remove mk es) None (L eitems) (L eitems') P1 P2 P3 P4 P5 P6 P7 HL3) as (litems' & Hn3' & Hlit' & HLl).
          exists (tl_remove mk es), litems'. split; [reflexivity|]. split; [exact Hn3'|]. split; [exact Hlit'|exact HLl].
        * assert (P1 : keys_okb false (map fst (tl_insert mk (TCont efs') es)) = true) by now apply tl_insert_okb.
          assert (P2 : tl_find mk (tl_insert mk (TCont efs') es) = Some (TCont efs')) by apply tl_find_insert_same.
          assert (P3 : forall k, k <> mk -> tl_find k (tl_insert mk (TCont efs') es) = tl_find k es) by (intros k Hk; now apply tl_find_insert_other).
          assert (P4 : forall x, In x (tl_insert mk (TCont efs') es) -> (exists e3, Some (TCont efs') = Some e3 /\ x = (mk, e3)) \/ In x es).
          { intros x Hx. apply tl_insert_In in Hx as [->|Hx]; [left; eauto|now right]. }
          assert (P5 : forall e3, Some (TCont efs') = Some e3 -> (exists efs'0, e3 = TCont efs'0 /\ keys_ok esfs keys mk efs'0 = true) /\ nwf (SList false keys mn mx esfs) e3
                   /\ exists h3, fl_entry env ko false (SList false keys mn mx esfs) esfs keys (front ++ [mk_elem nm]) (mk, e3) = Ok h3).
          { intros e3 [= <-]. split; [eauto|]. split; [exact Hn3|eauto]. }
          assert (P7 : forall e0, In e0 (Lo_entry env ko false (SList false keys mn mx esfs) esfs keys (front ++ [mk_elem nm]) mk (Some (TCont efs'))) <-> In e0 (L eitems'))
            by (intros e0; unfold Lo_entry; rewrite Hfe3; tauto).
          destruct (Hfin (tl_insert mk (TCont efs') es) (Some (TCont efs')) (L eitems) (L eitems') P1 P2 P3 P4 P5 P6 P7 HL3) as (litems' & Hn3' & Hlit' & HLl).
          exists (tl_insert mk (TCont efs') es), litems'. split; [reflexivity|]. split; [exact Hn3'|]. split; [exact Hlit'|exact HLl].
    - injection Heq as <-.
      assert (P3 : forall k, k <> mk -> tl_find k es = tl_find k es) by reflexivity.
      assert (P4 : forall x, In x es -> (exists e3, @None tree = Some e3 /\ x = (mk, e3)) \/ In x es) by (intros x Hx; now right).
      assert (P5 : forall e3, @None tree = Some e3 -> (exists efs', e3 = TCont efs' /\ keys_ok esfs keys mk efs' = true) /\ nwf (SList false keys mn mx esfs) e3
               /\ exists h3, fl_entry env ko false (SList false keys mn mx esfs) esfs keys (front ++ [mk_elem nm]) (mk, e3) = Ok h3)
        by (intros e3 [=]).
      assert (P6 : forall e0 : dpath * lval, In e0 (Lo_entry env ko false (SList false keys mn mx esfs) esfs keys (front ++ [mk_elem nm]) mk None) <-> In e0 [])
        by (intros e0; simpl; tauto).
      assert (P8 : forall q w, In (q, w) [] <-> del_in alts [] q w) by (intros q w; unfold del_in; simpl; tauto).
      destruct (Hfin es None [] [] Hokb Ef P3 P4 P5 P6 P6 P8) as (litems' & Hn3 & Hlit' & HLl).
      exists es, litems'. split; [reflexivity|]. split; [exact Hn3|]. split; [exact Hlit'|exact HLl].
  Qed.

  Lemma del_struct_leaves : forall f s sfs fs p par c' g1 g2 ni kl items,
    c13_schemab s = true -> struct_schema s sfs -> nwf s (TCont fs) -> prefix_okb par = true -> p <> [] ->
    DR f s (Some (TCont fs)) p = (c', Ok tt) ->
    schema_at g1 s p par = Some ni -> ni_key_leaf ni = false ->
    sch_walk env fo ko g2 s p par = Some kl ->
    FLv s (TCont fs) par = Ok items ->
    del_concl s fs par ni items c'.
  Proof.
    induction f as [f IH] using lt_wf_ind.
    intros s sfs fs p par c' g1 g2 ni kl items Hc Hs Hn Hpar Hp Hdel Hsa Hnk Hwalk Hfl. unfold del_concl.
    destruct f as [|f']; [discriminate|]. destruct p as [|e0 prest]; [congruence|]. clear Hp.
    set (p := e0 :: prest) in *.
    pose proof (struct_schema_fields _ _ Hs) as Hsf.
    destruct (c13_schemab_parts s Hc) as (Hgn & Hsw & Hsp).
    destruct (gn_schemab_fields s Hgn) as [Hok Hchs]. rewrite Hsf in Hok, Hchs.
    destruct (swfb_fields s Hsw) as [Hnd Hsub]. rewrite Hsf in Hnd, Hsub.
    assert (Hunf : DR (S f') s (Some (TCont fs)) p = del_struct env fo ko false f' sfs fs p).
    { destruct Hs as [->|(o1 & k1 & a1 & b1 & ->)]; [apply del_rec_cont | apply del_rec_entry]. }
    rewrite Hunf in Hdel. clear Hunf.
    destruct g1 as [|g1]; [discriminate|]. destruct g2 as [|g2]; [discriminate|].
    destruct (find_field false false p sfs) as [fi ss alt [|]| |] eqn:E;
      try (rewrite schema_at_none in Hsa; [discriminate | discriminate | rewrite Hsf; intros ? ? ?; congruence]).
    destruct (find_field_facts p sfs fi ss alt Hok E) as (Hin & Halt & Haltne & Hpre & Hlen & Hfd).
    rewrite (schema_at_step g1 s p par fi ss alt) in Hsa by (discriminate || (rewrite Hsf; exact E)).
    rewrite (sch_walk_step env fo ko g2 s p par fi ss alt) in Hwalk by (discriminate || (rewrite Hsf; exact E)).
    cbv zeta in Hwalk.
    set (na := length alt) in *. set (ch := firstn na p) in *. set (ek := ekeys (last ch (mk_elem []))) in *.
    destruct (forallb (fun e => nil_b (ekeys e)) (removelast ch)) eqn:Hinner; [|discriminate]. cbn [negb] in Hwalk.
    destruct (walk_here env fo ko ss ek (length p) na (par ++ ch)) as [l|] eqn:Ehere; [|discriminate].
    destruct (c13_schemab_fields s Hc fi ss ltac:(rewrite Hsf; exact Hin)) as [Hcs Hone].
    destruct (c13_schemab_parts ss Hcs) as (Hgns & Hsws & _).
    pose proof Hn as Hn0. apply nwf_cont in Hn0. rewrite Hsf in Hn0.
    pose proof (cur_ok_field env fo ko sfs fs fi ss Hn0 Hin) as Hc0.
    assert (Hchn : pnames ch = alt) by (apply pnames_firstn_prefix; exact Hpre).
    assert (Hndf : NoDup (map fst fs)) by (eapply subseq_NoDup; [apply Hn0 | exact Hnd]).
    unfold del_struct in Hdel. rewrite Hfd in Hdel. cbv zeta in Hdel.
    set (c0 := field_get (f_go fi) fs) in *.
    (* a child that is absent stays absent *)
    assert (Habsent : forall alts, c0 = None -> is_key_field s (f_go fi) = false -> paths_inside (par ++ ch) alts ->
              del_res s fs par alts items (Some (TCont (put_field (go_names sfs) (f_go fi) (prune_child ss None) fs)))).
    { intros alts E0 Hnkf Hai.
      apply (struct_del_finish s sfs fs par fi ss alt ch alts items None Hgn Hs Hnd Hn Hin Halt Hchn Hnkf Hfl); auto.
      - intros x [=].
      - fold c0. rewrite E0. intros q w. unfold del_in. simpl. tauto. }
    (* a list whose entry the path element names *)
    assert (Hlistcase : forall keys mn mx esfs alts,
              ss = SList false keys mn mx esfs -> nil_b ek = false ->
              paths_inside (par ++ ch) alts -> (skipn na p = [] -> alts = [par ++ ch]) ->
              (forall f0 fsin eitems e', (f0 < S f')%nat -> nwf ss (TCont fsin) -> prefix_okb (par ++ ch) = true ->
                 skipn na p <> [] ->
                 DR f0 ss (Some (TCont fsin)) (skipn na p) = (e', Ok tt) -> FLv ss (TCont fsin) (par ++ ch) = Ok eitems ->
                 del_res ss fsin (par ++ ch) alts eitems e') ->
              del_res s fs par alts items c').
    { intros keys mn mx esfs alts -> Hekn Hai Hfinal HEc.
      destruct Hone as [Hone|(a1 & Hone)]; [discriminate|].
      assert (a1 = alt) by (rewrite Hone in Halt; destruct Halt as [<-|[]]; reflexivity). subst a1.
      assert (Hnkf : is_key_field s (f_go fi) = false).
      { eapply nonleaf_not_key; eauto. intros t d [=]. }
      destruct (swfb_fields _ Hsws) as [Hnde _]. cbn [sfields] in Hnde.
      destruct (list_keys_ok_inv _ _ (swfb_list_keys _ _ _ _ _ Hsws)) as (Hkne & Hkl & Hkd).
      destruct (gn_schemab_list _ _ _ _ _ Hgns) as (_ & Hdk & _ & _).
      destruct (walk_here_keys keys mn mx esfs ek (length p) na (par ++ ch) l Ehere Hekn Hnde Hkl)
        as (mk & Hsorted & Heklen & Hpk & ->).
      pose proof (canonical_keys env fo ko esfs ek keys mk Hdk Hpk Hsorted Heklen) as Hcanon.
      set (nm := last alt []) in *. set (front := par ++ path_of_names (removelast alt)) in *.
      assert (Hchs' : ch = path_of_names (removelast alt) ++ [{| ename := nm; ekeys := ek |}]) by (apply chunk_shape; auto).
      assert (Hdone' : par ++ ch = front ++ [{| ename := nm; ekeys := ek |}]) by (rewrite Hchs'; unfold front; now rewrite app_assoc).
      assert (Hp0 : hd [] (lib_paths false fi par) = front ++ [mk_elem nm]).
      { unfold lib_paths, tag_paths. cbn [andb]. rewrite Hone. cbn [map hd]. unfold front, nm.
        rewrite (removelast_last_names alt Haltne) at 1. now rewrite app_assoc. }
      assert (Hpar' : prefix_okb (par ++ ch) = true).
      { rewrite Hdone'. unfold front. rewrite !prefix_okb_app, Hpar, prefix_okb_names. cbn [prefix_okb forallb ekeys andb].
        rewrite andb_true_r. apply ssorted_nodup. now apply keys_sorted_ssorted. }
      assert (Hto : consumed (SList false keys mn mx esfs) alt = Nat.pred na) by reflexivity.
      rewrite Hto in Hdel.
      assert (Hne1 : Nat.eqb (length p) (Nat.pred na) = false).
      { apply Nat.eqb_neq. assert (na <> O) by (unfold na; destruct alt; [congruence|discriminate]). lia. }
      rewrite Hne1 in Hdel.
      assert (Hsk : skipn (Nat.pred na) p = {| ename := nm; ekeys := ek |} :: skipn na p).
      { apply (skipn_pred_chunk (path_of_names (removelast alt))); [exact Hlen | exact Hchs']. }
      rewrite Hsk in Hdel.
      destruct (DR f' (SList false keys mn mx esfs) c0 ({| ename := nm; ekeys := ek |} :: skipn na p)) as [cc r] eqn:Erec.
      injection Hdel as <- ->.
      destruct c0 as [x0|] eqn:Ec0.
      2:{ destruct f' as [|f0]; [discriminate|]. cbn [del_rec] in Erec. injection Erec as <-.
          apply (Habsent alts eq_refl Hnkf Hai). }
      destruct Hc0 as [Hn1 Hsh1]. destruct Hsh1 as [es ->].
      destruct f' as [|f0]; [discriminate|].
      pose proof Hn1 as Hn1'. apply nwf_list in Hn1' as [Hokb Hent].
      assert (Hfl1 : exists litems, fl_entries env ko false (SList false keys mn mx esfs) esfs keys (front ++ [mk_elem nm]) es = Ok litems
                       /\ Lo_field env ko false sfs par (f_go fi) (Some (TList es)) = L litems).
      { rewrite FL_struct, Hsf in Hfl. pose proof Ec0 as E0'. apply field_get_In in E0'.
        destruct (concatM_inv _ _ _ Hfl _ E0') as (h0 & Hh0). exists h0.
        unfold Lo_field. rewrite Hh0. unfold fl_field in Hh0. rewrite (find_go sfs fi _ Hnd Hin) in Hh0. cbv zeta in Hh0.
        rewrite Hp0 in Hh0. auto. }
      destruct Hfl1 as (litems & Hfl1 & HLc).
      rewrite Hdone' in Hai, Hfinal, HEc, Hpar'.
      destruct (del_list_step f0 keys mn mx esfs es front nm ek mk (skipn na p) alts cc litems
                  Hgns Hsws Hn1 Hpar' Hpk Hcanon Hai Hfinal Erec Hfl1) as (es' & litems' & -> & Hn3 & Hlit' & HLl).
      { intros fsin eitems e' Ef Hpne Hr Hflin. pose proof (tl_find_In _ _ _ Ef) as Hi.
        destruct (Hent _ _ Hi) as [(fs0 & [= <-] & Hkin) Hnin].
        destruct (HEc f0 fsin eitems e' ltac:(lia) Hnin Hpar' Hpne Hr Hflin) as (efs' & eitems' & -> & Hn3 & Hkeep & Hfl3 & HL3).
        exists efs', eitems'. split; [reflexivity|]. split; [exact Hn3|]. split; [eapply keys_ok_kept; eauto|]. auto. }
      rewrite <- Hdone' in Hai.
      apply (struct_del_finish s sfs fs par fi _ alt ch alts items (Some (TList es')) Hgn Hs Hnd Hn Hin Halt Hchn Hnkf Hfl); auto.
      - intros x [= <-]. split; [reflexivity|]. split; [exact Hn3|]. exists litems'.
        unfold fl_field. rewrite (find_go sfs fi _ Hnd Hin). cbv zeta. now rewrite Hp0.
      - fold c0. rewrite Ec0, HLc. intros q w.
        assert (E3 : Lo_field env ko false sfs par (f_go fi) (Some (TList es')) = L litems').
        { unfold Lo_field, fl_field. rewrite (find_go sfs fi _ Hnd Hin). cbv zeta. now rewrite Hp0, Hlit'. }
        rewrite E3. apply HLl. }
    destruct (Nat.eqb (length p) na) eqn:Elen.
    - (* ---------------- the target ---------------- *)
      apply Nat.eqb_eq in Elen. injection Hsa as <-. injection Hwalk as <-.
      assert (Hch : ch = p) by (unfold ch; apply firstn_all2; lia).
      assert (Hlastk : ekeys (last p (mk_elem [])) = ek) by (unfold ek; now rewrite Hch).
      assert (Hskip : skipn na p = []) by (apply skipn_all2; lia).
      destruct (is_keyed_list ss) eqn:Ekl.
      + (* ---- a list entry, or a whole (empty) list ---- *)
        destruct ss as [| | |ord keys mn mx esfs|]; try discriminate.
        destruct ord; [unfold walk_here in Ehere; discriminate|].
        assert (Hone' : f_paths fi = [alt]).
        { destruct Hone as [Hone|(a1 & Hone)]; [discriminate|]. rewrite Hone in Halt. destruct Halt as [<-|[]]. exact Hone. }
        assert (Halts : ni_alts (final_info s fi (SList false keys mn mx esfs) p par) = [par ++ ch]).
        { assert (Hchs0 : ch = path_of_names (removelast alt) ++ [{| ename := last alt []; ekeys := ek |}]) by (apply chunk_shape; auto).
          cbn [ni_alts final_info]. rewrite Hone', Hlastk. cbn [map]. f_equal. rewrite Hchs0.
          rewrite (removelast_last_names alt Haltne), keys_on_last_snoc. reflexivity. }
        rewrite Halts.
        assert (Hai : paths_inside (par ++ ch) [par ++ ch]).
        { intros a [<-|[]]. exists []. now rewrite app_nil_r. }
        destruct (nil_b ek) eqn:Hekn.
        * (* no keys: the list must be empty *)
          assert (Hnkf : is_key_field s (f_go fi) = false).
          { eapply nonleaf_not_key; eauto. intros t d [=]. }
          assert (Hchs' : ch = path_of_names (removelast alt) ++ [{| ename := last alt []; ekeys := ek |}]) by (apply chunk_shape; auto).
          assert (Hto : consumed (SList false keys mn mx esfs) alt = Nat.pred na) by reflexivity.
          rewrite Hto in Hdel.
          assert (Hne1 : Nat.eqb (length p) (Nat.pred na) = false).
          { apply Nat.eqb_neq. assert (na <> O) by (unfold na; destruct alt; [congruence|discriminate]). lia. }
          rewrite Hne1 in Hdel.
          rewrite (skipn_pred_chunk (path_of_names (removelast alt)) {| ename := last alt []; ekeys := ek |} p na Hlen Hchs'), Hskip in Hdel.
          destruct (DR f' (SList false keys mn mx esfs) c0 [{| ename := last alt []; ekeys := ek |}]) as [cc r] eqn:Erec.
          injection Hdel as <- ->.
          destruct c0 as [x0|] eqn:Ec0.
          2:{ destruct f' as [|f0]; [discriminate|]. cbn [del_rec] in Erec. injection Erec as <-.
              apply (Habsent [par ++ ch] eq_refl Hnkf Hai). }
          destruct Hc0 as [Hn1 Hsh1]. destruct Hsh1 as [es ->].
          destruct f' as [|f0]; [discriminate|].
          pose proof Hn1 as Hn1'. apply nwf_list in Hn1' as [Hokb Hent].
          rewrite del_rec_list in Erec.
          destruct (gn_schemab_list _ _ _ _ _ Hgns) as (Hkne & _).
          destruct (del_list_nokeys f0 _ keys esfs es _ [] cc Erec) as [-> ->].
          { cbn [ekeys]. destruct ek; [reflexivity|discriminate]. }
          { exact Hkne. }
          { intros k e Hi. destruct (Hent _ _ Hi) as [(fsk & _ & Hkk) _]. eapply keys_ok_length; eauto. }
          apply (struct_del_finish s sfs fs par fi _ alt ch [par ++ ch] items (Some (TList [])) Hgn Hs Hnd Hn Hin Halt Hchn Hnkf Hfl); auto.
          -- intros x [= <-]. split; [reflexivity|]. split; [exact Hn1|]. exists [].
             unfold fl_field. rewrite (find_go sfs fi _ Hnd Hin). reflexivity.
          -- fold c0. rewrite Ec0. intros q w. unfold del_in, Lo_field, fl_field. rewrite (find_go sfs fi _ Hnd Hin). simpl. tauto.
        * apply (Hlistcase keys mn mx esfs [par ++ ch] eq_refl eq_refl Hai (fun _ => eq_refl)).
          intros f0 fsin eitems e' _ _ _ Hne. congruence.
      + (* ---- a leaf, a leaf-list or a container: the field is removed ---- *)
        assert (Hek : nil_b ek = true).
        { unfold walk_here in Ehere. destruct ss as [| | |[|] ? ? ? ?|]; try discriminate; destruct (nil_b ek); try discriminate; reflexivity. }
        assert (Hpp : p = path_of_names alt) by (rewrite <- Hch; apply chunk_plain; auto).
        assert (Halts : ni_alts (final_info s fi ss p par) = lib_paths false fi par).
        { cbn [ni_alts final_info]. unfold lib_paths, tag_paths. cbn [andb]. apply map_ext. intros a.
          rewrite Hlastk. destruct ek; [|discriminate]. now rewrite keys_on_last_nil. }
        rewrite Halts.
        assert (Hto : consumed ss alt = na) by (unfold consumed; now rewrite Ekl).
        rewrite Hto, Elen, Nat.eqb_refl in Hdel. injection Hdel as <-.
        assert (Hnkf : is_key_field s (f_go fi) = false).
        { destruct (is_leafish ss) eqn:El; [eapply final_not_key; eauto|].
          eapply nonleaf_not_key; eauto. intros t d ->. discriminate. }
        destruct (struct_replace env fo ko false s sfs fs par fi ss None items Hgn Hs Hnd Hn Hin Hfl)
          as (O & items' & Hit' & HL & HL' & Hout); [intros x [=]|]. fold c0 in HL.
        exists (put_field (go_names sfs) (f_go fi) None fs), items'. split; [reflexivity|].
        split; [|split; [|split; [exact Hit'|]]].
        * apply (nwf_put_field env fo ko s sfs fs fi ss None Hs Hnd Hn Hin). intros x [=].
        * apply key_fields_kept. exact Hnkf.
        * assert (Hund : forall q w, In (q, w) O -> under (lib_paths false fi par) q = false).
          { intros q w Hq. unfold under. destruct (existsb (fun a => is_prefix a q) (lib_paths false fi par)) eqn:Eu; [|reflexivity].
            apply existsb_exists in Eu as (a & Ha & Hpa). unfold lib_paths in Ha. apply in_map_iff in Ha as (a0 & <- & Ha0).
            unfold is_prefix in Hpa.
            pose proof (Hout a0 (path_of_names a0) Ha0 (pnames_of_names a0) q w Hq []) as Ho. rewrite app_nil_r in Ho. congruence. }
          intros q w. rewrite (HL' (q, w)). unfold del_in. rewrite (HL (q, w)). cbn [Lo_field app]. rewrite in_app_iff. split.
          -- intros Ho. split; [now right | eapply Hund; eauto].
          -- intros [[Hq|Ho] Hu]; [|exact Ho]. exfalso.
             destruct c0 as [x0|] eqn:Ec0; [|destruct Hq]. destruct Hc0 as [Hn1 Hsh1]. rewrite <- Ekl in Hsh1. apply shape_kind2 in Hsh1.
             rewrite (field_leaves_under sfs par fi ss x0 Hok Hnd Hin Hgns Hpar Hsh1 Ekl q w Hq) in Hu. discriminate.
    - (* ---------------- on the way ---------------- *)
      apply Nat.eqb_neq in Elen.
      assert (Hskipne : skipn na p <> []).
      { intros Hk. apply skipn_nil_len in Hk. lia. }
      destruct (sch_walk env fo ko g2 ss (skipn na p) (par ++ ch)) as [r|] eqn:Er; [|discriminate].
      injection Hwalk as <-.
      assert (Hai : paths_inside (par ++ ch) (ni_alts ni)) by (eapply schema_at_inside; eauto).
      destruct ss as [t d|t mn mx|csfs|ord keys mn mx esfs|usfs];
        try (exfalso; (destruct g1; [discriminate|]);
             rewrite schema_at_none in Hsa; [discriminate | exact Hskipne | intros ? ? ? H; destruct (skipn na p); [congruence|discriminate H]]).
      + (* ---- a container ---- *)
        assert (Hek : nil_b ek = true).
        { unfold walk_here in Ehere. destruct (nil_b ek); [reflexivity|discriminate]. }
        assert (Hone' : f_paths fi = [alt]).
        { destruct Hone as [Hone|(a1 & Hone)]; [discriminate|]. rewrite Hone in Halt. destruct Halt as [<-|[]]. exact Hone. }
        assert (Hnkf : is_key_field s (f_go fi) = false).
        { eapply nonleaf_not_key; eauto. intros t d [=]. }
        assert (Hp0 : hd [] (lib_paths false fi par) = par ++ path_of_names alt).
        { unfold lib_paths, tag_paths. cbn [andb]. now rewrite Hone'. }
        assert (Hchp : ch = path_of_names alt) by (apply chunk_plain; auto).
        assert (Hpar' : prefix_okb (par ++ ch) = true) by (rewrite Hchp; now rewrite prefix_okb_app, Hpar, prefix_okb_names).
        assert (Hto : consumed (SCont csfs) alt = na) by reflexivity.
        rewrite Hto in Hdel. apply Nat.eqb_neq in Elen. rewrite Elen in Hdel.
        destruct (DR f' (SCont csfs) c0 (skipn na p)) as [cc r'] eqn:Erec. injection Hdel as <- ->.
        destruct c0 as [x0|] eqn:Ec0.
        2:{ destruct f' as [|f0]; [discriminate|]. destruct (skipn na p) as [|e1 pr]; [congruence|].
            cbn [del_rec] in Erec. injection Erec as <-. apply (Habsent (ni_alts ni) eq_refl Hnkf Hai). }
        destruct Hc0 as [Hn1 Hsh1]. destruct Hsh1 as [cfs ->].
        assert (Hfl1 : exists citems, FLv (SCont csfs) (TCont cfs) (par ++ ch) = Ok citems
                         /\ Lo_field env ko false sfs par (f_go fi) (Some (TCont cfs)) = L citems).
        { rewrite FL_struct, Hsf in Hfl. pose proof Ec0 as E0'. apply field_get_In in E0'.
          destruct (concatM_inv _ _ _ Hfl _ E0') as (h0 & Hh0). exists h0.
          unfold Lo_field. rewrite Hh0. unfold fl_field in Hh0. rewrite (find_go sfs fi _ Hnd Hin) in Hh0. cbv zeta in Hh0.
          rewrite Hp0, <- Hchp in Hh0. auto. }
        destruct Hfl1 as (citems & Hfl1 & HLc).
        destruct (IH f' ltac:(lia) (SCont csfs) csfs cfs (skipn na p) (par ++ ch) cc g1 g2 ni r citems
                    Hcs (or_introl eq_refl) Hn1 Hpar' Hskipne Erec Hsa Hnk Er Hfl1)
          as (cfs' & citems' & -> & Hn3 & _ & Hfl3 & HL3).
        apply (struct_del_finish s sfs fs par fi _ alt ch (ni_alts ni) items (Some (TCont cfs')) Hgn Hs Hnd Hn Hin Halt Hchn Hnkf Hfl); auto.
        * intros x [= <-]. split; [reflexivity|]. split; [exact Hn3|]. exists citems'.
          unfold fl_field. rewrite (find_go sfs fi _ Hnd Hin). cbv zeta. now rewrite Hp0, <- Hchp.
        * fold c0. rewrite Ec0, HLc. intros q w.
          assert (E3 : Lo_field env ko false sfs par (f_go fi) (Some (TCont cfs')) = L citems').
          { unfold Lo_field, fl_field. rewrite (find_go sfs fi _ Hnd Hin). cbv zeta. now rewrite Hp0, <- Hchp, Hfl3. }
          rewrite E3. apply HL3.
      + (* ---- a list ---- *)
        destruct ord; [unfold walk_here in Ehere; discriminate|].
        assert (Hekn : nil_b ek = false).
        { unfold walk_here in Ehere. destruct (nil_b ek); [|reflexivity]. apply Nat.eqb_neq in Elen. rewrite Elen in Ehere. discriminate. }
        apply (Hlistcase keys mn mx esfs (ni_alts ni) eq_refl Hekn Hai); [congruence|].
        intros f0 fsin eitems e' Hlt Hnin Hpar' Hne Hr Hflin.
        exact (IH f0 Hlt (SList false keys mn mx esfs) esfs fsin (skipn na p) (par ++ ch) e' g1 g2 ni r eitems
                 Hcs (or_intror (ex_intro _ false (ex_intro _ keys (ex_intro _ mn (ex_intro _ mx eq_refl)))))
                 Hnin Hpar' Hne Hr Hsa Hnk Er Hflin).
      + unfold walk_here in Ehere. discriminate.
  Qed.
End DelLeaves.
