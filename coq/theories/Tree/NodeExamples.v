(* NodeExamples.v — a small hand-written schema used by the non-vacuity examples of C10 and
   C12: a single-key list with a nested list, a multi-key list (string + enumeration keys), an
   ordered list, a leaf-list, a union leaf, a presence container.  Definitions only. *)
From Coq Require Import String Ascii.
From Ygot Require Import Tree.Tree Tree.Codec Tree.TreeOps Tree.Unmarshal Tree.KeyCodec Tree.Leaves Tree.Node Path.PathRel.

Local Open Scope string_scope.

Definition s_ (x : string) : str := List.map N_of_ascii (list_ascii_of_string x).

Definition mkf (go : string) (paths : list (list string)) (presence : bool) : finfo :=
  {| f_go := s_ go; f_paths := map (map s_) paths; f_mods := []; f_spaths := []; f_smods := [];
     f_presence := presence; f_cfg := true; f_case := [] |}.
(* a field with a shadow path (the state copy of a config leaf) *)
Definition mkfs (go : string) (paths spaths : list (list string)) : finfo :=
  {| f_go := s_ go; f_paths := map (map s_) paths; f_mods := []; f_spaths := map (map s_) spaths; f_smods := [];
     f_presence := false; f_cfg := true; f_case := [] |}.

Definition ex_env : enum_env :=
  [(s_ "E_AclType", [ {| ev_num := 1; ev_name := s_ "ACL_IPV4"; ev_mod := s_ "acl" |};
                      {| ev_num := 2; ev_name := s_ "ACL_IPV6"; ev_mod := s_ "acl" |} ])].
Definition ex_fo : float_oracle := mk_float_oracle [] [].
Definition ex_ko : key_oracle := mk_key_oracle [] [] true.

Definition ex_subif : schema :=
  SList false [s_ "index"] 0 0
    [ (mkf "Index" [["config";"index"];["index"]] false, SLeaf (YInt U32 []) []);
      (mkfs "Descr" [["config";"description"]] [["state";"description"]], SLeaf (YStr [] 0) []) ].
Definition ex_iface : schema :=
  SList false [s_ "name"] 0 0
    [ (mkf "Name" [["config";"name"];["name"]] false, SLeaf (YStr [] 0) []);
      (mkf "Mtu" [["config";"mtu"]] false, SLeaf (YInt U16 []) []);
      (mkf "Subif" [["subinterfaces";"subinterface"]] false, ex_subif) ].
Definition ex_acl : schema :=
  SList false [s_ "name"; s_ "type"] 0 0
    [ (mkf "Name" [["config";"name"];["name"]] false, SLeaf (YStr [] 0) []);
      (mkf "Type" [["config";"type"];["type"]] false, SLeaf (YIdref (s_ "E_AclType")) []);
      (mkf "Descr" [["config";"description"]] false, SLeaf (YStr [] 0) []) ].
Definition ex_rule : schema :=
  SList true [s_ "seq"] 0 0
    [ (mkf "Seq" [["config";"seq"];["seq"]] false, SLeaf (YInt U32 []) []);
      (mkf "Action" [["config";"action"]] false, SLeaf (YStr [] 0) []) ].
Definition ex_ntp : schema :=
  SCont [ (mkf "Enabled" [["enabled"]] false, SLeaf YBool []) ].
Definition ex_sys : schema :=
  SCont [ (mkf "Hostname" [["config";"hostname"]] false, SLeaf (YStr [] 0) []);
          (mkf "Ntp" [["ntp"]] true, ex_ntp) ].
Definition ex_schema : schema :=
  SCont [ (mkf "Mode" [["mode"]] false, SLeaf (YUnion [YInt I8 []; YStr [] 0]) []);
          (mkf "Tags" [["tags"]] false, SLeafList (YStr [] 0) 0 0);
          (mkf "System" [["system"]] false, ex_sys);
          (mkf "Iface" [["interfaces";"interface"]] false, ex_iface);
          (mkf "Acl" [["acls";"acl"]] false, ex_acl);
          (mkf "Rule" [["rules";"rule"]] false, ex_rule) ].

Definition el (n : string) : pelem := {| ename := s_ n; ekeys := [] |}.
Definition elk (n : string) (ks : list (string * string)) : pelem :=
  {| ename := s_ n; ekeys := map (fun kv => (s_ (fst kv), s_ (snd kv))) ks |}.

Definition ex_if_entry (name : string) (mtu : Z) : list scalar * tree :=
  ([VStr (s_ name)], TCont [(s_ "Name", TLeaf (VStr (s_ name))); (s_ "Mtu", TLeaf (VInt U16 mtu))]).
Definition ex_tree : tree :=
  TCont [ (s_ "Mode", TLeaf (VInt I8 3));
          (s_ "Tags", TLeafList [VStr (s_ "a"); VStr (s_ "b")]);
          (s_ "System", TCont [(s_ "Hostname", TLeaf (VStr (s_ "r1")));
                               (s_ "Ntp", TCont [(s_ "Enabled", TLeaf (VBool true))])]);
          (s_ "Iface", TList [ex_if_entry "eth0" 1500; ex_if_entry "eth1" 9000]);
          (s_ "Acl", TList [([VStr (s_ "a1"); VEnum (s_ "E_AclType") 1],
                             TCont [(s_ "Name", TLeaf (VStr (s_ "a1")));
                                    (s_ "Type", TLeaf (VEnum (s_ "E_AclType") 1));
                                    (s_ "Descr", TLeaf (VStr (s_ "first")))])]);
          (s_ "Rule", TList [([VInt U32 20], TCont [(s_ "Seq", TLeaf (VInt U32 20)); (s_ "Action", TLeaf (VStr (s_ "deny")))]);
                              ([VInt U32 10], TCont [(s_ "Seq", TLeaf (VInt U32 10)); (s_ "Action", TLeaf (VStr (s_ "permit")))])]) ].

Definition ex_get : get_opts := {| g_partial := false; g_wild := false; g_tolerate_nil := true; g_shadow := false |}.
Definition ex_set : set_opts := {| s_init := true; s_tol_json := false; s_shadow := false; s_ignore_extra := false |}.

(* paths *)
Definition p_mode : dpath := [el "mode"].
Definition p_tags : dpath := [el "tags"].
Definition p_hostname : dpath := [el "system"; el "config"; el "hostname"].
Definition p_ntp_enabled : dpath := [el "system"; el "ntp"; el "enabled"].
Definition p_mtu (n : string) : dpath := [el "interfaces"; elk "interface" [("name", n)]; el "config"; el "mtu"].
Definition p_if (n : string) : dpath := [el "interfaces"; elk "interface" [("name", n)]].
Definition p_subdescr (n i : string) : dpath :=
  [el "interfaces"; elk "interface" [("name", n)]; el "subinterfaces"; elk "subinterface" [("index", i)]; el "config"; el "description"].
Definition p_acl_descr (n t : string) : dpath :=
  [el "acls"; elk "acl" [("type", t); ("name", n)]; el "config"; el "description"].
Definition p_rule_action (s : string) : dpath := [el "rules"; elk "rule" [("seq", s)]; el "config"; el "action"].
