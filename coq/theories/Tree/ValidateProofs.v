(* ValidateProofs.v — what ytypes.Validate (Tree/Validate.v: validate) decides, against the
   declarative validity validb:

     validate_exact : schema_ok fx s ->
        (validb env cfg s t = true <-> validate_node fx env false cfg s t = [] /\ tree_ok fx env cfg s t = true)

   i.e. Validate accepts exactly the valid trees once the checks it does not make (tree_ok: enum /
   identity values defined, configuration leaf-lists duplicate free, leaf-list min/max-elements,
   no UNSET enum list key) are added, for schemas without the three constructs it mishandles
   (schema_ok).  Both directions are by induction over arbitrary trees. *)
From Ygot Require Import Tree.Tree Tree.TreeOps Tree.Codec Tree.CodecProofs Tree.Validate.

(* ---------- induction principles for the nested inductives ---------- *)

Section TreeInd.
  Variable P : tree -> Prop.
  Hypothesis Hleaf : forall v, P (TLeaf v).
  Hypothesis Hll : forall vs, P (TLeafList vs).
  Hypothesis Hcont : forall fs, Forall (fun nt => P (snd nt)) fs -> P (TCont fs).
  Hypothesis Hlist : forall es, Forall (fun ke => P (snd ke)) es -> P (TList es).
  Hypothesis Hunk : forall es, Forall P es -> P (TUnkeyed es).
  Fixpoint tree_ind2 (t : tree) : P t :=
    match t with
    | TLeaf v => Hleaf v
    | TLeafList vs => Hll vs
    | TCont fs => Hcont fs ((fix go (l : list (str * tree)) : Forall (fun nt => P (snd nt)) l :=
                               match l with
                               | [] => Forall_nil _
                               | x :: r => Forall_cons x (tree_ind2 (snd x)) (go r)
                               end) fs)
    | TList es => Hlist es ((fix go (l : list (list scalar * tree)) : Forall (fun ke => P (snd ke)) l :=
                               match l with
                               | [] => Forall_nil _
                               | x :: r => Forall_cons x (tree_ind2 (snd x)) (go r)
                               end) es)
    | TUnkeyed es => Hunk es ((fix go (l : list tree) : Forall P l :=
                                 match l with
                                 | [] => Forall_nil _
                                 | x :: r => Forall_cons x (tree_ind2 x) (go r)
                                 end) es)
    end.
End TreeInd.

Section YtypeInd.
  Variable P : ytype -> Prop.
  Hypothesis Hint : forall k rs, P (YInt k rs).
  Hypothesis Hdec : forall f, P (YDec f).
  Hypothesis Hstr : forall l n, P (YStr l n).
  Hypothesis Hbin : forall l, P (YBin l).
  Hypothesis Hbool : P YBool.
  Hypothesis Hempty : P YEmpty.
  Hypothesis Henum : forall ty, P (YEnum ty).
  Hypothesis Hidref : forall ty, P (YIdref ty).
  Hypothesis Hunion : forall ms, Forall P ms -> P (YUnion ms).
  Hypothesis Hlref : forall t, P t -> P (YLeafref t).
  Fixpoint ytype_ind2 (t : ytype) : P t :=
    match t with
    | YInt k rs => Hint k rs | YDec f => Hdec f | YStr l n => Hstr l n | YBin l => Hbin l
    | YBool => Hbool | YEmpty => Hempty | YEnum ty => Henum ty | YIdref ty => Hidref ty
    | YUnion ms => Hunion ms ((fix go (l : list ytype) : Forall P l :=
                                 match l with
                                 | [] => Forall_nil _
                                 | x :: r => Forall_cons x (ytype_ind2 x) (go r)
                                 end) ms)
    | YLeafref t' => Hlref t' (ytype_ind2 t')
    end.
End YtypeInd.

(* ---------- small facts ---------- *)

Lemma flat_map_nil_iff {A B} (f : A -> list B) l : flat_map f l = [] <-> forall x, In x l -> f x = [].
Proof.
  induction l as [|a l IH]; simpl.
  - split; [intros _ x []|reflexivity].
  - split.
    + intros H. apply app_eq_nil in H as [H1 H2]. intros x [<-|Hx]; [assumption|]. now apply IH.
    + intros H. rewrite (H a (or_introl eq_refl)). simpl. apply IH. intros x Hx. apply H. now right.
Qed.

Lemma existsb_ext_in {A} (f g : A -> bool) l : (forall x, In x l -> f x = g x) -> existsb f l = existsb g l.
Proof.
  induction l as [|a l IH]; simpl; intros H; [reflexivity|].
  rewrite (H a (or_introl eq_refl)), IH; [reflexivity|]. intros x Hx. apply H. now right.
Qed.

Lemma existsb_flat_map {A B} (f : A -> list B) (p : B -> bool) l :
  existsb p (flat_map f l) = existsb (fun x => existsb p (f x)) l.
Proof. induction l as [|a l IH]; simpl; [reflexivity|]. now rewrite existsb_app, IH. Qed.

Lemma resolve_not_lref t : is_lref (resolve_lref t) = false.
Proof. induction t using ytype_ind2; simpl; auto. Qed.

Lemma flat_union_no_union t : forall m, In m (flat_union t) -> match m with YUnion _ => False | _ => True end.
Proof.
  induction t using ytype_ind2; simpl; intros m Hm;
    try (destruct Hm as [<-|[]]; exact I).
  apply in_flat_map in Hm as (x & Hx & Hm). rewrite Forall_forall in H. exact (H x Hx m Hm).
Qed.

(* ---------- value spaces ---------- *)

Section Leaf.
  Variable fx : vfix.
  Variable env : enum_env.
  Notation validate_simple := (validate_simple fx env).
  Notation validate_leaf := (validate_leaf fx env).
  Notation first_accepting := (first_accepting fx env).
  Notation leaf_ok := (leaf_ok fx env).
  Notation leaf_enum_defined := (leaf_enum_defined fx env).

  Lemma in_space_resolve t v : in_space env (resolve_lref t) v = in_space env t v.
  Proof. induction t using ytype_ind2; simpl; auto. Qed.

  Lemma in_space_flat t v : in_space env t v = existsb (fun m => in_space env m v) (flat_union t).
  Proof.
    induction t using ytype_ind2; try (simpl; now rewrite orb_false_r).
    - cbn [in_space flat_union]. rewrite existsb_flat_map. apply existsb_ext_in.
      intros x Hx. rewrite Forall_forall in H. now apply H.
  Qed.

  (* a member that is not a union: being in its space fixes the Go kind and passes validate_simple *)
  Lemma in_space_simple_accepts m v :
    is_lref m = false -> match m with YUnion _ => False | _ => True end ->
    in_space env m v = true -> kind_matches v m = true /\ validate_simple m v = [] /\ direct_ok m v = true /\ typed_simple m v = true.
  Proof.
    intros Hl Hu H. destruct m; try discriminate Hl; try contradiction; destruct v; simpl in H; try discriminate H.
    - (* int *)
      apply andb_true_iff in H as [H H4]. apply andb_true_iff in H as [H H3]. apply andb_true_iff in H as [H1 H2].
      unfold kind_matches. simpl. rewrite H1, H2, H3, H4. repeat split; reflexivity.
    - repeat split; reflexivity.
    - unfold kind_matches. simpl. rewrite H. repeat split; reflexivity.
    - apply andb_true_iff in H as [H1 H2]. unfold kind_matches. simpl. rewrite H1, H2. repeat split; reflexivity.
    - repeat split; reflexivity.
    - repeat split; reflexivity.
    - apply andb_true_iff in H as [H1 H2]. unfold kind_matches. simpl. rewrite H1.
      apply cstr_eqb_eq in H1. subst ty0. rewrite H2. simpl. rewrite !andb_false_r. repeat split; reflexivity.
    - apply andb_true_iff in H as [H1 H2]. unfold kind_matches. simpl. rewrite H1.
      apply cstr_eqb_eq in H1. subst ty0. rewrite H2. simpl. rewrite !andb_false_r. repeat split; reflexivity.
  Qed.

  Lemma direct_ok_union ms v : direct_ok (YUnion ms) v = true.
  Proof. now destruct v. Qed.

  (* completeness at a leaf *)
  Lemma validate_leaf_complete t v :
    type_ok t = true -> in_space env t v = true -> validate_leaf t v = [] /\ leaf_ok t v = true.
  Proof.
    intros Hok H. unfold type_ok in Hok. apply andb_true_iff in Hok as [Hnl _].
    rewrite forallb_forall in Hnl.
    assert (Hty : leaf_typed t v = true /\ validate_leaf t v = []).
    { unfold validate_leaf, leaf_typed. rewrite <- in_space_resolve in H.
      set (r := resolve_lref t) in *.
      rewrite in_space_flat in H. apply existsb_exists in H as (m & Hm & Hs).
      pose proof (flat_union_no_union r m Hm) as Hnu.
      assert (Hl : is_lref m = false) by (apply negb_true_iff; now apply Hnl).
      destruct (in_space_simple_accepts m v Hl Hnu Hs) as (Hk & Hv & Hd & Ht).
      split; [apply existsb_exists; eauto|].
      destruct r eqn:Er; try (simpl in Hm; destruct Hm as [<-|[]]; rewrite Hd; simpl; exact Hv).
      - rewrite direct_ok_union. cbn [negb].
        destruct (filter (kind_matches v) (flat_union (YUnion ms))) as [|a l] eqn:Ef.
        + assert (Hin : In m (filter (kind_matches v) (flat_union (YUnion ms)))) by (apply filter_In; auto).
          rewrite Ef in Hin. destruct Hin.
        + rewrite <- Ef. unfold first_accepting.
          assert (existsb (fun m0 => nil_b (validate_simple m0 v)) (filter (kind_matches v) (flat_union (YUnion ms))) = true) as ->.
          { apply existsb_exists. exists m. split; [apply filter_In; auto|]. now rewrite Hv. }
          reflexivity. }
    destruct Hty as [Ht Hv]. split; [assumption|]. unfold Validate.leaf_ok. rewrite Ht. simpl.
    unfold Validate.leaf_enum_defined. destruct v; try reflexivity. rewrite H. apply orb_true_r.
  Qed.

  (* soundness at a leaf *)
  Lemma first_accepting_nil ms v :
    ms <> [] -> first_accepting ms v = [] -> exists m, In m ms /\ validate_simple m v = [].
  Proof.
    intros Hne H. unfold first_accepting in H.
    destruct (existsb (fun m => nil_b (validate_simple m v)) ms) eqn:E.
    - apply existsb_exists in E as (m & Hm & Hn). exists m. split; [assumption|].
      now destruct (validate_simple m v).
    - destruct ms as [|a l]; [congruence|]. simpl in H, E. apply orb_false_iff in E as [E _].
      apply app_eq_nil in H as [H _]. rewrite H in E. discriminate.
  Qed.

  Lemma validate_leaf_nil_member t v :
    validate_leaf t v = [] ->
    exists m, In m (flat_union (resolve_lref t)) /\ validate_simple m v = [].
  Proof.
    unfold validate_leaf. set (r := resolve_lref t).
    destruct (negb (direct_ok r v)); [discriminate|].
    pose proof (resolve_not_lref t) as Hr. fold r in Hr.
    destruct r eqn:Er; try discriminate Hr;
      try (intros H; eexists; split; [simpl; left; reflexivity|exact H]).
    destruct (filter (kind_matches v) (flat_union (YUnion ms))) as [|a l] eqn:Ef; [discriminate|].
    rewrite <- Ef. intros H. apply first_accepting_nil in H; [|rewrite Ef; discriminate].
    destruct H as (m & Hm & Hv). apply filter_In in Hm as [Hm _]. eauto.
  Qed.

  (* m accepts v, m' is the Go type of v: one of the two has v in its value space, unless an
     enumeration member swallowed an int64 *)
  Lemma accept_typed m m' v :
    (forall ty n, v <> VEnum ty n) ->
    validate_simple m v = [] -> typed_simple m' v = true ->
    is_enumty m && is_int64ty m' = false ->
    in_space env m v = true \/ in_space env m' v = true.
  Proof.
    intros Hne Ha Ht Hmix.
    destruct v as [k z|s0|b|bits|bs| |ety n]; [| | | | | |now destruct (Hne ety n)].
    - (* VInt *)
      destruct m' as [k' rs'| | | | | | | | |]; try discriminate Ht. simpl in Ht.
      apply andb_true_iff in Ht as [Ht B2]. apply andb_true_iff in Ht as [Ek' B1].
      apply ikind_eqb_eq in Ek'. subst k'.
      destruct m as [k0 rs| | | | | |ty|ty| |]; simpl in Ha; try discriminate Ha.
      + destruct (ikind_eqb k0 k) eqn:Ek; [|discriminate]. apply ikind_eqb_eq in Ek. subst k0.
        destruct (in_ranges rs z) eqn:Er; [|discriminate]. left. simpl.
        now rewrite ikind_eqb_refl, B1, B2, Er.
      + destruct k; try discriminate Ha. discriminate Hmix.
      + destruct k; try discriminate Ha. discriminate Hmix.
    - destruct m; simpl in Ha; try discriminate Ha. left. simpl. now destruct (in_lens lens (nlen s0)).
    - destruct m; simpl in Ha; try discriminate Ha. now left.
    - destruct m; simpl in Ha; try discriminate Ha. now left.
    - destruct m; simpl in Ha; try discriminate Ha. destruct m'; try discriminate Ht. simpl in Ht.
      left. simpl. rewrite Ht. now destruct (in_lens lens (nlen bs)).
    - destruct m'; try discriminate Ht. now right.
  Qed.

  (* with the repair fx_enum: an accepted enumeration value other than 0 is defined *)
  Lemma accept_typed_enum m m' ty n :
    fx_enum fx = true -> (n =? 0)%Z = false ->
    validate_simple m (VEnum ty n) = [] -> typed_simple m' (VEnum ty n) = true ->
    is_enumty m' && is_int64ty m = false ->
    in_space env m' (VEnum ty n) = true.
  Proof.
    intros Hfx Hn Ha Ht Hmix.
    assert (Hm' : is_enumty m' = true /\ in_space env m' (VEnum ty n) = is_some (enum_by_num (enum_table env ty) n)).
    { destruct m'; try discriminate Ht; simpl in Ht; apply cstr_eqb_eq in Ht; subst; simpl;
        rewrite cstr_eqb_refl; auto. }
    destruct Hm' as [He ->]. rewrite He in Hmix. simpl in Hmix.
    destruct m; simpl in Ha; try discriminate Ha.
    - destruct k; try discriminate Ha. discriminate Hmix.
    - rewrite Hfx, Hn in Ha. simpl in Ha. now destruct (is_some (enum_by_num (enum_table env ty) n)).
    - rewrite Hfx, Hn in Ha. simpl in Ha. now destruct (is_some (enum_by_num (enum_table env ty) n)).
  Qed.

  Lemma validate_leaf_sound t v :
    type_ok t = true -> leaf_ok t v = true -> validate_leaf t v = [] -> in_space env t v = true.
  Proof.
    intros Hok Hl Hv. unfold Validate.leaf_ok in Hl. apply andb_true_iff in Hl as [Hty Hen].
    destruct (match v with VEnum _ _ => true | _ => false end) eqn:Ev.
    { destruct v as [| | | | | |ety n]; try discriminate Ev. simpl in Hen.
      apply orb_true_iff in Hen as [Hen|Hen]; [|exact Hen].
      apply andb_true_iff in Hen as [Hfx Hn]. apply negb_true_iff in Hn.
      rewrite <- in_space_resolve.
      apply validate_leaf_nil_member in Hv as (m & Hm & Ha).
      unfold leaf_typed in Hty. apply existsb_exists in Hty as (m' & Hm' & Ht').
      unfold type_ok in Hok. apply andb_true_iff in Hok as [_ Hmix].
      rewrite in_space_flat. apply existsb_exists. exists m'. split; [assumption|].
      apply (accept_typed_enum m m' ety n Hfx Hn Ha Ht').
      apply negb_true_iff, andb_false_iff in Hmix.
      destruct (is_enumty m') eqn:E1; [|reflexivity]. destruct (is_int64ty m) eqn:E2; [|reflexivity].
      destruct Hmix as [Hx|Hx].
      - assert (existsb is_enumty (flat_union (resolve_lref t)) = true) by (apply existsb_exists; eauto). congruence.
      - assert (existsb is_int64ty (flat_union (resolve_lref t)) = true) by (apply existsb_exists; eauto). congruence. }
    clear Hen. rewrite <- in_space_resolve.
    apply validate_leaf_nil_member in Hv as (m & Hm & Ha).
    unfold leaf_typed in Hty. apply existsb_exists in Hty as (m' & Hm' & Ht').
    unfold type_ok in Hok. apply andb_true_iff in Hok as [_ Hmix].
    set (r := resolve_lref t) in *.
    rewrite in_space_flat. apply existsb_exists.
    assert (Hx : is_enumty m && is_int64ty m' = false).
    { apply negb_true_iff, andb_false_iff in Hmix.
      destruct (is_enumty m) eqn:E1; [|reflexivity]. destruct (is_int64ty m') eqn:E2; [|reflexivity].
      destruct Hmix as [Hx|Hx].
      - assert (existsb is_enumty (flat_union r) = true) by (apply existsb_exists; eauto). congruence.
      - assert (existsb is_int64ty (flat_union r) = true) by (apply existsb_exists; eauto). congruence. }
    destruct (accept_typed m m' v) as [H|H]; try assumption; eauto.
    intros ty n ->. discriminate Ev.
  Qed.
End Leaf.

(* ---------- choices ---------- *)

Lemma dedup_str_In x l : In x (dedup_str l) <-> In x l.
Proof.
  induction l as [|a l IH]; simpl; [tauto|].
  destruct (existsb (str_eqb a) l) eqn:E.
  - rewrite IH. split; [auto|]. intros [<-|H]; [|assumption].
    apply existsb_exists in E as (y & Hy & Hxy). apply cstr_eqb_eq in Hxy. now subst.
  - simpl. rewrite IH. tauto.
Qed.

Lemma dedup_str_NoDup l : NoDup (dedup_str l).
Proof.
  induction l as [|a l IH]; simpl; [constructor|].
  destruct (existsb (str_eqb a) l) eqn:E; [assumption|].
  constructor; [|assumption]. rewrite dedup_str_In. intros Hin.
  assert (existsb (str_eqb a) l = true) by (apply existsb_exists; exists a; split; [assumption|apply cstr_eqb_refl]).
  congruence.
Qed.

Lemma filter_le1 {A} (P : A -> bool) l :
  NoDup l -> (length (filter P l) <= 1)%nat <-> (forall a b, In a l -> In b l -> P a = true -> P b = true -> a = b).
Proof.
  intros Hnd. split.
  - intros Hlen a b Ha Hb Pa Pb.
    assert (Ia : In a (filter P l)) by (apply filter_In; auto).
    assert (Ib : In b (filter P l)) by (apply filter_In; auto).
    destruct (filter P l) as [|x [|y r]]; simpl in *; try lia; try tauto.
    destruct Ia as [<-|[]], Ib as [<-|[]]. reflexivity.
  - intros H. assert (Hnf : NoDup (filter P l)) by now apply NoDup_filter.
    destruct (filter P l) as [|x [|y r]] eqn:E; simpl; try lia.
    exfalso. assert (Ix : In x (filter P l)) by (rewrite E; simpl; auto).
    assert (Iy : In y (filter P l)) by (rewrite E; simpl; auto).
    apply filter_In in Ix as [Ix Px], Iy as [Iy Py].
    assert (x = y) by now apply H. subst. inversion Hnf as [|? ? Hn _]. apply Hn. now left.
Qed.

Lemma filter_map_length {A B} (g : A -> B) (P : B -> bool) l :
  length (filter P (map g l)) = length (filter (fun x => P (g x)) l).
Proof. induction l as [|a l IH]; simpl; [reflexivity|]. destruct (P (g a)); simpl; now rewrite IH. Qed.

Lemma flat_map_map {A B C} (g : A -> B) (f : B -> list C) l : flat_map f (map g l) = flat_map (fun x => f (g x)) l.
Proof. induction l as [|a l IH]; simpl; [reflexivity|]. now rewrite IH. Qed.

Lemma flat_map_all_nil {A B} (f : A -> list B) l : (forall x, f x = []) -> flat_map f l = [].
Proof. intros H. apply flat_map_nil_iff. auto. Qed.

Section Choices.
  Variable fx : vfix.
  Variable sfs : list (finfo * schema).
  Variable fs : list (str * tree).
  Hypothesis Hflat : cases_flat sfs = true.

  Lemma fcase_shape x : In x sfs -> f_case (fst x) = [] \/ exists a b, f_case (fst x) = [a; b].
  Proof.
    intros Hx. unfold cases_flat in Hflat. rewrite forallb_forall in Hflat. specialize (Hflat x Hx).
    destruct (f_case (fst x)) as [|a [|b [|c r]]]; try discriminate; eauto.
  Qed.

  Lemma names_below_In p c :
    In c (names_below sfs p) <->
    exists x, In x sfs /\ is_prefix p (f_case (fst x)) = true /\ exists r, skipn (length p) (f_case (fst x)) = c :: r.
  Proof.
    unfold names_below. rewrite dedup_str_In, in_flat_map. split.
    - intros (x & Hx & Hc). exists x. split; [assumption|].
      destruct (is_prefix p (f_case (fst x))); [|destruct Hc]. split; [reflexivity|].
      destruct (skipn (length p) (f_case (fst x))) as [|y r]; [destruct Hc|]. destruct Hc as [<-|[]]. eauto.
    - intros (x & Hx & Hp & r & Hs). exists x. split; [assumption|]. rewrite Hp, Hs. now left.
  Qed.

  Lemma names_below_case ch c : names_below sfs [ch; c] = [].
  Proof.
    unfold names_below. rewrite (proj2 (flat_map_nil_iff _ sfs)); [reflexivity|].
    intros x Hx. destruct (fcase_shape x Hx) as [E|(a & b & E)]; rewrite E; simpl; [reflexivity|].
    now destruct (str_eqb ch a && (str_eqb c b && true)).
  Qed.

  Definition sel_case (ch c : str) : bool := negb (nil_b (selected_below sfs fs [ch; c])).

  Lemma sel_case_iff ch c :
    sel_case ch c = true <->
    exists x, In x sfs /\ f_case (fst x) = [ch; c] /\ is_set fs (f_go (fst x)) = true.
  Proof.
    unfold sel_case, selected_below. split.
    - intros H. destruct (filter _ sfs) as [|x r] eqn:E; [discriminate|].
      assert (Hin : In x (filter (fun x0 => is_prefix [ch; c] (f_case (fst x0)) && is_set fs (f_go (fst x0))) sfs))
        by (rewrite E; now left).
      apply filter_In in Hin as [Hx Hp]. apply andb_true_iff in Hp as [Hp Hs].
      exists x. split; [assumption|]. split; [|assumption].
      destruct (fcase_shape x Hx) as [E0|(a & b & E0)]; rewrite E0 in *; simpl in Hp; [discriminate|].
      apply andb_true_iff in Hp as [H1 H2]. apply andb_true_iff in H2 as [H2 _].
      apply cstr_eqb_eq in H1, H2. now subst.
    - intros (x & Hx & Hc & Hs).
      assert (Hin : In x (filter (fun x0 => is_prefix [ch; c] (f_case (fst x0)) && is_set fs (f_go (fst x0))) sfs)).
      { apply filter_In. split; [assumption|]. rewrite Hc, Hs. simpl. now rewrite !cstr_eqb_refl. }
      destruct (filter _ sfs); [destruct Hin|reflexivity].
  Qed.

  Lemma validate_choice_flat f ch :
    snd (validate_choice fx (S f) sfs fs [ch]) =
    if Nat.ltb 1 (length (filter (sel_case ch) (names_below sfs [ch]))) then [EChoice] else [].
  Proof.
    cbn [validate_choice snd].
    rewrite (map_ext _ (fun c => (selected_below sfs fs [ch; c], @nil verr))).
    2:{ intros c. cbn [app]. now rewrite names_below_case. }
    rewrite flat_map_map. cbn [snd]. rewrite flat_map_all_nil by reflexivity. cbn [app].
    rewrite filter_map_length. reflexivity.
  Qed.

  Lemma validate_choices_flat :
    validate_choices fx sfs fs = [] <->
    forall ch, In ch (names_below sfs []) -> (length (filter (sel_case ch) (names_below sfs [ch])) <= 1)%nat.
  Proof.
    unfold validate_choices, choice_depth. rewrite flat_map_nil_iff. split; intros H ch Hch; specialize (H ch Hch).
    - rewrite validate_choice_flat in H.
      destruct (Nat.ltb 1 _) eqn:E; [discriminate|]. apply Nat.ltb_ge in E. exact E.
    - rewrite validate_choice_flat. apply Nat.ltb_ge in H. now rewrite H.
  Qed.

  Lemma case_compat_nil_r a : case_compat a [] = true.
  Proof. destruct a as [|x [|y r]]; reflexivity. Qed.

  Lemma choices_ok_iff :
    choices_ok sfs fs = true <->
    forall x y, In x sfs -> In y sfs -> is_set fs (f_go (fst x)) = true -> is_set fs (f_go (fst y)) = true ->
                case_compat (f_case (fst x)) (f_case (fst y)) = true.
  Proof.
    unfold choices_ok. rewrite forallb_forall. split.
    - intros H x y Hx Hy Sx Sy.
      assert (Fx : In x (filter (fun x0 => is_set fs (f_go (fst x0))) sfs)) by (apply filter_In; auto).
      assert (Fy : In y (filter (fun x0 => is_set fs (f_go (fst x0))) sfs)) by (apply filter_In; auto).
      specialize (H x Fx). rewrite forallb_forall in H. now apply H.
    - intros H x Fx. apply forallb_forall. intros y Fy.
      apply filter_In in Fx as [Hx Sx], Fy as [Hy Sy]. now apply H.
  Qed.

  Theorem validate_choices_iff : validate_choices fx sfs fs = [] <-> choices_ok sfs fs = true.
  Proof.
    rewrite validate_choices_flat, choices_ok_iff. split.
    - intros H x y Hx Hy Sx Sy.
      destruct (fcase_shape x Hx) as [Ex|(a & b & Ex)]; rewrite Ex; [reflexivity|].
      destruct (fcase_shape y Hy) as [Ey|(a' & b' & Ey)]; rewrite Ey; [reflexivity|].
      cbn [case_compat]. destruct (str_eqb a a') eqn:Ea; [|reflexivity].
      apply cstr_eqb_eq in Ea. subst a'.
      assert (Hch : In a (names_below sfs [])).
      { apply names_below_In. exists x. split; [assumption|]. split; [reflexivity|]. rewrite Ex. simpl. eauto. }
      specialize (H a Hch). rewrite filter_le1 in H by apply dedup_str_NoDup.
      assert (b = b') as <-.
      { apply H.
        - apply names_below_In. exists x. split; [assumption|]. rewrite Ex. simpl. rewrite cstr_eqb_refl. eauto.
        - apply names_below_In. exists y. split; [assumption|]. rewrite Ey. simpl. rewrite cstr_eqb_refl. eauto.
        - apply sel_case_iff. eauto.
        - apply sel_case_iff. eauto. }
      now rewrite cstr_eqb_refl.
    - intros H ch _. apply filter_le1; [apply dedup_str_NoDup|].
      intros c c' _ _ Sc Sc'. apply sel_case_iff in Sc as (x & Hx & Ex & Sx), Sc' as (y & Hy & Ey & Sy).
      specialize (H x y Hx Hy Sx Sy). rewrite Ex, Ey in H. cbn [case_compat] in H.
      rewrite cstr_eqb_refl in H. apply andb_true_iff in H as [H _]. now apply cstr_eqb_eq.
  Qed.
End Choices.

(* without any choice among the fields both sides are trivially fine *)
Lemma choices_ok_no_cases sfs fs : no_cases sfs = true -> choices_ok sfs fs = true.
Proof.
  intros H. unfold no_cases in H. rewrite forallb_forall in H.
  unfold choices_ok. apply forallb_forall. intros x Fx. apply forallb_forall. intros y Fy.
  apply filter_In in Fx as [Hx _]. specialize (H x Hx). now destruct (f_case (fst x)).
Qed.

(* ---------- list attributes and keys ---------- *)

Lemma list_attr_iff mn mx n : list_attr mn mx n = [] <-> bounds_ok mn mx n = true.
Proof.
  unfold list_attr, bounds_ok.
  destruct (n <? mn) eqn:E1; destruct (mx =? 0) eqn:E2; destruct (mx <? n) eqn:E3; simpl;
    try apply N.ltb_lt in E1; try apply N.ltb_ge in E1; try apply N.ltb_lt in E3; try apply N.ltb_ge in E3;
    split; intros H; try discriminate H; try reflexivity.
  all: try (apply andb_true_iff in H as [H1 H2]; apply N.leb_le in H1; try lia).
  all: try (apply N.leb_le in H2; lia).
  all: try (apply andb_true_iff; split; apply N.leb_le; lia).
  all: try (apply N.leb_le in E1; now rewrite E1).
  all: try (apply N.leb_le; lia).
Qed.

Lemma is_set_field_get fs n : is_set fs n = true <-> exists t, field_get n fs = Some t.
Proof. unfold is_set. destruct (field_get n fs); split; intros H; eauto; try discriminate. now destruct H. Qed.

Lemma keys_match_check sfs keys : forall k fs,
  keys_match sfs keys k fs = true ->
  check_keys sfs keys k fs = [] /\ length k = length keys /\ enum_keys_set sfs keys fs = true.
Proof.
  induction keys as [|kn keys IH]; intros [|kv k] fs H; simpl in H; try discriminate H.
  - repeat split.
  - destruct (key_field sfs kn) as [[fi ks]|] eqn:Ek; [|discriminate].
    destruct (field_get (f_go fi) fs) as [[v| | | |]|] eqn:Eg; try discriminate.
    apply andb_true_iff in H as [Hv Hr]. destruct (IH k fs Hr) as (H1 & H2 & H3).
    simpl. rewrite Ek, Eg, Hv, H1, H2, H3. repeat split.
    unfold is_set. rewrite Eg. now destruct (is_enum_leaf ks).
Qed.

Lemma check_keys_match sfs keys : forall k fs,
  length k = length keys -> enum_keys_set sfs keys fs = true ->
  check_keys sfs keys k fs = [] -> keys_match sfs keys k fs = true.
Proof.
  induction keys as [|kn keys IH]; intros [|kv k] fs Hlen Hen H; simpl in Hlen; try discriminate Hlen; [reflexivity|].
  simpl in H, Hen |- *. apply app_eq_nil in H as [Ha Hr]. apply andb_true_iff in Hen as [He Hen].
  destruct (key_field sfs kn) as [[fi ks]|] eqn:Ek; [|discriminate].
  destruct (field_get (f_go fi) fs) as [[v| | | |]|] eqn:Eg; try discriminate.
  - destruct (scalar_eqb v kv); [|discriminate]. simpl. apply IH; auto.
  - destruct (is_enum_leaf ks); [|discriminate]. unfold is_set in He. rewrite Eg in He. discriminate.
Qed.

(* ---------- the tree induction ---------- *)

Lemma sfind_In name sfs fi ss : sfind name sfs = Some (fi, ss) -> In (fi, ss) sfs.
Proof. unfold sfind. intros H. now apply find_some in H. Qed.

Lemma no_cases_flat sfs : no_cases sfs = true -> cases_flat sfs = true.
Proof.
  unfold no_cases, cases_flat. rewrite !forallb_forall. intros H x Hx. specialize (H x Hx).
  now destruct (f_case (fst x)).
Qed.

Lemma schema_ok_child fx s name fi ss :
  schema_ok fx s = true -> sfind name (sfields s) = Some (fi, ss) -> schema_ok fx ss = true.
Proof.
  intros Hs Hf. apply sfind_In in Hf.
  destruct s; simpl in Hs, Hf; try destruct Hf; apply andb_true_iff in Hs as [_ Hs];
    rewrite forallb_forall in Hs; exact (Hs _ Hf).
Qed.

Section Main.
  Variable fx : vfix.
  Variable env : enum_env.
  Notation validate_node := (validate_node fx env).
  Notation validate_leaf := (validate_leaf fx env).
  Notation tree_ok := (tree_ok fx env).
  Notation schema_ok := (schema_ok fx).

  (* choices of a list entry: either there are none, or the repair checks them *)
  Lemma entry_choices_sound sfs fs :
    (no_cases sfs || (fx_choice_list fx && cases_flat sfs)) = true ->
    (if fx_choice_list fx then validate_choices fx sfs fs else []) = [] -> choices_ok sfs fs = true.
  Proof.
    intros Hs Hv. apply orb_true_iff in Hs as [Hn|Hc]; [now apply choices_ok_no_cases|].
    apply andb_true_iff in Hc as [Hfx Hflat]. rewrite Hfx in Hv. now apply (validate_choices_iff fx).
  Qed.
  Lemma entry_choices_complete sfs fs :
    (no_cases sfs || (fx_choice_list fx && cases_flat sfs)) = true ->
    choices_ok sfs fs = true -> (if fx_choice_list fx then validate_choices fx sfs fs else []) = [].
  Proof.
    intros Hs Hc. destruct (fx_choice_list fx); [|reflexivity].
    apply (validate_choices_iff fx); [|assumption].
    apply orb_true_iff in Hs as [Hn|Hf]; [now apply no_cases_flat|assumption].
  Qed.

  Lemma validate_sound_node : forall t s ent cfg,
    schema_ok s = true -> tree_ok cfg s t = true -> validate_node ent cfg s t = [] ->
    validb_node env ent cfg s t = true.
  Proof.
    induction t as [v|vs|fs IH|es IH|es IH] using tree_ind2; intros s ent cfg Hs Hok Hv.
    - (* leaf *)
      destruct s; simpl in Hv; try discriminate Hv. simpl in *. now apply (validate_leaf_sound fx).
    - (* leaf-list *)
      destruct s; simpl in Hv; try discriminate Hv. simpl in Hok, Hs |- *.
      apply app_eq_nil in Hv as [Hv Hv2]. apply app_eq_nil in Hv2 as [Hattr Hdup].
      apply andb_true_iff in Hok as [Hok Hb]. apply andb_true_iff in Hok as [Hl Hu].
      assert (Hb' : bounds_ok mn mx (nlen vs) = true).
      { destruct (fx_llattr fx); [now apply list_attr_iff|exact Hb]. }
      assert (Hu' : negb cfg || nodup_scalars vs = true).
      { destruct (fx_lldup fx); [|exact Hu]. simpl in Hdup.
        destruct cfg; [|reflexivity]. simpl in *. now destruct (nodup_scalars vs). }
      rewrite Hb', Hu', andb_true_r, andb_true_r. apply forallb_forall. intros v Hin.
      rewrite forallb_forall in Hl. rewrite flat_map_nil_iff in Hv.
      apply (validate_leaf_sound fx); auto.
    - (* container / list entry *)
      assert (Hfields : forall sfs, sfields s = sfs ->
                flat_map (fun nt => match sfind (fst nt) sfs with
                                    | None => [EField]
                                    | Some (fi, ss) => validate_node false (f_cfg fi) ss (snd nt) end) fs = [] ->
                forallb (fun nt => match sfind (fst nt) sfs with
                                   | None => false
                                   | Some (fi, ss) => validb_node env false (f_cfg fi) ss (snd nt) end) fs = true).
      { intros sfs Es Hf. rewrite flat_map_nil_iff in Hf. apply forallb_forall. intros nt Hin.
        specialize (Hf nt Hin). simpl in Hok. rewrite forallb_forall in Hok. specialize (Hok nt Hin).
        rewrite Es in Hok. rewrite Forall_forall in IH.
        destruct (sfind (fst nt) sfs) as [[fi ss]|] eqn:Ef; [|discriminate].
        apply (IH nt Hin); auto. apply (schema_ok_child fx s (fst nt) fi ss Hs). now rewrite Es. }
      destruct s as [| |sfs|o keys mn mx sfs|sfs]; simpl in Hv; try discriminate Hv.
      + destruct ent; [discriminate|]. apply app_eq_nil in Hv as [Hf Hc].
        simpl. rewrite (Hfields sfs eq_refl Hf). simpl.
        simpl in Hs. apply andb_true_iff in Hs as [Hflat _]. now apply (validate_choices_iff fx).
      + destruct ent; [|discriminate]. apply app_eq_nil in Hv as [Hf Hc].
        simpl. rewrite (Hfields sfs eq_refl Hf). simpl.
        simpl in Hs. apply andb_true_iff in Hs as [Hnc _]. now apply entry_choices_sound.
      + destruct ent; [|discriminate]. apply app_eq_nil in Hv as [Hf Hc].
        simpl. rewrite (Hfields sfs eq_refl Hf). simpl.
        simpl in Hs. apply andb_true_iff in Hs as [Hnc _]. now apply entry_choices_sound.
    - (* keyed list *)
      destruct s as [| | |o keys mn mx sfs|]; simpl in Hv; try discriminate Hv.
      destruct ent; [discriminate Hv|].
      apply app_eq_nil in Hv as [Ha Hes]. apply list_attr_iff in Ha.
      cbn [Validate.tree_ok] in Hok. apply andb_true_iff in Hok as [Hnd Hok].
      cbn [validb_node]. rewrite Ha, Hnd. simpl. apply forallb_forall. intros ke Hin.
      rewrite forallb_forall in Hok. specialize (Hok ke Hin).
      apply andb_true_iff in Hok as [Hok Ht]. apply andb_true_iff in Hok as [Hlen Hen].
      apply Nat.eqb_eq in Hlen.
      rewrite flat_map_nil_iff in Hes. specialize (Hes ke Hin). apply app_eq_nil in Hes as [Hk Hn].
      rewrite (check_keys_match _ _ _ _ Hlen Hen Hk). simpl.
      rewrite Forall_forall in IH. apply (IH ke Hin); auto.
    - (* unkeyed list *)
      destruct s as [| | | |sfs]; simpl in Hv; try discriminate Hv.
      destruct ent; [discriminate Hv|].
      cbn [validb_node negb andb]. apply forallb_forall. intros e Hin.
      cbn [Validate.tree_ok] in Hok. rewrite forallb_forall in Hok.
      rewrite flat_map_nil_iff in Hv. rewrite Forall_forall in IH. apply (IH e Hin); auto.
  Qed.

  Lemma validate_complete_node : forall t s ent cfg,
    schema_ok s = true -> validb_node env ent cfg s t = true ->
    validate_node ent cfg s t = [] /\ tree_ok cfg s t = true.
  Proof.
    induction t as [v|vs|fs IH|es IH|es IH] using tree_ind2; intros s ent cfg Hs Hv.
    - destruct s; simpl in Hv; try discriminate Hv. simpl in *. now apply (validate_leaf_complete fx).
    - destruct s; simpl in Hv; try discriminate Hv. simpl in Hs |- *.
      apply andb_true_iff in Hv as [Hv Hu]. apply andb_true_iff in Hv as [Hl Hb].
      rewrite forallb_forall in Hl. split.
      + rewrite (proj2 (flat_map_nil_iff _ vs)).
        2:{ intros v Hin. apply (validate_leaf_complete fx env t v Hs (Hl v Hin)). }
        rewrite (proj2 (list_attr_iff _ _ _) Hb).
        assert (cfg && negb (nodup_scalars vs) = false) as Hd.
        { destruct cfg; [|reflexivity]. simpl in *. now rewrite Hu. }
        rewrite <- andb_assoc, Hd, andb_false_r. now destruct (fx_llattr fx).
      + rewrite <- orb_assoc, Hu, Hb, !orb_true_r, andb_true_r, andb_true_r. apply forallb_forall. intros v Hin.
        apply (validate_leaf_complete fx env t v Hs (Hl v Hin)).
    - cbn [validb_node] in Hv. apply andb_true_iff in Hv as [Hv Hc]. apply andb_true_iff in Hv as [Hent Hf].
      rewrite forallb_forall in Hf. rewrite Forall_forall in IH.
      assert (Hfields : flat_map (fun nt => match sfind (fst nt) (sfields s) with
                                           | None => [EField]
                                           | Some (fi, ss) => validate_node false (f_cfg fi) ss (snd nt) end) fs = []
                        /\ tree_ok cfg s (TCont fs) = true).
      { split.
        - apply flat_map_nil_iff. intros nt Hin. specialize (Hf nt Hin).
          destruct (sfind (fst nt) (sfields s)) as [[fi ss]|] eqn:Ef; [|discriminate].
          apply (IH nt Hin ss false (f_cfg fi)); auto. eapply schema_ok_child; eauto.
        - cbn [Validate.tree_ok]. apply forallb_forall. intros nt Hin. specialize (Hf nt Hin).
          destruct (sfind (fst nt) (sfields s)) as [[fi ss]|] eqn:Ef; [|reflexivity].
          apply (IH nt Hin ss false (f_cfg fi)); auto. eapply schema_ok_child; eauto. }
      destruct Hfields as [Hfl Hto]. split; [|exact Hto].
      destruct s as [| |sfs|o keys mn mx sfs|sfs]; try discriminate Hent; simpl in Hent, Hfl, Hc |- *.
      + destruct ent; [discriminate|]. rewrite Hfl. simpl.
        simpl in Hs. apply andb_true_iff in Hs as [Hflat _]. now apply (validate_choices_iff fx).
      + destruct ent; [|discriminate]. rewrite Hfl. simpl.
        simpl in Hs. apply andb_true_iff in Hs as [Hnc _]. now apply entry_choices_complete.
      + destruct ent; [|discriminate]. rewrite Hfl. simpl.
        simpl in Hs. apply andb_true_iff in Hs as [Hnc _]. now apply entry_choices_complete.
    - destruct s as [| | |o keys mn mx sfs|]; try discriminate Hv. cbn [validb_node] in Hv.
      apply andb_true_iff in Hv as [Hv Hes]. apply andb_true_iff in Hv as [Hv Hnd].
      apply andb_true_iff in Hv as [Hent Hb]. destruct ent; [discriminate Hent|].
      rewrite forallb_forall in Hes. rewrite Forall_forall in IH. split.
      + simpl. rewrite (proj2 (list_attr_iff _ _ _) Hb). simpl. apply flat_map_nil_iff. intros ke Hin.
        specialize (Hes ke Hin). apply andb_true_iff in Hes as [Hk Hn].
        destruct (keys_match_check _ _ _ _ Hk) as (Hck & _ & _). rewrite Hck. simpl.
        apply (IH ke Hin _ true cfg); auto.
      + cbn [Validate.tree_ok]. rewrite Hnd. simpl. apply forallb_forall. intros ke Hin.
        specialize (Hes ke Hin). apply andb_true_iff in Hes as [Hk Hn].
        destruct (keys_match_check _ _ _ _ Hk) as (_ & Hlen & Hen). rewrite Hlen, Nat.eqb_refl, Hen. simpl.
        apply (IH ke Hin _ true cfg); auto.
    - destruct s as [| | | |sfs]; try discriminate Hv. cbn [validb_node] in Hv.
      apply andb_true_iff in Hv as [Hent Hv]. destruct ent; [discriminate Hent|].
      rewrite forallb_forall in Hv. rewrite Forall_forall in IH. split.
      + simpl. apply flat_map_nil_iff. intros e Hin. apply (IH e Hin _ true cfg); auto.
      + cbn [Validate.tree_ok]. apply forallb_forall. intros e Hin. apply (IH e Hin _ true cfg); auto.
  Qed.

  (* Validate accepts exactly the valid trees, once the checks it does not make are added *)
  Theorem validate_exact s t cfg :
    schema_ok s = true ->
    (validb env cfg s t = true <-> validate_node false cfg s t = [] /\ tree_ok cfg s t = true).
  Proof.
    intros Hs. unfold validb. split.
    - now apply validate_complete_node.
    - intros [H1 H2]. now apply validate_sound_node.
  Qed.
End Main.

Print Assumptions validate_exact.
