(* LeavesBridgeProofs.v — the bridge between the node operations of ytypes/node.go (Tree/Node.v:
   SetNode / DeleteNode, structural) and the gNMI paths of ygot/render.go findUpdatedLeaves
   (Tree/Leaves.v): general lemmas.  Property C13 (the two premises of the refinement).
   1. gNMI paths: PathElem prefixes (util.PathMatchesPathElemPrefix), names, branches that cannot
      meet; `outside D O`: no leaf of O lies below a path D ++ x;
   2. leaf maps as sets: SetReqSpec.spec_update / spec_delete pointwise (upd_in / del_in) and the
      frame lemmas: an update / delete inside a branch D, seen from one level up;
   3. concatM: the shape of the two loops of findUpdatedLeaves (fields of a struct, entries of a
      list), results concatenated, any error fails the whole.
   Files that build on this one: Tree/LeavesPartsProofs.v (find_leaves taken apart, guards, list
   keys, the schema walk of SetReqSpec), Tree/LeavesSetProofs.v (SetNode), Tree/LeavesDelProofs.v
   (DeleteNode), Tree/SetReqBridgeProofs.v (the premises and the unconditional refinement). *)
From Ygot Require Import Tree.Tree Scalar.Dec Scalar.Base64 Tree.Codec Tree.CodecProofs.
From Ygot Require Import Tree.TreeOps Tree.Render Tree.Unmarshal Tree.RoundTrip Tree.RoundTripObjProofs Tree.RoundTripProofs.
From Ygot Require Import Tree.KeyCodec Tree.Leaves Tree.Notif Tree.Node Tree.SetReq Path.PathRel.
From Ygot Require Import Tree.KeyCodecProofs Tree.NodeStepProofs Tree.GnmiRt Tree.GnmiRtProofs.
From Ygot Require Import Tree.MergeJson Tree.MergeJsonProofs Tree.NodeFrameProofs Tree.NodeProofs.
From Ygot Require Import Tree.GnmiStatements Tree.SetReqSpec Tree.SetReqProofs.

(* ====================================================================================== *)
(* 1. gNMI paths                                                                          *)
(* ====================================================================================== *)

Lemma elems_prefix_app_same d : forall x y, elems_prefix (d ++ x) (d ++ y) = true -> elems_prefix x y = true.
Proof.
  induction d as [|e d IH]; intros x y H; [exact H|].
  cbn [app elems_prefix] in H. apply andb_true_iff in H as [_ H]. auto.
Qed.

Lemma elems_equal_name a b : elems_equal a b = true -> ename a = ename b.
Proof.
  unfold elems_equal. intros H. apply andb_true_iff in H as [H _]. apply andb_true_iff in H as [H _].
  now apply cstr_eqb_eq.
Qed.

Lemma elems_equal_nkeys a b : elems_equal a b = true -> length (ekeys a) = length (ekeys b).
Proof.
  unfold elems_equal. intros H. apply andb_true_iff in H as [H _]. apply andb_true_iff in H as [_ H].
  now apply Nat.eqb_eq.
Qed.

Lemma elems_prefix_names a : forall b, elems_prefix a b = true -> is_prefixb (pnames a) (pnames b) = true.
Proof.
  induction a as [|x a IH]; intros [|y b] H; simpl in *; try reflexivity; try discriminate.
  apply andb_true_iff in H as [H1 H2]. rewrite (elems_equal_name _ _ H1), cstr_eqb_refl. simpl. auto.
Qed.

Lemma elems_prefix_length a : forall b, elems_prefix a b = true -> (length a <= length b)%nat.
Proof.
  induction a as [|x a IH]; intros [|y b] H; simpl in *; try lia; try discriminate.
  apply andb_true_iff in H as [_ H]. apply IH in H. lia.
Qed.

Lemma prefix_okb_app a b : prefix_okb (a ++ b) = prefix_okb a && prefix_okb b.
Proof. unfold prefix_okb. apply forallb_app. Qed.

Lemma prefix_okb_names l : prefix_okb (path_of_names l) = true.
Proof. unfold prefix_okb, path_of_names. apply forallb_forall. intros e H. apply in_map_iff in H as (n & <- & _). reflexivity. Qed.

Lemma elems_prefix_refl_app p : prefix_okb p = true -> forall y, elems_prefix p (p ++ y) = true.
Proof.
  induction p as [|e p IH]; intros H y; [reflexivity|].
  simpl in H. apply andb_true_iff in H as [H1 H2]. cbn [app elems_prefix].
  rewrite elems_equal_refl by exact H1. simpl. auto.
Qed.

Lemma elems_prefix_refl p : prefix_okb p = true -> elems_prefix p p = true.
Proof. intros H. rewrite <- (app_nil_r p) at 2. now apply elems_prefix_refl_app. Qed.

Lemma same_path_prefix a b : same_path a b = true -> elems_prefix a b = true.
Proof. unfold same_path. intros H. now apply andb_true_iff in H as [_ H]. Qed.

Lemma same_path_refl p : prefix_okb p = true -> same_path p p = true.
Proof. intros H. unfold same_path. now rewrite Nat.eqb_refl, elems_prefix_refl. Qed.

Lemma is_prefixb_trans a : forall b c, is_prefixb a b = true -> is_prefixb b c = true -> is_prefixb a c = true.
Proof.
  induction a as [|x a IH]; intros [|y b] [|z c] H1 H2; simpl in *; try reflexivity; try discriminate.
  apply andb_true_iff in H1 as [E1 H1]. apply andb_true_iff in H2 as [E2 H2].
  apply cstr_eqb_eq in E1. apply cstr_eqb_eq in E2. subst. rewrite cstr_eqb_refl. simpl. eauto.
Qed.

Lemma is_prefixb_app_same d : forall x y, is_prefixb (d ++ x) (d ++ y) = is_prefixb x y.
Proof. induction d as [|e d IH]; intros x y; [reflexivity|]. simpl. now rewrite cstr_eqb_refl, IH. Qed.

(* a path below alternative a of one field and a path below an incomparable alternative a' *)
Lemma incomp_branches par a a' u w :
  incomp a a' -> is_prefixb (pnames par ++ a ++ u) (pnames par ++ a' ++ w) = false.
Proof.
  intros Hi. destruct (is_prefixb (pnames par ++ a ++ u) (pnames par ++ a' ++ w)) eqn:E; [|reflexivity].
  exfalso. rewrite is_prefixb_app_same in E.
  assert (H1 : is_prefixb a (a' ++ w) = true) by (eapply is_prefixb_trans; [apply is_prefixb_app | exact E]).
  assert (H2 : is_prefixb a' (a' ++ w) = true) by apply is_prefixb_app.
  exact (incomp_not_both_prefix a a' _ Hi H1 H2).
Qed.

(* the part of a leaf map outside the branch D: no path D ++ x is a PathElem prefix of it *)
Definition outside (D : dpath) (O : lmap) : Prop :=
  forall q w, In (q, w) O -> forall x, elems_prefix (D ++ x) q = false.
Definition inside (D : dpath) (A : lmap) : Prop :=
  forall q w, In (q, w) A -> exists x, q = D ++ x.
Definition paths_inside (D : dpath) (l : list dpath) : Prop := forall a, In a l -> exists x, a = D ++ x.

Lemma outside_app D a b : outside D a -> outside D b -> outside D (a ++ b).
Proof. intros Ha Hb q w Hin. apply in_app_or in Hin as [H|H]; eauto. Qed.

Lemma inside_app D a b : inside D a -> inside D b -> inside D (a ++ b).
Proof. intros Ha Hb q w Hin. apply in_app_or in Hin as [H|H]; eauto. Qed.

Lemma inside_weaken D x A : inside (D ++ x) A -> inside D A.
Proof. intros H q w Hin. destruct (H q w Hin) as (y & ->). exists (x ++ y). now rewrite app_assoc. Qed.

Lemma outside_under D alts O q w : paths_inside D alts -> outside D O -> In (q, w) O -> under alts q = false.
Proof.
  intros Ha Ho Hin. unfold under. destruct (existsb (fun a => is_prefix a q) alts) eqn:E; [|reflexivity].
  apply existsb_exists in E as (a & Hia & Hp). destruct (Ha a Hia) as (x & ->).
  unfold is_prefix in Hp. now rewrite (Ho q w Hin x) in Hp.
Qed.

Lemma outside_has_path D O x : outside D O -> has_path O (D ++ x) = false.
Proof.
  intros Ho. unfold has_path. destruct (existsb (fun e => same_path (D ++ x) (fst e)) O) eqn:E; [|reflexivity].
  apply existsb_exists in E as ([q w] & Hin & Hs). apply same_path_prefix in Hs. simpl in Hs.
  now rewrite (Ho q w Hin x) in Hs.
Qed.

Lemma has_path_app a b q : has_path (a ++ b) q = has_path a q || has_path b q.
Proof. unfold has_path. apply existsb_app. Qed.

Lemma has_path_In m q : has_path m q = true <-> exists e, In e m /\ same_path q (fst e) = true.
Proof. unfold has_path. apply existsb_exists. Qed.

Lemma has_path_equiv_in (a b : lmap) q :
  (forall p w, In (p, w) a -> exists w', In (p, w') b) -> has_path a q = true -> has_path b q = true.
Proof.
  intros H Ha. apply has_path_In in Ha as ([p w] & Hin & Hs). destruct (H p w Hin) as (w' & Hin').
  apply has_path_In. exists (p, w'). auto.
Qed.

(* ====================================================================================== *)
(* 2. Leaf maps: the update and the delete of the spec, pointwise                         *)
(* ====================================================================================== *)

Definition upd_in (alts : list dpath) (v : lval) (kl m : lmap) (q : dpath) (w : lval) : Prop :=
  (In q alts /\ w = v) \/
  (under alts q = false /\ (In (q, w) m \/ (In (q, w) kl /\ has_path m q = false))).
Definition del_in (alts : list dpath) (m : lmap) (q : dpath) (w : lval) : Prop :=
  In (q, w) m /\ under alts q = false.

Lemma has_path_ext (a b : lmap) q : (forall p w, In (p, w) a <-> In (p, w) b) -> has_path a q = has_path b q.
Proof. intros H. apply has_path_equiv. exact H. Qed.

Lemma upd_in_ext alts v kl a b q w : (forall p x, In (p, x) a <-> In (p, x) b) ->
  upd_in alts v kl a q w <-> upd_in alts v kl b q w.
Proof. intros H. unfold upd_in. rewrite (has_path_ext a b q H), (H q w). tauto. Qed.

(* the update seen from one level up: the branch D holds the target, O is everything else *)
Lemma upd_frame D alts v kl A A' O :
  paths_inside D alts -> inside D kl -> outside D O ->
  (forall q w, In (q, w) A' <-> upd_in alts v kl A q w) ->
  forall q w, In (q, w) (A' ++ O) <-> upd_in alts v kl (A ++ O) q w.
Proof.
  intros Ha Hk Ho HA q w. rewrite in_app_iff, HA. unfold upd_in. rewrite in_app_iff. split.
  - intros [[H|[Hu [H|[H1 H2]]]]|H].
    + left. exact H.
    + right. split; auto.
    + right. split; auto. right. split; auto. rewrite has_path_app, H2. simpl.
      destruct (Hk q w H1) as (x & ->). now apply outside_has_path.
    + right. split; [eapply outside_under; eauto | auto].
  - intros [H|[Hu [[H|H]|[H1 H2]]]].
    + left. left. exact H.
    + left. right. auto.
    + right. exact H.
    + left. right. split; auto. right. split; auto. rewrite has_path_app in H2. now apply orb_false_iff in H2 as [H2 _].
Qed.

Lemma del_frame_in D alts A A' O :
  paths_inside D alts -> outside D O ->
  (forall q w, In (q, w) A' <-> del_in alts A q w) ->
  forall q w, In (q, w) (A' ++ O) <-> del_in alts (A ++ O) q w.
Proof.
  intros Ha Ho HA q w. rewrite in_app_iff, HA. unfold del_in. rewrite in_app_iff. split.
  - intros [[H1 H2]|H]; auto. split; auto. eapply outside_under; eauto.
  - intros [[H|H] Hu]; auto.
Qed.

(* key leaves that the branch holds already are never added *)
Lemma upd_in_present alts v l r m q w :
  (forall p x, In (p, x) l -> has_path m p = true) ->
  upd_in alts v (l ++ r) m q w <-> upd_in alts v r m q w.
Proof.
  intros Hl. unfold upd_in. rewrite in_app_iff. split.
  - intros [H|[Hu [H|[[H1|H1] H2]]]].
    + left. exact H.
    + right. auto.
    + rewrite (Hl _ _ H1) in H2. discriminate.
    + right. auto.
  - intros [H|[Hu [H|[H1 H2]]]].
    + left. exact H.
    + right. auto.
    + right. split; auto.
Qed.

(* ====================================================================================== *)
(* 3. The loops of find_leaves                                                            *)
(* ====================================================================================== *)

(* the shape of the two loops of find_leaves: results concatenated, any error fails the whole *)
Fixpoint concatM {A B} (f : A -> result (list B)) (l : list A) : result (list B) :=
  match l with
  | [] => Ok []
  | x :: r => bind (f x) (fun here => bind (concatM f r) (fun t => Ok (here ++ t)))
  end.

Lemma concatM_inv {A B} (f : A -> result (list B)) : forall l items, concatM f l = Ok items ->
  forall x, In x l -> exists h, f x = Ok h.
Proof.
  induction l as [|y r IH]; intros items H x Hin; [destruct Hin|]. simpl in H.
  destruct (f y) as [h| |] eqn:Ef; try discriminate. simpl in H.
  destruct (concatM f r) as [t| |] eqn:Er; try discriminate.
  destruct Hin as [<-|Hin]; eauto.
Qed.

Lemma concatM_ok {A B} (f : A -> result (list B)) : forall l,
  (forall x, In x l -> exists h, f x = Ok h) -> exists items, concatM f l = Ok items.
Proof.
  induction l as [|y r IH]; intros H; simpl; [eauto|].
  destruct (H y (or_introl eq_refl)) as (h & ->). simpl.
  destruct IH as (t & ->); [intros x Hx; apply H; now right|]. simpl. eauto.
Qed.

Lemma concatM_In {A B C} (f : A -> result (list B)) (g : B -> list C) : forall l items, concatM f l = Ok items ->
  forall e, In e (flat_map g items) <-> exists x h, In x l /\ f x = Ok h /\ In e (flat_map g h).
Proof.
  induction l as [|y r IH]; intros items H e; simpl in H.
  - injection H as <-. simpl. split; [intros [] | intros (x & h & [] & _)].
  - destruct (f y) as [h| |] eqn:Ef; try discriminate; simpl in H.
    destruct (concatM f r) as [t| |] eqn:Er; try discriminate. simpl in H. injection H as <-.
    rewrite flat_map_app, in_app_iff, (IH t eq_refl e). split.
    + intros [H|(x & h' & Hx & Hf & He)]; [exists y, h | exists x, h'].
      * split; [now left|auto].
      * split; [now right|auto].
    + intros (x & h' & [<-|Hx] & Hf & He).
      * left. rewrite Ef in Hf. now injection Hf as <-.
      * right. eauto.
Qed.

