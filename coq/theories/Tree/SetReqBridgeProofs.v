(* SetReqBridgeProofs.v — the two per-operation premises of the C13 refinement
   (SetReqSpec.leaves_after_delete_stmt / leaves_after_set_leaf_stmt), discharged:
   after a successful, guarded DeleteNode / SetNode the leaves that ygot/render.go reports are
   those of the declarative spec, and the invariant is kept.

   Invariant (c13_inv2): the schema guard LeavesPartsProofs.c13_schemab (GnmiRt.gn_schemab: path
   alternatives of the fields of a struct pairwise incomparable, no empty name, list keys found
   consistently; NodeFrameProofs.swfb; every field that is not a leaf has one path) and the tree
   guard NodeProofs.root_ok (a container root; fields in struct order; kinds match the schema;
   list entries carry key leaves equal to their map key, each key read back from its own string;
   Go-map entries in canonical order).  c13_inv2b is the executable form.
   The path guards are the ones of SetReqSpec, unchanged (delete_guardb / update_guardb).

   Then the refinement theorems of SetReqProofs.v (Section Refines) instantiated: unconditional
   inside the guards. *)
From Ygot Require Import Tree.Tree Scalar.Dec Scalar.Base64 Tree.Codec Tree.CodecProofs.
From Ygot Require Import Tree.TreeOps Tree.Render Tree.Unmarshal Tree.RoundTrip Tree.RoundTripObjProofs Tree.RoundTripProofs.
From Ygot Require Import Tree.KeyCodec Tree.Leaves Tree.Notif Tree.Node Tree.SetReq Path.PathRel.
From Ygot Require Import Tree.KeyCodecProofs Tree.NodeStepProofs Tree.GnmiRt Tree.GnmiRtProofs.
From Ygot Require Import Tree.MergeJson Tree.MergeJsonProofs Tree.NodeFrameProofs Tree.NodeProofs.
From Ygot Require Import Tree.GnmiStatements Tree.SetReqSpec Tree.SetReqProofs Tree.LeavesBridgeProofs Tree.LeavesPartsProofs.
From Ygot Require Import Tree.LeavesSetProofs Tree.LeavesDelProofs.

Definition c13_inv2 (env : enum_env) (fo : float_oracle) (ko : key_oracle) (sch : schema) (t : tree) : Prop :=
  c13_schemab sch = true /\ root_ok env fo ko sch t.
Definition c13_inv2b (env : enum_env) (fo : float_oracle) (ko : key_oracle) (sch : schema) (t : tree) : bool :=
  c13_schemab sch && root_okb env fo ko sch t.

Lemma c13_inv2b_sound env fo ko sch t : c13_inv2b env fo ko sch t = true -> c13_inv2 env fo ko sch t.
Proof.
  unfold c13_inv2b. intros H. apply andb_true_iff in H as [H1 H2]. split; [exact H1|].
  apply root_okb_sound; [|exact H2]. now destruct (c13_schemab_parts sch H1) as (_ & Hw & _).
Qed.

Section Premises.
  Variable env : enum_env.
  Variable fo : float_oracle.
  Variable ko : key_oracle.
  Notation L := (flat_map plain_of).
  Notation obs sch := (fun t => leaves env ko false sch t []).
  Notation sem sch := (schema_sem env fo ko sch).

  Lemma obs_items sch t m : obs sch t = Ok m -> exists items, find_leaves env ko false false sch t [] = Ok items /\ m = L items.
  Proof.
    unfold leaves. destruct (find_leaves env ko false false sch t []) as [items| |]; try discriminate.
    simpl. intros [= <-]. eauto.
  Qed.

  Lemma items_obs sch t items : find_leaves env ko false false sch t [] = Ok items -> obs sch t = Ok (L items).
  Proof. unfold leaves. now intros ->. Qed.

  (* ---------- SetNode ---------- *)
  Theorem leaves_after_set_holds sch :
    leaves_after_set_leaf_stmt env fo ko sch no_opts (sem sch) (obs sch) (c13_inv2 env fo ko sch)
      (fun p x => update_guardb env fo ko sch p x = true).
  Proof.
    intros t p x t' m [Hsch Hroot] Hguard Hset Hobs.
    destruct Hroot as ((sfs & ->) & (fs & ->) & Hn).
    unfold update_guardb in Hguard. destruct (node_at (SCont sfs) p) as [ni|] eqn:Eni; [|discriminate].
    apply andb_true_iff in Hguard as [Hguard Hval]. apply andb_true_iff in Hguard as [Hguard Hwalk].
    apply andb_true_iff in Hguard as [Hleaf Hnk]. apply negb_true_iff in Hnk.
    unfold path_walks in Hwalk.
    destruct (sch_walk env fo ko (2 * length p + 2) (SCont sfs) p []) as [kl|] eqn:Ekl; [|discriminate].
    destruct (sch_value env ko (SCont sfs) p x) as [v|] eqn:Ev; [|discriminate].
    pose proof Ev as Ev'. rewrite sch_value_payload, Eni in Ev'.
    assert (Hp : p <> []).
    { intros ->. unfold node_at in Eni. simpl in Eni. injection Eni as <-. discriminate. }
    destruct (obs_items _ _ _ Hobs) as (items & Hfl & ->).
    unfold set_node_st in Hset.
    destruct (set_rec env fo ko (sn_opts no_opts) x (2 * length p + 2) (SCont sfs) (Some (TCont fs)) p) as [c' r] eqn:Er.
    destruct r as [n| |]; try (injection Hset as _ Hr; discriminate).
    destruct (set_struct_leaves env fo ko (sn_opts no_opts) x eq_refl eq_refl eq_refl
                (2 * length p + 2) (SCont sfs) sfs fs p [] c' n (2 * length p + 2) (2 * length p + 2) ni kl v items
                Hsch (or_introl eq_refl) Hn eq_refl Hp Er Eni Hleaf Hnk Ekl Ev' Hfl)
      as (Hn0 & fs' & items' & -> & Hn' & _ & Hfl' & HL).
    apply Nat.eqb_neq in Hn0. rewrite Hn0 in Hset. cbn [andb] in Hset. injection Hset as <-.
    split.
    - split; [exact Hsch|]. split; [eauto|]. split; [eauto|exact Hn'].
    - exists (L items'). split; [now apply items_obs|].
      intros q w. rewrite (HL q w). rewrite (spec_update_in (sem (SCont sfs)) (L items) p x v q w Ev).
      unfold upd_in. cbn [ps_alts ps_keyleaves schema_sem]. unfold sch_alts, sch_keyleaves. rewrite Eni, Ekl. tauto.
  Qed.

  (* ---------- DeleteNode ---------- *)
  Theorem leaves_after_delete_holds sch :
    leaves_after_delete_stmt env fo ko sch no_opts (sem sch) (obs sch) (c13_inv2 env fo ko sch)
      (fun p => delete_guardb env fo ko sch p = true).
  Proof.
    intros t p t' m [Hsch Hroot] Hguard Hdel Hobs.
    destruct Hroot as ((sfs & ->) & (fs & ->) & Hn).
    unfold delete_guardb in Hguard. destruct (node_at (SCont sfs) p) as [ni|] eqn:Eni; [|discriminate].
    apply andb_true_iff in Hguard as [Hnk Hwalk]. apply negb_true_iff in Hnk.
    unfold path_walks in Hwalk.
    destruct (sch_walk env fo ko (2 * length p + 2) (SCont sfs) p []) as [kl|] eqn:Ekl; [|discriminate].
    destruct (obs_items _ _ _ Hobs) as (items & Hfl & ->).
    unfold delete_node_st in Hdel. cbn [so_shadow no_opts] in Hdel.
    destruct p as [|e0 prest].
    - (* the root *)
      simpl in Hdel. injection Hdel as <-. split.
      + split; [exact Hsch|]. split; [eauto|]. split; [eauto|]. apply nwf_cont. split; [apply ss_nil | intros ? ? []].
      + exists []. split; [reflexivity|]. intros q w. rewrite (spec_delete_in (sem (SCont sfs)) (L items) [] q w).
        cbn [ps_alts schema_sem]. unfold sch_alts. rewrite Eni. unfold node_at in Eni. simpl in Eni. injection Eni as <-.
        cbn [ni_alts under existsb is_prefix elems_prefix orb]. split; [intros [] | intros [_ H]; discriminate].
    - destruct (del_rec env fo ko false (2 * length (e0 :: prest) + 2) (SCont sfs) (Some (TCont fs)) (e0 :: prest)) as [c' r] eqn:Er.
      injection Hdel as Ht ->.
      destruct (del_struct_leaves env fo ko (2 * length (e0 :: prest) + 2) (SCont sfs) sfs fs (e0 :: prest) [] c'
                  (2 * length (e0 :: prest) + 2) (2 * length (e0 :: prest) + 2) ni kl items
                  Hsch (or_introl eq_refl) Hn eq_refl ltac:(discriminate) Er Eni Hnk Ekl Hfl)
        as (fs' & items' & -> & Hn' & _ & Hfl' & HL).
      subst t'. split.
      + split; [exact Hsch|]. split; [eauto|]. split; [eauto|exact Hn'].
      + exists (L items'). split; [now apply items_obs|].
        intros q w. rewrite (HL q w). rewrite (spec_delete_in (sem (SCont sfs)) (L items) (e0 :: prest) q w).
        unfold del_in. cbn [ps_alts schema_sem]. unfold sch_alts. rewrite Eni. tauto.
  Qed.

  (* ---------- the refinement, unconditional inside the guards ---------- *)
  Notation dguard sch := (fun p => delete_guardb env fo ko sch p = true).
  Notation sguard sch := (fun p x => update_guardb env fo ko sch p x = true).

  Theorem setrequest_refines_bridge sch : forall t r t' m,
    c13_inv2 env fo ko sch t -> req_guard (dguard sch) (sguard sch) r -> obs sch t = Ok m ->
    unmarshal_setrequest env fo ko sch no_opts t r = (t', SROk) ->
    c13_inv2 env fo ko sch t' /\ exists m', obs sch t' = Ok m' /\ lm_equiv m' (spec_set (sem sch) m r).
  Proof.
    exact (setrequest_refines_scalar env fo ko sch no_opts (sem sch) (obs sch) (c13_inv2 env fo ko sch) (dguard sch) (sguard sch)
             (leaves_after_delete_holds sch) (leaves_after_set_holds sch)).
  Qed.

  Theorem history_refines_bridge sch : forall rs t t' m,
    c13_inv2 env fo ko sch t -> (forall r, In r rs -> req_guard (dguard sch) (sguard sch) r) -> obs sch t = Ok m ->
    run_requests env fo ko sch no_opts t rs = (t', SROk) ->
    c13_inv2 env fo ko sch t' /\ exists m', obs sch t' = Ok m' /\ lm_equiv m' (spec_history (sem sch) m rs).
  Proof.
    exact (history_refines env fo ko sch no_opts (sem sch) (obs sch) (c13_inv2 env fo ko sch) (dguard sch) (sguard sch)
             (leaves_after_delete_holds sch) (leaves_after_set_holds sch)).
  Qed.

  Theorem notifs_refine_bridge sch : forall ns t t' m,
    c13_inv2 env fo ko sch t -> (forall n, In n ns -> req_guard (dguard sch) (sguard sch) (req_of_notif n)) -> obs sch t = Ok m ->
    unmarshal_notifs env fo ko sch no_opts t ns = (t', SROk) ->
    c13_inv2 env fo ko sch t' /\ exists m', obs sch t' = Ok m' /\ lm_equiv m' (spec_history (sem sch) m (map req_of_notif ns)).
  Proof.
    exact (notifs_refine env fo ko sch no_opts (sem sch) (obs sch) (c13_inv2 env fo ko sch) (dguard sch) (sguard sch)
             (leaves_after_delete_holds sch) (leaves_after_set_holds sch)).
  Qed.

  Theorem atomic_notif_leaves_bridge sch : forall n t t' m l',
    n_atomic n = true -> n_deletes n = [] ->
    c13_inv2 env fo ko sch t -> req_guard (dguard sch) (sguard sch) (req_of_notif n) -> obs sch t = Ok m ->
    unmarshal_notifs env fo ko sch no_opts t [n] = (t', SROk) -> obs sch t' = Ok l' ->
    forall q w, In (q, w) l' -> under (ps_alts (sem sch) (n_prefix n)) q = true ->
      exists u, In u (n_updates n) /\
        (In q (ps_alts (sem sch) (n_prefix n ++ fst u)) \/ In (q, w) (ps_keyleaves (sem sch) (n_prefix n ++ fst u))).
  Proof.
    exact (atomic_notif_leaves env fo ko sch no_opts (sem sch) (obs sch) (c13_inv2 env fo ko sch) (dguard sch) (sguard sch)
             (leaves_after_delete_holds sch) (leaves_after_set_holds sch)).
  Qed.
End Premises.

(* ---------- the guards of a request, executable ---------- *)
Definition req_guardb (env : enum_env) (fo : float_oracle) (ko : key_oracle) (sch : schema) (r : sreq) : bool :=
  forallb (fun p => delete_guardb env fo ko sch (jelems (sr_prefix r) p)) (sr_deletes r)
  && forallb (fun u => delete_guardb env fo ko sch (jelems (sr_prefix r) (fst u))
                       && update_guardb env fo ko sch (jelems (sr_prefix r) (fst u)) (snd u)) (sr_replaces r)
  && forallb (fun u => update_guardb env fo ko sch (jelems (sr_prefix r) (fst u)) (snd u)) (sr_updates r).

Lemma req_guardb_sound env fo ko sch r : req_guardb env fo ko sch r = true ->
  req_guard (fun p => delete_guardb env fo ko sch p = true) (fun p x => update_guardb env fo ko sch p x = true) r.
Proof.
  unfold req_guardb. intros H. apply andb_true_iff in H as [H H3]. apply andb_true_iff in H as [H1 H2].
  rewrite forallb_forall in H1, H2, H3. split; [|split].
  - intros p Hp. now apply H1.
  - intros u Hu. specialize (H2 u Hu). now apply andb_true_iff in H2.
  - intros u Hu. now apply H3.
Qed.
