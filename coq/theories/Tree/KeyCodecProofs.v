(* KeyCodecProofs.v — C16 (a): the key string ygot prints (KeyValueAsString) is read back as the
   same key value (stringToKeyType / stringToUnionType), for every key type and for key tuples
   (insertAndGetKey); the exact guard for unions; refutation witnesses. *)
From Ygot Require Import Tree.Tree Scalar.Dec Scalar.Base64 Tree.Codec Tree.CodecProofs.
From Ygot Require Import Scalar.DecProofs Scalar.Base64Proofs.
From Ygot Require Import Tree.TreeOps Tree.Render Tree.Unmarshal Tree.RoundTrip Tree.RoundTripObjProofs Tree.RoundTripProofs.
From Ygot Require Import Tree.KeyCodec Tree.Leaves Tree.Node Path.PathRel.

(* ====================================================================================== *)
(* Guards                                                                                  *)
(* ====================================================================================== *)

(* the float tables behave like Go on this value: ParseFloat (Sprintf "%g" f) = f *)
Definition fmt_g_okb (fo : float_oracle) (ko : key_oracle) (v : scalar) : bool :=
  match v with
  | VDec b => match fparse fo (fmt_g ko b) with Some b' => b' =? b | None => false end
  | _ => true
  end.

(* v is a key value of built-in kind k that stringToKeyType supports (`empty` is not) *)
Definition key_kind_okb (fo : float_oracle) (ko : key_oracle) (k : ukind) (v : scalar) : bool :=
  match k with KEmpty => false | _ => has_kind k v end && fmt_g_okb fo ko v.

(* getUnionVal accepts the Go value of v *)
Definition union_val_okb (ko : key_oracle) (v : scalar) : bool :=
  match v with VBin _ => union_bytes ko | _ => true end.

(* the first kind (in the decoder's order) that accepts the text s is the kind of v *)
Fixpoint key_kind_canonb (fo : float_oracle) (ko : key_oracle) (ks : list ukind) (v : scalar) (s : str) : bool :=
  match ks with
  | [] => false
  | k :: r =>
      if key_kind_okb fo ko k v then union_val_okb ko v
      else match key_of_kind fo k s with
           | Ok _ => false
           | _ => key_kind_canonb fo ko r v s
           end
  end.

(* v is a key value of YANG type t whose string is decoded as v again: typed, float oracle
   consistent, and for an interface union the canonical alternative (no earlier enum type has
   the name, no earlier kind accepts the text) *)
Fixpoint key_wfb (env : enum_env) (fo : float_oracle) (ko : key_oracle) (t : ytype) (v : scalar) {struct t} : bool :=
  match t with
  | YLeafref t' => key_wfb env fo ko t' v
  | YEnum ty | YIdref ty =>
      match v with
      | VEnum ty' n => str_eqb ty' ty && negb (n =? 0)%Z && is_some (enum_by_num (enum_table env ty) n)
      | _ => false
      end
  | YUnion _ =>
      let ets := enum_types t in
      let ks := dedup_kinds (union_kinds t) [] in
      match ets, ks with
      | [], [k] => key_kind_okb fo ko k v
      | _, _ =>
          match v with
          | VEnum ty n =>
              negb (n =? 0)%Z &&
              match enum_by_num (enum_table env ty) n with
              | Some e => enum_canonb env ets ty (ev_name e)
              | None => false
              end
          | _ =>
              match key_to_string env ko v with
              | Ok s => is_none (cast_one_enum env ets s) && key_kind_canonb fo ko ks v s
              | _ => false
              end
          end
      end
  | _ => match kind_of_type t with Some k => key_kind_okb fo ko k v | None => false end
  end.

(* ====================================================================================== *)
(* One kind                                                                                *)
(* ====================================================================================== *)

Lemma bool_str_true : str_eqb TRUE_S TRUE_S = true. Proof. reflexivity. Qed.
Lemma bool_str_false1 : str_eqb FALSE_S TRUE_S = false. Proof. reflexivity. Qed.
Lemma bool_str_false2 : str_eqb FALSE_S FALSE_S = true. Proof. reflexivity. Qed.

Theorem key_of_kind_roundtrip : forall env fo ko k v s,
  key_kind_okb fo ko k v = true -> key_to_string env ko v = Ok s -> key_of_kind fo k s = Ok v.
Proof.
  intros env fo ko k v s Hk Hs. unfold key_kind_okb in Hk. apply andb_true_iff in Hk as [Hk Hf].
  destruct k as [ik| | | | |]; try discriminate.
  - apply has_kind_int in Hk as (z & -> & Hlo & Hhi). simpl in Hs. injection Hs as <-.
    unfold key_of_kind. destruct (ikind_signed ik) eqn:Es.
    + rewrite parse_int_range_roundtrip by lia. reflexivity.
    + rewrite ikind_min_nonpos_unsigned in Hlo by assumption.
      rewrite parse_uint_range_roundtrip by lia. reflexivity.
  - destruct v; try discriminate. simpl in Hs. injection Hs as <-. simpl.
    simpl in Hf. destruct (fparse fo (fmt_g ko bits)) as [b'|]; [|discriminate].
    apply N.eqb_eq in Hf. now subst.
  - destruct v; try discriminate. simpl in Hs. now injection Hs as <-.
  - destruct v; try discriminate. simpl in Hs. injection Hs as <-. simpl in Hk. simpl.
    now rewrite b64dec_b64enc.
  - destruct v; try discriminate. simpl in Hs. injection Hs as <-. destruct b; reflexivity.
Qed.

Lemma key_to_string_kind_total env fo ko k v :
  key_kind_okb fo ko k v = true -> exists s, key_to_string env ko v = Ok s.
Proof.
  unfold key_kind_okb. intros H. apply andb_true_iff in H as [H _].
  destruct k, v; try discriminate; simpl; eauto.
Qed.

Lemma key_first_kind_canon env fo ko ks v s :
  key_to_string env ko v = Ok s -> key_kind_canonb fo ko ks v s = true -> key_first_kind fo ko ks s = Ok v.
Proof.
  intros Hs. induction ks as [|k r IH]; simpl; [discriminate|].
  destruct (key_kind_okb fo ko k v) eqn:Ek.
  - intros Hu. rewrite (key_of_kind_roundtrip env fo ko k v s Ek Hs).
    unfold union_val. unfold union_val_okb in Hu. destruct v; try reflexivity. now rewrite Hu.
  - destruct (key_of_kind fo k s); try discriminate; auto.
Qed.

(* ====================================================================================== *)
(* C16 (a): every key type                                                                 *)
(* ====================================================================================== *)

Theorem key_codec : forall env fo ko t v s,
  wf_envb env = true -> key_wfb env fo ko t v = true ->
  key_to_string env ko v = Ok s -> string_to_key env fo ko t s = Ok v.
Proof.
  intros env fo ko t. induction t as [k rs|frac|lens npat|lens| | |ty|ty|ms|t' IH]; intros v s He Hw Hs;
    try (simpl in Hw |- *; now apply (key_of_kind_roundtrip env fo ko _ v s Hw Hs)).
  - (* enumeration *)
    simpl in Hw. destruct v; try discriminate.
    apply andb_true_iff in Hw as [Hw H3]. apply andb_true_iff in Hw as [H1 H2].
    apply cstr_eqb_eq in H1. subst ty0. apply negb_true_iff in H2.
    destruct (enum_by_num (enum_table env ty) n) as [e|] eqn:En; [|discriminate].
    simpl in Hs. rewrite H2, En in Hs. injection Hs as <-. simpl.
    rewrite (enum_cast_by_num _ n e En (wf_env_tbl env ty He)).
    apply enum_by_num_In in En as [_ ->]. reflexivity.
  - (* identityref *)
    simpl in Hw. destruct v; try discriminate.
    apply andb_true_iff in Hw as [Hw H3]. apply andb_true_iff in Hw as [H1 H2].
    apply cstr_eqb_eq in H1. subst ty0. apply negb_true_iff in H2.
    destruct (enum_by_num (enum_table env ty) n) as [e|] eqn:En; [|discriminate].
    simpl in Hs. rewrite H2, En in Hs. injection Hs as <-. simpl.
    rewrite (enum_cast_by_num _ n e En (wf_env_tbl env ty He)).
    apply enum_by_num_In in En as [_ ->]. reflexivity.
  - (* union *)
    cbn [key_wfb] in Hw. cbn [string_to_key].
    set (ets := enum_types (YUnion ms)) in *. set (ks := dedup_kinds (union_kinds (YUnion ms)) []) in *.
    assert (G : (match v with
                 | VEnum ty n => negb (n =? 0)%Z &&
                     match enum_by_num (enum_table env ty) n with
                     | Some e => enum_canonb env ets ty (ev_name e) | None => false end
                 | _ => match key_to_string env ko v with
                        | Ok s => is_none (cast_one_enum env ets s) && key_kind_canonb fo ko ks v s
                        | _ => false end
                 end) = true ->
                match cast_one_enum env ets s with
                | Some v0 => Ok v0
                | None => key_first_kind fo ko ks s
                end = Ok v).
    { intros G. destruct v as [ik z|x|b|bits|bs| |ty n];
        try (rewrite Hs in G; apply andb_true_iff in G as [G1 G2];
             destruct (cast_one_enum env ets s); [discriminate|];
             now apply (key_first_kind_canon env fo ko ks _ s Hs G2)).
      apply andb_true_iff in G as [G1 G2]. apply negb_true_iff in G1.
      destruct (enum_by_num (enum_table env ty) n) as [e|] eqn:En; [|discriminate].
      simpl in Hs. rewrite G1, En in Hs. injection Hs as <-.
      now rewrite (cast_one_enum_canon env ets ty n e (ev_name e) He En eq_refl G2). }
    destruct ets as [|et ets']; [destruct ks as [|k [|k2 ks']]|]; auto.
    now apply (key_of_kind_roundtrip env fo ko k v s Hw Hs).
  - (* leafref *)
    simpl in Hw |- *. auto.
Qed.

Theorem key_to_string_total : forall env fo ko t v,
  key_wfb env fo ko t v = true -> exists s, key_to_string env ko v = Ok s.
Proof.
  intros env fo ko t. induction t as [k rs|frac|lens npat|lens| | |ty|ty|ms|t' IH]; intros v Hw;
    try (simpl in Hw; now apply (key_to_string_kind_total env fo ko _ v Hw)).
  - simpl in Hw. destruct v; try discriminate.
    apply andb_true_iff in Hw as [Hw H3]. apply andb_true_iff in Hw as [H1 H2].
    apply cstr_eqb_eq in H1. subst ty0. apply negb_true_iff in H2.
    destruct (enum_by_num (enum_table env ty) n) as [e|] eqn:En; [|discriminate].
    simpl. rewrite H2, En. eauto.
  - simpl in Hw. destruct v; try discriminate.
    apply andb_true_iff in Hw as [Hw H3]. apply andb_true_iff in Hw as [H1 H2].
    apply cstr_eqb_eq in H1. subst ty0. apply negb_true_iff in H2.
    destruct (enum_by_num (enum_table env ty) n) as [e|] eqn:En; [|discriminate].
    simpl. rewrite H2, En. eauto.
  - cbn [key_wfb] in Hw.
    assert (G : (match v with
                 | VEnum ty n => negb (n =? 0)%Z &&
                     match enum_by_num (enum_table env ty) n with
                     | Some e => enum_canonb env (enum_types (YUnion ms)) ty (ev_name e) | None => false end
                 | _ => match key_to_string env ko v with
                        | Ok s => is_none (cast_one_enum env (enum_types (YUnion ms)) s) &&
                                  key_kind_canonb fo ko (dedup_kinds (union_kinds (YUnion ms)) []) v s
                        | _ => false end
                 end) = true -> exists s, key_to_string env ko v = Ok s).
    { intros G. destruct v as [ik z|x|b|bits|bs| |ty n]; try (simpl; eauto; fail).
      apply andb_true_iff in G as [G1 G2]. apply negb_true_iff in G1.
      destruct (enum_by_num (enum_table env ty) n) as [e|] eqn:En; [|discriminate].
      simpl. rewrite G1, En. eauto. }
    destruct (enum_types (YUnion ms)) as [|et ets'];
      [destruct (dedup_kinds (union_kinds (YUnion ms)) []) as [|k [|k2 ks']]|]; auto.
    now apply (key_to_string_kind_total env fo ko k v Hw).
  - simpl in Hw. auto.
Qed.

(* the guard is exact: a typed key value round-trips iff key_wfb holds is not claimed; what is
   claimed is the converse reading used by the tree guards: key_wfb implies key_roundtrips *)
Definition key_roundtripsb (env : enum_env) (fo : float_oracle) (ko : key_oracle) (t : ytype) (v : scalar) : bool :=
  match key_to_string env ko v with
  | Ok s => match string_to_key env fo ko t s with Ok v' => scalar_eqb v v' | _ => false end
  | _ => false
  end.

Lemma scalar_eqb_refl v : scalar_eqb v v = true.
Proof.
  destruct v; simpl; auto using cstr_eqb_refl, N.eqb_refl, Bool.eqb_reflx.
  - now rewrite ikind_eqb_refl, Z.eqb_refl.
  - induction bs; simpl; auto. now rewrite N.eqb_refl.
  - now rewrite cstr_eqb_refl, Z.eqb_refl.
Qed.

Corollary key_wfb_roundtrips env fo ko t v :
  wf_envb env = true -> key_wfb env fo ko t v = true -> key_roundtripsb env fo ko t v = true.
Proof.
  intros He Hw. unfold key_roundtripsb.
  destruct (key_to_string_total env fo ko t v Hw) as [s Hs]. rewrite Hs.
  rewrite (key_codec env fo ko t v s He Hw Hs). apply scalar_eqb_refl.
Qed.

(* two guarded key values that print the same string are equal *)
Corollary key_to_string_inj env fo ko t v w s :
  wf_envb env = true -> key_wfb env fo ko t v = true -> key_wfb env fo ko t w = true ->
  key_to_string env ko v = Ok s -> key_to_string env ko w = Ok s -> v = w.
Proof.
  intros He Hv Hw Sv Sw.
  pose proof (key_codec env fo ko t v s He Hv Sv) as E1.
  pose proof (key_codec env fo ko t w s He Hw Sw) as E2. congruence.
Qed.

(* ---------- the non-union types: typed values round-trip unconditionally ---------- *)

(* v is a value of the Go type generated for t (no canonicity condition) *)
Fixpoint key_typedb (env : enum_env) (t : ytype) (v : scalar) {struct t} : bool :=
  match t with
  | YLeafref t' => key_typedb env t' v
  | YEnum ty | YIdref ty =>
      match v with
      | VEnum ty' n => str_eqb ty' ty && negb (n =? 0)%Z && is_some (enum_by_num (enum_table env ty) n)
      | _ => false
      end
  | YUnion ms => false
  | YEmpty => false
  | _ => match kind_of_type t with Some k => has_kind k v | None => false end
  end.

Lemma key_typedb_wfb env fo ko t v :
  key_typedb env t v = true -> fmt_g_okb fo ko v = true -> key_wfb env fo ko t v = true.
Proof.
  induction t; cbn [key_typedb key_wfb kind_of_type]; intros H Hf; auto; try discriminate;
    unfold key_kind_okb; rewrite H, Hf; reflexivity.
Qed.

(* int8 ... uint64, string, boolean, binary, decimal64 (under the oracle hypothesis),
   enumeration, identityref, leafref to any of these *)
Theorem key_codec_simple : forall env fo ko t v s,
  wf_envb env = true -> key_typedb env t v = true -> fmt_g_okb fo ko v = true ->
  key_to_string env ko v = Ok s -> string_to_key env fo ko t s = Ok v.
Proof. intros. eapply key_codec; eauto using key_typedb_wfb. Qed.

(* ====================================================================================== *)
(* Key tuples: getKeyFields / PathKeyFromStruct then insertAndGetKey                        *)
(* ====================================================================================== *)

(* the key leaves makeValForInsert stores in the new entry *)
Fixpoint key_fields (sfs : list (finfo * schema)) (keys : list str) (mk : list scalar) : list (str * tree) :=
  match keys, mk with
  | k :: ks, v :: vs =>
      match key_name_field sfs k with
      | Ok (fi, _) => field_set (go_names sfs) (f_go fi) (TLeaf v) (key_fields sfs ks vs)
      | _ => []
      end
  | _, _ => []
  end.

(* every key names a leaf field (through schemaNameToFieldName) whose type accepts the value *)
Fixpoint keys_wfb (env : enum_env) (fo : float_oracle) (ko : key_oracle)
  (sfs : list (finfo * schema)) (keys : list str) (mk : list scalar) : bool :=
  match keys, mk with
  | [], [] => true
  | k :: ks, v :: vs =>
      match key_name_field sfs k with
      | Ok (_, SLeaf t _) => key_wfb env fo ko t v && keys_wfb env fo ko sfs ks vs
      | _ => false
      end
  | _, _ => false
  end.

Lemma mapkey_strs_find env ko : forall keys mk kk k,
  mapkey_strs env ko keys mk = Ok kk -> ~ In k keys -> al_find k kk = None.
Proof.
  induction keys as [|k0 ks IH]; intros mk kk k H Hn.
  - destruct mk; simpl in H; injection H as <-; reflexivity.
  - destruct mk as [|v vs]; simpl in H; [discriminate|].
    destruct (key_to_string env ko v) as [s| |]; try discriminate. cbn [bind] in H.
    destruct (mapkey_strs env ko ks vs) as [r| |] eqn:Er; try discriminate. cbn [bind] in H.
    injection H as <-. rewrite al_find_insert_other.
    + eapply IH; eauto. intros Hin. apply Hn. now right.
    + intros ->. apply Hn. now left.
Qed.

(* C16 (a) for tuples: the strings printed for the keys of an entry recreate its map key and
   its key leaves *)
Theorem key_tuple_codec : forall env fo ko sfs keys mk kk,
  wf_envb env = true -> NoDup keys -> keys_wfb env fo ko sfs keys mk = true ->
  mapkey_strs env ko keys mk = Ok kk ->
  make_entry env fo ko sfs keys kk = Ok (mk, key_fields sfs keys mk).
Proof.
  intros env fo ko sfs keys mk kk He. revert mk kk.
  assert (G : forall keys mk kk kk', NoDup keys -> keys_wfb env fo ko sfs keys mk = true ->
                mapkey_strs env ko keys mk = Ok kk ->
                (forall k, In k keys -> al_find k kk' = al_find k kk) ->
                make_entry env fo ko sfs keys kk' = Ok (mk, key_fields sfs keys mk)).
  { induction keys0 as [|k ks IH]; intros mk kk kk' Hd Hw Hs Hf.
    - destruct mk; [reflexivity|discriminate].
    - destruct mk as [|v vs]; [discriminate|]. cbn [keys_wfb] in Hw.
      destruct (key_name_field sfs k) as [[fi ss]| |] eqn:Ek; try discriminate.
      destruct ss as [t d| | | |]; try discriminate.
      apply andb_true_iff in Hw as [Hv Hw].
      cbn [mapkey_strs] in Hs.
      destruct (key_to_string env ko v) as [s| |] eqn:Es; try discriminate. cbn [bind] in Hs.
      destruct (mapkey_strs env ko ks vs) as [r| |] eqn:Er; try discriminate. cbn [bind] in Hs.
      injection Hs as <-. inversion Hd; subst.
      cbn [make_entry]. rewrite (Hf k (or_introl eq_refl)), al_find_insert_same.
      rewrite Ek. cbn [bind snd fst].
      rewrite (key_codec env fo ko t v s He Hv Es). cbn [bind].
      rewrite (IH vs r kk' H2 Hw Er).
      + cbn [bind fst snd key_fields]. now rewrite Ek.
      + intros k0 Hin. rewrite (Hf k0 (or_intror Hin)). apply al_find_insert_other.
        intros ->. contradiction. }
  intros mk kk Hd Hw Hs. eapply G; eauto.
Qed.

(* ====================================================================================== *)
(* Refutations                                                                             *)
(* ====================================================================================== *)

(* union { int64; string } holding the string "5": printed "5", read back as the int64 5 *)
Definition un_int_str : ytype := YUnion [YInt I64 []; YStr [] 0].
Definition fo0 : float_oracle := {| ffmt := fun _ => []; fparse := fun _ => None |}.
Definition ko0 : key_oracle := mk_key_oracle [] [] true.

Theorem union_string_not_roundtrip :
  key_to_string [] ko0 (VStr [53]) = Ok [53] /\
  string_to_key [] fo0 ko0 un_int_str [53] = Ok (VInt I64 5) /\
  key_roundtripsb [] fo0 ko0 un_int_str (VStr [53]) = false.
Proof. repeat split; vm_compute; reflexivity. Qed.
